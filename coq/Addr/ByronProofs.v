(* Proofs about the Byron address codec (Byron.v): round trip for every checksum function with
   u64 range (instantiated with CRC-32 in ShelleyProofs.v), trailing bytes refused, totality
   (the fuel of the two loops always suffices). *)
From CSL Require Import Base.Prelude Cbor.Head Cbor.HeadProofs Addr.Crc32 Addr.Byron.
Local Open Scope N_scope.

Lemma firstn_exact {A} (l r : list A) : firstn (length l) (l ++ r) = l.
Proof. induction l as [|x t IH]; [reflexivity|]. cbn. now rewrite IH. Qed.
Lemma skipn_exact {A} (l r : list A) : skipn (length l) (l ++ r) = r.
Proof. induction l as [|x t IH]; [reflexivity|]. cbn. exact IH. Qed.

Section Readers.
  Variable crc : bytes -> N.

  Lemma rd_len_enc major n rest : n < two64 ->
    rd_len major (encode_head major n ++ rest) = Ok (Arg n, rest).
  Proof. intros H. unfold rd_len. rewrite decode_encode_head by exact H. now rewrite N.eqb_refl. Qed.

  Lemma rd_arg_enc major n rest : n < two64 ->
    rd_arg major (encode_head major n ++ rest) = Ok (n, rest).
  Proof. intros H. unfold rd_arg. rewrite decode_encode_head by exact H. now rewrite N.eqb_refl. Qed.

  Lemma rd_bytes_enc b rest : N.of_nat (length b) < two64 ->
    rd_bytes (enc_bytes b ++ rest) = Ok (b, rest).
  Proof.
    intros H. unfold rd_bytes, enc_bytes. rewrite <- app_assoc, decode_encode_head by exact H.
    change (2 =? 2) with true. cbv iota.
    destruct (N.of_nat (length (b ++ rest)) <? N.of_nat (length b)) eqn:E.
    - rewrite app_length in E. lia.
    - rewrite Nat2N.id, firstn_exact, skipn_exact. reflexivity.
  Qed.

  Lemma attrs_loop_zero fuel bs dp pm : attrs_loop fuel 0 bs dp pm = Ok (dp, pm, bs).
  Proof. destruct fuel; reflexivity. Qed.

  Lemma attrs_step_dp f n d rest dp pm : n <> 0 -> N.of_nat (length d) < two64 ->
    attrs_loop (S f) n (enc_uint 1 ++ enc_bytes d ++ rest) dp pm = attrs_loop f (n - 1) rest (Some d) pm.
  Proof.
    intros Hn Hd. cbn [attrs_loop]. destruct (n =? 0) eqn:E; [lia|].
    unfold enc_uint. rewrite rd_arg_enc by (unfold two64; lia). cbn [bind].
    change (1 =? 1) with true. cbv iota. rewrite rd_bytes_enc by exact Hd. reflexivity.
  Qed.

  Lemma attrs_step_pm f n m rest dp pm : n <> 0 -> m < two32 ->
    attrs_loop (S f) n (enc_uint 2 ++ enc_bytes (enc_uint m) ++ rest) dp pm = attrs_loop f (n - 1) rest dp (Some m).
  Proof.
    intros Hn Hm. cbn [attrs_loop]. destruct (n =? 0) eqn:E; [lia|].
    unfold enc_uint at 1. rewrite rd_arg_enc by (unfold two64; lia). cbn [bind].
    change (2 =? 1) with false. change (2 =? 2) with true. cbv iota.
    assert (Hl : N.of_nat (length (enc_uint m)) < two64).
    { unfold enc_uint. rewrite head_length. pose proof (head_size_bounds m). unfold two64. lia. }
    rewrite rd_bytes_enc by exact Hl. cbn [bind].
    unfold enc_uint. rewrite <- (app_nil_r (encode_head 0 m)).
    rewrite rd_arg_enc by (unfold two32, two64 in *; lia). cbn [bind].
    destruct (m <? two32) eqn:E2; [reflexivity|lia].
  Qed.

  Definition wf_attrs (dp : option bytes) (pm : option N) : Prop :=
    (match dp with Some d => N.of_nat (length d) < two64 | None => True end) /\
    (match pm with Some m => m < two32 | None => True end).

  Lemma rd_attrs_enc dp pm rest : wf_attrs dp pm ->
    rd_attrs (enc_attrs dp pm ++ rest) = Ok (dp, pm, rest).
  Proof.
    intros [Hd Hm]. unfold rd_attrs, enc_attrs. rewrite <- !app_assoc.
    rewrite rd_len_enc by (destruct dp, pm; unfold two64; lia). cbn [bind].
    destruct dp as [d|], pm as [m|]; cbn [app].
    - change (1 + 1) with 2. rewrite <- !app_assoc.
      rewrite attrs_step_dp by (try exact Hd; lia).
      change (2 - 1) with 1.
      change (enc_uint 1) with [1]. cbn [app length].
      rewrite attrs_step_pm by (try exact Hm; lia).
      change (1 - 1) with 0. apply attrs_loop_zero.
    - change (1 + 0) with 1. rewrite <- ?app_assoc.
      rewrite attrs_step_dp by (try exact Hd; lia). change (1 - 1) with 0. apply attrs_loop_zero.
    - change (0 + 1) with 1. rewrite <- ?app_assoc.
      rewrite attrs_step_pm by (try exact Hm; lia). change (1 - 1) with 0. apply attrs_loop_zero.
    - change (0 + 0) with 0. apply attrs_loop_zero.
  Qed.

  Lemma byron_type_roundtrip t : byron_type_of (byron_type_code t) = Some t.
  Proof. destruct t; reflexivity. Qed.

  Lemma wf_byron_attrs a : wf_byron a -> wf_attrs (b_dpath a) (b_magic a).
  Proof.
    intros (_ & _ & Hd & Hm). split; [|exact Hm].
    destruct (b_dpath a); [|exact I]. unfold two64. lia.
  Qed.

  Lemma byron_decode_inner_enc a junk : wf_byron a -> byron_decode_inner (byron_inner a ++ junk) = Ok a.
  Proof.
    intros Hwf. pose proof Hwf as (Hl & _ & _ & _). unfold byron_decode_inner, byron_inner.
    rewrite <- !app_assoc. rewrite rd_len_enc by (unfold two64; lia). cbn [bind].
    rewrite rd_bytes_enc by (rewrite Hl; unfold two64; lia). cbn [bind].
    rewrite Hl. change (28 =? 28)%nat with true. cbv iota.
    rewrite rd_attrs_enc by (apply wf_byron_attrs; exact Hwf). cbn [bind].
    unfold enc_uint. rewrite rd_arg_enc by (destruct (b_type a); unfold two64; cbn; lia). cbn [bind].
    rewrite byron_type_roundtrip. destruct a; reflexivity.
  Qed.

  (* length of the inner tuple is far below 2^63 *)
  Lemma enc_bytes_length b : N.of_nat (length (enc_bytes b)) <= 9 + N.of_nat (length b).
  Proof.
    unfold enc_bytes. rewrite app_length, Nat2N.inj_add, head_length.
    pose proof (head_size_bounds (N.of_nat (length b))). lia.
  Qed.

  Lemma byron_inner_length a : wf_byron a -> N.of_nat (length (byron_inner a)) < two63.
  Proof.
    intros (Hl & _ & Hd & Hm). unfold byron_inner, enc_attrs, enc_uint.
    rewrite !app_length, !Nat2N.inj_add, !head_length.
    pose proof (enc_bytes_length (b_addr a)) as H1. rewrite Hl in H1.
    pose proof (head_size_bounds 3). pose proof (head_size_bounds (byron_type_code (b_type a))).
    assert (H2 : N.of_nat (length (match b_dpath a with Some d => encode_head 0 1 ++ enc_bytes d | None => [] end))
                 <= 20 + 4611686018427387904).
    { destruct (b_dpath a) as [d|]; [|cbn; lia]. destruct Hd as [_ Hd].
      rewrite app_length, Nat2N.inj_add, head_length. pose proof (head_size_bounds 1).
      pose proof (enc_bytes_length d). lia. }
    assert (H3 : N.of_nat (length (match b_magic a with Some m => encode_head 0 2 ++ enc_bytes (encode_head 0 m) | None => [] end))
                 <= 40).
    { destruct (b_magic a) as [m|]; [|cbn; lia].
      rewrite app_length, Nat2N.inj_add, head_length. pose proof (head_size_bounds 2).
      pose proof (enc_bytes_length (encode_head 0 m)) as Hx. rewrite head_length in Hx.
      pose proof (head_size_bounds m). lia. }
    pose proof (head_size_bounds ((match b_dpath a with Some _ => 1 | None => 0 end) + (match b_magic a with Some _ => 1 | None => 0 end))).
    unfold two63. lia.
  Qed.

  Hypothesis crc_range : forall bs, crc bs < two64.

  Theorem byron_decode_prefix_enc a rest : wf_byron a ->
    byron_decode_prefix crc (byron_encode crc a ++ rest) = Ok (a, rest).
  Proof.
    intros Hwf. unfold byron_decode_prefix, byron_encode. rewrite <- !app_assoc.
    rewrite rd_len_enc by (unfold two64; lia). cbn [bind].
    rewrite rd_arg_enc by (unfold two64; lia). cbn [bind]. change (24 =? 24) with true. cbv iota.
    pose proof (byron_inner_length a Hwf) as Hlen.
    rewrite rd_bytes_enc by (unfold two63, two64 in *; lia). cbn [bind].
    unfold enc_uint. rewrite rd_arg_enc by apply crc_range. cbn [bind].
    rewrite N.eqb_refl. rewrite <- (app_nil_r (byron_inner a)).
    rewrite byron_decode_inner_enc by exact Hwf. reflexivity.
  Qed.

  (* C11_byron_roundtrip (raw bytes) *)
  Theorem byron_roundtrip a : wf_byron a -> byron_from_bytes crc (byron_encode crc a) = Ok a.
  Proof.
    intros Hwf. unfold byron_from_bytes. rewrite <- (app_nil_r (byron_encode crc a)).
    rewrite byron_decode_prefix_enc by exact Hwf. reflexivity.
  Qed.

  (* the strict parser refuses bytes after the address *)
  Theorem byron_rejects_trailing a x t : wf_byron a ->
    byron_from_bytes crc (byron_encode crc a ++ x :: t) = Err.
  Proof.
    intros Hwf. unfold byron_from_bytes. rewrite byron_decode_prefix_enc by exact Hwf. reflexivity.
  Qed.

  Lemma byron_encode_head a : exists tl, byron_encode crc a = 130 :: tl.
  Proof. unfold byron_encode. eexists. reflexivity. Qed.

  (* ---------------- totality: the loops never run out of fuel ---------------- *)
  Lemma rd_chunks_total fuel : forall bs acc, (length bs < fuel)%nat ->
    rd_chunks fuel bs acc <> OutOfFuel /\
    (forall v r, rd_chunks fuel bs acc = Ok (v, r) -> (length r <= length bs)%nat).
  Proof.
    induction fuel as [|f IH]; intros bs acc Hl; [lia|]. cbn [rd_chunks].
    destruct bs as [|b r]; [split; [discriminate|discriminate]|].
    destruct (b / 32 =? 7).
    { destruct (b mod 32 =? 31); split; try discriminate.
      intros v r0 H; injection H as _ <-. cbn; lia. }
    destruct (decode_head (b :: r)) as [[[m [n|]] r']|] eqn:E; try (split; discriminate).
    destruct (m =? 2); [|split; discriminate].
    destruct (N.of_nat (length r') <? n); [split; discriminate|].
    pose proof (decode_head_shorter _ _ _ _ E) as Hs.
    assert (Hk : (length (skipn (N.to_nat n) r') <= length r')%nat) by (rewrite skipn_length; lia).
    destruct (IH (skipn (N.to_nat n) r') (acc ++ firstn (N.to_nat n) r') ltac:(lia)) as [H1 H2].
    split; [exact H1|]. intros v r0 H. specialize (H2 _ _ H). lia.
  Qed.

  Lemma rd_bytes_total bs : rd_bytes bs <> OutOfFuel /\
    (forall v r, rd_bytes bs = Ok (v, r) -> (length r <= length bs)%nat).
  Proof.
    unfold rd_bytes. destruct (decode_head bs) as [[[m [n|]] r]|] eqn:E; try (split; discriminate).
    - destruct (m =? 2); [|split; discriminate].
      destruct (N.of_nat (length r) <? n).
      + destruct (two63 <=? n); split; discriminate.
      + split; [discriminate|]. intros v r0 H; injection H as _ <-.
        pose proof (decode_head_shorter _ _ _ _ E). rewrite skipn_length. lia.
    - destruct (m =? 2); [|split; discriminate].
      pose proof (decode_head_shorter _ _ _ _ E) as Hs.
      destruct (rd_chunks_total (S (length r)) r [] ltac:(lia)) as [H1 H2].
      split; [exact H1|]. intros v r0 H. specialize (H2 _ _ H). lia.
  Qed.

  Lemma rd_arg_shorter major bs n r : rd_arg major bs = Ok (n, r) -> (length r < length bs)%nat.
  Proof.
    unfold rd_arg. destruct (decode_head bs) as [[[m [k|]] r']|] eqn:E; try discriminate.
    destruct (m =? major); [|discriminate]. intros H; injection H as _ <-.
    exact (decode_head_shorter _ _ _ _ E).
  Qed.

  Lemma rd_arg_not_fuel major bs : rd_arg major bs <> OutOfFuel.
  Proof.
    unfold rd_arg. destruct (decode_head bs) as [[[m [k|]] r']|]; try discriminate.
    destruct (m =? major); discriminate.
  Qed.

  Lemma rd_len_shorter major bs a r : rd_len major bs = Ok (a, r) -> (length r < length bs)%nat.
  Proof.
    unfold rd_len. destruct (decode_head bs) as [[[m k] r']|] eqn:E; try discriminate.
    destruct (m =? major); [|discriminate]. intros H; injection H as _ <-.
    exact (decode_head_shorter _ _ _ _ E).
  Qed.

  Lemma rd_len_not_fuel major bs : rd_len major bs <> OutOfFuel.
  Proof.
    unfold rd_len. destruct (decode_head bs) as [[[m k] r']|]; try discriminate.
    destruct (m =? major); discriminate.
  Qed.

  Lemma attrs_loop_total fuel : forall n bs dp pm, (length bs < fuel)%nat ->
    attrs_loop fuel n bs dp pm <> OutOfFuel.
  Proof.
    induction fuel as [|f IH]; intros n bs dp pm Hl; [lia|]. cbn [attrs_loop].
    destruct (n =? 0); [discriminate|].
    destruct (rd_arg 0 bs) as [[key r1]| | |] eqn:E1; cbn [bind]; try discriminate.
    2:{ exfalso. eapply rd_arg_not_fuel; exact E1. }
    pose proof (rd_arg_shorter _ _ _ _ E1) as Hs.
    destruct (key =? 1).
    - destruct (rd_bytes_total r1) as [Hn Hle].
      destruct (rd_bytes r1) as [[v r2]| | |] eqn:E2; cbn [bind]; try discriminate; [|congruence].
      specialize (Hle _ _ eq_refl). apply IH. lia.
    - destruct (key =? 2); [|discriminate].
      destruct (rd_bytes_total r1) as [Hn Hle].
      destruct (rd_bytes r1) as [[v r2]| | |] eqn:E2; cbn [bind]; try discriminate; [|congruence].
      specialize (Hle _ _ eq_refl).
      destruct (rd_arg 0 v) as [[magic r3]| | |] eqn:E3; cbn [bind]; try discriminate.
      2:{ exfalso. eapply rd_arg_not_fuel; exact E3. }
      destruct (magic <? two32); [|discriminate]. apply IH. lia.
  Qed.

  Lemma rd_attrs_total bs : rd_attrs bs <> OutOfFuel.
  Proof.
    unfold rd_attrs. destruct (rd_len 5 bs) as [[[n|] r]| | |] eqn:E; cbn [bind]; try discriminate.
    - apply attrs_loop_total. lia.
    - exfalso. eapply rd_len_not_fuel; exact E.
  Qed.

  Lemma byron_decode_inner_total inner : byron_decode_inner inner <> OutOfFuel.
  Proof.
    unfold byron_decode_inner.
    destruct (rd_len 4 inner) as [[len i1]| | |] eqn:E; cbn [bind]; try discriminate.
    2:{ exfalso. eapply rd_len_not_fuel; exact E. }
    destruct len as [n|]; [|discriminate].
    destruct n as [|p]; [discriminate|]. destruct p as [p|p|]; try discriminate.
    destruct p as [p|p|]; try discriminate.
    destruct (rd_bytes_total i1) as [Hn _].
    destruct (rd_bytes i1) as [[addr i2]| | |] eqn:E2; cbn [bind]; try discriminate; [|congruence].
    destruct (length addr =? 28)%nat; [|discriminate].
    pose proof (rd_attrs_total i2) as Ha.
    destruct (rd_attrs i2) as [[[dp pm] i3]| | |] eqn:E3; cbn [bind]; try discriminate; [|congruence].
    destruct (rd_arg 0 i3) as [[ty r]| | |] eqn:E4; cbn [bind]; try discriminate.
    2:{ exfalso. eapply rd_arg_not_fuel; exact E4. }
    destruct (byron_type_of ty); discriminate.
  Qed.

  Theorem byron_from_bytes_total bs : byron_from_bytes crc bs <> OutOfFuel.
  Proof.
    unfold byron_from_bytes, byron_decode_prefix.
    destruct (rd_len 4 bs) as [[len r1]| | |] eqn:E; cbn [bind]; try discriminate.
    2:{ exfalso. eapply rd_len_not_fuel; exact E. }
    destruct len as [n|]; [|discriminate].
    destruct n as [|p]; [discriminate|]. destruct p as [p|p|]; try discriminate.
    destruct p as [p|p|]; try discriminate.
    destruct (rd_arg 6 r1) as [[tag r2]| | |] eqn:E1; cbn [bind]; try discriminate.
    2:{ exfalso. eapply rd_arg_not_fuel; exact E1. }
    destruct (tag =? 24); [|discriminate].
    destruct (rd_bytes_total r2) as [Hn _].
    destruct (rd_bytes r2) as [[inner r3]| | |] eqn:E2; cbn [bind]; try discriminate; [|congruence].
    destruct (rd_arg 0 r3) as [[c r4]| | |] eqn:E3; cbn [bind]; try discriminate.
    2:{ exfalso. eapply rd_arg_not_fuel; exact E3. }
    destruct (c =? crc inner); [|discriminate].
    pose proof (byron_decode_inner_total inner) as Hi.
    destruct (byron_decode_inner inner) as [a| | |]; cbn [bind]; try discriminate; [|congruence].
    destruct r4; discriminate.
  Qed.
End Readers.

(* ================= truncation ================= *)
Lemma split_at_short k (l : bytes) : (length l < k)%nat -> split_at k l = None.
Proof. intros H. unfold split_at. destruct (k <=? length l)%nat eqn:E; [apply Nat.leb_le in E; lia|reflexivity]. Qed.

(* a proper prefix of a head is not a head *)
Lemma decode_head_truncated m n j : m < 8 -> (j < length (encode_head m n))%nat ->
  decode_head (firstn j (encode_head m n)) = None.
Proof.
  intros Hm Hj. destruct j as [|j]; [reflexivity|].
  unfold encode_head in *.
  destruct (n <? 24) eqn:E1; [cbn [length] in Hj; lia|].
  assert (G : forall c k, (c = 24 /\ k = 1%nat) \/ (c = 25 /\ k = 2%nat) \/ (c = 26 /\ k = 4%nat) \/ (c = 27 /\ k = 8%nat) ->
            (j < k)%nat -> decode_head (firstn (S j) ((m * 32 + c) :: be k n)) = None).
  { intros c k Hck Hk. cbn [firstn decode_head].
    assert (Hl : (length (firstn j (be k n)) < k)%nat) by (rewrite firstn_length, be_length; lia).
    destruct Hck as [[-> ->]|[[-> ->]|[[-> ->]| [-> ->]]]];
      match goal with |- context [(m * 32 + ?c) mod 32] => destruct (initial_byte m c ltac:(lia)) as [_ ->] end;
      repeat match goal with
        | |- context [?a <? ?b] => let v := eval vm_compute in (a <? b) in
            match v with true => change (a <? b) with true | false => change (a <? b) with false end
        | |- context [?a =? ?b] => let v := eval vm_compute in (a =? b) in
            match v with true => change (a =? b) with true | false => change (a =? b) with false end
        end; cbv beta iota zeta; now rewrite split_at_short by exact Hl. }
  destruct (n <? 256); [apply G; [tauto|]; cbn [length] in Hj; rewrite ?be_length in Hj; lia|].
  destruct (n <? 65536); [apply G; [tauto|]; cbn [length] in Hj; rewrite ?be_length in Hj; lia|].
  destruct (n <? 4294967296); (apply G; [tauto|]; cbn [length] in Hj; rewrite ?be_length in Hj; lia).
Qed.

Section Truncation.
  Variable crc : bytes -> N.
  Hypothesis crc_range : forall bs, crc bs < two64.

  Lemma rd_len_truncated major n j : major < 8 -> (j < length (encode_head major n))%nat ->
    rd_len major (firstn j (encode_head major n)) = Err.
  Proof. intros Hm Hj. unfold rd_len. now rewrite decode_head_truncated. Qed.
  Lemma rd_arg_truncated major n j : major < 8 -> (j < length (encode_head major n))%nat ->
    rd_arg major (firstn j (encode_head major n)) = Err.
  Proof. intros Hm Hj. unfold rd_arg. now rewrite decode_head_truncated. Qed.

  Lemma rd_bytes_truncated b rest j : N.of_nat (length b) < two63 -> (j < length (enc_bytes b))%nat ->
    rd_bytes (firstn j (enc_bytes b ++ rest)) = Err.
  Proof.
    intros Hb Hj. unfold enc_bytes in *. rewrite <- app_assoc, firstn_app.
    set (H := encode_head 2 (N.of_nat (length b))) in *.
    destruct (Nat.lt_ge_cases j (length H)) as [Hlt|Hge].
    - replace (j - length H)%nat with 0%nat by lia. cbn [firstn]. rewrite app_nil_r.
      unfold rd_bytes, H. rewrite decode_head_truncated by (fold H; lia). reflexivity.
    - rewrite firstn_all2 by lia. rewrite app_length in Hj.
      unfold rd_bytes, H. rewrite decode_encode_head by (unfold two63, two64 in *; lia).
      change (2 =? 2) with true. cbv iota. fold H.
      assert (Hl : (length (firstn (j - length H) (b ++ rest)) < length b)%nat).
      { rewrite firstn_length. lia. }
      destruct (N.of_nat (length (firstn (j - length H) (b ++ rest))) <? N.of_nat (length b)) eqn:E; [|lia].
      destruct (two63 <=? N.of_nat (length b)) eqn:E2; [lia|reflexivity].
  Qed.

  (* every proper prefix of a written Byron address is refused (an error, not a panic) *)
  Theorem byron_rejects_truncation a k : wf_byron a -> (k < length (byron_encode crc a))%nat ->
    byron_from_bytes crc (firstn k (byron_encode crc a)) = Err.
  Proof.
    intros Hwf Hk. unfold byron_from_bytes, byron_decode_prefix.
    pose proof (byron_inner_length crc a Hwf) as Hlen.
    unfold byron_encode in *. set (inner := byron_inner a) in *.
    change (encode_head 4 2) with [130] in *. change (encode_head 6 24) with [216; 24] in *.
    destruct k as [|k]; [reflexivity|].
    cbn [app firstn]. change (130 :: ?x) with (encode_head 4 2 ++ x).
    rewrite rd_len_enc by (unfold two64; lia). cbn [bind].
    cbn [app length] in Hk.
    destruct k as [|[|k]].
    - reflexivity.
    - reflexivity.
    - cbn [firstn]. change (216 :: 24 :: ?x) with (encode_head 6 24 ++ x).
      rewrite rd_arg_enc by (unfold two64; lia). cbn [bind]. change (24 =? 24) with true. cbv iota.
      rewrite app_length in Hk.
      destruct (Nat.lt_ge_cases k (length (enc_bytes inner))) as [Hlt|Hge].
      + rewrite rd_bytes_truncated by assumption. reflexivity.
      + rewrite firstn_app, firstn_all2 by lia.
        rewrite (rd_bytes_enc crc) by (unfold two63, two64 in *; lia). cbn [bind].
        unfold enc_uint. rewrite rd_arg_truncated by (lia || (unfold enc_uint in Hk; lia)). reflexivity.
  Qed.
End Truncation.

(* ================= what the parser returns is well-formed ================= *)
Lemma bytes_ok_firstn k (l : bytes) : bytes_ok l -> bytes_ok (firstn k l).
Proof.
  unfold bytes_ok. revert l; induction k as [|k IH]; intros l H; [constructor|].
  destruct l as [|x t]; [constructor|]. inversion H; subst. cbn. constructor; auto.
Qed.
Lemma bytes_ok_skipn' k (l : bytes) : bytes_ok l -> bytes_ok (skipn k l).
Proof.
  unfold bytes_ok. revert l; induction k as [|k IH]; intros l H; [exact H|].
  destruct l as [|x t]; [constructor|]. inversion H; subst. cbn. auto.
Qed.

Lemma Forall_app_intro {A} (P : A -> Prop) l1 l2 : Forall P l1 -> Forall P l2 -> Forall P (l1 ++ l2).
Proof. intros. apply Forall_app. split; assumption. Qed.

Lemma decode_head_rest_ok bs m a r : bytes_ok bs -> decode_head bs = Some (m, a, r) -> bytes_ok r.
Proof.
  intros Hok H. destruct (decode_head_suffix _ _ _ _ H) as (pre & -> & _).
  unfold bytes_ok in *. apply Forall_app in Hok. tauto.
Qed.

Section Parsed.
  Variable crc : bytes -> N.

  Lemma rd_arg_ok major bs n r : bytes_ok bs -> rd_arg major bs = Ok (n, r) -> bytes_ok r /\ (length r < length bs)%nat.
  Proof.
    intros Hok H. split; [|eapply rd_arg_shorter; exact H]. unfold rd_arg in H.
    destruct (decode_head bs) as [[[m [k|]] r']|] eqn:E; try discriminate.
    destruct (m =? major); [|discriminate]. injection H as _ <-. eapply decode_head_rest_ok; eassumption.
  Qed.
  Lemma rd_len_ok major bs a r : bytes_ok bs -> rd_len major bs = Ok (a, r) -> bytes_ok r /\ (length r < length bs)%nat.
  Proof.
    intros Hok H. split; [|eapply rd_len_shorter; exact H]. unfold rd_len in H.
    destruct (decode_head bs) as [[[m k] r']|] eqn:E; try discriminate.
    destruct (m =? major); [|discriminate]. injection H as _ <-. eapply decode_head_rest_ok; eassumption.
  Qed.

  Lemma rd_chunks_ok fuel : forall bs acc v r, bytes_ok bs -> bytes_ok acc ->
    rd_chunks fuel bs acc = Ok (v, r) ->
    bytes_ok v /\ bytes_ok r /\ (length v + length r <= length acc + length bs)%nat.
  Proof.
    induction fuel as [|f IH]; intros bs acc v r Hbs Hacc H; [discriminate|]. cbn [rd_chunks] in H.
    destruct bs as [|b t]; [discriminate|].
    destruct (b / 32 =? 7).
    { destruct (b mod 32 =? 31); [|discriminate]. injection H as <- <-.
      inversion Hbs; subst. cbn [length]. repeat split; auto; lia. }
    destruct (decode_head (b :: t)) as [[[m [n|]] r']|] eqn:E; try discriminate.
    destruct (m =? 2); [|discriminate].
    destruct (N.of_nat (length r') <? n) eqn:En; [discriminate|].
    pose proof (decode_head_rest_ok _ _ _ _ Hbs E) as Hr'.
    pose proof (decode_head_shorter _ _ _ _ E) as Hs.
    destruct (IH _ _ _ _ (bytes_ok_skipn' _ _ Hr') (Forall_app_intro _ _ _ Hacc (bytes_ok_firstn (N.to_nat n) _ Hr')) H) as (A & B & C).
    repeat split; auto. rewrite app_length, firstn_length, skipn_length in C. lia.
  Qed.

  Lemma rd_bytes_ok bs v r : bytes_ok bs -> rd_bytes bs = Ok (v, r) ->
    bytes_ok v /\ bytes_ok r /\ (length v + length r <= length bs)%nat.
  Proof.
    intros Hok H. unfold rd_bytes in H.
    destruct (decode_head bs) as [[[m [n|]] r']|] eqn:E; try discriminate.
    - destruct (m =? 2); [|discriminate].
      destruct (N.of_nat (length r') <? n) eqn:En; [destruct (two63 <=? n); discriminate|].
      injection H as <- <-. pose proof (decode_head_rest_ok _ _ _ _ Hok E) as Hr'.
      pose proof (decode_head_shorter _ _ _ _ E).
      repeat split; [apply bytes_ok_firstn, Hr'|apply bytes_ok_skipn', Hr'|].
      rewrite firstn_length, skipn_length. lia.
    - destruct (m =? 2); [|discriminate].
      pose proof (decode_head_rest_ok _ _ _ _ Hok E) as Hr'. pose proof (decode_head_shorter _ _ _ _ E).
      destruct (rd_chunks_ok _ _ _ _ _ Hr' ltac:(constructor) H) as (A & B & C). cbn [length] in C.
      repeat split; auto. lia.
  Qed.

  Definition dp_ok (L : nat) (dp : option bytes) : Prop :=
    match dp with Some d => bytes_ok d /\ (length d <= L)%nat | None => True end.
  Definition pm_ok (pm : option N) : Prop := match pm with Some m => m < two32 | None => True end.

  Lemma attrs_loop_ok L fuel : forall n bs dp pm dp' pm' r, bytes_ok bs -> (length bs <= L)%nat ->
    dp_ok L dp -> pm_ok pm -> attrs_loop fuel n bs dp pm = Ok (dp', pm', r) ->
    dp_ok L dp' /\ pm_ok pm' /\ bytes_ok r.
  Proof.
    induction fuel as [|f IH]; intros n bs dp pm dp' pm' r Hbs HL Hdp Hpm H; cbn [attrs_loop] in H.
    - destruct (n =? 0); [|discriminate]. inversion H; subst. auto.
    - destruct (n =? 0); [inversion H; subst; auto|].
      destruct (rd_arg 0 bs) as [[key r1]| | |] eqn:E1; cbn [bind] in H; try discriminate.
      destruct (rd_arg_ok _ _ _ _ Hbs E1) as [Hr1 Hl1].
      destruct (key =? 1).
      + destruct (rd_bytes r1) as [[v r2]| | |] eqn:E2; cbn [bind] in H; try discriminate.
        destruct (rd_bytes_ok _ _ _ Hr1 E2) as (Hv & Hr2 & Hl2).
        refine (IH _ _ _ _ _ _ _ Hr2 _ _ Hpm H); [lia|cbn [dp_ok]; split; [exact Hv|lia]].
      + destruct (key =? 2); [|discriminate].
        destruct (rd_bytes r1) as [[v r2]| | |] eqn:E2; cbn [bind] in H; try discriminate.
        destruct (rd_bytes_ok _ _ _ Hr1 E2) as (Hv & Hr2 & Hl2).
        destruct (rd_arg 0 v) as [[magic r3]| | |] eqn:E3; cbn [bind] in H; try discriminate.
        destruct (magic <? two32) eqn:Em; [|discriminate].
        refine (IH _ _ _ _ _ _ _ Hr2 _ Hdp _ H); [lia|cbn [pm_ok]; lia].
  Qed.

  Lemma byron_decode_inner_wf inner a : bytes_ok inner -> byron_decode_inner inner = Ok a ->
    length (b_addr a) = 28%nat /\ bytes_ok (b_addr a) /\ dp_ok (length inner) (b_dpath a) /\ pm_ok (b_magic a).
  Proof.
    intros Hok H. unfold byron_decode_inner in H.
    destruct (rd_len 4 inner) as [[len i1]| | |] eqn:E; cbn [bind] in H; try discriminate.
    destruct (rd_len_ok _ _ _ _ Hok E) as [Hi1 Hl1].
    destruct len as [n|]; [|discriminate].
    destruct n as [|p]; [discriminate|]. destruct p as [p|p|]; try discriminate.
    destruct p as [p|p|]; try discriminate.
    destruct (rd_bytes i1) as [[addr i2]| | |] eqn:E2; cbn [bind] in H; try discriminate.
    destruct (rd_bytes_ok _ _ _ Hi1 E2) as (Haddr & Hi2 & Hl2).
    destruct (length addr =? 28)%nat eqn:E28; [|discriminate]. apply Nat.eqb_eq in E28.
    unfold rd_attrs in H.
    destruct (rd_len 5 i2) as [[[n|] r]| | |] eqn:E3; cbn [bind] in H; try discriminate.
    destruct (rd_len_ok _ _ _ _ Hi2 E3) as [Hr Hl3].
    destruct (attrs_loop (S (length r)) n r None None) as [[[dp pm] i3]| | |] eqn:E4; cbn [bind] in H; try discriminate.
    destruct (attrs_loop_ok (length inner) _ _ _ None None _ _ _ Hr ltac:(lia) I I E4) as (Hdp & Hpm & Hi3).
    destruct (rd_arg 0 i3) as [[ty r']| | |]; cbn [bind] in H; try discriminate.
    destruct (byron_type_of ty); [|discriminate]. injection H as <-. cbn. auto.
  Qed.

  (* every Byron address the parser returns satisfies wf_byron (inputs shorter than 2^62 bytes) *)
  Theorem byron_from_bytes_wf data a : bytes_ok data -> N.of_nat (length data) < 4611686018427387904 ->
    byron_from_bytes crc data = Ok a -> wf_byron a.
  Proof.
    intros Hok HL H. unfold byron_from_bytes, byron_decode_prefix in H.
    destruct (rd_len 4 data) as [[len r1]| | |] eqn:E; cbn [bind] in H; try discriminate.
    destruct (rd_len_ok _ _ _ _ Hok E) as [Hr1 Hl1].
    destruct len as [n|]; [|discriminate].
    destruct n as [|p]; [discriminate|]. destruct p as [p|p|]; try discriminate.
    destruct p as [p|p|]; try discriminate.
    destruct (rd_arg 6 r1) as [[tag r2]| | |] eqn:E1; cbn [bind] in H; try discriminate.
    destruct (rd_arg_ok _ _ _ _ Hr1 E1) as [Hr2 Hl2].
    destruct (tag =? 24); [|discriminate].
    destruct (rd_bytes r2) as [[inner r3]| | |] eqn:E2; cbn [bind] in H; try discriminate.
    destruct (rd_bytes_ok _ _ _ Hr2 E2) as (Hinner & Hr3 & Hl3).
    destruct (rd_arg 0 r3) as [[c r4]| | |]; cbn [bind] in H; try discriminate.
    destruct (c =? crc inner); [|discriminate].
    destruct (byron_decode_inner inner) as [a'| | |] eqn:E3; cbn [bind] in H; try discriminate.
    destruct r4; [|discriminate]. injection H as <-.
    destruct (byron_decode_inner_wf inner a' Hinner E3) as (A & B & C & D).
    unfold wf_byron. repeat split; auto.
    - unfold dp_ok in C. destruct (b_dpath a'); [|exact I]. destruct C as [C1 C2]. split; [exact C1|lia].
  Qed.
End Parsed.
