(* Model of rust/src/fees.rs.  All integers are Z; u64 range checks are explicit. *)
From CSL Require Import Base.Prelude Fees.Rational.
Local Open Scope Z_scope.

Definition zchecked_add (a b : Z) : result Z := if a + b <? two64Z then Ok (a + b) else Err.
Definition zchecked_mul (a b : Z) : result Z := if a * b <? two64Z then Ok (a * b) else Err.

(* min_fee_for_size(size, LinearFee{coefficient, constant}) *)
Definition min_fee_for_size (size coeff const : Z) : result Z :=
  let* m := zchecked_mul size coeff in zchecked_add m const.

(* calculate_ex_units_ceil_cost(ExUnits{mem, steps}, ExUnitPrices{mem_price, step_price}) *)
Definition ex_units_ceil_cost (mem steps mpn mpd spn spd : Z) : result Z :=
  let mem_ratio := rmul_int (rnew mpn mpd) mem in
  let steps_ratio := rmul_int (rnew spn spd) steps in
  to_bignum_ceil (radd mem_ratio steps_ratio).

(* Redeemers::total_ex_units: checked sums over the redeemer list *)
Fixpoint total_ex_units (l : list (Z * Z)) (tm ts : Z) : result (Z * Z) :=
  match l with
  | [] => Ok (tm, ts)
  | (m, s) :: t => let* tm' := zchecked_add tm m in let* ts' := zchecked_add ts s in total_ex_units t tm' ts'
  end.

(* min_script_fee(tx, prices): None redeemers => 0 *)
Definition min_script_fee (redeemers : option (list (Z * Z))) (mpn mpd spn spd : Z) : result Z :=
  match redeemers with
  | None => Ok 0
  | Some l => let* '(m, s) := total_ex_units l 0 0 in ex_units_ceil_cost m s mpn mpd spn spd
  end.

(* tier_ref_script_fee(multiplier, size_increment, base_fee, total_size); `as u32` is a truncating cast *)
Definition tier_ref_script_fee (multiplier : rat) (inc : Z) (base_fee : rat) (total : Z) : result Z :=
  if ris_negative_or_zero multiplier || (inc =? 0) then Err else
  let full_tiers := (total / inc) mod 4294967296 in
  let partial := total mod inc in
  let tier_price := rmul_int base_fee inc in
  let acc0 := rzero in
  let acc1 :=
    if 0 <? full_tiers then
      let pe := rsub rone (rpow multiplier full_tiers) in
      let pd := rsub rone multiplier in
      let s := rdiv_ratio pe pd in
      radd acc0 (rmul_ratio tier_price s)
    else acc0 in
  let acc2 :=
    if 0 <? partial then
      let last := rmul_ratio base_fee (rpow multiplier full_tiers) in
      radd acc1 (rmul_int last partial)
    else acc1 in
  to_bignum_floor acc2.

(* min_ref_script_fee(total_ref_scripts_size, ref_script_coins_per_byte) *)
Definition min_ref_script_fee (total pn pd : Z) : result Z :=
  tier_ref_script_fee (rnew 12 10) 25600 (rnew pn pd) total.
