(* Proofs for C15: the model of fees.rs/rational.rs computes the ledger's definitions. *)
From CSL Require Import Base.Prelude Fees.Rational Fees.Fees Fees.TierSpec.
From Coq Require Import QArith Qround Qfield.
Local Open Scope Z_scope.

(* ---------- u64 glue ---------- *)
Lemma as_u64_exact v : 0 <= v -> as_u64 v = exact_or_error v.
Proof.
  intros Hv. unfold as_u64, exact_or_error.
  destruct (0 <=? v) eqn:E; [|lia]. cbn [andb]. reflexivity.
Qed.

(* ---------- linear fee ---------- *)
Theorem linear_fee_exact size coeff const :
  0 <= size -> 0 <= coeff -> 0 <= const ->
  min_fee_for_size size coeff const = exact_or_error (spec_linear_fee size coeff const).
Proof.
  intros Hs Hc Hk. unfold min_fee_for_size, zchecked_mul, zchecked_add, exact_or_error, spec_linear_fee, bind.
  unfold two64Z in *.
  destruct (size * coeff <? 18446744073709551616) eqn:E1.
  - replace (coeff * size) with (size * coeff) by lia. reflexivity.
  - destruct (coeff * size + const <? 18446744073709551616) eqn:E2; [nia|reflexivity].
Qed.

(* ---------- non-negative rationals with positive denominator ---------- *)
Definition good (r : rat) : Prop := 0 <= rnum r /\ 0 < rden r.
Definition qv (r : rat) : Q := Qmake (rnum r) (Z.to_pos (rden r)).

Lemma rnew_good n d : 0 <= n -> 0 < d -> rnew n d = mkRat n d.
Proof.
  intros Hn Hd. unfold rnew, reduce_minuses. cbn [rnum rden].
  destruct (n <? 0) eqn:E; [lia|]. reflexivity.
Qed.

Lemma qv_mk n d : 0 < d -> qv (mkRat n d) == inject_Z n / inject_Z d.
Proof.
  intros Hd. unfold qv. cbn [rnum rden].
  rewrite (Qmake_Qdiv n (Z.to_pos d)). rewrite Z2Pos.id by lia. reflexivity.
Qed.

Lemma good_mk n d : 0 <= n -> 0 < d -> good (mkRat n d).
Proof. intros; split; cbn; lia. Qed.

Lemma inject_Z_minus x y : inject_Z (x - y) = (inject_Z x - inject_Z y)%Q.
Proof. unfold Z.sub, Qminus. rewrite inject_Z_plus, inject_Z_opp. reflexivity. Qed.

Lemma inj_nz d : 0 < d -> ~ inject_Z d == 0.
Proof. intros Hd H. unfold Qeq in H. cbn in H. lia. Qed.

Lemma rmul_int_good r x : good r -> 0 <= x ->
  rmul_int r x = mkRat (rnum r * x) (rden r).
Proof. intros [Hn Hd] Hx. unfold rmul_int. apply rnew_good; nia. Qed.

Lemma rmul_ratio_good a b : good a -> good b ->
  rmul_ratio a b = mkRat (rnum a * rnum b) (rden a * rden b).
Proof. intros [Hn Hd] [Hn' Hd']. unfold rmul_ratio. apply rnew_good; nia. Qed.

Lemma radd_good a b : good a -> good b ->
  good (radd a b) /\ qv (radd a b) == qv a + qv b.
Proof.
  intros [Hn Hd] [Hn' Hd']. unfold radd.
  destruct (rnum a =? 0) eqn:Ea.
  { split; [split; assumption|]. destruct a as [na da]; cbn [rnum rden] in *.
    rewrite (qv_mk na da) by lia. assert (na = 0) by lia. subst na.
    unfold Qdiv. ring. }
  destruct (rnum b =? 0) eqn:Eb.
  { split; [split; assumption|]. destruct b as [nb db]; cbn [rnum rden] in *.
    rewrite (qv_mk nb db) by lia. assert (nb = 0) by lia. subst nb.
    unfold Qdiv. ring. }
  rewrite rnew_good by nia. split; [apply good_mk; nia|].
  destruct a as [na da], b as [nb db]; cbn [rnum rden] in *.
  rewrite !qv_mk by nia.
  rewrite !inject_Z_plus, !inject_Z_mult.
  field. split; apply inj_nz; lia.
Qed.

Lemma floor_good r : good r -> to_bignum_floor r = exact_or_error (Qfloor (qv r)).
Proof.
  intros [Hn Hd]. unfold to_bignum_floor.
  destruct (rden r =? 0) eqn:E; [lia|].
  unfold qv. cbn [Qfloor]. rewrite Z2Pos.id by lia.
  apply as_u64_exact. apply Z.div_pos; lia.
Qed.

Lemma ceil_good r : good r -> to_bignum_ceil r = exact_or_error (Qceiling (qv r)).
Proof.
  intros [Hn Hd]. unfold to_bignum_ceil.
  destruct (rden r =? 0) eqn:E; [lia|].
  unfold Qceiling, qv, zdiv_ceil. cbn [Qopp Qfloor Qnum Qden]. rewrite Z2Pos.id by lia.
  apply as_u64_exact.
  assert (- rnum r / rden r <= 0); [|lia].
  apply Z.div_le_upper_bound; lia.
Qed.

(* ---------- script fee ---------- *)
Theorem ex_units_cost_exact mem steps mpn mpd spn spd :
  0 <= mem -> 0 <= steps -> 0 <= mpn -> 0 < mpd -> 0 <= spn -> 0 < spd ->
  ex_units_ceil_cost mem steps mpn mpd spn spd =
  exact_or_error (spec_script_fee mem steps (Qmake mpn (Z.to_pos mpd)) (Qmake spn (Z.to_pos spd))).
Proof.
  intros Hm Hs H1 H2 H3 H4. unfold ex_units_ceil_cost, spec_script_fee.
  rewrite (rnew_good mpn mpd), (rnew_good spn spd) by lia.
  rewrite !rmul_int_good by (try apply good_mk; lia). cbn [rnum rden].
  destruct (radd_good (mkRat (mpn * mem) mpd) (mkRat (spn * steps) spd)) as [Hg Hq];
    [apply good_mk; nia | apply good_mk; nia |].
  rewrite ceil_good by exact Hg. f_equal.
  apply Qceiling_comp. rewrite Hq. rewrite !qv_mk by lia.
  rewrite (Qmake_Qdiv mpn), (Qmake_Qdiv spn). rewrite !Z2Pos.id by lia.
  rewrite !inject_Z_mult. field. split; apply inj_nz; lia.
Qed.

(* total_ex_units is the exact sum or an error *)
Fixpoint sum_fst (l : list (Z * Z)) : Z := match l with [] => 0 | (m, _) :: t => m + sum_fst t end.
Fixpoint sum_snd (l : list (Z * Z)) : Z := match l with [] => 0 | (_, s) :: t => s + sum_snd t end.
Definition all_nonneg (l : list (Z * Z)) : Prop := Forall (fun p => 0 <= fst p /\ 0 <= snd p) l.

Lemma sum_nonneg l : all_nonneg l -> 0 <= sum_fst l /\ 0 <= sum_snd l.
Proof. induction 1 as [|[m s] t [Hm Hs] _ IH]; cbn in *; lia. Qed.

Theorem total_ex_units_exact l : all_nonneg l -> forall tm ts, 0 <= tm -> 0 <= ts ->
  total_ex_units l tm ts =
  if (tm + sum_fst l <? two64Z) && (ts + sum_snd l <? two64Z) then Ok (tm + sum_fst l, ts + sum_snd l)
  else match l with [] => Ok (tm, ts) | _ => Err end.
Proof.
  induction 1 as [|[m s] t [Hm Hs] Hall IH]; intros tm ts Htm Hts; cbn [total_ex_units sum_fst sum_snd].
  - rewrite !Z.add_0_r. destruct ((tm <? two64Z) && (ts <? two64Z)); reflexivity.
  - cbn [fst snd] in *. pose proof (sum_nonneg t Hall) as [Hf Hn].
    unfold zchecked_add, bind. unfold two64Z in *.
    destruct (tm + m <? 18446744073709551616) eqn:E1.
    2:{ destruct (tm + (m + sum_fst t) <? 18446744073709551616) eqn:E; [lia|]. reflexivity. }
    destruct (ts + s <? 18446744073709551616) eqn:E2.
    2:{ destruct (ts + (s + sum_snd t) <? 18446744073709551616) eqn:E; [lia|]. rewrite andb_false_r. reflexivity. }
    rewrite IH by lia. rewrite !Z.add_assoc.
    destruct ((tm + m + sum_fst t <? 18446744073709551616) && (ts + s + sum_snd t <? 18446744073709551616)) eqn:E; [reflexivity|].
    destruct t as [|p t']; [|reflexivity].
    cbn [sum_fst sum_snd] in E. rewrite !Z.add_0_r in E. rewrite E1, E2 in E. discriminate.
Qed.

(* on overflow the result is Err (never a wrong number) *)
Lemma total_ex_units_not_wrong l : all_nonneg l -> forall tm ts, 0 <= tm -> 0 <= ts ->
  total_ex_units l tm ts = Ok (tm + sum_fst l, ts + sum_snd l) \/ total_ex_units l tm ts = Err.
Proof.
  induction 1 as [|[m s] t [Hm Hs] Hall IH]; intros tm ts Htm Hts; cbn [total_ex_units sum_fst sum_snd].
  - left. rewrite !Z.add_0_r. reflexivity.
  - cbn [fst snd] in *. unfold zchecked_add, bind.
    destruct (tm + m <? two64Z); [|right; reflexivity].
    destruct (ts + s <? two64Z); [|right; reflexivity].
    rewrite !Z.add_assoc. apply IH; lia.
Qed.

(* ---------- tiered reference-script fee ---------- *)
Fixpoint qpow (m : Q) (k : nat) : Q := match k with O => 1 | S k' => m * qpow m k' end.
Fixpoint tier_sum (k : nat) (price : Q) : Q :=
  match k with O => 0 | S k' => inject_Z 25600 * price + tier_sum k' ((6 # 5) * price) end.

Lemma tier_sum_closed k : forall price,
  tier_sum k price == inject_Z 25600 * price * (5 # 1) * (qpow (6 # 5) k - 1).
Proof.
  induction k as [|k IH]; intros price; cbn [tier_sum qpow].
  - ring.
  - rewrite IH. ring.
Qed.

(* the ledger recursion, unrolled over k full tiers and a partial tier p *)
Lemma spec_go_unroll k : forall fuel acc price p, 0 <= p < 25600 -> (k < fuel)%nat ->
  spec_go fuel acc price (25600 * Z.of_nat k + p) ==
  acc + tier_sum k price + inject_Z p * (price * qpow (6 # 5) k).
Proof.
  induction k as [|k IH]; intros fuel acc price p Hp Hf.
  - destruct fuel as [|f]; [lia|]. cbn [spec_go tier_sum qpow].
    replace (25600 * Z.of_nat 0 + p) with p by lia.
    destruct (p <? 25600) eqn:E; [|lia]. ring.
  - destruct fuel as [|f]; [lia|]. cbn [spec_go].
    destruct (25600 * Z.of_nat (S k) + p <? 25600) eqn:E; [lia|].
    replace (25600 * Z.of_nat (S k) + p - 25600) with (25600 * Z.of_nat k + p) by lia.
    rewrite IH by lia. cbn [tier_sum qpow]. ring.
Qed.

Lemma spec_fee_closed size price : 0 <= size ->
  let k := Z.to_nat (size / 25600) in let p := size mod 25600 in
  spec_ref_script_fee size price =
  Qfloor (tier_sum k price + inject_Z p * (price * qpow (6 # 5) k)).
Proof.
  intros Hs k p. unfold spec_ref_script_fee. apply Qfloor_comp.
  replace size with (25600 * Z.of_nat k + p) at 2
    by (subst k p; rewrite Z2Nat.id by (apply Z.div_pos; lia); lia).
  rewrite spec_go_unroll by (subst k p; lia). ring.
Qed.

Lemma pow12_gt_pow10 k : 0 < k -> 10 ^ k < 12 ^ k.
Proof. intros Hk. apply Z.pow_lt_mono_l; lia. Qed.

Lemma qpow_ratio k : inject_Z (12 ^ Z.of_nat k) / inject_Z (10 ^ Z.of_nat k) == qpow (6 # 5) k.
Proof.
  induction k as [|k IH].
  - cbn [qpow]. change (Z.of_nat 0) with 0. rewrite !Z.pow_0_r. reflexivity.
  - cbn [qpow]. rewrite <- IH. rewrite Nat2Z.inj_succ, !Z.pow_succ_r by lia.
    rewrite !inject_Z_mult.
    assert (H10 : ~ inject_Z (10 ^ Z.of_nat k) == 0) by (apply inj_nz; apply Z.pow_pos_nonneg; lia).
    field. exact H10.
Qed.

(* value of the geometric-progression factor as the Rust code computes it *)
Lemma rnew_neg_pos n d : n < 0 -> 0 < d -> rnew n d = mkRat n d.
Proof.
  intros Hn Hd. unfold rnew, reduce_minuses. cbn [rnum rden].
  destruct (d <? 0) eqn:E; [lia|]. rewrite andb_false_r. reflexivity.
Qed.
Lemma rnew_neg_neg n d : n < 0 -> d < 0 -> rnew n d = mkRat (- n) (- d).
Proof.
  intros Hn Hd. unfold rnew, reduce_minuses. cbn [rnum rden].
  destruct (n <? 0) eqn:E; [|lia]. destruct (d <? 0) eqn:E'; [|lia]. cbn [andb].
  f_equal; lia.
Qed.

Lemma progression_value k : 0 < k ->
  rdiv_ratio (rsub rone (rpow (rnew 12 10) k)) (rsub rone (rnew 12 10)) =
  mkRat ((12 ^ k - 10 ^ k) * 10) (2 * 10 ^ k).
Proof.
  intros Hk. pose proof (pow12_gt_pow10 k Hk) as Hlt.
  assert (H10 : 0 < 10 ^ k) by (apply Z.pow_pos_nonneg; lia).
  assert (H12 : 0 < 12 ^ k) by (apply Z.pow_pos_nonneg; lia).
  rewrite (rnew_good 12 10) by lia.
  assert (Hpow : rpow (mkRat 12 10) k = mkRat (12 ^ k) (10 ^ k)).
  { unfold rpow. cbn [rnum rden]. rewrite rnew_good by lia. unfold reduce_minuses. cbn [rnum rden].
    destruct (12 ^ k <? 0) eqn:E; [lia|]. reflexivity. }
  rewrite Hpow.
  assert (Hpe : rsub rone (mkRat (12 ^ k) (10 ^ k)) = mkRat (10 ^ k - 12 ^ k) (10 ^ k)).
  { unfold rsub, rone. cbn [rnum rden]. destruct (12 ^ k =? 0) eqn:E2; [lia|].
    replace (1 =? 0) with false by reflexivity.
    rewrite rnew_neg_pos by lia. f_equal; lia. }
  assert (Hpd : rsub rone (mkRat 12 10) = mkRat (-2) 10).
  { reflexivity. }
  rewrite Hpe, Hpd. unfold rdiv_ratio. cbn [rnum rden].
  rewrite rnew_neg_neg by nia. f_equal; nia.
Qed.

Theorem ref_script_fee_exact size pn pd :
  0 <= size -> size / 25600 < 4294967296 -> 0 <= pn -> 0 < pd ->
  min_ref_script_fee size pn pd =
  exact_or_error (spec_ref_script_fee size (Qmake pn (Z.to_pos pd))).
Proof.
  intros Hs Hk Hpn Hpd.
  rewrite spec_fee_closed by exact Hs. cbv zeta.
  unfold min_ref_script_fee, tier_ref_script_fee.
  rewrite (rnew_good 12 10) at 1 by lia.
  replace (ris_negative_or_zero (mkRat 12 10) || (25600 =? 0)) with false by reflexivity.
  rewrite (Z.mod_small (size / 25600)) by (split; [apply Z.div_pos; lia|lia]).
  set (k := size / 25600). set (p := size mod 25600).
  assert (Hk0 : 0 <= k) by (subst k; apply Z.div_pos; lia).
  assert (Hp : 0 <= p < 25600) by (subst p; apply Z.mod_pos_bound; lia).
  rewrite (rnew_good pn pd) by lia.
  assert (Hbase : good (mkRat pn pd)) by (apply good_mk; lia).
  rewrite (rmul_int_good (mkRat pn pd) 25600) by (assumption || lia). cbn [rnum rden].
  assert (H10 : 0 < 10 ^ k) by (apply Z.pow_pos_nonneg; lia).
  assert (H12 : 0 < 12 ^ k) by (apply Z.pow_pos_nonneg; lia).
  assert (Hpow : rpow (rnew 12 10) k = mkRat (12 ^ k) (10 ^ k)).
  { rewrite (rnew_good 12 10) by lia. unfold rpow. cbn [rnum rden].
    rewrite rnew_good by lia. unfold reduce_minuses. cbn [rnum rden].
    destruct (12 ^ k <? 0) eqn:E; [lia|]. reflexivity. }
  (* value of acc1 *)
  set (acc1 := if 0 <? k then _ else rzero).
  assert (Hacc1 : good acc1 /\ qv acc1 == tier_sum (Z.to_nat k) (Qmake pn (Z.to_pos pd))).
  { subst acc1. destruct (0 <? k) eqn:Ek.
    - rewrite progression_value by lia.
      assert (Hlt := pow12_gt_pow10 k ltac:(lia)).
      rewrite rmul_ratio_good by (apply good_mk; nia). cbn [rnum rden].
      change (radd rzero ?b) with b.
      split; [apply good_mk; nia|].
      rewrite qv_mk by nia. rewrite tier_sum_closed.
      rewrite <- qpow_ratio. rewrite Z2Nat.id by lia.
      rewrite (Qmake_Qdiv pn). rewrite Z2Pos.id by lia.
      rewrite !inject_Z_mult, inject_Z_minus.
      field. repeat split; apply inj_nz; lia.
    - assert (k = 0) by lia. replace (Z.to_nat k) with O by lia. cbn [tier_sum].
      split; [apply good_mk; lia|]. reflexivity. }
  destruct Hacc1 as [Hg1 Hq1].
  set (acc2 := if 0 <? p then _ else acc1).
  assert (Hacc2 : good acc2 /\ qv acc2 ==
     tier_sum (Z.to_nat k) (Qmake pn (Z.to_pos pd))
     + inject_Z p * (Qmake pn (Z.to_pos pd) * qpow (6 # 5) (Z.to_nat k))).
  { subst acc2. destruct (0 <? p) eqn:Ep.
    - rewrite Hpow. rewrite rmul_ratio_good by (assumption || apply good_mk; lia).
      cbn [rnum rden]. rewrite rmul_int_good by (try apply good_mk; nia). cbn [rnum rden].
      destruct (radd_good acc1 (mkRat (pn * 12 ^ k * p) (pd * 10 ^ k))) as [Hg Hq];
        [assumption | apply good_mk; nia |].
      split; [exact Hg|]. rewrite Hq, Hq1. apply Qplus_comp; [reflexivity|]. rewrite qv_mk by nia.
      rewrite <- qpow_ratio. rewrite Z2Nat.id by lia.
      rewrite (Qmake_Qdiv pn). rewrite Z2Pos.id by lia.
      rewrite !inject_Z_mult.
      field. repeat split; apply inj_nz; lia.
    - assert (p = 0) by lia. split; [exact Hg1|]. rewrite Hq1.
      replace p with 0 by lia. ring. }
  destruct Hacc2 as [Hg2 Hq2].
  rewrite floor_good by exact Hg2. f_equal. apply Qfloor_comp. exact Hq2.
Qed.

(* non-vacuity: the premises are satisfiable on a non-trivial point, and the value is the
   ledger's published example (min fee for 80000 bytes at 15 lovelace/byte is 1_480_704 = 15*25600*(1+1.2+1.44) + 15*3200*1.728). *)
Example ref_script_fee_nontrivial :
  min_ref_script_fee 80000 15 1 = Ok 1480704 /\ spec_ref_script_fee 80000 (15 # 1) = 1480704.
Proof. split; vm_compute; reflexivity. Qed.
