(* SPEC for C15: the ledger's definitions, over Coq's rationals Q.  Short on purpose. *)
From CSL Require Import Base.Prelude.
From Coq Require Import QArith Qround.
Local Open Scope Q_scope.

(* Conway ledger, `tierRefScriptFee multiplier sizeIncrement`:
     go acc curTierPrice n
       | n < sizeIncrement = floor (acc + n * curTierPrice)
       | otherwise = go (acc + sizeIncrement * curTierPrice) (multiplier * curTierPrice) (n - sizeIncrement)
   with multiplier = 1.2, sizeIncrement = 25600.  [fuel] only makes the recursion structural;
   [spec_ref_script_fee] supplies enough of it (one unit per tier, plus one). *)
Fixpoint spec_go (fuel : nat) (acc price : Q) (n : Z) : Q :=
  match fuel with
  | O => acc + inject_Z n * price
  | S f => if (n <? 25600)%Z then acc + inject_Z n * price
           else spec_go f (acc + inject_Z 25600 * price) ((6 # 5) * price) (n - 25600)%Z
  end.
Definition spec_ref_script_fee (size : Z) (price : Q) : Z :=
  Qfloor (spec_go (S (Z.to_nat (size / 25600))) 0 price size).

(* linear fee: a * size + b *)
Definition spec_linear_fee (size coeff const : Z) : Z := (coeff * size + const)%Z.

(* script fee: ceiling (mem * mem_price + steps * step_price) *)
Definition spec_script_fee (mem steps : Z) (pm ps : Q) : Z :=
  Qceiling (inject_Z mem * pm + inject_Z steps * ps).

(* "When the exact result does not fit in 64 bits they return an error rather than a different number." *)
Definition exact_or_error (exact : Z) : result Z :=
  if (exact <? two64Z)%Z then Ok exact else Err.
