(* Model of rust/src/rational.rs: a pair of arbitrary-precision integers, NOT normalised,
   denominators may be zero or negative.  Every function mirrors the Rust one line by line. *)
From CSL Require Import Base.Prelude.
Local Open Scope Z_scope.

Record rat := mkRat { rnum : Z; rden : Z }.

(* fn reduce_minuses *)
Definition reduce_minuses (r : rat) : rat :=
  if (rnum r <? 0) && (rden r <? 0) then mkRat (Z.abs (rnum r)) (Z.abs (rden r)) else r.
(* fn new *)
Definition rnew (n d : Z) : rat := reduce_minuses (mkRat n d).
Definition rone : rat := mkRat 1 1.
Definition rzero : rat := mkRat 0 1.
(* fn mul_bignum / mul_usize *)
Definition rmul_int (r : rat) (x : Z) : rat := rnew (rnum r * x) (rden r).
Definition rmul_ratio (a b : rat) : rat := rnew (rnum a * rnum b) (rden a * rden b).
Definition rdiv_ratio (a b : rat) : rat := rnew (rnum a * rden b) (rden a * rnum b).
(* fn add: note the two shortcuts that drop the zero operand's denominator *)
Definition radd (a b : rat) : rat :=
  if rnum a =? 0 then b else if rnum b =? 0 then a
  else rnew (rnum a * rden b + rnum b * rden a) (rden a * rden b).
(* fn sub: note `0 - x = x` (sic) in the Rust code *)
Definition rsub (a b : rat) : rat :=
  if rnum a =? 0 then b else if rnum b =? 0 then a
  else rnew (rnum a * rden b - rnum b * rden a) (rden a * rden b).
(* fn pow (exp : u32) *)
Definition rpow (r : rat) (e : Z) : rat := reduce_minuses (rnew (rnum r ^ e) (rden r ^ e)).
Definition ris_zero (r : rat) : bool := rnum r =? 0.
Definition ris_negative (r : rat) : bool := xorb (rnum r <? 0) (rden r <? 0).
Definition ris_negative_or_zero (r : rat) : bool := ris_zero r || ris_negative r.

(* BigInt::as_u64 *)
Definition as_u64 (v : Z) : result Z := if (0 <=? v) && (v <? two64Z) then Ok v else Err.
(* num_integer div_floor = Coq's Z.div (floor for either sign of the divisor) *)
Definition to_bignum_floor (r : rat) : result Z :=
  if rden r =? 0 then Err else as_u64 (rnum r / rden r).
(* num_integer div_ceil *)
Definition zdiv_ceil (a b : Z) : Z := - ((- a) / b).
Definition to_bignum_ceil (r : rat) : result Z :=
  if rden r =? 0 then Err else as_u64 (zdiv_ceil (rnum r) (rden r)).
