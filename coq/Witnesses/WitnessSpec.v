(* C18 — specification side: the ledger's required key witnesses (witsVKeyNeeded, Conway) and script
   availability rule (Babbage UTXOW: scripts needed minus scripts provided by reference = scripts in the
   witness set), transcribed over the FINAL content of the builder (the items that end up in the
   transaction body), the size functions of the witness-set fields, the executable statement of the
   property (judge) and the record the driver prints.  No proofs in this file. *)
From CSL Require Import Base.Prelude Cbor.Head Witnesses.Witnesses.
Local Open Scope N_scope.

(* ---------- what ends up in the body ---------- *)
(* the owner of each spent outpoint = the one given by the last call that added the outpoint *)
Definition final_owners (ops : list in_op) : list (oref * owner) :=
  last_wins N.eqb (flat_map (fun op => match op with InAdd o w => [(o, w)] | _ => [] end) ops).
Definition explicit_input_signers (ops : list in_op) : list key :=
  flat_map (fun op => match op with InSigner k => [k] | _ => [] end) ops.

(* the key hashes a script source says will sign: every key of an inline native script unless the caller
   declared the signing subset; the declared ones for reference and Plutus sources *)
Definition declared_signers (w : swit) : list key := olist (sw_required_signers w).

(* ---------- the ledger table: which credential(s) must authorise a certificate ---------- *)
Definition cert_witness_creds (c : cert) : list cred :=
  match c_kind c with
  | 0 => []                                             (* legacy stake registration: no witness *)
  | 1 | 2 => [c_cred c]                                 (* legacy deregistration, stake delegation *)
  | 3 => map CK (cred_key (c_cred c) ++ c_keys c)       (* pool registration: operator and all owners (key hashes) *)
  | 4 => map CK (cred_key (c_cred c))                   (* pool retirement: operator (a key hash) *)
  | 5 => map CK (firstn 1 (c_keys c))                   (* genesis delegation: the GENESIS key *)
  | 6 => []                                             (* MIR: genesis quorum, not in witsVKeyNeeded *)
  | 7 | 8 => [c_cred c]                                 (* reg_cert / unreg_cert with explicit amount *)
  | 9 | 10 | 11 | 12 | 13 => [c_cred c]                 (* vote / stake+vote delegation, reg+deleg forms *)
  | 14 | 15 => [c_cred c]                               (* committee hot auth / cold resign: cold credential *)
  | 16 | 17 | 18 => [c_cred c]                          (* DRep registration / deregistration / update *)
  | _ => []
  end.
Definition creds_keys (cs : list cred) : list key := flat_map cred_key cs.
Definition creds_scripts (cs : list cred) : list sid :=
  flat_map (fun c => match c with CS s => [s] | CK _ => [] end) cs.

(* ---------- required key witnesses ---------- *)
Definition spec_input_keys (ops : list in_op) : list key :=
  flat_map (fun e => match snd e with
                     | OKey k => [k]
                     | OByron _ => []
                     | ONative n => declared_signers (SWNative n)
                     | OPlutus p => declared_signers (SWPlutus p)
                     end) (final_owners ops)
  ++ explicit_input_signers ops.
Definition required_keys_list (t : tx_ops) : list key :=
  spec_input_keys (t_inputs t) ++ spec_input_keys (t_collateral t)
  ++ t_required_signers t
  ++ flat_map (fun e => creds_keys (cert_witness_creds (fst e)) ++ wit_signers (snd e)) (certs_run (t_certs t))
  ++ flat_map (fun e => cred_key (fst e) ++ wit_signers (snd e)) (wd_run (t_withdrawals t))
  ++ flat_map (fun e => cred_key (v_cred (fst e)) ++ wit_signers (snd e)) (votes_run (t_votes t))
  ++ flat_map (fun m => declared_signers (mint_swit m)) (mint_run (mint_wits t))
  ++ flat_map (fun e => wit_signers (snd e)) (props_run (t_proposals t)).
Definition required_keys_spec (t : tx_ops) : list key := nodup N.eq_dec (required_keys_list t).

Definition spec_input_boots (ops : list in_op) : list baddr :=
  flat_map (fun e => match snd e with OByron a => [a] | _ => [] end) (final_owners ops).
Definition required_boots_spec (t : tx_ops) : list baddr :=
  nodup N.eq_dec (spec_input_boots (t_inputs t) ++ spec_input_boots (t_collateral t)).

(* ---------- premises about the history ---------- *)
Definition owner_id (w : owner) : N * N :=
  match w with OKey k => (0, k) | OByron a => (1, a) | ONative n => (2, ns_hash n) | OPlutus p => (3, ps_hash (pw_script p)) end.
Definition op_binding (op : in_op) : list (oref * (N * N)) :=
  match op with InAdd o w => [(o, owner_id w)] | _ => [] end.
(* an outpoint that is added again is added with the same owner (key, address or script hash and kind) *)
Fixpoint consistent_bindings (l : list (oref * (N * N))) : bool :=
  match l with
  | [] => true
  | (o, w) :: t => forallb (fun e => negb (N.eqb o (fst e)) || pair_eqb w (snd e)) t && consistent_bindings t
  end.
Definition consistent_owners (ops : list in_op) : bool := consistent_bindings (flat_map op_binding ops).

(* ---------- script availability ---------- *)
(* the script-locked items of the body with the witness the builder holds for them, the script hash the
   item itself is locked by (None: the hash is taken from the witness, as for inputs and policies), and,
   for Plutus, the redeemer tag *)
Record sitem : Type := { si_tag : N; si_locked : option sid; si_wit : swit }.
Definition mk_items (tag : N) (locked : option sid) (w : option swit) : list sitem :=
  match w with Some sw => [{| si_tag := tag; si_locked := locked; si_wit := sw |}] | None => [] end.
Definition cred_script (c : cred) : option sid := match c with CS s => Some s | CK _ => None end.
Definition script_items (t : tx_ops) : list sitem :=
  flat_map (fun e => mk_items TAG_SPEND None (owner_swit (snd e))) (final_owners (t_inputs t))
  ++ map (fun m => {| si_tag := TAG_MINT; si_locked := None; si_wit := mint_swit m |}) (mint_run (mint_wits t))
  ++ flat_map (fun e => mk_items TAG_CERT (cred_script (c_cred (fst e))) (snd e)) (certs_run (t_certs t))
  ++ flat_map (fun e => mk_items TAG_REWARD (cred_script (fst e)) (snd e)) (wd_run (t_withdrawals t))
  ++ flat_map (fun e => mk_items TAG_VOTE (cred_script (v_cred (fst e))) (snd e)) (votes_run (t_votes t))
  ++ flat_map (fun e => mk_items TAG_PROPOSE None (snd e)) (props_run (t_proposals t)).

(* the witness attached to an item is for the script the item is locked by *)
Definition item_matches (i : sitem) : bool :=
  match si_locked i with Some s => N.eqb s (sw_hash (si_wit i)) | None => true end.
Definition wits_match (t : tx_ops) : bool := forallb item_matches (script_items t).

Definition sw_is_inline (w : swit) : bool :=
  match w with
  | SWNative (NSInline _ _ _) => true
  | SWPlutus p => match pw_script p with PSInline _ _ => true | _ => false end
  | _ => false
  end.
Definition sw_is_native (w : swit) : bool := match w with SWNative _ => true | _ => false end.
(* no script is handed over inline by one item and by reference by another *)
Definition inline_hashes (t : tx_ops) : list sid :=
  flat_map (fun i => if sw_is_inline (si_wit i) then [sw_hash (si_wit i)] else []) (script_items t).
Definition ref_hashes (t : tx_ops) : list sid :=
  flat_map (fun i => if sw_is_inline (si_wit i) then [] else [sw_hash (si_wit i)]) (script_items t).
Definition no_mixed_supply (t : tx_ops) : bool :=
  forallb (fun s => negb (memN s (ref_hashes t))) (inline_hashes t).

(* collateral inputs are locked by keys or Byron addresses (the ledger rejects script-locked collateral) *)
Definition collateral_plain (t : tx_ops) : bool :=
  forallb (fun op => match op with InAdd _ (ONative _) | InAdd _ (OPlutus _) => false | _ => true end) (t_collateral t).

Definition countN (x : N) (l : list N) : N := N.of_nat (count_occ N.eq_dec l x).

(* what a built transaction shows (the implementation's, or the model's) *)
Record emitted : Type := {
  e_native : list sid;             (* witness set, native scripts *)
  e_plutus : list sid;             (* witness set, Plutus scripts (all languages) *)
  e_datums : list did;             (* witness set, Plutus data *)
  e_redeemers : list (N * N);      (* witness set, redeemers as (tag, payload) *)
  e_refs : list oref;              (* body, reference inputs *)
  e_inputs : list oref;            (* body, inputs *)
  e_mint : list sid;               (* body, policies of the mint *)
  e_vote_redeemers : list (N * N)  (* witness set, vote redeemers as (index, payload) *)
}.

(* the script of an item is at hand: inline -> exactly one copy in the witness set; by reference -> the
   declared outpoint is among the body's reference inputs (or is itself spent: the ledger resolves
   reference scripts over inputs and reference inputs alike) *)
Definition ref_available (e : emitted) (r : oref) : bool := memN r (e_refs e) || memN r (e_inputs e).
Definition item_script_available (e : emitted) (i : sitem) : bool :=
  match si_wit i with
  | SWNative (NSInline s _ _) => countN s (e_native e) =? 1
  | SWNative (NSRef r _ _) => ref_available e r
  | SWPlutus p => match pw_script p with
                  | PSInline s _ => countN s (e_plutus e) =? 1
                  | PSRef r _ _ => ref_available e r
                  end
  end.
(* ... and not a second time: a script that an item takes from a reference input is not in the witness set *)
Definition item_script_not_twice (e : emitted) (i : sitem) : bool :=
  match si_wit i with
  | SWNative (NSRef _ s _) => negb (memN s (e_native e))
  | SWPlutus p => match pw_script p with PSRef _ s _ => negb (memN s (e_plutus e)) | _ => true end
  | _ => true
  end.
(* Plutus: datum (when the witness carries one) and redeemer *)
Definition item_plutus_data (e : emitted) (i : sitem) : bool :=
  match si_wit i with
  | SWPlutus p =>
      (match pw_datum p with
       | Some (DInline d) => countN d (e_datums e) =? 1
       | Some (DRef r) => ref_available e r
       | None => true end)
      && existsb (fun x => N.eqb (fst x) (si_tag i) && N.eqb (snd x) (pw_red p)) (e_redeemers e)
  | _ => true
  end.
Fixpoint nodupb (l : list N) : bool :=
  match l with [] => true | x :: t => negb (memN x t) && nodupb t end.
Definition scripts_available (t : tx_ops) (e : emitted) : bool :=
  forallb (fun i => item_script_available e i && item_plutus_data e i) (script_items t)
  (* a datum registered with add_extra_witness_datum is needed by some input: it is there, once (datums are
     identified by their bytes, i.e. by their hash: equal values in different encodings are different datums) *)
  && forallb (fun d => countN d (e_datums e) =? 1) (t_extra_datums t)
  && nodupb (e_native e) && nodupb (e_plutus e) && nodupb (e_datums e) && nodupb (e_refs e).
Definition scripts_not_twice (t : tx_ops) (e : emitted) : bool :=
  forallb (item_script_not_twice e) (script_items t).

(* every vote cast with a Plutus witness has a redeemer at the position of its voter in the ledger's order of
   voters (Conway: committee < DRep < stake pool; script credentials before key credentials; hash bytes) *)
Definition vote_redeemers_ok (hr : hash_rank) (t : tx_ops) (e : emitted) : bool :=
  forallb (fun x => existsb (fun y => N.eqb (fst x) (fst y) && N.eqb (snd x) (snd y)) (e_vote_redeemers e))
          (votes_redeemers hr (votes_run (t_votes t))).
(* every policy the builder holds a witness for (script, redeemer, reference input, signers) is minted by the body:
   nothing is emitted or sized for a policy that the body does not carry *)
Definition mint_policies_ok (t : tx_ops) (e : emitted) : bool :=
  forallb (fun m => memN (mw_hash m) (e_mint e)) (mint_run (mint_wits t)).

Definition model_emitted_hr (hr : hash_rank) (t : tx_ops) : emitted :=
  {| e_native := ws_native_scripts t; e_plutus := ws_plutus_scripts t; e_datums := ws_datums t;
     e_redeemers := map (fun r => (fst r, snd (snd r))) (ws_redeemers t);
     e_refs := body_reference_inputs t; e_inputs := body_inputs t;
     e_mint := body_mint_policies t; e_vote_redeemers := votes_redeemers hr (votes_run (t_votes t)) |}.
Definition model_emitted (t : tx_ops) : emitted := model_emitted_hr [] t.

(* ---------- sizes of the two signature fields of the witness set ---------- *)
(* one vkey witness: array(2) [bytes(32), bytes(64)] *)
Definition vkey_witness_size : N := 1 + (head_size 32 + 32) + (head_size 64 + 64).
(* field 0: key, tag 258, array header, n witnesses; absent when there is none *)
Definition vkeys_field_size (n : N) : N :=
  if n =? 0 then 0 else 1 + head_size 258 + head_size n + n * vkey_witness_size.
(* one bootstrap witness: array(4) [vkey 32, signature 64, chain code 32, attributes] *)
Definition boot_witness_size (attr_len : N) : N :=
  1 + (head_size 32 + 32) + (head_size 64 + 64) + (head_size 32 + 32) + (head_size attr_len + attr_len).
Definition sumN (l : list N) : N := fold_right N.add 0 l.
Definition boots_field_size (attrs : list N) : N :=
  match attrs with
  | [] => 0
  | _ => 1 + head_size 258 + head_size (N.of_nat (length attrs)) + sumN (map boot_witness_size attrs)
  end.

(* length of the attributes of a Byron address: a property of the address, given with the case *)
Definition attr_table := list (baddr * N).
Fixpoint attr_len (tb : attr_table) (a : baddr) : N :=
  match tb with [] => 0 | (b, n) :: r => if N.eqb a b then n else attr_len r a end.

(* bytes the builder adds for signatures in its size prediction (full_size minus the unsigned transaction) *)
Definition predicted_sig_bytes (tb : attr_table) (t : tx_ops) : N :=
  vkeys_field_size (count_needed_vkeys t) + boots_field_size (map (attr_len tb) (needed_bootstraps t)).
(* bytes the really signed transaction has more than the unsigned one *)
Definition signed_sig_bytes (tb : attr_table) (t : tx_ops) : N :=
  vkeys_field_size (N.of_nat (length (required_keys_spec t)))
  + boots_field_size (map (attr_len tb) (required_boots_spec t)).

(* ---------- the property as an executable statement on an observation ---------- *)
Record obs : Type := {
  o_predicted : N;      (* full_size() - |unsigned transaction| *)
  o_signed : N;         (* |transaction signed by exactly the required keys and Byron witnesses| - |unsigned| *)
  o_emitted : emitted
}.
Definition size_clause (o : obs) : bool :=
  (o_signed o <=? o_predicted o) && (o_predicted o <? o_signed o + vkey_witness_size).

(* known class 3: a genesis key delegation whose delegate hash (counted by the builder) and genesis hash
   (the key that has to sign) do not overlap with the other signers in the same way *)
Definition known_genesis (t : tx_ops) : bool :=
  negb (length (needed_vkeys_gen true true true false t) =? length (needed_vkeys_gen true true true true t))%nat.

Inductive verdict : Type := Holds | NA | Fails (class : N).
(* known-finding classes (narrow, decidable on the case):
   1  an outpoint is added again with a different owner (the builder keeps counting the first owner's key)
   2  one script is supplied inline by one item and by reference by another (it ends up available twice)
   3  genesis key delegation: the builder counts the delegate hash, the genesis key signs ([known_genesis]) *)
(* the prediction as it would be with the genesis hash counted instead of the delegate hash *)
Definition genesis_corrected (t : tx_ops) (o : obs) : obs :=
  {| o_predicted := o_predicted o + vkeys_field_size (N.of_nat (length (needed_vkeys_gen true true true true t)))
                    - vkeys_field_size (N.of_nat (length (needed_vkeys_gen true true true false t)));
     o_signed := o_signed o; o_emitted := o_emitted o |}.
Definition judge_hr (hr : hash_rank) (t : tx_ops) (o : obs) : verdict :=
  if negb (wits_match t) then NA
  else
    let consistent := consistent_owners (t_inputs t) && consistent_owners (t_collateral t) in
    let size_ok := size_clause o in
    let avail_ok := scripts_available t (o_emitted o) && vote_redeemers_ok hr t (o_emitted o)
                    && mint_policies_ok t (o_emitted o) in
    let once_ok := scripts_not_twice t (o_emitted o) || negb (collateral_plain t) in
    if size_ok && avail_ok && once_ok then Holds
    else if negb consistent then Fails 1
    else
      (* each failing clause must be explained by its known class *)
      let size_explained := size_ok || (known_genesis t && size_clause (genesis_corrected t o)) in
      let once_explained := once_ok || negb (no_mixed_supply t) in
      if size_explained && avail_ok && once_explained then (if size_ok then Fails 2 else Fails 3)
      else Fails 0.

Definition judge (t : tx_ops) (o : obs) : verdict := judge_hr [] t o.

(* ---------- what the driver prints for a case ---------- *)
Record model_out : Type := {
  m_acceptance : list bool;
  m_predicted : N;
  m_signed : N;
  m_sign_keys : list key;
  m_sign_boots : list baddr;
  m_emitted : emitted;
  m_required_signers : list key;
  m_collateral : list oref
}.
Definition model_obs_hr (hr : hash_rank) (tb : attr_table) (t : tx_ops) : model_out :=
  {| m_acceptance := acceptance t;
     m_predicted := predicted_sig_bytes tb t;
     m_signed := signed_sig_bytes tb t;
     m_sign_keys := required_keys_spec t;
     m_sign_boots := required_boots_spec t;
     m_emitted := model_emitted_hr hr t;
     m_required_signers := body_required_signers t;
     m_collateral := body_collateral t |}.
Definition model_obs (tb : attr_table) (t : tx_ops) : model_out := model_obs_hr [] tb t.
(* None: the builder refuses to build (full_size / build_tx return an error) *)
Definition model_result (hr : hash_rank) (tb : attr_table) (t : tx_ops) : option model_out :=
  if build_refused t then None else Some (model_obs_hr hr tb t).
