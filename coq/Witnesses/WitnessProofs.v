(* C18 — proofs about Witnesses.v / WitnessSpec.v.
   Inventory
     sets/maps      set_of_in, set_of_nodup, last_wins_in_orig, last_wins_has, last_wins_map_snd, dedup_by_in
     inputs         scripts_final (script map = script entries of the final owners, for consistent histories),
                    inputs_signers_spec, inputs_boots_spec
     certificates   cert_table_keys, cert_table_scripts
     union          needed_vkeys_spec, needed_vkeys_nodup, signers_union (count = |required_keys_spec|)
     refuted        the four original asymmetries and the re-added input (vm_compute witnesses)
     scripts        scripts_available_model, scripts_not_twice_model, refs_declared
     sizes          vkeys_field_size_step, size_clause_iff_count, size_exact *)
From CSL Require Import Base.Prelude Cbor.Head Cbor.HeadProofs Witnesses.Witnesses Witnesses.WitnessSpec.
From Coq Require Import Permutation.
Local Open Scope N_scope.

(* ------------------------------------------------------------------ sets *)
Lemma memN_in x l : memN x l = true <-> In x l.
Proof.
  unfold memN. rewrite existsb_exists. split.
  - intros [y [Hy E]]. apply N.eqb_eq in E. subst. exact Hy.
  - intros H. exists x. split; [exact H | apply N.eqb_refl].
Qed.
Lemma memN_false x l : memN x l = false <-> ~ In x l.
Proof. rewrite <- memN_in. destruct (memN x l); split; congruence. Qed.

Lemma set_add_in l y x : In x (set_add l y) <-> In x l \/ x = y.
Proof.
  unfold set_add. destruct (memN y l) eqn:E.
  - apply memN_in in E. split; [tauto | intros [H | ->]; assumption].
  - rewrite in_app_iff. cbn. split; intros [H | H]; auto. destruct H; auto; contradiction.
Qed.

Lemma nodup_snoc (l : list N) y : NoDup l -> ~ In y l -> NoDup (l ++ [y]).
Proof.
  induction l as [| a l IH]; intros Hn Hy; cbn.
  - constructor; [intros [] | constructor].
  - inversion Hn; subst. constructor.
    + rewrite in_app_iff. cbn. intros [H | [H | []]]; [contradiction | subst; apply Hy; left; reflexivity].
    + apply IH; [assumption | intros H; apply Hy; right; exact H].
Qed.
Lemma set_add_nodup l y : NoDup l -> NoDup (set_add l y).
Proof.
  intros H. unfold set_add. destruct (memN y l) eqn:E; [exact H |].
  apply memN_false in E. apply nodup_snoc; assumption.
Qed.
Lemma fold_set_add_in l : forall acc x, In x (fold_left set_add l acc) <-> In x acc \/ In x l.
Proof.
  induction l as [| a l IH]; intros acc x; cbn.
  - tauto.
  - rewrite IH, set_add_in. intuition.
Qed.
Lemma fold_set_add_nodup l : forall acc, NoDup acc -> NoDup (fold_left set_add l acc).
Proof. induction l as [| a l IH]; intros acc H; cbn; [exact H | apply IH, set_add_nodup, H]. Qed.
Lemma set_of_in l x : In x (set_of l) <-> In x l.
Proof. unfold set_of. rewrite fold_set_add_in. cbn. tauto. Qed.
Lemma set_of_nodup l : NoDup (set_of l).
Proof. apply fold_set_add_nodup. constructor. Qed.

Lemma nodup_same_length (l1 l2 : list N) :
  NoDup l1 -> NoDup l2 -> (forall x, In x l1 <-> In x l2) -> length l1 = length l2.
Proof. intros H1 H2 H. apply Permutation_length, NoDup_Permutation; assumption. Qed.

Lemma nodupb_true l : NoDup l -> nodupb l = true.
Proof.
  induction 1 as [| x l Hx Hn IH]; cbn; [reflexivity |].
  rewrite IH, andb_true_r. apply negb_true_iff, memN_false, Hx.
Qed.

Lemma countN_nodup x l : NoDup l -> In x l -> countN x l = 1.
Proof.
  intros Hn Hi. unfold countN.
  assert (count_occ N.eq_dec l x = 1%nat) as ->; [| reflexivity].
  apply NoDup_count_occ' ; assumption.
Qed.

(* ------------------------------------------------------------------ maps *)
Section MapLemmas.
  Context {K V : Type} (eqb : K -> K -> bool).
  Hypothesis eqb_spec : forall a b, eqb a b = true <-> a = b.

  Lemma has_key_in k (l : list (K * V)) : has_key eqb k l = true <-> exists v, In (k, v) l.
  Proof.
    unfold has_key. rewrite existsb_exists. split.
    - intros [[k' v] [Hi E]]. cbn in E. apply eqb_spec in E. subst. exists v. exact Hi.
    - intros [v Hi]. exists (k, v). split; [exact Hi | cbn; apply eqb_spec; reflexivity].
  Qed.
  Lemma has_key_false k (l : list (K * V)) : has_key eqb k l = false <-> forall v, ~ In (k, v) l.
  Proof.
    split.
    - intros H v Hi. assert (has_key eqb k l = true) by (apply has_key_in; exists v; exact Hi). congruence.
    - intros H. destruct (has_key eqb k l) eqn:E; [| reflexivity].
      apply has_key_in in E. destruct E as [v Hi]. exfalso. exact (H v Hi).
  Qed.

  (* what stays was bound *)
  Lemma last_wins_in_orig (l : list (K * V)) e : In e (last_wins eqb l) -> In e l.
  Proof.
    induction l as [| kv t IH]; cbn; [tauto |].
    destruct (has_key eqb (fst kv) t); cbn; intuition.
  Qed.
  (* every bound key keeps exactly one of its bindings *)
  Lemma last_wins_has (l : list (K * V)) k : forall v, In (k, v) l -> exists v', In (k, v') (last_wins eqb l).
  Proof.
    induction l as [| kv t IH]; cbn; [tauto |].
    intros v [E | Hi].
    - subst kv. cbn. destruct (has_key eqb k t) eqn:Hk.
      + apply has_key_in in Hk. destruct Hk as [v2 H2]. exact (IH _ H2).
      + exists v. left. reflexivity.
    - destruct (IH _ Hi) as [v' H']. exists v'. destruct (has_key eqb (fst kv) t); [exact H' | right; exact H'].
  Qed.
  Lemma last_wins_keys_unique (l : list (K * V)) k v1 v2 :
    In (k, v1) (last_wins eqb l) -> In (k, v2) (last_wins eqb l) -> v1 = v2.
  Proof.
    induction l as [| kv t IH]; cbn; [tauto |].
    destruct (has_key eqb (fst kv) t) eqn:Hk; [exact IH |].
    cbn. intros [E1 | H1] [E2 | H2].
    - congruence.
    - subst kv. cbn in Hk. apply last_wins_in_orig in H2.
      exfalso. exact (proj1 (has_key_false _ _) Hk _ H2).
    - subst kv. cbn in Hk. apply last_wins_in_orig in H1.
      exfalso. exact (proj1 (has_key_false _ _) Hk _ H1).
    - exact (IH H1 H2).
  Qed.
End MapLemmas.

Lemma has_key_map_snd {K V W} (eqb : K -> K -> bool) (f : V -> W) k (l : list (K * V)) :
  has_key eqb k (map (fun e => (fst e, f (snd e))) l) = has_key eqb k l.
Proof. unfold has_key. induction l as [| a t IH]; cbn; [reflexivity | rewrite IH; reflexivity]. Qed.
Lemma last_wins_map_snd {K V W} (eqb : K -> K -> bool) (f : V -> W) (l : list (K * V)) :
  last_wins eqb (map (fun e => (fst e, f (snd e))) l) = map (fun e => (fst e, f (snd e))) (last_wins eqb l).
Proof.
  induction l as [| a t IH]; cbn; [reflexivity |].
  rewrite has_key_map_snd. destruct (has_key eqb (fst a) t); cbn; rewrite IH; reflexivity.
Qed.

Lemma pair_eqb_spec a b : pair_eqb a b = true <-> a = b.
Proof.
  unfold pair_eqb. destruct a as [a1 a2], b as [b1 b2]. cbn.
  rewrite andb_true_iff, !N.eqb_eq. split; [intros [-> ->]; reflexivity | intros E; inversion E; auto].
Qed.
Lemma Neqb_spec a b : N.eqb a b = true <-> a = b.
Proof. apply N.eqb_eq. Qed.

Lemma in_flat_map_iff {A B} (f : A -> list B) l y : In y (flat_map f l) <-> exists x, In x l /\ In y (f x).
Proof. apply in_flat_map. Qed.

(* ------------------------------------------------------------------ inputs *)
Definition bindings (ops : list in_op) : list (oref * owner) :=
  flat_map (fun op => match op with InAdd o w => [(o, w)] | _ => [] end) ops.
Definition g_script (e : oref * owner) : list ((sid * oref) * swit) :=
  match owner_swit (snd e) with Some sw => [((sw_hash sw, fst e), sw)] | None => [] end.

Lemma final_owners_eq ops : final_owners ops = last_wins N.eqb (bindings ops).
Proof. reflexivity. Qed.
Lemma ib_scripts_eq ops : ib_scripts ops = last_wins pair_eqb (flat_map g_script (bindings ops)).
Proof.
  unfold ib_scripts, bindings. f_equal.
  induction ops as [| op t IH]; cbn; [reflexivity |].
  rewrite flat_map_app, <- IH. f_equal.
  destruct op as [o w |]; cbn; [| reflexivity].
  unfold g_script. cbn. destruct (owner_swit w); reflexivity.
Qed.
Lemma ib_inputs_eq ops :
  ib_inputs ops = map (fun e => (fst e, owner_hash (snd e))) (final_owners ops).
Proof.
  unfold ib_inputs, final_owners. rewrite <- last_wins_map_snd. f_equal.
  induction ops as [| op t IH]; cbn; [reflexivity |].
  rewrite map_app, <- IH. destruct op; reflexivity.
Qed.
Lemma ib_body_inputs_eq ops : ib_body_inputs ops = map fst (final_owners ops).
Proof. unfold ib_body_inputs. rewrite ib_inputs_eq, map_map. reflexivity. Qed.

Definition consistent_P (b : list (oref * owner)) : Prop :=
  forall o w w', In (o, w) b -> In (o, w') b -> owner_id w = owner_id w'.

Lemma consistent_bindings_P l : consistent_bindings l = true ->
  forall o a b, In (o, a) l -> In (o, b) l -> a = b.
Proof.
  induction l as [| [o0 w0] t IH]; cbn; [tauto |].
  rewrite andb_true_iff, forallb_forall. intros [Hh Ht] o a b [E1 | H1] [E2 | H2].
  - congruence.
  - inversion E1; subst. specialize (Hh _ H2). cbn in Hh. rewrite N.eqb_refl in Hh. cbn in Hh.
    apply pair_eqb_spec in Hh. exact Hh.
  - inversion E2; subst. specialize (Hh _ H1). cbn in Hh. rewrite N.eqb_refl in Hh. cbn in Hh.
    apply pair_eqb_spec in Hh. symmetry. exact Hh.
  - exact (IH Ht _ _ _ H1 H2).
Qed.
Lemma op_bindings_eq ops :
  flat_map op_binding ops = map (fun e => (fst e, owner_id (snd e))) (bindings ops).
Proof.
  unfold bindings. induction ops as [| op t IH]; cbn; [reflexivity |].
  rewrite map_app, <- IH. destruct op; reflexivity.
Qed.
Lemma consistent_owners_P ops : consistent_owners ops = true -> consistent_P (bindings ops).
Proof.
  unfold consistent_owners. rewrite op_bindings_eq. intros H o w w' H1 H2.
  apply (consistent_bindings_P _ H o).
  - apply in_map_iff. exists (o, w). split; [reflexivity | exact H1].
  - apply in_map_iff. exists (o, w'). split; [reflexivity | exact H2].
Qed.
Lemma consistent_P_tail e t : consistent_P (e :: t) -> consistent_P t.
Proof. intros H o w w' H1 H2. apply (H o); right; assumption. Qed.

Lemma in_SB t h o sw :
  In ((h, o), sw) (flat_map g_script t) <->
  exists w, In (o, w) t /\ owner_swit w = Some sw /\ h = sw_hash sw.
Proof.
  rewrite in_flat_map. split.
  - intros [[o' w] [Hi Hg]]. unfold g_script in Hg. cbn in Hg.
    destruct (owner_swit w) as [sw' |] eqn:E; [| destruct Hg].
    destruct Hg as [Hg | []]. inversion Hg; subst. exists w. auto.
  - intros [w [Hi [E Hh]]]. exists (o, w). split; [exact Hi |].
    unfold g_script. cbn. rewrite E. left. subst. reflexivity.
Qed.
Lemma owner_id_script w0 w' sw0 :
  owner_swit w0 = Some sw0 -> owner_id w0 = owner_id w' ->
  exists sw', owner_swit w' = Some sw' /\ sw_hash sw' = sw_hash sw0.
Proof.
  destruct w0 as [k | a | n | p]; cbn; intros E; inversion E; subst; clear E;
    destruct w' as [k' | a' | n' | p']; cbn; intros H; inversion H.
  - exists (SWNative n'). cbn. auto.
  - exists (SWPlutus p'). cbn. auto.
Qed.
Lemma owner_id_key w k : owner_id w = (0, k) -> w = OKey k.
Proof. destruct w; cbn; intros H; inversion H; reflexivity. Qed.
Lemma owner_id_byron w a : owner_id w = (1, a) -> w = OByron a.
Proof. destruct w; cbn; intros H; inversion H; reflexivity. Qed.

Lemma scripts_final b : consistent_P b -> forall h o sw,
  In ((h, o), sw) (last_wins pair_eqb (flat_map g_script b)) <->
  exists w, In (o, w) (last_wins N.eqb b) /\ owner_swit w = Some sw /\ h = sw_hash sw.
Proof.
  induction b as [| [o0 w0] t IH]; intros HC h o sw.
  - cbn. split; [tauto | intros [w [[] _]]].
  - specialize (IH (consistent_P_tail _ _ HC)).
    cbn [flat_map last_wins fst]. unfold g_script at 1. cbn [fst snd].
    destruct (owner_swit w0) as [sw0 |] eqn:E0.
    + cbn [app last_wins fst].
      assert (HK : has_key pair_eqb (sw_hash sw0, o0) (flat_map g_script t) = has_key N.eqb o0 t).
      { apply eq_iff_eq_true. rewrite (has_key_in _ pair_eqb_spec), (has_key_in _ Neqb_spec). split.
        - intros [sw' Hi]. apply in_SB in Hi. destruct Hi as [w [Hi _]]. exists w. exact Hi.
        - intros [w' Hi].
          assert (Hid : owner_id w0 = owner_id w') by (apply (HC o0); [left; reflexivity | right; exact Hi]).
          destruct (owner_id_script _ _ _ E0 Hid) as [sw' [E' Hh]].
          exists sw'. apply in_SB. exists w'. auto. }
      rewrite HK. destruct (has_key N.eqb o0 t); [apply IH |].
      cbn [In]. rewrite IH. split.
      * intros [Hx | [w [Hi [E Hh]]]].
        -- inversion Hx; subst. exists w0. split; [left; reflexivity | auto].
        -- exists w. split; [right; exact Hi | auto].
      * intros [w [[Hx | Hi] [E Hh]]].
        -- inversion Hx; subst. left. rewrite E0 in E. inversion E; subst. reflexivity.
        -- right. exists w. auto.
    + cbn [app]. rewrite IH. destruct (has_key N.eqb o0 t); [reflexivity |].
      split.
      * intros [w [Hi HH]]. exists w. split; [right; exact Hi | exact HH].
      * intros [w [[Hx | Hi] [E Hh]]].
        -- inversion Hx; subst. congruence.
        -- exists w. auto.
Qed.

(* the keys an owner contributes in the specification *)
Definition owner_keys (w : owner) : list key :=
  match w with
  | OKey k => [k] | OByron _ => []
  | ONative n => declared_signers (SWNative n) | OPlutus p => declared_signers (SWPlutus p)
  end.
Lemma spec_input_keys_eq ops :
  spec_input_keys ops = flat_map (fun e => owner_keys (snd e)) (final_owners ops) ++ explicit_input_signers ops.
Proof.
  reflexivity.
Qed.
Lemma owner_keys_script w sw : owner_swit w = Some sw -> owner_keys w = olist (sw_required_signers sw).
Proof. destruct w; cbn; intros E; inversion E; reflexivity. Qed.

Lemma vkeys_split ops k :
  In k (flat_map (fun op => match op with InAdd _ (OKey k) => [k] | InSigner k => [k] | _ => [] end) ops) <->
  (exists o, In (o, OKey k) (bindings ops)) \/ In k (explicit_input_signers ops).
Proof.
  unfold bindings, explicit_input_signers. rewrite !in_flat_map. split.
  - intros [op [Hi Hx]]. destruct op as [o w | k'].
    + destruct w as [k' | a | n | p]; cbn in Hx; [| destruct Hx | destruct Hx | destruct Hx]. destruct Hx as [-> | []].
      left. exists o. apply in_flat_map. exists (InAdd o (OKey k)). split; [exact Hi | left; reflexivity].
    + destruct Hx as [-> | []]. right. exists (InSigner k). split; [exact Hi | left; reflexivity].
  - intros [[o H] | [op [Hi Hx]]].
    + apply in_flat_map in H. destruct H as [op [Hi Hx]]. destruct op as [o' w' |]; [| destruct Hx].
      destruct Hx as [Hx | []]. inversion Hx; subst. exists (InAdd o (OKey k)). split; [exact Hi | left; reflexivity].
    + destruct op as [o w | k']; [destruct Hx |]. destruct Hx as [-> | []].
      exists (InSigner k). split; [exact Hi | left; reflexivity].
Qed.

Lemma inputs_signers_spec ops : consistent_owners ops = true ->
  forall k, In k (ib_required_signers ops) <-> In k (spec_input_keys ops).
Proof.
  intros HC k. apply consistent_owners_P in HC.
  unfold ib_required_signers. rewrite set_of_in, in_app_iff. unfold ib_vkeys. rewrite set_of_in, vkeys_split.
  rewrite spec_input_keys_eq, in_app_iff, !in_flat_map, final_owners_eq, ib_scripts_eq. split.
  - intros [[[o Hi] | He] | [[[h o] sw] [Hi Hk]]].
    + left. destruct (last_wins_has N.eqb Neqb_spec _ _ _ Hi) as [w' Hw'].
      assert (Hid : owner_id (OKey k) = owner_id w')
        by (apply (HC o); [exact Hi | apply (last_wins_in_orig N.eqb) in Hw'; exact Hw']).
      cbn in Hid. symmetry in Hid. apply owner_id_key in Hid. subst w'.
      exists (o, OKey k). split; [exact Hw' | left; reflexivity].
    + right. exact He.
    + left. apply (scripts_final _ HC) in Hi. destruct Hi as [w [Hi [E _]]].
      exists (o, w). split; [exact Hi |]. cbn [snd] in *. rewrite (owner_keys_script _ _ E). exact Hk.
  - intros [[[o w] [Hi Hk]] | He]; [| left; right; exact He]. cbn [snd] in Hk.
    destruct (owner_swit w) as [sw |] eqn:E.
    + right. exists ((sw_hash sw, o), sw). split.
      * apply (scripts_final _ HC). exists w. auto.
      * cbn [snd]. rewrite <- (owner_keys_script _ _ E). exact Hk.
    + destruct w as [k' | a | n | p]; cbn in E; try discriminate; cbn in Hk.
      * destruct Hk as [-> | []]. left. left. exists o. apply (last_wins_in_orig N.eqb) in Hi. exact Hi.
      * destruct Hk.
Qed.

Lemma inputs_boots_spec ops : consistent_owners ops = true ->
  forall a, In a (ib_boots ops) <-> In a (spec_input_boots ops).
Proof.
  intros HC a. apply consistent_owners_P in HC.
  unfold ib_boots, spec_input_boots. rewrite set_of_in, !in_flat_map, final_owners_eq.
  assert (HB : forall o, In (InAdd o (OByron a)) ops <-> In (o, OByron a) (bindings ops)).
  { intros o. unfold bindings. rewrite in_flat_map. split.
    - intros H. exists (InAdd o (OByron a)). split; [exact H | left; reflexivity].
    - intros [op [Hi Hx]]. destruct op as [o' w' |]; [| destruct Hx]. destruct Hx as [Hx | []]. inversion Hx; subst. exact Hi. }
  split.
  - intros [op [Hi Hx]]. destruct op as [o w |]; [| destruct Hx].
    destruct w as [k' | a' | n | p]; cbn in Hx; [destruct Hx | | destruct Hx | destruct Hx].
    destruct Hx as [-> | []]. apply HB in Hi.
    destruct (last_wins_has N.eqb Neqb_spec _ _ _ Hi) as [w' Hw'].
    assert (Hid : owner_id (OByron a) = owner_id w')
      by (apply (HC o); [exact Hi | apply (last_wins_in_orig N.eqb) in Hw'; exact Hw']).
    cbn in Hid. symmetry in Hid. apply owner_id_byron in Hid. subst w'.
    exists (o, OByron a). split; [exact Hw' | left; reflexivity].
  - intros [[o w] [Hi Hx]]. cbn [snd] in Hx.
    destruct w as [k' | a' | n | p]; cbn in Hx; [destruct Hx | | destruct Hx | destruct Hx]. destruct Hx as [-> | []].
    apply (last_wins_in_orig N.eqb) in Hi. apply HB in Hi.
    exists (InAdd o (OByron a)). split; [exact Hi | left; reflexivity].
Qed.

(* ------------------------------------------------------------------ certificates *)
Lemma creds_keys_CK ks : creds_keys (map CK ks) = ks.
Proof. unfold creds_keys. induction ks as [| k t IH]; cbn; [reflexivity | rewrite IH; reflexivity]. Qed.

(* the key hashes the (repaired) builder counts for a certificate are exactly the key credentials of the
   ledger table, for every certificate kind and every credential / owner list *)
Lemma cert_table_keys c k :
  In k (witness_keys_for_cert_gen true c) <-> In k (creds_keys (cert_witness_creds c)).
Proof.
  destruct c as [kind cr ks aux]. unfold witness_keys_for_cert_gen, cert_witness_creds. cbn [c_kind c_cred c_keys].
  destruct (N.eq_dec kind 3) as [-> | N3].
  { change (3 =? 0) with false. change (3 =? 3) with true. cbn iota.
    rewrite creds_keys_CK, !in_app_iff. tauto. }
  destruct kind as [| p]; [vm_compute; tauto |].
  do 5 (try destruct p as [p | p |]); try congruence;
    destruct cr as [k0 | s0]; destruct ks as [| g [| d r]]; vm_compute; tauto.
Qed.

(* the builder asks for a script witness exactly when the ledger table names a script credential *)
Lemma cert_table_scripts c :
  cert_has_required_script_witness c = existsb cred_is_script (cert_witness_creds c).
Proof.
  destruct c as [kind cr ks aux]. unfold cert_has_required_script_witness, cert_witness_creds. cbn [c_kind c_cred c_keys].
  destruct (N.eq_dec kind 3) as [-> | N3].
  { change (3 =? 0) with false. change (3 =? 3) with true. cbn [orb].
    generalize (cred_key cr ++ ks). intros l. induction l as [| a t IH]; [reflexivity | exact IH]. }
  destruct kind as [| p]; [reflexivity |].
  do 5 (try destruct p as [p | p |]); try congruence; destruct cr; destruct ks as [| g [| d r]]; vm_compute; reflexivity.
Qed.

(* ------------------------------------------------------------------ the union *)
Definition all_consistent (t : tx_ops) : bool :=
  consistent_owners (t_inputs t) && consistent_owners (t_collateral t).

Lemma certs_signers_spec st k :
  In k (certs_required_signers_gen true st) <->
  In k (flat_map (fun e : cert_op => creds_keys (cert_witness_creds (fst e)) ++ wit_signers (snd e)) st).
Proof.
  unfold certs_required_signers_gen. rewrite set_of_in, !in_flat_map. split; intros [e [Hi Hk]]; exists e; split; auto;
    rewrite in_app_iff in *; rewrite cert_table_keys in *; exact Hk.
Qed.
Lemma votes_signers_spec st k :
  In k (votes_required_signers_gen true st) <->
  In k (flat_map (fun e : vote_op => cred_key (v_cred (fst e)) ++ wit_signers (snd e)) st).
Proof.
  unfold votes_required_signers_gen. rewrite set_of_in.
  rewrite (flat_map_ext _ (fun e : vote_op => cred_key (v_cred (fst e)) ++ wit_signers (snd e))); [reflexivity |].
  intros [v [[n | p] |]]; reflexivity.
Qed.

(* the (repaired) union is, as a set, the required key set of the specification *)
Lemma needed_vkeys_spec t : all_consistent t = true ->
  forall k, In k (needed_vkeys_gen true true true true t) <-> In k (required_keys_list t).
Proof.
  unfold all_consistent. rewrite andb_true_iff. intros [HI HC] k.
  unfold needed_vkeys_gen, required_keys_list.
  rewrite set_of_in, !in_app_iff.
  rewrite (inputs_signers_spec _ HI), (inputs_signers_spec _ HC), set_of_in, certs_signers_spec, votes_signers_spec.
  unfold mint_required_signers_gen, wd_required_signers, props_required_signers_gen. rewrite !set_of_in.
  unfold declared_signers. tauto.
Qed.
Lemma needed_vkeys_nodup fv fm fp fg t : NoDup (needed_vkeys_gen fv fm fp fg t).
Proof. apply set_of_nodup. Qed.

Lemma signers_union_gen t : all_consistent t = true ->
  N.of_nat (length (needed_vkeys_gen true true true true t)) = N.of_nat (length (required_keys_spec t)).
Proof.
  intros H. f_equal. apply nodup_same_length.
  - apply needed_vkeys_nodup.
  - apply NoDup_nodup.
  - intros k. rewrite (needed_vkeys_spec t H). unfold required_keys_spec. rewrite nodup_In. reflexivity.
Qed.
