(* C18 — proofs about Witnesses.v / WitnessSpec.v.
   Inventory
     sets/maps      set_of_in, set_of_nodup, last_wins_in_orig, last_wins_has, last_wins_map_snd, dedup_by_in
     inputs         scripts_final (script map = script entries of the final owners, for consistent histories),
                    inputs_signers_spec, inputs_boots_spec
     certificates   cert_table_keys, cert_table_scripts
     union          needed_vkeys_spec, needed_vkeys_nodup, signers_union (count = |required_keys_spec|)
     refuted        the four original asymmetries and the re-added input (vm_compute witnesses)
     scripts        scripts_available_model, scripts_not_twice_model, refs_declared
     sizes          vkeys_field_size_step, size_clause_iff_count, size_exact *)
From CSL Require Import Base.Prelude Cbor.Head Cbor.HeadProofs Witnesses.Witnesses Witnesses.WitnessSpec.
From Coq Require Import Permutation.
Local Open Scope N_scope.

(* ------------------------------------------------------------------ sets *)
Lemma memN_in x l : memN x l = true <-> In x l.
Proof.
  unfold memN. rewrite existsb_exists. split.
  - intros [y [Hy E]]. apply N.eqb_eq in E. subst. exact Hy.
  - intros H. exists x. split; [exact H | apply N.eqb_refl].
Qed.
Lemma memN_false x l : memN x l = false <-> ~ In x l.
Proof. rewrite <- memN_in. destruct (memN x l); split; congruence. Qed.

Lemma set_add_in l y x : In x (set_add l y) <-> In x l \/ x = y.
Proof.
  unfold set_add. destruct (memN y l) eqn:E.
  - apply memN_in in E. split; [tauto | intros [H | ->]; assumption].
  - rewrite in_app_iff. cbn. split; intros [H | H]; auto. destruct H; auto; contradiction.
Qed.

Lemma nodup_snoc (l : list N) y : NoDup l -> ~ In y l -> NoDup (l ++ [y]).
Proof.
  induction l as [| a l IH]; intros Hn Hy; cbn.
  - constructor; [intros [] | constructor].
  - inversion Hn; subst. constructor.
    + rewrite in_app_iff. cbn. intros [H | [H | []]]; [contradiction | subst; apply Hy; left; reflexivity].
    + apply IH; [assumption | intros H; apply Hy; right; exact H].
Qed.
Lemma set_add_nodup l y : NoDup l -> NoDup (set_add l y).
Proof.
  intros H. unfold set_add. destruct (memN y l) eqn:E; [exact H |].
  apply memN_false in E. apply nodup_snoc; assumption.
Qed.
Lemma fold_set_add_in l : forall acc x, In x (fold_left set_add l acc) <-> In x acc \/ In x l.
Proof.
  induction l as [| a l IH]; intros acc x; cbn.
  - tauto.
  - rewrite IH, set_add_in. intuition.
Qed.
Lemma fold_set_add_nodup l : forall acc, NoDup acc -> NoDup (fold_left set_add l acc).
Proof. induction l as [| a l IH]; intros acc H; cbn; [exact H | apply IH, set_add_nodup, H]. Qed.
Lemma set_of_in l x : In x (set_of l) <-> In x l.
Proof. unfold set_of. rewrite fold_set_add_in. cbn. tauto. Qed.
Lemma set_of_nodup l : NoDup (set_of l).
Proof. apply fold_set_add_nodup. constructor. Qed.

Lemma nodup_same_length (l1 l2 : list N) :
  NoDup l1 -> NoDup l2 -> (forall x, In x l1 <-> In x l2) -> length l1 = length l2.
Proof. intros H1 H2 H. apply Permutation_length, NoDup_Permutation; assumption. Qed.

Lemma nodupb_true l : NoDup l -> nodupb l = true.
Proof.
  induction 1 as [| x l Hx Hn IH]; cbn; [reflexivity |].
  rewrite IH, andb_true_r. apply negb_true_iff, memN_false, Hx.
Qed.

Lemma countN_nodup x l : NoDup l -> In x l -> countN x l = 1.
Proof.
  intros Hn Hi. unfold countN.
  assert (count_occ N.eq_dec l x = 1%nat) as ->; [| reflexivity].
  apply NoDup_count_occ' ; assumption.
Qed.

(* ------------------------------------------------------------------ maps *)
Section MapLemmas.
  Context {K V : Type} (eqb : K -> K -> bool).
  Hypothesis eqb_spec : forall a b, eqb a b = true <-> a = b.

  Lemma has_key_in k (l : list (K * V)) : has_key eqb k l = true <-> exists v, In (k, v) l.
  Proof.
    unfold has_key. rewrite existsb_exists. split.
    - intros [[k' v] [Hi E]]. cbn in E. apply eqb_spec in E. subst. exists v. exact Hi.
    - intros [v Hi]. exists (k, v). split; [exact Hi | cbn; apply eqb_spec; reflexivity].
  Qed.
  Lemma has_key_false k (l : list (K * V)) : has_key eqb k l = false <-> forall v, ~ In (k, v) l.
  Proof.
    split.
    - intros H v Hi. assert (has_key eqb k l = true) by (apply has_key_in; exists v; exact Hi). congruence.
    - intros H. destruct (has_key eqb k l) eqn:E; [| reflexivity].
      apply has_key_in in E. destruct E as [v Hi]. exfalso. exact (H v Hi).
  Qed.

  (* what stays was bound *)
  Lemma last_wins_in_orig (l : list (K * V)) e : In e (last_wins eqb l) -> In e l.
  Proof.
    induction l as [| kv t IH]; cbn; [tauto |].
    destruct (has_key eqb (fst kv) t); cbn; intuition.
  Qed.
  (* every bound key keeps exactly one of its bindings *)
  Lemma last_wins_has (l : list (K * V)) k : forall v, In (k, v) l -> exists v', In (k, v') (last_wins eqb l).
  Proof.
    induction l as [| kv t IH]; cbn; [tauto |].
    intros v [E | Hi].
    - subst kv. cbn. destruct (has_key eqb k t) eqn:Hk.
      + apply has_key_in in Hk. destruct Hk as [v2 H2]. exact (IH _ H2).
      + exists v. left. reflexivity.
    - destruct (IH _ Hi) as [v' H']. exists v'. destruct (has_key eqb (fst kv) t); [exact H' | right; exact H'].
  Qed.
  Lemma last_wins_keys_unique (l : list (K * V)) k v1 v2 :
    In (k, v1) (last_wins eqb l) -> In (k, v2) (last_wins eqb l) -> v1 = v2.
  Proof.
    induction l as [| kv t IH]; cbn; [tauto |].
    destruct (has_key eqb (fst kv) t) eqn:Hk; [exact IH |].
    cbn. intros [E1 | H1] [E2 | H2].
    - congruence.
    - subst kv. cbn in Hk. apply last_wins_in_orig in H2.
      exfalso. exact (proj1 (has_key_false _ _) Hk _ H2).
    - subst kv. cbn in Hk. apply last_wins_in_orig in H1.
      exfalso. exact (proj1 (has_key_false _ _) Hk _ H1).
    - exact (IH H1 H2).
  Qed.
End MapLemmas.

Lemma has_key_map_snd {K V W} (eqb : K -> K -> bool) (f : V -> W) k (l : list (K * V)) :
  has_key eqb k (map (fun e => (fst e, f (snd e))) l) = has_key eqb k l.
Proof. unfold has_key. induction l as [| a t IH]; cbn; [reflexivity | rewrite IH; reflexivity]. Qed.
Lemma last_wins_map_snd {K V W} (eqb : K -> K -> bool) (f : V -> W) (l : list (K * V)) :
  last_wins eqb (map (fun e => (fst e, f (snd e))) l) = map (fun e => (fst e, f (snd e))) (last_wins eqb l).
Proof.
  induction l as [| a t IH]; cbn; [reflexivity |].
  rewrite has_key_map_snd. destruct (has_key eqb (fst a) t); cbn; rewrite IH; reflexivity.
Qed.

Lemma pair_eqb_spec a b : pair_eqb a b = true <-> a = b.
Proof.
  unfold pair_eqb. destruct a as [a1 a2], b as [b1 b2]. cbn.
  rewrite andb_true_iff, !N.eqb_eq. split; [intros [-> ->]; reflexivity | intros E; inversion E; auto].
Qed.
Lemma Neqb_spec a b : N.eqb a b = true <-> a = b.
Proof. apply N.eqb_eq. Qed.

Lemma in_flat_map_iff {A B} (f : A -> list B) l y : In y (flat_map f l) <-> exists x, In x l /\ In y (f x).
Proof. apply in_flat_map. Qed.

(* ------------------------------------------------------------------ inputs *)
Definition bindings (ops : list in_op) : list (oref * owner) :=
  flat_map (fun op => match op with InAdd o w => [(o, w)] | _ => [] end) ops.
Definition g_script (e : oref * owner) : list ((sid * oref) * swit) :=
  match owner_swit (snd e) with Some sw => [((sw_hash sw, fst e), sw)] | None => [] end.

Lemma final_owners_eq ops : final_owners ops = last_wins N.eqb (bindings ops).
Proof. reflexivity. Qed.
Lemma ib_scripts_eq ops : ib_scripts ops = last_wins pair_eqb (flat_map g_script (bindings ops)).
Proof.
  unfold ib_scripts, bindings. f_equal.
  induction ops as [| op t IH]; cbn; [reflexivity |].
  rewrite flat_map_app, <- IH. f_equal.
  destruct op as [o w |]; cbn; [| reflexivity].
  unfold g_script. cbn. destruct (owner_swit w); reflexivity.
Qed.
Lemma ib_inputs_eq ops :
  ib_inputs ops = map (fun e => (fst e, owner_hash (snd e))) (final_owners ops).
Proof.
  unfold ib_inputs, final_owners. rewrite <- last_wins_map_snd. f_equal.
  induction ops as [| op t IH]; cbn; [reflexivity |].
  rewrite map_app, <- IH. destruct op; reflexivity.
Qed.
Lemma ib_body_inputs_eq ops : ib_body_inputs ops = map fst (final_owners ops).
Proof. unfold ib_body_inputs. rewrite ib_inputs_eq, map_map. reflexivity. Qed.

Definition consistent_P (b : list (oref * owner)) : Prop :=
  forall o w w', In (o, w) b -> In (o, w') b -> owner_id w = owner_id w'.

Lemma consistent_bindings_P l : consistent_bindings l = true ->
  forall o a b, In (o, a) l -> In (o, b) l -> a = b.
Proof.
  induction l as [| [o0 w0] t IH]; cbn; [tauto |].
  rewrite andb_true_iff, forallb_forall. intros [Hh Ht] o a b [E1 | H1] [E2 | H2].
  - congruence.
  - inversion E1; subst. specialize (Hh _ H2). cbn in Hh. rewrite N.eqb_refl in Hh. cbn in Hh.
    apply pair_eqb_spec in Hh. exact Hh.
  - inversion E2; subst. specialize (Hh _ H1). cbn in Hh. rewrite N.eqb_refl in Hh. cbn in Hh.
    apply pair_eqb_spec in Hh. symmetry. exact Hh.
  - exact (IH Ht _ _ _ H1 H2).
Qed.
Lemma op_bindings_eq ops :
  flat_map op_binding ops = map (fun e => (fst e, owner_id (snd e))) (bindings ops).
Proof.
  unfold bindings. induction ops as [| op t IH]; cbn; [reflexivity |].
  rewrite map_app, <- IH. destruct op; reflexivity.
Qed.
Lemma consistent_owners_P ops : consistent_owners ops = true -> consistent_P (bindings ops).
Proof.
  unfold consistent_owners. rewrite op_bindings_eq. intros H o w w' H1 H2.
  apply (consistent_bindings_P _ H o).
  - apply in_map_iff. exists (o, w). split; [reflexivity | exact H1].
  - apply in_map_iff. exists (o, w'). split; [reflexivity | exact H2].
Qed.
Lemma consistent_P_tail e t : consistent_P (e :: t) -> consistent_P t.
Proof. intros H o w w' H1 H2. apply (H o); right; assumption. Qed.

Lemma in_SB t h o sw :
  In ((h, o), sw) (flat_map g_script t) <->
  exists w, In (o, w) t /\ owner_swit w = Some sw /\ h = sw_hash sw.
Proof.
  rewrite in_flat_map. split.
  - intros [[o' w] [Hi Hg]]. unfold g_script in Hg. cbn in Hg.
    destruct (owner_swit w) as [sw' |] eqn:E; [| destruct Hg].
    destruct Hg as [Hg | []]. inversion Hg; subst. exists w. auto.
  - intros [w [Hi [E Hh]]]. exists (o, w). split; [exact Hi |].
    unfold g_script. cbn. rewrite E. left. subst. reflexivity.
Qed.
Lemma owner_id_script w0 w' sw0 :
  owner_swit w0 = Some sw0 -> owner_id w0 = owner_id w' ->
  exists sw', owner_swit w' = Some sw' /\ sw_hash sw' = sw_hash sw0.
Proof.
  destruct w0 as [k | a | n | p]; cbn; intros E; inversion E; subst; clear E;
    destruct w' as [k' | a' | n' | p']; cbn; intros H; inversion H.
  - exists (SWNative n'). cbn. auto.
  - exists (SWPlutus p'). cbn. auto.
Qed.
Lemma owner_id_key w k : owner_id w = (0, k) -> w = OKey k.
Proof. destruct w; cbn; intros H; inversion H; reflexivity. Qed.
Lemma owner_id_byron w a : owner_id w = (1, a) -> w = OByron a.
Proof. destruct w; cbn; intros H; inversion H; reflexivity. Qed.

Lemma scripts_final b : consistent_P b -> forall h o sw,
  In ((h, o), sw) (last_wins pair_eqb (flat_map g_script b)) <->
  exists w, In (o, w) (last_wins N.eqb b) /\ owner_swit w = Some sw /\ h = sw_hash sw.
Proof.
  induction b as [| [o0 w0] t IH]; intros HC h o sw.
  - cbn. split; [tauto | intros [w [[] _]]].
  - specialize (IH (consistent_P_tail _ _ HC)).
    cbn [flat_map last_wins fst]. unfold g_script at 1. cbn [fst snd].
    destruct (owner_swit w0) as [sw0 |] eqn:E0.
    + cbn [app last_wins fst].
      assert (HK : has_key pair_eqb (sw_hash sw0, o0) (flat_map g_script t) = has_key N.eqb o0 t).
      { apply eq_iff_eq_true. rewrite (has_key_in _ pair_eqb_spec), (has_key_in _ Neqb_spec). split.
        - intros [sw' Hi]. apply in_SB in Hi. destruct Hi as [w [Hi _]]. exists w. exact Hi.
        - intros [w' Hi].
          assert (Hid : owner_id w0 = owner_id w') by (apply (HC o0); [left; reflexivity | right; exact Hi]).
          destruct (owner_id_script _ _ _ E0 Hid) as [sw' [E' Hh]].
          exists sw'. apply in_SB. exists w'. auto. }
      rewrite HK. destruct (has_key N.eqb o0 t); [apply IH |].
      cbn [In]. rewrite IH. split.
      * intros [Hx | [w [Hi [E Hh]]]].
        -- inversion Hx; subst. exists w0. split; [left; reflexivity | auto].
        -- exists w. split; [right; exact Hi | auto].
      * intros [w [[Hx | Hi] [E Hh]]].
        -- inversion Hx; subst. left. rewrite E0 in E. inversion E; subst. reflexivity.
        -- right. exists w. auto.
    + cbn [app]. rewrite IH. destruct (has_key N.eqb o0 t); [reflexivity |].
      split.
      * intros [w [Hi HH]]. exists w. split; [right; exact Hi | exact HH].
      * intros [w [[Hx | Hi] [E Hh]]].
        -- inversion Hx; subst. congruence.
        -- exists w. auto.
Qed.

(* the keys an owner contributes in the specification *)
Definition owner_keys (w : owner) : list key :=
  match w with
  | OKey k => [k] | OByron _ => []
  | ONative n => declared_signers (SWNative n) | OPlutus p => declared_signers (SWPlutus p)
  end.
Lemma spec_input_keys_eq ops :
  spec_input_keys ops = flat_map (fun e => owner_keys (snd e)) (final_owners ops) ++ explicit_input_signers ops.
Proof.
  reflexivity.
Qed.
Lemma owner_keys_script w sw : owner_swit w = Some sw -> owner_keys w = olist (sw_required_signers sw).
Proof. destruct w; cbn; intros E; inversion E; reflexivity. Qed.

Lemma vkeys_split ops k :
  In k (flat_map (fun op => match op with InAdd _ (OKey k) => [k] | InSigner k => [k] | _ => [] end) ops) <->
  (exists o, In (o, OKey k) (bindings ops)) \/ In k (explicit_input_signers ops).
Proof.
  unfold bindings, explicit_input_signers. rewrite !in_flat_map. split.
  - intros [op [Hi Hx]]. destruct op as [o w | k'].
    + destruct w as [k' | a | n | p]; cbn in Hx; [| destruct Hx | destruct Hx | destruct Hx]. destruct Hx as [-> | []].
      left. exists o. apply in_flat_map. exists (InAdd o (OKey k)). split; [exact Hi | left; reflexivity].
    + destruct Hx as [-> | []]. right. exists (InSigner k). split; [exact Hi | left; reflexivity].
  - intros [[o H] | [op [Hi Hx]]].
    + apply in_flat_map in H. destruct H as [op [Hi Hx]]. destruct op as [o' w' |]; [| destruct Hx].
      destruct Hx as [Hx | []]. inversion Hx; subst. exists (InAdd o (OKey k)). split; [exact Hi | left; reflexivity].
    + destruct op as [o w | k']; [destruct Hx |]. destruct Hx as [-> | []].
      exists (InSigner k). split; [exact Hi | left; reflexivity].
Qed.

Lemma inputs_signers_spec ops : consistent_owners ops = true ->
  forall k, In k (ib_required_signers ops) <-> In k (spec_input_keys ops).
Proof.
  intros HC k. apply consistent_owners_P in HC.
  unfold ib_required_signers. rewrite set_of_in, in_app_iff. unfold ib_vkeys. rewrite set_of_in, vkeys_split.
  rewrite spec_input_keys_eq, in_app_iff, !in_flat_map, final_owners_eq, ib_scripts_eq. split.
  - intros [[[o Hi] | He] | [[[h o] sw] [Hi Hk]]].
    + left. destruct (last_wins_has N.eqb Neqb_spec _ _ _ Hi) as [w' Hw'].
      assert (Hid : owner_id (OKey k) = owner_id w')
        by (apply (HC o); [exact Hi | apply (last_wins_in_orig N.eqb) in Hw'; exact Hw']).
      cbn in Hid. symmetry in Hid. apply owner_id_key in Hid. subst w'.
      exists (o, OKey k). split; [exact Hw' | left; reflexivity].
    + right. exact He.
    + left. apply (scripts_final _ HC) in Hi. destruct Hi as [w [Hi [E _]]].
      exists (o, w). split; [exact Hi |]. cbn [snd] in *. rewrite (owner_keys_script _ _ E). exact Hk.
  - intros [[[o w] [Hi Hk]] | He]; [| left; right; exact He]. cbn [snd] in Hk.
    destruct (owner_swit w) as [sw |] eqn:E.
    + right. exists ((sw_hash sw, o), sw). split.
      * apply (scripts_final _ HC). exists w. auto.
      * cbn [snd]. rewrite <- (owner_keys_script _ _ E). exact Hk.
    + destruct w as [k' | a | n | p]; cbn in E; try discriminate; cbn in Hk.
      * destruct Hk as [-> | []]. left. left. exists o. apply (last_wins_in_orig N.eqb) in Hi. exact Hi.
      * destruct Hk.
Qed.

Lemma inputs_boots_spec ops : consistent_owners ops = true ->
  forall a, In a (ib_boots ops) <-> In a (spec_input_boots ops).
Proof.
  intros HC a. apply consistent_owners_P in HC.
  unfold ib_boots, spec_input_boots. rewrite set_of_in, !in_flat_map, final_owners_eq.
  assert (HB : forall o, In (InAdd o (OByron a)) ops <-> In (o, OByron a) (bindings ops)).
  { intros o. unfold bindings. rewrite in_flat_map. split.
    - intros H. exists (InAdd o (OByron a)). split; [exact H | left; reflexivity].
    - intros [op [Hi Hx]]. destruct op as [o' w' |]; [| destruct Hx]. destruct Hx as [Hx | []]. inversion Hx; subst. exact Hi. }
  split.
  - intros [op [Hi Hx]]. destruct op as [o w |]; [| destruct Hx].
    destruct w as [k' | a' | n | p]; cbn in Hx; [destruct Hx | | destruct Hx | destruct Hx].
    destruct Hx as [-> | []]. apply HB in Hi.
    destruct (last_wins_has N.eqb Neqb_spec _ _ _ Hi) as [w' Hw'].
    assert (Hid : owner_id (OByron a) = owner_id w')
      by (apply (HC o); [exact Hi | apply (last_wins_in_orig N.eqb) in Hw'; exact Hw']).
    cbn in Hid. symmetry in Hid. apply owner_id_byron in Hid. subst w'.
    exists (o, OByron a). split; [exact Hw' | left; reflexivity].
  - intros [[o w] [Hi Hx]]. cbn [snd] in Hx.
    destruct w as [k' | a' | n | p]; cbn in Hx; [destruct Hx | | destruct Hx | destruct Hx]. destruct Hx as [-> | []].
    apply (last_wins_in_orig N.eqb) in Hi. apply HB in Hi.
    exists (InAdd o (OByron a)). split; [exact Hi | left; reflexivity].
Qed.

(* ------------------------------------------------------------------ certificates *)
Lemma creds_keys_CK ks : creds_keys (map CK ks) = ks.
Proof. unfold creds_keys. induction ks as [| k t IH]; cbn; [reflexivity | rewrite IH; reflexivity]. Qed.

(* the key hashes the (repaired) builder counts for a certificate are exactly the key credentials of the
   ledger table, for every certificate kind and every credential / owner list *)
Lemma cert_table_keys c k :
  In k (witness_keys_for_cert_gen true c) <-> In k (creds_keys (cert_witness_creds c)).
Proof.
  destruct c as [kind cr ks aux]. unfold witness_keys_for_cert_gen, cert_witness_creds. cbn [c_kind c_cred c_keys].
  destruct (N.eq_dec kind 3) as [-> | N3].
  { change (3 =? 0) with false. change (3 =? 3) with true. cbn iota.
    rewrite creds_keys_CK, !in_app_iff. tauto. }
  destruct kind as [| p]; [vm_compute; tauto |].
  do 5 (try destruct p as [p | p |]); try congruence;
    destruct cr as [k0 | s0]; destruct ks as [| g [| d r]]; vm_compute; tauto.
Qed.

(* the builder asks for a script witness exactly when the ledger table names a script credential *)
Lemma cert_table_scripts c :
  cert_has_required_script_witness c = existsb cred_is_script (cert_witness_creds c).
Proof.
  destruct c as [kind cr ks aux]. unfold cert_has_required_script_witness, cert_witness_creds. cbn [c_kind c_cred c_keys].
  destruct (N.eq_dec kind 3) as [-> | N3].
  { change (3 =? 0) with false. change (3 =? 3) with true. cbn [orb].
    generalize (cred_key cr ++ ks). intros l. induction l as [| a t IH]; [reflexivity | exact IH]. }
  destruct kind as [| p]; [reflexivity |].
  do 5 (try destruct p as [p | p |]); try congruence; destruct cr; destruct ks as [| g [| d r]]; vm_compute; reflexivity.
Qed.

(* ------------------------------------------------------------------ the union *)
Definition all_consistent (t : tx_ops) : bool :=
  consistent_owners (t_inputs t) && consistent_owners (t_collateral t).

Lemma certs_signers_spec st k :
  In k (certs_required_signers_gen true st) <->
  In k (flat_map (fun e : cert_op => creds_keys (cert_witness_creds (fst e)) ++ wit_signers (snd e)) st).
Proof.
  unfold certs_required_signers_gen. rewrite set_of_in, !in_flat_map. split; intros [e [Hi Hk]]; exists e; split; auto;
    rewrite in_app_iff in *; rewrite cert_table_keys in *; exact Hk.
Qed.
Lemma votes_signers_spec st k :
  In k (votes_required_signers_gen true st) <->
  In k (flat_map (fun e : vote_op => cred_key (v_cred (fst e)) ++ wit_signers (snd e)) st).
Proof.
  unfold votes_required_signers_gen. rewrite set_of_in.
  rewrite (flat_map_ext _ (fun e : vote_op => cred_key (v_cred (fst e)) ++ wit_signers (snd e))); [reflexivity |].
  intros [v [[n | p] |]]; reflexivity.
Qed.

(* the (repaired) union is, as a set, the required key set of the specification *)
Lemma needed_vkeys_spec t : all_consistent t = true ->
  forall k, In k (needed_vkeys_gen true true true true t) <-> In k (required_keys_list t).
Proof.
  unfold all_consistent. rewrite andb_true_iff. intros [HI HC] k.
  unfold needed_vkeys_gen, required_keys_list.
  rewrite set_of_in, !in_app_iff.
  rewrite (inputs_signers_spec _ HI), (inputs_signers_spec _ HC), set_of_in, certs_signers_spec, votes_signers_spec.
  unfold mint_required_signers_gen, wd_required_signers, props_required_signers_gen. rewrite !set_of_in.
  unfold declared_signers. tauto.
Qed.
Lemma needed_vkeys_nodup fv fm fp fg t : NoDup (needed_vkeys_gen fv fm fp fg t).
Proof. apply set_of_nodup. Qed.

Lemma signers_union_gen t : all_consistent t = true ->
  N.of_nat (length (needed_vkeys_gen true true true true t)) = N.of_nat (length (required_keys_spec t)).
Proof.
  intros H. f_equal. apply nodup_same_length.
  - apply needed_vkeys_nodup.
  - apply NoDup_nodup.
  - intros k. rewrite (needed_vkeys_spec t H). unfold required_keys_spec. rewrite nodup_In. reflexivity.
Qed.

(* the tree the check runs on: four repaired parts, the genesis delegation part as in the original *)
Lemma needed_vkeys_current t : needed_vkeys t = needed_vkeys_gen true true true false t.
Proof. reflexivity. Qed.

Lemma known_genesis_false t : known_genesis t = false ->
  length (needed_vkeys_gen true true true false t) = length (needed_vkeys_gen true true true true t).
Proof.
  unfold known_genesis. intros H. apply negb_false_iff in H. apply Nat.eqb_eq in H. exact H.
Qed.

(* count_needed_vkeys = number of distinct keys that have to sign, for every overlap between the sources
   and every insertion order; premises: an outpoint added again keeps its owner; outside the narrow
   genesis-delegation class *)
Theorem signers_union t : all_consistent t = true -> known_genesis t = false ->
  count_needed_vkeys t = N.of_nat (length (required_keys_spec t)).
Proof.
  intros HC HG. unfold count_needed_vkeys. rewrite needed_vkeys_current, (known_genesis_false t HG).
  apply signers_union_gen, HC.
Qed.

(* without a genesis key delegation the class is empty *)
Lemma witness_keys_not_genesis f c : c_kind c <> 5 -> witness_keys_for_cert_gen f c = witness_keys_for_cert_gen true c.
Proof.
  intros H. unfold witness_keys_for_cert_gen. destruct (c_kind c =? 5) eqn:E; [apply N.eqb_eq in E; contradiction |].
  reflexivity.
Qed.
Definition no_genesis_delegation (t : tx_ops) : bool := forallb (fun e => negb (c_kind (fst e) =? 5)) (t_certs t).
Lemma certs_run_sub ops e : In e (certs_run ops) -> In e ops.
Proof.
  unfold certs_run.
  assert (G : forall st, In e (fold_left (fun st op => if certs_accepts st op then st ++ [op] else st) ops st) -> In e st \/ In e ops).
  { induction ops as [| op t IH]; intros st; cbn; [auto |].
    intros H. apply IH in H. destruct H as [H | H]; [| auto].
    destruct (certs_accepts st op); [| auto]. apply in_app_iff in H. destruct H as [H | [-> | []]]; auto. }
  intros H. apply G in H. destruct H as [[] | H]. exact H.
Qed.
Lemma flat_map_ext_In {A B} (f g : A -> list B) l : (forall x, In x l -> f x = g x) -> flat_map f l = flat_map g l.
Proof.
  induction l as [| a t IH]; intros H; cbn; [reflexivity |].
  rewrite (H a (or_introl eq_refl)), IH; [reflexivity | intros x Hx; apply H; right; exact Hx].
Qed.
Lemma no_genesis_not_known t : no_genesis_delegation t = true -> known_genesis t = false.
Proof.
  intros H. unfold known_genesis. apply negb_false_iff, Nat.eqb_eq. f_equal.
  unfold needed_vkeys_gen.
  assert (E : certs_required_signers_gen false (certs_run (t_certs t)) = certs_required_signers_gen true (certs_run (t_certs t))).
  { unfold certs_required_signers_gen. f_equal.
    apply flat_map_ext_In. intros e He. f_equal. apply witness_keys_not_genesis.
    apply certs_run_sub in He. unfold no_genesis_delegation in H. rewrite forallb_forall in H.
    specialize (H _ He). apply negb_true_iff, N.eqb_neq in H. exact H. }
  rewrite E. reflexivity.
Qed.

(* ------------------------------------------------------------------ the original code, refuted *)
Definition tx0 : tx_ops :=
  {| t_inputs := []; t_collateral := []; t_certs := []; t_withdrawals := []; t_votes := []; t_proposals := [];
     t_mint := []; t_required_signers := []; t_reference_inputs := []; t_extra_datums := [];
     t_dedup_explicit_refs := false |}.
Definition with_inputs (t : tx_ops) (i : list in_op) : tx_ops :=
  {| t_inputs := i; t_collateral := t_collateral t; t_certs := t_certs t; t_withdrawals := t_withdrawals t;
     t_votes := t_votes t; t_proposals := t_proposals t; t_mint := t_mint t;
     t_required_signers := t_required_signers t; t_reference_inputs := t_reference_inputs t;
     t_extra_datums := t_extra_datums t; t_dedup_explicit_refs := t_dedup_explicit_refs t |}.
Definition mk1 (w : mint_wit) : mint_op := {| mo_wit := w; mo_asset := 0; mo_amount := 1 |}.
Definition pw0 (s : psource) : pwit := {| pw_script := s; pw_datum := None; pw_red := 0 |}.

(* a DRep script voter with a Plutus witness whose source declares signer 7, next to a key input of key 1 *)
Definition w_vote : tx_ops :=
  {| t_inputs := [InAdd 0 (OKey 1)]; t_collateral := []; t_certs := []; t_withdrawals := [];
     t_votes := [({| v_kind := 1; v_cred := CS 1000 |}, Some (SWPlutus (pw0 (PSInline 1000 (Some [7])))))];
     t_proposals := []; t_mint := []; t_required_signers := []; t_reference_inputs := []; t_extra_datums := [];
     t_dedup_explicit_refs := false |}.
Lemma votes_original_refuted : exists t, all_consistent t = true /\
  (length (needed_vkeys_gen false true true true t) < length (required_keys_spec t))%nat.
Proof. exists w_vote. split; vm_compute; [reflexivity | lia]. Qed.

(* a native minting policy supplied by reference input with declared signer 7: nothing was counted *)
Definition w_mint_ref : tx_ops :=
  {| t_inputs := [InAdd 0 (OKey 1)]; t_collateral := []; t_certs := []; t_withdrawals := []; t_votes := [];
     t_proposals := []; t_mint := [mk1 (MNative (NSRef 101 1 (Some [7])))];
     t_required_signers := []; t_reference_inputs := []; t_extra_datums := []; t_dedup_explicit_refs := false |}.
(* an inline native policy over keys 5,6,7 of which the caller declared 7 as the signer: all three were counted *)
Definition w_mint_inline : tx_ops :=
  {| t_inputs := [InAdd 0 (OKey 1)]; t_collateral := []; t_certs := []; t_withdrawals := []; t_votes := [];
     t_proposals := []; t_mint := [mk1 (MNative (NSInline 2 [5; 6; 7] (Some [7])))];
     t_required_signers := []; t_reference_inputs := []; t_extra_datums := []; t_dedup_explicit_refs := false |}.
Lemma mint_original_refuted :
  (exists t, all_consistent t = true /\
     (length (needed_vkeys_gen true false true true t) < length (required_keys_spec t))%nat) /\
  (exists t, all_consistent t = true /\
     (length (required_keys_spec t) + 2 <= length (needed_vkeys_gen true false true true t))%nat).
Proof.
  split; [exists w_mint_ref | exists w_mint_inline]; split; vm_compute; try reflexivity; lia.
Qed.

Definition w_prop : tx_ops :=
  {| t_inputs := [InAdd 0 (OKey 1)]; t_collateral := []; t_certs := []; t_withdrawals := []; t_votes := [];
     t_proposals := [{| p_id := 0; p_scripted := true; p_wit := Some (pw0 (PSInline 1000 (Some [7]))) |}];
     t_mint := []; t_required_signers := []; t_reference_inputs := []; t_extra_datums := [];
     t_dedup_explicit_refs := false |}.
Lemma proposals_original_refuted : exists t, all_consistent t = true /\
  (length (needed_vkeys_gen true true false true t) < length (required_keys_spec t))%nat.
Proof. exists w_prop. split; vm_compute; [reflexivity | lia]. Qed.

(* a Byron address among the collateral inputs: its bootstrap witness was not counted *)
Definition w_byron_collateral : tx_ops :=
  {| t_inputs := [InAdd 0 (OKey 1)]; t_collateral := [InAdd 30 (OByron 1)]; t_certs := []; t_withdrawals := [];
     t_votes := []; t_proposals := []; t_mint := []; t_required_signers := []; t_reference_inputs := [];
     t_extra_datums := []; t_dedup_explicit_refs := false |}.
Lemma collateral_boots_original_refuted : exists t, all_consistent t = true /\
  (length (needed_bootstraps_gen false t) < length (required_boots_spec t))%nat.
Proof. exists w_byron_collateral. split; vm_compute; [reflexivity | lia]. Qed.

(* the tree as it is: genesis delegation 2 -> delegate 0 next to an input of key 0: the delegate hash is
   counted (and merged with the input key), the genesis key 2 that must sign is not *)
Definition w_genesis : tx_ops :=
  {| t_inputs := [InAdd 0 (OKey 0)]; t_collateral := [];
     t_certs := [({| c_kind := 5; c_cred := CK 0; c_keys := [2; 0]; c_aux := 0 |}, None)]; t_withdrawals := [];
     t_votes := []; t_proposals := []; t_mint := []; t_required_signers := []; t_reference_inputs := [];
     t_extra_datums := []; t_dedup_explicit_refs := false |}.
Lemma signers_union_refuted_genesis : exists t, all_consistent t = true /\ known_genesis t = true /\
  count_needed_vkeys t < N.of_nat (length (required_keys_spec t)).
Proof. exists w_genesis. repeat split; vm_compute; reflexivity. Qed.

(* an outpoint added with key 1 and again with key 2: both keys stay counted, one signs *)
Definition w_reown : tx_ops := with_inputs tx0 [InAdd 0 (OKey 1); InAdd 0 (OKey 2)].
Lemma signers_union_refuted_readded : exists t, all_consistent t = false /\ known_genesis t = false /\
  N.of_nat (length (required_keys_spec t)) < count_needed_vkeys t.
Proof. exists w_reown. repeat split; vm_compute; reflexivity. Qed.

(* ------------------------------------------------------------------ sizes *)
Lemma vkey_witness_size_101 : vkey_witness_size = 101.
Proof. reflexivity. Qed.
Lemma head_size_258 : head_size 258 = 3.
Proof. reflexivity. Qed.

(* one more signer makes the field at least one witness longer *)
Lemma vkeys_field_size_step n m : n < m -> vkeys_field_size n + vkey_witness_size <= vkeys_field_size m.
Proof.
  intros H. unfold vkeys_field_size. rewrite vkey_witness_size_101, head_size_258.
  destruct (m =? 0) eqn:Em; [apply N.eqb_eq in Em; lia |]. apply N.eqb_neq in Em.
  destruct (n =? 0) eqn:En.
  - apply N.eqb_eq in En. pose proof (head_size_bounds m). lia.
  - apply N.eqb_neq in En. pose proof (head_size_mono n m ltac:(lia)). lia.
Qed.

(* with the same bootstrap part b on both sides, the size clause of the property holds exactly when the
   builder counted as many keys as sign: nobody forgotten, nobody counted twice *)
Lemma size_clause_iff_count n m b :
  (vkeys_field_size m + b <= vkeys_field_size n + b /\
   vkeys_field_size n + b < vkeys_field_size m + b + vkey_witness_size) <-> n = m.
Proof.
  split.
  - intros [H1 H2]. destruct (N.lt_trichotomy n m) as [L | [E | L]]; [| exact E |].
    + pose proof (vkeys_field_size_step _ _ L). rewrite vkey_witness_size_101 in *. lia.
    + pose proof (vkeys_field_size_step _ _ L). lia.
  - intros ->. rewrite vkey_witness_size_101. lia.
Qed.

Lemma sumN_perm l l' : Permutation l l' -> sumN l = sumN l'.
Proof. unfold sumN. induction 1; cbn [fold_right] in *; lia. Qed.
Lemma boots_field_size_perm l l' : Permutation l l' -> boots_field_size l = boots_field_size l'.
Proof.
  intros P. pose proof (Permutation_length P) as L.
  pose proof (sumN_perm _ _ (Permutation_map boot_witness_size P)) as S.
  destruct l as [| a r], l' as [| a' r']; try discriminate; [reflexivity |].
  unfold boots_field_size. rewrite L, S. reflexivity.
Qed.

Lemma boots_spec t : all_consistent t = true ->
  Permutation (needed_bootstraps_gen true t) (required_boots_spec t).
Proof.
  unfold all_consistent. rewrite andb_true_iff. intros [HI HC].
  apply NoDup_Permutation; [apply set_of_nodup | apply NoDup_nodup |].
  intros a. unfold needed_bootstraps_gen, required_boots_spec.
  rewrite set_of_in, nodup_In, !in_app_iff, (inputs_boots_spec _ HI), (inputs_boots_spec _ HC). reflexivity.
Qed.

(* the bytes the builder reserves for signatures = the bytes the real signatures take *)
Theorem size_exact tb t : all_consistent t = true -> known_genesis t = false ->
  predicted_sig_bytes tb t = signed_sig_bytes tb t.
Proof.
  intros HC HG. unfold predicted_sig_bytes, signed_sig_bytes.
  rewrite (signers_union t HC HG). f_equal.
  apply boots_field_size_perm, Permutation_map. exact (boots_spec t HC).
Qed.

(* ------------------------------------------------------------------ scripts, datums, redeemers, reference inputs *)
Lemma triple_eqb_spec a b : triple_eqb a b = true <-> a = b.
Proof.
  destruct a as [a1 [a2 a3]], b as [b1 [b2 b3]]. unfold triple_eqb. cbn.
  rewrite !andb_true_iff, !N.eqb_eq. split; [intros [[-> ->] ->]; reflexivity | intros E; inversion E; auto].
Qed.
Lemma dedup_by_in {A} (eqb : A -> A -> bool) (spec : forall a b, eqb a b = true <-> a = b) l :
  forall seen x, In x (dedup_by eqb seen l) <-> In x l /\ ~ In x seen.
Proof.
  induction l as [| x0 t IH]; intros seen x; cbn; [tauto |].
  destruct (existsb (eqb x0) seen) eqn:E.
  - rewrite IH. apply existsb_exists in E. destruct E as [y [Hy Ey]]. apply spec in Ey. subst y.
    split; [tauto |]. intros [[-> | H] Hn]; [contradiction | auto].
  - assert (Hx0 : ~ In x0 seen).
    { intros Hi. assert (existsb (eqb x0) seen = true); [| congruence].
      apply existsb_exists. exists x0. split; [exact Hi | apply spec; reflexivity]. }
    cbn. rewrite IH. cbn. split.
    + intros [-> | [Ht Hn]]; [auto | split; [auto | tauto]].
    + intros [[-> | Ht] Hn]; [auto |].
      destruct (eqb x0 x) eqn:Ex; [apply spec in Ex; auto |].
      right. split; [exact Ht |]. intros [-> | Hs]; [| contradiction].
      assert (eqb x x = true) by (apply spec; reflexivity). congruence.
Qed.

Lemma ref_avail_model t r : In r (source_ref_inputs t) -> ref_available (model_emitted t) r = true.
Proof.
  intros H. unfold ref_available, model_emitted, model_emitted_hr. cbn [e_refs e_inputs].
  destruct (memN r (body_inputs t)) eqn:E; [apply orb_true_r |].
  rewrite orb_false_r. apply memN_in. unfold body_reference_inputs. rewrite set_of_in, in_app_iff. left.
  apply filter_In. split; [exact H | rewrite E; reflexivity].
Qed.

(* what the transaction builder collects for a witness attached to an item *)
Definition covered (t : tx_ops) (tag : N) (sw : swit) : Prop :=
  (forall s, In s (sw_inline_native sw) -> In s (ws_native_scripts t)) /\
  (forall r, In r (sw_ref_inputs sw) -> In r (source_ref_inputs t)) /\
  (forall p, sw = SWPlutus p -> exists it, In {| pt_tag := tag; pt_item := it; pt_wit := p |} (combined_plutus t)).

Lemma covered_available t tag locked sw : covered t tag sw ->
  let i := {| si_tag := tag; si_locked := locked; si_wit := sw |} in
  item_script_available (model_emitted t) i && item_plutus_data (model_emitted t) i = true.
Proof.
  intros [HN [HR HP]] i. subst i. unfold item_script_available, item_plutus_data. cbn [si_wit si_tag].
  destruct sw as [n | p].
  - rewrite andb_true_r. destruct n as [s ks d | r s d].
    + apply N.eqb_eq, countN_nodup; [apply set_of_nodup | apply HN; left; reflexivity].
    + apply ref_avail_model, HR. left. reflexivity.
  - destruct (HP p eq_refl) as [it Hit]. apply andb_true_iff. split; [| apply andb_true_iff; split].
    + destruct (pw_script p) as [s d | r s d] eqn:Es.
      * apply N.eqb_eq, countN_nodup; [apply set_of_nodup |].
        unfold model_emitted, model_emitted_hr, ws_plutus_scripts. cbn [e_plutus]. rewrite set_of_in, in_flat_map.
        eexists. split; [exact Hit |]. cbn [pt_wit]. rewrite Es. left. reflexivity.
      * apply ref_avail_model, HR. unfold sw_ref_inputs, sw_script_ref. rewrite Es. left. reflexivity.
    + destruct (pw_datum p) as [[d | r] |] eqn:Ed; [| | reflexivity].
      * apply N.eqb_eq, countN_nodup; [apply set_of_nodup |].
        unfold model_emitted, model_emitted_hr, ws_datums. cbn [e_datums]. rewrite set_of_in, in_app_iff, in_flat_map. left.
        eexists. split; [exact Hit |]. cbn [pt_wit]. rewrite Ed. left. reflexivity.
      * apply ref_avail_model, HR. unfold sw_ref_inputs, sw_datum_ref. rewrite Ed, in_app_iff. right. left. reflexivity.
    + apply existsb_exists. exists (tag, pw_red p). split; [| cbn; rewrite !N.eqb_refl; reflexivity].
      unfold model_emitted, model_emitted_hr, ws_redeemers. cbn [e_redeemers]. apply in_map_iff.
      exists (tag, (it, pw_red p)). split; [reflexivity |].
      apply (dedup_by_in _ triple_eqb_spec). split; [| intros []].
      apply in_map_iff. eexists. split; [| exact Hit]. reflexivity.
Qed.

Lemma covered_inputs t o w sw : consistent_owners (t_inputs t) = true ->
  In (o, w) (final_owners (t_inputs t)) -> owner_swit w = Some sw -> covered t TAG_SPEND sw.
Proof.
  intros HC Hi E. pose proof (consistent_owners_P _ HC) as HP.
  assert (HS : In ((sw_hash sw, o), sw) (ib_scripts (t_inputs t))).
  { rewrite ib_scripts_eq. apply (scripts_final _ HP). exists w. rewrite final_owners_eq in Hi. auto. }
  repeat split.
  - intros s Hs. unfold ws_native_scripts. rewrite set_of_in, in_app_iff. left.
    unfold ib_native_scripts. apply in_flat_map. eexists. split; [exact HS | exact Hs].
  - intros r Hr. unfold source_ref_inputs. rewrite in_app_iff. left.
    unfold ib_ref_inputs. apply in_flat_map. eexists. split; [exact HS |]. cbn [snd].
    unfold sw_ref_inputs in Hr. destruct sw; [unfold sw_datum_ref in Hr; rewrite app_nil_r in Hr; exact Hr |].
    rewrite in_app_iff in *. tauto.
  - intros p ->. exists (rank o (ib_body_inputs (t_inputs t))). unfold combined_plutus. rewrite in_app_iff. left.
    unfold ib_plutus. apply in_flat_map. eexists. split; [exact HS |]. cbn [snd fst].
    assert (HM : registered_under (t_inputs t) o (sw_hash (SWPlutus p)) = true).
    { unfold registered_under. apply existsb_exists. exists (o, owner_hash w). split.
      - rewrite ib_inputs_eq. apply in_map_iff. exists (o, w). split; [reflexivity | exact Hi].
      - cbn [fst snd]. unfold owner_hash. rewrite E. cbn [option_map]. rewrite !N.eqb_refl. reflexivity. }
    rewrite HM. left. reflexivity.
Qed.

Lemma in_enum_from {A} (l : list A) x : In x l -> forall n, exists i, In (i, x) (enum_from n l).
Proof.
  induction l as [| a t IH]; cbn; [tauto |]. intros [-> | H] n.
  - exists n. left. reflexivity.
  - destruct (IH H (n + 1)) as [i Hi]. exists i. right. exact Hi.
Qed.

Lemma covered_mint t m : In m (mint_run (mint_wits t)) -> covered t TAG_MINT (mint_swit m).
Proof.
  intros Hi. repeat split.
  - intros s Hs. unfold ws_native_scripts. rewrite set_of_in, !in_app_iff. right. right. left.
    unfold mint_native_scripts. apply in_flat_map. exists m. auto.
  - intros r Hr. unfold source_ref_inputs. rewrite !in_app_iff. right. left.
    unfold mint_ref_inputs. apply in_flat_map. exists m. split; [exact Hi |].
    unfold sw_ref_inputs in Hr. destruct m as [n | p rd]; cbn in *; [rewrite app_nil_r in Hr; exact Hr |].
    unfold sw_datum_ref in Hr. cbn in Hr. rewrite app_nil_r in Hr. exact Hr.
  - intros p Hp. destruct m as [n | ps rd]; cbn in Hp; [discriminate |]. inversion Hp; subst p.
    exists (ps_hash ps). unfold combined_plutus. rewrite !in_app_iff. right. right. left.
    unfold mint_plutus. apply in_flat_map. eexists. split; [exact Hi |]. left. reflexivity.
Qed.

Lemma covered_cert t c sw : In (c, Some sw) (certs_run (t_certs t)) -> covered t TAG_CERT sw.
Proof.
  intros Hi. repeat split.
  - intros s Hs. unfold ws_native_scripts. rewrite set_of_in, !in_app_iff. do 3 right. left.
    apply in_flat_map. eexists. split; [exact Hi | exact Hs].
  - intros r Hr. unfold source_ref_inputs. rewrite !in_app_iff. do 3 right. left.
    apply in_flat_map. eexists. split; [exact Hi | exact Hr].
  - intros p ->. destruct (in_enum_from _ _ Hi 0) as [i Hie]. exists i.
    unfold combined_plutus. rewrite !in_app_iff. do 3 right. left.
    unfold certs_plutus. apply in_flat_map. eexists. split; [exact Hie |]. left. reflexivity.
Qed.
Lemma covered_wd t c sw : In (c, Some sw) (wd_run (t_withdrawals t)) -> covered t TAG_REWARD sw.
Proof.
  intros Hi. repeat split.
  - intros s Hs. unfold ws_native_scripts. rewrite set_of_in, !in_app_iff. do 4 right. left.
    apply in_flat_map. eexists. split; [exact Hi | exact Hs].
  - intros r Hr. unfold source_ref_inputs. rewrite !in_app_iff. do 2 right. left.
    apply in_flat_map. eexists. split; [exact Hi | exact Hr].
  - intros p ->. exists (cred_item c).
    unfold combined_plutus. rewrite !in_app_iff. do 4 right. left.
    unfold wd_plutus. apply in_flat_map. eexists. split; [exact Hi |]. left. reflexivity.
Qed.
Lemma covered_vote t v sw : In (v, Some sw) (votes_run (t_votes t)) -> covered t TAG_VOTE sw.
Proof.
  intros Hi. repeat split.
  - intros s Hs. unfold ws_native_scripts. rewrite set_of_in, !in_app_iff. do 5 right.
    apply in_flat_map. eexists. split; [exact Hi | exact Hs].
  - intros r Hr. unfold source_ref_inputs. rewrite !in_app_iff. do 4 right. left.
    apply in_flat_map. eexists. split; [exact Hi | exact Hr].
  - intros p ->. exists (voter_item v).
    unfold combined_plutus. rewrite !in_app_iff. do 5 right. left.
    unfold votes_plutus. apply in_flat_map. eexists. split; [exact Hi |]. left. reflexivity.
Qed.
Lemma props_run_plutus t i sw : In (i, Some sw) (props_run (t_proposals t)) -> exists p, sw = SWPlutus p.
Proof.
  unfold props_run. intros H. apply (last_wins_in_orig N.eqb) in H. apply in_map_iff in H.
  destruct H as [op [E _]]. inversion E. destruct (p_wit op); inversion H1. eexists. reflexivity.
Qed.
Lemma covered_prop t i sw : In (i, Some sw) (props_run (t_proposals t)) -> covered t TAG_PROPOSE sw.
Proof.
  intros Hi. destruct (props_run_plutus _ _ _ Hi) as [p0 ->]. repeat split.
  - intros s [].
  - intros r Hr. unfold source_ref_inputs. rewrite !in_app_iff. do 5 right.
    apply in_flat_map. eexists. split; [exact Hi | exact Hr].
  - intros p E. inversion E; subst p0. exists i.
    unfold combined_plutus. rewrite !in_app_iff. do 6 right.
    unfold props_plutus. apply in_flat_map. eexists. split; [exact Hi |]. left. reflexivity.
Qed.

(* every script-locked item of the built transaction has its script at hand (exactly one copy in the witness
   set, or the declared reference input in the body), its datum when it carries one and its redeemer; the
   emitted sets are duplicate-free *)
Theorem scripts_available_model t : consistent_owners (t_inputs t) = true ->
  scripts_available t (model_emitted t) = true.
Proof.
  intros HC. unfold scripts_available. rewrite !andb_true_iff. repeat split;
    try (apply nodupb_true, set_of_nodup).
  2: { apply forallb_forall. intros d Hd. apply N.eqb_eq, countN_nodup; [apply set_of_nodup |].
       unfold model_emitted, model_emitted_hr, ws_datums. cbn [e_datums]. rewrite set_of_in, in_app_iff. right. exact Hd. }
  apply forallb_forall. intros i Hi. unfold script_items in Hi. rewrite !in_app_iff in Hi.
  destruct Hi as [Hi | [Hi | [Hi | [Hi | [Hi | Hi]]]]].
  - apply in_flat_map in Hi. destruct Hi as [[o w] [Ho Hi]]. cbn [snd] in Hi. unfold mk_items in Hi.
    destruct (owner_swit w) as [sw |] eqn:E; [| destruct Hi]. destruct Hi as [<- | []].
    apply covered_available. exact (covered_inputs t o w sw HC Ho E).
  - apply in_map_iff in Hi. destruct Hi as [m [<- Hm]]. apply covered_available, covered_mint, Hm.
  - apply in_flat_map in Hi. destruct Hi as [[c w] [Hc Hi]]. cbn [snd fst] in Hi. unfold mk_items in Hi.
    destruct w as [sw |]; [| destruct Hi]. destruct Hi as [<- | []]. apply covered_available. exact (covered_cert t c sw Hc).
  - apply in_flat_map in Hi. destruct Hi as [[c w] [Hc Hi]]. cbn [snd fst] in Hi. unfold mk_items in Hi.
    destruct w as [sw |]; [| destruct Hi]. destruct Hi as [<- | []]. apply covered_available. exact (covered_wd t c sw Hc).
  - apply in_flat_map in Hi. destruct Hi as [[v w] [Hc Hi]]. cbn [snd fst] in Hi. unfold mk_items in Hi.
    destruct w as [sw |]; [| destruct Hi]. destruct Hi as [<- | []]. apply covered_available. exact (covered_vote t v sw Hc).
  - apply in_flat_map in Hi. destruct Hi as [[n w] [Hc Hi]]. cbn [snd fst] in Hi. unfold mk_items in Hi.
    destruct w as [sw |]; [| destruct Hi]. destruct Hi as [<- | []]. apply covered_available. exact (covered_prop t n sw Hc).
Qed.

(* the body's reference inputs are exactly the declared ones (script and datum references of every source,
   explicit reference inputs) that are not spent by the transaction itself; no duplicates *)
Theorem refs_declared t r :
  In r (body_reference_inputs t) <->
  (In r (source_ref_inputs t) /\ ~ In r (body_inputs t)) \/
  (In r (t_reference_inputs t) /\ (t_dedup_explicit_refs t = true -> ~ In r (body_inputs t))).
Proof.
  unfold body_reference_inputs. rewrite set_of_in, in_app_iff, filter_In, negb_true_iff, memN_false.
  destruct (t_dedup_explicit_refs t).
  - rewrite filter_In, negb_true_iff, memN_false. intuition.
  - intuition discriminate.
Qed.
Lemma refs_nodup t : NoDup (body_reference_inputs t).
Proof. apply set_of_nodup. Qed.
Lemma refs_disjoint_inputs t r : t_dedup_explicit_refs t = true ->
  In r (body_reference_inputs t) -> ~ In r (body_inputs t).
Proof. intros HD H. apply refs_declared in H. destruct H as [[_ H] | [_ H]]; auto. Qed.

(* --- nothing extraneous: every emitted script belongs to an item that carries it inline --- *)
Lemma inline_native_hash sw s : In s (sw_inline_native sw) -> sw_is_inline sw = true /\ sw_hash sw = s.
Proof.
  destruct sw as [[s' ks d | r s' d] | p]; cbn; intros H; try destruct H as [-> | []]; try destruct H. auto.
Qed.
Lemma item_inline_in t i : In i (script_items t) -> sw_is_inline (si_wit i) = true ->
  In (sw_hash (si_wit i)) (inline_hashes t).
Proof.
  intros Hi E. unfold inline_hashes. apply in_flat_map. exists i. split; [exact Hi |]. rewrite E. left. reflexivity.
Qed.
Lemma item_ref_in t i : In i (script_items t) -> sw_is_inline (si_wit i) = false ->
  In (sw_hash (si_wit i)) (ref_hashes t).
Proof.
  intros Hi E. unfold ref_hashes. apply in_flat_map. exists i. split; [exact Hi |]. rewrite E. left. reflexivity.
Qed.

Lemma collateral_plain_scripts t : collateral_plain t = true -> ib_scripts (t_collateral t) = [].
Proof.
  unfold collateral_plain. rewrite forallb_forall. intros H. rewrite ib_scripts_eq.
  assert (E : flat_map g_script (bindings (t_collateral t)) = []); [| rewrite E; reflexivity].
  unfold bindings. induction (t_collateral t) as [| op l IH]; cbn; [reflexivity |].
  rewrite flat_map_app, IH by (intros x Hx; apply H; right; exact Hx). rewrite app_nil_r.
  specialize (H op (or_introl eq_refl)).
  destruct op as [o w |]; [| reflexivity]. destruct w; try discriminate; reflexivity.
Qed.

(* the items of the six sources, seen from the builder's side *)
Lemma item_of_input t o w sw tagl : In (o, w) (final_owners (t_inputs t)) -> owner_swit w = Some sw ->
  tagl = None -> In {| si_tag := TAG_SPEND; si_locked := tagl; si_wit := sw |} (script_items t).
Proof.
  intros Hi E ->. unfold script_items. rewrite in_app_iff. left. apply in_flat_map. exists (o, w).
  split; [exact Hi |]. cbn [snd]. rewrite E. left. reflexivity.
Qed.
Lemma item_of_script_entry t h o sw : consistent_owners (t_inputs t) = true ->
  In ((h, o), sw) (ib_scripts (t_inputs t)) ->
  In {| si_tag := TAG_SPEND; si_locked := None; si_wit := sw |} (script_items t).
Proof.
  intros HC H. rewrite ib_scripts_eq in H. apply (scripts_final _ (consistent_owners_P _ HC)) in H.
  destruct H as [w [Hi [E _]]]. exact (item_of_input t o w sw None Hi E eq_refl).
Qed.
Lemma item_of_mint t m : In m (mint_run (mint_wits t)) ->
  In {| si_tag := TAG_MINT; si_locked := None; si_wit := mint_swit m |} (script_items t).
Proof.
  intros H. unfold script_items. rewrite !in_app_iff. right. left. apply in_map_iff. exists m. auto.
Qed.
Lemma item_of_cert t c sw : In (c, Some sw) (certs_run (t_certs t)) ->
  In {| si_tag := TAG_CERT; si_locked := cred_script (c_cred c); si_wit := sw |} (script_items t).
Proof.
  intros H. unfold script_items. rewrite !in_app_iff. do 2 right. left. apply in_flat_map. exists (c, Some sw).
  split; [exact H | left; reflexivity].
Qed.
Lemma item_of_wd t c sw : In (c, Some sw) (wd_run (t_withdrawals t)) ->
  In {| si_tag := TAG_REWARD; si_locked := cred_script c; si_wit := sw |} (script_items t).
Proof.
  intros H. unfold script_items. rewrite !in_app_iff. do 3 right. left. apply in_flat_map. exists (c, Some sw).
  split; [exact H | left; reflexivity].
Qed.
Lemma item_of_vote t v sw : In (v, Some sw) (votes_run (t_votes t)) ->
  In {| si_tag := TAG_VOTE; si_locked := cred_script (v_cred v); si_wit := sw |} (script_items t).
Proof.
  intros H. unfold script_items. rewrite !in_app_iff. do 4 right. left. apply in_flat_map. exists (v, Some sw).
  split; [exact H | left; reflexivity].
Qed.
Lemma item_of_prop t i sw : In (i, Some sw) (props_run (t_proposals t)) ->
  In {| si_tag := TAG_PROPOSE; si_locked := None; si_wit := sw |} (script_items t).
Proof.
  intros H. unfold script_items. rewrite !in_app_iff. do 5 right. apply in_flat_map. exists (i, Some sw).
  split; [exact H | left; reflexivity].
Qed.

Lemma native_emitted_inline t s : consistent_owners (t_inputs t) = true -> collateral_plain t = true ->
  In s (ws_native_scripts t) -> In s (inline_hashes t).
Proof.
  intros HC HP H. unfold ws_native_scripts in H. rewrite set_of_in, !in_app_iff in H.
  assert (G : forall i, In i (script_items t) -> In s (sw_inline_native (si_wit i)) -> In s (inline_hashes t)).
  { intros i Hi Hs. destruct (inline_native_hash _ _ Hs) as [E <-]. apply item_inline_in; assumption. }
  destruct H as [H | [H | [H | [H | [H | H]]]]].
  - unfold ib_native_scripts in H. apply in_flat_map in H. destruct H as [[[h o] sw] [He Hs]].
    exact (G _ (item_of_script_entry t h o sw HC He) Hs).
  - unfold ib_native_scripts in H. rewrite (collateral_plain_scripts t HP) in H. destruct H.
  - unfold mint_native_scripts in H. apply in_flat_map in H. destruct H as [m [Hm Hs]].
    exact (G _ (item_of_mint t m Hm) Hs).
  - apply in_flat_map in H. destruct H as [[c [sw |]] [Hc Hs]]; [| destruct Hs]. exact (G _ (item_of_cert t c sw Hc) Hs).
  - apply in_flat_map in H. destruct H as [[c [sw |]] [Hc Hs]]; [| destruct Hs]. exact (G _ (item_of_wd t c sw Hc) Hs).
  - apply in_flat_map in H. destruct H as [[v [sw |]] [Hc Hs]]; [| destruct Hs]. exact (G _ (item_of_vote t v sw Hc) Hs).
Qed.

Lemma in_enum_from_inv {A} (l : list A) : forall n i x, In (i, x) (enum_from n l) -> In x l.
Proof.
  induction l as [| a t IH]; cbn; [tauto |]. intros n i x [E | H]; [inversion E; auto | right; exact (IH _ _ _ H)].
Qed.
Lemma wit_plutus_in tag it w x : In x (wit_plutus tag it w) -> exists p, w = Some (SWPlutus p) /\ pt_wit x = p.
Proof.
  destruct w as [[n | p] |]; cbn; intros H; try destruct H as [<- | []]; try destruct H. exists p. auto.
Qed.

(* every Plutus witness handed to the transaction builder belongs to a script-locked item *)
Lemma combined_plutus_items t x : consistent_owners (t_inputs t) = true -> collateral_plain t = true ->
  In x (combined_plutus t) -> exists i, In i (script_items t) /\ si_wit i = SWPlutus (pt_wit x).
Proof.
  intros HC HP H. unfold combined_plutus in H. rewrite !in_app_iff in H.
  destruct H as [H | [H | [H | [H | [H | [H | H]]]]]].
  - unfold ib_plutus in H. apply in_flat_map in H. destruct H as [[[h o] sw] [He Hx]]. cbn [snd fst] in Hx.
    destruct sw as [n | p]; [destruct Hx |].
    destruct (registered_under _ o h); [| destruct Hx]. destruct Hx as [<- | []].
    eexists. split; [exact (item_of_script_entry t h o _ HC He) | reflexivity].
  - unfold ib_plutus in H. rewrite (collateral_plain_scripts t HP) in H. destruct H.
  - unfold mint_plutus in H. apply in_flat_map in H. destruct H as [m [Hm Hx]].
    destruct m as [n | p r]; [destruct Hx |]. destruct Hx as [<- | []].
    eexists. split; [exact (item_of_mint t _ Hm) | reflexivity].
  - unfold certs_plutus in H. apply in_flat_map in H. destruct H as [[i [c w]] [He Hx]]. cbn [snd fst] in Hx.
    apply in_enum_from_inv in He. destruct (wit_plutus_in _ _ _ _ Hx) as [p [-> <-]].
    eexists. split; [exact (item_of_cert t c _ He) | reflexivity].
  - unfold wd_plutus in H. apply in_flat_map in H. destruct H as [[c w] [He Hx]]. cbn [snd fst] in Hx.
    destruct (wit_plutus_in _ _ _ _ Hx) as [p [-> <-]].
    eexists. split; [exact (item_of_wd t c _ He) | reflexivity].
  - unfold votes_plutus in H. apply in_flat_map in H. destruct H as [[v w] [He Hx]]. cbn [snd fst] in Hx.
    destruct (wit_plutus_in _ _ _ _ Hx) as [p [-> <-]].
    eexists. split; [exact (item_of_vote t v _ He) | reflexivity].
  - unfold props_plutus in H. apply in_flat_map in H. destruct H as [[n w] [He Hx]]. cbn [snd fst] in Hx.
    destruct (wit_plutus_in _ _ _ _ Hx) as [p [-> <-]].
    eexists. split; [exact (item_of_prop t n _ He) | reflexivity].
Qed.
Lemma plutus_emitted_inline t s : consistent_owners (t_inputs t) = true -> collateral_plain t = true ->
  In s (ws_plutus_scripts t) -> In s (inline_hashes t).
Proof.
  intros HC HP H. unfold ws_plutus_scripts in H. rewrite set_of_in in H. apply in_flat_map in H.
  destruct H as [x [Hx Hs]]. destruct (combined_plutus_items t x HC HP Hx) as [i [Hi Ei]].
  destruct (pw_script (pt_wit x)) as [s' d | r s' d] eqn:Es; [| destruct Hs]. destruct Hs as [<- | []].
  replace s' with (sw_hash (si_wit i)) by (rewrite Ei; cbn; rewrite Es; reflexivity).
  apply item_inline_in; [exact Hi | rewrite Ei; cbn; rewrite Es; reflexivity].
Qed.

(* ... and not a second time: when no script is handed over both inline and by reference, a script taken
   from a reference input is not in the witness set as well *)
Theorem scripts_not_twice_model t : consistent_owners (t_inputs t) = true -> collateral_plain t = true ->
  no_mixed_supply t = true -> scripts_not_twice t (model_emitted t) = true.
Proof.
  intros HC HP HM. unfold scripts_not_twice. apply forallb_forall. intros i Hi.
  unfold no_mixed_supply in HM. rewrite forallb_forall in HM.
  assert (G : sw_is_inline (si_wit i) = false -> ~ In (sw_hash (si_wit i)) (inline_hashes t)).
  { intros E Hin. specialize (HM _ Hin). apply negb_true_iff, memN_false in HM. apply HM, item_ref_in; assumption. }
  unfold item_script_not_twice. destruct (si_wit i) as [[s ks d | r s d] | p] eqn:Ew; [reflexivity | |].
  - apply negb_true_iff, memN_false. intros Hn. apply (G eq_refl). cbn. exact (native_emitted_inline t s HC HP Hn).
  - destruct (pw_script p) as [s d | r s d] eqn:Es; [reflexivity |].
    apply negb_true_iff, memN_false. intros Hn.
    assert (E : sw_is_inline (SWPlutus p) = false) by (cbn; rewrite Es; reflexivity).
    apply (G E). cbn. rewrite Es. exact (plutus_emitted_inline t s HC HP Hn).
Qed.

Lemma forallb_self_pairs (l : list (N * N)) :
  forallb (fun x => existsb (fun y => N.eqb (fst x) (fst y) && N.eqb (snd x) (snd y)) l) l = true.
Proof.
  apply forallb_forall. intros x Hx. apply existsb_exists. exists x. split; [exact Hx |]. rewrite !N.eqb_refl. reflexivity.
Qed.
Lemma mint_policies_model hr t : mint_policies_ok t (model_emitted_hr hr t) = true.
Proof.
  unfold mint_policies_ok. apply forallb_forall. intros m Hm. apply memN_in. cbn [model_emitted_hr e_mint].
  unfold body_mint_policies. apply in_map. exact Hm.
Qed.
(* the clauses about scripts do not look at the two new fields *)
Lemma scripts_available_hr hr t : scripts_available t (model_emitted_hr hr t) = scripts_available t (model_emitted t).
Proof. reflexivity. Qed.
Lemma scripts_not_twice_hr hr t : scripts_not_twice t (model_emitted_hr hr t) = scripts_not_twice t (model_emitted t).
Proof. reflexivity. Qed.

(* the extracted judge accepts what the model builds, inside the premises and outside the known classes, whatever
   the byte order of the credential hashes *)
Theorem judge_accepts_model hr tb t :
  wits_match t = true -> all_consistent t = true -> collateral_plain t = true -> no_mixed_supply t = true ->
  known_genesis t = false ->
  judge_hr hr t {| o_predicted := predicted_sig_bytes tb t; o_signed := signed_sig_bytes tb t; o_emitted := model_emitted_hr hr t |} = Holds.
Proof.
  intros HW HC HP HM HG. unfold judge_hr. rewrite HW. cbn [negb].
  assert (HI : consistent_owners (t_inputs t) = true) by (unfold all_consistent in HC; apply andb_true_iff in HC; tauto).
  assert (S : size_clause {| o_predicted := predicted_sig_bytes tb t; o_signed := signed_sig_bytes tb t; o_emitted := model_emitted_hr hr t |} = true).
  { unfold size_clause. cbn [o_predicted o_signed]. rewrite (size_exact tb t HC HG), vkey_witness_size_101.
    apply andb_true_iff. split; [apply N.leb_le | apply N.ltb_lt]; lia. }
  rewrite S. cbn [o_emitted].
  rewrite scripts_available_hr, (scripts_available_model t HI), scripts_not_twice_hr, (scripts_not_twice_model t HI HP HM).
  rewrite mint_policies_model. unfold vote_redeemers_ok. cbn [model_emitted_hr e_vote_redeemers]. rewrite forallb_self_pairs.
  reflexivity.
Qed.
