(* C18 — the two signature fields of the witness set at byte level (Vkeywitness / Vkeywitnesses /
   BootstrapWitness / BootstrapWitnesses serializers, rust/src/serialization/witnesses/*.rs; the field keys
   0 and 2 of serialization/witnesses/transaction_witnesses_set.rs): the encoded length depends only on the
   number of witnesses and on the lengths of their byte strings, never on their content.  Hence the mock
   witnesses of fake_full_tx (builders/fakes.rs: 32-byte keys, 64-byte signatures, 32-byte chain code, the
   address's own attributes) take exactly the room of real ones, and [vkeys_field_size] /
   [boots_field_size] of WitnessSpec.v are the lengths of these encodings. *)
From CSL Require Import Base.Prelude Cbor.Head Cbor.HeadProofs Witnesses.Witnesses Witnesses.WitnessSpec.
Local Open Scope N_scope.

Definition lenN {A} (l : list A) : N := N.of_nat (length l).
Lemma lenN_app {A} (a b : list A) : lenN (a ++ b) = lenN a + lenN b.
Proof. unfold lenN. rewrite app_length. lia. Qed.
Lemma lenN_head m n : lenN (encode_head m n) = head_size n.
Proof. apply head_length. Qed.

Definition enc_bytes (b : bytes) : bytes := encode_head 2 (lenN b) ++ b.
Lemma lenN_enc_bytes b : lenN (enc_bytes b) = head_size (lenN b) + lenN b.
Proof. unfold enc_bytes. rewrite lenN_app, lenN_head. reflexivity. Qed.

(* ---- vkey witnesses: key 0, tag 258, array(n) of array(2) [bytes vkey, bytes signature] ---- *)
Definition vkw := (bytes * bytes)%type.
Definition enc_vkeywitness (w : vkw) : bytes := encode_head 4 2 ++ enc_bytes (fst w) ++ enc_bytes (snd w).
Definition enc_vkeys_field (ws : list vkw) : bytes :=
  match ws with
  | [] => []
  | _ => encode_head 0 0 ++ encode_head 6 258 ++ encode_head 4 (lenN ws) ++ concat (map enc_vkeywitness ws)
  end.
Definition vkw_ok (w : vkw) : Prop := lenN (fst w) = 32 /\ lenN (snd w) = 64.

Lemma enc_vkeywitness_length w : vkw_ok w -> lenN (enc_vkeywitness w) = vkey_witness_size.
Proof.
  intros [H1 H2]. unfold enc_vkeywitness. rewrite !lenN_app, lenN_head, !lenN_enc_bytes, H1, H2. reflexivity.
Qed.
Lemma lenN_concat_const {A} (f : A -> bytes) c l :
  Forall (fun x => lenN (f x) = c) l -> lenN (concat (map f l)) = lenN l * c.
Proof.
  induction 1 as [| x t Hx Ht IH]; cbn [map concat]; [reflexivity |].
  rewrite lenN_app, IH, Hx. unfold lenN. cbn [length]. lia.
Qed.
Lemma lenN_zero {A} (l : list A) : (lenN l =? 0) = match l with [] => true | _ => false end.
Proof. destruct l; reflexivity. Qed.

Theorem enc_vkeys_field_length ws : Forall vkw_ok ws -> lenN (enc_vkeys_field ws) = vkeys_field_size (lenN ws).
Proof.
  intros H. unfold vkeys_field_size. rewrite lenN_zero. destruct ws as [| w r]; [reflexivity |].
  unfold enc_vkeys_field. rewrite !lenN_app, !lenN_head.
  rewrite (lenN_concat_const enc_vkeywitness vkey_witness_size).
  - change (head_size 0) with 1. lia.
  - eapply Forall_impl; [| exact H]. intros a Ha. apply enc_vkeywitness_length, Ha.
Qed.

(* mock and real key witnesses take the same room *)
Theorem fake_vkeys_same_size fake real : Forall vkw_ok fake -> Forall vkw_ok real ->
  length fake = length real -> length (enc_vkeys_field fake) = length (enc_vkeys_field real).
Proof.
  intros Hf Hr L. apply Nat2N.inj. change (lenN (enc_vkeys_field fake) = lenN (enc_vkeys_field real)).
  rewrite (enc_vkeys_field_length _ Hf), (enc_vkeys_field_length _ Hr). unfold lenN. rewrite L. reflexivity.
Qed.

(* ---- bootstrap witnesses: key 2, tag 258, array(n) of array(4) [vkey, signature, chain code, attributes] ---- *)
Record bootw : Type := { bw_vkey : bytes; bw_sig : bytes; bw_cc : bytes; bw_attr : bytes }.
Definition enc_bootw (w : bootw) : bytes :=
  encode_head 4 4 ++ enc_bytes (bw_vkey w) ++ enc_bytes (bw_sig w) ++ enc_bytes (bw_cc w) ++ enc_bytes (bw_attr w).
Definition enc_boots_field (ws : list bootw) : bytes :=
  match ws with
  | [] => []
  | _ => encode_head 0 2 ++ encode_head 6 258 ++ encode_head 4 (lenN ws) ++ concat (map enc_bootw ws)
  end.
Definition bootw_ok (w : bootw) : Prop := lenN (bw_vkey w) = 32 /\ lenN (bw_sig w) = 64 /\ lenN (bw_cc w) = 32.

Lemma enc_bootw_length w : bootw_ok w -> lenN (enc_bootw w) = boot_witness_size (lenN (bw_attr w)).
Proof.
  intros [H1 [H2 H3]]. unfold enc_bootw, boot_witness_size.
  rewrite !lenN_app, lenN_head, !lenN_enc_bytes, H1, H2, H3. change (head_size 4) with 1. lia.
Qed.
Lemma lenN_concat_map {A} (f : A -> bytes) (g : A -> N) l :
  Forall (fun x => lenN (f x) = g x) l -> lenN (concat (map f l)) = sumN (map g l).
Proof.
  induction 1 as [| x t Hx Ht IH]; cbn [map concat]; [reflexivity |].
  rewrite lenN_app, IH, Hx. reflexivity.
Qed.
Theorem enc_boots_field_length ws : Forall bootw_ok ws ->
  lenN (enc_boots_field ws) = boots_field_size (map (fun w => lenN (bw_attr w)) ws).
Proof.
  intros H. destruct ws as [| w r]; [reflexivity |].
  set (g := fun w : bootw => lenN (bw_attr w)).
  change (enc_boots_field (w :: r)) with
    (encode_head 0 2 ++ encode_head 6 258 ++ encode_head 4 (lenN (w :: r)) ++ concat (map enc_bootw (w :: r))).
  change (boots_field_size (map g (w :: r))) with
    (1 + head_size 258 + head_size (N.of_nat (length (map g (w :: r)))) + sumN (map boot_witness_size (map g (w :: r)))).
  rewrite !lenN_app, !lenN_head.
  rewrite (lenN_concat_map enc_bootw (fun w => boot_witness_size (g w))).
  - rewrite map_map, map_length. change (head_size 2) with 1. unfold lenN. lia.
  - eapply Forall_impl; [| exact H]. intros a Ha. apply enc_bootw_length, Ha.
Qed.
(* a mock bootstrap witness carries the address's own attributes: same room as the real one *)
Theorem fake_boots_same_size fake real : Forall bootw_ok fake -> Forall bootw_ok real ->
  map (fun w => lenN (bw_attr w)) fake = map (fun w => lenN (bw_attr w)) real ->
  length (enc_boots_field fake) = length (enc_boots_field real).
Proof.
  intros Hf Hr L. apply Nat2N.inj. change (lenN (enc_boots_field fake) = lenN (enc_boots_field real)).
  rewrite (enc_boots_field_length _ Hf), (enc_boots_field_length _ Hr), L. reflexivity.
Qed.

(* non-vacuity *)
Example vkw_ok_example : Forall vkw_ok [(repeat 7 32, repeat 9 64); (repeat 0 32, repeat 1 64)].
Proof. repeat constructor. Qed.
Example fake_vkeys_example :
  lenN (enc_vkeys_field [(repeat 7 32, repeat 9 64); (repeat 0 32, repeat 1 64)]) = 207.
Proof. reflexivity. Qed.
