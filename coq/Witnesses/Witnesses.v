(* C18 — witness requirements of the transaction builder: executable model of
     rust/src/builders/tx_builder.rs            count_needed_vkeys (13-31), fake_full_tx (35-99, the witness
                                                part), get_reference_inputs (1565-1610),
                                                get_combined_native_scripts (2381-2425),
                                                get_combined_plutus_scripts (2427-2486), get_witness_set
                                                (2491-2521), add_required_signer, add_reference_input,
                                                add_extra_witness_datum
     rust/src/builders/tx_inputs_builder.rs     TxInputsBuilder: add_key_input / add_bootstrap_input / add_*_utxo (well-typed) /
                                                add_native_script_input / add_plutus_script_input /
                                                add_required_signer, push_input, insert_input_with_witness,
                                                get_ref_inputs, get_native_input_scripts,
                                                get_plutus_input_scripts, inputs, get_bootstraps,
                                                From<&TxInputsBuilder> for Ed25519KeyHashes (480-507)
     rust/src/builders/certificates_builder.rs  add / add_with_plutus_witness / add_with_native_script,
                                                get_required_signers, witness_keys_for_cert (237-322),
                                                get_plutus_witnesses, get_ref_inputs, get_native_scripts
     rust/src/protocol_types/certificates/certificate.rs  has_required_script_witness
     rust/src/builders/withdrawals_builder.rs   add*, get_required_signers, get_plutus_witnesses,
                                                get_ref_inputs, get_native_scripts
     rust/src/builders/voting_builder.rs        add*, get_required_signers, get_plutus_witnesses, ...
     rust/src/builders/voting_proposal_builder.rs  add*, get_plutus_witnesses, get_ref_inputs
     rust/src/builders/mint_builder.rs          add_asset/set_asset -> update_mint_value, validate_mint_witness,
                                                get_native_scripts, get_plutus_witnesses, get_ref_inputs
     rust/src/builders/script_structs/*         NativeScriptSourceEnum::required_signers,
                                                PlutusScriptSourceEnum::get_required_signers,
                                                ScriptWitnessType::{get_required_signers, get_script_ref_input,
                                                get_datum_ref_input}, PlutusWitnesses::collect
     rust/src/protocol_types/witnesses/transaction_witnesses_set.rs  set_native_scripts / set_plutus_scripts /
                                                set_plutus_data (deduplicated_clone), new_with_partial_dedup
   Key hashes, script hashes, outpoints, Byron addresses, datums and redeemer payloads are abstract
   identifiers (N): the modelled code only compares them for equality (sets, maps) and, for outpoints,
   for order (redeemer index of a spending input = its rank among the inputs).
   Sets (Ed25519KeyHashes, BTreeSet, HashSet) are duplicate-free lists in insertion order; only
   membership and length are ever observed.  Maps are association lists with the insert semantics of
   the Rust container (LinkedHashMap / BTreeMap insert = last binding wins, entry().or_insert = first
   binding wins).  No proofs in this file. *)
From CSL Require Import Base.Prelude.
Local Open Scope N_scope.

Definition key := N.      (* Ed25519KeyHash *)
Definition sid := N.      (* ScriptHash; an inline script is identified with its hash (for Plutus: bytes AND language) *)
Definition oref := N.     (* TransactionInput; N order = (tx id, index) order *)
Definition baddr := N.    (* ByronAddress bytes *)
Definition did := N.      (* PlutusData used as datum *)

(* ---------- sets and maps ---------- *)
Definition memN (x : N) (l : list N) : bool := existsb (N.eqb x) l.
Definition set_add (l : list N) (x : N) : list N := if memN x l then l else l ++ [x].
Definition set_of (l : list N) : list N := fold_left set_add l [].

Section Maps.
  Context {K V : Type} (eqb : K -> K -> bool).
  Definition has_key (k : K) (l : list (K * V)) : bool := existsb (fun kv => eqb k (fst kv)) l.
  (* map.insert(k, v) for every pair in order: the last binding of a key is the one that stays *)
  Fixpoint last_wins (l : list (K * V)) : list (K * V) :=
    match l with
    | [] => []
    | kv :: t => if has_key (fst kv) t then last_wins t else kv :: last_wins t
    end.
  (* map.entry(k).or_insert(v) for every pair in order: the first binding stays *)
  Fixpoint first_wins_from (seen : list K) (l : list (K * V)) : list (K * V) :=
    match l with
    | [] => []
    | kv :: t => if existsb (eqb (fst kv)) seen then first_wins_from seen t
                 else kv :: first_wins_from (fst kv :: seen) t
    end.
  Definition first_wins (l : list (K * V)) : list (K * V) := first_wins_from [] l.
End Maps.

Definition olist {A} (o : option (list A)) : list A := match o with Some l => l | None => [] end.

(* ---------- script sources (builders/script_structs) ---------- *)
Inductive nsource : Type :=
| NSInline (s : sid) (script_keys : list key) (declared : option (list key))
    (* NativeScript(script, Option<RequiredSigners>); script_keys = Ed25519KeyHashes::from(&script) *)
| NSRef (r : oref) (s : sid) (declared : option (list key)).   (* RefInput(input, hash, signers, size) *)

Inductive psource : Type :=
| PSInline (s : sid) (declared : option (list key))            (* Script(script, signers) *)
| PSRef (r : oref) (s : sid) (declared : option (list key)).    (* RefInput(PlutusScriptRef, signers) *)

Inductive dsource : Type := DInline (d : did) | DRef (r : oref).

Record pwit : Type := { pw_script : psource; pw_datum : option dsource; pw_red : N }.

Inductive swit : Type := SWNative (n : nsource) | SWPlutus (p : pwit).   (* ScriptWitnessType *)

Definition ns_hash (n : nsource) : sid := match n with NSInline s _ _ => s | NSRef _ s _ => s end.
Definition ps_hash (p : psource) : sid := match p with PSInline s _ => s | PSRef _ s _ => s end.
Definition sw_hash (w : swit) : sid :=
  match w with SWNative n => ns_hash n | SWPlutus p => ps_hash (pw_script p) end.

(* NativeScriptSourceEnum::required_signers *)
Definition ns_required_signers (n : nsource) : option (list key) :=
  match n with
  | NSInline _ ks None => Some ks
  | NSInline _ _ (Some d) => Some d
  | NSRef _ _ d => d
  end.
(* PlutusScriptSourceEnum::get_required_signers *)
Definition ps_required_signers (p : psource) : option (list key) :=
  match p with PSInline _ d => d | PSRef _ _ d => d end.
(* ScriptWitnessType::get_required_signers *)
Definition sw_required_signers (w : swit) : option (list key) :=
  match w with
  | SWNative n => ns_required_signers n
  | SWPlutus p => ps_required_signers (pw_script p)
  end.
(* ScriptWitnessType::get_script_ref_input, get_datum_ref_input (in the order the builders push them) *)
Definition sw_script_ref (w : swit) : list oref :=
  match w with
  | SWNative (NSRef r _ _) => [r]
  | SWPlutus p => match pw_script p with PSRef r _ _ => [r] | _ => [] end
  | _ => []
  end.
Definition sw_datum_ref (w : swit) : list oref :=
  match w with
  | SWPlutus p => match pw_datum p with Some (DRef r) => [r] | _ => [] end
  | _ => []
  end.
Definition sw_ref_inputs (w : swit) : list oref := sw_script_ref w ++ sw_datum_ref w.
(* the inline native script of a witness (get_native_scripts of every sub-builder) *)
Definition sw_inline_native (w : swit) : list sid :=
  match w with SWNative (NSInline s _ _) => [s] | _ => [] end.

(* a Plutus witness as the sub-builders hand it to the transaction builder: the redeemer carries its
   tag and an index.  [pt_item] identifies the item inside its sub-builder: for spending inputs it is
   the real redeemer index (rank of the input); for the other tags the real index is a function of the
   item that is injective inside the sub-builder (C10 decides whether it is the right one), so the
   item's identity stands for it. *)
Record ptagged : Type := { pt_tag : N; pt_item : N; pt_wit : pwit }.
Definition TAG_SPEND := 0. Definition TAG_MINT := 1. Definition TAG_CERT := 2.
Definition TAG_REWARD := 3. Definition TAG_VOTE := 4. Definition TAG_PROPOSE := 5.

(* ---------- TxInputsBuilder ---------- *)
Inductive owner : Type :=
| OKey (k : key) | OByron (a : baddr) | ONative (n : nsource) | OPlutus (p : pwit).
Inductive in_op : Type :=
| InAdd (o : oref) (w : owner)     (* add_key_input / add_bootstrap_input / add_native_script_input /
                                      add_plutus_script_input (add_regular_input dispatches to the first two) *)
| InSigner (k : key).              (* TxInputsBuilder::add_required_signer *)

Definition owner_swit (w : owner) : option swit :=
  match w with ONative n => Some (SWNative n) | OPlutus p => Some (SWPlutus p) | _ => None end.
Definition owner_hash (w : owner) : option sid := option_map sw_hash (owner_swit w).

(* required_witnesses.vkeys: grows with every key input and explicit signer, never shrinks *)
Definition ib_vkeys (ops : list in_op) : list key :=
  set_of (flat_map (fun op => match op with InAdd _ (OKey k) => [k] | InSigner k => [k] | _ => [] end) ops).
(* required_witnesses.bootstraps *)
Definition ib_boots (ops : list in_op) : list baddr :=
  set_of (flat_map (fun op => match op with InAdd _ (OByron a) => [a] | _ => [] end) ops).
(* inputs: BTreeMap<TransactionInput, (TxBuilderInput, Option<ScriptHash>)> *)
Definition ib_inputs (ops : list in_op) : list (oref * option sid) :=
  last_wins N.eqb (flat_map (fun op => match op with InAdd o w => [(o, owner_hash w)] | _ => [] end) ops).
(* required_witnesses.scripts: hash -> input -> witness, flattened to (hash, input) -> witness *)
Definition pair_eqb (a b : N * N) : bool := N.eqb (fst a) (fst b) && N.eqb (snd a) (snd b).
Definition ib_scripts (ops : list in_op) : list ((sid * oref) * swit) :=
  last_wins pair_eqb
    (flat_map (fun op => match op with
                         | InAdd o w => match owner_swit w with Some sw => [((sw_hash sw, o), sw)] | None => [] end
                         | _ => [] end) ops).

(* From<&TxInputsBuilder> for Ed25519KeyHashes *)
Definition ib_required_signers (ops : list in_op) : list key :=
  set_of (ib_vkeys ops ++ flat_map (fun e => olist (sw_required_signers (snd e))) (ib_scripts ops)).
Definition ib_body_inputs (ops : list in_op) : list oref := map fst (ib_inputs ops).
Definition ib_native_scripts (ops : list in_op) : list sid :=
  flat_map (fun e => sw_inline_native (snd e)) (ib_scripts ops).
(* get_ref_inputs: script reference of native sources; datum then script reference of Plutus witnesses *)
Definition ib_ref_inputs (ops : list in_op) : list oref :=
  flat_map (fun e => match snd e with
                     | SWNative _ => sw_script_ref (snd e)
                     | SWPlutus _ => sw_datum_ref (snd e) ++ sw_script_ref (snd e)
                     end) (ib_scripts ops).
(* get_plutus_input_scripts: only inputs that are currently registered under the script hash of the entry
   (repo commit ae86092; before it: under any script hash); index = rank *)
Definition rank (o : oref) (l : list oref) : N := N.of_nat (length (filter (fun x => x <? o) l)).
Definition registered_under (ops : list in_op) (o : oref) (h : sid) : bool :=
  existsb (fun b : oref * option sid =>
             N.eqb (fst b) o && match snd b with Some h' => N.eqb h' h | None => false end) (ib_inputs ops).
Definition ib_plutus (ops : list in_op) : list ptagged :=
  flat_map (fun e => match snd e with
                     | SWPlutus p =>
                         if registered_under ops (snd (fst e)) (fst (fst e))
                         then [{| pt_tag := TAG_SPEND; pt_item := rank (snd (fst e)) (ib_body_inputs ops); pt_wit := p |}]
                         else []
                     | _ => [] end) (ib_scripts ops).

(* ---------- certificates ---------- *)
Inductive cred : Type := CK (k : key) | CS (s : sid).
Definition cred_eqb (a b : cred) : bool :=
  match a, b with CK x, CK y => N.eqb x y | CS x, CS y => N.eqb x y | _, _ => false end.
Definition cred_key (c : cred) : list key := match c with CK k => [k] | CS _ => [] end.
Definition cred_is_script (c : cred) : bool := match c with CS _ => true | CK _ => false end.

(* A certificate: its Conway CDDL number 0..18 (StakeRegistration / StakeDeregistration with an
   explicit amount are 7 / 8, without 0 / 1), the credential the builder looks at
     0,1,2,7..13 stake credential     3 operator (key)     4 pool key hash (key)
     14,15 committee cold credential  16,17,18 DRep credential     5, 6 unused
   [c_keys]: pool owners (3); [genesis hash; genesis delegate hash] (5).
   [c_aux] stands for every other field (pool id, DRep, amounts, anchors, ...): certificates are equal
   iff all four components are. *)
Record cert : Type := { c_kind : N; c_cred : cred; c_keys : list key; c_aux : N }.
Definition list_eqb (l1 l2 : list N) : bool :=
  (length l1 =? length l2)%nat && forallb (fun p => N.eqb (fst p) (snd p)) (combine l1 l2).
Definition cert_eqb (a b : cert) : bool :=
  N.eqb (c_kind a) (c_kind b) && cred_eqb (c_cred a) (c_cred b) && list_eqb (c_keys a) (c_keys b)
  && N.eqb (c_aux a) (c_aux b).

(* [genesis_witness_fixed]: the key witness counted for a genesis key delegation (kind 5) is the genesis
   DELEGATE hash in the code (certificates_builder.rs:268, [false]); the ledger asks for the GENESIS key
   ([true] = fixes/C18-genesis-delegation-witness.patch, NOT applied: a test of the baseline suite pins the
   delegate hash; known finding C18-genesis-delegation-witness). *)
Definition genesis_witness_fixed : bool := false.

(* witness_keys_for_cert *)
Definition witness_keys_for_cert_gen (fixed : bool) (c : cert) : list key :=
  let k := c_kind c in
  if k =? 0 then []
  else if k =? 3 then c_keys c ++ cred_key (c_cred c)
  else if k =? 4 then cred_key (c_cred c)
  else if k =? 5 then (if fixed then firstn 1 (c_keys c) else firstn 1 (skipn 1 (c_keys c)))
  else if k =? 6 then []
  else if k <? 19 then cred_key (c_cred c)
  else [].
Definition witness_keys_for_cert := witness_keys_for_cert_gen genesis_witness_fixed.

(* Certificate::has_required_script_witness *)
Definition cert_has_required_script_witness (c : cert) : bool :=
  let k := c_kind c in
  if (k =? 0) || (k =? 3) || (k =? 4) || (k =? 5) || (k =? 6) then false
  else if k <? 19 then cred_is_script (c_cred c) else false.

Definition cert_op := (cert * option swit)%type.
(* add (witness None) / add_with_native_script / add_with_plutus_witness; a rejected call changes nothing *)
Definition certs_accepts (st : list cert_op) (op : cert_op) : bool :=
  Bool.eqb (cert_has_required_script_witness (fst op)) (match snd op with Some _ => true | None => false end)
  && negb (has_key cert_eqb (fst op) st).
Definition certs_run (ops : list cert_op) : list cert_op :=
  fold_left (fun st op => if certs_accepts st op then st ++ [op] else st) ops [].
Definition certs_acc (ops : list cert_op) : list bool :=
  snd (fold_left (fun '(st, acc) op => if certs_accepts st op then (st ++ [op], acc ++ [true]) else (st, acc ++ [false]))
         ops ([], [])).

Definition wit_signers (w : option swit) : list key :=
  match w with Some sw => olist (sw_required_signers sw) | None => [] end.
Definition wit_refs (w : option swit) : list oref :=
  match w with Some sw => sw_ref_inputs sw | None => [] end.
Definition wit_native (w : option swit) : list sid :=
  match w with Some sw => sw_inline_native sw | None => [] end.
Definition wit_plutus (tag item : N) (w : option swit) : list ptagged :=
  match w with Some (SWPlutus p) => [{| pt_tag := tag; pt_item := item; pt_wit := p |}] | _ => [] end.

Definition certs_required_signers_gen (fixed : bool) (st : list cert_op) : list key :=
  set_of (flat_map (fun e => witness_keys_for_cert_gen fixed (fst e) ++ wit_signers (snd e)) st).
Definition certs_required_signers := certs_required_signers_gen genesis_witness_fixed.
Fixpoint enum_from {A} (i : N) (l : list A) : list (N * A) :=
  match l with [] => [] | x :: t => (i, x) :: enum_from (i + 1) t end.
Definition certs_plutus (st : list cert_op) : list ptagged :=
  flat_map (fun ie => wit_plutus TAG_CERT (fst ie) (snd (snd ie))) (enum_from 0 st).

(* ---------- withdrawals: LinkedHashMap<RewardAddress, (Coin, Option<ScriptWitnessType>)> ---------- *)
Definition wd_op := (cred * option swit)%type.
Definition wd_accepts (op : wd_op) : bool :=
  Bool.eqb (cred_is_script (fst op)) (match snd op with Some _ => true | None => false end).
Definition wd_run (ops : list wd_op) : list wd_op := last_wins cred_eqb (filter wd_accepts ops).
Definition cred_item (c : cred) : N := match c with CK k => 2 * k | CS s => 2 * s + 1 end.
Definition wd_required_signers (st : list wd_op) : list key :=
  set_of (flat_map (fun e => cred_key (fst e) ++ wit_signers (snd e)) st).
Definition wd_plutus (st : list wd_op) : list ptagged :=
  flat_map (fun e => wit_plutus TAG_REWARD (cred_item (fst e)) (snd e)) st.

(* ---------- votes: BTreeMap<Voter, VoterVotes>, the witness of a voter is fixed by the first call ---------- *)
Record voter : Type := { v_kind : N (* 0 committee hot, 1 DRep, 2 stake pool *); v_cred : cred }.
Definition voter_eqb (a b : voter) : bool := N.eqb (v_kind a) (v_kind b) && cred_eqb (v_cred a) (v_cred b).
Definition voter_has_script (v : voter) : bool := if v_kind v =? 2 then false else cred_is_script (v_cred v).
Definition voter_item (v : voter) : N := 3 * cred_item (v_cred v) + v_kind v.
Definition vote_op := (voter * option swit)%type.
Definition vote_accepts (op : vote_op) : bool :=
  Bool.eqb (voter_has_script (fst op)) (match snd op with Some _ => true | None => false end).
Definition votes_run (ops : list vote_op) : list vote_op := first_wins voter_eqb (filter vote_accepts ops).

(* [votes_count_plutus_signers], [mint_counts_declared], [proposals_count_signers], [collateral_boots_counted]:
   switches between the original code ([false]) and the code after the four fix commits of
   known_findings.d/C18.json ([true], the tree the check runs on).  The model reads the switches; the
   *_refuted lemmas of WitnessProofs.v speak about the original behaviour. *)
Definition votes_count_plutus_signers : bool := true.
Definition mint_counts_declared : bool := true.
Definition proposals_count_signers : bool := true.
Definition collateral_boots_counted : bool := true.

(* VotingBuilder::get_required_signers: the voter's key and, originally, only native-script signers *)
Definition votes_required_signers_gen (fixed : bool) (st : list vote_op) : list key :=
  set_of (flat_map (fun e => cred_key (v_cred (fst e)) ++
                     match snd e with
                     | Some (SWNative n) => olist (ns_required_signers n)
                     | Some (SWPlutus p) => if fixed then olist (ps_required_signers (pw_script p)) else []
                     | None => [] end) st).
Definition votes_required_signers := votes_required_signers_gen votes_count_plutus_signers.
(* VotingBuilder::get_plutus_witnesses: the redeemer index of a vote = number of voters that precede the voter in
   ledger_order_key = (kind, script credentials before key credentials, hash bytes).  [hash_rank] gives the rank
   of a credential's 28 hash bytes (a property of the identifiers, given with the case). *)
Definition hash_rank := list (N * N).
Fixpoint rank_of (hr : hash_rank) (c : N) : N :=
  match hr with [] => 0 | (x, r) :: t => if N.eqb x c then r else rank_of t c end.
Definition voter_order_key (hr : hash_rank) (v : voter) : N * (N * N) :=
  (v_kind v, ((if voter_has_script v then 0 else 1), rank_of hr (cred_item (v_cred v)))).
Definition key3_ltb (a b : N * (N * N)) : bool :=
  (fst a <? fst b) || ((fst a =? fst b) && ((fst (snd a) <? fst (snd b)) ||
                                             ((fst (snd a) =? fst (snd b)) && (snd (snd a) <? snd (snd b))))).
Definition vote_index (hr : hash_rank) (st : list vote_op) (v : voter) : N :=
  N.of_nat (length (filter (fun e : vote_op => key3_ltb (voter_order_key hr (fst e)) (voter_order_key hr v)) st)).
Definition votes_redeemers (hr : hash_rank) (st : list vote_op) : list (N * N) :=
  flat_map (fun e : vote_op => match snd e with
                               | Some (SWPlutus p) => [(vote_index hr st (fst e), pw_red p)]
                               | _ => [] end) st.
Definition votes_plutus (st : list vote_op) : list ptagged :=
  flat_map (fun e => wit_plutus TAG_VOTE (voter_item (fst e)) (snd e)) st.

(* ---------- proposals: BTreeMap<VotingProposal, Option<ScriptWitnessType>> ---------- *)
Record prop_op : Type := { p_id : N; p_scripted : bool (* has_script_hash *); p_wit : option pwit }.
Definition prop_accepts (op : prop_op) : bool :=
  match p_wit op with None => negb (p_scripted op) | Some _ => true end.
(* the proposal is the map key: its identity is (p_id, p_scripted) *)
Definition prop_key (op : prop_op) : N := 2 * p_id op + (if p_scripted op then 1 else 0).
Definition props_run (ops : list prop_op) : list (N * option swit) :=
  last_wins N.eqb (map (fun op => (prop_key op, option_map SWPlutus (p_wit op))) (filter prop_accepts ops)).
Definition props_plutus (st : list (N * option swit)) : list ptagged :=
  flat_map (fun e => wit_plutus TAG_PROPOSE (fst e) (snd e)) st.
Definition props_required_signers_gen (fixed : bool) (st : list (N * option swit)) : list key :=
  if fixed then set_of (flat_map (fun e => wit_signers (snd e)) st) else [].
Definition props_required_signers := props_required_signers_gen proposals_count_signers.

(* ---------- mint: BTreeMap<PolicyID, ScriptMint>, the source of a policy is fixed by the first call ---------- *)
Inductive mint_wit : Type := MNative (n : nsource) | MPlutus (p : psource) (red : N).
Definition mw_hash (m : mint_wit) : sid := match m with MNative n => ns_hash n | MPlutus p _ => ps_hash p end.
Definition ns_is_ref (n : nsource) : bool := match n with NSRef _ _ _ => true | _ => false end.
Definition ps_is_ref (p : psource) : bool := match p with PSRef _ _ _ => true | _ => false end.
(* validate_mint_witness against the entry already stored for the policy *)
Definition mint_compatible (cur new : mint_wit) : bool :=
  match cur, new with
  | MNative a, MNative b => Bool.eqb (ns_is_ref a) (ns_is_ref b)
  | MPlutus a ra, MPlutus b rb => Bool.eqb (ps_is_ref a) (ps_is_ref b) && N.eqb ra rb
  | _, _ => false
  end.
Fixpoint mint_lookup (h : sid) (st : list mint_wit) : option mint_wit :=
  match st with [] => None | m :: t => if N.eqb h (mw_hash m) then Some m else mint_lookup h t end.
Definition mint_step (st : list mint_wit) (op : mint_wit) : list mint_wit * bool :=
  match mint_lookup (mw_hash op) st with
  | None => (st ++ [op], true)
  | Some cur => (st, mint_compatible cur op)
  end.
Definition mint_run (ops : list mint_wit) : list mint_wit :=
  fold_left (fun st op => fst (mint_step st op)) ops [].
Definition mint_acc (ops : list mint_wit) : list bool :=
  snd (fold_left (fun '(st, acc) op => let '(st', b) := mint_step st op in (st', acc ++ [b])) ops ([], [])).
(* a call add_asset(witness, asset name, amount): update_mint_value refuses a zero amount first; otherwise the
   witness is validated against the policy's entry (mint_step) and the amount is added to the asset's quantity
   (quantities outside the Int range -2^64 .. 2^64-1 are not modelled: the generator stays far below) *)
Record mint_op : Type := { mo_wit : mint_wit; mo_asset : N; mo_amount : Z }.
Definition mint_nonzero (o : mint_op) : bool := negb (Z.eqb (mo_amount o) 0).
Definition mint_wits_of (ops : list mint_op) : list mint_wit := map mo_wit (filter mint_nonzero ops).
Definition qkey_eqb (a b : sid * N) : bool := N.eqb (fst a) (fst b) && N.eqb (snd a) (snd b).
Fixpoint q_add (q : list ((sid * N) * Z)) (k : sid * N) (x : Z) : list ((sid * N) * Z) :=
  match q with
  | [] => [(k, x)]
  | (k', y) :: t => if qkey_eqb k k' then (k', (y + x)%Z) :: t else (k', y) :: q_add t k x
  end.
(* state: policies with their sources, acceptance of each call, accumulated quantity per (policy, asset) *)
Definition mint_fold (ops : list mint_op) : list mint_wit * list bool * list ((sid * N) * Z) :=
  fold_left (fun '(st, acc, q) o =>
               if mint_nonzero o then
                 let '(st', b) := mint_step st (mo_wit o) in
                 (st', acc ++ [b], if b then q_add q (mw_hash (mo_wit o), mo_asset o) (mo_amount o) else q)
               else (st, acc ++ [false], q)) ops ([], [], []).
Definition mint_acc_ops (ops : list mint_op) : list bool := snd (fst (mint_fold ops)).
Definition mint_quantities (ops : list mint_op) : list ((sid * N) * Z) := snd (mint_fold ops).
(* MintBuilder::build: MintAssets::insert refuses a zero quantity ("MintAssets cannot be created with 0 value"):
   a mint whose additions cancelled out makes build(), full_size() and build_tx fail *)
Definition mint_cancelled (ops : list mint_op) : bool := existsb (fun e => Z.eqb (snd e) 0) (mint_quantities ops).

Definition mint_swit (m : mint_wit) : swit :=
  match m with
  | MNative n => SWNative n
  | MPlutus p r => SWPlutus {| pw_script := p; pw_datum := None; pw_red := r |}
  end.
(* count_needed_vkeys, mint part.  Original: Ed25519KeyHashes::from(&mint_builder.get_native_scripts()) =
   every key hash inside the INLINE native scripts, whatever was declared; nothing for reference or
   Plutus sources.  Repaired: the declared signers of every source. *)
Definition mint_required_signers_gen (fixed : bool) (st : list mint_wit) : list key :=
  set_of (flat_map (fun m => if fixed then olist (sw_required_signers (mint_swit m))
                             else match m with MNative (NSInline _ ks _) => ks | _ => [] end) st).
Definition mint_required_signers := mint_required_signers_gen mint_counts_declared.
Definition mint_native_scripts (st : list mint_wit) : list sid := flat_map (fun m => sw_inline_native (mint_swit m)) st.
Definition mint_plutus (st : list mint_wit) : list ptagged :=
  flat_map (fun m => match m with
                     | MPlutus p r => [{| pt_tag := TAG_MINT; pt_item := ps_hash p; pt_wit := {| pw_script := p; pw_datum := None; pw_red := r |} |}]
                     | _ => [] end) st.
Definition mint_ref_inputs (st : list mint_wit) : list oref := flat_map (fun m => sw_script_ref (mint_swit m)) st.

(* ---------- the transaction builder ---------- *)
Record tx_ops : Type := {
  t_inputs : list in_op;            (* history of the TxInputsBuilder passed to set_inputs *)
  t_collateral : list in_op;        (* history of the one passed to set_collateral *)
  t_certs : list cert_op;
  t_withdrawals : list wd_op;
  t_votes : list vote_op;
  t_proposals : list prop_op;
  t_mint : list mint_op;             (* MintBuilder::add_asset calls *)
  t_required_signers : list key;    (* TransactionBuilder::add_required_signer *)
  t_reference_inputs : list oref;   (* add_reference_input / add_script_reference_input *)
  t_extra_datums : list did;        (* add_extra_witness_datum *)
  t_dedup_explicit_refs : bool      (* config.deduplicate_explicit_ref_inputs_with_regular_inputs *)
}.

Definition mint_wits (t : tx_ops) : list mint_wit := mint_wits_of (t_mint t).
Definition build_refused (t : tx_ops) : bool := mint_cancelled (t_mint t).

(* the union computed by count_needed_vkeys, in its order; the four booleans select original (false) or
   repaired (true) behaviour of the vote, mint, proposal and genesis-delegation parts *)
Definition needed_vkeys_gen (fv fm fp fg : bool) (t : tx_ops) : list key :=
  set_of (ib_required_signers (t_inputs t) ++ ib_required_signers (t_collateral t)
          ++ set_of (t_required_signers t)
          ++ mint_required_signers_gen fm (mint_run (mint_wits t))
          ++ wd_required_signers (wd_run (t_withdrawals t))
          ++ certs_required_signers_gen fg (certs_run (t_certs t))
          ++ votes_required_signers_gen fv (votes_run (t_votes t))
          ++ props_required_signers_gen fp (props_run (t_proposals t))).
Definition needed_vkeys : tx_ops -> list key :=
  needed_vkeys_gen votes_count_plutus_signers mint_counts_declared proposals_count_signers genesis_witness_fixed.
Definition count_needed_vkeys (t : tx_ops) : N := N.of_nat (length (needed_vkeys t)).

(* get_bootstraps(&tx_builder.inputs) in fake_full_tx; repaired: also the collateral's *)
Definition needed_bootstraps_gen (fixed : bool) (t : tx_ops) : list baddr :=
  set_of (ib_boots (t_inputs t) ++ (if fixed then ib_boots (t_collateral t) else [])).
Definition needed_bootstraps := needed_bootstraps_gen collateral_boots_counted.

(* get_combined_native_scripts followed by deduplicated_clone *)
Definition ws_native_scripts (t : tx_ops) : list sid :=
  set_of (ib_native_scripts (t_inputs t) ++ ib_native_scripts (t_collateral t)
          ++ mint_native_scripts (mint_run (mint_wits t))
          ++ flat_map (fun e => wit_native (snd e)) (certs_run (t_certs t))
          ++ flat_map (fun e => wit_native (snd e)) (wd_run (t_withdrawals t))
          ++ flat_map (fun e => wit_native (snd e)) (votes_run (t_votes t))).

(* get_combined_plutus_scripts *)
Definition combined_plutus (t : tx_ops) : list ptagged :=
  ib_plutus (t_inputs t) ++ ib_plutus (t_collateral t) ++ mint_plutus (mint_run (mint_wits t))
  ++ certs_plutus (certs_run (t_certs t)) ++ wd_plutus (wd_run (t_withdrawals t))
  ++ votes_plutus (votes_run (t_votes t)) ++ props_plutus (props_run (t_proposals t)).

(* PlutusWitnesses::collect + deduplicated_clone; extra datums appended before the de-duplication *)
Definition ws_plutus_scripts (t : tx_ops) : list sid :=
  set_of (flat_map (fun w => match pw_script (pt_wit w) with PSInline s _ => [s] | _ => [] end) (combined_plutus t)).
Definition ws_datums (t : tx_ops) : list did :=
  set_of (flat_map (fun w => match pw_datum (pt_wit w) with Some (DInline d) => [d] | _ => [] end) (combined_plutus t)
          ++ t_extra_datums t).
(* redeemers are de-duplicated on (tag, index, data, ex units) *)
Definition red_code (w : ptagged) : N * (N * N) := (pt_tag w, (pt_item w, pw_red (pt_wit w))).
Definition triple_eqb (a b : N * (N * N)) : bool :=
  N.eqb (fst a) (fst b) && N.eqb (fst (snd a)) (fst (snd b)) && N.eqb (snd (snd a)) (snd (snd b)).
Fixpoint dedup_by {A} (eqb : A -> A -> bool) (seen : list A) (l : list A) : list A :=
  match l with
  | [] => []
  | x :: t => if existsb (eqb x) seen then dedup_by eqb seen t else x :: dedup_by eqb (x :: seen) t
  end.
Definition ws_redeemers (t : tx_ops) : list (N * (N * N)) :=
  dedup_by triple_eqb [] (map red_code (combined_plutus t)).

(* body inputs and get_reference_inputs (a HashSet: order not modelled) *)
Definition body_inputs (t : tx_ops) : list oref := ib_body_inputs (t_inputs t).
Definition body_collateral (t : tx_ops) : list oref := ib_body_inputs (t_collateral t).
Definition source_ref_inputs (t : tx_ops) : list oref :=
  ib_ref_inputs (t_inputs t) ++ mint_ref_inputs (mint_run (mint_wits t))
  ++ flat_map (fun e => wit_refs (snd e)) (wd_run (t_withdrawals t))
  ++ flat_map (fun e => wit_refs (snd e)) (certs_run (t_certs t))
  ++ flat_map (fun e => wit_refs (snd e)) (votes_run (t_votes t))
  ++ flat_map (fun e => wit_refs (snd e)) (props_run (t_proposals t)).
Definition body_reference_inputs (t : tx_ops) : list oref :=
  let not_input := fun r => negb (memN r (body_inputs t)) in
  set_of (filter not_input (source_ref_inputs t)
          ++ (if t_dedup_explicit_refs t then filter not_input (t_reference_inputs t) else t_reference_inputs t)).
Definition body_required_signers (t : tx_ops) : list key := set_of (t_required_signers t).

(* which calls were accepted (true) or returned an error (false), per sub-builder, in call order *)
Definition acceptance (t : tx_ops) : list bool :=
  certs_acc (t_certs t) ++ map wd_accepts (t_withdrawals t) ++ map vote_accepts (t_votes t)
  ++ map prop_accepts (t_proposals t) ++ mint_acc_ops (t_mint t).

(* policies of the body's mint (one entry per retained policy when the builder does not refuse) *)
Definition body_mint_policies (t : tx_ops) : list sid := map mw_hash (mint_run (mint_wits t)).
