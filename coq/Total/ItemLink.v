(* C02: everything the schema-directed writer emits for a schema-valid value is ONE well-formed CBOR data item
   for the independent generic parser of Cbor/Item.v (which knows nothing about schemas).
   Generic in the schema: one proof for every ledger type. *)
From CSL Require Import Base.Prelude Cbor.Head Cbor.HeadProofs Codec.Schema Codec.SchemaProofs Cbor.Item.
Local Open Scope N_scope.

(* one step of the generic parser, spelled out (holds by computation for the definition in Cbor/Item.v) *)
Lemma parse_item_S f bs : parse_item (S f) bs =
  match bs with
  | [] => Err
  | b0 :: _ =>
    match decode_head bs with
    | None => Err
    | Some (m, a, r) =>
      match major_of m, a with
      | Some MUint, Arg n => Ok (IUint n, r)
      | Some MNint, Arg n => Ok (INint n, r)
      | Some MBytes, Arg n => let* '(p, r') := Item.take_bytes n r in Ok (IBytes p, r')
      | Some MBytes, Indef =>
          let* '(cs, r') := parse_until_break (parse_chunk 2) (length r) r in Ok (IBytesChunked cs, r')
      | Some MText, Arg n => let* '(p, r') := Item.take_bytes n r in Ok (IText p, r')
      | Some MText, Indef =>
          let* '(cs, r') := parse_until_break (parse_chunk 3) (length r) r in Ok (ITextChunked cs, r')
      | Some MArray, Arg n =>
          if n <=? len r then
            let* '(xs, r') := parse_n (parse_item f) (N.to_nat n) r in Ok (IArray true xs, r')
          else Err
      | Some MArray, Indef =>
          let* '(xs, r') := parse_until_break (parse_item f) (length r) r in Ok (IArray false xs, r')
      | Some MMap, Arg n =>
          if n <=? len r then
            let* '(kvs, r') := parse_n (parse_pair (parse_item f)) (N.to_nat n) r in Ok (IMap true kvs, r')
          else Err
      | Some MMap, Indef =>
          let* '(kvs, r') := parse_until_break (parse_pair (parse_item f)) (length r) r in
          Ok (IMap false kvs, r')
      | Some MTag, Arg t => let* '(x, r') := parse_item f r in Ok (ITag t x, r')
      | Some MSimple, Arg n =>
          let ai := b0 mod 32 in
          if ai <? 24 then Ok (ISimple n, r)
          else if ai =? 24 then (if n <? 32 then Err else Ok (ISimple n, r))
          else if ai =? 25 then Ok (IFloat F16 n, r)
          else if ai =? 26 then Ok (IFloat F32 n, r)
          else Ok (IFloat F64 n, r)
      | _, _ => Err
      end
    end
  end.
Proof. reflexivity. Qed.

(* [b] is exactly one data item: followed by anything it parses to the same item and leaves the rest; a fuel (nesting
   budget) of [length b] is enough *)
Definition parses (b : bytes) : Prop :=
  exists it, forall rest f, (length b <= f)%nat -> parse_item f (b ++ rest) = Ok (it, rest).

Lemma parses_first b : parses b -> exists c t, b = c :: t /\ c <> 255.
Proof.
  intros [it H]. destruct b as [|c t].
  - specialize (H [] O (Nat.le_refl _)). cbn in H. discriminate.
  - exists c, t. split; [reflexivity|]. intros ->.
    specialize (H [] (length (255 :: t)) (Nat.le_refl _)). cbn [length] in H. rewrite parse_item_S in H.
    cbn [app] in H. change (decode_head (255 :: t ++ [])) with (Some (7, Indef, t ++ [])) in H. cbn in H. discriminate.
Qed.

Lemma parses_nonempty b : parses b -> (1 <= length b)%nat.
Proof. intros H. destruct (parses_first b H) as (c & t & -> & _). cbn. lia. Qed.

(* ---------- heads ---------- *)
Ltac head_tac H :=
  rewrite parse_item_S;
  match goal with
  | |- context [encode_head ?m ?n ++ ?r] =>
      let D := fresh "D" in
      pose proof (decode_encode_head m n r H) as D;
      let c := fresh "c" in let t := fresh "t" in let E := fresh "E" in let Hc := fresh "Hc" in
      destruct (encode_head_first m n) as (c & t & E & Hc); rewrite E in *; cbn [app] in *; rewrite D; reflexivity
  end.

Lemma parse_uint f n r : n < two64 -> parse_item (S f) (encode_head 0 n ++ r) = Ok (IUint n, r).
Proof. intros H. head_tac H. Qed.
Lemma parse_nint f n r : n < two64 -> parse_item (S f) (encode_head 1 n ++ r) = Ok (INint n, r).
Proof. intros H. head_tac H. Qed.
Lemma parse_bytes f n r : n < two64 ->
  parse_item (S f) (encode_head 2 n ++ r) = let* '(p, r') := Item.take_bytes n r in Ok (IBytes p, r').
Proof. intros H. head_tac H. Qed.
Lemma parse_text f n r : n < two64 ->
  parse_item (S f) (encode_head 3 n ++ r) = let* '(p, r') := Item.take_bytes n r in Ok (IText p, r').
Proof. intros H. head_tac H. Qed.
Lemma parse_array f n r : n < two64 ->
  parse_item (S f) (encode_head 4 n ++ r) =
  if n <=? len r then let* '(xs, r') := parse_n (parse_item f) (N.to_nat n) r in Ok (IArray true xs, r') else Err.
Proof. intros H. head_tac H. Qed.
Lemma parse_map f n r : n < two64 ->
  parse_item (S f) (encode_head 5 n ++ r) =
  if n <=? len r then let* '(kvs, r') := parse_n (parse_pair (parse_item f)) (N.to_nat n) r in Ok (IMap true kvs, r') else Err.
Proof. intros H. head_tac H. Qed.
Lemma parse_tag f t r : t < two64 ->
  parse_item (S f) (encode_head 6 t ++ r) = let* '(x, r') := parse_item f r in Ok (ITag t x, r').
Proof. intros H. head_tac H. Qed.

Lemma take_bytes_app' (p r : bytes) : Item.take_bytes (len p) (p ++ r) = Ok (p, r).
Proof.
  unfold Item.take_bytes, len. rewrite app_length.
  destruct (N.of_nat (length p) <=? N.of_nat (length p + length r)) eqn:E; [|lia].
  rewrite Nat2N.id, firstn_app, Nat.sub_diag, firstn_all, skipn_app, Nat.sub_diag, skipn_all. cbn. rewrite app_nil_r. reflexivity.
Qed.

Lemma head_len_pos m n : (1 <= length (encode_head m n))%nat.
Proof. destruct (encode_head_first m n) as (c & t & -> & _). cbn. lia. Qed.

(* ---------- leaves ---------- *)
Lemma parses_uint n : n < two64 -> parses (encode_head 0 n).
Proof.
  intros H. exists (IUint n). intros rest f Hf. pose proof (head_len_pos 0 n). destruct f as [|f]; [lia|]. apply parse_uint, H.
Qed.
Lemma parses_nint n : n < two64 -> parses (encode_head 1 n).
Proof.
  intros H. exists (INint n). intros rest f Hf. pose proof (head_len_pos 1 n). destruct f as [|f]; [lia|]. apply parse_nint, H.
Qed.
Lemma parses_bstr b : len b < two64 -> parses (encode_head 2 (len b) ++ b).
Proof.
  intros H. exists (IBytes b). intros rest f Hf. rewrite app_length in Hf. pose proof (head_len_pos 2 (len b)).
  destruct f as [|f]; [lia|]. rewrite <- app_assoc, parse_bytes by exact H. rewrite take_bytes_app'. reflexivity.
Qed.
Lemma parses_tstr b : len b < two64 -> parses (encode_head 3 (len b) ++ b).
Proof.
  intros H. exists (IText b). intros rest f Hf. rewrite app_length in Hf. pose proof (head_len_pos 3 (len b)).
  destruct f as [|f]; [lia|]. rewrite <- app_assoc, parse_text by exact H. rewrite take_bytes_app'. reflexivity.
Qed.
Lemma parses_simple_byte c n : c / 32 = 7 -> c mod 32 = n -> n < 24 -> c < 256 -> parses [c].
Proof.
  intros Hm Ha Hn Hc. exists (ISimple n). intros rest f Hf. destruct f as [|f]; [cbn in Hf; lia|].
  assert (D : decode_head (c :: rest) = Some (7, Arg n, rest)).
  { unfold decode_head. cbv zeta. rewrite Hm, Ha. destruct (n <? 24) eqn:E; [reflexivity|lia]. }
  rewrite parse_item_S. cbn [app]. rewrite D. cbn [major_of]. cbv zeta. rewrite Ha.
  destruct (n <? 24) eqn:E; [reflexivity|lia].
Qed.
Lemma parses_false : parses [244].  Proof. apply (parses_simple_byte 244 20); [reflexivity|reflexivity|lia|lia]. Qed.
Lemma parses_true : parses [245].  Proof. apply (parses_simple_byte 245 21); [reflexivity|reflexivity|lia|lia]. Qed.
Lemma parses_null : parses [246].  Proof. apply (parses_simple_byte 246 22); [reflexivity|reflexivity|lia|lia]. Qed.

(* ---------- sequences ---------- *)
Lemma in_concat_length (bl : list bytes) b : In b bl -> (length b <= length (concat bl))%nat.
Proof.
  induction bl as [|x t IH]; [intros []|]. intros [->|H]; cbn [concat]; rewrite app_length; [lia|]. specialize (IH H). lia.
Qed.
Lemma concat_length_ge (bl : list bytes) : Forall parses bl -> (length bl <= length (concat bl))%nat.
Proof.
  induction 1 as [|x t Hx _ IH]; [cbn; lia|]. cbn [concat length]. rewrite app_length. pose proof (parses_nonempty x Hx). lia.
Qed.

Lemma parse_n_gen {A} (p : Item.parser A) (bl : list bytes) (outs : list A) :
  Forall2 (fun b o => forall r, p (b ++ r) = Ok (o, r)) bl outs ->
  forall rest, parse_n p (length bl) (concat bl ++ rest) = Ok (outs, rest).
Proof.
  induction 1 as [|b o bl outs Hb _ IH]; intros rest; [reflexivity|].
  cbn [length concat parse_n]. rewrite <- app_assoc, Hb. cbn [bind]. rewrite IH. reflexivity.
Qed.

Lemma until_break_gen {A} (p : Item.parser A) (bl : list bytes) (outs : list A) :
  Forall2 (fun b o => (exists c t, b = c :: t /\ c <> 255) /\ forall r, p (b ++ r) = Ok (o, r)) bl outs ->
  forall k rest, (length bl <= k)%nat -> parse_until_break p k (concat bl ++ 255 :: rest) = Ok (outs, rest).
Proof.
  induction 1 as [|b o bl outs [(c & t & -> & Hc) Hb] _ IH]; intros k rest Hk.
  - cbn [concat app]. destruct k; reflexivity.
  - cbn [length] in Hk. destruct k as [|k]; [lia|]. cbn [concat]. rewrite <- app_assoc.
    cbn [app parse_until_break]. destruct (c =? 255) eqn:E; [lia|].
    change (c :: t ++ concat bl ++ 255 :: rest) with ((c :: t) ++ concat bl ++ 255 :: rest).
    rewrite Hb. cbn [bind]. rewrite IH by lia. reflexivity.
Qed.

(* witnesses for a list of items: the items do not depend on the fuel *)
Definition item_at (f : nat) (b : bytes) (o : item) : Prop :=
  (exists c t, b = c :: t /\ c <> 255) /\ forall r, parse_item f (b ++ r) = Ok (o, r).
Lemma parses_outs (bl : list bytes) : Forall parses bl ->
  exists outs, forall f, (forall b, In b bl -> (length b <= f)%nat) -> Forall2 (item_at f) bl outs.
Proof.
  induction 1 as [|b t Hb _ IH]; [exists []; constructor|].
  destruct IH as [outs Ho]. pose proof (parses_first b Hb) as F. destruct Hb as [it Hit]. exists (it :: outs).
  intros f Hf. constructor; [|apply Ho; intros x Hx; apply Hf; right; exact Hx].
  split; [exact F|]. intros r. apply Hit, Hf. left. reflexivity.
Qed.
Lemma forall2_weaken {A B} (P Q : A -> B -> Prop) l1 l2 : (forall a b, P a b -> Q a b) -> Forall2 P l1 l2 -> Forall2 Q l1 l2.
Proof. intros H. induction 1; constructor; auto. Qed.

Lemma fuel_for_items (bl : list bytes) f : (length (concat bl) <= f)%nat -> forall b, In b bl -> (length b <= f)%nat.
Proof. intros H b Hb. pose proof (in_concat_length bl b Hb). lia. Qed.

(* ---------- containers ---------- *)
Lemma parses_array (bl : list bytes) : Forall parses bl -> len bl < two64 -> parses (encode_head 4 (len bl) ++ concat bl).
Proof.
  intros Hbl Hn. destruct (parses_outs bl Hbl) as [outs Ho].
  exists (IArray true outs). intros rest f Hf. rewrite app_length in Hf. pose proof (head_len_pos 4 (len bl)).
  destruct f as [|f]; [lia|]. rewrite <- app_assoc, parse_array by exact Hn.
  pose proof (concat_length_ge bl Hbl) as Hge.
  destruct (len bl <=? len (concat bl ++ rest)) eqn:E; [|unfold len in E; rewrite app_length in E; lia].
  unfold len at 1. rewrite Nat2N.id.
  rewrite (parse_n_gen (parse_item f) bl outs); [reflexivity|].
  apply forall2_weaken with (P := item_at f); [intros a b [_ Hab]; exact Hab|]. apply Ho, fuel_for_items. lia.
Qed.

(* an array whose last item is given separately (the optional trailing item of SArrOpt) *)
Lemma parses_array_snoc (bl : list bytes) (e : bytes) : Forall parses bl -> parses e -> 1 + len bl < two64 ->
  parses (encode_head 4 (1 + len bl) ++ concat bl ++ e).
Proof.
  intros Hbl He Hn.
  replace (concat bl ++ e) with (concat (bl ++ [e])) by (rewrite concat_app; cbn [concat]; rewrite app_nil_r; reflexivity).
  replace (1 + len bl) with (len (bl ++ [e])) by (unfold len; rewrite app_length; cbn [length]; lia).
  apply parses_array; [apply Forall_app; split; [exact Hbl|constructor; [exact He|constructor]]|].
  unfold len in *. rewrite app_length. cbn [length]. lia.
Qed.

Lemma parses_array_indef (bl : list bytes) : Forall parses bl -> parses (159 :: concat bl ++ [255]).
Proof.
  intros Hbl. destruct (parses_outs bl Hbl) as [outs Ho].
  exists (IArray false outs). intros rest f Hf. cbn [length] in Hf. rewrite app_length in Hf.
  destruct f as [|f]; [lia|]. rewrite parse_item_S. cbn [app].
  change (decode_head (159 :: (concat bl ++ [255]) ++ rest)) with (Some (4, Indef, (concat bl ++ [255]) ++ rest)).
  cbn [major_of]. rewrite <- app_assoc. cbn [app].
  pose proof (concat_length_ge bl Hbl) as Hge.
  rewrite (until_break_gen (parse_item f) bl outs); [reflexivity| |rewrite app_length; lia].
  apply Ho, fuel_for_items. lia.
Qed.

Definition pair_bytes (kv : bytes * bytes) : bytes := fst kv ++ snd kv.
Lemma parses_map (pl : list (bytes * bytes)) :
  Forall (fun kv => parses (fst kv) /\ parses (snd kv)) pl -> len pl < two64 ->
  parses (encode_head 5 (len pl) ++ concat (map pair_bytes pl)).
Proof.
  intros Hpl Hn.
  assert (exists outs : list (item * item), forall f, (length (concat (map pair_bytes pl)) <= f)%nat ->
            Forall2 (fun b o => forall r, parse_pair (parse_item f) (b ++ r) = Ok (o, r)) (map pair_bytes pl) outs) as [outs Ho].
  { induction Hpl as [|[kb vb] t [[ki Hk] [vi Hv]] _ IH]; [exists []; constructor|].
    destruct IH as [outs Ho]; [cbn [length] in Hn; unfold len in *; cbn [length] in Hn; lia|].
    exists ((ki, vi) :: outs). intros f Hf. cbn [map concat] in Hf. rewrite app_length in Hf. unfold pair_bytes at 1 in Hf.
    cbn [fst snd] in *. rewrite app_length in Hf. constructor; [|apply Ho; lia].
    intros r. unfold parse_pair, pair_bytes. cbn [fst snd]. rewrite <- app_assoc, Hk by lia. cbn [bind]. rewrite Hv by lia. reflexivity. }
  assert (Hge : (length pl <= length (concat (map pair_bytes pl)))%nat).
  { clear - Hpl. induction Hpl as [|[kb vb] t [Hk _] _ IH]; [cbn; lia|]. cbn [map concat length]. rewrite app_length.
    unfold pair_bytes at 1. cbn [fst snd]. rewrite app_length. pose proof (parses_nonempty kb Hk). lia. }
  exists (IMap true outs). intros rest f Hf. rewrite app_length in Hf. pose proof (head_len_pos 5 (len pl)).
  destruct f as [|f]; [lia|]. rewrite <- app_assoc, parse_map by exact Hn.
  destruct (len pl <=? len (concat (map pair_bytes pl) ++ rest)) eqn:E; [|unfold len in E; rewrite app_length in E; lia].
  unfold len at 1. rewrite Nat2N.id.
  replace (length pl) with (length (map pair_bytes pl)) by apply map_length.
  rewrite (parse_n_gen (parse_pair (parse_item f)) (map pair_bytes pl) outs); [reflexivity|]. apply Ho. lia.
Qed.

Lemma parses_tag t b : t < two64 -> parses b -> parses (encode_head 6 t ++ b).
Proof.
  intros Ht [it Hit]. exists (ITag t it). intros rest f Hf. rewrite app_length in Hf. pose proof (head_len_pos 6 t).
  destruct f as [|f]; [lia|]. rewrite <- app_assoc, parse_tag by exact Ht. rewrite Hit by lia. reflexivity.
Qed.

(* chunked byte string: 0x5f, definite chunks, 0xff *)
Lemma parses_chunked (cs : list bytes) : Forall (fun c => len c < two64) cs -> parses (95 :: concat (map enc_chunk cs) ++ [255]).
Proof.
  intros Hcs. exists (IBytesChunked cs). intros rest f Hf. destruct f as [|f]; [cbn in Hf; lia|].
  rewrite parse_item_S. cbn [app].
  change (decode_head (95 :: (concat (map enc_chunk cs) ++ [255]) ++ rest)) with (Some (2, Indef, (concat (map enc_chunk cs) ++ [255]) ++ rest)).
  cbn [major_of]. rewrite <- app_assoc. cbn [app].
  rewrite (until_break_gen (parse_chunk 2) (map enc_chunk cs) cs); [reflexivity| |].
  - clear - Hcs. induction Hcs as [|c t Hc _ IH]; [constructor|]. cbn [map]. constructor; [|exact IH]. split.
    + unfold enc_chunk. destruct (encode_head_first 2 (N.of_nat (length c))) as (x & u & -> & Hx). eexists _, _. split; [reflexivity|lia].
    + intros r. unfold parse_chunk, enc_chunk. rewrite <- app_assoc.
      rewrite decode_encode_head by exact Hc. cbn. apply take_bytes_app'.
  - rewrite map_length, app_length.
    assert (length cs <= length (concat (map enc_chunk cs)))%nat; [|lia].
    clear. induction cs as [|c t IH]; [cbn; lia|]. cbn [map concat length]. rewrite app_length. unfold enc_chunk at 1.
    rewrite app_length. pose proof (head_len_pos 2 (N.of_nat (length c))). lia.
Qed.

(* ---------- the schema-directed writer ---------- *)
Definition PI (s : schema) : Prop := wfs s = true -> forall v, wfv s v = true -> parses (enc s v).
Definition PIs (fs : slist) : Prop := wfs_sl fs = true -> forall l, wfv_sl fs l = true ->
  exists bl, enc_sl fs l = concat bl /\ len bl = slen fs /\ Forall parses bl.
Definition PIk (fs : klist) : Prop := wfs_kl fs = true -> keys_nodup fs = true -> forall l, wfv_kl fs l = true ->
  exists pl, enc_kl fs l = concat (map pair_bytes pl) /\ len pl = count_kl fs l /\
             Forall (fun kv => parses (fst kv) /\ parses (snd kv)) pl.
Definition PIv (alts : vlist) : Prop := wfs_vl alts = true -> forall i l, wfv_vl alts i l = true -> parses (enc_vl alts i l).
Definition PIc (alts : clist) : Prop := forall tagged, wfs_cl tagged alts = true -> forall i v, wfv_cl alts i v = true ->
  parses (enc_cl tagged alts i v).

Lemma forall_parses_map (s : schema) (l : list val) :
  (forall v, wfv s v = true -> parses (enc s v)) -> forallb (wfv s) l = true -> Forall parses (map (enc s) l).
Proof.
  intros IH Hl. apply Forall_forall. intros b Hb. apply in_map_iff in Hb. destruct Hb as (v & <- & Hv).
  apply IH. exact (forallb_In _ _ _ Hl Hv).
Qed.

Lemma len_cons {A} (x : A) l : len (x :: l) = 1 + len l.
Proof. unfold len. cbn [length]. lia. Qed.
Lemma len_map {A B} (f : A -> B) l : len (map f l) = len l.
Proof. unfold len. rewrite map_length. reflexivity. Qed.

Lemma item_link_all : (forall s, PI s) /\ (forall fs, PIs fs) /\ (forall fs, PIk fs) /\ (forall a, PIv a) /\ (forall a, PIc a).
Proof.
  apply schema_mutind; unfold PI, PIs, PIk, PIv, PIc.
  - (* SUint *) intros lim Hs v Hv. destruct v; try discriminate. cbn [enc wfv wfs] in *. apply parses_uint. lia.
  - (* SNint *) intros _ v Hv. destruct v; try discriminate. cbn [enc wfv] in *. apply parses_nint. lia.
  - (* SBytes *) intros lo hi Hs v Hv. destruct v; try discriminate. cbn [enc wfv wfs] in *. split_ands.
    apply parses_bstr. unfold len. lia.
  - (* SText *) intros hi Hs v Hv. destruct v; try discriminate. cbn [enc wfv wfs] in *. split_ands.
    apply parses_tstr. unfold len. lia.
  - (* SBool *) intros _ v Hv. destruct v; try discriminate. cbn [enc]. destruct b; [apply parses_true|apply parses_false].
  - (* SArr *) intros fs IH Hs v Hv. destruct v; try discriminate. cbn [enc wfv wfs] in *. split_ands.
    destruct (IH ltac:(assumption) l Hv) as (bl & -> & Hl & Hbl). rewrite <- Hl. apply parses_array; [exact Hbl|].
    match goal with H : (slen fs <? two64) = true |- _ => apply N.ltb_lt in H; rewrite <- Hl in H; exact H end.
  - (* SMap *) intros fs IH Hs v Hv. destruct v; try discriminate. cbn [enc wfv wfs] in *. split_ands.
    destruct (IH ltac:(assumption) ltac:(assumption) l Hv) as (pl & -> & Hl & Hpl). rewrite <- Hl.
    pose proof (count_kl_le fs l) as Hc. apply parses_map; [exact Hpl|].
    match goal with H : (klen fs <? two64) = true |- _ => apply N.ltb_lt in H; rewrite <- Hl in Hc; eapply N.le_lt_trans; [exact Hc|exact H] end.
  - (* SVar *) intros alts IH Hs v Hv. destruct v; try discriminate. cbn [enc wfv wfs] in *. apply IH; assumption.
  - (* SArrOf *) intros lo s IH Hs v Hv. destruct v; try discriminate. cbn [enc wfv wfs] in *. split_ands.
    rewrite <- (map_length (enc s) l). apply parses_array; [apply forall_parses_map; auto|rewrite len_map; unfold len; lia].
  - (* SSetOf *) intros s IH Hs v Hv. destruct v; try discriminate. cbn [enc wfv wfs] in *. split_ands.
    apply parses_tag; [unfold two64; lia|].
    rewrite <- (map_length (enc s) l). apply parses_array; [apply forall_parses_map; auto|rewrite len_map; unfold len; lia].
  - (* SMapOf *) intros lo ord k IHk v' IHv Hs v Hv. destruct v; try discriminate. cbn [enc wfv wfs] in *. split_ands.
    set (pl := map (fun kv : val * val => (enc k (fst kv), enc v' (snd kv))) l).
    replace (concat (map (fun kv : val * val => enc k (fst kv) ++ enc v' (snd kv)) l)) with (concat (map pair_bytes pl))
      by (unfold pl; rewrite map_map; reflexivity).
    replace (N.of_nat (length l)) with (len pl) by (unfold pl; apply len_map).
    apply parses_map; [|unfold pl; rewrite len_map; unfold len; lia].
    apply Forall_forall. intros kv Hkv. unfold pl in Hkv. apply in_map_iff in Hkv. destruct Hkv as (x & <- & Hx).
    match goal with H : forallb _ l = true |- _ => pose proof (forallb_In _ _ _ H Hx) as Hw end. cbn beta in Hw.
    apply andb_prop in Hw. destruct Hw. cbn [fst snd]. split; [apply IHk|apply IHv]; assumption.
  - (* SNullable *) intros s IH Hs v Hv. cbn [wfs] in Hs. split_ands.
    destruct v; cbn [enc wfv] in *; try (apply IH; assumption). apply parses_null.
  - (* STag *) intros t s IH Hs v Hv. cbn [enc wfv wfs] in *. split_ands. apply parses_tag; [lia|]. apply IH; assumption.
  - (* SInBytes *) intros s IH Hs v Hv. cbn [enc wfv wfs] in *. split_ands. apply parses_bstr. unfold len. lia.
  - (* SChoice *) intros alts IH Hs v Hv. destruct v; try discriminate. cbn [enc wfv wfs] in *. apply IH; assumption.
  - (* STagChoice *) intros alts IH Hs v Hv. destruct v; try discriminate. cbn [enc wfv wfs] in *. apply IH; assumption.
  - (* SArrAny *) intros s IH Hs v Hv. cbn [wfs] in Hs. split_ands.
    destruct v as [| | | | | | | | | |i v0]; try discriminate. destruct i as [|[|i]]; destruct v0; try discriminate; cbn [enc wfv] in *.
    + split_ands. rewrite <- (map_length (enc s) l). apply parses_array; [apply forall_parses_map; auto|rewrite len_map; unfold len; lia].
    + apply parses_array_indef. apply forall_parses_map; auto.
  - (* SBBytes *) intros _ v Hv. destruct v; try discriminate. cbn [enc wfv] in *.
    destruct (N.of_nat (length b) <=? 64) eqn:E.
    + apply parses_bstr. unfold len, two64. lia.
    + apply parses_chunked. apply Forall_forall. intros c Hc. apply chunk64_bounds in Hc. unfold len, two64. lia.
  - (* SNamed *) intros id s IH Hs v Hv. cbn [enc wfv wfs] in *. apply IH; assumption.
  - (* SArrOpt *) intros fs IHfs o IHo Hs v Hv. cbn [wfs] in Hs. split_ands.
    destruct v as [| | | | | | | | | |i v0]; try discriminate. destruct i as [|[|i]]; destruct v0; try discriminate; cbn [enc wfv] in *.
    + destruct (IHfs ltac:(assumption) l Hv) as (bl & -> & Hl & Hbl). rewrite <- Hl. apply parses_array; [exact Hbl|].
      match goal with H : (1 + slen fs <? two64) = true |- _ => apply N.ltb_lt in H; rewrite <- Hl in H; eapply N.lt_trans; [|exact H]; apply N.lt_add_pos_l; reflexivity end.
    + destruct l as [|x l]; [discriminate|]. split_ands.
      destruct (IHfs ltac:(assumption) l ltac:(assumption)) as (bl & -> & Hl & Hbl). rewrite <- Hl.
      apply parses_array_snoc; [exact Hbl|apply IHo; assumption|].
      match goal with H : (1 + slen fs <? two64) = true |- _ => apply N.ltb_lt in H; rewrite <- Hl in H; exact H end.
  - (* SNil *) intros _ l Hl. destruct l; try discriminate. exists []. repeat split. constructor.
  - (* SCons *) intros s IH r IHr Hs l Hl. destruct l as [|v t]; try discriminate. cbn [wfs_sl wfv_sl enc_sl slen] in *. split_ands.
    destruct (IHr ltac:(assumption) t ltac:(assumption)) as (bl & -> & Hlen & Hbl).
    exists (enc s v :: bl). split; [reflexivity|]. split; [rewrite len_cons; f_equal; exact Hlen|].
    constructor; [apply IH; assumption|exact Hbl].
  - (* KNil *) intros _ _ l Hl. destruct l; try discriminate. exists []. repeat split. constructor.
  - (* KCons *) intros k p s IH r IHr Hs Hk l Hl. destruct l as [|o t]; try discriminate.
    cbn [wfs_kl wfv_kl enc_kl keys_nodup count_kl] in *. split_ands.
    destruct (IHr ltac:(assumption) ltac:(assumption) t ltac:(assumption)) as (pl & Epl & Hlen & Hpl).
    destruct o as [v|].
    + split_ands. destruct (present p (Some v)) eqn:Ep; cbv iota.
      * exists ((enc_uint k, enc s v) :: pl). cbn [map concat]. unfold pair_bytes at 1. cbn [fst snd]. rewrite Epl, <- app_assoc.
        split; [reflexivity|]. split; [rewrite len_cons; f_equal; exact Hlen|].
        constructor; [|exact Hpl]. cbn [fst snd]. split; [apply parses_uint; lia|apply IH; assumption].
      * exists pl. cbn [app]. split; [exact Epl|]. split; [rewrite N.add_0_l; exact Hlen|exact Hpl].
    + exists pl. cbn [present app]. cbv iota. split; [exact Epl|]. split; [rewrite N.add_0_l; exact Hlen|exact Hpl].
  - (* ANil *) intros _ i l H. discriminate.
  - (* ACons *) intros idx fs IH r IHr Hs i l Hl. cbn [wfs_vl] in Hs. split_ands. destruct i as [|i]; cbn [wfv_vl enc_vl] in *.
    + destruct (IH ltac:(assumption) l Hl) as (bl & -> & Hlen & Hbl).
      assert (Hc : len (enc_uint idx :: bl) = 1 + slen fs) by (rewrite len_cons; f_equal; exact Hlen).
      rewrite <- Hc. change (enc_uint idx ++ concat bl) with (concat (enc_uint idx :: bl)).
      apply parses_array; [constructor; [apply parses_uint; lia|exact Hbl]|].
      rewrite Hc. lia.
    + apply IHr; assumption.
  - (* CNil *) intros tagged _ i v H. discriminate.
  - (* CCons *) intros d s IH r IHr tagged Hs i v Hv. cbn [wfs_cl] in Hs. split_ands. destruct i as [|i]; cbn [wfv_cl enc_cl] in *.
    + destruct tagged; [apply parses_tag; [lia|apply IH; assumption]|cbn [app]; apply IH; assumption].
    + apply (IHr tagged); assumption.
Qed.

Theorem schema_enc_parses s v : wfs s = true -> wfv s v = true -> parses (enc s v).
Proof. intros Hs Hv. exact (proj1 item_link_all s Hs v Hv). Qed.

(* what the writer emits is one well-formed data item for the independent parser *)
Theorem schema_enc_item_wf s v : wfs s = true -> wfv s v = true -> item_wf (enc s v) = true.
Proof.
  intros Hs Hv. destruct (schema_enc_parses s v Hs Hv) as [it H].
  unfold item_wf, parse_exact, parse_one, default_fuel.
  specialize (H [] (S (length (enc s v))) ltac:(lia)). rewrite app_nil_r in H. rewrite H. reflexivity.
Qed.

(* ... and so is the re-serialisation of whatever a successful decode of writer output returns *)
Theorem schema_reserialise_wf s v rest v' rest' : wfs s = true -> wfv s v = true ->
  dec s (enc s v ++ rest) = Ok (v', rest') -> item_wf (enc s v') = true.
Proof.
  intros Hs Hv H. rewrite (schema_roundtrip s v rest Hs Hv) in H. injection H as <- _. apply schema_enc_item_wf; assumption.
Qed.
