(* C02: the partial operations of Rust as explicit results.  Where the Rust code indexes, slices, unwraps,
   asserts, negates an i64 or allocates a buffer of a declared length, the hand models of Total/Decoders.v call one
   of these; [Panic] is the Rust panic.  Definitions only. *)
From CSL Require Import Base.Prelude.
Local Open Scope N_scope.

(* data[i] *)
Definition index_exn (bs : bytes) (i : nat) : result N :=
  match nth_error bs i with Some b => Ok b | None => Panic end.

(* &data[lo..hi] *)
Definition slice_exn (bs : bytes) (lo hi : nat) : result bytes :=
  if ((lo <=? hi) && (hi <=? length bs))%nat then Ok (firstn (hi - lo) (skipn lo bs)) else Panic.

(* &data[lo..] *)
Definition slice_from_exn (bs : bytes) (lo : nat) : result bytes :=
  if (lo <=? length bs)%nat then Ok (skipn lo bs) else Panic.

(* Option::unwrap *)
Definition unwrap_exn {A} (o : option A) : result A :=
  match o with Some a => Ok a | None => Panic end.

(* Result::unwrap: an error value becomes a panic *)
Definition unwrap_result {A} (r : result A) : result A :=
  match r with Ok a => Ok a | Err => Panic | Panic => Panic | OutOfFuel => OutOfFuel end.

(* assert!(b) *)
Definition assert_exn (b : bool) : result unit := if b then Ok tt else Panic.

(* -x on an i64 in a build with overflow checks *)
Definition i64_min : Z := (-9223372036854775808)%Z.
Definition neg_i64_exn (x : Z) : result Z := if (x =? i64_min)%Z then Panic else Ok (- x)%Z.

(* `x as i64` of a wider signed integer: two's-complement truncation *)
Definition wrap_i64 (x : Z) : Z := ((x + 9223372036854775808) mod 18446744073709551616 - 9223372036854775808)%Z.
(* `x as u64` *)
Definition wrap_u64 (x : Z) : N := Z.to_N (x mod 18446744073709551616)%Z.

(* vec![0; n]: "capacity overflow" panic when n exceeds isize::MAX.  (An allocation of fewer bytes may still fail
   and ABORT the process; that is an effect of the runtime, outside the model: see the known finding.) *)
Definition isize_max : N := 9223372036854775807.
Definition alloc_exn (n : N) : result unit := if n <=? isize_max then Ok tt else Panic.
(* the same with the limit as a parameter: [None] is an allocator that never refuses (the decoders' OWN partial
   operations are then the only possible source of Panic: that is what the totality theorems are about);
   [Some isize_max] is the real one (used by the correspondence run) *)
Definition alloc_lim (lim : option N) (n : N) : result unit :=
  match lim with None => Ok tt | Some l => if n <=? l then Ok tt else Panic end.
Definition real_alloc : option N := Some isize_max.

(* todo!() *)
Definition todo_exn {A} : result A := Panic.
