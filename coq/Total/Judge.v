(* C02: the executable statement of the property on one observation, and the known-finding class.
   Definitions only (extracted into the driver: the judge is Coq code, not harness code). *)
From CSL Require Import Base.Prelude Cbor.Head Cbor.Item Total.Partial Total.Decoders.
Local Open Scope N_scope.

(* what the harness saw: re-serialised bytes of an accepted input, acceptance without CBOR output, an error value,
   a panic, a dead child process (abort: allocation failure, stack overflow), no answer within the time limit *)
Inductive obs := OOk (b : bytes) | OOkNoCbor | OErr | OPanic | OAbort | OTimeout.

(* Known finding C02-huge-declared-length: the input contains, at some offset, a byte/text string head declaring a
   length of at least 2^31 bytes.  cbor_event allocates the declared
   length before reading (vec![0; len]): capacity-overflow panic from 2^63, allocation failure (abort) below. *)
Definition huge_threshold : N := 2147483648.
Definition huge_head (bs : bytes) : bool :=
  match decode_head bs with
  | Some (m, Arg n, r) => ((m =? 2) || (m =? 3)) && (huge_threshold <=? n)
  | _ => false
  end.
Fixpoint has_huge (bs : bytes) : bool :=
  huge_head bs || match bs with [] => false | _ :: t => has_huge t end.

(* Known finding C02-illformed-input-preserved: the INPUT is not exactly one well-formed CBOR data item (its first
   item is ill-formed, or the typed reader consumed bytes beyond the first well-formed item), the library accepts it
   all the same (the hand-written / early generated array readers do not compare a definite array length with the
   number of fields they read: "TODO: check finite len somewhere"), and a type that keeps the bytes it was read from
   (PlutusData, FixedTransaction, FixedTransactionBody, ...) re-emits them verbatim.  An ill-formed re-serialisation
   of an input that IS one well-formed item is never in this class. *)
Definition first_item_wf (bs : bytes) : bool := is_ok (parse_one bs).

(* nesting depth of the first data item of an input (0 when it is not well-formed) *)
Definition input_depth (bs : bytes) : nat := match parse_one bs with Ok (it, _) => item_depth it | _ => O end.

Inductive verdict := Holds | Fails | FailsKnownHuge | FailsKnownPreserved.

(* [cbor_out]: the entry point re-serialises to CBOR (so the bytes must be one well-formed data item);
   [input]: the bytes that reached the CBOR reader (decoded from hex/base58 where applicable, [] if none) *)
Definition judge (cbor_out : bool) (input : bytes) (o : obs) : verdict :=
  match o with
  | OErr | OOkNoCbor => Holds
  | OOk b =>
      if cbor_out then
        (if item_wf b then Holds
         else if is_nil input || item_wf input then Fails else FailsKnownPreserved)
      else Holds
  | OPanic | OAbort => if has_huge input then FailsKnownHuge else Fails
  | OTimeout => Fails
  end.

(* the bytes a parser consumed, given what it left *)
Definition consumed (bs rest : bytes) : bytes := firstn (length bs - length rest) bs.

(* witness-set arrays: [tag 258] array-head, then either nothing to read (length 0), or a major-7 byte at the
   first item position (handled by wit_special); [None] = the first item is a real element (not modelled here).
   skip_set_tag: a readable tag must be 258, anything else is left for the array reader; Vkeywitnesses skips the tag
   twice ([double_tag]).  Result on acceptance: was the (first) set tag present *)
Definition skip_set_tag (bs : bytes) : result (bool * bytes) :=
  match ce_tag bs with
  | Ok (t, r) => if t =? 258 then Ok (true, r) else Err
  | _ => Ok (false, bs)
  end.
Definition wit_array_first (legacy double_tag : bool) (bs : bytes) : option (result bool) :=
  match skip_set_tag bs with
  | Ok (tagged, r) =>
    match (if double_tag then skip_set_tag r else Ok (false, r)) with
    | Ok (_, r') =>
      match ce_array r' with
      | Ok (Arg 0, _) => Some (Ok tagged)
      | Ok (len, c :: t) =>
          if c / 32 =? 7 then
            Some (match wit_special legacy (match len with Arg _ => true | Indef => false end) (c :: t) with
                  | Ok _ => Ok tagged | Err => Err | Panic => Panic | OutOfFuel => OutOfFuel end)
          else None
      | Ok (_, []) => Some Err
      | _ => Some Err
      end
    | _ => Some Err
    end
  | _ => Some Err
  end.
(* the stand-alone serializer always writes the set tag (the original tagging is kept only inside a FixedTransaction) *)
Definition wit_empty_enc (tagged : bool) : bytes := [217; 1; 2; 128].
