(* C02: hand models of the decoders of /repo/rust/src that index, slice, unwrap or assert by hand.
   Each model takes [legacy : bool]: [true] = the code as it was before the repair (the partial operation is
   reachable: the *_refuted lemmas), [false] = the code as it is now in /repo (what the correspondence run executes
   and what the totality theorems are about).  Definitions only; proofs in Total/TotalProofs.v.

   Modelled (file:function):
     protocol_types/address.rs     variable_nat_decode, variable_nat_encode, Address::decode_pointer,
                                   Address::from_bytes_internal_impl (all header kinds), from_bytes_impl_unsafe,
                                   Address::to_bytes, Address::deserialize (embedded)
     legacy_address/cbor.rs        util::raw_with_crc32, encode_with_crc32_ ; legacy_address/crc32.rs crc32
     legacy_address/address.rs     ExtendedAddr::deserialize / serialize, Attributes::deserialize / serialize,
                                   ByronAddressType, ByronAddress::from_bytes (deserialize_complete)
     cbor_event de.rs (dependency) cbor_type/cbor_len/array/map/tag/unsigned_integer/bytes as used above
     serialization/general.rs      TransactionOutput legacy array form: third element (data hash or next item)
     utils.rs                      read_bounded_bytes / write_bounded_bytes
     serialization_macros.rs       from_hex! (default arm)
     crypto/impl_hash_type_macro.rs  from_bytes (raw, fixed length), from_bech32 (5-to-8 bit regrouping)
     crypto/bip32_private_key.rs   from_128_xprv
     serialization/numeric/int.rs, serialization/utils.rs  the negative-integer writer of Int / BigInt
     protocol_types/metadata.rs    encode_number (JSON number -> metadatum int)
     emip3.rs                      decrypt_with_password: the container slicing
     serialization/witnesses/{vkeywitnesses,bootstrap_witnesses}.rs  the special-value check inside the array loop
     utils.rs                      encode_json_str_to_native_script: schema dispatch *)
From CSL Require Import Base.Prelude Base.Hex Cbor.Head Total.Partial.
Local Open Scope N_scope.

Definition blen (b : bytes) : N := N.of_nat (length b).
Definition is_nil {A} (l : list A) : bool := match l with [] => true | _ => false end.

(* ------------------------------------------------------------------ variable-length naturals (address.rs:8-33) *)
Fixpoint varnat_decode_loop (bs : bytes) (acc : N) (read : nat) : option (N * nat) :=
  match bs with
  | [] => None
  | b :: t =>
      let acc' := acc * 128 + b mod 128 in
      if two64 <=? acc' then None                          (* output > u64::MAX *)
      else if b / 128 =? 0 then Some (acc', S read)         (* byte & 0x80 == 0 *)
      else varnat_decode_loop t acc' (S read)
  end.
Definition varnat_decode (bs : bytes) : option (N * nat) := varnat_decode_loop bs 0 O.

Fixpoint varnat_hi (fuel : nat) (n : N) : bytes :=
  match fuel with
  | O => []
  | S f => if n =? 0 then [] else varnat_hi f (n / 128) ++ [n mod 128 + 128]
  end.
Definition varnat_encode (n : N) : bytes := varnat_hi 10 (n / 128) ++ [n mod 128].

(* Address::decode_pointer: three naturals; the slices &data[offset..] are in range by construction *)
Definition decode_pointer (data : bytes) : result (N * N * N * nat) :=
  match varnat_decode data with
  | None => Err
  | Some (slot, o1) =>
    let* d1 := slice_from_exn data o1 in
    match varnat_decode d1 with
    | None => Err
    | Some (tx, o2) =>
      let* d2 := slice_from_exn data (o1 + o2) in
      match varnat_decode d2 with
      | None => Err
      | Some (cert, o3) => Ok (slot, tx, cert, (o1 + o2 + o3)%nat)
      end
    end
  end.

(* ------------------------------------------------------------------ cbor_event primitives (de.rs) *)
(* cbor_expect_type(m); cbor_len; advance *)
Definition ce_head (m : N) (bs : bytes) : result (harg * bytes) :=
  match bs with
  | [] => Err
  | b0 :: _ =>
      if b0 / 32 =? m then
        match decode_head bs with Some (_, a, r) => Ok (a, r) | None => Err end
      else Err
  end.
Definition ce_uint (bs : bytes) : result (N * bytes) :=
  let* '(a, r) := ce_head 0 bs in match a with Arg n => Ok (n, r) | Indef => Err end.
Definition ce_tag (bs : bytes) : result (N * bytes) :=
  let* '(a, r) := ce_head 6 bs in match a with Arg n => Ok (n, r) | Indef => Err end.
Definition ce_array (bs : bytes) : result (harg * bytes) := ce_head 4 bs.
Definition ce_map (bs : bytes) : result (harg * bytes) := ce_head 5 bs.

(* the chunk loop of bytes_sz: `take(len).read_to_end` reads what is there (a short chunk is not an error by
   itself; the next turn of the loop then fails on the empty input) *)
Fixpoint ce_chunks (fuel : nat) (bs acc : bytes) : result (bytes * bytes) :=
  match fuel with
  | O => OutOfFuel
  | S f =>
    match bs with
    | [] => Err
    | c :: t =>
        if c / 32 =? 7 then (if c mod 32 =? 31 then Ok (acc, t) else Err)
        else if c / 32 =? 2 then
          match decode_head bs with
          | Some (_, Arg n, r) => ce_chunks f (skipn (N.to_nat (N.min n (blen r))) r) (acc ++ firstn (N.to_nat (N.min n (blen r))) r)
          | _ => Err
          end
        else Err
    end
  end.
(* Everything below that reads a byte string through cbor_event takes the allocation limit [lim] (Partial.alloc_lim). *)
Section Alloc.
Variable lim : option N.

(* Deserializer::bytes: definite = allocate the declared length, then read_exact *)
Definition ce_bytes (bs : bytes) : result (bytes * bytes) :=
  let* '(a, r) := ce_head 2 bs in
  match a with
  | Arg n =>
      let* _ := alloc_lim lim n in
      if n <=? blen r then Ok (firstn (N.to_nat n) r, skipn (N.to_nat n) r) else Err
  | Indef => ce_chunks (S (length r)) r []
  end.

Definition bstr (b : bytes) : bytes := encode_head 2 (blen b) ++ b.

(* ------------------------------------------------------------------ CRC32 (legacy_address/crc32.rs; IEEE, reflected) *)
Definition crc_step (c : N) : N := if N.odd c then N.lxor (c / 2) 3988292384 else c / 2.
Definition crc_byte (c b : N) : N :=
  crc_step (crc_step (crc_step (crc_step (crc_step (crc_step (crc_step (crc_step (N.lxor c b)))))))).
Definition crc32 (bs : bytes) : N := N.lxor (fold_left crc_byte bs 4294967295) 4294967295.

(* ------------------------------------------------------------------ Byron addresses *)
Record ext_addr := { ea_addr : bytes; ea_dp : option bytes; ea_magic : option N; ea_type : N }.

(* legacy_address/cbor.rs raw_with_crc32 *)
Definition raw_with_crc32 (legacy : bool) (bs : bytes) : result (bytes * bytes) :=
  let* '(len, r) := ce_array bs in
  let is2 := match len with Arg n => n =? 2 | Indef => false end in
  let* _ := (if legacy then assert_exn is2 else if is2 then Ok tt else Err) in
  let* '(t, r1) := ce_tag r in
  if negb (t =? 24) then Err else
  let* '(b, r2) := ce_bytes r1 in
  let* '(crc, r3) := ce_uint r2 in
  if crc =? crc32 b then Ok (b, r3) else Err.

(* Attributes::deserialize: `while len > 0`; every turn consumes at least one byte or fails, so
   min(len, length + 1) turns decide the outcome *)
Fixpoint attrs_loop (k : nat) (bs : bytes) (dp : option bytes) (magic : option N) : result (option bytes * option N * bytes) :=
  match k with
  | O => Ok (dp, magic, bs)
  | S k' =>
    let* '(key, r) := ce_uint bs in
    if key =? 1 then let* '(b, r') := ce_bytes r in attrs_loop k' r' (Some b) magic
    else if key =? 2 then
      let* '(b, r') := ce_bytes r in
      let* '(n, _) := ce_uint b in
      if 4294967295 <? n then Err else attrs_loop k' r' dp (Some n)
    else Err
  end.
Definition attrs_dec (bs : bytes) : result (option bytes * option N * bytes) :=
  let* '(len, r) := ce_map bs in
  match len with
  | Indef => Err
  | Arg n =>
      let k := N.min n (blen r + 1) in
      let* '(dp, magic, r') := attrs_loop (N.to_nat k) r None None in
      if k <? n then Err else Ok (dp, magic, r')
  end.

Definition ext_addr_dec (legacy : bool) (bs : bytes) : result (ext_addr * bytes) :=
  let* '(inner, rest) := raw_with_crc32 legacy bs in
  let* '(len, i1) := ce_array inner in
  match len with
  | Arg 3 =>
    let* '(ab, i2) := ce_bytes i1 in
    if negb (length ab =? 28)%nat then Err else
    let* '(dp, magic, i3) := attrs_dec i2 in
    let* '(ty, _) := ce_uint i3 in
    if 2 <? ty then Err else Ok ({| ea_addr := ab; ea_dp := dp; ea_magic := magic; ea_type := ty |}, rest)
  | _ => Err
  end.

(* ByronAddress::from_bytes / from_base58: deserialize_complete (nothing may follow) *)
Definition byron_from_bytes (legacy : bool) (bs : bytes) : result ext_addr :=
  let* '(ea, rest) := ext_addr_dec legacy bs in
  if is_nil rest then Ok ea else Err.

Definition attrs_enc (dp : option bytes) (magic : option N) : bytes :=
  encode_head 5 ((if dp then 1 else 0) + (if magic then 1 else 0)) ++
  (match dp with Some d => encode_head 0 1 ++ bstr d | None => [] end) ++
  (match magic with Some m => encode_head 0 2 ++ bstr (encode_head 0 m) | None => [] end).
Definition ext_addr_inner (ea : ext_addr) : bytes :=
  encode_head 4 3 ++ bstr (ea_addr ea) ++ attrs_enc (ea_dp ea) (ea_magic ea) ++ encode_head 0 (ea_type ea).
Definition ext_addr_enc (ea : ext_addr) : bytes :=
  let i := ext_addr_inner ea in
  encode_head 4 2 ++ encode_head 6 24 ++ bstr i ++ encode_head 0 (crc32 i).

(* ------------------------------------------------------------------ Address::from_bytes_internal_impl (address.rs:406-540) *)
Inductive addr :=
| ABase (net : N) (pay_script stake_script : bool) (pay stake : bytes)
| APtr (net : N) (pay_script : bool) (pay : bytes) (slot tx cert : N)
| AEnterprise (net : N) (pay_script : bool) (pay : bytes)
| AReward (net : N) (pay_script : bool) (pay : bytes)
| AByron (ea : ext_addr)
| AMalformed (raw : bytes).

Definition b2n (b : bool) : N := if b then 1 else 0.
Definition addr_to_bytes (a : addr) : bytes :=
  match a with
  | ABase net p s ph sh => (b2n p * 16 + b2n s * 32 + net mod 16) :: ph ++ sh
  | APtr net p ph slot tx cert => (64 + b2n p * 16 + net mod 16) :: ph ++ varnat_encode slot ++ varnat_encode tx ++ varnat_encode cert
  | AEnterprise net p ph => (96 + b2n p * 16 + net mod 16) :: ph
  | AReward net p ph => (224 + b2n p * 16 + net mod 16) :: ph
  | AByron ea => ext_addr_enc ea
  | AMalformed raw => raw
  end.

Definition addr_from_bytes (legacy ignore_leftover : bool) (data : bytes) : result addr :=
  let* _ := (if legacy then Ok tt else if is_nil data then Err else Ok tt) in     (* the guard added by the repair *)
  let* header := index_exn data 0 in
  let net := header mod 16 in
  let kind := header / 16 in
  let n := length data in
  (* read_addr_cred: data[pos..pos+28] *)
  let cred (bit : N) (pos : nat) : result (bool * bytes) :=
    let* h := slice_exn data pos (pos + 28) in Ok (N.odd (header / bit), h) in
  if kind <? 4 then
    if (n <? 57)%nat then Err
    else if (57 <? n)%nat && negb ignore_leftover then Err
    else let* '(ps, ph) := cred 16 1%nat in let* '(ss, sh) := cred 32 29%nat in Ok (ABase net ps ss ph sh)
  else if kind <? 6 then
    if (n <? 32)%nat then Err
    else
      let* '(ps, ph) := cred 16 1%nat in
      let* rest := slice_from_exn data 29 in
      let* '(slot, tx, cert, off) := decode_pointer rest in
      if (29 + off <? n)%nat && negb ignore_leftover then Err else Ok (APtr net ps ph slot tx cert)
  else if kind <? 8 then
    if (n <? 29)%nat then Err
    else if (29 <? n)%nat && negb ignore_leftover then Err
    else let* '(ps, ph) := cred 16 1%nat in Ok (AEnterprise net ps ph)
  else if kind =? 8 then
    let* ea := byron_from_bytes legacy data in Ok (AByron ea)
  else if (kind =? 14) || (kind =? 15) then
    if (n <? 29)%nat then Err
    else if (29 <? n)%nat && negb ignore_leftover then Err
    else let* '(ps, ph) := cred 16 1%nat in Ok (AReward net ps ph)
  else Err.

(* Address::from_bytes (strict) and its observation: the re-serialised bytes *)
Definition address_from_bytes (legacy : bool) (data : bytes) : result bytes :=
  let* a := addr_from_bytes legacy false data in Ok (addr_to_bytes a).

(* from_bytes_impl_unsafe: an error becomes a Malformed address holding the bytes verbatim *)
Definition addr_unsafe (legacy : bool) (data : bytes) : result addr :=
  match addr_from_bytes legacy true data with
  | Ok a => Ok a
  | Err => Ok (AMalformed data)
  | Panic => Panic
  | OutOfFuel => OutOfFuel
  end.
(* Deserialize for Address: a byte string holding the address *)
Definition addr_deserialize (legacy : bool) (bs : bytes) : result (addr * bytes) :=
  let* '(b, r) := ce_bytes bs in let* a := addr_unsafe legacy b in Ok (a, r).

(* ------------------------------------------------------------------ legacy output: third element (general.rs:287-329) *)
(* after [address, amount]: a byte string of 32 bytes is the data hash; any other byte string belongs to the next
   item (seek back); anything else, or the end of input, is no data hash *)
Definition third_element (legacy : bool) (r2 : bytes) : result (option bytes * bytes) :=
  match r2 with
  | b0 :: _ =>
      if b0 / 32 =? 2 then
        let* '(b, r3) := (if legacy then unwrap_result (ce_bytes r2) else ce_bytes r2) in
        if (length b =? 32)%nat then Ok (Some b, r3) else Ok (None, r2)
      else Ok (None, r2)
  | [] => Ok (None, r2)
  end.

(* the array form of TransactionOutput, with the amount decoder as a parameter (instantiated with the schema
   decoder of Value by the driver); result: address, amount, optional data hash, rest.
   The array length is not checked by the code; an indefinite array must be closed by a break. *)
Section LegacyOutput.
  Context {V : Type} (dec_value : bytes -> result (V * bytes)).
  Definition legacy_output (legacy : bool) (bs : bytes) : result (addr * V * option bytes * bytes) :=
    let* '(len, r0) := ce_array bs in
    let* '(a, r1) := addr_deserialize legacy r0 in
    let* '(v, r2) := dec_value r1 in
    (* repaired reader: a definite array of two items is not probed for a third one, and the declared length must be
       the number of items read (check_len); the old reader probed always and never looked at the length *)
    let probe := if legacy then true else match len with Arg n => 2 <? n | Indef => true end in
    let* '(h, r3) := (if probe then third_element legacy r2 else Ok (None, r2)) in
    let* _ := (if legacy then Ok tt
               else match len with
                    | Arg n => if n =? 2 + (if h then 1 else 0) then Ok tt else Err
                    | Indef => Ok tt
                    end) in
    match len with
    | Arg _ => Ok (a, v, h, r3)
    | Indef => match r3 with c :: t => if c =? 255 then Ok (a, v, h, t) else Err | [] => Err end
    end.
End LegacyOutput.

(* ------------------------------------------------------------------ bounded bytes (utils.rs:411-499) *)
Fixpoint bb_chunks (fuel : nat) (bs acc : bytes) : result (bytes * bytes) :=
  match fuel with
  | O => OutOfFuel
  | S f =>
    match bs with
    | [] => Err
    | c :: t =>
        if c / 32 =? 7 then (if c =? 255 then Ok (acc, t) else Err)
        else if c / 32 =? 2 then
          match decode_head bs with
          | Some (_, Arg n, r) =>
              if 64 <? n then Err
              else bb_chunks f (skipn (N.to_nat n) r) (acc ++ firstn (N.to_nat n) r)
          | _ => Err
          end
        else Err
    end
  end.
Definition read_bounded_bytes (bs : bytes) : result (bytes * bytes) :=
  match bs with
  | [] => Err
  | b0 :: _ =>
      if negb (b0 / 32 =? 2) then Err else
      match decode_head bs with
      | None => Err
      | Some (_, Arg _, _) =>
          let* '(b, r) := ce_bytes bs in
          if (64 <? length b)%nat then Err else Ok (b, r)
      | Some (_, Indef, r) => bb_chunks (S (length r)) r []
      end
  end.
Fixpoint chunks64 (fuel : nat) (b : bytes) : bytes :=
  match fuel with
  | O => []
  | S f => match b with [] => [] | _ => bstr (firstn 64 b) ++ chunks64 f (skipn 64 b) end
  end.
Definition write_bounded_bytes (b : bytes) : bytes :=
  if (length b <=? 64)%nat then bstr b else 95 :: chunks64 (length b) b ++ [255].

(* ------------------------------------------------------------------ from_hex (serialization_macros.rs:70-88) *)
Definition from_hex_with {A} (legacy : bool) (p : bytes -> result A) (cs : list N) : result A :=
  match unhex cs with
  | Some bs => p bs
  | None => if legacy then Panic else Err          (* hex::decode(..).unwrap() / mapped to an error *)
  end.

(* ------------------------------------------------------------------ hash types (impl_hash_type_macro.rs) *)
Definition hash_from_bytes (size : nat) (bs : bytes) : result bytes :=
  if (length bs =? size)%nat then
    let* s := slice_exn bs 0 size in Ok s           (* bytes[..N].try_into().unwrap() *)
  else Err.

(* bech32::convert_bits(data, 5, 8, false): regroup 5-bit symbols into bytes; the padding must be < 5 zero bits *)
Fixpoint flush8 (fuel : nat) (acc bits : N) (out : bytes) : N * bytes :=
  match fuel with
  | O => (bits, out)
  | S f => if 8 <=? bits then flush8 f acc (bits - 8) (out ++ [(acc / 2 ^ (bits - 8)) mod 256]) else (bits, out)
  end.
Fixpoint regroup58 (data : list N) (acc bits : N) (out : bytes) : option bytes :=
  match data with
  | [] => if (5 <=? bits) || negb ((acc * 2 ^ (8 - bits)) mod 256 =? 0) then None else Some out
  | v :: t =>
      if 32 <=? v then None
      else
        let acc' := (acc * 32 + v) mod 4294967296 in
        let '(bits', out') := flush8 2 acc' (bits + 5) out in
        regroup58 t acc' bits' out'
  end.
Definition from_base32 (u5 : list N) : option bytes := regroup58 u5 0 0 [].
Definition hash_from_bech32 (legacy : bool) (size : nat) (u5 : list N) : result bytes :=
  let* data := (match from_base32 u5 with
                | Some d => Ok d
                | None => if legacy then Panic else Err    (* from_base32(..).unwrap() / mapped to an error *)
                end) in
  hash_from_bytes size data.

(* ------------------------------------------------------------------ Bip32PrivateKey::from_128_xprv *)
(* result: the 96 bytes handed to Bip32PrivateKey::from_bytes (whose bit checks are external: ed25519-bip32) *)
Definition from_128_xprv (legacy : bool) (bs : bytes) : result bytes :=
  let* _ := (if legacy then Ok tt else if (length bs =? 128)%nat then Ok tt else Err) in
  let* a := slice_exn bs 0 64 in
  let* c := slice_exn bs 96 128 in
  Ok (a ++ c).

(* ------------------------------------------------------------------ negative-integer writer (Int / BigInt) *)
(* legacy: serializer.write_negative_integer(self.0 as i64) with cbor_event's `(-value - 1) as u64`;
   repaired: write_nint: argument = (-1 - value) as u64 *)
Definition write_nint (legacy : bool) (x : Z) : result bytes :=
  if legacy then
    let* n := neg_i64_exn (wrap_i64 x) in Ok (encode_head 1 (wrap_u64 (n - 1)))
  else Ok (encode_head 1 (wrap_u64 (-1 - x))).
(* Int::serialize for self.0 = x *)
Definition int_to_bytes (legacy : bool) (x : Z) : result bytes :=
  if (x <? 0)%Z then write_nint legacy x else Ok (encode_head 0 (wrap_u64 x)).
(* the CBOR encoding of an integer in -2^64 .. 2^64-1 *)
Definition int_cbor (x : Z) : bytes :=
  if (x <? 0)%Z then encode_head 1 (Z.to_N (-1 - x)) else encode_head 0 (Z.to_N x).

(* ------------------------------------------------------------------ metadata.rs encode_number *)
(* a JSON number that fits u64 is Int::new(x); one that fits i64 is Int::new_negative(|x|):
   legacy `-x as u64` (negation of an i64), repaired `x.unsigned_abs()`; result: the Int *)
Definition json_number_to_int (legacy : bool) (x : Z) : result Z :=
  if (0 <=? x)%Z && (x <? 18446744073709551616)%Z then Ok x
  else if (i64_min <=? x)%Z && (x <? 0)%Z then
    (if legacy then let* m := neg_i64_exn x in Ok (- (Z.of_N (wrap_u64 m)))%Z
     else Ok (- (Z.abs x))%Z)
  else Err.                                                      (* floats / out of range *)

(* ------------------------------------------------------------------ emip3.rs decrypt_with_password: slicing *)
(* data = salt(32) nonce(12) tag(16) ciphertext; [min_len_ok] = the guard (repaired: 60 bytes suffice) *)
Definition emip3_split (legacy : bool) (data : bytes) : result (bytes * bytes * bytes * bytes) :=
  let short := if legacy then (length data <=? 60)%nat else (length data <? 60)%nat in
  if short then Err else
  let* salt := slice_exn data 0 32 in
  let* nonce := slice_exn data 32 44 in
  let* tag := slice_exn data 44 60 in
  let* enc := slice_from_exn data 60 in
  Ok (salt, nonce, tag, enc).

(* ------------------------------------------------------------------ witness arrays: special value inside the loop *)
(* vkeywitnesses.rs / bootstrap_witnesses.rs: at an item position a major-7 byte must be the break, and a break
   ends an indefinite array only; legacy: assert_eq!(raw.special()?, Break).  [bs] starts at that byte. *)
Definition wit_special (legacy definite : bool) (bs : bytes) : result bytes :=
  match bs with
  | [] => Err
  | c :: t =>
      if c =? 255 then (if definite then Err else Ok t)
      else
        (* raw.special()? itself fails when the special needs argument bytes that are missing *)
        let complete := if c =? 248 then negb (is_nil t)
                        else if c =? 249 then (2 <=? length t)%nat
                        else if c =? 250 then (4 <=? length t)%nat
                        else if c =? 251 then (8 <=? length t)%nat else true in
        if complete then (if legacy then Panic else Err) else Err
  end.

(* ------------------------------------------------------------------ encode_json_str_to_native_script: schema dispatch *)
(* [wallet] = result of the wallet-schema encoder (external to this model) *)
Definition native_script_schema {A} (legacy : bool) (node_schema : bool) (wallet : result A) : result A :=
  if node_schema then (if legacy then todo_exn else Err) else wallet.

End Alloc.
