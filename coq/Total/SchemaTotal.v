(* C02, schema layer: the schema-directed decoder of Codec/Schema.v is total over a two-valued outcome
   for EVERY schema (well-formed or not) and EVERY input: it never answers Panic and its only fuelled loop
   (items until a break) never runs out of the fuel it is given. *)
From CSL Require Import Base.Prelude Cbor.Head Cbor.HeadProofs Codec.Schema Codec.SchemaProofs.
Local Open Scope N_scope.

(* a normal outcome: a value or an error value *)
Definition normal {A} (r : result A) : Prop :=
  match r with Ok _ | Err => True | Panic | OutOfFuel => False end.

Lemma normal_iff {A} (r : result A) : normal r <-> r <> Panic /\ r <> OutOfFuel.
Proof. destruct r; cbn; split; try tauto; try (intros [H1 H2]; congruence); intros _; split; discriminate. Qed.

Lemma normal_bind {A B} (r : result A) (f : A -> result B) :
  normal r -> (forall a, normal (f a)) -> normal (bind r f).
Proof. destruct r; cbn; auto; tauto. Qed.

Ltac norm_step :=
  first
    [ exact I
    | assumption
    | match goal with
      | |- normal (bind _ _) => apply normal_bind; [|intros [? ?]]
      | |- normal (if ?b then _ else _) => destruct b
      | |- normal (match ?x with _ => _ end) => destruct x
      | H : forall _, normal (?p _) |- normal (?p _) => apply H
      end ].
Ltac norm := repeat norm_step.

Lemma dec_head_m_normal m bs : normal (dec_head_m m bs).
Proof. unfold dec_head_m. norm. Qed.

Lemma take_bytes_normal n bs : normal (take_bytes n bs).
Proof. unfold take_bytes. norm. Qed.

Lemma dec_n_normal {A} (p : parser A) : (forall bs, normal (p bs)) -> forall n bs, normal (dec_n p n bs).
Proof.
  intros Hp. induction n as [|n IH]; intros bs; cbn [dec_n]; [exact I|].
  apply normal_bind; [apply Hp|]. intros [x r]. apply normal_bind; [apply IH|]. intros [xs r']. exact I.
Qed.

Lemma dec_counted_normal {A} (p : parser A) : (forall bs, normal (p bs)) -> forall n bs, normal (dec_counted p n bs).
Proof. intros Hp n bs. unfold dec_counted. destruct (_ <? _); [exact I|]. apply dec_n_normal, Hp. Qed.

Lemma dec_until_break_normal {A} (p : parser A) : (forall bs, normal (p bs)) ->
  forall fuel bs, (length bs < fuel)%nat -> normal (dec_until_break p fuel bs).
Proof.
  intros Hp. induction fuel as [|f IH]; intros bs Hf; [lia|]. cbn [dec_until_break].
  destruct bs as [|b r]; [exact I|]. destruct (b =? 255); [exact I|].
  apply normal_bind; [apply Hp|]. intros [x r'].
  destruct (length r' <? length (b :: r))%nat eqn:El; [|exact I].
  apply Nat.ltb_lt in El. apply normal_bind; [apply IH; lia|]. intros [xs r'']. exact I.
Qed.

Lemma dec_chunk_normal bs : normal (dec_chunk bs).
Proof.
  unfold dec_chunk. apply normal_bind; [apply dec_head_m_normal|]. intros [n r].
  destruct (n <=? 64); [apply take_bytes_normal|exact I].
Qed.

Definition NS (s : schema) : Prop := forall bs, normal (dec s bs).
Definition NSs (fs : slist) : Prop := forall bs, normal (dec_sl fs bs).
Definition NSk (fs : klist) : Prop := forall rem bs, normal (dec_kl fs rem bs).
Definition NSv (alts : vlist) : Prop := forall idx n pos bs, normal (dec_vl alts idx n pos bs).
Definition NSc (alts : clist) : Prop := forall d pos bs, normal (dec_cl alts d pos bs).

Local Hint Resolve dec_head_m_normal take_bytes_normal dec_chunk_normal : nrm.

Ltac nb := apply normal_bind; [auto with nrm|].

Lemma dec_normal_all :
  (forall s, NS s) /\ (forall fs, NSs fs) /\ (forall fs, NSk fs) /\ (forall a, NSv a) /\ (forall a, NSc a).
Proof.
  apply schema_mutind; unfold NS, NSs, NSk, NSv, NSc.
  - (* SUint *) intros lim bs. cbn [dec]. nb. intros [n r]. destruct (n <? lim); exact I.
  - (* SNint *) intros bs. cbn [dec]. nb. intros [n r]. exact I.
  - (* SBytes *) intros lo hi bs. cbn [dec]. nb. intros [n r]. destruct (_ && _); [|exact I]. nb. intros [b r']. exact I.
  - (* SText *) intros hi bs. cbn [dec]. nb. intros [n r]. destruct (_ <=? _); [|exact I]. nb. intros [b r']. exact I.
  - (* SBool *) intros bs. cbn [dec]. destruct bs as [|b r]; [exact I|]. destruct (b =? 244); [exact I|]. destruct (b =? 245); exact I.
  - (* SArr *) intros fs IH bs. cbn [dec]. nb. intros [n r]. destruct (_ =? _); [|exact I].
    apply normal_bind; [apply IH|]. intros [l r']. exact I.
  - (* SMap *) intros fs IH bs. cbn [dec]. nb. intros [n r]. apply normal_bind; [apply IH|]. intros [[l rem] r'].
    destruct (rem =? 0); exact I.
  - (* SVar *) intros alts IH bs. cbn [dec]. nb. intros [n r]. nb. intros [idx r']. apply IH.
  - (* SArrOf *) intros lo s IH bs. cbn [dec]. nb. intros [n r]. destruct (lo <=? n); [|exact I].
    apply normal_bind; [apply dec_counted_normal, IH|]. intros [l r']. exact I.
  - (* SSetOf *) intros s IH bs. cbn [dec]. nb. intros [t r0]. destruct (t =? 258); [|exact I]. nb. intros [n r].
    apply normal_bind; [apply dec_counted_normal, IH|]. intros [l r']. exact I.
  - (* SMapOf *) intros lo ord k IHk v IHv bs. cbn [dec]. nb. intros [n r]. destruct (lo <=? n); [|exact I].
    apply normal_bind; [|intros [l r']; exact I]. apply dec_counted_normal. intros b.
    apply normal_bind; [apply IHk|]. intros [x b1]. apply normal_bind; [apply IHv|]. intros [y b2]. exact I.
  - (* SNullable *) intros s IH bs. cbn [dec]. destruct bs as [|b r]; [exact I|]. destruct (b =? 246); [exact I|apply IH].
  - (* STag *) intros t s IH bs. cbn [dec]. nb. intros [t' r]. destruct (t' =? t); [apply IH|exact I].
  - (* SInBytes *) intros s IH bs. cbn [dec]. nb. intros [n r]. nb. intros [b r'].
    specialize (IH b). destruct (dec s b) as [[v [|? ?]]| | |]; try exact I.
  - (* SChoice *) intros alts IH bs. cbn [dec]. destruct (peek_major bs); [apply IH|exact I].
  - (* STagChoice *) intros alts IH bs. cbn [dec]. nb. intros [t r]. apply IH.
  - (* SArrAny *) intros s IH bs. cbn [dec]. destruct (decode_head bs) as [[[m [n|]] r]|]; [| |exact I].
    + destruct (m =? 4); [|exact I]. apply normal_bind; [apply dec_counted_normal, IH|]. intros [l r']. exact I.
    + destruct (m =? 4); [|exact I]. apply normal_bind; [apply dec_until_break_normal; [exact IH|lia]|]. intros [l r']. exact I.
  - (* SBBytes *) intros bs. cbn [dec]. destruct (decode_head bs) as [[[m [n|]] r]|]; [| |exact I].
    + destruct (_ && _); [|exact I]. nb. intros [b r']. exact I.
    + destruct (m =? 2); [|exact I].
      apply normal_bind; [apply dec_until_break_normal; [exact dec_chunk_normal|lia]|]. intros [l r']. exact I.
  - (* SNamed *) intros id s IH bs. cbn [dec]. apply IH.
  - (* SArrOpt *) intros fs IHfs o IHo bs. cbn [dec]. nb. intros [n r]. destruct (n =? slen fs).
    + apply normal_bind; [apply IHfs|]. intros [l r']. exact I.
    + destruct (n =? 1 + slen fs); [|exact I]. apply normal_bind; [apply IHfs|]. intros [l r1].
      apply normal_bind; [apply IHo|]. intros [x r2]. exact I.
  - (* SNil *) intros bs. exact I.
  - (* SCons *) intros s IH r IHr bs. cbn [dec_sl]. apply normal_bind; [apply IH|]. intros [v b1].
    apply normal_bind; [apply IHr|]. intros [l b2]. exact I.
  - (* KNil *) intros rem bs. exact I.
  - (* KCons *) intros k p s IH r IHr rem bs. cbn [dec_kl].
    match goal with |- normal (match ?h with _ => _ end) => destruct h as [b1|] end.
    + apply normal_bind; [apply IH|]. intros [v b2]. destruct (match p with OptNE => is_empty_val v | _ => false end); [exact I|].
      apply normal_bind; [apply IHr|]. intros [[l rem'] b3]. exact I.
    + destruct p; [exact I| |]; (apply normal_bind; [apply IHr|]; intros [[l rem'] b3]; exact I).
  - (* ANil *) intros idx n pos bs. exact I.
  - (* ACons *) intros i fs IH r IHr idx n pos bs. cbn [dec_vl]. destruct (idx =? i); [|apply IHr].
    destruct (_ =? _); [|exact I]. apply normal_bind; [apply IH|]. intros [l b1]. exact I.
  - (* CNil *) intros d pos bs. exact I.
  - (* CCons *) intros d s IH r IHr disc pos bs. cbn [dec_cl]. destruct (disc =? d); [|apply IHr].
    apply normal_bind; [apply IH|]. intros [v b1]. exact I.
Qed.

Theorem schema_dec_normal s bs : normal (dec s bs).
Proof. exact (proj1 dec_normal_all s bs). Qed.

Theorem schema_dec_total s bs : dec s bs <> Panic /\ dec s bs <> OutOfFuel.
Proof. apply normal_iff, schema_dec_normal. Qed.
