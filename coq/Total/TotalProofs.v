(* C02: totality / guard sufficiency of the hand models of Total/Decoders.v.
   For the repaired code ([legacy = false]) every decoder returns a value or an error on EVERY input: none of its own
   partial operations (index, slice, unwrap, assert, i64 negation, todo) is reachable and no fuelled loop runs dry.
   The theorems about decoders that read byte strings through cbor_event are stated for the allocator that never
   refuses ([lim = None]); with the real allocator the allocation of a declared length is the one remaining source
   of Panic (lemma [ce_bytes_panic_iff], known finding C02-huge-declared-length).
   For the code as it was ([legacy = true]) each panic is exhibited by a witness ([*_refuted]). *)
From CSL Require Import Base.Prelude Base.Hex Cbor.Head Cbor.HeadProofs Total.Partial Total.Decoders Total.SchemaTotal.
Local Open Scope N_scope.

Ltac nstep :=
  match goal with
  | |- normal (Ok _) => exact I
  | |- normal Err => exact I
  | |- normal (bind _ _) => apply normal_bind; [|intro]
  | |- normal (match ?x with _ => _ end) => destruct x
  | |- normal (if ?b then _ else _) => destruct b
  end.

(* ------------------------------------------------------------------ partial primitives: when they are safe *)
Lemma slice_exn_ok bs lo hi : (lo <= hi)%nat -> (hi <= length bs)%nat ->
  slice_exn bs lo hi = Ok (firstn (hi - lo) (skipn lo bs)).
Proof.
  intros H1 H2. unfold slice_exn.
  destruct (lo <=? hi)%nat eqn:E1; [|apply Nat.leb_gt in E1; lia].
  destruct (hi <=? length bs)%nat eqn:E2; [reflexivity|apply Nat.leb_gt in E2; lia].
Qed.
Lemma slice_from_exn_ok bs lo : (lo <= length bs)%nat -> slice_from_exn bs lo = Ok (skipn lo bs).
Proof. intros H. unfold slice_from_exn. destruct (lo <=? length bs)%nat eqn:E; [reflexivity|apply Nat.leb_gt in E; lia]. Qed.

(* ------------------------------------------------------------------ cbor_event primitives *)
Lemma ce_head_normal m bs : normal (ce_head m bs).
Proof.
  unfold ce_head. destruct bs as [|b t]; [exact I|]. destruct (_ =? _); [|exact I].
  destruct (decode_head (b :: t)) as [[[? ?] ?]|]; exact I.
Qed.
Lemma ce_uint_normal bs : normal (ce_uint bs).
Proof. unfold ce_uint. apply normal_bind; [apply ce_head_normal|]. intros [[n|] r]; exact I. Qed.
Lemma ce_tag_normal bs : normal (ce_tag bs).
Proof. unfold ce_tag. apply normal_bind; [apply ce_head_normal|]. intros [[n|] r]; exact I. Qed.
Lemma ce_array_normal bs : normal (ce_array bs).  Proof. apply ce_head_normal. Qed.
Lemma ce_map_normal bs : normal (ce_map bs).  Proof. apply ce_head_normal. Qed.

Lemma ce_chunks_normal : forall fuel bs acc, (length bs < fuel)%nat -> normal (ce_chunks fuel bs acc).
Proof.
  induction fuel as [|f IH]; intros bs acc Hf; [lia|]. cbn [ce_chunks].
  destruct bs as [|c t]; [exact I|]. destruct (c / 32 =? 7); [destruct (c mod 32 =? 31); exact I|].
  destruct (c / 32 =? 2); [|exact I].
  destruct (decode_head (c :: t)) as [[[m [n|]] r]|] eqn:E; try exact I.
  apply IH. pose proof (decode_head_shorter _ _ _ _ E). rewrite skipn_length. lia.
Qed.

Lemma ce_bytes_normal bs : normal (ce_bytes None bs).
Proof.
  unfold ce_bytes. apply normal_bind; [apply ce_head_normal|]. intros [[n|] r].
  - cbn [alloc_lim bind]. destruct (n <=? blen r); exact I.
  - apply ce_chunks_normal. lia.
Qed.

(* with the real allocator the allocation is the only way to Panic, and exactly when the declared length exceeds isize::MAX *)
Lemma ce_bytes_panic_iff lim bs :
  ce_bytes (Some lim) bs = Panic <-> exists m n r, decode_head bs = Some (m, Arg n, r) /\ m = 2 /\ lim < n.
Proof.
  unfold ce_bytes, ce_head. destruct bs as [|b t].
  - cbn. split; [discriminate|]. intros (m & n & r & E & _). discriminate.
  - destruct (b / 32 =? 2) eqn:Em.
    + destruct (decode_head (b :: t)) as [[[m [n|]] r]|] eqn:E; cbn [bind alloc_lim].
      * assert (m = 2) as ->.
        { unfold decode_head in E. apply N.eqb_eq in Em.
          repeat match type of E with
                 | (if ?c then _ else _) = _ => destruct c
                 | match ?c with _ => _ end = _ => destruct c as [[? ?]|]
                 end; try discriminate; injection E as <- _ _; exact Em. }
        destruct (n <=? lim) eqn:El; cbn [bind].
        -- split; [destruct (n <=? blen r); discriminate|]. intros (m & n' & r' & E' & _ & H). injection E' as _ <- _. lia.
        -- split; [intros _; exists 2, n, r; repeat split; lia|reflexivity].
      * split.
        -- intros H. exfalso. pose proof (ce_chunks_normal (S (length r)) r [] ltac:(lia)) as Hn. rewrite H in Hn. exact Hn.
        -- intros (m' & n & r' & E' & _). discriminate.
      * split; [discriminate|]. intros (m' & n & r' & E' & _). discriminate.
    + cbn. split; [discriminate|]. intros (m & n & r & E & -> & _).
      unfold decode_head in E. apply N.eqb_neq in Em.
      repeat match type of E with
             | (if ?c then _ else _) = _ => destruct c
             | match ?c with _ => _ end = _ => destruct c as [[? ?]|]
             end; try discriminate; injection E as E1 _ _; congruence.
Qed.

(* ------------------------------------------------------------------ Byron addresses *)
Lemma raw_with_crc32_normal bs : normal (raw_with_crc32 None false bs).
Proof.
  unfold raw_with_crc32. apply normal_bind; [apply ce_array_normal|]. intros [len r].
  apply normal_bind; [destruct (match len with Arg n => n =? 2 | Indef => false end); exact I|]. intros _.
  apply normal_bind; [apply ce_tag_normal|]. intros [t r1]. destruct (negb _); [exact I|].
  apply normal_bind; [apply ce_bytes_normal|]. intros [b r2].
  apply normal_bind; [apply ce_uint_normal|]. intros [crc r3]. destruct (_ =? _); exact I.
Qed.

Lemma attrs_loop_normal : forall k bs dp magic, normal (attrs_loop None k bs dp magic).
Proof.
  induction k as [|k IH]; intros bs dp magic; cbn [attrs_loop]; [exact I|].
  apply normal_bind; [apply ce_uint_normal|]. intros [key r].
  destruct (key =? 1).
  - apply normal_bind; [apply ce_bytes_normal|]. intros [b r']. apply IH.
  - destruct (key =? 2); [|exact I].
    apply normal_bind; [apply ce_bytes_normal|]. intros [b r'].
    apply normal_bind; [apply ce_uint_normal|]. intros [n ?]. destruct (_ <? _); [exact I|apply IH].
Qed.

Lemma attrs_dec_normal bs : normal (attrs_dec None bs).
Proof.
  unfold attrs_dec. apply normal_bind; [apply ce_map_normal|]. intros [[n|] r]; [|exact I].
  apply normal_bind; [apply attrs_loop_normal|]. intros [[dp magic] r']. destruct (_ <? _); exact I.
Qed.

Lemma ext_addr_dec_normal bs : normal (ext_addr_dec None false bs).
Proof.
  unfold ext_addr_dec. apply normal_bind; [apply raw_with_crc32_normal|]. intros [inner rest].
  apply normal_bind; [apply ce_array_normal|]. intros [len i1].
  destruct len as [n|]; [|exact I].
  destruct n as [|p]; [exact I|]. destruct p as [[p|p|]|p|]; try exact I.
  apply normal_bind; [apply ce_bytes_normal|]. intros [ab i2]. destruct (negb _); [exact I|].
  apply normal_bind; [apply attrs_dec_normal|]. intros [[dp magic] i3].
  apply normal_bind; [apply ce_uint_normal|]. intros [ty ?]. destruct (_ <? _); exact I.
Qed.

Theorem byron_from_bytes_normal bs : normal (byron_from_bytes None false bs).
Proof.
  unfold byron_from_bytes. apply normal_bind; [apply ext_addr_dec_normal|]. intros [ea rest]. destruct (is_nil rest); exact I.
Qed.

(* ------------------------------------------------------------------ addresses *)
Lemma varnat_loop_bound : forall bs acc rd v k,
  varnat_decode_loop bs acc rd = Some (v, k) -> (rd < k /\ k <= rd + length bs)%nat.
Proof.
  induction bs as [|b t IH]; intros acc rd v k H; cbn [varnat_decode_loop] in H; [discriminate|].
  destruct (two64 <=? _); [discriminate|]. destruct (b / 128 =? 0).
  - injection H as _ <-. cbn [length]. lia.
  - apply IH in H. cbn [length]. lia.
Qed.
Lemma varnat_decode_bound bs v k : varnat_decode bs = Some (v, k) -> (1 <= k <= length bs)%nat.
Proof. intros H. apply varnat_loop_bound in H. lia. Qed.

Lemma decode_pointer_normal data : normal (decode_pointer data).
Proof.
  unfold decode_pointer. destruct (varnat_decode data) as [[slot o1]|] eqn:E1; [|exact I].
  apply varnat_decode_bound in E1. rewrite slice_from_exn_ok by lia. cbn [bind].
  destruct (varnat_decode (skipn o1 data)) as [[tx o2]|] eqn:E2; [|exact I].
  apply varnat_decode_bound in E2. rewrite skipn_length in E2. rewrite slice_from_exn_ok by lia. cbn [bind].
  destruct (varnat_decode _) as [[cert o3]|]; exact I.
Qed.

Theorem addr_from_bytes_normal ign data : normal (addr_from_bytes None false ign data).
Proof.
  unfold addr_from_bytes. destruct data as [|h t]; [exact I|]. cbn [is_nil bind index_exn nth_error].
  set (data := h :: t).
  assert (Hc : forall bit pos, (pos + 28 <= length data)%nat ->
               (let* h0 := slice_exn data pos (pos + 28) in Ok (N.odd (h / bit), h0)) =
               Ok (N.odd (h / bit), firstn 28 (skipn pos data))).
  { intros bit pos Hp. rewrite slice_exn_ok by lia. cbn [bind]. do 3 f_equal. lia. }
  destruct (h / 16 <? 4).
  { destruct (length data <? 57)%nat eqn:E1; [exact I|]. apply Nat.ltb_ge in E1.
    destruct (_ && _); [exact I|]. rewrite !Hc by lia. exact I. }
  destruct (h / 16 <? 6).
  { destruct (length data <? 32)%nat eqn:E1; [exact I|]. apply Nat.ltb_ge in E1.
    rewrite Hc by lia. cbn [bind]. rewrite slice_from_exn_ok by lia. cbn [bind].
    apply normal_bind; [apply decode_pointer_normal|]. intros [[[slot tx] cert] off]. destruct (_ && _); exact I. }
  destruct (h / 16 <? 8).
  { destruct (length data <? 29)%nat eqn:E1; [exact I|]. apply Nat.ltb_ge in E1.
    destruct (_ && _); [exact I|]. rewrite Hc by lia. exact I. }
  destruct (h / 16 =? 8).
  { apply normal_bind; [apply byron_from_bytes_normal|]. intros ea. exact I. }
  destruct (_ || _); [|exact I].
  destruct (length data <? 29)%nat eqn:E1; [exact I|]. apply Nat.ltb_ge in E1.
  destruct (_ && _); [exact I|]. rewrite Hc by lia. exact I.
Qed.

Theorem address_from_bytes_normal data : normal (address_from_bytes None false data).
Proof. unfold address_from_bytes. apply normal_bind; [apply addr_from_bytes_normal|]. intros a. exact I. Qed.

Lemma addr_unsafe_normal data : normal (addr_unsafe None false data).
Proof. unfold addr_unsafe. pose proof (addr_from_bytes_normal true data) as H. destruct (addr_from_bytes _ _ _ _); try exact I; exact H. Qed.
(* from_bytes_impl_unsafe never fails: every byte string is an address (possibly Malformed) *)
Lemma addr_unsafe_ok data : exists a, addr_unsafe None false data = Ok a.
Proof.
  unfold addr_unsafe. pose proof (addr_from_bytes_normal true data) as H.
  destruct (addr_from_bytes _ _ _ _); try contradiction; eexists; reflexivity.
Qed.
Lemma addr_deserialize_normal bs : normal (addr_deserialize None false bs).
Proof.
  unfold addr_deserialize. apply normal_bind; [apply ce_bytes_normal|]. intros [b r].
  apply normal_bind; [apply addr_unsafe_normal|]. intros a. exact I.
Qed.

(* ------------------------------------------------------------------ legacy output *)
Theorem third_element_normal r2 : normal (third_element None false r2).
Proof.
  unfold third_element. destruct r2 as [|b0 t]; [exact I|]. destruct (_ =? _); [|exact I].
  apply normal_bind; [apply ce_bytes_normal|]. intros [b r3]. destruct (_ =? _)%nat; exact I.
Qed.

Theorem legacy_output_normal {V} (dv : bytes -> result (V * bytes)) :
  (forall b, normal (dv b)) -> forall bs, normal (legacy_output None dv false bs).
Proof.
  intros Hv bs. unfold legacy_output. apply normal_bind; [apply ce_array_normal|]. intros [len r0].
  apply normal_bind; [apply addr_deserialize_normal|]. intros [a r1].
  apply normal_bind; [apply Hv|]. intros [v r2].
  cbv iota. apply normal_bind; [destruct (match len with Arg n => 2 <? n | Indef => true end); [apply third_element_normal|exact I]|]. intros [h r3].
  apply normal_bind; [destruct len as [n|]; [destruct (n =? _); exact I|exact I]|]. intros _.
  destruct len; [exact I|]. destruct r3 as [|c t]; [exact I|]. destruct (c =? 255); exact I.
Qed.

(* ------------------------------------------------------------------ bounded bytes *)
Lemma bb_chunks_normal : forall fuel bs acc, (length bs < fuel)%nat -> normal (bb_chunks fuel bs acc).
Proof.
  induction fuel as [|f IH]; intros bs acc Hf; [lia|]. cbn [bb_chunks].
  destruct bs as [|c t]; [exact I|]. destruct (c / 32 =? 7); [destruct (c =? 255); exact I|].
  destruct (c / 32 =? 2); [|exact I].
  destruct (decode_head (c :: t)) as [[[m [n|]] r]|] eqn:E; try exact I.
  destruct (64 <? n); [exact I|].
  apply IH. pose proof (decode_head_shorter _ _ _ _ E). rewrite skipn_length. lia.
Qed.

Theorem read_bounded_bytes_normal bs : normal (read_bounded_bytes None bs).
Proof.
  unfold read_bounded_bytes. destruct bs as [|b0 t]; [exact I|]. destruct (negb _); [exact I|].
  destruct (decode_head (b0 :: t)) as [[[m [n|]] r]|]; [| |exact I].
  - apply normal_bind; [apply ce_bytes_normal|]. intros [b r']. destruct (_ <? _)%nat; exact I.
  - apply bb_chunks_normal. lia.
Qed.

(* ------------------------------------------------------------------ from_hex *)
Theorem from_hex_normal {A} (p : bytes -> result A) : (forall bs, normal (p bs)) -> forall cs, normal (from_hex_with false p cs).
Proof. intros Hp cs. unfold from_hex_with. destruct (unhex cs); [apply Hp|exact I]. Qed.

(* ------------------------------------------------------------------ hash types *)
Theorem hash_from_bytes_normal size bs : normal (hash_from_bytes size bs).
Proof.
  unfold hash_from_bytes. destruct (length bs =? size)%nat eqn:E; [|exact I]. apply Nat.eqb_eq in E.
  rewrite slice_exn_ok by lia. exact I.
Qed.
(* and the value is the input itself *)
Lemma hash_from_bytes_ok size bs : length bs = size -> hash_from_bytes size bs = Ok bs.
Proof.
  intros E. unfold hash_from_bytes. rewrite (proj2 (Nat.eqb_eq _ _) E). rewrite slice_exn_ok by lia.
  cbn [bind skipn]. rewrite Nat.sub_0_r, <- E, firstn_all. reflexivity.
Qed.
Theorem hash_from_bech32_normal size u5 : normal (hash_from_bech32 false size u5).
Proof.
  unfold hash_from_bech32. destruct (from_base32 u5); cbn [bind]; [apply hash_from_bytes_normal|exact I].
Qed.

(* ------------------------------------------------------------------ from_128_xprv *)
Theorem from_128_xprv_normal bs : normal (from_128_xprv false bs).
Proof.
  unfold from_128_xprv. destruct (length bs =? 128)%nat eqn:E; [|exact I]. apply Nat.eqb_eq in E.
  cbn [bind]. rewrite !slice_exn_ok by lia. exact I.
Qed.
Lemma slice_exn_length bs lo hi s : slice_exn bs lo hi = Ok s -> length s = (hi - lo)%nat.
Proof.
  unfold slice_exn. destruct (_ && _) eqn:E; [|discriminate]. apply andb_prop in E. destruct E as [E1 E2].
  apply Nat.leb_le in E1. apply Nat.leb_le in E2. intros H. injection H as <-.
  rewrite firstn_length, skipn_length. lia.
Qed.
Lemma from_128_xprv_len bs out : from_128_xprv false bs = Ok out -> length out = 96%nat.
Proof.
  unfold from_128_xprv. destruct (length bs =? 128)%nat; [|discriminate]. cbn [bind].
  destruct (slice_exn bs 0 64) as [a| | |] eqn:E1; try discriminate. cbn [bind].
  destruct (slice_exn bs 96 128) as [c| | |] eqn:E2; try discriminate. cbn [bind].
  intros H. injection H as <-.
  rewrite app_length, (slice_exn_length _ _ _ _ E1), (slice_exn_length _ _ _ _ E2). reflexivity.
Qed.

(* ------------------------------------------------------------------ negative-integer writer *)
Theorem write_nint_normal x : normal (write_nint false x).
Proof. exact I. Qed.
Theorem int_to_bytes_normal x : normal (int_to_bytes false x).
Proof. unfold int_to_bytes. destruct (x <? 0)%Z; exact I. Qed.

(* the repaired writer emits the CBOR encoding of the integer on the whole CBOR int range *)
Theorem int_to_bytes_correct x : (- 18446744073709551616 <= x < 18446744073709551616)%Z ->
  int_to_bytes false x = Ok (int_cbor x).
Proof.
  intros H. unfold int_to_bytes, int_cbor, write_nint, wrap_u64. destruct (x <? 0)%Z eqn:E.
  - apply Z.ltb_lt in E. do 3 f_equal. rewrite Z.mod_small by lia. reflexivity.
  - apply Z.ltb_ge in E. do 3 f_equal. rewrite Z.mod_small by lia. reflexivity.
Qed.

(* the old writer panics exactly at -2^63 on that range, and agrees with the repaired one everywhere else *)
Theorem write_nint_legacy_panics_iff x : (- 18446744073709551616 <= x < 0)%Z ->
  write_nint true x = Panic <-> x = i64_min.
Proof.
  intros H. unfold write_nint, neg_i64_exn, wrap_i64, i64_min.
  destruct (_ =? _)%Z eqn:E; cbn [bind].
  - apply Z.eqb_eq in E. split; [intros _|reflexivity]. lia.
  - apply Z.eqb_neq in E. split; [discriminate|]. intros ->. exfalso. apply E. reflexivity.
Qed.
Theorem write_nint_legacy_agrees x : (- 18446744073709551616 <= x < 0)%Z -> x <> i64_min ->
  write_nint true x = write_nint false x.
Proof.
  intros H Hx. unfold write_nint, neg_i64_exn, wrap_i64, wrap_u64, i64_min in *.
  destruct (_ =? _)%Z eqn:E; cbn [bind].
  - apply Z.eqb_eq in E. exfalso. lia.
  - do 3 f_equal. lia.
Qed.

(* ------------------------------------------------------------------ JSON number encoder *)
Theorem json_number_normal x : normal (json_number_to_int false x).
Proof. unfold json_number_to_int. destruct (_ && _); [exact I|]. destruct (_ && _); exact I. Qed.
(* the repaired encoder is the identity on the numbers it accepts *)
Theorem json_number_correct x v : json_number_to_int false x = Ok v -> v = x.
Proof.
  unfold json_number_to_int. destruct (_ && _) eqn:E1; cbv iota; [intros H; congruence|].
  destruct ((i64_min <=? x)%Z && (x <? 0)%Z) eqn:E2; cbv iota; [|discriminate]. intros H. unfold i64_min in E2.
  assert (v = - Z.abs x)%Z by congruence. lia.
Qed.
Theorem json_number_legacy_panics_iff x : json_number_to_int true x = Panic <-> x = i64_min.
Proof.
  unfold json_number_to_int, neg_i64_exn.
  destruct ((0 <=? x)%Z && (x <? 18446744073709551616)%Z) eqn:E1; cbv iota.
  - split; [discriminate|]. intros ->. vm_compute in E1. discriminate.
  - destruct ((i64_min <=? x)%Z && (x <? 0)%Z) eqn:E2; cbv iota.
    + destruct (x =? i64_min)%Z eqn:E; cbn [bind].
      * apply Z.eqb_eq in E. split; [intros _; exact E|reflexivity].
      * apply Z.eqb_neq in E. split; [discriminate|contradiction].
    + split; [discriminate|]. intros ->. vm_compute in E2. discriminate.
Qed.

(* ------------------------------------------------------------------ EMIP-3 container *)
Theorem emip3_split_normal data : normal (emip3_split false data).
Proof.
  unfold emip3_split. destruct (length data <? 60)%nat eqn:E; [exact I|]. apply Nat.ltb_ge in E.
  rewrite !slice_exn_ok by lia. cbn [bind]. rewrite slice_from_exn_ok by lia. exact I.
Qed.
(* the stricter old guard was sufficient as well (its defect was rejecting the 60-byte container, not a panic) *)
Theorem emip3_split_legacy_normal data : normal (emip3_split true data).
Proof.
  unfold emip3_split. destruct (length data <=? 60)%nat eqn:E; [exact I|]. apply Nat.leb_gt in E.
  rewrite !slice_exn_ok by lia. cbn [bind]. rewrite slice_from_exn_ok by lia. exact I.
Qed.
Lemma skipn_skipn' {A} : forall b a (l : list A), skipn a (skipn b l) = skipn (b + a) l.
Proof.
  induction b as [|b IH]; intros a l; [reflexivity|]. destruct l as [|x l]; [now rewrite !skipn_nil|].
  cbn [skipn Nat.add]. apply IH.
Qed.
(* the parts are a partition of the container *)
Theorem emip3_split_parts data s n t e : emip3_split false data = Ok (s, n, t, e) -> data = s ++ n ++ t ++ e.
Proof.
  unfold emip3_split. destruct (length data <? 60)%nat eqn:E; [discriminate|]. apply Nat.ltb_ge in E.
  rewrite !slice_exn_ok by lia. cbn [bind]. rewrite slice_from_exn_ok by lia. cbn [bind].
  intros H. injection H as <- <- <- <-. cbn [skipn Nat.sub].
  rewrite <- (firstn_skipn 32 data) at 1. f_equal.
  rewrite <- (firstn_skipn 12 (skipn 32 data)) at 1. f_equal.
  rewrite skipn_skipn'. change (32 + 12)%nat with 44%nat.
  rewrite <- (firstn_skipn 16 (skipn 44 data)) at 1. f_equal.
  rewrite skipn_skipn'. reflexivity.
Qed.

(* ------------------------------------------------------------------ witness arrays, native script schema *)
Theorem wit_special_normal definite bs : normal (wit_special false definite bs).
Proof.
  unfold wit_special. destruct bs as [|c t]; [exact I|]. destruct (c =? 255); [destruct definite; exact I|].
  match goal with |- normal (if ?c then _ else _) => destruct c end; exact I.
Qed.
Theorem native_script_schema_normal {A} node (w : result A) : normal w -> normal (native_script_schema false node w).
Proof. intros H. unfold native_script_schema. destruct node; [exact I|exact H]. Qed.

(* ------------------------------------------------------------------ the code as it was: every panic has a witness *)
Definition ff8 : bytes := [255; 255; 255; 255; 255; 255; 255; 255].

Theorem legacy_panics_refuted :
  addr_from_bytes None true false [] = Panic /\                                   (* row 1: data[0] on empty input *)
  (exists p : bytes -> result unit, from_hex_with true p [122; 122] = Panic) /\   (* row 2: from_hex("zz") *)
  byron_from_bytes None true [129; 0] = Panic /\                                  (* row 3: assert!(len == 2) *)
  third_element None true [88; 32; 1; 2; 3] = Panic /\                            (* row 4: truncated data hash *)
  from_128_xprv true [] = Panic /\                                                (* row 5 *)
  int_to_bytes true i64_min = Panic /\                                            (* row 6: Int(-2^63) *)
  hash_from_bech32 true 28 [31] = Panic /\                                        (* row 22: invalid padding *)
  json_number_to_int true i64_min = Panic /\                                      (* row 26 *)
  wit_special true true [246] = Panic /\                                          (* assert_eq!(special, Break) *)
  native_script_schema true true (Err : result unit) = Panic.                     (* todo!() *)
Proof. repeat split; try (vm_compute; reflexivity). exists (fun _ => Err). vm_compute. reflexivity. Qed.

(* the allocation of a declared length: reachable in the code as it is (dependency), through every reader of byte strings *)
Theorem huge_length_refuted :
  ce_bytes real_alloc (91 :: ff8) = Panic /\
  byron_from_bytes real_alloc false ([130; 216; 24; 91] ++ ff8 ++ [0]) = Panic /\
  third_element real_alloc false (91 :: ff8) = Panic /\
  read_bounded_bytes real_alloc (91 :: ff8) = Panic.
Proof. repeat split; vm_compute; reflexivity. Qed.

(* ------------------------------------------------------------------ the real allocator only ever adds panics *)
(* [refines r' r]: r' is r, or r' is a Panic.  With [lim = Some l] every decoder refines its [lim = None] version: the
   allocation of a declared length is the ONLY panic of the current code's models (all of which are total at None). *)
Definition refines {A} (r' r : result A) : Prop := r' = r \/ r' = Panic.

Lemma refines_refl {A} (r : result A) : refines r r.  Proof. left. reflexivity. Qed.
Lemma refines_bind {A B} (r' r : result A) (f' f : A -> result B) :
  refines r' r -> (forall a, refines (f' a) (f a)) -> refines (bind r' f') (bind r f).
Proof.
  intros [H|H] Hf; rewrite H; [|right; reflexivity]. destruct r as [a| | |]; cbn [bind]; [apply Hf| | |]; apply refines_refl.
Qed.
Lemma refines_total {A} (r' r : result A) : refines r' r -> normal r -> r' <> Panic -> normal r'.
Proof. intros [H|H] Hn Hp; [rewrite H; exact Hn|contradiction]. Qed.

Ltac rstep :=
  match goal with
  | |- refines ?x ?x => apply refines_refl
  | |- refines (bind _ _) (bind _ _) => apply refines_bind; [|intro]
  | |- refines (match ?x with _ => _ end) (match ?x with _ => _ end) => destruct x
  | |- refines (if ?b then _ else _) (if ?b then _ else _) => destruct b
  end.

Lemma ce_bytes_refines l bs : refines (ce_bytes (Some l) bs) (ce_bytes None bs).
Proof.
  unfold ce_bytes. apply refines_bind; [apply refines_refl|]. intros [[n|] r]; [|apply refines_refl].
  cbn [alloc_lim]. destruct (n <=? l); cbn [bind]; [apply refines_refl|right; reflexivity].
Qed.

Lemma raw_with_crc32_refines l legacy bs : refines (raw_with_crc32 (Some l) legacy bs) (raw_with_crc32 None legacy bs).
Proof.
  unfold raw_with_crc32. apply refines_bind; [apply refines_refl|]. intros [len r].
  apply refines_bind; [apply refines_refl|]. intros _.
  apply refines_bind; [apply refines_refl|]. intros [t r1]. destruct (negb _); [apply refines_refl|].
  apply refines_bind; [apply ce_bytes_refines|]. intros [b r2]. apply refines_refl.
Qed.

Lemma attrs_loop_refines l : forall k bs dp magic, refines (attrs_loop (Some l) k bs dp magic) (attrs_loop None k bs dp magic).
Proof.
  induction k as [|k IH]; intros bs dp magic; cbn [attrs_loop]; [apply refines_refl|].
  apply refines_bind; [apply refines_refl|]. intros [key r]. destruct (key =? 1).
  - apply refines_bind; [apply ce_bytes_refines|]. intros [b r']. apply IH.
  - destruct (key =? 2); [|apply refines_refl].
    apply refines_bind; [apply ce_bytes_refines|]. intros [b r'].
    apply refines_bind; [apply refines_refl|]. intros [n ?]. destruct (_ <? _); [apply refines_refl|apply IH].
Qed.

Lemma attrs_dec_refines l bs : refines (attrs_dec (Some l) bs) (attrs_dec None bs).
Proof.
  unfold attrs_dec. apply refines_bind; [apply refines_refl|]. intros [[n|] r]; [|apply refines_refl].
  apply refines_bind; [apply attrs_loop_refines|]. intros [[dp magic] r']. apply refines_refl.
Qed.

Lemma ext_addr_dec_refines l legacy bs : refines (ext_addr_dec (Some l) legacy bs) (ext_addr_dec None legacy bs).
Proof.
  unfold ext_addr_dec. apply refines_bind; [apply raw_with_crc32_refines|]. intros [inner rest].
  apply refines_bind; [apply refines_refl|]. intros [len i1]. destruct len as [n|]; [|apply refines_refl].
  destruct n as [|p]; [apply refines_refl|]. destruct p as [[p|p|]|p|]; try apply refines_refl.
  apply refines_bind; [apply ce_bytes_refines|]. intros [ab i2]. destruct (negb _); [apply refines_refl|].
  apply refines_bind; [apply attrs_dec_refines|]. intros [[dp magic] i3]. apply refines_refl.
Qed.

Lemma byron_from_bytes_refines l legacy bs : refines (byron_from_bytes (Some l) legacy bs) (byron_from_bytes None legacy bs).
Proof. unfold byron_from_bytes. apply refines_bind; [apply ext_addr_dec_refines|]. intros [ea rest]. apply refines_refl. Qed.

Lemma addr_from_bytes_refines l legacy ign data :
  refines (addr_from_bytes (Some l) legacy ign data) (addr_from_bytes None legacy ign data).
Proof.
  unfold addr_from_bytes. apply refines_bind; [apply refines_refl|]. intros _.
  apply refines_bind; [apply refines_refl|]. intros h.
  destruct (h / 16 <? 4); [apply refines_refl|]. destruct (h / 16 <? 6); [apply refines_refl|].
  destruct (h / 16 <? 8); [apply refines_refl|]. destruct (h / 16 =? 8); [|apply refines_refl].
  apply refines_bind; [apply byron_from_bytes_refines|]. intros ea. apply refines_refl.
Qed.

Lemma addr_deserialize_refines l legacy bs : refines (addr_deserialize (Some l) legacy bs) (addr_deserialize None legacy bs).
Proof.
  unfold addr_deserialize. apply refines_bind; [apply ce_bytes_refines|]. intros [b r].
  apply refines_bind; [|intros a; apply refines_refl].
  unfold addr_unsafe. destruct (addr_from_bytes_refines l legacy true b) as [H|H]; rewrite H; [apply refines_refl|right; reflexivity].
Qed.

Lemma third_element_refines l bs : refines (third_element (Some l) false bs) (third_element None false bs).
Proof.
  unfold third_element. destruct bs as [|b0 t]; [apply refines_refl|]. destruct (_ =? _); [|apply refines_refl].
  apply refines_bind; [apply ce_bytes_refines|]. intros [b r3]. apply refines_refl.
Qed.

Lemma legacy_output_refines {V} (dv : bytes -> result (V * bytes)) l bs :
  refines (legacy_output (Some l) dv false bs) (legacy_output None dv false bs).
Proof.
  unfold legacy_output. apply refines_bind; [apply refines_refl|]. intros [len r0].
  apply refines_bind; [apply addr_deserialize_refines|]. intros [a r1].
  apply refines_bind; [apply refines_refl|]. intros [v r2].
  cbv iota. apply refines_bind; [destruct (match len with Arg n => 2 <? n | Indef => true end); [apply third_element_refines|apply refines_refl]|].
  intros [h r3]. apply refines_refl.
Qed.

Lemma read_bounded_bytes_refines l bs : refines (read_bounded_bytes (Some l) bs) (read_bounded_bytes None bs).
Proof.
  unfold read_bounded_bytes. destruct bs as [|b0 t]; [apply refines_refl|]. destruct (negb _); [apply refines_refl|].
  destruct (decode_head (b0 :: t)) as [[[m [n|]] r]|]; try apply refines_refl.
  apply refines_bind; [apply ce_bytes_refines|]. intros [b r']. apply refines_refl.
Qed.

(* the current code's models with the REAL allocator: whatever is not a Panic is the outcome of the total model *)
Theorem real_alloc_only_adds_panics :
  (forall bs, refines (byron_from_bytes real_alloc false bs) (byron_from_bytes None false bs)) /\
  (forall ign bs, refines (addr_from_bytes real_alloc false ign bs) (addr_from_bytes None false ign bs)) /\
  (forall bs, refines (third_element real_alloc false bs) (third_element None false bs)) /\
  (forall V (dv : bytes -> result (V * bytes)) bs, refines (legacy_output real_alloc dv false bs) (legacy_output None dv false bs)) /\
  (forall bs, refines (read_bounded_bytes real_alloc bs) (read_bounded_bytes None bs)).
Proof.
  unfold real_alloc. repeat split; intros.
  - apply byron_from_bytes_refines.
  - apply addr_from_bytes_refines.
  - apply third_element_refines.
  - apply legacy_output_refines.
  - apply read_bounded_bytes_refines.
Qed.
