(* C02: a LENIENT acceptor for the schema layer.  [Codec/Schema.v dec] is the library's readers restricted to what the
   writers produce (it is stricter than the code); [acc] below errs on the other side: it accepts every byte form the
   cbor_event primitives and the library's reading idioms tolerate -
     * chunked (indefinite-length) byte and text strings wherever a string is read,
     * an indefinite-length array / map (closed by a break) wherever a definite one is written,
     * the fields of a map structure in any order (each key at most once, unknown keys refused, required keys present),
     * an optional set tag 258, collections of any size (also empty ones), strings of any length,
     * anything after the item inside an embedded `bytes .cbor`,
     * the optional third item of the legacy output in either array form,
   and keeps only what every reader checks: major types, tag numbers, variant indices and their arities, integer
   ranges, fixed arities, the 64-byte bound of bounded bytes.
   Sandwich used by the correspondence run:  dec accepts  =>  the library accepts  =>  acc accepts.
   When [acc] refuses an input the prediction for the implementation is an error.  Definitions only; result: the rest
   of the input on acceptance. *)
From CSL Require Import Base.Prelude Cbor.Head Codec.Schema.
Local Open Scope N_scope.

Definition acceptor := bytes -> option bytes.

Definition lhead (m : N) (bs : bytes) : option (harg * bytes) :=
  match decode_head bs with
  | Some (m', a, r) => if m' =? m then Some (a, r) else None
  | None => None
  end.
Definition luint (bs : bytes) : option (N * bytes) :=
  match lhead 0 bs with Some (Arg n, r) => Some (n, r) | _ => None end.
Definition ltake (n : N) (bs : bytes) : option (bytes * bytes) :=
  if n <=? N.of_nat (length bs) then Some (firstn (N.to_nat n) bs, skipn (N.to_nat n) bs) else None.
Definition is_break (bs : bytes) : option bytes :=
  match bs with b :: r => if b =? 255 then Some r else None | [] => None end.

(* chunks of a chunked string of major type m, until the break *)
Fixpoint lchunks (m : N) (maxc : option N) (fuel : nat) (bs acc : bytes) : option (bytes * bytes) :=
  match fuel with
  | O => None
  | S f =>
    match is_break bs with
    | Some r => Some (acc, r)
    | None =>
      match lhead m bs with
      | Some (Arg n, r) =>
          if (match maxc with Some c => c <? n | None => false end) then None
          else match ltake n r with Some (p, r') => lchunks m maxc f r' (acc ++ p) | None => None end
      | _ => None
      end
    end
  end.
(* a byte / text string in definite or chunked form: content and rest *)
Definition lstring (m : N) (bs : bytes) : option (bytes * bytes) :=
  match lhead m bs with
  | Some (Arg n, r) => ltake n r
  | Some (Indef, r) => lchunks m None (S (length r)) r []
  | None => None
  end.

Fixpoint acc_n (p : acceptor) (n : nat) (bs : bytes) : option bytes :=
  match n with O => Some bs | S n' => match p bs with Some r => acc_n p n' r | None => None end end.
Fixpoint acc_until_break (p : acceptor) (fuel : nat) (bs : bytes) : option bytes :=
  match fuel with
  | O => None
  | S f =>
    match is_break bs with
    | Some r => Some r
    | None => match p bs with
              | Some r => if (length r <? length bs)%nat then acc_until_break p f r else None
              | None => None
              end
    end
  end.
(* the items of a container whose head has been read: a count, or until the break *)
Definition acc_items (p : acceptor) (a : harg) (r : bytes) : option bytes :=
  match a with
  | Arg n => if n <=? N.of_nat (length r) then acc_n p (N.to_nat n) r else None
  | Indef => acc_until_break p (S (length r)) r
  end.
(* a fixed group of items [p] inside a container announced as [a]: the count must be [k], or a break must follow *)
Definition acc_group (p : acceptor) (k : N) (a : harg) (r : bytes) : option bytes :=
  match a with
  | Arg n => if n =? k then p r else None
  | Indef => match p r with Some r' => is_break r' | None => None end
  end.
(* the same when trailing nullable fields may be left out (governance actions without their policy hash):
   [pn m] reads the first m fields and refuses unless the fields left out are all nullable; [base] = items before the fields *)
Definition acc_group_opt (pn : nat -> acceptor) (base nf : N) (a : harg) (r : bytes) : option bytes :=
  match a with
  | Arg n => if (base <=? n) && (n <=? base + nf) then pn (N.to_nat (n - base)) r else None
  | Indef => match pn (N.to_nat nf) r with Some r' => is_break r' | None => None end
  end.

(* an optional set tag 258 (skip_set_tag; some readers skip it twice) *)
Definition strip258 (bs : bytes) : bytes :=
  match lhead 6 bs with Some (Arg t, r) => if t =? 258 then r else bs | _ => bs end.
Definition strip258x2 (bs : bytes) : bytes := strip258 (strip258 bs).

Definition is_nullable (s : schema) : bool := match s with SNullable _ => true | _ => false end.
Fixpoint all_nullable (fs : slist) : bool :=
  match fs with SNil => true | SCons s r => is_nullable s && all_nullable r end.

Fixpoint mem_N (k : N) (l : list N) : bool := match l with [] => false | x :: t => (x =? k) || mem_N k t end.
Fixpoint req_keys (fs : klist) : list N :=
  match fs with KNil => [] | KCons k p _ r => match p with Req => k :: req_keys r | _ => req_keys r end end.

(* the entries of a map structure: [look k] is the acceptor of the field with key k *)
Fixpoint acc_fields (look : N -> option acceptor) (cnt : option nat) (fuel : nat) (seen : list N) (bs : bytes)
  : option (list N * bytes) :=
  match fuel with
  | O => None
  | S f =>
    let stop := match cnt with Some O => Some bs | Some (S _) => None | None => is_break bs end in
    match stop with
    | Some r => Some (seen, r)
    | None =>
      match luint bs with
      | Some (k, r) =>
          if mem_N k seen then None
          else match look k with
               | Some p => match p r with
                           | Some r' => acc_fields look (match cnt with Some (S c) => Some c | _ => cnt end) f (k :: seen) r'
                           | None => None
                           end
               | None => None
               end
      | None => None
      end
    end
  end.

Fixpoint acc (s : schema) {struct s} : acceptor :=
  match s with
  | SUint lim => fun bs => match luint bs with Some (n, r) => if n <? lim then Some r else None | None => None end
  | SNint => fun bs => match lhead 1 bs with Some (Arg _, r) => Some r | _ => None end
  | SBytes _ _ => fun bs => match lstring 2 bs with Some (_, r) => Some r | None => None end
  | SText _ => fun bs => match lstring 3 bs with Some (_, r) => Some r | None => None end
  | SBool => fun bs => match bs with b :: r => if (b =? 244) || (b =? 245) then Some r else None | [] => None end
  | SArr fs => fun bs => match lhead 4 bs with Some (a, r) => acc_group_opt (acc_sl_n fs) 0 (slen fs) a r | None => None end
  | SMap fs => fun bs =>
      match lhead 5 bs with
      | Some (a, r) =>
          let cnt := match a with Arg n => if n <=? N.of_nat (length r) then Some (Some (N.to_nat n)) else None | Indef => Some None end in
          match cnt with
          | Some c =>
            match acc_fields (acc_key fs) c (S (S (length r))) [] r with
            | Some (seen, r') => if forallb (fun k => mem_N k seen) (req_keys fs) then Some r' else None
            | None => None
            end
          | None => None
          end
      | None => None
      end
  | SVar alts => fun bs =>
      match lhead 4 bs with
      | Some (a, r) =>
          match luint r with
          | Some (idx, r') => match acc_alt alts idx with Some (nf, pn) => acc_group_opt pn 1 nf a r' | None => None end
          | None => None
          end
      | None => None
      end
  | SArrOf _ s' => fun bs => match lhead 4 (strip258x2 bs) with Some (a, r) => acc_items (acc s') a r | None => None end
  | SSetOf s' => fun bs => match lhead 4 (strip258x2 bs) with Some (a, r) => acc_items (acc s') a r | None => None end
  | SMapOf _ _ k v => fun bs =>
      match lhead 5 bs with
      | Some (a, r) => acc_items (fun b => match acc k b with Some b1 => acc v b1 | None => None end) a r
      | None => None
      end
  | SNullable s' => fun bs => match bs with b :: r => if b =? 246 then Some r else acc s' bs | [] => None end
  | STag t s' => fun bs =>
      match lhead 6 bs with
      | Some (Arg t', r) => if t' =? t then acc s' r else None
      | _ => if t =? 258 then acc s' bs else None          (* the set tag is optional *)
      end
  | SInBytes s' => fun bs =>
      match lstring 2 bs with
      | Some (b, r) => match acc s' b with Some _ => Some r | None => None end
      | None => None
      end
  | SChoice alts => fun bs =>
      let direct := match peek_major bs with Some m => acc_cl alts m bs | None => None end in
      match direct with
      | Some r => Some r
      | None =>
          (* a tagged list (set tag 258) where a plain list is an alternative *)
          if has_disc 4 alts then
            let bs' := strip258x2 bs in
            match peek_major bs' with Some m => if m =? 4 then acc_cl alts m bs' else None | None => None end
          else None
      end
  | STagChoice alts => fun bs => match lhead 6 bs with Some (Arg t, r) => acc_cl alts t r | _ => None end
  | SArrAny s' => fun bs => match lhead 4 (strip258x2 bs) with Some (a, r) => acc_items (acc s') a r | None => None end
  | SBBytes => fun bs =>
      match lhead 2 bs with
      | Some (Arg n, r) => if n <=? 64 then match ltake n r with Some (_, r') => Some r' | None => None end else None
      | Some (Indef, r) => match lchunks 2 (Some 64) (S (length r)) r [] with Some (_, r') => Some r' | None => None end
      | None => None
      end
  | SNamed _ s' => acc s'
  | SArrOpt fs o => fun bs =>
      match lhead 4 bs with
      | Some (Arg n, r) =>
          if n =? slen fs then acc_sl fs r
          else if n =? 1 + slen fs then match acc_sl fs r with Some r1 => acc o r1 | None => None end
          else None
      | Some (Indef, r) =>
          match acc_sl fs r with
          | Some r1 => match is_break r1 with
                       | Some r2 => Some r2
                       | None => match acc o r1 with Some r2 => is_break r2 | None => None end
                       end
          | None => None
          end
      | None => None
      end
  end
with acc_sl (fs : slist) {struct fs} : acceptor :=
  match fs with
  | SNil => fun bs => Some bs
  | SCons s r => fun bs => match acc s bs with Some b1 => acc_sl r b1 | None => None end
  end
with acc_sl_n (fs : slist) {struct fs} : nat -> acceptor :=
  match fs with
  | SNil => fun _ bs => Some bs
  | SCons s r => fun n bs =>
      match n with
      | O => if is_nullable s && all_nullable r then Some bs else None
      | S n' => match acc s bs with Some b1 => acc_sl_n r n' b1 | None => None end
      end
  end
with acc_key (fs : klist) {struct fs} : N -> option acceptor :=
  match fs with
  | KNil => fun _ => None
  | KCons k _ s r => fun k' => if k' =? k then Some (acc s) else acc_key r k'
  end
with acc_alt (alts : vlist) {struct alts} : N -> option (N * (nat -> acceptor)) :=
  match alts with
  | ANil => fun _ => None
  | ACons i fs r => fun idx => if idx =? i then Some (slen fs, acc_sl_n fs) else acc_alt r idx
  end
with acc_cl (alts : clist) {struct alts} : N -> acceptor :=
  match alts with
  | CNil => fun _ _ => None
  | CCons d s r => fun disc bs => if disc =? d then acc s bs else acc_cl r disc bs
  end.

(* ---- nesting depth of the first data item, in one cheap pass (no item is built, no length is recomputed);
   None when the item is not well-formed.  Used as the guard of the refusals for the types whose recursive
   schemas are unrolled to a small depth. ---- *)
Fixpoint ldrop (bs : bytes) (n : N) : option bytes :=
  match bs with
  | [] => if n =? 0 then Some [] else None
  | _ :: t => if n =? 0 then Some bs else ldrop t (n - 1)
  end.
Fixpoint litems (p : bytes -> option (nat * bytes)) (fuel : nat) (n : N) (d : nat) (bs : bytes) : option (nat * bytes) :=
  match fuel with
  | O => None
  | S f => if n =? 0 then Some (d, bs)
           else match p bs with Some (d1, r) => litems p f (n - 1) (Nat.max d d1) r | None => None end
  end.
Fixpoint luntil (p : bytes -> option (nat * bytes)) (fuel : nat) (d : nat) (bs : bytes) : option (nat * bytes) :=
  match fuel with
  | O => None
  | S f => match is_break bs with
           | Some r => Some (d, r)
           | None => match p bs with Some (d1, r) => luntil p f (Nat.max d d1) r | None => None end
           end
  end.
Fixpoint lchunk_skip (m : N) (fuel : nat) (bs : bytes) : option bytes :=
  match fuel with
  | O => None
  | S f => match is_break bs with
           | Some r => Some r
           | None => match lhead m bs with
                     | Some (Arg n, r) => match ldrop r n with Some r' => lchunk_skip m f r' | None => None end
                     | _ => None
                     end
           end
  end.
Fixpoint ldepth (fuel : nat) (bs : bytes) : option (nat * bytes) :=
  match fuel with
  | O => None
  | S f =>
    match decode_head bs with
    | None => None
    | Some (m, a, r) =>
        if (m =? 0) || (m =? 1) then (match a with Arg _ => Some (1%nat, r) | Indef => None end)
        else if (m =? 2) || (m =? 3) then
          (match a with
           | Arg n => match ldrop r n with Some r' => Some (1%nat, r') | None => None end
           | Indef => match lchunk_skip m f r with Some r' => Some (1%nat, r') | None => None end
           end)
        else if m =? 4 then
          (match a with
           | Arg n => match litems (ldepth f) f n O r with Some (d, r') => Some (S d, r') | None => None end
           | Indef => match luntil (ldepth f) f O r with Some (d, r') => Some (S d, r') | None => None end
           end)
        else if m =? 5 then
          (match a with
           | Arg n => match litems (ldepth f) f (2 * n) O r with Some (d, r') => Some (S d, r') | None => None end
           | Indef => match luntil (fun b => match ldepth f b with
                                             | Some (d1, b1) => match ldepth f b1 with Some (d2, b2) => Some (Nat.max d1 d2, b2) | None => None end
                                             | None => None end) f O r with Some (d, r') => Some (S d, r') | None => None end
           end)
        else if m =? 6 then
          (match a with Arg _ => match ldepth f r with Some (d, r') => Some (S d, r') | None => None end | Indef => None end)
        else (match a with Arg _ => Some (1%nat, r) | Indef => None end)
    end
  end.
(* at most [k] deep (or not well-formed at all) *)
Definition shallow (k : nat) (bs : bytes) : bool :=
  match ldepth (S (length bs)) bs with Some (d, _) => (d <=? k)%nat | None => true end.

Definition accepts (s : schema) (bs : bytes) : bool := match acc s bs with Some _ => true | None => false end.
