(* C02: the re-serialisation of what the schema decoder returns for ANY accepted input (non-minimal heads, unsorted or
   duplicate map keys, arbitrary chunking, anything behind the item) is one well-formed CBOR data item.
   Premises: the input is made of bytes (< 256) and is shorter than 2^60 bytes (the proof bounds the length of a
   re-encoding by nine times the input it was decoded from, so that every nested length fits a CBOR head). *)
From CSL Require Import Base.Prelude Cbor.Head Cbor.HeadProofs Codec.Schema Codec.SchemaProofs Cbor.Item Total.ItemLink.
Local Open Scope N_scope.

Definition lim60 : N := 1152921504606846976.

Lemma bind_ok {A B} (r : result A) (f : A -> result B) y : bind r f = Ok y -> exists a, r = Ok a /\ f a = Ok y.
Proof. destruct r; cbn; try discriminate. intros H. eexists; split; [reflexivity|exact H]. Qed.

Lemma bytes_ok_app (a b : bytes) : bytes_ok (a ++ b) <-> bytes_ok a /\ bytes_ok b.
Proof. unfold bytes_ok. apply Forall_app. Qed.

Lemma unbe_bound p : bytes_ok p -> forall acc, unbe p acc < (acc + 1) * 256 ^ N.of_nat (length p).
Proof.
  induction 1 as [|b t Hb _ IH]; intros acc.
  - cbn [unbe length]. change (N.of_nat 0) with 0. rewrite N.pow_0_r. lia.
  - cbn [unbe length]. rewrite Nat2N.inj_succ, N.pow_succ_r'. specialize (IH (acc * 256 + b)).
    assert (0 < 256 ^ N.of_nat (length t)) by (apply N.neq_0_lt_0, N.pow_nonzero; lia). nia.
Qed.

Lemma split_at_inv k (l p r : bytes) : split_at k l = Some (p, r) -> l = p ++ r /\ length p = k.
Proof.
  unfold split_at. destruct (k <=? length l)%nat eqn:E; [|discriminate]. apply Nat.leb_le in E.
  intros H. injection H as <- <-. split; [symmetry; apply firstn_skipn|]. rewrite firstn_length. lia.
Qed.

(* what a decoded head tells: the argument fits 64 bits, the rest is a proper suffix made of bytes *)
Lemma decode_head_inv bs m a r : bytes_ok bs -> decode_head bs = Some (m, a, r) ->
  bytes_ok r /\ (length r < length bs)%nat /\ (forall n, a = Arg n -> n < two64).
Proof.
  intros Hb H. pose proof (decode_head_shorter _ _ _ _ H) as Hs.
  destruct (decode_head_suffix _ _ _ _ H) as (pre & E & _).
  split; [rewrite E in Hb; apply bytes_ok_app in Hb; tauto|]. split; [exact Hs|].
  intros n ->. destruct bs as [|b t]; [discriminate|]. cbn [decode_head] in H.
  assert (Hb0 : b < 256) by (inversion Hb; assumption).
  assert (Ht : bytes_ok t) by (inversion Hb; assumption).
  destruct (b mod 32 <? 24) eqn:E0; [injection H as _ <- _; unfold two64; lia|].
  assert (P : forall k, (k <= 8)%nat ->
            match split_at k t with Some (p, r') => Some (b / 32, Arg (unbe p 0), r') | None => None end = Some (m, Arg n, r) ->
            n < two64).
  { intros k Hk. destruct (split_at k t) as [[p r']|] eqn:Es; [|discriminate]. intros H'. injection H' as _ <- _.
    apply split_at_inv in Es. destruct Es as [Et Hl]. rewrite Et in Ht. apply bytes_ok_app in Ht.
    pose proof (unbe_bound p (proj1 Ht) 0) as B. rewrite Hl in B.
    assert (256 ^ N.of_nat k <= 256 ^ 8) by (apply N.pow_le_mono_r; lia).
    change (256 ^ 8) with two64 in *. lia. }
  destruct (b mod 32 =? 24); [apply (P 1%nat); [lia|exact H]|]. destruct (b mod 32 =? 25); [apply (P 2%nat); [lia|exact H]|].
  destruct (b mod 32 =? 26); [apply (P 4%nat); [lia|exact H]|]. destruct (b mod 32 =? 27); [apply (P 8%nat); [lia|exact H]|].
  destruct (b mod 32 =? 31); discriminate.
Qed.

Lemma dec_head_m_inv m bs n r : bytes_ok bs -> dec_head_m m bs = Ok (n, r) ->
  n < two64 /\ bytes_ok r /\ (length r < length bs)%nat.
Proof.
  intros Hb H. unfold dec_head_m in H. destruct (decode_head bs) as [[[m' [n'|]] r']|] eqn:E; try discriminate.
  destruct (m' =? m); [|discriminate]. injection H as <- <-.
  destruct (decode_head_inv _ _ _ _ Hb E) as (H1 & H2 & H3). split; [apply H3; reflexivity|]. split; assumption.
Qed.

Lemma take_bytes_inv n (bs p r : bytes) : Schema.take_bytes n bs = Ok (p, r) -> bs = p ++ r /\ N.of_nat (length p) = n.
Proof.
  unfold Schema.take_bytes. destruct (_ <? _) eqn:E; [discriminate|].
  destruct (split_at (N.to_nat n) bs) as [[p' r']|] eqn:Es; [|discriminate]. intros H. injection H as <- <-.
  apply split_at_inv in Es. destruct Es as [-> Hl]. split; [reflexivity|]. rewrite Hl. apply N2Nat.id.
Qed.

Lemma head_len9 m n : (1 <= length (encode_head m n) <= 9)%nat.
Proof. pose proof (head_length m n). pose proof (head_size_bounds n). lia. Qed.

(* the three facts carried through the decoder: the re-encoding [b] of what was decoded from [bs] (leaving [rest]) is one
   item, the rest is made of bytes, and b is at most nine times as long as the input consumed *)
Definition good (b bs rest : bytes) : Prop :=
  parses b /\ bytes_ok rest /\ (length b + 9 * length rest <= 9 * length bs)%nat.

Ltac bok H a E := apply bind_ok in H; destruct H as (a & E & H).

(* ---------- sequences of items decoded by one parser ---------- *)
Section Lists.
  Context {A : Type} (p : Schema.parser A) (okx : A -> Prop) (sz : A -> nat).
  Hypothesis Hp : forall bs x r, bytes_ok bs -> N.of_nat (length bs) < lim60 -> p bs = Ok (x, r) ->
    okx x /\ bytes_ok r /\ (sz x + 9 * length r <= 9 * length bs)%nat.

  Lemma dec_n_good : forall n bs xs rest, bytes_ok bs -> N.of_nat (length bs) < lim60 -> dec_n p n bs = Ok (xs, rest) ->
    Forall okx xs /\ bytes_ok rest /\ (list_sum (map sz xs) + 9 * length rest <= 9 * length bs)%nat /\ length xs = n.
  Proof.
    induction n as [|n IH]; intros bs xs rest Hb Hl H; cbn [dec_n] in H.
    - injection H as <- <-. cbn [map list_sum fold_right length]. split; [apply Forall_nil|]. split; [assumption|]. split; [lia|reflexivity].
    - bok H a E1. destruct a as [x r]. cbv beta iota in H. bok H a E2. destruct a as [xs' r']. cbv beta iota in H.
      injection H as <- <-. destruct (Hp _ _ _ Hb Hl E1) as (P1 & B1 & S1).
      assert (Hx : (length r <= length bs)%nat) by lia.
      assert (Hl' : N.of_nat (length r) < lim60) by lia.
      destruct (IH _ _ _ B1 Hl' E2) as (P2 & B2 & S2 & L2).
      change (list_sum (map sz (x :: xs'))) with (sz x + list_sum (map sz xs'))%nat. cbn [length].
      split; [apply Forall_cons; assumption|]. split; [assumption|]. split; lia.
  Qed.

  Lemma dec_counted_good n bs xs rest : bytes_ok bs -> N.of_nat (length bs) < lim60 -> dec_counted p n bs = Ok (xs, rest) ->
    Forall okx xs /\ bytes_ok rest /\ (list_sum (map sz xs) + 9 * length rest <= 9 * length bs)%nat /\ N.of_nat (length xs) = n.
  Proof.
    intros Hb Hl H. unfold dec_counted in H. destruct (_ <? _); [discriminate|].
    destruct (dec_n_good _ _ _ _ Hb Hl H) as (P & B & S & L). repeat split; try assumption. rewrite L. apply N2Nat.id.
  Qed.

  Lemma dec_until_break_good : forall fuel bs xs rest, bytes_ok bs -> N.of_nat (length bs) < lim60 ->
    dec_until_break p fuel bs = Ok (xs, rest) ->
    Forall okx xs /\ bytes_ok rest /\ (list_sum (map sz xs) + 9 * length rest + 9 <= 9 * length bs)%nat.
  Proof.
    induction fuel as [|f IH]; intros bs xs rest Hb Hl H; cbn [dec_until_break] in H; [discriminate|].
    destruct bs as [|b r]; [discriminate|]. destruct (b =? 255).
    - injection H as <- <-. cbn [map list_sum fold_right length]. split; [apply Forall_nil|]. split; [inversion Hb; assumption|lia].
    - bok H a E1. destruct a as [x r']. cbv beta iota in H. destruct (length r' <? length (b :: r))%nat eqn:El; [|discriminate].
      bok H a E2. destruct a as [xs' r'']. cbv beta iota in H. injection H as <- <-.
      destruct (Hp _ _ _ Hb Hl E1) as (P1 & B1 & S1).
      assert (Hx : (length r' <= length (b :: r))%nat) by lia.
      assert (Hl' : N.of_nat (length r') < lim60) by lia.
      destruct (IH _ _ _ B1 Hl' E2) as (P2 & B2 & S2).
      change (list_sum (map sz (x :: xs'))) with (sz x + list_sum (map sz xs'))%nat.
      split; [apply Forall_cons; assumption|]. split; [assumption|lia].
  Qed.
End Lists.

Lemma concat_length_sum {A} (e : A -> bytes) (l : list A) : length (concat (map e l)) = list_sum (map (fun x => length (e x)) l).
Proof. induction l as [|x t IH]; [reflexivity|]. cbn [map concat list_sum fold_right]. rewrite app_length, IH. reflexivity. Qed.

Lemma Forall_map_parses {A} (e : A -> bytes) (l : list A) : Forall (fun x => parses (e x)) l -> Forall parses (map e l).
Proof. induction 1; cbn [map]; constructor; assumption. Qed.

(* ---------- chunks ---------- *)
Lemma dec_chunk_good bs c r : bytes_ok bs -> N.of_nat (length bs) < lim60 -> dec_chunk bs = Ok (c, r) ->
  True /\ bytes_ok r /\ (3 * length c + 9 * length r <= 9 * length bs)%nat.
Proof.
  intros Hb Hl H. unfold dec_chunk in H. bok H a E. destruct a as [n r0]. cbv beta iota in H.
  destruct (n <=? 64); [|discriminate]. destruct (dec_head_m_inv _ _ _ _ Hb E) as (_ & B0 & S0).
  apply take_bytes_inv in H. destruct H as [-> Hn]. apply bytes_ok_app in B0. rewrite app_length in S0.
  repeat split; [tauto|lia].
Qed.

Lemma enc_chunk_len c : (1 <= length c <= 64)%nat -> (length (enc_chunk c) <= 3 * length c)%nat.
Proof.
  intros Hc. unfold enc_chunk. rewrite app_length. pose proof (head_length 2 (N.of_nat (length c))) as H.
  unfold head_size in H. destruct (_ <? 24); [lia|]. destruct (_ <? 256) eqn:E; lia.
Qed.

Lemma chunks_len fuel : forall b, (length b <= fuel)%nat -> (length (concat (map enc_chunk (chunk64 fuel b))) <= 3 * length b)%nat.
Proof.
  induction fuel as [|f IH]; intros b Hb; [destruct b; cbn in *; lia|].
  cbn [chunk64]. destruct b as [|x t] eqn:E; [cbn; lia|]. rewrite <- E in *.
  cbn [map concat]. rewrite app_length.
  assert (H1 : (1 <= length (firstn 64 b) <= 64)%nat) by (rewrite firstn_length; subst b; cbn [length]; lia).
  pose proof (enc_chunk_len _ H1). specialize (IH (skipn 64 b)).
  assert (length (skipn 64 b) <= f)%nat by (rewrite skipn_length; subst b; cbn [length] in *; lia).
  specialize (IH ltac:(assumption)). rewrite <- (firstn_skipn 64 b) at 3. rewrite app_length. lia.
Qed.

(* ---------- the decoder ---------- *)
Definition GS (s : schema) : Prop := wfs s = true -> forall bs v rest,
  bytes_ok bs -> N.of_nat (length bs) < lim60 -> dec s bs = Ok (v, rest) -> good (enc s v) bs rest.
Definition GSs (fs : slist) : Prop := wfs_sl fs = true -> forall bs l rest,
  bytes_ok bs -> N.of_nat (length bs) < lim60 -> dec_sl fs bs = Ok (l, rest) ->
  exists bl, enc_sl fs l = concat bl /\ len bl = slen fs /\ Forall parses bl /\ bytes_ok rest /\
             (length (enc_sl fs l) + 9 * length rest <= 9 * length bs)%nat.
Definition GSk (fs : klist) : Prop := wfs_kl fs = true -> keys_nodup fs = true -> forall rem bs l rem' rest,
  bytes_ok bs -> N.of_nat (length bs) < lim60 -> dec_kl fs rem bs = Ok (l, rem', rest) ->
  exists pl, enc_kl fs l = concat (map pair_bytes pl) /\ len pl = count_kl fs l /\
             Forall (fun kv => parses (fst kv) /\ parses (snd kv)) pl /\ bytes_ok rest /\
             (length (enc_kl fs l) + 9 * length rest <= 9 * length bs)%nat.
Definition GSv (alts : vlist) : Prop := wfs_vl alts = true -> forall idx n pos bs v rest,
  bytes_ok bs -> N.of_nat (length bs) < lim60 -> dec_vl alts idx n pos bs = Ok (v, rest) ->
  exists i l, v = VVar (pos + i) l /\ parses (enc_vl alts i l) /\ bytes_ok rest /\
              (length (enc_vl alts i l) + 9 * length rest <= 9 * length bs + 18)%nat.
Definition GSc (alts : clist) : Prop := forall tagged, wfs_cl tagged alts = true -> forall d pos bs v rest,
  bytes_ok bs -> N.of_nat (length bs) < lim60 -> dec_cl alts d pos bs = Ok (v, rest) ->
  exists i v', v = VAlt (pos + i) v' /\ parses (enc_cl tagged alts i v') /\ bytes_ok rest /\
               (length (enc_cl tagged alts i v') + 9 * length rest <= 9 * length bs + (if tagged then 9 else 0))%nat.

Lemma good_items (s : schema) (l : list val) : Forall (fun x => parses (enc s x)) l -> Forall parses (map (enc s) l).
Proof. apply Forall_map_parses. Qed.

Lemma two64_9lim n : N.of_nat n < lim60 -> N.of_nat (9 * n) < two64.
Proof. unfold lim60, two64. lia. Qed.

Lemma reserialise_all : (forall s, GS s) /\ (forall fs, GSs fs) /\ (forall fs, GSk fs) /\ (forall a, GSv a) /\ (forall a, GSc a).
Proof.
  apply schema_mutind; unfold GS, GSs, GSk, GSv, GSc, good.
  - (* SUint *) intros lim Hs bs v rest Hb Hl H. cbn [dec] in H. bok H a E. destruct a as [n r]. cbv beta iota in H.
    destruct (n <? lim); [|discriminate]. injection H as <- <-. destruct (dec_head_m_inv _ _ _ _ Hb E) as (Hn & Br & Sr).
    cbn [enc]. pose proof (head_len9 0 n). split; [apply parses_uint, Hn|]. split; [exact Br|lia].
  - (* SNint *) intros _ bs v rest Hb Hl H. cbn [dec] in H. bok H a E. destruct a as [n r]. cbv beta iota in H.
    injection H as <- <-. destruct (dec_head_m_inv _ _ _ _ Hb E) as (Hn & Br & Sr).
    cbn [enc]. pose proof (head_len9 1 n). split; [apply parses_nint, Hn|]. split; [exact Br|lia].
  - (* SBytes *) intros lo hi Hs bs v rest Hb Hl H. cbn [dec] in H. bok H a E. destruct a as [n r]. cbv beta iota in H.
    destruct (_ && _); [|discriminate]. bok H a E2. destruct a as [b r']. cbv beta iota in H. injection H as <- <-.
    destruct (dec_head_m_inv _ _ _ _ Hb E) as (Hn & Br & Sr). apply take_bytes_inv in E2. destruct E2 as [-> Hlen].
    apply bytes_ok_app in Br. rewrite app_length in Sr. cbn [enc]. rewrite app_length. pose proof (head_len9 2 (N.of_nat (length b))).
    split; [apply parses_bstr; unfold len; lia|]. split; [tauto|lia].
  - (* SText *) intros hi Hs bs v rest Hb Hl H. cbn [dec] in H. bok H a E. destruct a as [n r]. cbv beta iota in H.
    destruct (_ <=? _); [|discriminate]. bok H a E2. destruct a as [b r']. cbv beta iota in H. injection H as <- <-.
    destruct (dec_head_m_inv _ _ _ _ Hb E) as (Hn & Br & Sr). apply take_bytes_inv in E2. destruct E2 as [-> Hlen].
    apply bytes_ok_app in Br. rewrite app_length in Sr. cbn [enc]. rewrite app_length. pose proof (head_len9 3 (N.of_nat (length b))).
    split; [apply parses_tstr; unfold len; lia|]. split; [tauto|lia].
  - (* SBool *) intros _ bs v rest Hb Hl H. cbn [dec] in H. destruct bs as [|b r]; [discriminate|].
    assert (Br : bytes_ok r) by (inversion Hb; assumption).
    destruct (b =? 244); [injection H as <- <-; cbn [enc length]; split; [apply parses_false|split; [exact Br|lia]]|].
    destruct (b =? 245); [injection H as <- <-; cbn [enc length]; split; [apply parses_true|split; [exact Br|lia]]|discriminate].
  - (* SArr *) intros fs IH Hs bs v rest Hb Hl H. cbn [dec wfs] in *. split_ands. bok H a E. destruct a as [n r]. cbv beta iota in H.
    destruct (n =? slen fs); [|discriminate]. bok H a E2. destruct a as [l r']. cbv beta iota in H. injection H as <- <-.
    destruct (dec_head_m_inv _ _ _ _ Hb E) as (Hn & Br & Sr).
    assert (Hx : (length r <= length bs)%nat) by lia. assert (Hl' : N.of_nat (length r) < lim60) by lia.
    destruct (IH ltac:(assumption) _ _ _ Br Hl' E2) as (bl & Ebl & Hlen & Pbl & Brest & Sz).
    cbn [enc]. rewrite app_length. pose proof (head_len9 4 (slen fs)). split; [|split; [exact Brest|lia]].
    rewrite Ebl, <- Hlen. apply parses_array; [exact Pbl|].
    match goal with Hq : (slen fs <? two64) = true |- _ => apply N.ltb_lt in Hq; rewrite <- Hlen in Hq; exact Hq end.
  - (* SMap *) intros fs IH Hs bs v rest Hb Hl H. cbn [dec wfs] in *. split_ands. bok H a E. destruct a as [n r]. cbv beta iota in H.
    bok H a E2. destruct a as [[l rem] r']. cbv beta iota in H. destruct (rem =? 0); [|discriminate]. injection H as <- <-.
    destruct (dec_head_m_inv _ _ _ _ Hb E) as (Hn & Br & Sr).
    assert (Hx : (length r <= length bs)%nat) by lia. assert (Hl' : N.of_nat (length r) < lim60) by lia.
    destruct (IH ltac:(assumption) ltac:(assumption) _ _ _ _ _ Br Hl' E2) as (pl & Epl & Hlen & Ppl & Brest & Sz).
    cbn [enc]. rewrite app_length. pose proof (head_len9 5 (count_kl fs l)). split; [|split; [exact Brest|lia]].
    rewrite Epl, <- Hlen. apply parses_map; [exact Ppl|].
    pose proof (count_kl_le fs l) as Hc.
    match goal with Hq : (klen fs <? two64) = true |- _ => apply N.ltb_lt in Hq; rewrite <- Hlen in Hc; eapply N.le_lt_trans; [exact Hc|exact Hq] end.
  - (* SVar *) intros alts IH Hs bs v rest Hb Hl H. cbn [dec wfs] in *. bok H a E. destruct a as [n r]. cbv beta iota in H.
    bok H a E2. destruct a as [idx r']. cbv beta iota in H.
    destruct (dec_head_m_inv _ _ _ _ Hb E) as (Hn & Br & Sr). destruct (dec_head_m_inv _ _ _ _ Br E2) as (Hi & Br' & Sr').
    assert (Hx : (length r' <= length bs)%nat) by lia. assert (Hl' : N.of_nat (length r') < lim60) by lia.
    destruct (IH Hs _ _ _ _ _ _ Br' Hl' H) as (i & l & -> & P & Brest & Sz). cbn [Nat.add enc].
    split; [exact P|]. split; [exact Brest|lia].
  - (* SArrOf *) intros lo s IH Hs bs v rest Hb Hl H. cbn [dec wfs] in *. bok H a E. destruct a as [n r]. cbv beta iota in H.
    destruct (lo <=? n); [|discriminate]. bok H a E2. destruct a as [l r']. cbv beta iota in H. injection H as <- <-.
    destruct (dec_head_m_inv _ _ _ _ Hb E) as (Hn & Br & Sr).
    assert (Hx : (length r <= length bs)%nat) by lia. assert (Hl' : N.of_nat (length r) < lim60) by lia.
    destruct (dec_counted_good (dec s) (fun x => parses (enc s x)) (fun x => length (enc s x))
                (fun b x r0 B L D => IH Hs b x r0 B L D) _ _ _ _ Br Hl' E2) as (P & Brest & Sz & Ln).
    rewrite <- concat_length_sum in Sz. cbn [enc]. rewrite app_length. pose proof (head_len9 4 (N.of_nat (length l))).
    split; [|split; [exact Brest|lia]].
    rewrite <- (map_length (enc s) l). apply parses_array; [apply good_items, P|]. rewrite len_map. unfold len. lia.
  - (* SSetOf *) intros s IH Hs bs v rest Hb Hl H. cbn [dec wfs] in *. bok H a E. destruct a as [t r0]. cbv beta iota in H.
    destruct (t =? 258); [|discriminate]. bok H a E1. destruct a as [n r]. cbv beta iota in H.
    bok H a E2. destruct a as [l r']. cbv beta iota in H. injection H as <- <-.
    destruct (dec_head_m_inv _ _ _ _ Hb E) as (_ & Br0 & Sr0). destruct (dec_head_m_inv _ _ _ _ Br0 E1) as (Hn & Br & Sr).
    assert (Hx : (length r <= length bs)%nat) by lia. assert (Hl' : N.of_nat (length r) < lim60) by lia.
    destruct (dec_counted_good (dec s) (fun x => parses (enc s x)) (fun x => length (enc s x))
                (fun b x r1 B L D => IH Hs b x r1 B L D) _ _ _ _ Br Hl' E2) as (P & Brest & Sz & Ln).
    rewrite <- concat_length_sum in Sz. cbn [enc]. rewrite !app_length.
    pose proof (head_len9 4 (N.of_nat (length l))). pose proof (head_len9 6 258).
    split; [|split; [exact Brest|lia]].
    apply parses_tag; [unfold two64; lia|].
    rewrite <- (map_length (enc s) l). apply parses_array; [apply good_items, P|]. rewrite len_map. unfold len. lia.
  - (* SMapOf *) intros lo ord k IHk v' IHv Hs bs v rest Hb Hl H. cbn [dec wfs] in *. split_ands.
    bok H a E. destruct a as [n r]. cbv beta iota in H. destruct (lo <=? n); [|discriminate].
    bok H a E2. destruct a as [l r']. cbv beta iota in H. injection H as <- <-.
    destruct (dec_head_m_inv _ _ _ _ Hb E) as (Hn & Br & Sr).
    assert (Hx : (length r <= length bs)%nat) by lia. assert (Hl' : N.of_nat (length r) < lim60) by lia.
    match type of E2 with dec_counted ?pp _ _ = _ =>
      assert (Hp' : forall (b : bytes) (x : val * val) (r1 : bytes), bytes_ok b -> N.of_nat (length b) < lim60 -> pp b = Ok (x, r1) ->
                (parses (enc k (fst x)) /\ parses (enc v' (snd x))) /\ bytes_ok r1 /\
                (length (enc k (fst x) ++ enc v' (snd x)) + 9 * length r1 <= 9 * length b)%nat)
    end.
    { intros b x r1 B L D. cbv beta in D. bok D a E3. destruct a as [x1 b1]. cbv beta iota in D. bok D a E4. destruct a as [y1 b2]. cbv beta iota in D.
      injection D as <- <-. destruct (IHk ltac:(assumption) _ _ _ B L E3) as (P1 & B1 & S1).
      assert (Hy : (length b1 <= length b)%nat) by lia. assert (L1 : N.of_nat (length b1) < lim60) by lia.
      destruct (IHv ltac:(assumption) _ _ _ B1 L1 E4) as (P2 & B2 & S2). cbn [fst snd]. rewrite app_length.
      split; [split; assumption|]. split; [exact B2|lia]. }
    destruct (dec_counted_good _ (fun kv : val * val => parses (enc k (fst kv)) /\ parses (enc v' (snd kv)))
                (fun kv => length (enc k (fst kv) ++ enc v' (snd kv))) Hp' _ _ _ _ Br Hl' E2) as (P & Brest & Sz & Ln).
    rewrite <- (concat_length_sum (fun kv : val * val => enc k (fst kv) ++ enc v' (snd kv))) in Sz.
    cbn [enc]. rewrite app_length. pose proof (head_len9 5 (N.of_nat (length l))).
    split; [|split; [exact Brest|]].
    2: { match goal with |- (_ + ?X + _ <= _)%nat => match type of Sz with (?Y + _ <= _)%nat => change Y with X in Sz end end. lia. }
    set (pl := map (fun kv : val * val => (enc k (fst kv), enc v' (snd kv))) l).
    replace (concat (map (fun kv : val * val => enc k (fst kv) ++ enc v' (snd kv)) l)) with (concat (map pair_bytes pl))
      by (unfold pl; rewrite map_map; reflexivity).
    replace (N.of_nat (length l)) with (len pl) by (unfold pl; apply len_map).
    apply parses_map; [|unfold pl; rewrite len_map; unfold len; lia].
    unfold pl. clear - P. induction P as [|x t Hx _ IHt]; cbn [map]; constructor; [exact Hx|exact IHt].
  - (* SNullable *) intros s IH Hs bs v rest Hb Hl H. cbn [dec wfs] in *. split_ands. destruct bs as [|b r]; [discriminate|].
    destruct (b =? 246).
    + injection H as <- <-. cbn [enc length]. split; [apply parses_null|]. split; [inversion Hb; assumption|lia].
    + destruct (IH ltac:(assumption) _ _ _ Hb Hl H) as (P & Brest & Sz). pose proof (parses_nonempty _ P).
      destruct v; cbn [enc]; try (split; [exact P|split; [exact Brest|exact Sz]]).
      cbn [length] in *. split; [apply parses_null|]. split; [exact Brest|lia].
  - (* STag *) intros t s IH Hs bs v rest Hb Hl H. cbn [dec wfs] in *. split_ands. bok H a E. destruct a as [t' r]. cbv beta iota in H.
    destruct (t' =? t); [|discriminate]. destruct (dec_head_m_inv _ _ _ _ Hb E) as (_ & Br & Sr).
    assert (Hx : (length r <= length bs)%nat) by lia. assert (Hl' : N.of_nat (length r) < lim60) by lia.
    destruct (IH ltac:(assumption) _ _ _ Br Hl' H) as (P & Brest & Sz). cbn [enc]. rewrite app_length. pose proof (head_len9 6 t).
    split; [apply parses_tag; [lia|exact P]|]. split; [exact Brest|lia].
  - (* SInBytes *) intros s IH Hs bs v rest Hb Hl H. cbn [dec wfs] in *. bok H a E. destruct a as [n r]. cbv beta iota in H.
    bok H a E2. destruct a as [b r']. cbv beta iota in H.
    destruct (dec s b) as [[v0 [|? ?]]| | |] eqn:Ed; try discriminate. injection H as <- <-.
    destruct (dec_head_m_inv _ _ _ _ Hb E) as (Hn & Br & Sr). apply take_bytes_inv in E2. destruct E2 as [-> Hlen].
    apply bytes_ok_app in Br. rewrite app_length in Sr.
    assert (Hx : (length b <= length bs)%nat) by lia. assert (Hl' : N.of_nat (length b) < lim60) by lia.
    destruct (IH Hs _ _ _ (proj1 Br) Hl' Ed) as (P & _ & Sz). cbn [length] in Sz.
    cbn [enc]. rewrite app_length. pose proof (head_len9 2 (N.of_nat (length (enc s v0)))).
    split; [|split; [tauto|lia]].
    apply parses_bstr. unfold len. pose proof (two64_9lim _ Hl'). lia.
  - (* SChoice *) intros alts IH Hs bs v rest Hb Hl H. cbn [dec wfs] in *. destruct (peek_major bs) as [m|]; [|discriminate].
    destruct (IH false Hs _ _ _ _ _ Hb Hl H) as (i & v' & -> & P & Brest & Sz). cbn [Nat.add enc].
    split; [exact P|]. split; [exact Brest|].
    (* untagged alternatives add nothing in front: the bound of the alternative itself holds *)
    cbv iota in Sz. lia.
  - (* STagChoice *) intros alts IH Hs bs v rest Hb Hl H. cbn [dec wfs] in *. bok H a E. destruct a as [t r]. cbv beta iota in H.
    destruct (dec_head_m_inv _ _ _ _ Hb E) as (_ & Br & Sr).
    assert (Hx : (length r <= length bs)%nat) by lia. assert (Hl' : N.of_nat (length r) < lim60) by lia.
    destruct (IH true Hs _ _ _ _ _ Br Hl' H) as (i & v' & -> & P & Brest & Sz). cbn [Nat.add enc]. cbv iota in Sz.
    split; [exact P|]. split; [exact Brest|lia].
  - (* SArrAny *) intros s IH Hs bs v rest Hb Hl H. cbn [dec wfs] in *. split_ands.
    destruct (decode_head bs) as [[[m [n|]] r]|] eqn:E; try discriminate.
    + destruct (m =? 4); [|discriminate]. bok H a E2. destruct a as [l r']. cbv beta iota in H. injection H as <- <-.
      destruct (decode_head_inv _ _ _ _ Hb E) as (Br & Sr & Hn). specialize (Hn n eq_refl).
      assert (Hx : (length r <= length bs)%nat) by lia. assert (Hl' : N.of_nat (length r) < lim60) by lia.
      destruct (dec_counted_good (dec s) (fun x => parses (enc s x)) (fun x => length (enc s x))
                  (fun b x r1 B L D => IH ltac:(assumption) b x r1 B L D) _ _ _ _ Br Hl' E2) as (P & Brest & Sz & Ln).
      rewrite <- concat_length_sum in Sz. cbn [enc]. rewrite app_length. pose proof (head_len9 4 (N.of_nat (length l))).
      split; [|split; [exact Brest|lia]].
      rewrite <- (map_length (enc s) l). apply parses_array; [apply good_items, P|]. rewrite len_map. unfold len. lia.
    + destruct (m =? 4); [|discriminate]. bok H a E2. destruct a as [l r']. cbv beta iota in H. injection H as <- <-.
      destruct (decode_head_inv _ _ _ _ Hb E) as (Br & Sr & _).
      assert (Hx : (length r <= length bs)%nat) by lia. assert (Hl' : N.of_nat (length r) < lim60) by lia.
      destruct (dec_until_break_good (dec s) (fun x => parses (enc s x)) (fun x => length (enc s x))
                  (fun b x r1 B L D => IH ltac:(assumption) b x r1 B L D) _ _ _ _ Br Hl' E2) as (P & Brest & Sz).
      rewrite <- concat_length_sum in Sz. cbn [enc length]. rewrite app_length. cbn [length].
      split; [apply parses_array_indef, good_items, P|]. split; [exact Brest|lia].
  - (* SBBytes *) intros _ bs v rest Hb Hl H. cbn [dec] in H.
    destruct (decode_head bs) as [[[m [n|]] r]|] eqn:E; try discriminate.
    + destruct ((m =? 2) && (n <=? 64)) eqn:Ec; [|discriminate]. apply andb_prop in Ec. destruct Ec as [_ Ec].
      bok H a E2. destruct a as [b r']. cbv beta iota in H. injection H as <- <-.
      destruct (decode_head_inv _ _ _ _ Hb E) as (Br & Sr & _). apply take_bytes_inv in E2. destruct E2 as [-> Hlen].
      apply bytes_ok_app in Br. rewrite app_length in Sr. cbn [enc].
      destruct (N.of_nat (length b) <=? 64) eqn:E64; [|lia]. rewrite app_length. pose proof (head_len9 2 (N.of_nat (length b))).
      split; [apply parses_bstr; unfold len, two64; lia|]. split; [tauto|lia].
    + destruct (m =? 2); [|discriminate]. bok H a E2. destruct a as [cs r']. cbv beta iota in H. injection H as <- <-.
      destruct (decode_head_inv _ _ _ _ Hb E) as (Br & Sr & _).
      assert (Hx : (length r <= length bs)%nat) by lia. assert (Hl' : N.of_nat (length r) < lim60) by lia.
      destruct (dec_until_break_good dec_chunk (fun _ => True) (fun c => (3 * length c)%nat) dec_chunk_good _ _ _ _ Br Hl' E2) as (_ & Brest & Sz).
      assert (HL : list_sum (map (fun c : bytes => (3 * length c)%nat) cs) = (3 * length (concat cs))%nat).
      { clear. induction cs as [|c t IH]; [reflexivity|]. cbn [map list_sum fold_right concat] in *. rewrite app_length.
        change (fold_right Init.Nat.add 0%nat (map (fun c0 : bytes => (3 * length c0)%nat) t)) with (list_sum (map (fun c0 : bytes => (3 * length c0)%nat) t)).
        rewrite IH. lia. }
      rewrite HL in Sz. cbn [enc]. destruct (N.of_nat (length (concat cs)) <=? 64) eqn:E64.
      * rewrite app_length. pose proof (head_len9 2 (N.of_nat (length (concat cs)))).
        split; [apply parses_bstr; unfold len, two64; lia|]. split; [exact Brest|lia].
      * cbn [length]. rewrite app_length. cbn [length]. pose proof (chunks_len (length (concat cs)) (concat cs) (Nat.le_refl _)).
        split; [|split; [exact Brest|lia]].
        apply parses_chunked. apply Forall_forall. intros c Hc. apply chunk64_bounds in Hc. unfold len, two64. lia.
  - (* SNamed *) intros id s IH Hs bs v rest Hb Hl H. cbn [dec wfs enc] in *. apply IH; assumption.
  - (* SArrOpt *) intros fs IHfs o IHo Hs bs v rest Hb Hl H. cbn [dec wfs] in *. split_ands.
    bok H a E. destruct a as [n r]. cbv beta iota in H. destruct (dec_head_m_inv _ _ _ _ Hb E) as (Hn & Br & Sr).
    assert (Hx : (length r <= length bs)%nat) by lia. assert (Hl' : N.of_nat (length r) < lim60) by lia.
    destruct (n =? slen fs).
    + bok H a E2. destruct a as [l r']. cbv beta iota in H. injection H as <- <-.
      destruct (IHfs ltac:(assumption) _ _ _ Br Hl' E2) as (bl & Ebl & Hlen & Pbl & Brest & Sz).
      cbn [enc]. rewrite app_length. pose proof (head_len9 4 (slen fs)). split; [|split; [exact Brest|lia]].
      rewrite Ebl, <- Hlen. apply parses_array; [exact Pbl|].
      match goal with Hq : (1 + slen fs <? two64) = true |- _ => apply N.ltb_lt in Hq; rewrite <- Hlen in Hq; eapply N.lt_trans; [|exact Hq]; apply N.lt_add_pos_l; reflexivity end.
    + destruct (n =? 1 + slen fs); [|discriminate].
      bok H a E2. destruct a as [l r1]. cbv beta iota in H. bok H a E3. destruct a as [x r2]. cbv beta iota in H. injection H as <- <-.
      destruct (IHfs ltac:(assumption) _ _ _ Br Hl' E2) as (bl & Ebl & Hlen & Pbl & B1 & Sz1).
      assert (Hy : (length r1 <= length bs)%nat) by lia. assert (Hl1 : N.of_nat (length r1) < lim60) by lia.
      destruct (IHo ltac:(assumption) _ _ _ B1 Hl1 E3) as (Po & Brest & Sz2).
      cbn [enc]. rewrite !app_length. pose proof (head_len9 4 (1 + slen fs)). split; [|split; [exact Brest|lia]].
      rewrite Ebl, <- Hlen. apply parses_array_snoc; [exact Pbl|exact Po|].
      match goal with Hq : (1 + slen fs <? two64) = true |- _ => apply N.ltb_lt in Hq; rewrite <- Hlen in Hq; exact Hq end.
  - (* SNil *) intros _ bs l rest Hb Hl H. cbn [dec_sl] in H. injection H as <- <-. exists []. cbn [enc_sl concat slen length].
    split; [reflexivity|]. split; [reflexivity|]. split; [constructor|]. split; [exact Hb|lia].
  - (* SCons *) intros s IH r IHr Hs bs l rest Hb Hl H. cbn [dec_sl wfs_sl] in *. split_ands.
    bok H a E. destruct a as [v b1]. cbv beta iota in H. bok H a E2. destruct a as [l' b2]. cbv beta iota in H. injection H as <- <-.
    destruct (IH ltac:(assumption) _ _ _ Hb Hl E) as (P1 & B1 & S1).
    assert (Hx : (length b1 <= length bs)%nat) by lia. assert (Hl' : N.of_nat (length b1) < lim60) by lia.
    destruct (IHr ltac:(assumption) _ _ _ B1 Hl' E2) as (bl & Ebl & Hlen & Pbl & Brest & Sz).
    exists (enc s v :: bl). cbn [enc_sl concat slen]. rewrite app_length.
    split; [rewrite Ebl; reflexivity|]. split; [rewrite len_cons; f_equal; exact Hlen|].
    split; [constructor; assumption|]. split; [exact Brest|lia].
  - (* KNil *) intros _ _ rem bs l rem' rest Hb Hl H. cbn [dec_kl] in H. injection H as <- _ <-. exists [].
    cbn [enc_kl map concat count_kl length]. split; [reflexivity|]. split; [reflexivity|]. split; [constructor|]. split; [exact Hb|lia].
  - (* KCons *) intros k p s IH r IHr Hs Hk rem bs l rem' rest Hb Hl H. cbn [dec_kl wfs_kl keys_nodup] in *. split_ands.
    match type of H with (match ?h with _ => _ end) = _ => destruct h as [b1|] eqn:Eh end.
    + (* the key is there *)
      assert (Hb1 : bytes_ok b1 /\ (length b1 < length bs)%nat).
      { destruct (rem =? 0); [discriminate|]. destruct (dec_head_m 0 bs) as [[k' b1']| | |] eqn:Ek; try discriminate.
        destruct (k' =? k); [|discriminate]. injection Eh as <-. destruct (dec_head_m_inv _ _ _ _ Hb Ek) as (_ & B & S). split; assumption. }
      destruct Hb1 as [Bb1 Sb1]. bok H a E. destruct a as [v b2]. cbv beta iota in H.
      destruct (match p with OptNE => is_empty_val v | _ => false end) eqn:Ee; [discriminate|].
      bok H a E2. destruct a as [[l' rem1] b3]. cbv beta iota in H. injection H as <- _ <-.
      assert (Hx : (length b1 <= length bs)%nat) by lia. assert (Hl1 : N.of_nat (length b1) < lim60) by lia.
      destruct (IH ltac:(assumption) _ _ _ Bb1 Hl1 E) as (P1 & B2 & S2).
      assert (Hy : (length b2 <= length bs)%nat) by lia. assert (Hl2 : N.of_nat (length b2) < lim60) by lia.
      destruct (IHr ltac:(assumption) ltac:(assumption) _ _ _ _ _ B2 Hl2 E2) as (pl & Epl & Hlen & Ppl & Brest & Sz).
      assert (Hpres : present p (Some v) = true) by (unfold present; destruct p; [reflexivity|reflexivity|rewrite Ee; reflexivity]).
      exists ((enc_uint k, enc s v) :: pl). cbn [enc_kl count_kl map concat]. rewrite Hpres. unfold pair_bytes at 1. cbn [fst snd].
      rewrite !app_length. pose proof (head_len9 0 k). unfold enc_uint in *.
      split; [rewrite Epl, <- app_assoc; reflexivity|]. split; [rewrite len_cons; f_equal; exact Hlen|].
      split; [constructor; [cbn [fst snd]; split; [apply parses_uint; lia|exact P1]|exact Ppl]|]. split; [exact Brest|lia].
    + (* the key is absent *)
      destruct p; [discriminate| |];
        (bok H a E2; destruct a as [[l' rem1] b3]; cbv beta iota in H; injection H as <- _ <-;
         destruct (IHr ltac:(assumption) ltac:(assumption) _ _ _ _ _ Hb Hl E2) as (pl & Epl & Hlen & Ppl & Brest & Sz);
         exists pl; cbn [enc_kl count_kl present app];
         split; [exact Epl|]; split; [rewrite N.add_0_l; exact Hlen|]; split; [exact Ppl|]; split; [exact Brest|exact Sz]).
  - (* ANil *) intros _ idx n pos bs v rest _ _ H. discriminate.
  - (* ACons *) intros i0 fs IH r IHr Hs idx n pos bs v rest Hb Hl H. cbn [dec_vl wfs_vl] in *. split_ands.
    destruct (idx =? i0).
    + destruct (n =? 1 + slen fs); [|discriminate]. bok H a E. destruct a as [l b1]. cbv beta iota in H. injection H as <- <-.
      destruct (IH ltac:(assumption) _ _ _ Hb Hl E) as (bl & Ebl & Hlen & Pbl & Brest & Sz).
      exists O, l. rewrite Nat.add_0_r. split; [reflexivity|]. cbn [enc_vl]. rewrite !app_length.
      pose proof (head_len9 4 (1 + slen fs)). pose proof (head_len9 0 i0). unfold enc_uint in *.
      split; [|split; [exact Brest|lia]].
      assert (Hc : len (encode_head 0 i0 :: bl) = 1 + slen fs) by (rewrite len_cons; f_equal; exact Hlen).
      rewrite Ebl, <- Hc. change (encode_head 0 i0 ++ concat bl) with (concat (encode_head 0 i0 :: bl)).
      apply parses_array; [constructor; [apply parses_uint; lia|exact Pbl]|]. rewrite Hc. lia.
    + destruct (IHr ltac:(assumption) _ _ _ _ _ _ Hb Hl H) as (i & l & -> & P & Brest & Sz).
      exists (S i), l. rewrite Nat.add_succ_r. split; [reflexivity|]. cbn [enc_vl]. split; [exact P|]. split; [exact Brest|exact Sz].
  - (* CNil *) intros tagged _ d pos bs v rest _ _ H. discriminate.
  - (* CCons *) intros d0 s IH r IHr tagged Hs d pos bs v rest Hb Hl H. cbn [dec_cl wfs_cl] in *. split_ands.
    destruct (d =? d0).
    + bok H a E. destruct a as [v0 b1]. cbv beta iota in H. injection H as <- <-.
      destruct (IH ltac:(assumption) _ _ _ Hb Hl E) as (P & Brest & Sz).
      exists O, v0. rewrite Nat.add_0_r. split; [reflexivity|]. cbn [enc_cl]. rewrite app_length. pose proof (head_len9 6 d0).
      destruct tagged; cbv iota; [split; [apply parses_tag; [lia|exact P]|split; [exact Brest|lia]]|].
      cbn [app length]. split; [exact P|]. split; [exact Brest|lia].
    + destruct (IHr tagged ltac:(assumption) _ _ _ _ _ Hb Hl H) as (i & v' & -> & P & Brest & Sz).
      exists (S i), v'. rewrite Nat.add_succ_r. split; [reflexivity|]. cbn [enc_cl]. split; [exact P|]. split; [exact Brest|exact Sz].
Qed.

(* whatever the schema decoder accepts re-serialises to one well-formed data item *)
Theorem schema_reserialise_full s bs v rest :
  wfs s = true -> bytes_ok bs -> N.of_nat (length bs) < lim60 -> dec s bs = Ok (v, rest) -> item_wf (enc s v) = true.
Proof.
  intros Hs Hb Hl H. destruct (proj1 reserialise_all s Hs bs v rest Hb Hl H) as ([it Hit] & _ & _).
  unfold item_wf, parse_exact, parse_one, default_fuel.
  specialize (Hit [] (S (length (enc s v))) ltac:(lia)). rewrite app_nil_r in Hit. rewrite Hit. reflexivity.
Qed.

(* and the re-serialisation is at most nine times as long as the input it was decoded from *)
Theorem schema_reserialise_size s bs v rest :
  wfs s = true -> bytes_ok bs -> N.of_nat (length bs) < lim60 -> dec s bs = Ok (v, rest) ->
  (length (enc s v) + 9 * length rest <= 9 * length bs)%nat.
Proof. intros Hs Hb Hl H. exact (proj2 (proj2 (proj1 reserialise_all s Hs bs v rest Hb Hl H))). Qed.
