(* C02: the lenient acceptor really is more lenient than the strict schema decoder:
   whatever [dec] accepts, [acc] accepts, leaving the same rest.  (Lower half of the sandwich
   dec accepts => the library accepts => acc accepts; the upper half is checked by the correspondence run.) *)
From CSL Require Import Base.Prelude Cbor.Head Cbor.HeadProofs Codec.Schema Codec.SchemaProofs Total.Lax.
Local Open Scope N_scope.

Lemma bind_ok' {A B} (r : result A) (f : A -> result B) y : bind r f = Ok y -> exists a, r = Ok a /\ f a = Ok y.
Proof. destruct r; cbn; try discriminate. intros H. eexists; split; [reflexivity|exact H]. Qed.
Ltac bok H a E := apply bind_ok' in H; destruct H as (a & E & H).

Lemma dec_head_m_lhead m bs n r : dec_head_m m bs = Ok (n, r) -> lhead m bs = Some (Arg n, r).
Proof.
  unfold dec_head_m, lhead. destruct (decode_head bs) as [[[m' [n'|]] r']|]; try discriminate.
  destruct (m' =? m); [|discriminate]. intros H. injection H as <- <-. reflexivity.
Qed.
Lemma dec_head_m_luint bs n r : dec_head_m 0 bs = Ok (n, r) -> luint bs = Some (n, r).
Proof. intros H. unfold luint. rewrite (dec_head_m_lhead _ _ _ _ H). reflexivity. Qed.

Lemma take_bytes_ltake n (bs p r : bytes) : Schema.take_bytes n bs = Ok (p, r) -> ltake n bs = Some (p, r).
Proof.
  unfold Schema.take_bytes, ltake. destruct (N.of_nat (length bs) <? n) eqn:E; [discriminate|].
  unfold split_at. destruct (N.to_nat n <=? length bs)%nat; [|discriminate]. intros H. injection H as <- <-.
  destruct (n <=? N.of_nat (length bs)) eqn:E2; [reflexivity|lia].
Qed.

(* a head of major type 4 or 5 is not a tag: nothing to strip *)
Lemma strip258_not_tag bs m a r : decode_head bs = Some (m, a, r) -> m <> 6 -> strip258 bs = bs.
Proof. intros H Hm. unfold strip258, lhead. rewrite H. destruct (m =? 6) eqn:E; [lia|reflexivity]. Qed.
Lemma strip258x2_head bs m n r : dec_head_m m bs = Ok (n, r) -> m <> 6 -> strip258x2 bs = bs.
Proof.
  intros H Hm. unfold dec_head_m in H. destruct (decode_head bs) as [[[m' a] r']|] eqn:E; [|discriminate].
  assert (m' = m) as -> by (destruct a; [destruct (m' =? m) eqn:Em; [lia|discriminate]|discriminate]).
  unfold strip258x2. rewrite !(strip258_not_tag _ _ _ _ E Hm). reflexivity.
Qed.

Lemma acc_n_of_dec_n {A} (p : parser A) (q : acceptor) : (forall bs x r, p bs = Ok (x, r) -> q bs = Some r) ->
  forall n bs xs rest, dec_n p n bs = Ok (xs, rest) -> acc_n q n bs = Some rest.
Proof.
  intros Hq. induction n as [|n IH]; intros bs xs rest H; cbn [dec_n acc_n] in *.
  - injection H as _ <-. reflexivity.
  - bok H a E1. destruct a as [x r]. cbv beta iota in H. bok H a E2. destruct a as [xs' r']. cbv beta iota in H.
    injection H as _ <-. rewrite (Hq _ _ _ E1). exact (IH _ _ _ E2).
Qed.
Lemma acc_items_of_dec_counted {A} (p : parser A) (q : acceptor) : (forall bs x r, p bs = Ok (x, r) -> q bs = Some r) ->
  forall n bs xs rest, dec_counted p n bs = Ok (xs, rest) -> acc_items q (Arg n) bs = Some rest.
Proof.
  intros Hq n bs xs rest H. unfold dec_counted in H. unfold acc_items.
  destruct (N.of_nat (length bs) <? n) eqn:E; [discriminate|]. destruct (n <=? N.of_nat (length bs)) eqn:E2; [|lia].
  exact (acc_n_of_dec_n p q Hq _ _ _ _ H).
Qed.
Lemma acc_until_break_of_dec {A} (p : parser A) (q : acceptor) : (forall bs x r, p bs = Ok (x, r) -> q bs = Some r) ->
  forall fuel bs xs rest, dec_until_break p fuel bs = Ok (xs, rest) -> acc_until_break q fuel bs = Some rest.
Proof.
  intros Hq. induction fuel as [|f IH]; intros bs xs rest H; cbn [dec_until_break acc_until_break] in *; [discriminate|].
  destruct bs as [|b r]; [discriminate|]. cbn [is_break]. destruct (b =? 255).
  - injection H as _ <-. reflexivity.
  - bok H a E1. destruct a as [x r']. cbv beta iota in H. rewrite (Hq _ _ _ E1).
    destruct (length r' <? length (b :: r))%nat; [|discriminate].
    bok H a E2. destruct a as [xs' r'']. cbv beta iota in H. injection H as _ <-. exact (IH _ _ _ E2).
Qed.

Lemma lchunks_of_dec : forall fuel bs cs rest acc0, dec_until_break dec_chunk fuel bs = Ok (cs, rest) ->
  lchunks 2 (Some 64) fuel bs acc0 = Some (acc0 ++ concat cs, rest).
Proof.
  induction fuel as [|f IH]; intros bs cs rest acc0 H; cbn [dec_until_break lchunks] in *; [discriminate|].
  destruct bs as [|b r]; [discriminate|]. cbn [is_break]. destruct (b =? 255).
  - injection H as <- <-. cbn [concat]. rewrite app_nil_r. reflexivity.
  - bok H a E1. destruct a as [c r']. cbv beta iota in H. destruct (length r' <? length (b :: r))%nat; [|discriminate].
    bok H a E2. destruct a as [cs' r'']. cbv beta iota in H. injection H as <- <-.
    unfold dec_chunk in E1. bok E1 a E3. destruct a as [n r0]. cbv beta iota in E1.
    destruct (n <=? 64) eqn:E64; [|discriminate].
    rewrite (dec_head_m_lhead _ _ _ _ E3). destruct (64 <? n) eqn:E65; [lia|].
    rewrite (take_bytes_ltake _ _ _ _ E1). rewrite (IH _ _ _ (acc0 ++ c) E2). cbn [concat]. rewrite app_assoc. reflexivity.
Qed.

(* ---------- the strict decoder never returns more than it was given ---------- *)
Lemma dec_head_m_shorter m bs n r : dec_head_m m bs = Ok (n, r) -> (length r < length bs)%nat.
Proof.
  unfold dec_head_m. destruct (decode_head bs) as [[[m' [n'|]] r']|] eqn:E; try discriminate.
  destruct (m' =? m); [|discriminate]. intros H. injection H as _ <-. exact (decode_head_shorter _ _ _ _ E).
Qed.
Lemma take_bytes_shorter n (bs p r : bytes) : Schema.take_bytes n bs = Ok (p, r) -> (length r <= length bs)%nat.
Proof.
  unfold Schema.take_bytes. destruct (_ <? _); [discriminate|]. unfold split_at.
  destruct (_ <=? _)%nat; [|discriminate]. intros H. injection H as _ <-. rewrite skipn_length. lia.
Qed.
Lemma dec_n_shorter {A} (p : parser A) : (forall bs x r, p bs = Ok (x, r) -> (length r <= length bs)%nat) ->
  forall n bs xs rest, dec_n p n bs = Ok (xs, rest) -> (length rest <= length bs)%nat.
Proof.
  intros Hp. induction n as [|n IH]; intros bs xs rest H; cbn [dec_n] in H.
  - injection H as _ <-. lia.
  - bok H a E1. destruct a as [x r]. cbv beta iota in H. bok H a E2. destruct a as [xs' r']. cbv beta iota in H.
    injection H as _ <-. specialize (Hp _ _ _ E1). specialize (IH _ _ _ E2). lia.
Qed.
Lemma dec_counted_shorter {A} (p : parser A) : (forall bs x r, p bs = Ok (x, r) -> (length r <= length bs)%nat) ->
  forall n bs xs rest, dec_counted p n bs = Ok (xs, rest) -> (length rest <= length bs)%nat.
Proof. intros Hp n bs xs rest H. unfold dec_counted in H. destruct (_ <? _); [discriminate|]. exact (dec_n_shorter p Hp _ _ _ _ H). Qed.
Lemma dec_until_break_shorter {A} (p : parser A) :
  forall fuel bs xs rest, dec_until_break p fuel bs = Ok (xs, rest) -> (length rest <= length bs)%nat.
Proof.
  induction fuel as [|f IH]; intros bs xs rest H; cbn [dec_until_break] in H; [discriminate|].
  destruct bs as [|b r]; [discriminate|]. destruct (b =? 255).
  - injection H as _ <-. cbn. lia.
  - bok H a E1. destruct a as [x r']. cbv beta iota in H. destruct (length r' <? length (b :: r))%nat eqn:El; [|discriminate].
    apply Nat.ltb_lt in El. bok H a E2. destruct a as [xs' r'']. cbv beta iota in H. injection H as _ <-.
    specialize (IH _ _ _ E2). lia.
Qed.

Definition SH (s : schema) : Prop := forall bs v rest, dec s bs = Ok (v, rest) -> (length rest <= length bs)%nat.
Definition SHs (fs : slist) : Prop := forall bs l rest, dec_sl fs bs = Ok (l, rest) -> (length rest <= length bs)%nat.
Definition SHk (fs : klist) : Prop := forall rem bs l rem' rest, dec_kl fs rem bs = Ok (l, rem', rest) -> (length rest <= length bs)%nat.
Definition SHv (alts : vlist) : Prop := forall idx n pos bs v rest, dec_vl alts idx n pos bs = Ok (v, rest) -> (length rest <= length bs)%nat.
Definition SHc (alts : clist) : Prop := forall d pos bs v rest, dec_cl alts d pos bs = Ok (v, rest) -> (length rest <= length bs)%nat.

Lemma dec_shorter_all : (forall s, SH s) /\ (forall fs, SHs fs) /\ (forall fs, SHk fs) /\ (forall a, SHv a) /\ (forall a, SHc a).
Proof.
  apply schema_mutind; unfold SH, SHs, SHk, SHv, SHc.
  - intros lim bs v rest H. cbn [dec] in H. bok H a E. destruct a as [n r]. cbv beta iota in H. destruct (n <? lim); [|discriminate].
    injection H as _ <-. apply dec_head_m_shorter in E. lia.
  - intros bs v rest H. cbn [dec] in H. bok H a E. destruct a as [n r]. cbv beta iota in H. injection H as _ <-. apply dec_head_m_shorter in E. lia.
  - intros lo hi bs v rest H. cbn [dec] in H. bok H a E. destruct a as [n r]. cbv beta iota in H. destruct (_ && _); [|discriminate].
    bok H a E2. destruct a as [b r']. cbv beta iota in H. injection H as _ <-. apply dec_head_m_shorter in E. apply take_bytes_shorter in E2. lia.
  - intros hi bs v rest H. cbn [dec] in H. bok H a E. destruct a as [n r]. cbv beta iota in H. destruct (_ <=? _); [|discriminate].
    bok H a E2. destruct a as [b r']. cbv beta iota in H. injection H as _ <-. apply dec_head_m_shorter in E. apply take_bytes_shorter in E2. lia.
  - intros bs v rest H. cbn [dec] in H. destruct bs as [|b r]; [discriminate|].
    destruct (b =? 244); [injection H as _ <-; cbn; lia|]. destruct (b =? 245); [injection H as _ <-; cbn; lia|discriminate].
  - intros fs IH bs v rest H. cbn [dec] in H. bok H a E. destruct a as [n r]. cbv beta iota in H. destruct (_ =? _); [|discriminate].
    bok H a E2. destruct a as [l r']. cbv beta iota in H. injection H as _ <-. apply dec_head_m_shorter in E. apply IH in E2. lia.
  - intros fs IH bs v rest H. cbn [dec] in H. bok H a E. destruct a as [n r]. cbv beta iota in H.
    bok H a E2. destruct a as [[l rem] r']. cbv beta iota in H. destruct (rem =? 0); [|discriminate]. injection H as _ <-.
    apply dec_head_m_shorter in E. apply IH in E2. lia.
  - intros alts IH bs v rest H. cbn [dec] in H. bok H a E. destruct a as [n r]. cbv beta iota in H.
    bok H a E2. destruct a as [idx r']. cbv beta iota in H. apply dec_head_m_shorter in E. apply dec_head_m_shorter in E2. apply IH in H. lia.
  - intros lo s IH bs v rest H. cbn [dec] in H. bok H a E. destruct a as [n r]. cbv beta iota in H. destruct (lo <=? n); [|discriminate].
    bok H a E2. destruct a as [l r']. cbv beta iota in H. injection H as _ <-. apply dec_head_m_shorter in E.
    apply (dec_counted_shorter (dec s) IH) in E2. lia.
  - intros s IH bs v rest H. cbn [dec] in H. bok H a E. destruct a as [t r0]. cbv beta iota in H. destruct (t =? 258); [|discriminate].
    bok H a E1. destruct a as [n r]. cbv beta iota in H. bok H a E2. destruct a as [l r']. cbv beta iota in H. injection H as _ <-.
    apply dec_head_m_shorter in E. apply dec_head_m_shorter in E1. apply (dec_counted_shorter (dec s) IH) in E2. lia.
  - intros lo ord k IHk v' IHv bs v rest H. cbn [dec] in H. bok H a E. destruct a as [n r]. cbv beta iota in H. destruct (lo <=? n); [|discriminate].
    bok H a E2. destruct a as [l r']. cbv beta iota in H. injection H as _ <-. apply dec_head_m_shorter in E.
    apply dec_counted_shorter in E2; [lia|]. intros b x r1 D. cbv beta in D. bok D a E3. destruct a as [x1 b1]. cbv beta iota in D.
    bok D a E4. destruct a as [y1 b2]. cbv beta iota in D. injection D as _ <-. apply IHk in E3. apply IHv in E4. lia.
  - intros s IH bs v rest H. cbn [dec] in H. destruct bs as [|b r]; [discriminate|].
    destruct (b =? 246); [injection H as _ <-; cbn; lia|apply IH in H; exact H].
  - intros t s IH bs v rest H. cbn [dec] in H. bok H a E. destruct a as [t' r]. cbv beta iota in H. destruct (t' =? t); [|discriminate].
    apply dec_head_m_shorter in E. apply IH in H. lia.
  - intros s IH bs v rest H. cbn [dec] in H. bok H a E. destruct a as [n r]. cbv beta iota in H. bok H a E2. destruct a as [b r']. cbv beta iota in H.
    destruct (dec s b) as [[v0 [|? ?]]| | |]; try discriminate. injection H as _ <-. apply dec_head_m_shorter in E. apply take_bytes_shorter in E2. lia.
  - intros alts IH bs v rest H. cbn [dec] in H. destruct (peek_major bs); [|discriminate]. exact (IH _ _ _ _ _ H).
  - intros alts IH bs v rest H. cbn [dec] in H. bok H a E. destruct a as [t r]. cbv beta iota in H. apply dec_head_m_shorter in E. apply IH in H. lia.
  - intros s IH bs v rest H. cbn [dec] in H. destruct (decode_head bs) as [[[m [n|]] r]|] eqn:E; try discriminate.
    + destruct (m =? 4); [|discriminate]. bok H a E2. destruct a as [l r']. cbv beta iota in H. injection H as _ <-.
      apply decode_head_shorter in E. apply (dec_counted_shorter (dec s) IH) in E2. lia.
    + destruct (m =? 4); [|discriminate]. bok H a E2. destruct a as [l r']. cbv beta iota in H. injection H as _ <-.
      apply decode_head_shorter in E. apply dec_until_break_shorter in E2. lia.
  - intros bs v rest H. cbn [dec] in H. destruct (decode_head bs) as [[[m [n|]] r]|] eqn:E; try discriminate.
    + destruct (_ && _); [|discriminate]. bok H a E2. destruct a as [b r']. cbv beta iota in H. injection H as _ <-.
      apply decode_head_shorter in E. apply take_bytes_shorter in E2. lia.
    + destruct (m =? 2); [|discriminate]. bok H a E2. destruct a as [cs r']. cbv beta iota in H. injection H as _ <-.
      apply decode_head_shorter in E. apply dec_until_break_shorter in E2. lia.
  - intros id s IH bs v rest H. cbn [dec] in H. exact (IH _ _ _ H).
  - intros fs IHfs o IHo bs v rest H. cbn [dec] in H. bok H a E. destruct a as [n r]. cbv beta iota in H. apply dec_head_m_shorter in E.
    destruct (n =? slen fs).
    + bok H a E2. destruct a as [l r']. cbv beta iota in H. injection H as _ <-. apply IHfs in E2. lia.
    + destruct (n =? 1 + slen fs); [|discriminate]. bok H a E2. destruct a as [l r1]. cbv beta iota in H.
      bok H a E3. destruct a as [x r2]. cbv beta iota in H. injection H as _ <-. apply IHfs in E2. apply IHo in E3. lia.
  - intros bs l rest H. cbn [dec_sl] in H. injection H as _ <-. lia.
  - intros s IH r IHr bs l rest H. cbn [dec_sl] in H. bok H a E. destruct a as [v b1]. cbv beta iota in H.
    bok H a E2. destruct a as [l' b2]. cbv beta iota in H. injection H as _ <-. apply IH in E. apply IHr in E2. lia.
  - intros rem bs l rem' rest H. cbn [dec_kl] in H. injection H as _ _ <-. lia.
  - intros k p s IH r IHr rem bs l rem' rest H. cbn [dec_kl] in H.
    match type of H with (match ?h with _ => _ end) = _ => destruct h as [b1|] eqn:Eh end.
    + assert (Sb : (length b1 < length bs)%nat).
      { destruct (rem =? 0); [discriminate|]. destruct (dec_head_m 0 bs) as [[k' b1']| | |] eqn:Ek; try discriminate.
        destruct (k' =? k); [|discriminate]. injection Eh as <-. exact (dec_head_m_shorter _ _ _ _ Ek). }
      bok H a E. destruct a as [v b2]. cbv beta iota in H. destruct (match p with OptNE => is_empty_val v | _ => false end); [discriminate|].
      bok H a E2. destruct a as [[l' rem1] b3]. cbv beta iota in H. injection H as _ _ <-. apply IH in E. apply IHr in E2. lia.
    + destruct p; [discriminate| |]; (bok H a E2; destruct a as [[l' rem1] b3]; cbv beta iota in H; injection H as _ _ <-; apply IHr in E2; exact E2).
  - intros idx n pos bs v rest H. discriminate.
  - intros i fs IH r IHr idx n pos bs v rest H. cbn [dec_vl] in H. destruct (idx =? i); [|exact (IHr _ _ _ _ _ _ H)].
    destruct (_ =? _); [|discriminate]. bok H a E. destruct a as [l b1]. cbv beta iota in H. injection H as _ <-. exact (IH _ _ _ E).
  - intros d pos bs v rest H. discriminate.
  - intros d0 s IH r IHr d pos bs v rest H. cbn [dec_cl] in H. destruct (d =? d0); [|exact (IHr _ _ _ _ _ H)].
    bok H a E. destruct a as [v0 b1]. cbv beta iota in H. injection H as _ <-. exact (IH _ _ _ E).
Qed.

Lemma dec_shorter s bs v rest : dec s bs = Ok (v, rest) -> (length rest <= length bs)%nat.
Proof. exact (proj1 dec_shorter_all s bs v rest). Qed.

(* every field a map structure reads costs at least one byte *)
Lemma dec_kl_count : forall fs rem bs l rem' rest, dec_kl fs rem bs = Ok (l, rem', rest) ->
  rem' <= rem /\ (N.to_nat (rem - rem') + length rest <= length bs)%nat.
Proof.
  induction fs as [|k p s r IH]; intros rem bs l rem' rest H; cbn [dec_kl] in H.
  - injection H as _ <- <-. split; [lia|]. rewrite N.sub_diag. cbn. lia.
  - match type of H with (match ?h with _ => _ end) = _ => destruct h as [b1|] eqn:Eh end.
    + assert (Sb : (length b1 < length bs)%nat /\ rem <> 0).
      { destruct (rem =? 0) eqn:E0; [discriminate|]. destruct (dec_head_m 0 bs) as [[k' b1']| | |] eqn:Ek; try discriminate.
        destruct (k' =? k); [|discriminate]. injection Eh as <-. split; [exact (dec_head_m_shorter _ _ _ _ Ek)|lia]. }
      destruct Sb as [Sb R0]. bok H a E. destruct a as [v b2]. cbv beta iota in H.
      destruct (match p with OptNE => is_empty_val v | _ => false end); [discriminate|].
      bok H a E2. destruct a as [[l' rem1] b3]. cbv beta iota in H. injection H as _ <- <-.
      apply dec_shorter in E. destruct (IH _ _ _ _ _ E2) as [L1 L2]. split; [lia|].
      replace (N.to_nat (rem - rem1)) with (S (N.to_nat (rem - 1 - rem1))) by lia. lia.
    + destruct p; [discriminate| |]; (bok H a E2; destruct a as [[l' rem1] b3]; cbv beta iota in H; injection H as _ <- <-; exact (IH _ _ _ _ _ E2)).
Qed.

(* ---------- dec accepts => acc accepts ---------- *)
Definition LS (s : schema) : Prop := wfs s = true -> forall bs v rest, dec s bs = Ok (v, rest) -> acc s bs = Some rest.
Definition LSs (fs : slist) : Prop := wfs_sl fs = true -> forall bs l rest, dec_sl fs bs = Ok (l, rest) ->
  acc_sl fs bs = Some rest /\ acc_sl_n fs (N.to_nat (slen fs)) bs = Some rest.
Definition LSk (fs : klist) : Prop := wfs_kl fs = true -> keys_nodup fs = true ->
  forall (look : N -> option acceptor) rem bs l rem' rest fuel seen,
  (forall k, key_in k fs = true -> look k = acc_key fs k) ->
  (forall k, key_in k fs = true -> mem_N k seen = false) ->
  dec_kl fs rem bs = Ok (l, rem', rest) -> (N.to_nat rem < fuel)%nat ->
  exists fuel' seen',
    acc_fields look (Some (N.to_nat rem)) fuel seen bs = acc_fields look (Some (N.to_nat rem')) fuel' seen' rest /\
    (N.to_nat rem' < fuel')%nat /\ (forall k, mem_N k seen = true -> mem_N k seen' = true) /\
    (forall k, In k (req_keys fs) -> mem_N k seen' = true).
Definition LSv (alts : vlist) : Prop := wfs_vl alts = true -> forall idx n pos bs v rest, dec_vl alts idx n pos bs = Ok (v, rest) ->
  exists nf pn, acc_alt alts idx = Some (nf, pn) /\ n = 1 + nf /\ pn (N.to_nat nf) bs = Some rest.
Definition LSc (alts : clist) : Prop := forall tagged, wfs_cl tagged alts = true -> forall d pos bs v rest,
  dec_cl alts d pos bs = Ok (v, rest) -> acc_cl alts d bs = Some rest.

Lemma to_nat_succ n : N.to_nat (1 + n) = S (N.to_nat n).
Proof. lia. Qed.

Lemma lax_all : (forall s, LS s) /\ (forall fs, LSs fs) /\ (forall fs, LSk fs) /\ (forall a, LSv a) /\ (forall a, LSc a).
Proof.
  apply schema_mutind; unfold LS, LSs, LSk, LSv, LSc.
  - (* SUint *) intros lim Hs bs v rest H. cbn [dec acc] in *. bok H a E. destruct a as [n r]. cbv beta iota in H.
    rewrite (dec_head_m_luint _ _ _ E). destruct (n <? lim); [|discriminate]. injection H as _ <-. reflexivity.
  - (* SNint *) intros _ bs v rest H. cbn [dec acc] in *. bok H a E. destruct a as [n r]. cbv beta iota in H. injection H as _ <-.
    rewrite (dec_head_m_lhead _ _ _ _ E). reflexivity.
  - (* SBytes *) intros lo hi Hs bs v rest H. cbn [dec acc] in *. bok H a E. destruct a as [n r]. cbv beta iota in H.
    destruct (_ && _); [|discriminate]. bok H a E2. destruct a as [b r']. cbv beta iota in H. injection H as _ <-.
    unfold lstring. rewrite (dec_head_m_lhead _ _ _ _ E), (take_bytes_ltake _ _ _ _ E2). reflexivity.
  - (* SText *) intros hi Hs bs v rest H. cbn [dec acc] in *. bok H a E. destruct a as [n r]. cbv beta iota in H.
    destruct (_ <=? _); [|discriminate]. bok H a E2. destruct a as [b r']. cbv beta iota in H. injection H as _ <-.
    unfold lstring. rewrite (dec_head_m_lhead _ _ _ _ E), (take_bytes_ltake _ _ _ _ E2). reflexivity.
  - (* SBool *) intros _ bs v rest H. cbn [dec acc] in *. destruct bs as [|b r]; [discriminate|].
    destruct (b =? 244); [injection H as _ <-; reflexivity|]. destruct (b =? 245); [injection H as _ <-; reflexivity|discriminate].
  - (* SArr *) intros fs IH Hs bs v rest H. cbn [dec acc wfs] in *. split_ands. bok H a E. destruct a as [n r]. cbv beta iota in H.
    destruct (n =? slen fs) eqn:En; [|discriminate]. apply N.eqb_eq in En. subst n.
    bok H a E2. destruct a as [l r']. cbv beta iota in H. injection H as _ <-.
    rewrite (dec_head_m_lhead _ _ _ _ E). unfold acc_group_opt.
    destruct ((0 <=? slen fs) && (slen fs <=? 0 + slen fs)) eqn:Ec; [|lia].
    rewrite N.sub_0_r. exact (proj2 (IH ltac:(assumption) _ _ _ E2)).
  - (* SMap *) intros fs IH Hs bs v rest H. cbn [dec acc wfs] in *. split_ands. bok H a E. destruct a as [n r]. cbv beta iota in H.
    bok H a E2. destruct a as [[l rem] r']. cbv beta iota in H. destruct (rem =? 0) eqn:Er; [|discriminate]. apply N.eqb_eq in Er. subst rem.
    injection H as _ <-. rewrite (dec_head_m_lhead _ _ _ _ E).
    destruct (dec_kl_count _ _ _ _ _ _ E2) as [_ Hc]. rewrite N.sub_0_r in Hc.
    destruct (n <=? N.of_nat (length r)) eqn:En; [|lia].
    destruct (IH ltac:(assumption) ltac:(assumption) (acc_key fs) n r l 0 r' (S (S (length r))) []
                (fun k _ => eq_refl) (fun k _ => eq_refl) E2 ltac:(lia)) as (fuel' & seen' & Eq & Hf & _ & Hreq).
    rewrite Eq. destruct fuel' as [|f']; [cbn in Hf; lia|]. cbn [acc_fields N.to_nat].
    assert (Hall : forallb (fun k => mem_N k seen') (req_keys fs) = true) by (apply forallb_forall; exact Hreq).
    rewrite Hall. reflexivity.
  - (* SVar *) intros alts IH Hs bs v rest H. cbn [dec acc wfs] in *. bok H a E. destruct a as [n r]. cbv beta iota in H.
    bok H a E2. destruct a as [idx r']. cbv beta iota in H.
    rewrite (dec_head_m_lhead _ _ _ _ E), (dec_head_m_luint _ _ _ E2).
    destruct (IH Hs _ _ _ _ _ _ H) as (nf & pn & Ea & -> & Hp). rewrite Ea. unfold acc_group_opt.
    destruct ((1 <=? 1 + nf) && (1 + nf <=? 1 + nf)) eqn:Ec; [|lia].
    replace (1 + nf - 1) with nf by lia. exact Hp.
  - (* SArrOf *) intros lo s IH Hs bs v rest H. cbn [dec acc wfs] in *. bok H a E. destruct a as [n r]. cbv beta iota in H.
    destruct (lo <=? n); [|discriminate]. bok H a E2. destruct a as [l r']. cbv beta iota in H. injection H as _ <-.
    rewrite (strip258x2_head _ _ _ _ E ltac:(lia)), (dec_head_m_lhead _ _ _ _ E).
    exact (acc_items_of_dec_counted (dec s) (acc s) (IH Hs) _ _ _ _ E2).
  - (* SSetOf *) intros s IH Hs bs v rest H. cbn [dec acc wfs] in *. bok H a E. destruct a as [t r0]. cbv beta iota in H.
    destruct (t =? 258) eqn:Et; [|discriminate]. apply N.eqb_eq in Et. subst t.
    bok H a E1. destruct a as [n r]. cbv beta iota in H. bok H a E2. destruct a as [l r']. cbv beta iota in H. injection H as _ <-.
    assert (Es : strip258x2 bs = r0).
    { unfold strip258x2. assert (S1 : strip258 bs = r0) by (unfold strip258; rewrite (dec_head_m_lhead _ _ _ _ E); reflexivity).
      rewrite S1. unfold dec_head_m in E1. destruct (decode_head r0) as [[[m' a] r1]|] eqn:Eh; [|discriminate].
      assert (m' = 4) by (destruct a; [destruct (m' =? 4) eqn:Em; [lia|discriminate]|discriminate]). subst m'.
      apply (strip258_not_tag _ _ _ _ Eh). lia. }
    rewrite Es, (dec_head_m_lhead _ _ _ _ E1).
    exact (acc_items_of_dec_counted (dec s) (acc s) (IH Hs) _ _ _ _ E2).
  - (* SMapOf *) intros lo ord k IHk v' IHv Hs bs v rest H. cbn [dec acc wfs] in *. split_ands.
    bok H a E. destruct a as [n r]. cbv beta iota in H. destruct (lo <=? n); [|discriminate].
    bok H a E2. destruct a as [l r']. cbv beta iota in H. injection H as _ <-.
    rewrite (dec_head_m_lhead _ _ _ _ E). eapply acc_items_of_dec_counted; [|exact E2].
    intros b x r1 D. cbv beta in D. bok D a E3. destruct a as [x1 b1]. cbv beta iota in D. bok D a E4. destruct a as [y1 b2]. cbv beta iota in D.
    injection D as _ <-. rewrite (IHk ltac:(assumption) _ _ _ E3). exact (IHv ltac:(assumption) _ _ _ E4).
  - (* SNullable *) intros s IH Hs bs v rest H. cbn [dec acc wfs] in *. split_ands. destruct bs as [|b r]; [discriminate|].
    destruct (b =? 246); [injection H as _ <-; reflexivity|]. exact (IH ltac:(assumption) _ _ _ H).
  - (* STag *) intros t s IH Hs bs v rest H. cbn [dec acc wfs] in *. split_ands. bok H a E. destruct a as [t' r]. cbv beta iota in H.
    rewrite (dec_head_m_lhead _ _ _ _ E). destruct (t' =? t); [|discriminate]. exact (IH ltac:(assumption) _ _ _ H).
  - (* SInBytes *) intros s IH Hs bs v rest H. cbn [dec acc wfs] in *. bok H a E. destruct a as [n r]. cbv beta iota in H.
    bok H a E2. destruct a as [b r']. cbv beta iota in H.
    destruct (dec s b) as [[v0 [|? ?]]| | |] eqn:Ed; try discriminate. injection H as _ <-.
    unfold lstring. rewrite (dec_head_m_lhead _ _ _ _ E), (take_bytes_ltake _ _ _ _ E2). rewrite (IH Hs _ _ _ Ed). reflexivity.
  - (* SChoice *) intros alts IH Hs bs v rest H. cbn [dec acc wfs] in *. destruct (peek_major bs) as [m|]; [|discriminate].
    rewrite (IH false Hs _ _ _ _ _ H). reflexivity.
  - (* STagChoice *) intros alts IH Hs bs v rest H. cbn [dec acc wfs] in *. bok H a E. destruct a as [t r]. cbv beta iota in H.
    rewrite (dec_head_m_lhead _ _ _ _ E). exact (IH true Hs _ _ _ _ _ H).
  - (* SArrAny *) intros s IH Hs bs v rest H. cbn [dec acc wfs] in *. split_ands.
    destruct (decode_head bs) as [[[m [n|]] r]|] eqn:E; try discriminate.
    + destruct (m =? 4) eqn:Em; [|discriminate]. apply N.eqb_eq in Em. subst m.
      bok H a E2. destruct a as [l r']. cbv beta iota in H. injection H as _ <-.
      unfold strip258x2. rewrite !(strip258_not_tag _ _ _ _ E ltac:(lia)). unfold lhead. rewrite E. cbn [N.eqb Pos.eqb].
      exact (acc_items_of_dec_counted (dec s) (acc s) (IH ltac:(assumption)) _ _ _ _ E2).
    + destruct (m =? 4) eqn:Em; [|discriminate]. apply N.eqb_eq in Em. subst m.
      bok H a E2. destruct a as [l r']. cbv beta iota in H. injection H as _ <-.
      unfold strip258x2. rewrite !(strip258_not_tag _ _ _ _ E ltac:(lia)). unfold lhead. rewrite E. cbn [N.eqb Pos.eqb acc_items].
      exact (acc_until_break_of_dec (dec s) (acc s) (IH ltac:(assumption)) _ _ _ _ E2).
  - (* SBBytes *) intros _ bs v rest H. cbn [dec acc] in *.
    destruct (decode_head bs) as [[[m [n|]] r]|] eqn:E; try discriminate.
    + destruct ((m =? 2) && (n <=? 64)) eqn:Ec; [|discriminate]. apply andb_prop in Ec. destruct Ec as [Em E64]. apply N.eqb_eq in Em. subst m.
      bok H a E2. destruct a as [b r']. cbv beta iota in H. injection H as _ <-.
      unfold lhead. rewrite E, N.eqb_refl. rewrite E64, (take_bytes_ltake _ _ _ _ E2). reflexivity.
    + destruct (m =? 2) eqn:Em; [|discriminate]. apply N.eqb_eq in Em. subst m.
      bok H a E2. destruct a as [cs r']. cbv beta iota in H. injection H as _ <-.
      unfold lhead. rewrite E, N.eqb_refl. rewrite (lchunks_of_dec _ _ _ _ [] E2). reflexivity.
  - (* SNamed *) intros id s IH Hs bs v rest H. cbn [dec acc wfs] in *. exact (IH Hs _ _ _ H).
  - (* SArrOpt *) intros fs IHfs o IHo Hs bs v rest H. cbn [dec acc wfs] in *. split_ands. bok H a E. destruct a as [n r]. cbv beta iota in H.
    rewrite (dec_head_m_lhead _ _ _ _ E). destruct (n =? slen fs).
    + bok H a E2. destruct a as [l r']. cbv beta iota in H. injection H as _ <-. exact (proj1 (IHfs ltac:(assumption) _ _ _ E2)).
    + destruct (n =? 1 + slen fs); [|discriminate]. bok H a E2. destruct a as [l r1]. cbv beta iota in H.
      bok H a E3. destruct a as [x r2]. cbv beta iota in H. injection H as _ <-.
      rewrite (proj1 (IHfs ltac:(assumption) _ _ _ E2)). exact (IHo ltac:(assumption) _ _ _ E3).
  - (* SNil *) intros _ bs l rest H. cbn [dec_sl] in H. injection H as _ <-. split; reflexivity.
  - (* SCons *) intros s IH r IHr Hs bs l rest H. cbn [dec_sl wfs_sl] in *. split_ands.
    bok H a E. destruct a as [v b1]. cbv beta iota in H. bok H a E2. destruct a as [l' b2]. cbv beta iota in H. injection H as _ <-.
    destruct (IHr ltac:(assumption) _ _ _ E2) as [R1 R2]. cbn [acc_sl acc_sl_n slen]. rewrite to_nat_succ.
    rewrite (IH ltac:(assumption) _ _ _ E). split; assumption.
  - (* KNil *) intros _ _ look rem bs l rem' rest fuel seen _ _ H Hf. cbn [dec_kl] in H. injection H as _ <- <-.
    exists fuel, seen. split; [reflexivity|]. split; [exact Hf|]. split; [auto|]. intros k [].
  - (* KCons *) intros k p s IH r IHr Hs Hk look rem bs l rem' rest fuel seen Hlook Hfresh H Hf.
    cbn [dec_kl wfs_kl keys_nodup] in *. split_ands.
    assert (Hlook_r : forall k', key_in k' r = true -> look k' = acc_key r k').
    { intros k' Hin. rewrite Hlook by (cbn [key_in]; rewrite Hin; apply orb_true_r).
      cbn [acc_key]. rewrite (key_fresh_in k k' r) by assumption. reflexivity. }
    match type of H with (match ?h with _ => _ end) = _ => destruct h as [b1|] eqn:Eh end.
    + destruct (rem =? 0) eqn:E0; [discriminate|]. apply N.eqb_neq in E0.
      destruct (dec_head_m 0 bs) as [[k' b1']| | |] eqn:Ek; try discriminate.
      destruct (k' =? k) eqn:Ekk; [|discriminate]. apply N.eqb_eq in Ekk. subst k'. injection Eh as <-.
      bok H a E. destruct a as [v b2]. cbv beta iota in H.
      destruct (match p with OptNE => is_empty_val v | _ => false end); [discriminate|].
      bok H a E2. destruct a as [[l' rem1] b3]. cbv beta iota in H. injection H as _ <- <-.
      destruct fuel as [|f]; [lia|].
      assert (Hfr : forall k', key_in k' r = true -> mem_N k' (k :: seen) = false).
      { intros k' Hin. cbn [mem_N]. rewrite (Hfresh k') by (cbn [key_in]; rewrite Hin; apply orb_true_r).
        rewrite N.eqb_sym, (key_fresh_in k k' r) by assumption. reflexivity. }
      destruct (IHr ltac:(assumption) ltac:(assumption) look (rem - 1) b2 l' rem1 b3 f (k :: seen) Hlook_r Hfr E2 ltac:(lia))
        as (fuel' & seen' & Eq & Hf' & Hmono & Hreq).
      exists fuel', seen'. split; [|split; [exact Hf'|split]].
      * replace (N.to_nat rem) with (S (N.to_nat (rem - 1))) by lia. cbn [acc_fields].
        rewrite (dec_head_m_luint _ _ _ Ek).
        rewrite (Hfresh k) by (cbn [key_in]; rewrite N.eqb_refl; reflexivity).
        rewrite Hlook by (cbn [key_in]; rewrite N.eqb_refl; reflexivity). cbn [acc_key]. rewrite N.eqb_refl.
        rewrite (IH ltac:(assumption) _ _ _ E). exact Eq.
      * intros k' Hm. apply Hmono. cbn [mem_N]. rewrite Hm. apply orb_true_r.
      * intros k' Hin. cbn [req_keys] in Hin. destruct p; [destruct Hin as [<-|Hin]; [apply Hmono; cbn [mem_N]; rewrite N.eqb_refl; reflexivity|auto]|auto|auto].
    + destruct p; [discriminate| |];
        (bok H a E2; destruct a as [[l' rem1] b3]; cbv beta iota in H; injection H as _ <- <-;
         assert (Hfr : forall k', key_in k' r = true -> mem_N k' seen = false)
           by (intros k' Hin; apply Hfresh; cbn [key_in]; rewrite Hin; apply orb_true_r);
         destruct (IHr ltac:(assumption) ltac:(assumption) look rem bs l' rem1 b3 fuel seen Hlook_r Hfr E2 Hf)
           as (fuel' & seen' & Eq & Hf' & Hmono & Hreq);
         exists fuel', seen'; cbn [req_keys]; repeat split; assumption).
  - (* ANil *) intros _ idx n pos bs v rest H. discriminate.
  - (* ACons *) intros i fs IH r IHr Hs idx n pos bs v rest H. cbn [dec_vl wfs_vl acc_alt] in *. split_ands. destruct (idx =? i).
    + destruct (n =? 1 + slen fs) eqn:En; [|discriminate]. apply N.eqb_eq in En.
      bok H a E. destruct a as [l b1]. cbv beta iota in H. injection H as _ <-.
      exists (slen fs), (acc_sl_n fs). split; [reflexivity|]. split; [exact En|]. exact (proj2 (IH ltac:(assumption) _ _ _ E)).
    + exact (IHr ltac:(assumption) _ _ _ _ _ _ H).
  - (* CNil *) intros tagged _ d pos bs v rest H. discriminate.
  - (* CCons *) intros d0 s IH r IHr tagged Hs d pos bs v rest H. cbn [dec_cl wfs_cl acc_cl] in *. split_ands. destruct (d =? d0).
    + bok H a E. destruct a as [v0 b1]. cbv beta iota in H. injection H as _ <-. exact (IH ltac:(assumption) _ _ _ E).
    + exact (IHr tagged ltac:(assumption) _ _ _ _ _ H).
Qed.

(* the sandwich, lower half: what the strict decoder accepts, the lenient acceptor accepts, leaving the same rest *)
Theorem dec_accepts_acc_accepts s bs v rest : wfs s = true -> dec s bs = Ok (v, rest) -> acc s bs = Some rest.
Proof. intros Hs H. exact (proj1 lax_all s Hs bs v rest H). Qed.
