(* Collateral/Collateral.v — executable model of the collateral part of TransactionBuilder, and the C19 spec.
     rust/src/builders/tx_builder.rs
        set_collateral (759-761), set_collateral_return (763-765), remove_collateral_return (767-769),
        set_collateral_return_and_total (774-805), set_total_collateral (807-809), remove_total_collateral (811-813),
        set_total_collateral_and_return (818-856, with the `else` arm of /repo fix "C19-stale-return"),
        add_inputs_from_and_change_with_collateral_return (1014-1061; the balancing call in the middle is an outcome
        carried by the operation, see [OpPercent]), build_and_size: fields 13 / 16 / 17 of the body (2341-2345)
     rust/src/builders/tx_inputs_builder.rs   push_input (BTreeMap insert), total_value (389-395), inputs_option (406-412), len
     rust/src/protocol_types/numeric/big_num.rs   checked_mul / div_floor / checked_add (50-70)
   Value arithmetic: Num/Value.v (value_checked_add, value_checked_sub = the code since /repo 34fa344).
   min-ADA of an output is an oracle [min_ada : output -> result N] (utils.rs min_ada_for_output; property C07 models it).
   No proofs in this file (proofs: Collateral/CollateralProofs.v). *)
From CSL Require Import Base.Prelude Num.Value Num.ValueNorm.
Local Open Scope N_scope.

(* ------------------------------------------------------------------------------------------- *)
(* Switches: [true] = the behaviour BEFORE the corresponding /repo fix (kept for the refutation theorems and so that the
   corpus witnesses tell if a defect returns).  The current code is [false] for both. *)

(* fixes/C19-stale-return.patch: set_total_collateral_and_return left a previously stored collateral return in place
   when nothing was to be returned (return value zero) *)
Definition legacy_keeps_stale_return : bool := false.
(* fixes/C19-percent-early-failure.patch: the percentage helper returned on an overflowing collateral sum before
   touching the fields, so a return / total stored earlier survived the failed attempt *)
Definition legacy_early_failure_keeps_fields : bool := false.

(* ------------------------------------------------------------------------------------------- *)
(* Types *)

(* TransactionInput: (transaction id, index); derived Ord = id bytes, then index *)
Definition txin : Type := (bytes * N)%type.
Definition txin_cmp (a b : txin) : comparison :=
  match bytes_cmp (fst a) (fst b) with
  | Eq => N.compare (snd a) (snd b)
  | c => c
  end.

(* TransactionOutput: address bytes, amount, and the rest (datum option / script ref), opaque *)
Record output : Type := mkOutput { o_addr : bytes; o_amount : value; o_extra : bytes }.
(* TransactionOutput::new(address, amount) *)
Definition output_new (addr : bytes) (v : value) : output := mkOutput addr v [].

(* TxInputsBuilder as far as collateral is concerned: BTreeMap<TransactionInput, amount> in key order *)
Definition col_inputs : Type := list (txin * value).

Fixpoint col_insert (k : txin) (v : value) (m : col_inputs) : col_inputs :=
  match m with
  | [] => [(k, v)]
  | (k', v') :: m' =>
      match txin_cmp k k' with
      | Lt => (k, v) :: (k', v') :: m'
      | Eq => (k', v) :: m'            (* BTreeMap::insert keeps the old (equal) key, replaces the value *)
      | Gt => (k', v') :: col_insert k v m'
      end
  end.

(* a TxInputsBuilder filled by successive add_*_input calls *)
(* push_input stores the amount without zero quantities and asset-less policies (Num/ValueNorm.v; since the /repo fix
   "the builder drops zero quantities and asset-less policies of the amounts it is given") *)
Definition col_of_list (l : list (txin * value)) : col_inputs :=
  fold_left (fun m kv => col_insert (fst kv) (value_without_empty_entries (snd kv)) m) l [].

Record builder : Type := mkBuilder {
  b_collateral : col_inputs;          (* self.collateral *)
  b_return : option output;           (* self.collateral_return *)
  b_total : option N;                 (* self.total_collateral *)
  b_fee : option N                    (* self.fee *)
}.

Definition builder_new : builder := mkBuilder [] None None None.

Definition with_collateral (c : col_inputs) (b : builder) := mkBuilder c (b_return b) (b_total b) (b_fee b).
Definition with_return (r : option output) (b : builder) := mkBuilder (b_collateral b) r (b_total b) (b_fee b).
Definition with_total (t : option N) (b : builder) := mkBuilder (b_collateral b) (b_return b) t (b_fee b).
Definition with_fee (f : option N) (b : builder) := mkBuilder (b_collateral b) (b_return b) (b_total b) f.

(* ------------------------------------------------------------------------------------------- *)
(* TxInputsBuilder::total_value: Value::zero() then checked_add of every amount in key order *)

Fixpoint sum_values (acc : value) (l : list value) : result value :=
  match l with
  | [] => Ok acc
  | v :: l' => let* a := value_checked_add acc v in sum_values a l'
  end.

Definition total_value (c : col_inputs) : result value := sum_values value_zero (map snd c).

(* what the sum means: plain sums over N, per lovelace and per asset (no width, no map structure) *)
Fixpoint sum_coin (l : list value) : N :=
  match l with [] => 0 | v :: l' => coin v + sum_coin l' end.
Fixpoint sum_qty (l : list value) (p n : bytes) : N :=
  match l with [] => 0 | v :: l' => qty v p n + sum_qty l' p n end.

(* BigNum *)
Definition u64_mul (a b : N) : result N := if a * b <? two64 then Ok (a * b) else Err.

Definition is_some {A} (o : option A) : bool := match o with Some _ => true | None => false end.
Definition is_nil {A} (l : list A) : bool := match l with [] => true | _ => false end.

(* ------------------------------------------------------------------------------------------- *)
(* The entry points *)

Section WithMinAda.
  Variable min_ada : output -> result N.      (* min_ada_for_output(output, config.utxo_cost()) *)

  (* tx_builder.rs:774-805 *)
  Definition set_collateral_return_and_total (ret : output) (b : builder) : result builder :=
    if is_nil (b_collateral b) then Err else
    let* inp := total_value (b_collateral b) in
    let* total := value_checked_sub inp (o_amount ret) in
    if is_some (multiasset_of total) then Err else
    let* m := min_ada ret in
    if coin (o_amount ret) <? m then Err else
    Ok (with_total (Some (coin total)) (with_return (Some ret) b)).

  (* tx_builder.rs:818-856; [legacy] = before fixes/C19-stale-return.patch *)
  Definition set_total_collateral_and_return_gen (legacy : bool) (total : N) (addr : bytes) (b : builder) : result builder :=
    if is_nil (b_collateral b) then Err else
    let* inp := total_value (b_collateral b) in
    if coin inp <? total then Err else
    let* ret := value_checked_sub inp (value_new total) in
    if is_some (multiasset_of ret) || (0 <? coin ret) then
      let out := output_new addr ret in
      let* m := min_ada out in
      if coin ret <? m then Err else
      Ok (with_total (Some total) (with_return (Some out) b))
    else
      Ok (with_total (Some total) (if legacy then b else with_return None b)).

  Definition set_total_collateral_and_return := set_total_collateral_and_return_gen legacy_keeps_stale_return.

  Definition clear_fields (b : builder) : builder := with_total None (with_return None b).

  (* tx_builder.rs:1014-1061.  The call `add_inputs_from_and_change(inputs, strategy, change_config)` in the middle
     (coin selection + change + fee; properties C05/C08) is not modelled: its outcome is given — [bal_ok] whether it
     returned Ok, [fee_after] the builder's fee afterwards.  It reads the placeholder fields but never writes fields
     13/16/17 (checked by the correspondence run: the fields are observed after every operation).
     [legacy] = before fixes/C19-percent-early-failure.patch.  Returns (succeeded?, new state). *)
  Definition percent_helper_gen (legacy_ret legacy_early : bool) (pct : N) (addr : bytes) (bal_ok : bool) (fee_after : option N)
             (b : builder) : bool * builder :=
    match total_value (b_collateral b) with
    | Ok tc =>
        (* fake max total collateral and return, visible to the balancing step only *)
        let b1 := with_return (Some (output_new addr tc)) (with_total (Some (coin tc)) b) in
        let b2 := with_fee fee_after b1 in
        let b3 := clear_fields b2 in
        if negb bal_ok then (false, b3) else
        match b_fee b3 with
        | None => (false, b3)
        | Some fee =>
            match (let* x := u64_mul fee pct in u64_add (x / 100) 1) with
            | Ok required =>
                match set_total_collateral_and_return_gen legacy_ret required addr b3 with
                | Ok b4 => (true, b4)
                | _ => (false, clear_fields b3)
                end
            | _ => (false, b3)
            end
        end
    | _ => (false, if legacy_early then b else clear_fields b)
    end.

  Definition percent_helper := percent_helper_gen legacy_keeps_stale_return legacy_early_failure_keeps_fields.

  (* ----------------------------------------------------------------------------------------- *)
  (* Histories *)

  Inductive op : Type :=
  | OpSetCollateral (c : list (txin * value))          (* set_collateral(&TxInputsBuilder built by adding these in order) *)
  | OpSetReturn (o : output)                           (* set_collateral_return *)
  | OpRemoveReturn
  | OpSetTotal (t : N)                                 (* set_total_collateral *)
  | OpRemoveTotal
  | OpReturnAndTotal (o : output)                      (* set_collateral_return_and_total *)
  | OpTotalAndReturn (t : N) (addr : bytes)            (* set_total_collateral_and_return *)
  | OpPercent (pct : N) (addr : bytes) (bal_ok : bool) (fee_after : option N)
                                                       (* add_inputs_from_and_change_with_collateral_return *)
  | OpBalance (fee_after : option N).                  (* add_change_if_needed / set_fee: only the fee may change *)

  Definition of_result (r : result builder) (b : builder) : bool * builder :=
    match r with Ok b' => (true, b') | _ => (false, b) end.

  Definition step_gen (lr le : bool) (o : op) (b : builder) : bool * builder :=
    match o with
    | OpSetCollateral c => (true, with_collateral (col_of_list c) b)
    | OpSetReturn r => (true, with_return (Some r) b)
    | OpRemoveReturn => (true, with_return None b)
    | OpSetTotal t => (true, with_total (Some t) b)
    | OpRemoveTotal => (true, with_total None b)
    | OpReturnAndTotal r => of_result (set_collateral_return_and_total r b) b
    | OpTotalAndReturn t a => of_result (set_total_collateral_and_return_gen lr t a b) b
    | OpPercent pct a ok f => percent_helper_gen lr le pct a ok f b
    | OpBalance f => (true, with_fee f b)
    end.
  Definition step := step_gen legacy_keeps_stale_return legacy_early_failure_keeps_fields.

  Definition run_gen (lr le : bool) (h : list op) (b : builder) : builder :=
    fold_left (fun b o => snd (step_gen lr le o b)) h b.
  Definition run := run_gen legacy_keeps_stale_return legacy_early_failure_keeps_fields.

  (* Who wrote fields 16/17 last, tracked along a history:
       Governed  the last write of 16/17 was a successful helper and the collateral inputs are those it used
       Stale     as Governed, but set_collateral replaced the inputs afterwards
       Free      otherwise (never set, cleared by a failed percentage helper, or overridden by a plain setter) *)
  Inductive prov : Type := Free | Governed | Stale.

  Definition is_helper (o : op) : bool :=
    match o with OpReturnAndTotal _ | OpTotalAndReturn _ _ | OpPercent _ _ _ _ => true | _ => false end.

  Definition prov_step_gen (lr le : bool) (o : op) (b : builder) (p : prov) : prov :=
    match o with
    | OpSetCollateral _ => match p with Governed => Stale | _ => p end
    | OpSetReturn _ | OpRemoveReturn | OpSetTotal _ | OpRemoveTotal => Free
    | OpReturnAndTotal _ | OpTotalAndReturn _ _ => if fst (step_gen lr le o b) then Governed else p
    | OpPercent _ _ _ _ =>
        if fst (step_gen lr le o b) then Governed
        else match total_value (b_collateral b) with
             | Ok _ => Free
             | _ => if le then p else Free
             end
    | OpBalance _ => p
    end.

  Fixpoint run_prov_gen (lr le : bool) (h : list op) (b : builder) (p : prov) : builder * prov :=
    match h with
    | [] => (b, p)
    | o :: h' => run_prov_gen lr le h' (snd (step_gen lr le o b)) (prov_step_gen lr le o b p)
    end.
  Definition run_prov := run_prov_gen legacy_keeps_stale_return legacy_early_failure_keeps_fields.

  (* ----------------------------------------------------------------------------------------- *)
  (* The body fields and the specification *)

  (* build_and_size: field 13 = collateral.inputs_option(), 16 = collateral_return, 17 = total_collateral *)
  Record body_fields : Type := mkBody { f13 : option (list txin); f16 : option output; f17 : option N }.
  Definition build_fields (b : builder) : body_fields :=
    mkBody (match b_collateral b with [] => None | c => Some (map fst c) end) (b_return b) (b_total b).

  (* the value a (possibly absent) return output gives back *)
  Definition return_value (r : option output) : value :=
    match r with Some o => o_amount o | None => value_zero end.

  (* C19, propositional: [ins] are the values of the scenario's collateral UTxOs; the sums are plain (unbounded)
     sums of lovelace and of every asset quantity *)
  Definition spec_consistent (ins : list value) (r : option output) (t : N) : Prop :=
    sum_coin ins = coin (return_value r) + t /\                              (* lovelace: inputs = return + total *)
    (forall p n, sum_qty ins p n = qty (return_value r) p n).                (* every asset, and nothing else, is returned;
                                                                                the total (a Coin) is pure lovelace *)
  Definition spec_min_ada (r : option output) : Prop :=
    match r with Some o => exists m, min_ada o = Ok m /\ m <= coin (o_amount o) | None => True end.

  Definition spec_holds (b : builder) : Prop :=
    match b_total b with
    | Some t => spec_consistent (map snd (b_collateral b)) (b_return b) t /\ spec_min_ada (b_return b)
    | None => False
    end.

  (* the same, executable (the judge) *)
  Definition spec_consistentb (ins : list value) (r : option output) (t : N) : bool :=
    match sum_values value_zero ins with
    | Ok s => value_eqb_sem s (mkValue (coin (return_value r) + t) (multiasset_of (return_value r)))
    | _ => false
    end.
  Definition spec_min_adab (r : option output) : bool :=
    match r with
    | Some o => match min_ada o with Ok m => m <=? coin (o_amount o) | _ => false end
    | None => true
    end.
  Definition spec_holdsb (ins : list value) (r : option output) (t : option N) : bool :=
    match t with
    | Some t => spec_consistentb ins r t && spec_min_adab r
    | None => false
    end.

  (* percentage rule: total >= ceil (fee * pct / 100) *)
  Definition ceil_div (a d : N) : N := (a + (d - 1)) / d.
  Definition spec_percent (fee pct total : N) : Prop := ceil_div (fee * pct) 100 <= total.
  Definition spec_percentb (fee pct total : N) : bool := ceil_div (fee * pct) 100 <=? total.
End WithMinAda.

(* ------------------------------------------------------------------------------------------- *)
(* Diagnostics for the case distribution of the check: which branch the last helper call of a history took.
     set_collateral_return_and_total   0 ok, 1 no collateral inputs, 2 sum overflows, 3 return exceeds the inputs (coin or asset),
                                       4 assets left over, 5 min-ADA computation fails, 6 return below min ADA
     set_total_collateral_and_return   10 ok with a return, 17 ok with nothing to return, 11 no collateral inputs, 12 sum overflows,
                                       13 total exceeds the inputs, 15 min-ADA computation fails, 16 return below min ADA
     percentage helper                 22 sum overflows, 28 balancing failed, 29 no fee, 23 fee*pct overflows, 30 + (inner - 10) otherwise
     99 no helper in the history *)
Section Branches.
  Variable min_ada : output -> result N.
  Definition branch_rt (ret : output) (b : builder) : N :=
    if is_nil (b_collateral b) then 1 else
    match total_value (b_collateral b) with
    | Ok inp =>
        match value_checked_sub inp (o_amount ret) with
        | Ok total =>
            if is_some (multiasset_of total) then 4 else
            match min_ada ret with Ok m => if coin (o_amount ret) <? m then 6 else 0 | _ => 5 end
        | _ => 3
        end
    | _ => 2
    end.
  Definition branch_tr (t : N) (addr : bytes) (b : builder) : N :=
    if is_nil (b_collateral b) then 11 else
    match total_value (b_collateral b) with
    | Ok inp =>
        if coin inp <? t then 13 else
        match value_checked_sub inp (value_new t) with
        | Ok ret =>
            if is_some (multiasset_of ret) || (0 <? coin ret) then
              match min_ada (output_new addr ret) with Ok m => if coin ret <? m then 16 else 10 | _ => 15 end
            else 17
        | _ => 13
        end
    | _ => 12
    end.
  Definition branch_p (pct : N) (addr : bytes) (bal_ok : bool) (fee_after : option N) (b : builder) : N :=
    match total_value (b_collateral b) with
    | Ok _ =>
        if negb bal_ok then 28 else
        match fee_after with
        | None => 29
        | Some fee =>
            match (let* x := u64_mul fee pct in u64_add (x / 100) 1) with
            | Ok required => 30 + (branch_tr required addr b - 10)
            | _ => 23
            end
        end
    | _ => 22
    end.
  Fixpoint last_branch (h : list op) (b : builder) (acc : N) : N :=
    match h with
    | [] => acc
    | o :: h' =>
        let acc' := match o with
                    | OpReturnAndTotal r => branch_rt r b
                    | OpTotalAndReturn t a => branch_tr t a b
                    | OpPercent pct a ok f => branch_p pct a ok f b
                    | _ => acc
                    end in
        last_branch h' (snd (step min_ada o b)) acc'
    end.
  Definition history_class (h : list op) : N * prov :=
    (last_branch h builder_new 99, snd (run_prov min_ada h builder_new Free)).
End Branches.

(* ------------------------------------------------------------------------------------------- *)
(* Known class (decidable on a history): the figures were computed by a helper and set_collateral replaced the
   collateral inputs afterwards *)
Definition known_stale (p : prov) : bool := match p with Stale => true | _ => false end.

(* ------------------------------------------------------------------------------------------- *)
(* Judge: the property evaluated on what the implementation produced.
   A case is a history; the implementation reports, per operation, whether it returned Ok and the fields 13/16/17 of
   the body built right after it.  The values of the collateral UTxOs are the scenario's (the model's collateral map,
   whose keys are compared with field 13); [min_ada] is the library's min_ada_for_output as a table given by the case. *)
Inductive verdict : Type := Holds | NotApplicable | FailsUnknown | FailsKnown (cls : N).

Record observation : Type := mkObs { ob_ok : bool; ob_fields : body_fields; ob_fee : option N }.

(* structural equality of what the implementation reports *)
Definition opt_eqb {A} (eqb : A -> A -> bool) (a b : option A) : bool :=
  match a, b with None, None => true | Some x, Some y => eqb x y | _, _ => false end.
Definition value_struct_eqb (a b : value) : bool :=
  (coin a =? coin b) && opt_eqb ma_eqb (multiasset_of a) (multiasset_of b).
Definition output_eqb (a b : output) : bool :=
  bytes_eqb (o_addr a) (o_addr b) && value_struct_eqb (o_amount a) (o_amount b) && bytes_eqb (o_extra a) (o_extra b).

Section Judge.
  Variable min_ada : output -> result N.

  Definition fields_keys_match (b : builder) (f : body_fields) : bool :=
    match f13 f, b_collateral b with
    | None, [] => true
    | Some ks, (_ :: _) as c =>
        (length ks =? length c)%nat &&
        forallb (fun kk : txin * txin => match txin_cmp (fst kk) (snd kk) with Eq => true | _ => false end)
                (combine ks (map fst c))
    | _, _ => false
    end.

  (* verdict for one operation: [prev] the fields reported before it, [b'] the model state after it (only its collateral
     map is used: the scenario's UTxO values), [p'] provenance after it, [ob] what the implementation reported *)
  Definition judge_op (o : op) (prev : body_fields) (b' : builder) (p' : prov) (ob : observation) : verdict :=
    let f := ob_fields ob in
    if negb (fields_keys_match b' f) then FailsUnknown else
    let ins := map snd (b_collateral b') in
    let good := spec_holdsb min_ada ins (f16 f) (f17 f) in
    match o with
    | OpReturnAndTotal _ | OpTotalAndReturn _ _ =>
        if ob_ok ob then (if good then Holds else FailsUnknown)
        else (* an explicit helper that fails changes nothing *)
          if opt_eqb output_eqb (f16 prev) (f16 f) && opt_eqb N.eqb (f17 prev) (f17 f)
          then match p' with
               | Governed => if good then Holds else FailsUnknown
               | Stale => if good then Holds else FailsKnown 1
               | Free => NotApplicable
               end
          else FailsUnknown
    | OpPercent pct _ _ _ =>
        if ob_ok ob then
          match ob_fee ob, f17 f with
          | Some fee, Some t => if good && spec_percentb fee pct t then Holds else FailsUnknown
          | _, _ => FailsUnknown
          end
        else (* a failed attempt leaves neither field set *)
          match f16 f, f17 f with None, None => Holds | _, _ => FailsUnknown end
    | _ =>
        match p' with
        | Governed => if good then Holds else FailsUnknown
        | Stale => if good then Holds else FailsKnown 1
        | Free => NotApplicable
        end
    end.

  Definition worse (a b : verdict) : verdict :=
    match a, b with
    | FailsUnknown, _ | _, FailsUnknown => FailsUnknown
    | FailsKnown c, _ => FailsKnown c
    | _, FailsKnown c => FailsKnown c
    | Holds, _ | _, Holds => Holds
    | NotApplicable, NotApplicable => NotApplicable
    end.

  (* provenance following the IMPLEMENTATION's Ok/Err reports *)
  Definition prov_step_obs (o : op) (p : prov) (ok : bool) : prov :=
    match o with
    | OpSetCollateral _ => match p with Governed => Stale | _ => p end
    | OpSetReturn _ | OpRemoveReturn | OpSetTotal _ | OpRemoveTotal => Free
    | OpReturnAndTotal _ | OpTotalAndReturn _ _ => if ok then Governed else p
    | OpPercent _ _ _ _ => if ok then Governed else Free
    | OpBalance _ => p
    end.

  Fixpoint judge_run (h : list op) (obs : list observation) (prev : body_fields) (b : builder) (p : prov) (acc : verdict)
    : verdict :=
    match h, obs with
    | o :: h', ob :: obs' =>
        let b' := snd (step min_ada o b) in
        let p' := prov_step_obs o p (ob_ok ob) in
        judge_run h' obs' (ob_fields ob) b' p' (worse acc (judge_op o prev b' p' ob))
    | [], [] => acc
    | _, _ => FailsUnknown
    end.

  Definition judge (h : list op) (obs : list observation) : verdict :=
    judge_run h obs (build_fields builder_new) builder_new Free NotApplicable.

  (* the model's own observations of a history *)
  Fixpoint model_obs (h : list op) (b : builder) : list observation :=
    match h with
    | [] => []
    | o :: h' =>
        let r := step min_ada o b in
        mkObs (fst r) (build_fields (snd r)) (b_fee (snd r)) :: model_obs h' (snd r)
    end.
End Judge.
