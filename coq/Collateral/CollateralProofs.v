(* Collateral/CollateralProofs.v — theorems about the collateral model (property C19).
   Inventory
     sum_values_sem / total_value_sem     TxInputsBuilder::total_value = the plain sums of lovelace and of every asset
     return_then_total_ok                 set_collateral_return_and_total Ok  => spec (equation, assets, min-ADA) + what is stored
     return_then_total_complete           the converse: when the figures are consistent the call succeeds (normal input sums)
     total_then_return_ok                 set_total_collateral_and_return Ok  => spec + what is stored
     explicit_failure_unchanged           a failing explicit helper changes nothing
     percent_ok / percent_failure_unset   the percentage helper: spec + total = fee*pct/100+1 >= ceil; failure leaves neither field
     percent_add_never_overflows          the checked_add(1) of the helper cannot fail
     step_inv / run_prov_inv / history_governed   the invariant along arbitrary histories
     balance_keeps_fields                 balancing (fee) never changes fields 13/16/17 nor the spec
     stale_refuted, legacy_stale_return_refuted, legacy_early_failure_refuted   witnesses
     spec_holdsb_sound / spec_holdsb_complete     the executable judge decides the spec
     judge_accepts_model                  the judge never rejects the model's own observations (outside the known class) *)
From CSL Require Import Base.Prelude Num.Value Num.ValueNorm Num.ValueNormProofs Collateral.ValueLemmas Collateral.Collateral.
Local Open Scope N_scope.

Definition vals_sorted (l : list value) : Prop := Forall (fun v => value_sorted v = true) l.
Definition col_sorted (c : col_inputs) : Prop := vals_sorted (map snd c).

Lemma qty_no_assets : forall v p n, multiasset_of v = None -> qty v p n = 0.
Proof. intros v p n H. unfold qty. rewrite H. reflexivity. Qed.

(* ------------------------------------------------------------------------------------------- *)
(* total_value *)

Lemma sum_values_sem : forall l acc s,
  value_sorted acc = true -> vals_sorted l -> sum_values acc l = Ok s ->
  value_sorted s = true /\ coin s = coin acc + sum_coin l /\ forall p n, qty s p n = qty acc p n + sum_qty l p n.
Proof.
  induction l as [|v l IH]; intros acc s Ha Hl H; cbn [sum_values] in H.
  - injection H as <-. cbn [sum_coin sum_qty]. repeat split; [exact Ha | lia | intros; lia].
  - inversion Hl as [|? ? Hv Hl']; subst.
    destruct (value_checked_add acc v) as [a| | |] eqn:E; cbn [bind] in H; try discriminate.
    destruct (value_checked_add_sem _ _ _ Ha Hv E) as (Hs & Hc & _ & Hq).
    destruct (IH _ _ Hs Hl' H) as (Hs' & Hc' & Hq').
    cbn [sum_coin sum_qty]. repeat split; [exact Hs' | lia | intros p n; rewrite Hq', Hq; lia].
Qed.

Lemma sum_values_total : forall l acc, sum_values acc l <> Panic /\ sum_values acc l <> OutOfFuel.
Proof.
  induction l as [|v l IH]; intro acc; cbn [sum_values]; [split; discriminate|].
  destruct (value_checked_add_total acc v) as [H1 H2].
  destruct (value_checked_add acc v); cbn [bind]; try (split; discriminate); try congruence. apply IH.
Qed.

Lemma total_value_sem : forall c s, col_sorted c -> total_value c = Ok s ->
  value_sorted s = true /\ coin s = sum_coin (map snd c) /\ forall p n, qty s p n = sum_qty (map snd c) p n.
Proof.
  intros c s Hc H. unfold total_value in H.
  destruct (sum_values_sem _ _ _ (eq_refl : value_sorted value_zero = true) Hc H) as (Hs & Hcoin & Hq).
  repeat split; [exact Hs | exact Hcoin | intros p n; rewrite Hq; reflexivity].
Qed.

(* subtracting a pure-lovelace value *)
Lemma checked_sub_pure : forall inp t, coin inp <? t = false ->
  value_checked_sub inp (value_new t) = Ok (mkValue (coin inp - t) (multiasset_of inp)).
Proof.
  intros inp t H. apply N.ltb_ge in H.
  unfold value_checked_sub, u64_sub, value_new, value_sub_assets. cbn [coin multiasset_of].
  replace (t <=? coin inp) with true by (symmetry; apply N.leb_le; exact H). cbn [bind].
  destruct (multiasset_of inp); reflexivity.
Qed.

(* ------------------------------------------------------------------------------------------- *)
Section Proofs.
  Variable min_ada : output -> result N.

  Ltac fields := cbn [b_total b_return b_collateral b_fee with_total with_return with_fee with_collateral clear_fields
                      o_amount o_addr o_extra output_new coin multiasset_of fst snd].

  (* --- explicit return output -> total ------------------------------------------------------ *)
  Theorem return_then_total_ok : forall ret b b',
    col_sorted (b_collateral b) -> value_sorted (o_amount ret) = true ->
    set_collateral_return_and_total min_ada ret b = Ok b' ->
    spec_holds min_ada b' /\
    b_return b' = Some ret /\ b_collateral b' = b_collateral b /\ b_fee b' = b_fee b /\ b_collateral b <> [] /\
    exists s, total_value (b_collateral b) = Ok s /\ b_total b' = Some (coin s - coin (o_amount ret)).
  Proof.
    intros ret b b' Hc Hr H. unfold set_collateral_return_and_total in H.
    destruct (is_nil (b_collateral b)) eqn:En; [discriminate|].
    destruct (total_value (b_collateral b)) as [s| | |] eqn:Et; cbn [bind] in H; try discriminate.
    destruct (value_checked_sub s (o_amount ret)) as [tot| | |] eqn:Es; cbn [bind] in H; try discriminate.
    destruct (multiasset_of tot) eqn:Em; cbn [is_some] in H; [discriminate|].
    destruct (min_ada ret) as [m| | |] eqn:Ea; cbn [bind] in H; try discriminate.
    destruct (coin (o_amount ret) <? m) eqn:El; [discriminate|].
    injection H as <-.
    destruct (total_value_sem _ _ Hc Et) as (Hs & Hcoin & Hq).
    destruct (value_checked_sub_sem _ _ _ Hs Hr Es) as (_ & Hsc & Hsq).
    unfold spec_holds. fields. repeat split.
    - unfold return_value. rewrite <- Hcoin, Hsc. lia.
    - intros p n. unfold return_value. rewrite <- Hq, Hsq, (qty_no_assets tot p n Em). lia.
    - exists m. split; [exact Ea | apply N.ltb_ge; exact El].
    - intro E. rewrite E in En. discriminate.
    - exists s. split; [reflexivity|]. f_equal. lia.
  Qed.

  (* the converse: consistent figures are accepted.  [value_normal]: the sum of the inputs lists no zero quantity, no
     empty policy and is not an empty-but-present multiasset (for such sums the code is stricter than the equation) *)
  Definition value_normal (v : value) : bool :=
    match multiasset_of v with None => true | Some [] => false | Some l => ma_positive l end.

  Theorem return_then_total_complete : forall ret b s m,
    col_sorted (b_collateral b) -> value_sorted (o_amount ret) = true ->
    b_collateral b <> [] -> total_value (b_collateral b) = Ok s -> value_normal s = true ->
    coin (o_amount ret) <= coin s -> (forall p n, qty s p n = qty (o_amount ret) p n) ->
    min_ada ret = Ok m -> m <= coin (o_amount ret) ->
    exists b', set_collateral_return_and_total min_ada ret b = Ok b'.
  Proof.
    intros ret b s m Hc Hr Hne Et Hn Hcoin Hq Ea Hm.
    destruct (total_value_sem _ _ Hc Et) as (Hs & _ & _).
    unfold set_collateral_return_and_total.
    assert (En : is_nil (b_collateral b) = false) by (destruct (b_collateral b); [congruence|reflexivity]).
    rewrite En, Et. cbn [bind].
    assert (Hok : exists tot, value_checked_sub s (o_amount ret) = Ok tot /\ multiasset_of tot = None).
    { destruct (value_checked_sub s (o_amount ret)) as [tot| | |] eqn:Es.
      - exists tot. split; [reflexivity|].
        unfold value_checked_sub in Es. destruct (u64_sub (coin s) (coin (o_amount ret))); cbn [bind] in Es; try discriminate.
        match type of Es with (if ?c then _ else _) = _ => destruct c; [|discriminate] end.
        injection Es as <-. cbn [multiasset_of].
        unfold value_sub_assets. unfold value_normal in Hn. unfold value_sorted in Hs, Hr. unfold qty in Hq.
        destruct (multiasset_of s) as [l|]; [|destruct (multiasset_of (o_amount ret)); reflexivity].
        destruct (multiasset_of (o_amount ret)) as [r|].
        + assert (ma_sub l r = []) as ->; [|reflexivity].
          apply ma_sub_all_covered_nil; auto.
          * destruct l; [reflexivity|exact Hn].
          * intros p n. specialize (Hq p n). cbn [opt_ma_qty] in Hq. lia.
        + assert (l = []) as ->; [|discriminate].
          apply ma_positive_zero_nil; [destruct l; [reflexivity|exact Hn]|].
          intros p n. specialize (Hq p n). cbn [opt_ma_qty] in Hq. exact Hq.
      - exfalso. apply (value_checked_sub_err s (o_amount ret) Hr) in Es. destruct Es as [E|(p & n & E)]; [lia|].
        rewrite Hq in E. lia.
      - exfalso. apply (proj1 (value_checked_sub_total s (o_amount ret))). exact Es.
      - exfalso. apply (proj2 (value_checked_sub_total s (o_amount ret))). exact Es. }
    destruct Hok as (tot & -> & Em). cbn [bind]. rewrite Em. cbn [is_some]. rewrite Ea. cbn [bind].
    replace (coin (o_amount ret) <? m) with false by (symmetry; apply N.ltb_ge; exact Hm).
    eexists. reflexivity.
  Qed.

  (* --- explicit total -> return ------------------------------------------------------------- *)
  Theorem total_then_return_ok : forall lr t addr b b',
    col_sorted (b_collateral b) -> (lr = false \/ b_return b = None) ->
    set_total_collateral_and_return_gen min_ada lr t addr b = Ok b' ->
    spec_holds min_ada b' /\
    b_total b' = Some t /\ b_collateral b' = b_collateral b /\ b_fee b' = b_fee b /\ b_collateral b <> [] /\
    exists s, total_value (b_collateral b) = Ok s /\ t <= coin s /\
      b_return b' = if is_some (multiasset_of s) || (0 <? coin s - t)
                    then Some (output_new addr (mkValue (coin s - t) (multiasset_of s))) else None.
  Proof.
    intros lr t addr b b' Hc Hlr H. unfold set_total_collateral_and_return_gen in H.
    destruct (is_nil (b_collateral b)) eqn:En; [discriminate|].
    destruct (total_value (b_collateral b)) as [s| | |] eqn:Et; cbn [bind] in H; try discriminate.
    destruct (coin s <? t) eqn:Elt; [discriminate|].
    rewrite (checked_sub_pure s t Elt) in H. cbn [bind coin multiasset_of] in H.
    destruct (total_value_sem _ _ Hc Et) as (Hs & Hcoin & Hq).
    assert (Hle : t <= coin s) by (apply N.ltb_ge; exact Elt).
    assert (Hne : b_collateral b <> []) by (intro E; rewrite E in En; discriminate).
    destruct (is_some (multiasset_of s) || (0 <? coin s - t)) eqn:Eany.
    - destruct (min_ada (output_new addr (mkValue (coin s - t) (multiasset_of s)))) as [m| | |] eqn:Ea;
        cbn [bind] in H; try discriminate.
      destruct (coin s - t <? m) eqn:El; [discriminate|]. injection H as <-.
      unfold spec_holds. fields. repeat split; auto.
      + unfold return_value. fields. lia.
      + intros p n. unfold return_value. fields. rewrite <- Hq. reflexivity.
      + exists m. fields. split; [exact Ea | apply N.ltb_ge; exact El].
      + exists s. split; [reflexivity|]. split; [exact Hle|]. rewrite Eany. reflexivity.
    - pose proof Eany as Eany'. apply orb_false_iff in Eany. destruct Eany as [Ema Ez].
      assert (Em : multiasset_of s = None) by (destruct (multiasset_of s); [discriminate|reflexivity]).
      assert (Ecoin : coin s = t) by (apply N.ltb_ge in Ez; lia).
      assert (Hspec : forall r, r = None -> spec_consistent (map snd (b_collateral b)) r t /\ spec_min_ada min_ada r).
      { intros r ->. unfold spec_consistent, spec_min_ada, return_value. cbn [value_zero value_new coin]. repeat split.
        - lia.
        - intros p n. rewrite <- Hq. rewrite (qty_no_assets s p n Em). reflexivity. }
      assert (Hret : b_return b' = None /\ b_total b' = Some t /\ b_collateral b' = b_collateral b /\ b_fee b' = b_fee b).
      { destruct lr; injection H as <-; fields; repeat split; auto. destruct Hlr; [discriminate|assumption]. }
      destruct Hret as (Hr & Ht & Hcol & Hfee).
      unfold spec_holds. rewrite Ht, Hcol, Hr. repeat split; auto; try apply (Hspec None eq_refl).
      exists s. split; [reflexivity|]. split; [exact Hle|]. rewrite Eany'. reflexivity.
  Qed.

  (* a failing explicit helper changes nothing (it assigns no field before its last check) *)
  Theorem explicit_failure_unchanged : forall lr le o b,
    (match o with OpReturnAndTotal _ | OpTotalAndReturn _ _ => True | _ => False end) ->
    fst (step_gen min_ada lr le o b) = false -> snd (step_gen min_ada lr le o b) = b.
  Proof.
    intros lr le o b Ho H. destruct o; try contradiction; cbn [step_gen] in *;
      match goal with |- snd (of_result ?r _) = _ => destruct r end; cbn [of_result fst snd] in *; congruence.
  Qed.

  (* --- percentage helper -------------------------------------------------------------------- *)
  Lemma ceil_le_floor_plus_one : forall x, ceil_div x 100 <= x / 100 + 1.
  Proof. intro x. unfold ceil_div. change (100 - 1) with 99. lia. Qed.

  Lemma percent_add_never_overflows : forall fee pct x, u64_mul fee pct = Ok x -> u64_add (x / 100) 1 = Ok (x / 100 + 1).
  Proof.
    intros fee pct x H. unfold u64_mul in H. destruct (fee * pct <? two64) eqn:E; [|discriminate]. injection H as <-.
    apply N.ltb_lt in E. unfold u64_add.
    replace (fee * pct / 100 + 1 <? two64) with true; [reflexivity|]. symmetry. apply N.ltb_lt. unfold two64 in *. lia.
  Qed.

  (* the total the helper asks for *)
  Definition f_required (fee : option N) (pct : N) : N :=
    match fee with Some f => f * pct / 100 + 1 | None => 0 end.

  Theorem percent_ok : forall le pct addr ok fee b b',
    col_sorted (b_collateral b) ->
    percent_helper_gen min_ada false le pct addr ok fee b = (true, b') ->
    spec_holds min_ada b' /\ b_collateral b' = b_collateral b /\ ok = true /\
    (exists f, fee = Some f /\ b_fee b' = Some f /\ f * pct < two64 /\
               b_total b' = Some (f * pct / 100 + 1) /\ spec_percent f pct (f * pct / 100 + 1)) /\
    exists s, total_value (b_collateral b) = Ok s /\
      b_return b' = if is_some (multiasset_of s) || (0 <? coin s - (f_required fee pct))
                    then Some (output_new addr (mkValue (coin s - f_required fee pct) (multiasset_of s))) else None.
  Proof.
    intros le pct addr ok fee b b' Hc H. unfold percent_helper_gen in H.
    destruct (total_value (b_collateral b)) as [tc| | |] eqn:Etv; try (destruct le; discriminate).
    destruct ok; cbn [negb] in H; [|discriminate]. fields. cbn [b_fee clear_fields with_total with_return with_fee] in H.
    destruct fee as [f|]; [|discriminate].
    unfold u64_mul in H. destruct (f * pct <? two64) eqn:Emul; cbn [bind] in H; [|discriminate].
    rewrite (percent_add_never_overflows f pct (f * pct)) in H by (unfold u64_mul; rewrite Emul; reflexivity).
    match type of H with context [set_total_collateral_and_return_gen _ _ _ _ ?b3] => set (b3' := b3) in * end.
    destruct (set_total_collateral_and_return_gen min_ada false (f * pct / 100 + 1) addr b3') as [b4| | |] eqn:E;
      try discriminate.
    injection H as <-.
    assert (Hc3 : col_sorted (b_collateral b3')) by exact Hc.
    destruct (total_then_return_ok false _ addr b3' b4 Hc3 (or_introl eq_refl) E) as (Hspec & Ht & Hcol & Hfee & _ & s & Hs & _ & Hret).
    split; [exact Hspec|]. split; [exact Hcol|]. split; [reflexivity|]. split.
    - exists f. repeat split; auto.
      + apply N.ltb_lt; exact Emul.
      + unfold spec_percent. apply ceil_le_floor_plus_one.
    - exists s. split; [|exact Hret]. change (b_collateral b3') with (b_collateral b) in Hs. congruence.
  Qed.

  (* a failed attempt leaves neither field set (current code: after fixes/C19-percent-early-failure.patch) *)
  Theorem percent_failure_unset : forall lr pct addr ok fee b b',
    percent_helper_gen min_ada lr false pct addr ok fee b = (false, b') ->
    b_return b' = None /\ b_total b' = None /\ b_collateral b' = b_collateral b.
  Proof.
    intros lr pct addr ok fee b b' H. unfold percent_helper_gen in H.
    destruct (total_value (b_collateral b)) as [tc| | |];
      try (injection H as <-; fields; repeat split; reflexivity).
    destruct ok; cbn [negb] in H; [|injection H as <-; fields; repeat split; reflexivity].
    cbn [b_fee clear_fields with_total with_return with_fee] in H.
    destruct fee as [f|]; [|injection H as <-; fields; repeat split; reflexivity].
    destruct (let* x := u64_mul f pct in u64_add (x / 100) 1); try (injection H as <-; fields; repeat split; reflexivity).
    match type of H with context [set_total_collateral_and_return_gen _ _ _ _ ?b3] =>
      destruct (set_total_collateral_and_return_gen min_ada lr a addr b3) end;
      try discriminate; injection H as <-; fields; repeat split; reflexivity.
  Qed.

  (* ----------------------------------------------------------------------------------------- *)
  (* Histories *)

  Definition op_wf (o : op) : Prop :=
    match o with
    | OpSetCollateral c => vals_sorted (map snd c)
    | OpReturnAndTotal r => value_sorted (o_amount r) = true
    | _ => True
    end.

  Lemma col_insert_sorted : forall k v m, value_sorted v = true -> col_sorted m -> col_sorted (col_insert k v m).
  Proof.
    intros k v m Hv. induction m as [|[k' v'] m IH]; intro Hm; cbn [col_insert].
    - constructor; [exact Hv|constructor].
    - inversion Hm as [|? ? Hv' Hm']; subst. destruct (txin_cmp k k'); cbn [map snd].
      + constructor; assumption.
      + constructor; [exact Hv|]. constructor; assumption.
      + constructor; [exact Hv'|]. apply IH. exact Hm'.
  Qed.

  (* push_input stores the amount without its empty entries (Num/ValueNorm.v): still sorted *)
  Lemma value_sorted_without_empty_entries : forall v, value_sorted v = true -> value_sorted (value_without_empty_entries v) = true.
  Proof.
    intros v. unfold value_sorted, value_without_empty_entries. cbn [multiasset_of]. destruct (multiasset_of v) as [m|]; [|reflexivity].
    unfold ma_sorted. intros H. apply andb_true_iff in H. destruct H as [H1 H2]. apply andb_true_iff. split.
    - apply ma_drop_empty_sorted. exact H1.
    - apply ma_drop_empty_inner_sorted. exact H2.
  Qed.

  Lemma col_of_list_sorted : forall l, vals_sorted (map snd l) -> col_sorted (col_of_list l).
  Proof.
    intro l. unfold col_of_list.
    assert (G : forall acc, col_sorted acc -> vals_sorted (map snd l) ->
                col_sorted (fold_left (fun m kv => col_insert (fst kv) (value_without_empty_entries (snd kv)) m) l acc)).
    { induction l as [|[k v] l IH]; intros acc Ha Hl; cbn [fold_left]; [exact Ha|].
      inversion Hl; subst. apply IH; [apply col_insert_sorted; [apply value_sorted_without_empty_entries|]; assumption|assumption]. }
    apply G. constructor.
  Qed.

  Lemma spec_holds_fee : forall f b, spec_holds min_ada (with_fee f b) <-> spec_holds min_ada b.
  Proof. intros f b. unfold spec_holds. fields. reflexivity. Qed.

  (* balancing (add_change_if_needed / set_fee: the fee) never changes fields 13/16/17 *)
  Theorem balance_keeps_fields : forall lr le f b,
    build_fields (snd (step_gen min_ada lr le (OpBalance f) b)) = build_fields b /\
    (spec_holds min_ada (snd (step_gen min_ada lr le (OpBalance f) b)) <-> spec_holds min_ada b).
  Proof. intros. cbn [step_gen snd]. split; [reflexivity|apply spec_holds_fee]. Qed.

  (* what a successful helper leaves behind besides the spec: the sum of the inputs fits, the stored return is sorted *)
  Definition governed_ok (b : builder) : Prop :=
    spec_holds min_ada b /\ (exists s, total_value (b_collateral b) = Ok s) /\
    value_sorted (return_value (b_return b)) = true.

  Definition inv (b : builder) (p : prov) : Prop :=
    col_sorted (b_collateral b) /\ (p = Governed -> governed_ok b).

  Lemma return_sorted_of_sum : forall s addr t, value_sorted s = true ->
    value_sorted (return_value (if is_some (multiasset_of s) || (0 <? coin s - t)
                                then Some (output_new addr (mkValue (coin s - t) (multiasset_of s))) else None)) = true.
  Proof.
    intros s addr t Hs. destruct (is_some (multiasset_of s) || (0 <? coin s - t)); [|reflexivity].
    unfold return_value, output_new, value_sorted in *. cbn [o_amount multiasset_of]. exact Hs.
  Qed.

  Lemma step_inv : forall le o b p, op_wf o -> inv b p ->
    inv (snd (step_gen min_ada false le o b)) (prov_step_gen min_ada false le o b p).
  Proof.
    intros le o b p Ho [Hc Hg]. destruct o; cbn [step_gen prov_step_gen snd fst op_wf] in *.
    - split; [fields; apply col_of_list_sorted; exact Ho|]. destruct p; discriminate.
    - split; [exact Hc|discriminate].
    - split; [exact Hc|discriminate].
    - split; [exact Hc|discriminate].
    - split; [exact Hc|discriminate].
    - destruct (set_collateral_return_and_total min_ada o b) as [b'| | |] eqn:E; cbn [of_result fst snd];
        try (split; assumption).
      destruct (return_then_total_ok _ _ _ Hc Ho E) as (Hs & Hr & Hcol & _ & _ & s & Hsum & _).
      split; [rewrite Hcol; exact Hc|intros _]. split; [exact Hs|]. split; [exists s; rewrite Hcol; exact Hsum|].
      rewrite Hr. exact Ho.
    - destruct (set_total_collateral_and_return_gen min_ada false t addr b) as [b'| | |] eqn:E; cbn [of_result fst snd];
        try (split; assumption).
      destruct (total_then_return_ok _ _ _ _ _ Hc (or_introl eq_refl) E) as (Hs & _ & Hcol & _ & _ & s & Hsum & _ & Hr).
      split; [rewrite Hcol; exact Hc|intros _]. split; [exact Hs|]. split; [exists s; rewrite Hcol; exact Hsum|].
      rewrite Hr. apply return_sorted_of_sum. apply (total_value_sem _ _ Hc Hsum).
    - destruct (percent_helper_gen min_ada false le pct addr bal_ok fee_after b) as [[|] b'] eqn:E; cbn [fst snd].
      + destruct (percent_ok _ _ _ _ _ _ _ Hc E) as (Hs & Hcol & _ & _ & s & Hsum & Hr).
        split; [rewrite Hcol; exact Hc|intros _]. split; [exact Hs|]. split; [exists s; rewrite Hcol; exact Hsum|].
        rewrite Hr. apply return_sorted_of_sum. apply (total_value_sem _ _ Hc Hsum).
      + unfold percent_helper_gen in E.
        destruct (total_value (b_collateral b)) as [tc| | |] eqn:Et.
        * split; [|discriminate].
          destruct (negb bal_ok); [injection E as <-; exact Hc|].
          cbn [b_fee clear_fields with_total with_return with_fee] in E.
          destruct fee_after; [|injection E as <-; exact Hc].
          destruct (let* x := u64_mul n pct in u64_add (x / 100) 1); try (injection E as <-; exact Hc).
          match type of E with context [set_total_collateral_and_return_gen _ _ _ _ ?b3] =>
            destruct (set_total_collateral_and_return_gen min_ada false a addr b3) end;
            try discriminate; injection E as <-; exact Hc.
        * destruct le; injection E as <-; (split; [exact Hc|]); [exact Hg|discriminate].
        * destruct le; injection E as <-; (split; [exact Hc|]); [exact Hg|discriminate].
        * destruct le; injection E as <-; (split; [exact Hc|]); [exact Hg|discriminate].
    - split; [exact Hc|]. intro E. destruct (Hg E) as (H1 & H2 & H3). split; [apply spec_holds_fee; exact H1|]. split; assumption.
  Qed.

  Lemma run_prov_inv : forall le h b p, Forall op_wf h -> inv b p ->
    inv (fst (run_prov_gen min_ada false le h b p)) (snd (run_prov_gen min_ada false le h b p)).
  Proof.
    intros le h. induction h as [|o h IH]; intros b p Hh Hi; cbn [run_prov_gen fst snd]; [exact Hi|].
    inversion Hh; subst. apply IH; [assumption|]. apply step_inv; assumption.
  Qed.

  Lemma run_prov_fst : forall lr le h b p, fst (run_prov_gen min_ada lr le h b p) = run_gen min_ada lr le h b.
  Proof.
    intros lr le h. unfold run_gen. induction h as [|o h IH]; intros b p; cbn [run_prov_gen fold_left]; [reflexivity|apply IH].
  Qed.

  (* C19 along every history: when fields 16/17 were last written by a successful helper and the collateral inputs
     are still the ones it used (provenance Governed = not Free and not the known class Stale), the body satisfies the
     whole statement.  Quantifies over all histories of the nine operations, all collateral sets, outputs, totals,
     percentages, balancing outcomes and fees, and all min-ADA functions. *)
  Theorem history_governed : forall h b p,
    Forall op_wf h -> run_prov min_ada h builder_new Free = (b, p) ->
    p <> Free -> known_stale p = false -> spec_holds min_ada b.
  Proof.
    intros h b p Hh Hr Hp Hk.
    assert (Hi : inv builder_new Free) by (split; [constructor|discriminate]).
    pose proof (run_prov_inv legacy_early_failure_keeps_fields h builder_new Free Hh Hi) as [_ Hg].
    unfold run_prov, legacy_keeps_stale_return in Hr. rewrite Hr in Hg. cbn [fst snd] in Hg.
    apply Hg. destruct p; [congruence|reflexivity|discriminate].
  Qed.

  (* ----------------------------------------------------------------------------------------- *)
  (* The judge *)

  Lemma spec_min_adab_spec : forall r, spec_min_adab min_ada r = true <-> spec_min_ada min_ada r.
  Proof.
    intros [o|]; cbn [spec_min_adab spec_min_ada]; [|tauto].
    destruct (min_ada o) as [m| | |]; split; intro H; try discriminate.
    - exists m. split; [reflexivity|apply N.leb_le; exact H].
    - destruct H as (m' & E & H). injection E as <-. apply N.leb_le; exact H.
    - destruct H as (? & ? & _); discriminate.
    - destruct H as (? & ? & _); discriminate.
    - destruct H as (? & ? & _); discriminate.
  Qed.

  Lemma spec_consistentb_spec : forall ins r t s,
    vals_sorted ins -> value_sorted (return_value r) = true -> sum_values value_zero ins = Ok s ->
    (spec_consistentb ins r t = true <-> spec_consistent ins r t).
  Proof.
    intros ins r t s Hi Hr Hs. unfold spec_consistentb. rewrite Hs.
    destruct (sum_values_sem _ _ _ (eq_refl : value_sorted value_zero = true) Hi Hs) as (Hss & Hc & Hq).
    rewrite (value_eqb_sem_spec s _ Hss) by exact Hr.
    unfold value_eq_sem, spec_consistent. cbn [coin]. change (coin value_zero) with 0 in Hc.
    split; intros [H1 H2]; (split; [lia|]); intros p n; specialize (H2 p n); specialize (Hq p n);
      change (qty value_zero p n) with 0 in Hq; unfold qty in *; cbn [multiasset_of] in *; lia.
  Qed.

  (* the executable judge decides the statement: acceptance is sound for all inputs; it is complete whenever the plain
     sum of the inputs fits in 64 bits per lovelace and per asset (which every state written by a helper satisfies) *)
  Theorem judge_decides_spec : forall ins r t,
    vals_sorted ins -> value_sorted (return_value r) = true ->
    (spec_holdsb min_ada ins r t = true ->
       exists t', t = Some t' /\ spec_consistent ins r t' /\ spec_min_ada min_ada r) /\
    (forall s t', sum_values value_zero ins = Ok s -> t = Some t' -> spec_consistent ins r t' -> spec_min_ada min_ada r ->
       spec_holdsb min_ada ins r t = true).
  Proof.
    intros ins r t Hi Hr. split.
    - unfold spec_holdsb. destruct t as [t'|]; [|discriminate]. intro H. apply andb_true_iff in H. destruct H as [H1 H2].
      exists t'. split; [reflexivity|]. split; [|apply spec_min_adab_spec; exact H2].
      unfold spec_consistentb in H1. destruct (sum_values value_zero ins) as [s| | |] eqn:Es; try discriminate.
      apply (spec_consistentb_spec ins r t' s Hi Hr Es). unfold spec_consistentb. rewrite Es. exact H1.
    - intros s t' Es -> H1 H2. unfold spec_holdsb. apply andb_true_iff. split.
      + apply (spec_consistentb_spec ins r t' s Hi Hr Es). exact H1.
      + apply spec_min_adab_spec. exact H2.
  Qed.

  Lemma inv_good : forall b p, inv b p -> p = Governed ->
    spec_holdsb min_ada (map snd (b_collateral b)) (b_return b) (b_total b) = true.
  Proof.
    intros b p [Hc Hg] E. destruct (Hg E) as (Hs & (s & Hsum) & Hr).
    unfold spec_holds in Hs. destruct (b_total b) as [t|] eqn:Et; [|contradiction]. destruct Hs as [H1 H2].
    exact (proj2 (judge_decides_spec _ _ (Some t) Hc Hr) s t Hsum eq_refl H1 H2).
  Qed.

  Lemma txin_cmp_refl : forall k, txin_cmp k k = Eq.
  Proof. intros [a i]. unfold txin_cmp. cbn [fst snd]. rewrite bytes_cmp_refl. apply N.compare_refl. Qed.

  Lemma fields_keys_match_refl : forall b, fields_keys_match b (build_fields b) = true.
  Proof.
    intro b. unfold fields_keys_match, build_fields. cbn [f13].
    destruct (b_collateral b) as [|kv c]; [reflexivity|].
    apply andb_true_iff. split.
    - rewrite map_length. apply Nat.eqb_refl.
    - generalize (map fst (kv :: c)). intro l. induction l as [|k l IH]; [reflexivity|].
      cbn [combine forallb fst snd]. rewrite txin_cmp_refl. exact IH.
  Qed.

  Lemma assets_eqb_refl : forall a, assets_eqb a a = true.
  Proof. induction a as [|[n q] a IH]; cbn [assets_eqb]; [reflexivity|]. rewrite bytes_eqb_refl, N.eqb_refl. exact IH. Qed.
  Lemma ma_eqb_refl : forall m, ma_eqb m m = true.
  Proof. induction m as [|[p a] m IH]; cbn [ma_eqb]; [reflexivity|]. rewrite bytes_eqb_refl, assets_eqb_refl. exact IH. Qed.
  Lemma output_eqb_refl : forall o, output_eqb o o = true.
  Proof.
    intro o. unfold output_eqb, value_struct_eqb. rewrite !bytes_eqb_refl, N.eqb_refl.
    destruct (multiasset_of (o_amount o)); cbn [opt_eqb]; [rewrite ma_eqb_refl|]; reflexivity.
  Qed.
  Lemma opt_output_eqb_refl : forall o, opt_eqb output_eqb o o = true.
  Proof. intros [o|]; cbn [opt_eqb]; [apply output_eqb_refl|reflexivity]. Qed.
  Lemma opt_N_eqb_refl : forall o, opt_eqb N.eqb o o = true.
  Proof. intros [o|]; cbn [opt_eqb]; [apply N.eqb_refl|reflexivity]. Qed.

  Lemma prov_step_obs_model : forall o b p,
    prov_step_obs o p (fst (step min_ada o b)) = prov_step_gen min_ada false false o b p.
  Proof.
    intros o b p. unfold step, legacy_keeps_stale_return, legacy_early_failure_keeps_fields.
    destruct o; cbn [prov_step_obs prov_step_gen]; try reflexivity.
    destruct (fst (step_gen min_ada false false (OpPercent pct addr bal_ok fee_after) b)); [reflexivity|].
    destruct (total_value (b_collateral b)); reflexivity.
  Qed.

  Lemma by_prov_ok : forall b p, inv b p ->
    match p with
    | Governed => if spec_holdsb min_ada (map snd (b_collateral b)) (b_return b) (b_total b) then Holds else FailsUnknown
    | Stale => if spec_holdsb min_ada (map snd (b_collateral b)) (b_return b) (b_total b) then Holds else FailsKnown 1
    | Free => NotApplicable
    end <> FailsUnknown.
  Proof.
    intros b p Hi. destruct p; [discriminate| |].
    - rewrite (inv_good b Governed Hi eq_refl). discriminate.
    - destruct (spec_holdsb _ _ _ _); discriminate.
  Qed.

  Lemma f16_build : forall b, f16 (build_fields b) = b_return b.
  Proof. reflexivity. Qed.
  Lemma f17_build : forall b, f17 (build_fields b) = b_total b.
  Proof. reflexivity. Qed.

  Lemma judge_op_model : forall o b p, op_wf o -> inv b p ->
    judge_op min_ada o (build_fields b) (snd (step min_ada o b)) (prov_step_gen min_ada false false o b p)
             (mkObs (fst (step min_ada o b)) (build_fields (snd (step min_ada o b))) (b_fee (snd (step min_ada o b))))
    <> FailsUnknown.
  Proof.
    intros o b p Ho Hi.
    pose proof (step_inv false o b p Ho Hi) as Hi'.
    unfold step, legacy_keeps_stale_return, legacy_early_failure_keeps_fields in *.
    set (b' := snd (step_gen min_ada false false o b)) in *.
    set (p' := prov_step_gen min_ada false false o b p) in *.
    unfold judge_op. cbn [ob_fields ob_ok ob_fee]. rewrite fields_keys_match_refl. cbn [negb].
    rewrite !f16_build, !f17_build.
    pose proof (by_prov_ok b' p' Hi') as Hprov.
    destruct o; try exact Hprov.
    - (* explicit return *)
      destruct (fst (step_gen min_ada false false (OpReturnAndTotal o) b)) eqn:Eok.
      + assert (Ep : p' = Governed) by (unfold p'; cbn [prov_step_gen]; rewrite Eok; reflexivity).
        rewrite (inv_good b' p' Hi' Ep). discriminate.
      + assert (Eb : b' = b) by (apply (explicit_failure_unchanged false false (OpReturnAndTotal o) b I Eok)).
        rewrite Eb in *. rewrite opt_output_eqb_refl, opt_N_eqb_refl. cbn [andb]. exact Hprov.
    - (* explicit total *)
      destruct (fst (step_gen min_ada false false (OpTotalAndReturn t addr) b)) eqn:Eok.
      + assert (Ep : p' = Governed) by (unfold p'; cbn [prov_step_gen]; rewrite Eok; reflexivity).
        rewrite (inv_good b' p' Hi' Ep). discriminate.
      + assert (Eb : b' = b) by (apply (explicit_failure_unchanged false false (OpTotalAndReturn t addr) b I Eok)).
        rewrite Eb in *. rewrite opt_output_eqb_refl, opt_N_eqb_refl. cbn [andb]. exact Hprov.
    - (* percentage helper *)
      destruct Hi as [Hc _].
      destruct (step_gen min_ada false false (OpPercent pct addr bal_ok fee_after) b) as [ok b2] eqn:Es.
      cbn [step_gen] in Es. cbn [fst snd] in *. subst b'.
      destruct ok.
      + assert (Ep : p' = Governed) by (unfold p'; cbn [prov_step_gen step_gen]; rewrite Es; reflexivity).
        destruct (percent_ok _ _ _ _ _ _ _ Hc Es) as (_ & _ & _ & (f & _ & Hfee & _ & Ht & Hp) & _).
        rewrite Hfee, Ht.
        pose proof (inv_good b2 p' Hi' Ep) as Hg. rewrite Ht in Hg. rewrite Hg. cbn [andb].
        unfold spec_percentb. replace (ceil_div (f * pct) 100 <=? f * pct / 100 + 1) with true; [discriminate|].
        symmetry. apply N.leb_le. exact Hp.
      + destruct (percent_failure_unset _ _ _ _ _ _ _ Es) as (Hr & Ht & _). rewrite Hr, Ht. discriminate.
  Qed.

  Lemma worse_ok : forall a b, a <> FailsUnknown -> b <> FailsUnknown -> worse a b <> FailsUnknown.
  Proof. intros [] []; cbn [worse]; congruence. Qed.

  Lemma judge_run_model : forall h b p acc,
    Forall op_wf h -> inv b p -> acc <> FailsUnknown ->
    judge_run min_ada h (model_obs min_ada h b) (build_fields b) b p acc <> FailsUnknown.
  Proof.
    induction h as [|o h IH]; intros b p acc Hh Hi Ha; cbn [model_obs judge_run]; [exact Ha|].
    inversion Hh; subst. cbn [ob_ok ob_fields]. rewrite prov_step_obs_model.
    apply IH; [assumption| |].
    - pose proof (step_inv false o b p H1 Hi) as Hi'. exact Hi'.
    - apply worse_ok; [exact Ha|]. apply judge_op_model; assumption.
  Qed.

  (* the judge never rejects what the model itself produces (verdicts: holds, na, or the known class) *)
  Theorem judge_accepts_model : forall h, Forall op_wf h ->
    judge min_ada h (model_obs min_ada h builder_new) <> FailsUnknown.
  Proof.
    intros h Hh. unfold judge. apply judge_run_model; [exact Hh| |discriminate].
    split; [constructor|discriminate].
  Qed.
End Proofs.

(* ------------------------------------------------------------------------------------------- *)
(* Witnesses *)

Definition w_min_ada : output -> result N := fun _ => Ok 0.
Definition w_tid (i : N) : bytes := repeat i 32.
Definition w_addr (i : N) : bytes := 96 :: repeat i 28.
Definition w_policy : bytes := repeat 9 28.
Definition w_tokens (q : N) : multiasset := ma_set_asset w_policy [120] q ma_new.

(* the known class: figures computed by a helper, collateral inputs replaced afterwards *)
Definition w_stale : list op :=
  [ OpSetCollateral [((w_tid 1, 1), value_new 5000000)];
    OpReturnAndTotal (output_new (w_addr 2) (value_new 3000000));
    OpSetCollateral [((w_tid 4, 4), value_new 9000000)] ].

Theorem stale_refuted :
  Forall op_wf w_stale /\
  snd (run_prov w_min_ada w_stale builder_new Free) = Stale /\
  ~ spec_holds w_min_ada (fst (run_prov w_min_ada w_stale builder_new Free)).
Proof.
  split; [repeat constructor|]. split; [vm_compute; reflexivity|].
  intro H. unfold spec_holds in H.
  replace (b_total (fst (run_prov w_min_ada w_stale builder_new Free))) with (Some 2000000) in H by (vm_compute; reflexivity).
  destruct H as [[H _] _]. vm_compute in H. discriminate.
Qed.

(* before fixes/C19-stale-return.patch: a return stored earlier survived set_total_collateral_and_return(total = all) *)
Definition w_legacy_return : list op :=
  [ OpSetCollateral [((w_tid 1, 1), value_new 5000000)];
    OpSetReturn (output_new (w_addr 2) (value_new 3000000));
    OpTotalAndReturn 5000000 (w_addr 3) ].

Theorem legacy_stale_return_refuted :
  Forall op_wf w_legacy_return /\
  snd (run_prov_gen w_min_ada true false w_legacy_return builder_new Free) = Governed /\
  ~ spec_holds w_min_ada (fst (run_prov_gen w_min_ada true false w_legacy_return builder_new Free)).
Proof.
  split; [repeat constructor|]. split; [vm_compute; reflexivity|].
  intro H. unfold spec_holds in H.
  replace (b_total (fst (run_prov_gen w_min_ada true false w_legacy_return builder_new Free))) with (Some 5000000) in H
    by (vm_compute; reflexivity).
  destruct H as [[H _] _]. vm_compute in H. discriminate.
Qed.

(* ... and the repaired code is fine on the same history *)
Example legacy_stale_return_repaired :
  build_fields (run w_min_ada w_legacy_return builder_new) = mkBody (Some [(w_tid 1, 1)]) None (Some 5000000).
Proof. vm_compute. reflexivity. Qed.

(* before fixes/C19-percent-early-failure.patch: the helper failed on the overflowing sum before clearing the fields *)
Definition w_early_state : builder :=
  mkBuilder (col_of_list [((w_tid 1, 1), mkValue 5000000 (Some (w_tokens 18446744073709551615)));
                          ((w_tid 2, 2), mkValue 5000000 (Some (w_tokens 1)))])
            (Some (output_new (w_addr 2) (value_new 3000000))) (Some 7000000) None.

Theorem legacy_early_failure_refuted :
  exists b', percent_helper_gen w_min_ada false true 150 (w_addr 6) true (Some 170000) w_early_state = (false, b') /\
             b_total b' <> None /\ b_return b' <> None.
Proof. eexists. split; [vm_compute; reflexivity|]. split; discriminate. Qed.

Example legacy_early_failure_repaired :
  percent_helper w_min_ada 150 (w_addr 6) true (Some 170000) w_early_state = (false, clear_fields w_early_state).
Proof. vm_compute. reflexivity. Qed.

(* non-vacuity of the premises: a history with assets where every helper succeeds *)
Definition w_good : list op :=
  [ OpSetCollateral [((w_tid 1, 1), mkValue 5000000 (Some (w_tokens 7))); ((w_tid 2, 0), value_new 2000000)];
    OpReturnAndTotal (mkOutput (w_addr 2) (mkValue 4000000 (Some (w_tokens 7))) []);
    OpBalance (Some 170000);
    OpTotalAndReturn 1000000 (w_addr 3);
    OpPercent 150 (w_addr 3) true (Some 200000) ].

Example good_history_governed :
  Forall op_wf w_good /\ snd (run_prov w_min_ada w_good builder_new Free) = Governed /\
  build_fields (fst (run_prov w_min_ada w_good builder_new Free)) =
    mkBody (Some [(w_tid 1, 1); (w_tid 2, 0)])
           (Some (output_new (w_addr 3) (mkValue 6699999 (Some (w_tokens 7))))) (Some 300001).
Proof. split; [repeat constructor|]. split; vm_compute; reflexivity. Qed.
