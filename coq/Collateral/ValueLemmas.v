(* Collateral/ValueLemmas.v — semantic lemmas about the executable Value model (Num/Value.v).
   Stdlib only, everything proved.

   Inventory
     orders        bytes_cmp_refl / _eq / _antisym / _lt_trans, name_cmp_refl / _eq / _antisym / _lt_trans,
                   bytes_eqb_eq, bytes_eqb_refl, bytes_eqb_spec, cmp_ok, bytes_cmp_ok, name_cmp_ok, match_cmp_eq
     sorted maps   (Section AMLemmas, generic in the order) am_lb, am_sorted_cons, am_get_cons, am_get_insert,
                   am_get_remove, am_get_lb_none, am_get_some_in, am_in_get, am_in_insert, am_in_remove,
                   am_sorted_insert, am_sorted_remove, am_forallb_insert, am_forallb_remove, am_insert_not_nil
     quantities    a_qty, ma_qty_unfold, a_qty_insert, a_qty_remove, ma_qty_insert, ma_qty_remove, ma_qty_cons,
                   entry_amt, entries_sum, entries_sum_app, entries_sum_entries
     sortedness    ma_sorted, value_sorted, ma_sorted_iff, ma_sorted_insert, ma_sorted_remove, ma_sorted_get,
                   ma_wfb_sorted, value_wfb_sorted
     sub           ma_sub_entry_sorted, ma_sub_entry_qty, ma_sub_fold, ma_sub_sorted, ma_sub_qty, ma_covers_le,
                   ma_covers_false, value_checked_sub_sem, value_checked_sub_err, value_checked_sub_total
     add           ma_add_entry_ok, ma_add_entries_ok, ma_checked_add_ok, ma_add_entry_total, ma_add_entries_total,
                   value_checked_add_sem, value_checked_add_total
     deciders      ma_get_asset_zero_or_in, ma_entries_in_get_asset (= ma_qty_zero_or_in, ma_entries_in_qty),
                   ma_leb_sem_le, ma_leb_sem_spec, value_leb_sem_spec, value_eqb_sem_spec
     positivity    ma_positive, ma_sub_entry_positive, ma_sub_positive, ma_positive_zero_nil,
                   ma_sub_all_covered_nil, ma_sub_nil_le
*)
From CSL Require Import Base.Prelude Num.Value.
Local Open Scope N_scope.

(* =========================================================================================== *)
(* 1. The key orders *)

Lemma bytes_cmp_refl : forall a, bytes_cmp a a = Eq.
Proof.
  induction a as [|x a IH]; cbn [bytes_cmp]; [reflexivity|].
  rewrite N.compare_refl. exact IH.
Qed.

Lemma bytes_cmp_eq : forall a b, bytes_cmp a b = Eq <-> a = b.
Proof.
  induction a as [|x a IH]; destruct b as [|y b]; cbn [bytes_cmp]; split; intro H;
    try reflexivity; try discriminate.
  - destruct (N.compare_spec x y) as [E|E|E]; try discriminate.
    subst. f_equal. apply IH; exact H.
  - inversion H; subst. rewrite N.compare_refl. apply IH; reflexivity.
Qed.

Lemma bytes_cmp_antisym : forall a b, bytes_cmp b a = CompOpp (bytes_cmp a b).
Proof.
  induction a as [|x a IH]; destruct b as [|y b]; cbn [bytes_cmp]; try reflexivity.
  rewrite (N.compare_antisym x y). destruct (x ?= y); cbn [CompOpp]; auto.
Qed.

Lemma bytes_cmp_lt_trans : forall a b c,
  bytes_cmp a b = Lt -> bytes_cmp b c = Lt -> bytes_cmp a c = Lt.
Proof.
  induction a as [|x a IH]; destruct b as [|y b]; destruct c as [|z c]; cbn [bytes_cmp];
    try discriminate; try (intros; reflexivity).
  destruct (N.compare_spec x y) as [E1|E1|E1]; try discriminate;
    destruct (N.compare_spec y z) as [E2|E2|E2]; try discriminate; intros H1 H2.
  - subst. rewrite N.compare_refl. eauto.
  - subst. rewrite (proj2 (N.compare_lt_iff _ _) E2). reflexivity.
  - subst. rewrite (proj2 (N.compare_lt_iff _ _) E1). reflexivity.
  - rewrite (proj2 (N.compare_lt_iff x z)) by lia. reflexivity.
Qed.

Lemma name_cmp_refl : forall a, name_cmp a a = Eq.
Proof. intro a. unfold name_cmp. rewrite N.compare_refl. apply bytes_cmp_refl. Qed.

Lemma name_cmp_eq : forall a b, name_cmp a b = Eq <-> a = b.
Proof.
  intros a b; split; intro H.
  - unfold name_cmp in H.
    destruct (N.of_nat (length a) ?= N.of_nat (length b)); try discriminate.
    apply bytes_cmp_eq; exact H.
  - subst. apply name_cmp_refl.
Qed.

Lemma name_cmp_antisym : forall a b, name_cmp b a = CompOpp (name_cmp a b).
Proof.
  intros a b; unfold name_cmp.
  rewrite (N.compare_antisym (N.of_nat (length a)) (N.of_nat (length b))).
  destruct (N.of_nat (length a) ?= N.of_nat (length b)); cbn [CompOpp]; auto using bytes_cmp_antisym.
Qed.

Lemma name_cmp_lt_trans : forall a b c,
  name_cmp a b = Lt -> name_cmp b c = Lt -> name_cmp a c = Lt.
Proof.
  intros a b c; unfold name_cmp.
  destruct (N.compare_spec (N.of_nat (length a)) (N.of_nat (length b))) as [E1|E1|E1]; try discriminate;
    destruct (N.compare_spec (N.of_nat (length b)) (N.of_nat (length c))) as [E2|E2|E2]; try discriminate;
    intros H1 H2.
  - rewrite E1, E2, N.compare_refl. eapply bytes_cmp_lt_trans; eauto.
  - rewrite E1. rewrite (proj2 (N.compare_lt_iff _ _) E2). reflexivity.
  - rewrite <- E2. rewrite (proj2 (N.compare_lt_iff _ _) E1). reflexivity.
  - rewrite (proj2 (N.compare_lt_iff (N.of_nat (length a)) (N.of_nat (length c)))) by lia. reflexivity.
Qed.

Lemma bytes_eqb_eq : forall a b, bytes_eqb a b = true <-> a = b.
Proof.
  intros a b. unfold bytes_eqb. rewrite <- bytes_cmp_eq.
  destruct (bytes_cmp a b); split; intro H; try reflexivity; discriminate.
Qed.

Lemma bytes_eqb_refl : forall a, bytes_eqb a a = true.
Proof. intro a. apply bytes_eqb_eq. reflexivity. Qed.

Lemma bytes_eqb_spec : forall a b, reflect (a = b) (bytes_eqb a b).
Proof.
  intros a b. destruct (bytes_eqb a b) eqn:E; constructor.
  - apply bytes_eqb_eq; exact E.
  - intro H. apply bytes_eqb_eq in H. congruence.
Qed.

(* what the generic lemmas need of an order *)
Definition cmp_ok (cmp : bytes -> bytes -> comparison) : Prop :=
  (forall a b, cmp a b = Eq <-> a = b) /\
  (forall a b, cmp b a = CompOpp (cmp a b)) /\
  (forall a b c, cmp a b = Lt -> cmp b c = Lt -> cmp a c = Lt).

Lemma bytes_cmp_ok : cmp_ok bytes_cmp.
Proof. repeat split; try apply bytes_cmp_eq; [apply bytes_cmp_antisym | apply bytes_cmp_lt_trans]. Qed.

Lemma name_cmp_ok : cmp_ok name_cmp.
Proof. repeat split; try apply name_cmp_eq; [apply name_cmp_antisym | apply name_cmp_lt_trans]. Qed.

Lemma match_cmp_eq : forall {A} cmp, cmp_ok cmp -> forall a b (x y : A),
  match cmp a b with Eq => x | Lt => y | Gt => y end = if bytes_eqb a b then x else y.
Proof.
  intros A cmp [Heq _] a b x y.
  destruct (bytes_eqb_spec a b) as [->|Hne].
  - rewrite (proj2 (Heq b b) eq_refl). reflexivity.
  - destruct (cmp a b) eqn:E; try reflexivity. apply Heq in E. contradiction.
Qed.

(* =========================================================================================== *)
(* 2. Strictly sorted association lists, generic in the order *)

Section AMLemmas.
  Context {V : Type}.
  Variable cmp : bytes -> bytes -> comparison.
  Hypothesis Hcmp : cmp_ok cmp.

  Lemma am_cmp_eq : forall a b, cmp a b = Eq <-> a = b.
  Proof. exact (proj1 Hcmp). Qed.
  Lemma am_cmp_refl : forall a, cmp a a = Eq.
  Proof. intro a; apply am_cmp_eq; reflexivity. Qed.
  Lemma am_cmp_trans : forall a b c, cmp a b = Lt -> cmp b c = Lt -> cmp a c = Lt.
  Proof. exact (proj2 (proj2 Hcmp)). Qed.
  Lemma am_cmp_gt_lt : forall a b, cmp a b = Gt -> cmp b a = Lt.
  Proof. intros a b H. rewrite (proj1 (proj2 Hcmp)), H. reflexivity. Qed.
  Lemma am_cmp_lt_gt : forall a b, cmp a b = Lt -> cmp b a = Gt.
  Proof. intros a b H. rewrite (proj1 (proj2 Hcmp)), H. reflexivity. Qed.

  (* k is strictly below every key of m *)
  Definition am_lb (k : bytes) (m : list (bytes * V)) : Prop :=
    forall k' v', In (k', v') m -> cmp k k' = Lt.

  Lemma am_sorted_cons2 : forall k v k1 v1 (m : list (bytes * V)),
    am_sorted cmp ((k, v) :: (k1, v1) :: m) =
    match cmp k k1 with Lt => am_sorted cmp ((k1, v1) :: m) | _ => false end.
  Proof. reflexivity. Qed.

  Lemma am_sorted_cons : forall k v (m : list (bytes * V)),
    am_sorted cmp ((k, v) :: m) = true <-> (am_lb k m /\ am_sorted cmp m = true).
  Proof.
    intros k v m; revert k v. induction m as [|[k1 v1] m IH]; intros k v.
    - split; [intros _; split; [intros ? ? []|reflexivity] | reflexivity].
    - rewrite am_sorted_cons2. split.
      + destruct (cmp k k1) eqn:E; try discriminate. intro H. split; [|exact H].
        intros k' v' [H'|H'].
        * inversion H'; subst; exact E.
        * apply (am_cmp_trans k k1 k'); [exact E|].
          apply (IH k1 v1) in H. destruct H as [H _]. eapply H; eauto.
      + intros [Hlb Hs]. rewrite (Hlb k1 v1 (or_introl eq_refl)). exact Hs.
  Qed.

  Lemma am_get_cons : forall k k' (v : V) m,
    am_get cmp k ((k', v) :: m) = match cmp k k' with Eq => Some v | _ => am_get cmp k m end.
  Proof. reflexivity. Qed.

  Lemma am_get_insert : forall k k' (v : V) m,
    am_get cmp k (am_insert cmp k' v m) = match cmp k k' with Eq => Some v | _ => am_get cmp k m end.
  Proof.
    intros k k' v m. induction m as [|[k1 v1] m IH].
    - cbn [am_insert am_get]. destruct (cmp k k'); reflexivity.
    - cbn [am_insert]. destruct (cmp k' k1) eqn:E.
      + apply am_cmp_eq in E. subst k1. cbn [am_get]. destruct (cmp k k'); reflexivity.
      + cbn [am_get]. destruct (cmp k k'); reflexivity.
      + cbn [am_get]. rewrite IH. destruct (cmp k k1) eqn:E1; [|reflexivity|reflexivity].
        apply am_cmp_eq in E1. subst k1. rewrite (am_cmp_gt_lt _ _ E). reflexivity.
  Qed.

  Lemma am_get_lb_none : forall k0 k (m : list (bytes * V)),
    am_lb k0 m -> cmp k k0 <> Gt -> am_get cmp k m = None.
  Proof.
    intros k0 k m. induction m as [|[k1 v1] m IH]; intros Hlb Hk; [reflexivity|].
    cbn [am_get].
    assert (E : cmp k k1 = Lt).
    { pose proof (Hlb k1 v1 (or_introl eq_refl)) as H1. destruct (cmp k k0) eqn:E0.
      - apply am_cmp_eq in E0; subst; exact H1.
      - eapply am_cmp_trans; eauto.
      - congruence. }
    rewrite E. apply IH; [|exact Hk]. intros k' v' H'. apply (Hlb k' v'). right; exact H'.
  Qed.

  Lemma am_get_some_in : forall k (v : V) m, am_get cmp k m = Some v -> In (k, v) m.
  Proof.
    intros k v m. induction m as [|[k1 v1] m IH]; cbn [am_get]; [discriminate|].
    destruct (cmp k k1) eqn:E; intro H.
    - apply am_cmp_eq in E; subst. inversion H; subst. left; reflexivity.
    - right; auto.
    - right; auto.
  Qed.

  Lemma am_in_get : forall k (v : V) m,
    am_sorted cmp m = true -> In (k, v) m -> am_get cmp k m = Some v.
  Proof.
    intros k v m. induction m as [|[k1 v1] m IH]; intros Hs Hin; [destruct Hin|].
    apply am_sorted_cons in Hs. destruct Hs as [Hlb Hs]. destruct Hin as [H|H].
    - inversion H; subst. cbn [am_get]. rewrite am_cmp_refl. reflexivity.
    - cbn [am_get]. rewrite (am_cmp_lt_gt _ _ (Hlb k v H)). apply IH; assumption.
  Qed.

  Lemma am_get_remove : forall k k' (m : list (bytes * V)), am_sorted cmp m = true ->
    am_get cmp k (am_remove cmp k' m) = match cmp k k' with Eq => None | _ => am_get cmp k m end.
  Proof.
    intros k k' m. induction m as [|[k1 v1] m IH]; intro Hs.
    - cbn. destruct (cmp k k'); reflexivity.
    - apply am_sorted_cons in Hs. destruct Hs as [Hlb Hs]. cbn [am_remove].
      destruct (cmp k' k1) eqn:E.
      + apply am_cmp_eq in E; subst k1. cbn [am_get]. destruct (cmp k k') eqn:E1; try reflexivity.
        apply (am_get_lb_none k' k m Hlb). congruence.
      + cbn [am_get]. rewrite (IH Hs). destruct (cmp k k1) eqn:E1; try reflexivity.
        apply am_cmp_eq in E1; subst k1. rewrite (am_cmp_lt_gt _ _ E). reflexivity.
      + cbn [am_get]. rewrite (IH Hs). destruct (cmp k k1) eqn:E1; try reflexivity.
        apply am_cmp_eq in E1; subst k1. rewrite (am_cmp_gt_lt _ _ E). reflexivity.
  Qed.

  Lemma am_in_insert : forall x k (v : V) m, In x (am_insert cmp k v m) -> x = (k, v) \/ In x m.
  Proof.
    intros x k v m. induction m as [|[k1 v1] m IH]; cbn [am_insert].
    - intros [H|[]]; left; auto.
    - destruct (cmp k k1); intros [H|H]; auto.
      + right; right; exact H.
      + right; left; exact H.
      + apply IH in H. destruct H; auto. right; right; assumption.
  Qed.

  Lemma am_in_remove : forall x k (m : list (bytes * V)), In x (am_remove cmp k m) -> In x m.
  Proof.
    intros x k m. induction m as [|[k1 v1] m IH]; cbn [am_remove]; [auto|].
    destruct (cmp k k1); intro H.
    - right; exact H.
    - destruct H as [H|H]; [left; exact H|right; auto].
    - destruct H as [H|H]; [left; exact H|right; auto].
  Qed.

  Lemma am_sorted_insert : forall k (v : V) m,
    am_sorted cmp m = true -> am_sorted cmp (am_insert cmp k v m) = true.
  Proof.
    intros k v m. induction m as [|[k1 v1] m IH]; intro Hs; [reflexivity|].
    pose proof Hs as Hs0. apply am_sorted_cons in Hs. destruct Hs as [Hlb Hs]. cbn [am_insert].
    destruct (cmp k k1) eqn:E.
    - apply am_cmp_eq in E; subst k1. apply am_sorted_cons. split; assumption.
    - apply am_sorted_cons. split; [|exact Hs0]. intros k' v' [H|H].
      + inversion H; subst; exact E.
      + eapply am_cmp_trans; [exact E|]. eapply Hlb; eauto.
    - apply am_sorted_cons. split; [|auto]. intros k' v' H. apply am_in_insert in H.
      destruct H as [H|H].
      + inversion H; subst. apply am_cmp_gt_lt; exact E.
      + eapply Hlb; eauto.
  Qed.

  Lemma am_sorted_remove : forall k (m : list (bytes * V)),
    am_sorted cmp m = true -> am_sorted cmp (am_remove cmp k m) = true.
  Proof.
    intros k m. induction m as [|[k1 v1] m IH]; intro Hs; [reflexivity|].
    apply am_sorted_cons in Hs. destruct Hs as [Hlb Hs]. cbn [am_remove].
    destruct (cmp k k1).
    - exact Hs.
    - apply am_sorted_cons. split; [|auto]. intros k' v' H. apply am_in_remove in H. eapply Hlb; eauto.
    - apply am_sorted_cons. split; [|auto]. intros k' v' H. apply am_in_remove in H. eapply Hlb; eauto.
  Qed.

  Lemma am_forallb_insert : forall (f : bytes * V -> bool) k v m,
    f (k, v) = true -> forallb f m = true -> forallb f (am_insert cmp k v m) = true.
  Proof.
    intros f k v m Hf Hm. apply forallb_forall. intros x Hx. apply am_in_insert in Hx.
    destruct Hx as [->|Hx]; [exact Hf|]. rewrite forallb_forall in Hm. auto.
  Qed.

  Lemma am_forallb_remove : forall (f : bytes * V -> bool) k m,
    forallb f m = true -> forallb f (am_remove cmp k m) = true.
  Proof.
    intros f k m Hm. apply forallb_forall. intros x Hx. apply am_in_remove in Hx.
    rewrite forallb_forall in Hm. auto.
  Qed.

  Lemma am_insert_not_nil : forall k (v : V) m, am_insert cmp k v m <> [].
  Proof.
    intros k v m. destruct m as [|[k1 v1] m]; cbn [am_insert]; [discriminate|].
    destruct (cmp k k1); discriminate.
  Qed.
End AMLemmas.

(* =========================================================================================== *)
(* 3. Quantities and sortedness of multiassets *)

Definition ma_sorted (m : multiasset) : bool :=
  am_sorted bytes_cmp m && forallb (fun pa : bytes * assets => am_sorted name_cmp (snd pa)) m.
Definition value_sorted (v : value) : bool :=
  match multiasset_of v with Some m => ma_sorted m | None => true end.

Definition a_qty (a : assets) (n : bytes) : N :=
  match am_get name_cmp n a with Some q => q | None => 0 end.

Lemma ma_qty_unfold : forall m p n,
  ma_qty m p n = match am_get bytes_cmp p m with Some a => a_qty a n | None => 0 end.
Proof. reflexivity. Qed.

Lemma ma_qty_nil : forall p n, ma_qty [] p n = 0.
Proof. reflexivity. Qed.

Lemma a_qty_cons : forall n1 q1 a n,
  a_qty ((n1, q1) :: a) n = if bytes_eqb n n1 then q1 else a_qty a n.
Proof.
  intros. unfold a_qty. rewrite am_get_cons, (match_cmp_eq _ name_cmp_ok).
  destruct (bytes_eqb n n1); reflexivity.
Qed.

Lemma a_qty_insert : forall a n q n',
  a_qty (am_insert name_cmp n q a) n' = if bytes_eqb n' n then q else a_qty a n'.
Proof.
  intros. unfold a_qty. rewrite (am_get_insert _ name_cmp_ok), (match_cmp_eq _ name_cmp_ok).
  destruct (bytes_eqb n' n); reflexivity.
Qed.

Lemma a_qty_remove : forall a n, am_sorted name_cmp a = true -> forall n',
  a_qty (am_remove name_cmp n a) n' = if bytes_eqb n' n then 0 else a_qty a n'.
Proof.
  intros a n Hs n'. unfold a_qty.
  rewrite (am_get_remove _ name_cmp_ok) by exact Hs. rewrite (match_cmp_eq _ name_cmp_ok).
  destruct (bytes_eqb n' n); reflexivity.
Qed.

Lemma a_qty_lb : forall n (a : assets), am_lb name_cmp n a -> a_qty a n = 0.
Proof.
  intros n a Hlb. unfold a_qty.
  rewrite (am_get_lb_none _ name_cmp_ok n n a Hlb); [reflexivity|].
  rewrite name_cmp_refl. discriminate.
Qed.

Lemma ma_qty_cons : forall p0 a0 m p n,
  ma_qty ((p0, a0) :: m) p n = if bytes_eqb p p0 then a_qty a0 n else ma_qty m p n.
Proof.
  intros. rewrite !ma_qty_unfold, am_get_cons, (match_cmp_eq _ bytes_cmp_ok).
  destruct (bytes_eqb p p0); reflexivity.
Qed.

Lemma ma_qty_insert : forall m p a p' n',
  ma_qty (am_insert bytes_cmp p a m) p' n' = if bytes_eqb p' p then a_qty a n' else ma_qty m p' n'.
Proof.
  intros. rewrite !ma_qty_unfold, (am_get_insert _ bytes_cmp_ok), (match_cmp_eq _ bytes_cmp_ok).
  destruct (bytes_eqb p' p); reflexivity.
Qed.

Lemma ma_qty_remove : forall (m : multiasset) p, am_sorted bytes_cmp m = true -> forall p' n',
  ma_qty (am_remove bytes_cmp p m) p' n' = if bytes_eqb p' p then 0 else ma_qty m p' n'.
Proof.
  intros m p Hs p' n'. rewrite !ma_qty_unfold.
  rewrite (am_get_remove _ bytes_cmp_ok) by exact Hs. rewrite (match_cmp_eq _ bytes_cmp_ok).
  destruct (bytes_eqb p' p); reflexivity.
Qed.

Lemma ma_qty_lb : forall p (m : multiasset) n, am_lb bytes_cmp p m -> ma_qty m p n = 0.
Proof.
  intros p m n Hlb. rewrite ma_qty_unfold.
  rewrite (am_get_lb_none _ bytes_cmp_ok p p m Hlb); [reflexivity|].
  rewrite bytes_cmp_refl. discriminate.
Qed.

Lemma ma_qty_get_some : forall (m : multiasset) p a,
  am_get bytes_cmp p m = Some a -> forall n, ma_qty m p n = a_qty a n.
Proof. intros m p a H n. rewrite ma_qty_unfold, H. reflexivity. Qed.

Lemma ma_qty_get_none : forall (m : multiasset) p,
  am_get bytes_cmp p m = None -> forall n, ma_qty m p n = 0.
Proof. intros m p H n. rewrite ma_qty_unfold, H. reflexivity. Qed.

Lemma ma_sorted_iff : forall m,
  ma_sorted m = true <->
  am_sorted bytes_cmp m = true /\ forall p a, In (p, a) m -> am_sorted name_cmp a = true.
Proof.
  intro m. unfold ma_sorted. rewrite andb_true_iff, forallb_forall.
  split; intros [H1 H2]; split; auto.
  - intros p a Hin. apply (H2 (p, a) Hin).
  - intros [p a] Hin. apply (H2 p a Hin).
Qed.

Lemma ma_sorted_nil : ma_sorted [] = true.
Proof. reflexivity. Qed.

Lemma ma_sorted_insert : forall m p a,
  ma_sorted m = true -> am_sorted name_cmp a = true -> ma_sorted (am_insert bytes_cmp p a m) = true.
Proof.
  intros m p a Hm Ha. apply ma_sorted_iff in Hm. destruct Hm as [H1 H2]. apply ma_sorted_iff. split.
  - apply (am_sorted_insert _ bytes_cmp_ok); exact H1.
  - intros p' a' Hin. apply am_in_insert in Hin. destruct Hin as [Hin|Hin].
    + inversion Hin; subst; exact Ha.
    + eapply H2; eauto.
Qed.

Lemma ma_sorted_remove : forall m p,
  ma_sorted m = true -> ma_sorted (am_remove bytes_cmp p m) = true.
Proof.
  intros m p Hm. apply ma_sorted_iff in Hm. destruct Hm as [H1 H2]. apply ma_sorted_iff. split.
  - apply (am_sorted_remove _ bytes_cmp_ok); exact H1.
  - intros p' a' Hin. apply am_in_remove in Hin. eapply H2; eauto.
Qed.

Lemma ma_sorted_get : forall m p a,
  ma_sorted m = true -> am_get bytes_cmp p m = Some a -> am_sorted name_cmp a = true.
Proof.
  intros m p a Hm Hg. apply ma_sorted_iff in Hm. destruct Hm as [_ H2].
  apply (am_get_some_in _ bytes_cmp_ok) in Hg. eapply H2; eauto.
Qed.

Lemma ma_wfb_sorted : forall m, ma_wfb m = true -> ma_sorted m = true.
Proof.
  intros m H. unfold ma_wfb in H. apply andb_true_iff in H. destruct H as [H1 H2].
  unfold ma_sorted. rewrite H1. cbn [andb]. rewrite forallb_forall in *.
  intros x Hx. specialize (H2 x Hx). unfold assets_wfb in H2. apply andb_true_iff in H2. tauto.
Qed.

Lemma value_wfb_sorted : forall v, value_wfb v = true -> value_sorted v = true.
Proof.
  intros v H. unfold value_wfb in H. apply andb_true_iff in H. destruct H as [_ H].
  unfold value_sorted. destruct (multiasset_of v); [apply ma_wfb_sorted; exact H|reflexivity].
Qed.

(* the result of rewriting one asset of one policy *)
Lemma ma_upd_qty : forall acc p0 n0 s a,
  (forall n, ma_qty acc p0 n = a_qty a n) -> forall p n,
  ma_qty (am_insert bytes_cmp p0 (am_insert name_cmp n0 s a) acc) p n =
  if bytes_eqb p p0 && bytes_eqb n n0 then s else ma_qty acc p n.
Proof.
  intros acc p0 n0 s a F p n. rewrite ma_qty_insert, a_qty_insert.
  destruct (bytes_eqb_spec p p0) as [->|Hp]; cbn [andb]; [|reflexivity].
  destruct (bytes_eqb n n0); [reflexivity|]. symmetry; apply F.
Qed.

Lemma ma_upd_sorted : forall acc p0 n0 s a,
  ma_sorted acc = true -> am_sorted name_cmp a = true ->
  ma_sorted (am_insert bytes_cmp p0 (am_insert name_cmp n0 s a) acc) = true.
Proof.
  intros. apply ma_sorted_insert; [assumption|]. apply (am_sorted_insert _ name_cmp_ok); assumption.
Qed.

(* the amount an entry contributes to the asset (p, n), and the total over a list of entries *)
Definition entry_amt (p n : bytes) (e : bytes * bytes * N) : N :=
  match e with (p', n', q) => if bytes_eqb p p' && bytes_eqb n n' then q else 0 end.

Fixpoint entries_sum (es : list (bytes * bytes * N)) (p n : bytes) : N :=
  match es with
  | [] => 0
  | e :: es' => entry_amt p n e + entries_sum es' p n
  end.

Lemma entries_sum_app : forall es1 es2 p n,
  entries_sum (es1 ++ es2) p n = entries_sum es1 p n + entries_sum es2 p n.
Proof.
  induction es1 as [|e es1 IH]; intros es2 p n; cbn [app entries_sum]; [lia|]. rewrite IH. lia.
Qed.

Lemma entries_sum_assets : forall p0 (a : assets) p n, am_sorted name_cmp a = true ->
  entries_sum (map (fun nq : bytes * N => (p0, fst nq, snd nq)) a) p n =
  if bytes_eqb p p0 then a_qty a n else 0.
Proof.
  intros p0 a p n. induction a as [|[n1 q1] a IH]; intro Hs.
  - cbn [map entries_sum]. destruct (bytes_eqb p p0); reflexivity.
  - apply (am_sorted_cons _ name_cmp_ok) in Hs. destruct Hs as [Hlb Hs].
    cbn [map entries_sum entry_amt fst snd]. rewrite (IH Hs), a_qty_cons.
    destruct (bytes_eqb p p0); cbn [andb]; [|lia].
    destruct (bytes_eqb_spec n n1) as [->|Hn]; [|lia].
    rewrite (a_qty_lb _ _ Hlb). lia.
Qed.

Lemma ma_entries_cons : forall p0 a0 m,
  ma_entries ((p0, a0) :: m) = map (fun nq : bytes * N => (p0, fst nq, snd nq)) a0 ++ ma_entries m.
Proof. reflexivity. Qed.

Lemma entries_sum_entries : forall m p n, ma_sorted m = true ->
  entries_sum (ma_entries m) p n = ma_qty m p n.
Proof.
  intros m p n. induction m as [|[p0 a0] m IH]; intro Hs; [reflexivity|].
  apply ma_sorted_iff in Hs. destruct Hs as [H1 H2].
  apply (am_sorted_cons _ bytes_cmp_ok) in H1. destruct H1 as [Hlb H1].
  assert (Hm : ma_sorted m = true).
  { apply ma_sorted_iff. split; [exact H1|]. intros p' a' Hin. apply (H2 p' a'). right; exact Hin. }
  rewrite ma_entries_cons, entries_sum_app, (IH Hm), ma_qty_cons.
  rewrite entries_sum_assets by (apply (H2 p0 a0); left; reflexivity).
  destruct (bytes_eqb_spec p p0) as [->|Hp]; [|lia].
  rewrite (ma_qty_lb _ _ n Hlb). lia.
Qed.

(* an asset is either absent (quantity 0) or listed with its quantity *)
Lemma ma_qty_zero_or_in : forall m p n, ma_qty m p n = 0 \/ In (p, n, ma_qty m p n) (ma_entries m).
Proof.
  intros m p n. rewrite ma_qty_unfold. destruct (am_get bytes_cmp p m) as [a|] eqn:Ea; [|left; reflexivity].
  unfold a_qty. destruct (am_get name_cmp n a) as [q|] eqn:Eq; [|left; reflexivity].
  right. unfold ma_entries. apply in_flat_map. exists (p, a). split.
  - apply (am_get_some_in _ bytes_cmp_ok); exact Ea.
  - cbn [fst snd]. apply in_map_iff. exists (n, q). split; [reflexivity|].
    apply (am_get_some_in _ name_cmp_ok); exact Eq.
Qed.

Lemma ma_entries_in_qty : forall m p n q, ma_sorted m = true ->
  In (p, n, q) (ma_entries m) -> ma_qty m p n = q.
Proof.
  intros m p n q Hs Hin. apply ma_sorted_iff in Hs. destruct Hs as [H1 H2].
  unfold ma_entries in Hin. apply in_flat_map in Hin. destruct Hin as [[p' a] [Hpa Hin]].
  cbn [fst snd] in Hin. apply in_map_iff in Hin. destruct Hin as [[n' q'] [He Hin]].
  cbn [fst snd] in He. inversion He; subst.
  rewrite ma_qty_unfold, (am_in_get _ bytes_cmp_ok p a m H1 Hpa).
  unfold a_qty. rewrite (am_in_get _ name_cmp_ok n q a (H2 p a Hpa) Hin). reflexivity.
Qed.

(* =========================================================================================== *)
(* 4. MultiAsset::sub *)

Lemma ma_sub_entry_sorted : forall lhs e, ma_sorted lhs = true -> ma_sorted (ma_sub_entry lhs e) = true.
Proof.
  intros lhs [[p0 n0] amt] Hs.
  unfold ma_sub_entry, ma_get, assets_get, ma_insert, assets_insert. cbv zeta.
  destruct (am_get bytes_cmp p0 lhs) as [a|] eqn:Ea; [|exact Hs].
  pose proof (ma_sorted_get _ _ _ Hs Ea) as Hsa.
  destruct (am_get name_cmp n0 a) as [cur|] eqn:Ec; [|exact Hs].
  destruct (amt <? cur).
  - apply ma_upd_sorted; assumption.
  - pose proof (am_sorted_remove _ name_cmp_ok n0 a Hsa) as Hr.
    destruct (am_remove name_cmp n0 a) as [|x a'].
    + apply ma_sorted_remove; exact Hs.
    + apply ma_sorted_insert; assumption.
Qed.

Lemma ma_sub_entry_qty : forall lhs e p n, ma_sorted lhs = true ->
  ma_qty (ma_sub_entry lhs e) p n = ma_qty lhs p n - entry_amt p n e.
Proof.
  intros lhs [[p0 n0] amt] p n Hs.
  unfold ma_sub_entry, ma_get, assets_get, ma_insert, assets_insert, entry_amt. cbv zeta.
  destruct (am_get bytes_cmp p0 lhs) as [a|] eqn:Ea.
  2:{ pose proof (ma_qty_get_none _ _ Ea) as F.
      destruct (bytes_eqb_spec p p0) as [->|Hp]; cbn [andb]; [|lia].
      rewrite F. destruct (bytes_eqb n n0); lia. }
  pose proof (ma_qty_get_some _ _ _ Ea) as F.
  pose proof (ma_sorted_get _ _ _ Hs Ea) as Hsa.
  destruct (am_get name_cmp n0 a) as [cur|] eqn:Ec.
  2:{ destruct (bytes_eqb_spec p p0) as [->|Hp]; cbn [andb]; [|lia].
      destruct (bytes_eqb_spec n n0) as [->|Hn]; [|lia].
      rewrite F. unfold a_qty. rewrite Ec. lia. }
  assert (Fc : a_qty a n0 = cur) by (unfold a_qty; rewrite Ec; reflexivity).
  destruct (amt <? cur) eqn:El.
  - rewrite (ma_upd_qty _ _ _ _ _ F).
    destruct (bytes_eqb_spec p p0) as [->|Hp]; cbn [andb]; [|lia].
    destruct (bytes_eqb_spec n n0) as [->|Hn]; [|lia].
    rewrite F, Fc. reflexivity.
  - pose proof (a_qty_remove a n0 Hsa) as Hr.
    apply ma_sorted_iff in Hs. destruct Hs as [Hs1 _].
    destruct (am_remove name_cmp n0 a) as [|x a'].
    + rewrite (ma_qty_remove _ _ Hs1).
      destruct (bytes_eqb_spec p p0) as [->|Hp]; cbn [andb]; [|lia].
      rewrite F. specialize (Hr n). unfold a_qty at 1 in Hr. cbn [am_get] in Hr.
      destruct (bytes_eqb_spec n n0) as [->|Hn]; [rewrite Fc; lia|lia].
    + rewrite ma_qty_insert.
      destruct (bytes_eqb_spec p p0) as [->|Hp]; cbn [andb]; [|lia].
      rewrite F, (Hr n).
      destruct (bytes_eqb_spec n n0) as [->|Hn]; [rewrite Fc; lia|lia].
Qed.

Lemma ma_sub_fold : forall es lhs, ma_sorted lhs = true ->
  ma_sorted (fold_left ma_sub_entry es lhs) = true /\
  forall p n, ma_qty (fold_left ma_sub_entry es lhs) p n = ma_qty lhs p n - entries_sum es p n.
Proof.
  induction es as [|e es IH]; intros lhs Hs; cbn [fold_left entries_sum].
  - split; [exact Hs|]. intros; lia.
  - destruct (IH (ma_sub_entry lhs e) (ma_sub_entry_sorted lhs e Hs)) as [H1 H2].
    split; [exact H1|]. intros p n. rewrite H2, ma_sub_entry_qty by exact Hs. lia.
Qed.

Lemma ma_sub_sorted : forall l r, ma_sorted l = true -> ma_sorted (ma_sub l r) = true.
Proof. intros l r Hl. unfold ma_sub. apply ma_sub_fold; exact Hl. Qed.

(* MultiAsset::sub is pointwise truncated subtraction *)
Lemma ma_sub_qty : forall l r, ma_sorted l = true -> ma_sorted r = true ->
  forall p n, ma_qty (ma_sub l r) p n = ma_qty l p n - ma_qty r p n.
Proof.
  intros l r Hl Hr p n. unfold ma_sub.
  rewrite (proj2 (ma_sub_fold (ma_entries r) l Hl)), entries_sum_entries by exact Hr. reflexivity.
Qed.

Lemma ma_covers_le : forall l r, ma_covers l r = true -> forall p n, ma_qty r p n <= ma_qty l p n.
Proof.
  intros l r H p n. unfold ma_covers in H. rewrite forallb_forall in H.
  destruct (ma_qty_zero_or_in r p n) as [E|Hin]; [lia|].
  specialize (H _ Hin). cbn beta iota in H. unfold ma_qty at 2. lia.
Qed.

Lemma ma_covers_false : forall l r, ma_sorted r = true -> ma_covers l r = false ->
  exists p n, ma_qty l p n < ma_qty r p n.
Proof.
  intros l r Hr H. unfold ma_covers in H.
  assert (Hex : existsb (fun e => negb (match e with (p, n, q) => q <=? ma_get_asset p n l end)) (ma_entries r) = true).
  { clear Hr. induction (ma_entries r) as [|e es IH]; cbn [forallb existsb] in *; [discriminate|].
    destruct (match e with (p, n, q) => q <=? ma_get_asset p n l end); cbn [andb negb orb] in *; auto. }
  apply existsb_exists in Hex. destruct Hex as [[[p n] q] [Hin Hq]].
  exists p, n. rewrite (ma_entries_in_qty r p n q Hr Hin). unfold ma_qty. lia.
Qed.

(* =========================================================================================== *)
(* 5. The insertion loop of Value::checked_add *)

Lemma ma_add_entry_ok : forall acc e acc', ma_sorted acc = true -> ma_add_entry acc e = Ok acc' ->
  ma_sorted acc' = true /\ forall p n, ma_qty acc' p n = ma_qty acc p n + entry_amt p n e.
Proof.
  intros acc [[p0 n0] amt] acc' Hs.
  unfold ma_add_entry, ma_get, assets_get, ma_insert, assets_insert, assets_new, entry_amt.
  assert (G : forall s a, ma_sorted acc = true -> am_sorted name_cmp a = true ->
              (forall n, ma_qty acc p0 n = a_qty a n) -> s = a_qty a n0 + amt ->
              ma_sorted (am_insert bytes_cmp p0 (am_insert name_cmp n0 s a) acc) = true /\
              forall p n, ma_qty (am_insert bytes_cmp p0 (am_insert name_cmp n0 s a) acc) p n =
                          ma_qty acc p n + (if bytes_eqb p p0 && bytes_eqb n n0 then amt else 0)).
  { intros s a Hacc Ha F Hsum. split; [apply ma_upd_sorted; assumption|].
    intros p n. rewrite (ma_upd_qty _ _ _ _ _ F).
    destruct (bytes_eqb_spec p p0) as [->|Hp]; cbn [andb]; [|lia].
    destruct (bytes_eqb_spec n n0) as [->|Hn]; [|lia].
    rewrite F. exact Hsum. }
  destruct (am_get bytes_cmp p0 acc) as [a|] eqn:Ea.
  - pose proof (ma_qty_get_some _ _ _ Ea) as F.
    pose proof (ma_sorted_get _ _ _ Hs Ea) as Hsa.
    destruct (am_get name_cmp n0 a) as [cur|] eqn:Ec.
    + unfold u64_add. destruct (cur + amt <? two64); cbn [bind]; intro H; inversion H; subst; clear H.
      apply G; auto. unfold a_qty; rewrite Ec; reflexivity.
    + intro H; inversion H; subst; clear H.
      apply G; auto. unfold a_qty; rewrite Ec; lia.
  - pose proof (ma_qty_get_none _ _ Ea) as F.
    intro H; inversion H; subst; clear H.
    apply (G amt []); auto.
Qed.

Lemma ma_add_entries_ok : forall es acc m, ma_sorted acc = true -> ma_add_entries acc es = Ok m ->
  ma_sorted m = true /\ forall p n, ma_qty m p n = ma_qty acc p n + entries_sum es p n.
Proof.
  induction es as [|e es IH]; intros acc m Hs; cbn [ma_add_entries entries_sum].
  - intro H; inversion H; subst. split; [exact Hs|]. intros; lia.
  - destruct (ma_add_entry acc e) as [acc'| | |] eqn:E; cbn [bind]; try discriminate.
    intro H. destruct (ma_add_entry_ok _ _ _ Hs E) as [Hs' Hq].
    destruct (IH acc' m Hs' H) as [H1 H2]. split; [exact H1|].
    intros p n. rewrite H2, Hq. lia.
Qed.

Lemma ma_checked_add_ok : forall l r m, ma_sorted l = true -> ma_sorted r = true ->
  ma_checked_add l r = Ok m ->
  ma_sorted m = true /\ forall p n, ma_qty m p n = ma_qty l p n + ma_qty r p n.
Proof.
  intros l r m Hl Hr H. unfold ma_checked_add, ma_new in H.
  destruct (ma_add_entries_ok _ _ _ ma_sorted_nil H) as [H1 H2]. split; [exact H1|].
  intros p n. rewrite H2, entries_sum_app, !entries_sum_entries, ma_qty_nil by assumption. lia.
Qed.

Lemma ma_add_entry_total : forall acc e, ma_add_entry acc e <> Panic /\ ma_add_entry acc e <> OutOfFuel.
Proof.
  intros acc [[p0 n0] amt]. unfold ma_add_entry.
  destruct (ma_get p0 acc) as [a|]; [|split; discriminate].
  destruct (assets_get n0 a) as [cur|]; [|split; discriminate].
  unfold u64_add. destruct (cur + amt <? two64); cbn [bind]; split; discriminate.
Qed.

Lemma ma_add_entries_total : forall es acc,
  ma_add_entries acc es <> Panic /\ ma_add_entries acc es <> OutOfFuel.
Proof.
  induction es as [|e es IH]; intro acc; cbn [ma_add_entries]; [split; discriminate|].
  destruct (ma_add_entry_total acc e) as [H1 H2].
  destruct (ma_add_entry acc e); cbn [bind]; try (split; discriminate); try congruence.
  apply IH.
Qed.

(* =========================================================================================== *)
(* A. Value::checked_add *)

Lemma value_checked_add_sem : forall a b c,
  value_sorted a = true -> value_sorted b = true -> value_checked_add a b = Ok c ->
  value_sorted c = true /\ coin c = coin a + coin b /\ coin c < two64 /\
  forall p n, qty c p n = qty a p n + qty b p n.
Proof.
  intros a b c Ha Hb. unfold value_checked_add, u64_add, value_sorted, qty in *.
  destruct (coin a + coin b <? two64) eqn:Ec; cbn [bind]; [|discriminate].
  destruct (multiasset_of a) as [l|]; destruct (multiasset_of b) as [r|]; cbn [bind].
  - destruct (ma_checked_add l r) as [m| | |] eqn:E; cbn [bind]; try discriminate.
    intro H; inversion H; subst; clear H. cbn [coin multiasset_of opt_ma_qty].
    destruct (ma_checked_add_ok _ _ _ Ha Hb E) as [H1 H2].
    repeat split; auto; intros; lia.
  - intro H; inversion H; subst; clear H. cbn [coin multiasset_of opt_ma_qty].
    repeat split; auto; intros; lia.
  - intro H; inversion H; subst; clear H. cbn [coin multiasset_of opt_ma_qty].
    repeat split; auto; intros; lia.
  - intro H; inversion H; subst; clear H. cbn [coin multiasset_of opt_ma_qty].
    repeat split; auto; intros; lia.
Qed.

Lemma value_checked_add_total : forall a b, value_checked_add a b <> Panic /\ value_checked_add a b <> OutOfFuel.
Proof.
  intros a b. unfold value_checked_add, u64_add.
  destruct (coin a + coin b <? two64); cbn [bind]; [|split; discriminate].
  destruct (multiasset_of a) as [l|]; destruct (multiasset_of b) as [r|]; cbn [bind];
    try (split; discriminate).
  unfold ma_checked_add.
  destruct (ma_add_entries_total (ma_entries l ++ ma_entries r) ma_new) as [H1 H2].
  destruct (ma_add_entries ma_new (ma_entries l ++ ma_entries r)); cbn [bind];
    try (split; discriminate); congruence.
Qed.

(* =========================================================================================== *)
(* B. Value::checked_sub *)

Lemma opt_ma_qty_reduce : forall d p n,
  opt_ma_qty (match d with [] => None | x :: d' => Some (x :: d') end) p n = ma_qty d p n.
Proof. intros [|x d] p n; reflexivity. Qed.

Lemma value_sub_assets_sem : forall a b, value_sorted a = true -> value_sorted b = true ->
  (forall p n, qty b p n <= qty a p n) ->
  match value_sub_assets a b with Some m => ma_sorted m | None => true end = true /\
  forall p n, qty a p n = opt_ma_qty (value_sub_assets a b) p n + qty b p n.
Proof.
  intros a b Ha Hb Hle. unfold value_sub_assets, value_sorted, qty in *.
  destruct (multiasset_of a) as [l|]; destruct (multiasset_of b) as [r|]; cbn [opt_ma_qty] in *.
  - split.
    + pose proof (ma_sub_sorted l r Ha) as Hs. destruct (ma_sub l r); [reflexivity|exact Hs].
    + intros p n. rewrite opt_ma_qty_reduce, ma_sub_qty by assumption. specialize (Hle p n). lia.
  - split; [exact Ha|]. intros; lia.
  - split; [reflexivity|]. intros p n. specialize (Hle p n). lia.
  - split; [reflexivity|]. intros; lia.
Qed.

Lemma value_checked_sub_covered : forall a b,
  match multiasset_of b with
  | Some r => ma_covers (match multiasset_of a with Some l => l | None => ma_new end) r
  | None => true
  end = true -> forall p n, qty b p n <= qty a p n.
Proof.
  intros a b H p n. unfold qty.
  destruct (multiasset_of b) as [r|]; cbn [opt_ma_qty]; [|lia].
  pose proof (ma_covers_le _ _ H p n) as Hle.
  destruct (multiasset_of a) as [l|]; cbn [opt_ma_qty]; [exact Hle|].
  unfold ma_new in Hle. rewrite ma_qty_nil in Hle. exact Hle.
Qed.

Lemma value_checked_sub_sem : forall a b c,
  value_sorted a = true -> value_sorted b = true -> value_checked_sub a b = Ok c ->
  value_sorted c = true /\ coin a = coin c + coin b /\
  forall p n, qty a p n = qty c p n + qty b p n.
Proof.
  intros a b c Ha Hb. unfold value_checked_sub, u64_sub.
  destruct (coin b <=? coin a) eqn:Ec; cbn [bind]; [|discriminate].
  match goal with |- (if ?cov then _ else _) = _ -> _ => destruct cov eqn:Ecov end; [|discriminate].
  intro H; inversion H; subst; clear H.
  pose proof (value_checked_sub_covered a b Ecov) as Hle.
  destruct (value_sub_assets_sem a b Ha Hb Hle) as [H1 H2].
  unfold value_sorted at 1. unfold qty at 2. cbn [coin multiasset_of].
  repeat split; auto. lia.
Qed.

Lemma value_checked_sub_err : forall a b,
  value_sorted b = true ->
  (value_checked_sub a b = Err <-> (coin a < coin b \/ exists p n, qty a p n < qty b p n)).
Proof.
  intros a b Hb. unfold value_checked_sub, u64_sub.
  destruct (coin b <=? coin a) eqn:Ec; cbn [bind].
  2:{ split; [intros _; left; lia|reflexivity]. }
  match goal with |- (if ?cov then _ else _) = _ <-> _ => destruct cov eqn:Ecov end.
  - split; [discriminate|]. intros [H|[p [n H]]]; [lia|].
    pose proof (value_checked_sub_covered a b Ecov p n). lia.
  - split; [|reflexivity]. intros _. right.
    unfold value_sorted in Hb. unfold qty.
    destruct (multiasset_of b) as [r|]; [|discriminate].
    destruct (ma_covers_false _ _ Hb Ecov) as [p [n H]]. exists p, n. cbn [opt_ma_qty].
    destruct (multiasset_of a) as [l|]; cbn [opt_ma_qty]; [exact H|].
    unfold ma_new in H. rewrite ma_qty_nil in H. exact H.
Qed.

Lemma value_checked_sub_total : forall a b, value_checked_sub a b <> Panic /\ value_checked_sub a b <> OutOfFuel.
Proof.
  intros a b. unfold value_checked_sub, u64_sub.
  destruct (coin b <=? coin a); cbn [bind]; [|split; discriminate].
  match goal with |- (if ?cov then _ else _) <> _ /\ _ => destruct cov end; split; discriminate.
Qed.

(* =========================================================================================== *)
(* C. "the difference has no assets" *)

Definition ma_positive (m : multiasset) : bool :=
  forallb (fun pa : bytes * assets =>
             match snd pa with [] => false | _ => forallb (fun nq : bytes * N => 0 <? snd nq) (snd pa) end) m.

Definition assets_positive (a : assets) : bool :=
  match a with [] => false | _ => forallb (fun nq : bytes * N => 0 <? snd nq) a end.

Lemma ma_positive_unfold : forall m,
  ma_positive m = forallb (fun pa : bytes * assets => assets_positive (snd pa)) m.
Proof. reflexivity. Qed.

Lemma assets_positive_iff : forall a,
  assets_positive a = true <-> a <> [] /\ forallb (fun nq : bytes * N => 0 <? snd nq) a = true.
Proof.
  intros [|x a]; unfold assets_positive; split.
  - discriminate.
  - intros [H _]; congruence.
  - intro H; split; [discriminate|exact H].
  - intros [_ H]; exact H.
Qed.

Lemma ma_sub_entry_positive : forall lhs e,
  ma_positive lhs = true -> ma_positive (ma_sub_entry lhs e) = true.
Proof.
  intros lhs [[p0 n0] amt] Hpos. rewrite ma_positive_unfold in *.
  unfold ma_sub_entry, ma_get, assets_get, ma_insert, assets_insert. cbv zeta.
  destruct (am_get bytes_cmp p0 lhs) as [a|] eqn:Ea; [|exact Hpos].
  assert (Ha : assets_positive a = true).
  { apply (am_get_some_in _ bytes_cmp_ok) in Ea. rewrite forallb_forall in Hpos. apply (Hpos _ Ea). }
  apply assets_positive_iff in Ha. destruct Ha as [_ Ha].
  destruct (am_get name_cmp n0 a) as [cur|] eqn:Ec; [|exact Hpos].
  destruct (amt <? cur) eqn:El.
  - apply am_forallb_insert; [|exact Hpos]. cbn [snd]. apply assets_positive_iff. split.
    + apply am_insert_not_nil.
    + apply am_forallb_insert; [|exact Ha]. cbn [snd]. lia.
  - pose proof (am_forallb_remove name_cmp _ n0 a Ha) as Hr.
    destruct (am_remove name_cmp n0 a) as [|x a'].
    + apply am_forallb_remove; exact Hpos.
    + apply am_forallb_insert; [|exact Hpos]. cbn [snd]. apply assets_positive_iff. split; [discriminate|exact Hr].
Qed.

Lemma ma_sub_positive : forall l r, ma_positive l = true -> ma_positive (ma_sub l r) = true.
Proof.
  intros l r. unfold ma_sub. generalize (ma_entries r) as es. intro es. revert l.
  induction es as [|e es IH]; intros l Hl; cbn [fold_left]; [exact Hl|].
  apply IH. apply ma_sub_entry_positive; exact Hl.
Qed.

Lemma ma_positive_zero_nil : forall m,
  ma_positive m = true -> (forall p n, ma_qty m p n = 0) -> m = [].
Proof.
  intros [|[p a] m] Hpos Hz; [reflexivity|exfalso].
  rewrite ma_positive_unfold in Hpos. cbn [forallb snd] in Hpos.
  apply andb_true_iff in Hpos. destruct Hpos as [Ha _].
  destruct a as [|[n q] a]; [discriminate|].
  unfold assets_positive in Ha. cbn [forallb snd] in Ha. apply andb_true_iff in Ha. destruct Ha as [Hq _].
  specialize (Hz p n). rewrite ma_qty_cons, bytes_eqb_refl, a_qty_cons, bytes_eqb_refl in Hz. lia.
Qed.

Lemma ma_sub_all_covered_nil : forall l r,
  ma_sorted l = true -> ma_sorted r = true -> ma_positive l = true ->
  (forall p n, ma_qty l p n <= ma_qty r p n) -> ma_sub l r = [].
Proof.
  intros l r Hl Hr Hpos Hle. apply ma_positive_zero_nil.
  - apply ma_sub_positive; exact Hpos.
  - intros p n. rewrite ma_sub_qty by assumption. specialize (Hle p n). lia.
Qed.

Lemma ma_sub_nil_le : forall l r,
  ma_sorted l = true -> ma_sorted r = true -> ma_sub l r = [] -> forall p n, ma_qty l p n <= ma_qty r p n.
Proof.
  intros l r Hl Hr H p n. pose proof (ma_sub_qty l r Hl Hr p n) as Hq.
  rewrite H, ma_qty_nil in Hq. lia.
Qed.

(* =========================================================================================== *)
(* D. The semantic deciders ma_leb_sem / value_eqb_sem *)

(* the two entry/quantity facts, stated on ma_get_asset *)
Lemma ma_get_asset_zero_or_in : forall m p n,
  ma_get_asset p n m = 0 \/ In (p, n, ma_get_asset p n m) (ma_entries m).
Proof. intros m p n. exact (ma_qty_zero_or_in m p n). Qed.

Lemma ma_entries_in_get_asset : forall m p n q, ma_sorted m = true ->
  In (p, n, q) (ma_entries m) -> ma_get_asset p n m = q.
Proof. intros m p n q Hs Hin. exact (ma_entries_in_qty m p n q Hs Hin). Qed.

Lemma ma_leb_sem_le : forall l r, ma_leb_sem l r = true -> forall p n, ma_qty l p n <= ma_qty r p n.
Proof.
  intros l r H p n. unfold ma_leb_sem in H. rewrite forallb_forall in H.
  destruct (ma_qty_zero_or_in l p n) as [E|Hin]; [lia|].
  specialize (H _ Hin). cbn beta iota in H. lia.
Qed.

Lemma ma_leb_sem_spec : forall l r, ma_sorted l = true ->
  (ma_leb_sem l r = true <-> forall p n, ma_qty l p n <= ma_qty r p n).
Proof.
  intros l r Hl. split; [apply ma_leb_sem_le|].
  intro H. unfold ma_leb_sem. apply forallb_forall. intros [[p n] q] Hin.
  specialize (H p n). rewrite (ma_entries_in_qty l p n q Hl Hin) in H. lia.
Qed.

Lemma opt_ma_qty_opt_ma : forall m p n, opt_ma_qty m p n = ma_qty (opt_ma m) p n.
Proof. intros [m|] p n; reflexivity. Qed.

Lemma value_sorted_opt_ma : forall v, value_sorted v = true -> ma_sorted (opt_ma (multiasset_of v)) = true.
Proof. intros v H. unfold value_sorted in H. destruct (multiasset_of v); [exact H|reflexivity]. Qed.

Lemma value_leb_sem_spec : forall v w, value_sorted v = true ->
  (value_leb_sem v w = true <-> value_le_sem v w).
Proof.
  intros v w Hv. unfold value_leb_sem, value_le_sem, qty.
  rewrite andb_true_iff, (ma_leb_sem_spec _ _ (value_sorted_opt_ma v Hv)).
  split; intros [H1 H2]; (split; [lia|]); intros p n; specialize (H2 p n);
    rewrite ?opt_ma_qty_opt_ma in *; exact H2.
Qed.

Lemma value_eqb_sem_spec : forall v w, value_sorted v = true -> value_sorted w = true ->
  (value_eqb_sem v w = true <-> value_eq_sem v w).
Proof.
  intros v w Hv Hw. unfold value_eqb_sem, value_eq_sem, qty.
  rewrite !andb_true_iff, (ma_leb_sem_spec _ _ (value_sorted_opt_ma v Hv)),
    (ma_leb_sem_spec _ _ (value_sorted_opt_ma w Hw)).
  split.
  - intros [[H1 H2] H3]. split; [lia|]. intros p n. specialize (H2 p n). specialize (H3 p n).
    rewrite !opt_ma_qty_opt_ma. lia.
  - intros [H1 H2]. repeat split; try lia; intros p n; specialize (H2 p n);
      rewrite !opt_ma_qty_opt_ma in H2; lia.
Qed.

Print Assumptions value_wfb_sorted.
Print Assumptions value_checked_add_sem.
Print Assumptions value_checked_add_total.
Print Assumptions value_checked_sub_sem.
Print Assumptions value_checked_sub_err.
Print Assumptions value_checked_sub_total.
Print Assumptions ma_sub_all_covered_nil.
Print Assumptions ma_sub_nil_le.
Print Assumptions ma_leb_sem_spec.
Print Assumptions value_leb_sem_spec.
Print Assumptions value_eqb_sem_spec.
