(* CBOR initial byte + argument ("head"), RFC 8949 section 3.  Model definitions only.
   Big-endian payloads are defined with / 256 and mod 256 (not shifts) so that lia/nia close
   the arithmetic.  [encode_head] is the shortest form (what cbor_event's Serializer writes);
   [decode_head] accepts every width, as cbor_event's Deserializer does. *)
From CSL Require Import Base.Prelude.
Local Open Scope N_scope.

Fixpoint be (k : nat) (n : N) : bytes :=
  match k with O => [] | S k' => be k' (n / 256) ++ [n mod 256] end.
Fixpoint unbe (l : bytes) (acc : N) : N :=
  match l with [] => acc | b :: t => unbe t (acc * 256 + b) end.

Definition encode_head (major arg : N) : bytes :=
  if arg <? 24 then [major * 32 + arg]
  else if arg <? 256 then (major * 32 + 24) :: be 1 arg
  else if arg <? 65536 then (major * 32 + 25) :: be 2 arg
  else if arg <? 4294967296 then (major * 32 + 26) :: be 4 arg
  else (major * 32 + 27) :: be 8 arg.

(* number of bytes of the shortest head: 1, 2, 3, 5 or 9 *)
Definition head_size (arg : N) : N :=
  if arg <? 24 then 1 else if arg <? 256 then 2 else if arg <? 65536 then 3
  else if arg <? 4294967296 then 5 else 9.

(* a head written with an explicit payload width w (0 = immediate, else 1/2/4/8 bytes):
   used to build non-minimal encodings *)
Definition encode_head_w (major arg : N) (w : nat) : bytes :=
  match w with
  | O => [major * 32 + arg]
  | 1%nat => (major * 32 + 24) :: be 1 arg
  | 2%nat => (major * 32 + 25) :: be 2 arg
  | 4%nat => (major * 32 + 26) :: be 4 arg
  | _ => (major * 32 + 27) :: be 8 arg
  end.

Definition split_at (k : nat) (l : bytes) : option (bytes * bytes) :=
  if (k <=? length l)%nat then Some (firstn k l, skipn k l) else None.

Inductive harg := Arg (n : N) | Indef.

(* result: major type, argument (or indefinite marker, additional info 31), rest *)
Definition decode_head (bs : bytes) : option (N * harg * bytes) :=
  match bs with
  | [] => None
  | b :: r =>
    let m := b / 32 in
    let ai := b mod 32 in
    if ai <? 24 then Some (m, Arg ai, r)
    else
      let payload (k : nat) :=
        match split_at k r with
        | Some (p, r') => Some (m, Arg (unbe p 0), r')
        | None => None
        end in
      if ai =? 24 then payload 1%nat
      else if ai =? 25 then payload 2%nat
      else if ai =? 26 then payload 4%nat
      else if ai =? 27 then payload 8%nat
      else if ai =? 31 then Some (m, Indef, r)
      else None    (* 28..30 reserved *)
  end.
