(* Lemmas about the generic CBOR item layer (Cbor/Item.v).
   Main results (all closed under the global context):
     parse_item_suffix, skip_item_exact, skip_item_nonempty      (suffix-returning, exact delimiter)
     parse_item_no_panic                                         (totality)
     parse_item_fuel_mono, parse_item_fuel_enough, parse_one_no_oof  (fuel)
     parse_item_encode, parse_one_encode, item_wf_encode         (printer round trip)
     parse_item_prefix_free                                      (result independent of what follows)
     heads_shortest_sound, canon_bytes_encode                    (canonical-form recognisers) *)
From CSL Require Import Base.Prelude Cbor.Head Cbor.HeadProofs Cbor.Item.
Local Open Scope N_scope.

(* ------------------------------------------------------------------ generic facts *)

Lemma bind_ok {A B} (r : result A) (f : A -> result B) b :
  bind r f = Ok b -> exists a, r = Ok a /\ f a = Ok b.
Proof. destruct r; cbn [bind]; try discriminate. intros H. eexists; split; [reflexivity|exact H]. Qed.

Definition psuffix {A} (p : parser A) : Prop :=
  forall bs x r, p bs = Ok (x, r) -> exists pre, bs = pre ++ r /\ pre <> [].

Lemma app_ne_nil {A} (a b : list A) : a <> [] -> a ++ b <> [].
Proof. destruct a; [congruence|discriminate]. Qed.

Lemma take_bytes_ok n bs p r : take_bytes n bs = Ok (p, r) -> bs = p ++ r /\ len p = n.
Proof.
  unfold take_bytes, len. destruct (n <=? N.of_nat (length bs)) eqn:E; [|discriminate].
  intros H; injection H as <- <-. split; [symmetry; apply firstn_skipn|].
  rewrite firstn_length. lia.
Qed.

Lemma take_bytes_app n p r : len p = n -> take_bytes n (p ++ r) = Ok (p, r).
Proof.
  unfold take_bytes, len. intros <-. rewrite app_length.
  destruct (N.of_nat (length p) <=? N.of_nat (length p + length r)) eqn:E; [|lia].
  rewrite Nat2N.id, firstn_app, skipn_app, Nat.sub_diag, firstn_all, skipn_all.
  cbn [firstn skipn app]. rewrite app_nil_r. reflexivity.
Qed.

(* ------------------------------------------------------------------ suffix lemmas *)

Lemma parse_n_suffix {A} (p : parser A) : psuffix p ->
  forall k bs xs r, parse_n p k bs = Ok (xs, r) ->
  exists pre, bs = pre ++ r /\ length xs = k /\ (k <= length pre)%nat.
Proof.
  intros Hp. induction k as [|k IH]; intros bs xs r H; cbn [parse_n] in H.
  - injection H as <- <-. exists []. repeat split; reflexivity.
  - apply bind_ok in H as [[x r1] [H1 H]]. apply bind_ok in H as [[xs' r2] [H2 H]]. injection H as <- <-.
    apply Hp in H1 as [pre1 [-> Hne]]. apply IH in H2 as [pre2 [-> [Hl Hk]]].
    exists (pre1 ++ pre2). rewrite app_assoc. split; [reflexivity|]. split; [cbn [length]; lia|].
    rewrite app_length. destruct pre1; [congruence|]. cbn [length]. lia.
Qed.

Lemma parse_until_break_suffix {A} (p : parser A) : psuffix p ->
  forall k bs xs r, parse_until_break p k bs = Ok (xs, r) -> exists pre, bs = pre ++ r /\ pre <> [].
Proof.
  intros Hp. induction k as [|k IH]; intros bs xs r H; destruct bs as [|b t]; cbn [parse_until_break] in H;
    try discriminate.
  - destruct (b =? 255); [|discriminate]. injection H as <- <-. exists [b]. split; [reflexivity|discriminate].
  - destruct (b =? 255).
    { injection H as <- <-. exists [b]. split; [reflexivity|discriminate]. }
    apply bind_ok in H as [[x r1] [H1 H]]. apply bind_ok in H as [[xs' r2] [H2 H]]. injection H as <- <-.
    apply Hp in H1 as [pre1 [E Hne]]. rewrite E. apply IH in H2 as [pre2 [-> _]].
    exists (pre1 ++ pre2). rewrite app_assoc. split; [reflexivity|]. apply app_ne_nil, Hne.
Qed.

Lemma parse_pair_suffix {A} (p : parser A) : psuffix p -> psuffix (parse_pair p).
Proof.
  intros Hp bs [k v] r H. unfold parse_pair in H.
  apply bind_ok in H as [[k' r1] [H1 H]]. apply bind_ok in H as [[v' r2] [H2 H]]. injection H as <- <- <-.
  apply Hp in H1 as [pre1 [-> Hne]]. apply Hp in H2 as [pre2 [-> _]].
  exists (pre1 ++ pre2). rewrite app_assoc. split; [reflexivity|]. apply app_ne_nil, Hne.
Qed.

Lemma parse_chunk_suffix m : psuffix (parse_chunk m).
Proof.
  intros bs x r H. unfold parse_chunk in H.
  destruct (decode_head bs) as [[[m' [n|]] r0]|] eqn:Hd; try discriminate.
  destruct (m' =? m); [|discriminate].
  apply decode_head_suffix in Hd as [pre0 [-> Hne]]. apply take_bytes_ok in H as [-> _].
  exists (pre0 ++ x). rewrite app_assoc. split; [reflexivity|]. apply app_ne_nil, Hne.
Qed.

Lemma parse_body_suffix p : psuffix p -> psuffix (parse_body p).
Proof.
  intros Hp bs x r H. unfold parse_body in H.
  destruct bs as [|b0 t]; [discriminate|].
  destruct (decode_head (b0 :: t)) as [[[m a] r0]|] eqn:Hd; [|discriminate].
  apply decode_head_suffix in Hd as [pre0 [E0 Hne0]]. rewrite E0.
  assert (K : forall pre, r0 = pre ++ r -> exists pre', pre0 ++ r0 = pre' ++ r /\ pre' <> []).
  { intros pre ->. exists (pre0 ++ pre). rewrite app_assoc. split; [reflexivity|]. apply app_ne_nil, Hne0. }
  unfold parse_after in H.
  destruct (major_of m) as [[]|]; destruct a as [n|]; try discriminate.
  - injection H as <- <-. apply (K []). reflexivity.
  - injection H as <- <-. apply (K []). reflexivity.
  - apply bind_ok in H as [[s r1] [H1 H]]. injection H as <- <-.
    apply take_bytes_ok in H1 as [-> _]. apply (K s). reflexivity.
  - apply bind_ok in H as [[s r1] [H1 H]]. injection H as <- <-.
    apply (parse_until_break_suffix _ (parse_chunk_suffix 2)) in H1 as [pre [-> _]]. apply (K pre). reflexivity.
  - apply bind_ok in H as [[s r1] [H1 H]]. injection H as <- <-.
    apply take_bytes_ok in H1 as [-> _]. apply (K s). reflexivity.
  - apply bind_ok in H as [[s r1] [H1 H]]. injection H as <- <-.
    apply (parse_until_break_suffix _ (parse_chunk_suffix 3)) in H1 as [pre [-> _]]. apply (K pre). reflexivity.
  - destruct (n <=? len r0); [|discriminate].
    apply bind_ok in H as [[s r1] [H1 H]]. injection H as <- <-.
    apply (parse_n_suffix _ Hp) in H1 as [pre [-> _]]. apply (K pre). reflexivity.
  - apply bind_ok in H as [[s r1] [H1 H]]. injection H as <- <-.
    apply (parse_until_break_suffix _ Hp) in H1 as [pre [-> _]]. apply (K pre). reflexivity.
  - destruct (n <=? len r0); [|discriminate].
    apply bind_ok in H as [[s r1] [H1 H]]. injection H as <- <-.
    apply (parse_n_suffix _ (parse_pair_suffix _ Hp)) in H1 as [pre [-> _]]. apply (K pre). reflexivity.
  - apply bind_ok in H as [[s r1] [H1 H]]. injection H as <- <-.
    apply (parse_until_break_suffix _ (parse_pair_suffix _ Hp)) in H1 as [pre [-> _]]. apply (K pre). reflexivity.
  - apply bind_ok in H as [[s r1] [H1 H]]. injection H as <- <-.
    apply Hp in H1 as [pre [-> _]]. apply (K pre). reflexivity.
  - cbv zeta in H.
    destruct (b0 mod 32 <? 24); [injection H as <- <-; apply (K []); reflexivity|].
    destruct (b0 mod 32 =? 24).
    { destruct (n <? 32); [discriminate|]. injection H as <- <-; apply (K []); reflexivity. }
    destruct (b0 mod 32 =? 25); [injection H as <- <-; apply (K []); reflexivity|].
    destruct (b0 mod 32 =? 26); injection H as <- <-; apply (K []); reflexivity.
Qed.

(* THE suffix lemma: a successful parse returns a proper suffix of its input *)
Theorem parse_item_suffix f : forall bs it rest,
  parse_item f bs = Ok (it, rest) -> exists pre, bs = pre ++ rest /\ pre <> [].
Proof.
  induction f as [|f IH]; [discriminate|]. exact (parse_body_suffix _ IH).
Qed.

Lemma parse_one_suffix : psuffix parse_one.
Proof. intros bs it rest. apply parse_item_suffix. Qed.

(* skip_item returns exactly the consumed prefix *)
Theorem skip_item_exact bs pre rest : skip_item bs = Ok (pre, rest) -> bs = pre ++ rest /\ pre <> [].
Proof.
  unfold skip_item. intros H. apply bind_ok in H as [[it r] [H1 H]]. injection H as <- <-.
  apply parse_one_suffix in H1 as [pre [-> Hne]].
  rewrite app_length, Nat.add_sub, firstn_app, Nat.sub_diag, firstn_all. cbn [firstn]. rewrite app_nil_r.
  split; [reflexivity|exact Hne].
Qed.

Corollary skip_item_app bs pre rest : skip_item bs = Ok (pre, rest) -> bs = pre ++ rest.
Proof. intros H. apply (skip_item_exact _ _ _ H). Qed.

Lemma skip_item_parse bs pre rest :
  skip_item bs = Ok (pre, rest) <-> exists it, parse_one bs = Ok (it, rest) /\ bs = pre ++ rest.
Proof.
  split.
  - intros H. pose proof (skip_item_app _ _ _ H) as E. unfold skip_item in H.
    apply bind_ok in H as [[it r] [H1 H]]. injection H as _ <-. exists it. split; assumption.
  - intros [it [H E]]. unfold skip_item. rewrite H. cbn [bind]. subst bs.
    rewrite app_length, Nat.add_sub, firstn_app, Nat.sub_diag, firstn_all. cbn [firstn]. rewrite app_nil_r. reflexivity.
Qed.

(* ------------------------------------------------------------------ totality: never Panic *)

Definition pnopanic {A} (p : parser A) : Prop := forall bs, p bs <> Panic.

Lemma bind_no_panic {A B} (r : result A) (f : A -> result B) :
  r <> Panic -> (forall a, f a <> Panic) -> bind r f <> Panic.
Proof. destruct r; cbn [bind]; intros H1 H2; try congruence; apply H2. Qed.

Lemma take_bytes_no_panic n : pnopanic (take_bytes n).
Proof. intros bs. unfold take_bytes. destruct (n <=? len bs); discriminate. Qed.

Lemma parse_n_no_panic {A} (p : parser A) : pnopanic p -> forall k, pnopanic (parse_n p k).
Proof.
  intros Hp. induction k as [|k IH]; intros bs; cbn [parse_n]; [discriminate|].
  apply bind_no_panic; [apply Hp|]. intros [x r]. apply bind_no_panic; [apply IH|]. intros [xs r']. discriminate.
Qed.

Lemma parse_until_break_no_panic {A} (p : parser A) : pnopanic p -> forall k, pnopanic (parse_until_break p k).
Proof.
  intros Hp. induction k as [|k IH]; intros [|b t]; cbn [parse_until_break]; try discriminate;
    destruct (b =? 255); try discriminate.
  apply bind_no_panic; [apply Hp|]. intros [x r]. apply bind_no_panic; [apply IH|]. intros [xs r']. discriminate.
Qed.

Lemma parse_pair_no_panic {A} (p : parser A) : pnopanic p -> pnopanic (parse_pair p).
Proof.
  intros Hp bs. unfold parse_pair. apply bind_no_panic; [apply Hp|]. intros [k r].
  apply bind_no_panic; [apply Hp|]. intros [v r']. discriminate.
Qed.

Lemma parse_chunk_no_panic m : pnopanic (parse_chunk m).
Proof.
  intros bs. unfold parse_chunk. destruct (decode_head bs) as [[[m' [n|]] r0]|]; try discriminate.
  destruct (m' =? m); [apply take_bytes_no_panic|discriminate].
Qed.

Lemma parse_body_no_panic p : pnopanic p -> pnopanic (parse_body p).
Proof.
  intros Hp bs. unfold parse_body. destruct bs as [|b0 t]; [discriminate|].
  destruct (decode_head (b0 :: t)) as [[[m a] r0]|]; [|discriminate].
  unfold parse_after. destruct (major_of m) as [[]|]; destruct a as [n|]; try discriminate;
    try (destruct (n <=? len r0); [|discriminate]);
    try (apply bind_no_panic; [|intros [? ?]; discriminate]).
  - apply take_bytes_no_panic.
  - apply parse_until_break_no_panic, parse_chunk_no_panic.
  - apply take_bytes_no_panic.
  - apply parse_until_break_no_panic, parse_chunk_no_panic.
  - apply parse_n_no_panic, Hp.
  - apply parse_until_break_no_panic, Hp.
  - apply parse_n_no_panic, parse_pair_no_panic, Hp.
  - apply parse_until_break_no_panic, parse_pair_no_panic, Hp.
  - apply Hp.
  - cbv zeta. destruct (b0 mod 32 <? 24); [discriminate|]. destruct (b0 mod 32 =? 24).
    { destruct (n <? 32); discriminate. }
    destruct (b0 mod 32 =? 25); [discriminate|]. destruct (b0 mod 32 =? 26); discriminate.
Qed.

Theorem parse_item_no_panic f bs : parse_item f bs <> Panic.
Proof. revert bs. induction f as [|f IH]; [discriminate|]. exact (parse_body_no_panic _ IH). Qed.

Corollary skip_item_no_panic bs : skip_item bs <> Panic.
Proof.
  unfold skip_item. apply bind_no_panic; [apply parse_item_no_panic|]. intros [? ?]. discriminate.
Qed.

(* ------------------------------------------------------------------ fuel *)

(* q agrees with p wherever p does not run out of fuel *)
Definition pext {A} (p q : parser A) : Prop := forall bs, p bs <> OutOfFuel -> q bs = p bs.

Lemma bind_ext {A B} (r r' : result A) (f g : A -> result B) :
  (r <> OutOfFuel -> r' = r) -> (forall a, f a <> OutOfFuel -> g a = f a) ->
  bind r f <> OutOfFuel -> bind r' g = bind r f.
Proof.
  intros H1 H2 H. destruct r; cbn [bind] in *; try congruence;
    rewrite H1 by discriminate; cbn [bind]; auto.
Qed.

Lemma parse_n_ext {A} (p q : parser A) : pext p q -> forall k, pext (parse_n p k) (parse_n q k).
Proof.
  intros Hpq. induction k as [|k IH]; intros bs H; cbn [parse_n] in *; [reflexivity|].
  apply bind_ext; [apply Hpq| |exact H]. intros [x r] H'.
  apply bind_ext; [apply IH| |exact H']. intros [xs r'] _. reflexivity.
Qed.

Lemma parse_until_break_ext {A} (p q : parser A) : pext p q ->
  forall k, pext (parse_until_break p k) (parse_until_break q k).
Proof.
  intros Hpq. induction k as [|k IH]; intros [|b t] H; cbn [parse_until_break] in *; try reflexivity;
    destruct (b =? 255); try reflexivity.
  apply bind_ext; [apply Hpq| |exact H]. intros [x r] H'.
  apply bind_ext; [apply IH| |exact H']. intros [xs r'] _. reflexivity.
Qed.

Lemma parse_pair_ext {A} (p q : parser A) : pext p q -> pext (parse_pair p) (parse_pair q).
Proof.
  intros Hpq bs H. unfold parse_pair in *.
  apply bind_ext; [apply Hpq| |exact H]. intros [x r] H'.
  apply bind_ext; [apply Hpq| |exact H']. intros [xs r'] _. reflexivity.
Qed.

Lemma parse_body_ext p q : pext p q -> pext (parse_body p) (parse_body q).
Proof.
  intros Hpq bs H. unfold parse_body in *. destruct bs as [|b0 t]; [reflexivity|].
  destruct (decode_head (b0 :: t)) as [[[m a] r0]|]; [|reflexivity].
  unfold parse_after in *. destruct (major_of m) as [[]|]; destruct a as [n|]; try reflexivity;
    try (destruct (n <=? len r0); [|reflexivity]);
    (apply bind_ext; [|intros [? ?] _; reflexivity|exact H]).
  - apply parse_n_ext, Hpq.
  - apply parse_until_break_ext, Hpq.
  - apply parse_n_ext, parse_pair_ext, Hpq.
  - apply parse_until_break_ext, parse_pair_ext, Hpq.
  - apply Hpq.
Qed.

Lemma parse_item_fuel_S f : pext (parse_item f) (parse_item (S f)).
Proof.
  induction f as [|f IH]; [intros bs H; exfalso; apply H; reflexivity|].
  exact (parse_body_ext _ _ IH).
Qed.

(* more fuel never changes an Ok / Err result *)
Theorem parse_item_fuel_mono f f' bs : (f <= f')%nat ->
  parse_item f bs <> OutOfFuel -> parse_item f' bs = parse_item f bs.
Proof.
  intros Hle H. induction Hle as [|f' Hle IH]; [reflexivity|].
  rewrite <- IH. apply parse_item_fuel_S. rewrite IH. exact H.
Qed.

Corollary parse_item_fuel_ok f f' bs v : (f <= f')%nat -> parse_item f bs = Ok v -> parse_item f' bs = Ok v.
Proof. intros Hle H. rewrite (parse_item_fuel_mono f f' bs Hle); [exact H|rewrite H; discriminate]. Qed.

Corollary parse_item_fuel_err f f' bs : (f <= f')%nat -> parse_item f bs = Err -> parse_item f' bs = Err.
Proof. intros Hle H. rewrite (parse_item_fuel_mono f f' bs Hle); [exact H|rewrite H; discriminate]. Qed.

(* two fuels that both suffice give the same answer *)
Corollary parse_item_fuel_indep f f' bs :
  parse_item f bs <> OutOfFuel -> parse_item f' bs <> OutOfFuel -> parse_item f' bs = parse_item f bs.
Proof.
  intros H H'. destruct (Nat.le_ge_cases f f') as [L|L].
  - apply parse_item_fuel_mono; assumption.
  - symmetry. apply parse_item_fuel_mono; assumption.
Qed.

Lemma bind_no_oof {A B} (r : result A) (f : A -> result B) :
  r <> OutOfFuel -> (forall a, r = Ok a -> f a <> OutOfFuel) -> bind r f <> OutOfFuel.
Proof. destruct r; cbn [bind]; intros H1 H2; try congruence; apply H2; reflexivity. Qed.

Lemma take_bytes_no_oof n bs : take_bytes n bs <> OutOfFuel.
Proof. unfold take_bytes. destruct (n <=? len bs); discriminate. Qed.

Lemma parse_n_no_oof {A} (p : parser A) L : psuffix p ->
  (forall bs, (length bs <= L)%nat -> p bs <> OutOfFuel) ->
  forall k bs, (length bs <= L)%nat -> parse_n p k bs <> OutOfFuel.
Proof.
  intros Hp Hn. induction k as [|k IH]; intros bs Hl; cbn [parse_n]; [discriminate|].
  apply bind_no_oof; [apply Hn, Hl|]. intros [x r] E.
  apply bind_no_oof; [|intros [? ?] _; discriminate].
  apply IH. apply Hp in E as [pre [-> _]]. rewrite app_length in Hl. lia.
Qed.

Lemma parse_until_break_no_oof {A} (p : parser A) L : psuffix p ->
  (forall bs, (length bs <= L)%nat -> p bs <> OutOfFuel) ->
  forall k bs, (length bs <= L)%nat -> (length bs <= k)%nat -> parse_until_break p k bs <> OutOfFuel.
Proof.
  intros Hp Hn. induction k as [|k IH]; intros [|b t] Hl Hk; cbn [parse_until_break]; try discriminate;
    destruct (b =? 255); try discriminate.
  { cbn [length] in Hk. lia. }
  apply bind_no_oof; [apply Hn, Hl|]. intros [x r] E.
  apply bind_no_oof; [|intros [? ?] _; discriminate].
  apply Hp in E as [pre [E Hne]].
  assert (length r < length (b :: t))%nat.
  { rewrite E, app_length. destruct pre; [congruence|]. cbn [length]. lia. }
  apply IH; lia.
Qed.

Lemma parse_pair_no_oof {A} (p : parser A) L : psuffix p ->
  (forall bs, (length bs <= L)%nat -> p bs <> OutOfFuel) ->
  forall bs, (length bs <= L)%nat -> parse_pair p bs <> OutOfFuel.
Proof.
  intros Hp Hn bs Hl. unfold parse_pair.
  apply bind_no_oof; [apply Hn, Hl|]. intros [x r] E.
  apply bind_no_oof; [|intros [? ?] _; discriminate].
  apply Hn. apply Hp in E as [pre [-> _]]. rewrite app_length in Hl. lia.
Qed.

Lemma parse_chunk_no_oof m bs : parse_chunk m bs <> OutOfFuel.
Proof.
  unfold parse_chunk. destruct (decode_head bs) as [[[m' [n|]] r0]|]; try discriminate.
  destruct (m' =? m); [apply take_bytes_no_oof|discriminate].
Qed.

Lemma parse_body_no_oof p bs : psuffix p ->
  (forall bs', (length bs' < length bs)%nat -> p bs' <> OutOfFuel) -> parse_body p bs <> OutOfFuel.
Proof.
  intros Hp Hn. unfold parse_body. destruct bs as [|b0 t]; [discriminate|].
  destruct (decode_head (b0 :: t)) as [[[m a] r0]|] eqn:Hd; [|discriminate].
  apply decode_head_shorter in Hd.
  assert (Hn' : forall bs', (length bs' <= length r0)%nat -> p bs' <> OutOfFuel) by (intros; apply Hn; lia).
  unfold parse_after. destruct (major_of m) as [[]|]; destruct a as [n|]; try discriminate;
    try (destruct (n <=? len r0); [|discriminate]);
    try (apply bind_no_oof; [|intros [? ?] _; discriminate]).
  - apply take_bytes_no_oof.
  - apply (parse_until_break_no_oof _ (length r0)); try lia; [apply parse_chunk_suffix|intros; apply parse_chunk_no_oof].
  - apply take_bytes_no_oof.
  - apply (parse_until_break_no_oof _ (length r0)); try lia; [apply parse_chunk_suffix|intros; apply parse_chunk_no_oof].
  - apply (parse_n_no_oof _ (length r0)); try lia; assumption.
  - apply (parse_until_break_no_oof _ (length r0)); try lia; assumption.
  - apply (parse_n_no_oof _ (length r0)); try lia; [apply parse_pair_suffix, Hp|].
    apply parse_pair_no_oof; assumption.
  - apply (parse_until_break_no_oof _ (length r0)); try lia; [apply parse_pair_suffix, Hp|].
    apply parse_pair_no_oof; assumption.
  - apply Hn'. lia.
  - cbv zeta. destruct (b0 mod 32 <? 24); [discriminate|]. destruct (b0 mod 32 =? 24).
    { destruct (n <? 32); discriminate. }
    destruct (b0 mod 32 =? 25); [discriminate|]. destruct (b0 mod 32 =? 26); discriminate.
Qed.

(* fuel above the input length is always enough: OutOfFuel can only mean "nested deeper than the fuel" *)
Theorem parse_item_fuel_enough f bs : (length bs < f)%nat -> parse_item f bs <> OutOfFuel.
Proof.
  revert bs. induction f as [|f IH]; intros bs Hl; [lia|].
  apply parse_body_no_oof; [exact (parse_item_suffix f)|]. intros bs' Hl'. apply IH. lia.
Qed.

Corollary parse_one_no_oof bs : parse_one bs <> OutOfFuel.
Proof. apply parse_item_fuel_enough. unfold default_fuel. lia. Qed.

Corollary parse_one_total bs : (exists it rest, parse_one bs = Ok (it, rest)) \/ parse_one bs = Err.
Proof.
  pose proof (parse_one_no_oof bs). pose proof (parse_item_no_panic (default_fuel bs) bs).
  unfold parse_one in *. destruct (parse_item (default_fuel bs) bs) as [[it r]| | |]; try congruence; eauto.
Qed.

Corollary skip_item_total bs : (exists pre rest, skip_item bs = Ok (pre, rest)) \/ skip_item bs = Err.
Proof.
  unfold skip_item. destruct (parse_one_total bs) as [[it [r ->]]| ->]; cbn [bind]; eauto.
Qed.

(* any sufficient fuel gives the answer of the default fuel *)
Corollary parse_item_default f bs : parse_item f bs <> OutOfFuel -> parse_item f bs = parse_one bs.
Proof. intros H. symmetry. apply parse_item_fuel_indep; [exact H|apply parse_one_no_oof]. Qed.
