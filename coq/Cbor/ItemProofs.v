(* Lemmas about the generic CBOR item layer (Cbor/Item.v).  All closed under the global context.
   suffix / delimiter   parse_item_suffix : parse_item f bs = Ok (it, rest) -> exists pre, bs = pre ++ rest /\ pre <> []
                        skip_item_exact, skip_item_app, skip_item_parse (iff with parse_one), skip_item_encode
   totality             parse_item_no_panic, skip_item_no_panic, parse_one_total, skip_item_total
   fuel                 parse_item_fuel_mono (f <= f' -> parse_item f bs <> OutOfFuel -> parse_item f' bs = parse_item f bs),
                        parse_item_fuel_ok/_err/_indep, parse_item_fuel_enough (length bs < f -> never OutOfFuel),
                        parse_one_no_oof, parse_item_default
   printer round trip   parse_item_encode (item_ok it, item_depth it <= f -> parse_item f (encode_item it ++ rest) = Ok (it, rest)),
                        parse_one_encode, parse_exact_encode, item_wf_encode, encode_item_bytes_ok, encode_item_starts/_ne
   parsed => encodable  parse_item_ok (bytes_ok bs -> parse_item f bs = Ok (it, _) -> item_ok it = true),
                        parse_exact_item_ok, parse_exact_reencode
   locality             parse_item_prefix_free, parse_one_local, skip_item_local, skip_item_slice, skip_item_wf,
                        item_wf_prefix_free
   canonical form       heads_shortest_sound/_encode, canon_bytes3_sound/_encode/_wf/_shortest, canon_bytes_encode,
                        bytes_eqb_eq, list_eqb_eq, parse_exact_ok
   combinator level     psuffix/pstrong/pext/pnopanic + parse_n_* / parse_until_break_* / parse_pair_* / parse_chunk_* /
                        parse_body_* (suffix, strong, ext, no_panic, no_oof, rt, all), parse_body_head, item_ind2,
                        decode_head_strong, decode_head_bound, take_bytes_ok/_app/_strong
   Not proved here: item_eqb correctness (item_eqb a b = true <-> a = b). *)
From CSL Require Import Base.Prelude Cbor.Head Cbor.HeadProofs Cbor.Item.
Local Open Scope N_scope.

(* ------------------------------------------------------------------ generic facts *)

Lemma bind_ok {A B} (r : result A) (f : A -> result B) b :
  bind r f = Ok b -> exists a, r = Ok a /\ f a = Ok b.
Proof. destruct r; cbn [bind]; try discriminate. intros H. eexists; split; [reflexivity|exact H]. Qed.

Definition psuffix {A} (p : parser A) : Prop :=
  forall bs x r, p bs = Ok (x, r) -> exists pre, bs = pre ++ r /\ pre <> [].

Lemma app_ne_nil {A} (a b : list A) : a <> [] -> a ++ b <> [].
Proof. destruct a; [congruence|discriminate]. Qed.

Lemma take_bytes_ok n bs p r : take_bytes n bs = Ok (p, r) -> bs = p ++ r /\ len p = n.
Proof.
  unfold take_bytes, len. destruct (n <=? N.of_nat (length bs)) eqn:E; [|discriminate].
  intros H; injection H as <- <-. split; [symmetry; apply firstn_skipn|].
  rewrite firstn_length. lia.
Qed.

Lemma take_bytes_app n p r : len p = n -> take_bytes n (p ++ r) = Ok (p, r).
Proof.
  unfold take_bytes, len. intros <-. rewrite app_length.
  destruct (N.of_nat (length p) <=? N.of_nat (length p + length r)) eqn:E; [|lia].
  rewrite Nat2N.id, firstn_app, skipn_app, Nat.sub_diag, firstn_all, skipn_all.
  cbn [firstn skipn app]. rewrite app_nil_r. reflexivity.
Qed.

(* ------------------------------------------------------------------ suffix lemmas *)

Lemma parse_n_suffix {A} (p : parser A) : psuffix p ->
  forall k bs xs r, parse_n p k bs = Ok (xs, r) ->
  exists pre, bs = pre ++ r /\ length xs = k /\ (k <= length pre)%nat.
Proof.
  intros Hp. induction k as [|k IH]; intros bs xs r H; cbn [parse_n] in H.
  - injection H as <- <-. exists []. repeat split; reflexivity.
  - apply bind_ok in H as [[x r1] [H1 H]]. apply bind_ok in H as [[xs' r2] [H2 H]]. injection H as <- <-.
    apply Hp in H1 as [pre1 [-> Hne]]. apply IH in H2 as [pre2 [-> [Hl Hk]]].
    exists (pre1 ++ pre2). rewrite app_assoc. split; [reflexivity|]. split; [cbn [length]; lia|].
    rewrite app_length. destruct pre1; [congruence|]. cbn [length]. lia.
Qed.

Lemma parse_until_break_suffix {A} (p : parser A) : psuffix p ->
  forall k bs xs r, parse_until_break p k bs = Ok (xs, r) -> exists pre, bs = pre ++ r /\ pre <> [].
Proof.
  intros Hp. induction k as [|k IH]; intros bs xs r H; destruct bs as [|b t]; cbn [parse_until_break] in H;
    try discriminate.
  - destruct (b =? 255); [|discriminate]. injection H as <- <-. exists [b]. split; [reflexivity|discriminate].
  - destruct (b =? 255).
    { injection H as <- <-. exists [b]. split; [reflexivity|discriminate]. }
    apply bind_ok in H as [[x r1] [H1 H]]. apply bind_ok in H as [[xs' r2] [H2 H]]. injection H as <- <-.
    apply Hp in H1 as [pre1 [E Hne]]. rewrite E. apply IH in H2 as [pre2 [-> _]].
    exists (pre1 ++ pre2). rewrite app_assoc. split; [reflexivity|]. apply app_ne_nil, Hne.
Qed.

Lemma parse_pair_suffix {A} (p : parser A) : psuffix p -> psuffix (parse_pair p).
Proof.
  intros Hp bs [k v] r H. unfold parse_pair in H.
  apply bind_ok in H as [[k' r1] [H1 H]]. apply bind_ok in H as [[v' r2] [H2 H]]. injection H as <- <- <-.
  apply Hp in H1 as [pre1 [-> Hne]]. apply Hp in H2 as [pre2 [-> _]].
  exists (pre1 ++ pre2). rewrite app_assoc. split; [reflexivity|]. apply app_ne_nil, Hne.
Qed.

Lemma parse_chunk_suffix m : psuffix (parse_chunk m).
Proof.
  intros bs x r H. unfold parse_chunk in H.
  destruct (decode_head bs) as [[[m' [n|]] r0]|] eqn:Hd; try discriminate.
  destruct (m' =? m); [|discriminate].
  apply decode_head_suffix in Hd as [pre0 [-> Hne]]. apply take_bytes_ok in H as [-> _].
  exists (pre0 ++ x). rewrite app_assoc. split; [reflexivity|]. apply app_ne_nil, Hne.
Qed.

Lemma parse_body_suffix p : psuffix p -> psuffix (parse_body p).
Proof.
  intros Hp bs x r H. unfold parse_body in H.
  destruct bs as [|b0 t]; [discriminate|].
  destruct (decode_head (b0 :: t)) as [[[m a] r0]|] eqn:Hd; [|discriminate].
  apply decode_head_suffix in Hd as [pre0 [E0 Hne0]]. rewrite E0.
  assert (K : forall pre, r0 = pre ++ r -> exists pre', pre0 ++ r0 = pre' ++ r /\ pre' <> []).
  { intros pre ->. exists (pre0 ++ pre). rewrite app_assoc. split; [reflexivity|]. apply app_ne_nil, Hne0. }
  unfold parse_after in H.
  destruct (major_of m) as [[]|]; destruct a as [n|]; try discriminate.
  - injection H as <- <-. apply (K []). reflexivity.
  - injection H as <- <-. apply (K []). reflexivity.
  - apply bind_ok in H as [[s r1] [H1 H]]. injection H as <- <-.
    apply take_bytes_ok in H1 as [-> _]. apply (K s). reflexivity.
  - apply bind_ok in H as [[s r1] [H1 H]]. injection H as <- <-.
    apply (parse_until_break_suffix _ (parse_chunk_suffix 2)) in H1 as [pre [-> _]]. apply (K pre). reflexivity.
  - apply bind_ok in H as [[s r1] [H1 H]]. injection H as <- <-.
    apply take_bytes_ok in H1 as [-> _]. apply (K s). reflexivity.
  - apply bind_ok in H as [[s r1] [H1 H]]. injection H as <- <-.
    apply (parse_until_break_suffix _ (parse_chunk_suffix 3)) in H1 as [pre [-> _]]. apply (K pre). reflexivity.
  - destruct (n <=? len r0); [|discriminate].
    apply bind_ok in H as [[s r1] [H1 H]]. injection H as <- <-.
    apply (parse_n_suffix _ Hp) in H1 as [pre [-> _]]. apply (K pre). reflexivity.
  - apply bind_ok in H as [[s r1] [H1 H]]. injection H as <- <-.
    apply (parse_until_break_suffix _ Hp) in H1 as [pre [-> _]]. apply (K pre). reflexivity.
  - destruct (n <=? len r0); [|discriminate].
    apply bind_ok in H as [[s r1] [H1 H]]. injection H as <- <-.
    apply (parse_n_suffix _ (parse_pair_suffix _ Hp)) in H1 as [pre [-> _]]. apply (K pre). reflexivity.
  - apply bind_ok in H as [[s r1] [H1 H]]. injection H as <- <-.
    apply (parse_until_break_suffix _ (parse_pair_suffix _ Hp)) in H1 as [pre [-> _]]. apply (K pre). reflexivity.
  - apply bind_ok in H as [[s r1] [H1 H]]. injection H as <- <-.
    apply Hp in H1 as [pre [-> _]]. apply (K pre). reflexivity.
  - cbv zeta in H.
    destruct (b0 mod 32 <? 24); [injection H as <- <-; apply (K []); reflexivity|].
    destruct (b0 mod 32 =? 24).
    { destruct (n <? 32); [discriminate|]. injection H as <- <-; apply (K []); reflexivity. }
    destruct (b0 mod 32 =? 25); [injection H as <- <-; apply (K []); reflexivity|].
    destruct (b0 mod 32 =? 26); injection H as <- <-; apply (K []); reflexivity.
Qed.

(* THE suffix lemma: a successful parse returns a proper suffix of its input *)
Theorem parse_item_suffix f : forall bs it rest,
  parse_item f bs = Ok (it, rest) -> exists pre, bs = pre ++ rest /\ pre <> [].
Proof.
  induction f as [|f IH]; [discriminate|]. exact (parse_body_suffix _ IH).
Qed.

Lemma parse_one_suffix : psuffix parse_one.
Proof. intros bs it rest. apply parse_item_suffix. Qed.

(* skip_item returns exactly the consumed prefix *)
Theorem skip_item_exact bs pre rest : skip_item bs = Ok (pre, rest) -> bs = pre ++ rest /\ pre <> [].
Proof.
  unfold skip_item. intros H. apply bind_ok in H as [[it r] [H1 H]]. injection H as <- <-.
  apply parse_one_suffix in H1 as [pre [-> Hne]].
  rewrite app_length, Nat.add_sub, firstn_app, Nat.sub_diag, firstn_all. cbn [firstn]. rewrite app_nil_r.
  split; [reflexivity|exact Hne].
Qed.

Corollary skip_item_app bs pre rest : skip_item bs = Ok (pre, rest) -> bs = pre ++ rest.
Proof. intros H. apply (skip_item_exact _ _ _ H). Qed.

Lemma skip_item_parse bs pre rest :
  skip_item bs = Ok (pre, rest) <-> exists it, parse_one bs = Ok (it, rest) /\ bs = pre ++ rest.
Proof.
  split.
  - intros H. pose proof (skip_item_app _ _ _ H) as E. unfold skip_item in H.
    apply bind_ok in H as [[it r] [H1 H]]. injection H as _ <-. exists it. split; assumption.
  - intros [it [H E]]. unfold skip_item. rewrite H. cbn [bind]. subst bs.
    rewrite app_length, Nat.add_sub, firstn_app, Nat.sub_diag, firstn_all. cbn [firstn]. rewrite app_nil_r. reflexivity.
Qed.

(* ------------------------------------------------------------------ totality: never Panic *)

Definition pnopanic {A} (p : parser A) : Prop := forall bs, p bs <> Panic.

Lemma bind_no_panic {A B} (r : result A) (f : A -> result B) :
  r <> Panic -> (forall a, f a <> Panic) -> bind r f <> Panic.
Proof. destruct r; cbn [bind]; intros H1 H2; try congruence; apply H2. Qed.

Lemma take_bytes_no_panic n : pnopanic (take_bytes n).
Proof. intros bs. unfold take_bytes. destruct (n <=? len bs); discriminate. Qed.

Lemma parse_n_no_panic {A} (p : parser A) : pnopanic p -> forall k, pnopanic (parse_n p k).
Proof.
  intros Hp. induction k as [|k IH]; intros bs; cbn [parse_n]; [discriminate|].
  apply bind_no_panic; [apply Hp|]. intros [x r]. apply bind_no_panic; [apply IH|]. intros [xs r']. discriminate.
Qed.

Lemma parse_until_break_no_panic {A} (p : parser A) : pnopanic p -> forall k, pnopanic (parse_until_break p k).
Proof.
  intros Hp. induction k as [|k IH]; intros [|b t]; cbn [parse_until_break]; try discriminate;
    destruct (b =? 255); try discriminate.
  apply bind_no_panic; [apply Hp|]. intros [x r]. apply bind_no_panic; [apply IH|]. intros [xs r']. discriminate.
Qed.

Lemma parse_pair_no_panic {A} (p : parser A) : pnopanic p -> pnopanic (parse_pair p).
Proof.
  intros Hp bs. unfold parse_pair. apply bind_no_panic; [apply Hp|]. intros [k r].
  apply bind_no_panic; [apply Hp|]. intros [v r']. discriminate.
Qed.

Lemma parse_chunk_no_panic m : pnopanic (parse_chunk m).
Proof.
  intros bs. unfold parse_chunk. destruct (decode_head bs) as [[[m' [n|]] r0]|]; try discriminate.
  destruct (m' =? m); [apply take_bytes_no_panic|discriminate].
Qed.

Lemma parse_body_no_panic p : pnopanic p -> pnopanic (parse_body p).
Proof.
  intros Hp bs. unfold parse_body. destruct bs as [|b0 t]; [discriminate|].
  destruct (decode_head (b0 :: t)) as [[[m a] r0]|]; [|discriminate].
  unfold parse_after. destruct (major_of m) as [[]|]; destruct a as [n|]; try discriminate;
    try (destruct (n <=? len r0); [|discriminate]);
    try (apply bind_no_panic; [|intros [? ?]; discriminate]).
  - apply take_bytes_no_panic.
  - apply parse_until_break_no_panic, parse_chunk_no_panic.
  - apply take_bytes_no_panic.
  - apply parse_until_break_no_panic, parse_chunk_no_panic.
  - apply parse_n_no_panic, Hp.
  - apply parse_until_break_no_panic, Hp.
  - apply parse_n_no_panic, parse_pair_no_panic, Hp.
  - apply parse_until_break_no_panic, parse_pair_no_panic, Hp.
  - apply Hp.
  - cbv zeta. destruct (b0 mod 32 <? 24); [discriminate|]. destruct (b0 mod 32 =? 24).
    { destruct (n <? 32); discriminate. }
    destruct (b0 mod 32 =? 25); [discriminate|]. destruct (b0 mod 32 =? 26); discriminate.
Qed.

Theorem parse_item_no_panic f bs : parse_item f bs <> Panic.
Proof. revert bs. induction f as [|f IH]; [discriminate|]. exact (parse_body_no_panic _ IH). Qed.

Corollary skip_item_no_panic bs : skip_item bs <> Panic.
Proof.
  unfold skip_item. apply bind_no_panic; [apply parse_item_no_panic|]. intros [? ?]. discriminate.
Qed.

(* ------------------------------------------------------------------ fuel *)

(* q agrees with p wherever p does not run out of fuel *)
Definition pext {A} (p q : parser A) : Prop := forall bs, p bs <> OutOfFuel -> q bs = p bs.

Lemma bind_ext {A B} (r r' : result A) (f g : A -> result B) :
  (r <> OutOfFuel -> r' = r) -> (forall a, f a <> OutOfFuel -> g a = f a) ->
  bind r f <> OutOfFuel -> bind r' g = bind r f.
Proof.
  intros H1 H2 H. destruct r; cbn [bind] in *; try congruence;
    rewrite H1 by discriminate; cbn [bind]; auto.
Qed.

Lemma parse_n_ext {A} (p q : parser A) : pext p q -> forall k, pext (parse_n p k) (parse_n q k).
Proof.
  intros Hpq. induction k as [|k IH]; intros bs H; cbn [parse_n] in *; [reflexivity|].
  apply bind_ext; [apply Hpq| |exact H]. intros [x r] H'.
  apply bind_ext; [apply IH| |exact H']. intros [xs r'] _. reflexivity.
Qed.

Lemma parse_until_break_ext {A} (p q : parser A) : pext p q ->
  forall k, pext (parse_until_break p k) (parse_until_break q k).
Proof.
  intros Hpq. induction k as [|k IH]; intros [|b t] H; cbn [parse_until_break] in *; try reflexivity;
    destruct (b =? 255); try reflexivity.
  apply bind_ext; [apply Hpq| |exact H]. intros [x r] H'.
  apply bind_ext; [apply IH| |exact H']. intros [xs r'] _. reflexivity.
Qed.

Lemma parse_pair_ext {A} (p q : parser A) : pext p q -> pext (parse_pair p) (parse_pair q).
Proof.
  intros Hpq bs H. unfold parse_pair in *.
  apply bind_ext; [apply Hpq| |exact H]. intros [x r] H'.
  apply bind_ext; [apply Hpq| |exact H']. intros [xs r'] _. reflexivity.
Qed.

Lemma parse_body_ext p q : pext p q -> pext (parse_body p) (parse_body q).
Proof.
  intros Hpq bs H. unfold parse_body in *. destruct bs as [|b0 t]; [reflexivity|].
  destruct (decode_head (b0 :: t)) as [[[m a] r0]|]; [|reflexivity].
  unfold parse_after in *. destruct (major_of m) as [[]|]; destruct a as [n|]; try reflexivity;
    try (destruct (n <=? len r0); [|reflexivity]);
    (apply bind_ext; [|intros [? ?] _; reflexivity|exact H]).
  - apply parse_n_ext, Hpq.
  - apply parse_until_break_ext, Hpq.
  - apply parse_n_ext, parse_pair_ext, Hpq.
  - apply parse_until_break_ext, parse_pair_ext, Hpq.
  - apply Hpq.
Qed.

Lemma parse_item_fuel_S f : pext (parse_item f) (parse_item (S f)).
Proof.
  induction f as [|f IH]; [intros bs H; exfalso; apply H; reflexivity|].
  exact (parse_body_ext _ _ IH).
Qed.

(* more fuel never changes an Ok / Err result *)
Theorem parse_item_fuel_mono f f' bs : (f <= f')%nat ->
  parse_item f bs <> OutOfFuel -> parse_item f' bs = parse_item f bs.
Proof.
  intros Hle H. induction Hle as [|f' Hle IH]; [reflexivity|].
  rewrite <- IH. apply parse_item_fuel_S. rewrite IH. exact H.
Qed.

Corollary parse_item_fuel_ok f f' bs v : (f <= f')%nat -> parse_item f bs = Ok v -> parse_item f' bs = Ok v.
Proof. intros Hle H. rewrite (parse_item_fuel_mono f f' bs Hle); [exact H|rewrite H; discriminate]. Qed.

Corollary parse_item_fuel_err f f' bs : (f <= f')%nat -> parse_item f bs = Err -> parse_item f' bs = Err.
Proof. intros Hle H. rewrite (parse_item_fuel_mono f f' bs Hle); [exact H|rewrite H; discriminate]. Qed.

(* two fuels that both suffice give the same answer *)
Corollary parse_item_fuel_indep f f' bs :
  parse_item f bs <> OutOfFuel -> parse_item f' bs <> OutOfFuel -> parse_item f' bs = parse_item f bs.
Proof.
  intros H H'. destruct (Nat.le_ge_cases f f') as [L|L].
  - apply parse_item_fuel_mono; assumption.
  - symmetry. apply parse_item_fuel_mono; assumption.
Qed.

Lemma bind_no_oof {A B} (r : result A) (f : A -> result B) :
  r <> OutOfFuel -> (forall a, r = Ok a -> f a <> OutOfFuel) -> bind r f <> OutOfFuel.
Proof. destruct r; cbn [bind]; intros H1 H2; try congruence; apply H2; reflexivity. Qed.

Lemma take_bytes_no_oof n bs : take_bytes n bs <> OutOfFuel.
Proof. unfold take_bytes. destruct (n <=? len bs); discriminate. Qed.

Lemma parse_n_no_oof {A} (p : parser A) L : psuffix p ->
  (forall bs, (length bs <= L)%nat -> p bs <> OutOfFuel) ->
  forall k bs, (length bs <= L)%nat -> parse_n p k bs <> OutOfFuel.
Proof.
  intros Hp Hn. induction k as [|k IH]; intros bs Hl; cbn [parse_n]; [discriminate|].
  apply bind_no_oof; [apply Hn, Hl|]. intros [x r] E.
  apply bind_no_oof; [|intros [? ?] _; discriminate].
  apply IH. apply Hp in E as [pre [-> _]]. rewrite app_length in Hl. lia.
Qed.

Lemma parse_until_break_no_oof {A} (p : parser A) L : psuffix p ->
  (forall bs, (length bs <= L)%nat -> p bs <> OutOfFuel) ->
  forall k bs, (length bs <= L)%nat -> (length bs <= k)%nat -> parse_until_break p k bs <> OutOfFuel.
Proof.
  intros Hp Hn. induction k as [|k IH]; intros [|b t] Hl Hk; cbn [parse_until_break]; try discriminate;
    destruct (b =? 255); try discriminate.
  { cbn [length] in Hk. lia. }
  apply bind_no_oof; [apply Hn, Hl|]. intros [x r] E.
  apply bind_no_oof; [|intros [? ?] _; discriminate].
  apply Hp in E as [pre [E Hne]].
  assert (length r < length (b :: t))%nat.
  { rewrite E, app_length. destruct pre; [congruence|]. cbn [length]. lia. }
  apply IH; lia.
Qed.

Lemma parse_pair_no_oof {A} (p : parser A) L : psuffix p ->
  (forall bs, (length bs <= L)%nat -> p bs <> OutOfFuel) ->
  forall bs, (length bs <= L)%nat -> parse_pair p bs <> OutOfFuel.
Proof.
  intros Hp Hn bs Hl. unfold parse_pair.
  apply bind_no_oof; [apply Hn, Hl|]. intros [x r] E.
  apply bind_no_oof; [|intros [? ?] _; discriminate].
  apply Hn. apply Hp in E as [pre [-> _]]. rewrite app_length in Hl. lia.
Qed.

Lemma parse_chunk_no_oof m bs : parse_chunk m bs <> OutOfFuel.
Proof.
  unfold parse_chunk. destruct (decode_head bs) as [[[m' [n|]] r0]|]; try discriminate.
  destruct (m' =? m); [apply take_bytes_no_oof|discriminate].
Qed.

Lemma parse_body_no_oof p bs : psuffix p ->
  (forall bs', (length bs' < length bs)%nat -> p bs' <> OutOfFuel) -> parse_body p bs <> OutOfFuel.
Proof.
  intros Hp Hn. unfold parse_body. destruct bs as [|b0 t]; [discriminate|].
  destruct (decode_head (b0 :: t)) as [[[m a] r0]|] eqn:Hd; [|discriminate].
  apply decode_head_shorter in Hd.
  assert (Hn' : forall bs', (length bs' <= length r0)%nat -> p bs' <> OutOfFuel) by (intros; apply Hn; lia).
  unfold parse_after. destruct (major_of m) as [[]|]; destruct a as [n|]; try discriminate;
    try (destruct (n <=? len r0); [|discriminate]);
    try (apply bind_no_oof; [|intros [? ?] _; discriminate]).
  - apply take_bytes_no_oof.
  - apply (parse_until_break_no_oof _ (length r0)); try lia; [apply parse_chunk_suffix|intros; apply parse_chunk_no_oof].
  - apply take_bytes_no_oof.
  - apply (parse_until_break_no_oof _ (length r0)); try lia; [apply parse_chunk_suffix|intros; apply parse_chunk_no_oof].
  - apply (parse_n_no_oof _ (length r0)); try lia; assumption.
  - apply (parse_until_break_no_oof _ (length r0)); try lia; assumption.
  - apply (parse_n_no_oof _ (length r0)); try lia; [apply parse_pair_suffix, Hp|].
    apply parse_pair_no_oof; assumption.
  - apply (parse_until_break_no_oof _ (length r0)); try lia; [apply parse_pair_suffix, Hp|].
    apply parse_pair_no_oof; assumption.
  - apply Hn'. lia.
  - cbv zeta. destruct (b0 mod 32 <? 24); [discriminate|]. destruct (b0 mod 32 =? 24).
    { destruct (n <? 32); discriminate. }
    destruct (b0 mod 32 =? 25); [discriminate|]. destruct (b0 mod 32 =? 26); discriminate.
Qed.

(* fuel above the input length is always enough: OutOfFuel can only mean "nested deeper than the fuel" *)
Theorem parse_item_fuel_enough f bs : (length bs < f)%nat -> parse_item f bs <> OutOfFuel.
Proof.
  revert bs. induction f as [|f IH]; intros bs Hl; [lia|].
  apply parse_body_no_oof; [exact (parse_item_suffix f)|]. intros bs' Hl'. apply IH. lia.
Qed.

Corollary parse_one_no_oof bs : parse_one bs <> OutOfFuel.
Proof. apply parse_item_fuel_enough. unfold default_fuel. lia. Qed.

Corollary parse_one_total bs : (exists it rest, parse_one bs = Ok (it, rest)) \/ parse_one bs = Err.
Proof.
  pose proof (parse_one_no_oof bs). pose proof (parse_item_no_panic (default_fuel bs) bs).
  unfold parse_one in *. destruct (parse_item (default_fuel bs) bs) as [[it r]| | |]; try congruence; eauto.
Qed.

Corollary skip_item_total bs : (exists pre rest, skip_item bs = Ok (pre, rest)) \/ skip_item bs = Err.
Proof.
  unfold skip_item. destruct (parse_one_total bs) as [[it [r ->]]| ->]; cbn [bind]; eauto.
Qed.

(* any sufficient fuel gives the answer of the default fuel *)
Corollary parse_item_default f bs : parse_item f bs <> OutOfFuel -> parse_item f bs = parse_one bs.
Proof. intros H. symmetry. apply parse_item_fuel_indep; [exact H|apply parse_one_no_oof]. Qed.

(* ------------------------------------------------------------------ induction principle for items *)

Definition item_ind2 (P : item -> Prop)
  (Huint : forall n, P (IUint n)) (Hnint : forall n, P (INint n))
  (Hbytes : forall b, P (IBytes b)) (Hbc : forall cs, P (IBytesChunked cs))
  (Htext : forall b, P (IText b)) (Htc : forall cs, P (ITextChunked cs))
  (Harr : forall d xs, Forall P xs -> P (IArray d xs))
  (Hmap : forall d kvs, Forall (fun kv => P (fst kv) /\ P (snd kv)) kvs -> P (IMap d kvs))
  (Htag : forall t x, P x -> P (ITag t x))
  (Hsimple : forall n, P (ISimple n)) (Hfloat : forall w v, P (IFloat w v)) : forall it, P it :=
  fix go (it : item) : P it :=
    match it with
    | IUint n => Huint n
    | INint n => Hnint n
    | IBytes b => Hbytes b
    | IBytesChunked cs => Hbc cs
    | IText b => Htext b
    | ITextChunked cs => Htc cs
    | IArray d xs =>
        Harr d xs ((fix gl (l : list item) : Forall P l :=
                      match l with
                      | [] => Forall_nil _
                      | x :: t => Forall_cons x (go x) (gl t)
                      end) xs)
    | IMap d kvs =>
        Hmap d kvs ((fix gl (l : list (item * item)) : Forall (fun kv => P (fst kv) /\ P (snd kv)) l :=
                       match l with
                       | [] => Forall_nil _
                       | kv :: t => Forall_cons kv (conj (go (fst kv)) (go (snd kv))) (gl t)
                       end) kvs)
    | ITag t x => Htag t x (go x)
    | ISimple n => Hsimple n
    | IFloat w v => Hfloat w v
    end.

(* ------------------------------------------------------------------ printer round trip *)

Definition starts_ok (bs : bytes) : Prop := exists b t, bs = b :: t /\ b <> 255.

Lemma encode_head_starts m n rest : m <= 7 -> starts_ok (encode_head m n ++ rest).
Proof.
  intros Hm. unfold encode_head, starts_ok.
  destruct (n <? 24) eqn:E1; [eexists; eexists; split; [reflexivity|lia]|].
  destruct (n <? 256); [eexists; eexists; split; [reflexivity|lia]|].
  destruct (n <? 65536); [eexists; eexists; split; [reflexivity|lia]|].
  destruct (n <? 4294967296); eexists; eexists; (split; [reflexivity|lia]).
Qed.

Lemma encode_item_starts it : starts_ok (encode_item it).
Proof.
  destruct it as [n|n|b|cs|b|cs|d xs|d kvs|t x|n|w v]; cbn [encode_item];
    try (apply encode_head_starts; lia);
    try (rewrite <- (app_nil_r (encode_head _ _)); apply encode_head_starts; lia);
    try (eexists; eexists; split; [reflexivity|lia]).
  - destruct d; [apply encode_head_starts; lia|eexists; eexists; split; [reflexivity|lia]].
  - destruct d; [apply encode_head_starts; lia|eexists; eexists; split; [reflexivity|lia]].
  - destruct w; cbn [fwidth_bytes encode_head_w]; eexists; eexists; (split; [reflexivity|lia]).
Qed.

Lemma starts_ok_ne bs : starts_ok bs -> bs <> [].
Proof. intros [b [t [-> _]]]. discriminate. Qed.

Lemma encode_item_ne it : encode_item it <> [].
Proof. apply starts_ok_ne, encode_item_starts. Qed.

Lemma flat_map_length_ge {A} (enc : A -> bytes) xs :
  Forall (fun x => enc x <> []) xs -> (length xs <= length (flat_map enc xs))%nat.
Proof.
  induction 1 as [|x xs Hx _ IH]; cbn [flat_map length]; [lia|].
  rewrite app_length. destruct (enc x); [congruence|]. cbn [length]. lia.
Qed.

Lemma parse_n_rt {A} (p : parser A) (enc : A -> bytes) xs rest :
  Forall (fun x => forall rest, p (enc x ++ rest) = Ok (x, rest)) xs ->
  parse_n p (length xs) (flat_map enc xs ++ rest) = Ok (xs, rest).
Proof.
  induction 1 as [|x xs Hx _ IH]; cbn [length parse_n flat_map app]; [reflexivity|].
  rewrite <- app_assoc, Hx. cbn [bind]. rewrite IH. reflexivity.
Qed.

Lemma parse_until_break_step {A} (p : parser A) k b t : b <> 255 ->
  parse_until_break p (S k) (b :: t) =
  (let* '(x, r) := p (b :: t) in let* '(xs, r') := parse_until_break p k r in Ok (x :: xs, r')).
Proof. intros H. cbn [parse_until_break]. destruct (b =? 255) eqn:E; [lia|reflexivity]. Qed.

Lemma parse_until_break_nil {A} (p : parser A) k rest : parse_until_break p k (255 :: rest) = Ok ([], rest).
Proof. destruct k; reflexivity. Qed.

Definition rt_elem {A} (p : parser A) (enc : A -> bytes) (x : A) : Prop :=
  (forall rest, p (enc x ++ rest) = Ok (x, rest)) /\ starts_ok (enc x).

Lemma parse_until_break_rt_k {A} (p : parser A) (enc : A -> bytes) xs rest :
  Forall (rt_elem p enc) xs ->
  forall k, (length xs <= k)%nat -> parse_until_break p k (flat_map enc xs ++ 255 :: rest) = Ok (xs, rest).
Proof.
  induction 1 as [|x xs [Hx [b [t [E Hb]]]] _ IH]; intros k Hk.
  - cbn [flat_map app]. apply parse_until_break_nil.
  - destruct k as [|k]; [cbn [length] in Hk; lia|]. cbn [flat_map]. rewrite <- app_assoc.
    specialize (Hx (flat_map enc xs ++ 255 :: rest)). rewrite E in *. cbn [app] in *.
    rewrite parse_until_break_step by exact Hb. rewrite Hx. cbn [bind].
    rewrite IH by (cbn [length] in Hk; lia). reflexivity.
Qed.

Lemma parse_until_break_rt {A} (p : parser A) (enc : A -> bytes) xs rest :
  Forall (rt_elem p enc) xs ->
  parse_until_break p (length (flat_map enc xs ++ 255 :: rest)) (flat_map enc xs ++ 255 :: rest) = Ok (xs, rest).
Proof.
  intros H. apply parse_until_break_rt_k; [exact H|]. rewrite app_length.
  assert (length xs <= length (flat_map enc xs))%nat; [|lia].
  apply flat_map_length_ge. eapply Forall_impl; [|exact H]. intros x [_ Hs]. apply starts_ok_ne, Hs.
Qed.

Lemma parse_chunk_rt m c rest : len c < two64 ->
  parse_chunk m ((encode_head m (len c) ++ c) ++ rest) = Ok (c, rest).
Proof.
  intros Hl. unfold parse_chunk. rewrite <- app_assoc, decode_encode_head by exact Hl.
  rewrite N.eqb_refl. apply take_bytes_app. reflexivity.
Qed.

Lemma chunks_rt m cs : m <= 7 -> forallb chunk_ok cs = true ->
  Forall (rt_elem (parse_chunk m) (fun c => encode_head m (len c) ++ c)) cs.
Proof.
  intros Hm H. rewrite forallb_forall in H. apply Forall_forall. intros c Hin. apply H in Hin.
  unfold chunk_ok in Hin. apply andb_true_iff in Hin as [_ Hl]. apply N.ltb_lt in Hl.
  split; [intros rest; apply parse_chunk_rt, Hl|apply encode_head_starts, Hm].
Qed.

Lemma parse_body_head p bs m a r :
  decode_head bs = Some (m, a, r) -> parse_body p bs = parse_after p (hd 0 bs) m a r.
Proof. destruct bs as [|b0 t]; [discriminate|]. unfold parse_body. intros ->. reflexivity. Qed.

Lemma depth_in x xs : In x xs ->
  (item_depth x <= fold_right (fun x acc => Nat.max (item_depth x) acc) O xs)%nat.
Proof.
  induction xs as [|y ys IH]; [intros []|]. cbn [fold_right]. intros [->|Hin]; [lia|].
  specialize (IH Hin). lia.
Qed.

Lemma depth_in_pair kv kvs : In kv kvs ->
  (Nat.max (item_depth (fst kv)) (item_depth (snd kv)) <=
   fold_right (fun kv acc => match kv with (k, v) => Nat.max (Nat.max (item_depth k) (item_depth v)) acc end) O kvs)%nat.
Proof.
  induction kvs as [|[k v] ys IH]; [intros []|]. cbn [fold_right]. intros [<-|Hin]; [cbn [fst snd]; lia|].
  specialize (IH Hin). lia.
Qed.

Lemma decode_float w v rest : item_ok (IFloat w v) = true ->
  decode_head (encode_head_w 7 v (fwidth_bytes w) ++ rest) = Some (7, Arg v, rest).
Proof.
  intros H. destruct w; cbn [item_ok] in H; apply N.ltb_lt in H; unfold two64 in H;
    cbn [fwidth_bytes encode_head_w app decode_head].
  - destruct (initial_byte 7 25 ltac:(lia)) as [-> ->].
    change (25 <? 24) with false. change (25 =? 24) with false. change (25 =? 25) with true. cbv iota.
    rewrite split_at_app by apply be_length. rewrite unbe_be by (change (256 ^ N.of_nat 2) with 65536; lia).
    do 3 f_equal.
  - destruct (initial_byte 7 26 ltac:(lia)) as [-> ->].
    change (26 <? 24) with false. change (26 =? 24) with false. change (26 =? 25) with false.
    change (26 =? 26) with true. cbv iota.
    rewrite split_at_app by apply be_length. rewrite unbe_be by (change (256 ^ N.of_nat 4) with 4294967296; lia).
    do 3 f_equal.
  - destruct (initial_byte 7 27 ltac:(lia)) as [-> ->].
    change (27 <? 24) with false. change (27 =? 24) with false. change (27 =? 25) with false.
    change (27 =? 26) with false. change (27 =? 27) with true. cbv iota.
    rewrite split_at_app by apply be_length.
    rewrite unbe_be by (change (256 ^ N.of_nat 8) with 18446744073709551616; lia).
    do 3 f_equal.
Qed.

Lemma guard_true {A} (enc : A -> bytes) xs rest :
  Forall (fun x => enc x <> []) xs -> (len xs <=? len (flat_map enc xs ++ rest)) = true.
Proof.
  intros H. apply flat_map_length_ge in H. unfold len. rewrite app_length. lia.
Qed.

(* parse (print it ++ rest) = (it, rest) for every encodable item, with fuel >= nesting depth *)
Theorem parse_item_encode : forall it, item_ok it = true ->
  forall f rest, (item_depth it <= f)%nat -> parse_item f (encode_item it ++ rest) = Ok (it, rest).
Proof.
  induction it as [n|n|b|cs|b|cs|d xs IH|d kvs IH|t x IH|n|w v] using item_ind2; intros Hok f rest Hd;
    (destruct f as [|f]; [cbn [item_depth] in Hd; lia|]); cbn [parse_item];
    cbn [item_ok] in Hok; cbn [encode_item].
  - apply N.ltb_lt in Hok. rewrite (parse_body_head _ _ _ _ _ (decode_encode_head 0 n rest Hok)). reflexivity.
  - apply N.ltb_lt in Hok. rewrite (parse_body_head _ _ _ _ _ (decode_encode_head 1 n rest Hok)). reflexivity.
  - unfold chunk_ok in Hok. apply andb_true_iff in Hok as [_ Hl]. apply N.ltb_lt in Hl.
    rewrite <- app_assoc. rewrite (parse_body_head _ _ _ _ _ (decode_encode_head 2 _ _ Hl)).
    unfold parse_after. cbn [major_of]. rewrite take_bytes_app by reflexivity. reflexivity.
  - cbn [app]. rewrite <- app_assoc. cbn [app].
    rewrite (parse_body_head _ (95 :: _) 2 Indef _ eq_refl). unfold parse_after. cbn [major_of].
    unfold encode_chunks. rewrite parse_until_break_rt by (apply chunks_rt; [lia|exact Hok]). reflexivity.
  - unfold chunk_ok in Hok. apply andb_true_iff in Hok as [_ Hl]. apply N.ltb_lt in Hl.
    rewrite <- app_assoc. rewrite (parse_body_head _ _ _ _ _ (decode_encode_head 3 _ _ Hl)).
    unfold parse_after. cbn [major_of]. rewrite take_bytes_app by reflexivity. reflexivity.
  - cbn [app]. rewrite <- app_assoc. cbn [app].
    rewrite (parse_body_head _ (127 :: _) 3 Indef _ eq_refl). unfold parse_after. cbn [major_of].
    unfold encode_chunks. rewrite parse_until_break_rt by (apply chunks_rt; [lia|exact Hok]). reflexivity.
  - (* array *)
    apply andb_true_iff in Hok as [Hl Hall]. cbn [item_depth] in Hd.
    assert (HF : Forall (rt_elem (parse_item f) encode_item) xs).
    { rewrite forallb_forall in Hall. rewrite Forall_forall in IH. apply Forall_forall. intros x Hin. split.
      - intros rest'. apply IH; [exact Hin|apply Hall, Hin|]. pose proof (depth_in x xs Hin). lia.
      - apply encode_item_starts. }
    destruct d.
    + apply N.ltb_lt in Hl. rewrite <- app_assoc. rewrite (parse_body_head _ _ _ _ _ (decode_encode_head 4 _ _ Hl)).
      unfold parse_after. cbn [major_of].
      rewrite guard_true by (apply Forall_forall; intros; apply encode_item_ne).
      unfold len at 1. rewrite Nat2N.id.
      rewrite parse_n_rt by (eapply Forall_impl; [|exact HF]; intros x [Hx _]; exact Hx). reflexivity.
    + cbn [app]. rewrite <- app_assoc. cbn [app].
      rewrite (parse_body_head _ (159 :: _) 4 Indef _ eq_refl). unfold parse_after. cbn [major_of].
      rewrite parse_until_break_rt by exact HF. reflexivity.
  - (* map *)
    apply andb_true_iff in Hok as [Hl Hall]. cbn [item_depth] in Hd.
    change (flat_map _ kvs) with (flat_map encode_pair kvs).
    assert (HF : Forall (rt_elem (parse_pair (parse_item f)) encode_pair) kvs).
    { rewrite forallb_forall in Hall. rewrite Forall_forall in IH. apply Forall_forall. intros [k v] Hin.
      pose proof (depth_in_pair _ _ Hin) as Hdp. cbn [fst snd] in Hdp.
      specialize (Hall _ Hin). cbn beta iota in Hall. apply andb_true_iff in Hall as [Hk Hv].
      destruct (IH _ Hin) as [IHk IHv]. cbn [fst snd] in IHk, IHv. split.
      - intros rest'. unfold parse_pair, encode_pair. rewrite <- app_assoc.
        rewrite IHk by (try exact Hk; lia). cbn [bind]. rewrite IHv by (try exact Hv; lia). reflexivity.
      - unfold encode_pair. destruct (encode_item_starts k) as [b [t [E Hb]]]. rewrite E.
        exists b, (t ++ encode_item v). split; [reflexivity|exact Hb]. }
    destruct d.
    + apply N.ltb_lt in Hl. rewrite <- app_assoc. rewrite (parse_body_head _ _ _ _ _ (decode_encode_head 5 _ _ Hl)).
      unfold parse_after. cbn [major_of].
      rewrite guard_true by (eapply Forall_impl; [|exact HF]; intros x [_ Hs]; apply starts_ok_ne, Hs).
      unfold len at 1. rewrite Nat2N.id.
      rewrite parse_n_rt by (eapply Forall_impl; [|exact HF]; intros x [Hx _]; exact Hx). reflexivity.
    + cbn [app]. rewrite <- app_assoc. cbn [app].
      rewrite (parse_body_head _ (191 :: _) 5 Indef _ eq_refl). unfold parse_after. cbn [major_of].
      rewrite parse_until_break_rt by exact HF. reflexivity.
  - (* tag *)
    apply andb_true_iff in Hok as [Hl Hx]. apply N.ltb_lt in Hl. cbn [item_depth] in Hd.
    rewrite <- app_assoc. rewrite (parse_body_head _ _ _ _ _ (decode_encode_head 6 _ _ Hl)).
    unfold parse_after. cbn [major_of]. rewrite IH by (try exact Hx; lia). reflexivity.
  - (* simple *)
    assert (Hl : n < two64) by (unfold two64; lia).
    rewrite (parse_body_head _ _ _ _ _ (decode_encode_head 7 _ _ Hl)).
    unfold parse_after. cbn [major_of]. cbv zeta. unfold encode_head.
    destruct (n <? 24) eqn:E1.
    + cbn [app hd]. destruct (initial_byte 7 n ltac:(lia)) as [_ ->]. rewrite E1. reflexivity.
    + destruct (n <? 256) eqn:E2; [|lia]. cbn [app hd].
      change ((7 * 32 + 24) mod 32) with 24. change (24 <? 24) with false. change (24 =? 24) with true. cbv iota.
      destruct (n <? 32) eqn:E3; [lia|reflexivity].
  - (* float *)
    assert (Hf : item_ok (IFloat w v) = true) by exact Hok.
    rewrite (parse_body_head _ _ _ _ _ (decode_float w v rest Hf)). destruct w; reflexivity.
Qed.

Theorem parse_one_encode it rest : item_ok it = true -> parse_one (encode_item it ++ rest) = Ok (it, rest).
Proof.
  intros Hok. pose proof (parse_item_encode it Hok (item_depth it) rest (Nat.le_refl _)) as H.
  rewrite <- H. symmetry. apply parse_item_default. rewrite H. discriminate.
Qed.

Corollary parse_exact_encode it : item_ok it = true -> parse_exact (encode_item it) = Ok it.
Proof.
  intros Hok. unfold parse_exact. rewrite <- (app_nil_r (encode_item it)), parse_one_encode by exact Hok. reflexivity.
Qed.

Corollary item_wf_encode it : item_ok it = true -> item_wf (encode_item it) = true.
Proof. intros Hok. unfold item_wf. rewrite parse_exact_encode by exact Hok. reflexivity. Qed.

Corollary skip_item_encode it rest : item_ok it = true ->
  skip_item (encode_item it ++ rest) = Ok (encode_item it, rest).
Proof. intros Hok. apply skip_item_parse. exists it. split; [apply parse_one_encode, Hok|reflexivity]. Qed.

(* ------------------------------------------------------------------ canonical-form recognisers *)

Lemma list_eqb_cons {A} (eqb : A -> A -> bool) x t1 y t2 :
  list_eqb eqb (x :: t1) (y :: t2) = eqb x y && list_eqb eqb t1 t2.
Proof. reflexivity. Qed.

Lemma list_eqb_eq {A} (eqb : A -> A -> bool) :
  (forall x y, eqb x y = true <-> x = y) -> forall l1 l2, list_eqb eqb l1 l2 = true <-> l1 = l2.
Proof.
  intros He. induction l1 as [|x t1 IH]; intros [|y t2]; try (split; [discriminate|discriminate]).
  - split; reflexivity.
  - rewrite list_eqb_cons, andb_true_iff, He, IH. split; [intros [-> ->]; reflexivity|intros H; injection H; auto].
Qed.

Lemma bytes_eqb_eq a b : bytes_eqb a b = true <-> a = b.
Proof. apply list_eqb_eq. intros x y. apply N.eqb_eq. Qed.

Lemma bytes_eqb_refl a : bytes_eqb a a = true.
Proof. apply bytes_eqb_eq. reflexivity. Qed.

Lemma parse_exact_ok bs it : parse_exact bs = Ok it <-> parse_one bs = Ok (it, []).
Proof.
  unfold parse_exact. destruct (parse_one bs) as [[it' [|b t]]| | |]; split; intros H; try discriminate;
    injection H as ->; reflexivity.
Qed.

(* heads_shortest: the bytes are exactly the shortest-head printing of the item they parse to *)
Theorem heads_shortest_sound bs : heads_shortest bs = true ->
  exists it, parse_exact bs = Ok it /\ encode_item it = bs.
Proof.
  unfold heads_shortest. destruct (parse_exact bs) as [it| | |]; try discriminate.
  intros H. exists it. split; [reflexivity|apply bytes_eqb_eq, H].
Qed.

Theorem heads_shortest_encode it : item_ok it = true -> heads_shortest (encode_item it) = true.
Proof. intros Hok. unfold heads_shortest. rewrite parse_exact_encode by exact Hok. apply bytes_eqb_refl. Qed.

Theorem canon_bytes3_sound a m c bs : canon_bytes3 a m c bs = true ->
  exists it, parse_exact bs = Ok it /\ encode_item it = bs /\ canon_item3 a m c it = true.
Proof.
  unfold canon_bytes3. destruct (parse_exact bs) as [it| | |]; try discriminate.
  intros H. apply andb_true_iff in H as [H1 H2]. exists it. repeat split; [apply bytes_eqb_eq, H2|exact H1].
Qed.

Theorem canon_bytes3_encode a m c it : item_ok it = true ->
  canon_bytes3 a m c (encode_item it) = canon_item3 a m c it.
Proof.
  intros Hok. unfold canon_bytes3. rewrite parse_exact_encode by exact Hok.
  rewrite bytes_eqb_refl. apply andb_true_r.
Qed.

Corollary canon_bytes_encode a c it : item_ok it = true -> canon_bytes a c (encode_item it) = canon_item a c it.
Proof. apply canon_bytes3_encode. Qed.

Lemma canon_bytes3_wf a m c bs : canon_bytes3 a m c bs = true -> item_wf bs = true.
Proof. intros H. apply canon_bytes3_sound in H as [it [H _]]. unfold item_wf. rewrite H. reflexivity. Qed.

Lemma canon_bytes3_shortest a m c bs : canon_bytes3 a m c bs = true -> heads_shortest bs = true.
Proof.
  unfold canon_bytes3, heads_shortest. destruct (parse_exact bs); try discriminate.
  intros H. apply andb_true_iff in H. tauto.
Qed.

(* ------------------------------------------------------------------ locality / prefix-freeness *)

(* a successful parse consumed a non-empty prefix and does not depend on what follows that prefix *)
Definition pstrong {A} (p : parser A) : Prop :=
  forall bs x r, p bs = Ok (x, r) ->
  exists pre, bs = pre ++ r /\ pre <> [] /\ forall r2, p (pre ++ r2) = Ok (x, r2).

Lemma pstrong_suffix {A} (p : parser A) : pstrong p -> psuffix p.
Proof. intros H bs x r E. apply H in E as [pre [E1 [E2 _]]]. exists pre. split; assumption. Qed.

Lemma pstrong_local {A} (p : parser A) : pstrong p ->
  forall pre r1 r2 x, p (pre ++ r1) = Ok (x, r1) -> p (pre ++ r2) = Ok (x, r2).
Proof.
  intros H pre r1 r2 x E. apply H in E as [pre' [E1 [_ E3]]]. apply app_inv_tail in E1. subst pre'. apply E3.
Qed.

Lemma split_at_ok k l p r : split_at k l = Some (p, r) -> l = p ++ r /\ length p = k.
Proof.
  unfold split_at. destruct (k <=? length l)%nat eqn:E; [|discriminate].
  intros H; injection H as <- <-. split; [symmetry; apply firstn_skipn|]. rewrite firstn_length. lia.
Qed.

Lemma decode_head_strong bs m a r : decode_head bs = Some (m, a, r) ->
  exists b0 t0, bs = (b0 :: t0) ++ r /\ forall r2, decode_head ((b0 :: t0) ++ r2) = Some (m, a, r2).
Proof.
  destruct bs as [|b t]; [discriminate|]. cbn [decode_head].
  destruct (b mod 32 <? 24) eqn:E0.
  { intros H; injection H as <- <- <-. exists b, []. split; [reflexivity|]. intros r2.
    cbn [app decode_head]. rewrite E0. reflexivity. }
  assert (P : forall k, match split_at k t with Some (p, r') => Some (b / 32, Arg (unbe p 0), r') | None => None end
                        = Some (m, a, r) ->
              exists p, t = p ++ r /\ forall r2,
                match split_at k (p ++ r2) with Some (p, r') => Some (b / 32, Arg (unbe p 0), r') | None => None end
                = Some (m, a, r2)).
  { intros k. destruct (split_at k t) as [[p r']|] eqn:E; [|discriminate].
    intros H; injection H as <- <- <-. apply split_at_ok in E as [-> Hl]. exists p. split; [reflexivity|].
    intros r2. rewrite split_at_app by exact Hl. reflexivity. }
  destruct (b mod 32 =? 24) eqn:E1.
  { intros H. apply P in H as [p [-> H]]. exists b, p. split; [reflexivity|]. intros r2.
    cbn [app decode_head]. rewrite E0, E1. apply H. }
  destruct (b mod 32 =? 25) eqn:E2.
  { intros H. apply P in H as [p [-> H]]. exists b, p. split; [reflexivity|]. intros r2.
    cbn [app decode_head]. rewrite E0, E1, E2. apply H. }
  destruct (b mod 32 =? 26) eqn:E3.
  { intros H. apply P in H as [p [-> H]]. exists b, p. split; [reflexivity|]. intros r2.
    cbn [app decode_head]. rewrite E0, E1, E2, E3. apply H. }
  destruct (b mod 32 =? 27) eqn:E4.
  { intros H. apply P in H as [p [-> H]]. exists b, p. split; [reflexivity|]. intros r2.
    cbn [app decode_head]. rewrite E0, E1, E2, E3, E4. apply H. }
  destruct (b mod 32 =? 31) eqn:E5; [|discriminate].
  intros H; injection H as <- <- <-. exists b, []. split; [reflexivity|]. intros r2.
  cbn [app decode_head]. rewrite E0, E1, E2, E3, E4, E5. reflexivity.
Qed.

Lemma take_bytes_strong n bs s r : take_bytes n bs = Ok (s, r) ->
  bs = s ++ r /\ forall r2, take_bytes n (s ++ r2) = Ok (s, r2).
Proof.
  intros H. apply take_bytes_ok in H as [-> Hl]. split; [reflexivity|]. intros r2. apply take_bytes_app, Hl.
Qed.

Lemma parse_n_strong {A} (p : parser A) : pstrong p ->
  forall k bs xs r, parse_n p k bs = Ok (xs, r) ->
  exists pre, bs = pre ++ r /\ (k <= length pre)%nat /\ forall r2, parse_n p k (pre ++ r2) = Ok (xs, r2).
Proof.
  intros Hp. induction k as [|k IH]; intros bs xs r H; cbn [parse_n] in H.
  - injection H as <- <-. exists []. split; [reflexivity|]. split; [cbn [length]; lia|]. intros r2. reflexivity.
  - apply bind_ok in H as [[x r1] [H1 H]]. apply bind_ok in H as [[xs' r2] [H2 H]]. injection H as <- <-.
    apply Hp in H1 as [pre1 [-> [Hne L1]]]. apply IH in H2 as [pre2 [-> [Hk L2]]].
    exists (pre1 ++ pre2). rewrite app_assoc. split; [reflexivity|]. split.
    + rewrite app_length. destruct pre1; [congruence|]. cbn [length]. lia.
    + intros r3. cbn [parse_n]. rewrite <- app_assoc, L1. cbn [bind]. rewrite L2. reflexivity.
Qed.

Lemma parse_until_break_strong {A} (p : parser A) : pstrong p ->
  forall k bs xs r, parse_until_break p k bs = Ok (xs, r) ->
  exists pre, bs = pre ++ r /\ (length xs < length pre)%nat /\
    forall r2 k', (length xs <= k')%nat -> parse_until_break p k' (pre ++ r2) = Ok (xs, r2).
Proof.
  intros Hp.
  assert (B : forall b t xs r, (b =? 255) = true -> Ok ([], t) = Ok (xs, r) ->
    exists pre, b :: t = pre ++ r /\ (length xs < length pre)%nat /\
      forall r2 k', (length xs <= k')%nat -> parse_until_break p k' (pre ++ r2) = @Ok (list A * bytes) (xs, r2)).
  { intros b t xs r Eb H. injection H as <- <-. exists [b]. split; [reflexivity|]. split; [cbn [length]; lia|].
    intros r2 k' _. destruct k'; cbn [app parse_until_break]; rewrite Eb; reflexivity. }
  induction k as [|k IH]; intros bs xs r H; destruct bs as [|b t]; cbn [parse_until_break] in H;
    try discriminate; destruct (b =? 255) eqn:Eb; try discriminate; try (apply B; assumption).
  apply bind_ok in H as [[x r1] [H1 H]]. apply bind_ok in H as [[xs' r2] [H2 H]]. injection H as <- <-.
  apply Hp in H1 as [pre1 [E [Hne L1]]]. apply IH in H2 as [pre2 [-> [Hk L2]]].
  destruct pre1 as [|b' t']; [congruence|]. cbn [app] in E. injection E as <- ->.
  exists ((b :: t') ++ pre2). rewrite app_assoc. split; [reflexivity|]. split.
  - rewrite app_length. cbn [length]. lia.
  - intros r3 k' Hk'. destruct k' as [|k']; [cbn [length] in Hk'; lia|].
    rewrite <- app_assoc. cbn [app parse_until_break]. rewrite Eb.
    change (b :: t' ++ pre2 ++ r3) with ((b :: t') ++ pre2 ++ r3). rewrite L1. cbn [bind].
    rewrite L2 by (cbn [length] in Hk'; lia). reflexivity.
Qed.

Lemma parse_pair_strong {A} (p : parser A) : pstrong p -> pstrong (parse_pair p).
Proof.
  intros Hp bs [k v] r H. unfold parse_pair in H.
  apply bind_ok in H as [[k' r1] [H1 H]]. apply bind_ok in H as [[v' r2] [H2 H]]. injection H as <- <- <-.
  apply Hp in H1 as [pre1 [-> [Hne L1]]]. apply Hp in H2 as [pre2 [-> [_ L2]]].
  exists (pre1 ++ pre2). rewrite app_assoc. split; [reflexivity|]. split; [apply app_ne_nil, Hne|].
  intros r3. unfold parse_pair. rewrite <- app_assoc, L1. cbn [bind]. rewrite L2. reflexivity.
Qed.

Lemma parse_chunk_strong m : pstrong (parse_chunk m).
Proof.
  intros bs x r H. unfold parse_chunk in H.
  destruct (decode_head bs) as [[[m' [n|]] r0]|] eqn:Hd; try discriminate.
  destruct (m' =? m) eqn:Em; [|discriminate].
  apply decode_head_strong in Hd as [b0 [t0 [-> L0]]]. apply take_bytes_strong in H as [-> L1].
  exists ((b0 :: t0) ++ x). rewrite app_assoc. split; [reflexivity|]. split; [discriminate|].
  intros r2. unfold parse_chunk. rewrite <- app_assoc, L0, Em. apply L1.
Qed.

Lemma guard_local n (k : nat) (pre r2 : bytes) : (N.to_nat n <= length pre)%nat -> (n <=? len (pre ++ r2)) = true.
Proof. intros H. unfold len. rewrite app_length. lia. Qed.

Lemma parse_body_strong p : pstrong p -> pstrong (parse_body p).
Proof.
  intros Hp bs x r H. unfold parse_body in H.
  destruct bs as [|b0 t]; [discriminate|].
  destruct (decode_head (b0 :: t)) as [[[m a] r0]|] eqn:Hd; [|discriminate].
  apply decode_head_strong in Hd as [b0' [t0 [E0 L0]]]. cbn [app] in E0. injection E0 as <- ->.
  assert (K : forall pre, r0 = pre ++ r ->
            (forall r2, parse_after p b0 m a (pre ++ r2) = Ok (x, r2)) ->
            exists pre', b0 :: t0 ++ r0 = pre' ++ r /\ pre' <> [] /\
                         forall r2, parse_body p (pre' ++ r2) = Ok (x, r2)).
  { intros pre -> L. exists ((b0 :: t0) ++ pre). rewrite <- app_assoc. split; [reflexivity|]. split; [discriminate|].
    intros r2. rewrite <- app_assoc. rewrite (parse_body_head _ _ _ _ _ (L0 (pre ++ r2))). cbn [app hd]. apply L. }
  unfold parse_after in H.
  destruct (major_of m) as [[]|] eqn:Em; destruct a as [n|]; try discriminate.
  - injection H as <- <-. apply (K []); [reflexivity|]. intros r2. unfold parse_after. rewrite Em. reflexivity.
  - injection H as <- <-. apply (K []); [reflexivity|]. intros r2. unfold parse_after. rewrite Em. reflexivity.
  - apply bind_ok in H as [[s r1] [H1 H]]. injection H as <- <-.
    apply take_bytes_strong in H1 as [-> L]. apply (K s); [reflexivity|].
    intros r2. unfold parse_after. rewrite Em, L. reflexivity.
  - apply bind_ok in H as [[s r1] [H1 H]]. injection H as <- <-.
    apply (parse_until_break_strong _ (parse_chunk_strong 2)) in H1 as [pre [-> [Hl L]]]. apply (K pre); [reflexivity|].
    intros r2. unfold parse_after. rewrite Em, L by (rewrite app_length; lia). reflexivity.
  - apply bind_ok in H as [[s r1] [H1 H]]. injection H as <- <-.
    apply take_bytes_strong in H1 as [-> L]. apply (K s); [reflexivity|].
    intros r2. unfold parse_after. rewrite Em, L. reflexivity.
  - apply bind_ok in H as [[s r1] [H1 H]]. injection H as <- <-.
    apply (parse_until_break_strong _ (parse_chunk_strong 3)) in H1 as [pre [-> [Hl L]]]. apply (K pre); [reflexivity|].
    intros r2. unfold parse_after. rewrite Em, L by (rewrite app_length; lia). reflexivity.
  - destruct (n <=? len r0); [|discriminate].
    apply bind_ok in H as [[s r1] [H1 H]]. injection H as <- <-.
    apply (parse_n_strong _ Hp) in H1 as [pre [-> [Hl L]]]. apply (K pre); [reflexivity|].
    intros r2. unfold parse_after. rewrite Em, (guard_local n O pre r2 Hl), L. reflexivity.
  - apply bind_ok in H as [[s r1] [H1 H]]. injection H as <- <-.
    apply (parse_until_break_strong _ Hp) in H1 as [pre [-> [Hl L]]]. apply (K pre); [reflexivity|].
    intros r2. unfold parse_after. rewrite Em, L by (rewrite app_length; lia). reflexivity.
  - destruct (n <=? len r0); [|discriminate].
    apply bind_ok in H as [[s r1] [H1 H]]. injection H as <- <-.
    apply (parse_n_strong _ (parse_pair_strong _ Hp)) in H1 as [pre [-> [Hl L]]]. apply (K pre); [reflexivity|].
    intros r2. unfold parse_after. rewrite Em, (guard_local n O pre r2 Hl), L. reflexivity.
  - apply bind_ok in H as [[s r1] [H1 H]]. injection H as <- <-.
    apply (parse_until_break_strong _ (parse_pair_strong _ Hp)) in H1 as [pre [-> [Hl L]]].
    apply (K pre); [reflexivity|].
    intros r2. unfold parse_after. rewrite Em, L by (rewrite app_length; lia). reflexivity.
  - apply bind_ok in H as [[s r1] [H1 H]]. injection H as <- <-.
    apply Hp in H1 as [pre [-> [_ L]]]. apply (K pre); [reflexivity|].
    intros r2. unfold parse_after. rewrite Em, L. reflexivity.
  - cbv zeta in H. apply (K []).
    + destruct (b0 mod 32 <? 24); [injection H as _ <-; reflexivity|].
      destruct (b0 mod 32 =? 24); [destruct (n <? 32); [discriminate|injection H as _ <-; reflexivity]|].
      destruct (b0 mod 32 =? 25); [injection H as _ <-; reflexivity|].
      destruct (b0 mod 32 =? 26); injection H as _ <-; reflexivity.
    + intros r2. unfold parse_after. rewrite Em. cbv zeta. cbn [app].
      destruct (b0 mod 32 <? 24); [injection H as <- _; reflexivity|].
      destruct (b0 mod 32 =? 24); [destruct (n <? 32); [discriminate|injection H as <- _; reflexivity]|].
      destruct (b0 mod 32 =? 25); [injection H as <- _; reflexivity|].
      destruct (b0 mod 32 =? 26); injection H as <- _; reflexivity.
Qed.

Theorem parse_item_strong f : pstrong (parse_item f).
Proof. induction f as [|f IH]; [discriminate|]. exact (parse_body_strong _ IH). Qed.

(* the parse of an item does not depend on the bytes after it (hence encodings are prefix-free) *)
Theorem parse_item_prefix_free f pre r1 r2 it :
  parse_item f (pre ++ r1) = Ok (it, r1) -> parse_item f (pre ++ r2) = Ok (it, r2).
Proof. apply pstrong_local, parse_item_strong. Qed.

Theorem parse_one_local pre r1 r2 it :
  parse_one (pre ++ r1) = Ok (it, r1) -> parse_one (pre ++ r2) = Ok (it, r2).
Proof.
  unfold parse_one at 1. intros H. apply (parse_item_prefix_free _ _ _ r2) in H.
  rewrite <- H. symmetry. apply parse_item_default. rewrite H. discriminate.
Qed.

Theorem skip_item_local bs pre rest : skip_item bs = Ok (pre, rest) ->
  forall rest', skip_item (pre ++ rest') = Ok (pre, rest').
Proof.
  intros H rest'. apply skip_item_parse in H as [it [H ->]]. apply skip_item_parse.
  exists it. split; [apply (parse_one_local _ _ _ _ H)|reflexivity].
Qed.

(* the slice delimited by skip_item is itself exactly one well-formed item, the same one *)
Theorem skip_item_slice bs pre rest : skip_item bs = Ok (pre, rest) ->
  exists it, parse_one bs = Ok (it, rest) /\ parse_exact pre = Ok it.
Proof.
  intros H. apply skip_item_parse in H as [it [H ->]]. exists it. split; [exact H|].
  apply parse_exact_ok. rewrite <- (app_nil_r pre). apply (parse_one_local _ _ _ _ H).
Qed.

Corollary skip_item_wf bs pre rest : skip_item bs = Ok (pre, rest) -> item_wf pre = true.
Proof. intros H. apply skip_item_slice in H as [it [_ H]]. unfold item_wf. rewrite H. reflexivity. Qed.

(* two parses of byte strings one of which is a prefix of the other agree: no well-formed item is a
   proper prefix of another *)
Corollary item_wf_prefix_free a b : item_wf a = true -> item_wf (a ++ b) = true -> b = [].
Proof.
  unfold item_wf. intros Ha Hab.
  destruct (parse_exact a) as [ia| | |] eqn:Ea; try discriminate.
  destruct (parse_exact (a ++ b)) as [iab| | |] eqn:Eab; try discriminate.
  apply parse_exact_ok in Ea, Eab. rewrite <- (app_nil_r a) in Ea.
  apply (parse_one_local _ _ b) in Ea. rewrite Ea in Eab. injection Eab as _ ->. reflexivity.
Qed.

(* ------------------------------------------------------------------ the printer emits bytes *)

Lemma bytes_okb_ok b : bytes_okb b = true -> bytes_ok b.
Proof.
  unfold bytes_okb, bytes_ok. rewrite forallb_forall, Forall_forall. intros H x Hin. apply N.ltb_lt, H, Hin.
Qed.

Lemma bytes_ok_app a b : bytes_ok a -> bytes_ok b -> bytes_ok (a ++ b).
Proof. intros Ha Hb. apply Forall_app. split; assumption. Qed.

Lemma bytes_ok_flat_map {A} (enc : A -> bytes) xs :
  (forall x, In x xs -> bytes_ok (enc x)) -> bytes_ok (flat_map enc xs).
Proof.
  induction xs as [|x xs IH]; intros H; cbn [flat_map]; [constructor|].
  apply bytes_ok_app; [apply H; left; reflexivity|apply IH; intros y Hy; apply H; right; exact Hy].
Qed.

Lemma bytes_ok_chunks m cs : m < 8 -> forallb chunk_ok cs = true -> bytes_ok (encode_chunks m cs).
Proof.
  intros Hm H. rewrite forallb_forall in H. apply bytes_ok_flat_map. intros c Hin. apply H in Hin.
  unfold chunk_ok in Hin. apply andb_true_iff in Hin as [Hb _].
  apply bytes_ok_app; [apply encode_head_bytes_ok, Hm|apply bytes_okb_ok, Hb].
Qed.

Theorem encode_item_bytes_ok : forall it, item_ok it = true -> bytes_ok (encode_item it).
Proof.
  induction it as [n|n|b|cs|b|cs|d xs IH|d kvs IH|t x IH|n|w v] using item_ind2; intros Hok;
    cbn [item_ok] in Hok; cbn [encode_item].
  - apply encode_head_bytes_ok. lia.
  - apply encode_head_bytes_ok. lia.
  - unfold chunk_ok in Hok. apply andb_true_iff in Hok as [Hb _].
    apply bytes_ok_app; [apply encode_head_bytes_ok; lia|apply bytes_okb_ok, Hb].
  - constructor; [lia|]. apply bytes_ok_app; [apply bytes_ok_chunks; [lia|exact Hok]|]. constructor; [lia|constructor].
  - unfold chunk_ok in Hok. apply andb_true_iff in Hok as [Hb _].
    apply bytes_ok_app; [apply encode_head_bytes_ok; lia|apply bytes_okb_ok, Hb].
  - constructor; [lia|]. apply bytes_ok_app; [apply bytes_ok_chunks; [lia|exact Hok]|]. constructor; [lia|constructor].
  - apply andb_true_iff in Hok as [_ Hall]. rewrite forallb_forall in Hall. rewrite Forall_forall in IH.
    assert (HB : bytes_ok (flat_map encode_item xs)).
    { apply bytes_ok_flat_map. intros x Hin. apply IH; [exact Hin|apply Hall, Hin]. }
    destruct d.
    + apply bytes_ok_app; [apply encode_head_bytes_ok; lia|exact HB].
    + constructor; [lia|]. apply bytes_ok_app; [exact HB|]. constructor; [lia|constructor].
  - apply andb_true_iff in Hok as [_ Hall]. rewrite forallb_forall in Hall. rewrite Forall_forall in IH.
    change (flat_map _ kvs) with (flat_map encode_pair kvs).
    assert (HB : bytes_ok (flat_map encode_pair kvs)).
    { apply bytes_ok_flat_map. intros [k v] Hin. specialize (Hall _ Hin). cbn beta iota in Hall.
      apply andb_true_iff in Hall as [Hk Hv]. destruct (IH _ Hin) as [IHk IHv]. cbn [fst snd] in IHk, IHv.
      unfold encode_pair. apply bytes_ok_app; [apply IHk, Hk|apply IHv, Hv]. }
    destruct d.
    + apply bytes_ok_app; [apply encode_head_bytes_ok; lia|exact HB].
    + constructor; [lia|]. apply bytes_ok_app; [exact HB|]. constructor; [lia|constructor].
  - apply andb_true_iff in Hok as [_ Hx].
    apply bytes_ok_app; [apply encode_head_bytes_ok; lia|apply IH, Hx].
  - apply encode_head_bytes_ok. lia.
  - destruct w; cbn [fwidth_bytes encode_head_w]; (constructor; [lia|apply be_bytes_ok]).
Qed.

(* ------------------------------------------------------------------ parsed items are encodable *)

Lemma bytes_ok_app_inv a b : bytes_ok (a ++ b) -> bytes_ok a /\ bytes_ok b.
Proof. intros H. apply Forall_app in H. exact H. Qed.

Lemma bytes_ok_okb b : bytes_ok b -> bytes_okb b = true.
Proof.
  unfold bytes_okb, bytes_ok. rewrite forallb_forall, Forall_forall. intros H x Hin. apply N.ltb_lt, H, Hin.
Qed.

Lemma unbe_bound l : bytes_ok l -> forall acc k, acc < 256 ^ N.of_nat k -> unbe l acc < 256 ^ N.of_nat (k + length l).
Proof.
  induction 1 as [|b t Hb _ IH]; intros acc k Hacc; cbn [unbe length].
  - rewrite Nat.add_0_r. exact Hacc.
  - replace (k + S (length t))%nat with (S k + length t)%nat by lia. apply IH.
    rewrite Nat2N.inj_succ, N.pow_succ_r'. nia.
Qed.

Definition arg_bound (ai : N) : N :=
  if ai <? 24 then 24 else if ai =? 24 then 256 else if ai =? 25 then 65536
  else if ai =? 26 then 4294967296 else two64.

Lemma arg_bound_le ai : arg_bound ai <= two64.
Proof.
  unfold arg_bound, two64. destruct (ai <? 24); [lia|]. destruct (ai =? 24); [lia|].
  destruct (ai =? 25); [lia|]. destruct (ai =? 26); lia.
Qed.

Lemma decode_head_bound b t m n r : bytes_ok (b :: t) ->
  decode_head (b :: t) = Some (m, Arg n, r) -> n < arg_bound (b mod 32).
Proof.
  intros Hok. cbn [decode_head]. unfold arg_bound.
  destruct (b mod 32 <? 24) eqn:E0; [intros H; injection H as _ <- _; lia|].
  assert (P : forall k, match split_at k t with Some (p, r') => Some (b / 32, Arg (unbe p 0), r') | None => None end
                        = Some (m, Arg n, r) -> n < 256 ^ N.of_nat k).
  { intros k. destruct (split_at k t) as [[p r']|] eqn:E; [|discriminate].
    intros H; injection H as _ <- _. apply split_at_ok in E as [-> Hl].
    inversion Hok as [|? ? _ Ht]. apply bytes_ok_app_inv in Ht as [Hp _].
    pose proof (unbe_bound p Hp 0 O ltac:(cbn; lia)) as B. rewrite Hl in B. exact B. }
  destruct (b mod 32 =? 24); [intros H; apply P in H; exact H|].
  destruct (b mod 32 =? 25); [intros H; apply P in H; exact H|].
  destruct (b mod 32 =? 26); [intros H; apply P in H; exact H|].
  destruct (b mod 32 =? 27); [intros H; apply P in H; exact H|].
  destruct (b mod 32 =? 31); discriminate.
Qed.

Lemma decode_head_rest_ok bs m a r : bytes_ok bs -> decode_head bs = Some (m, a, r) -> bytes_ok r.
Proof. intros Hok H. apply decode_head_suffix in H as [pre [-> _]]. apply bytes_ok_app_inv in Hok. tauto. Qed.

Lemma parse_n_all {A} (Q : A -> Prop) (p : parser A) : psuffix p ->
  (forall bs x r, bytes_ok bs -> p bs = Ok (x, r) -> Q x) ->
  forall k bs xs r, bytes_ok bs -> parse_n p k bs = Ok (xs, r) -> Forall Q xs.
Proof.
  intros Hp HQ. induction k as [|k IH]; intros bs xs r Hok H; cbn [parse_n] in H.
  - injection H as <- _. constructor.
  - apply bind_ok in H as [[x r1] [H1 H]]. apply bind_ok in H as [[xs' r2] [H2 H]]. injection H as <- _.
    constructor; [apply (HQ _ _ _ Hok H1)|]. apply Hp in H1 as [pre [-> _]].
    apply bytes_ok_app_inv in Hok as [_ Hok]. apply (IH _ _ _ Hok H2).
Qed.

Lemma parse_until_break_all {A} (Q : A -> Prop) (p : parser A) : psuffix p ->
  (forall bs x r, bytes_ok bs -> p bs = Ok (x, r) -> Q x) ->
  forall k bs xs r, bytes_ok bs -> parse_until_break p k bs = Ok (xs, r) -> Forall Q xs.
Proof.
  intros Hp HQ. induction k as [|k IH]; intros [|b t] xs r Hok H; cbn [parse_until_break] in H;
    try discriminate; destruct (b =? 255); try discriminate; try (injection H as <- _; constructor).
  apply bind_ok in H as [[x r1] [H1 H]]. apply bind_ok in H as [[xs' r2] [H2 H]]. injection H as <- _.
  constructor; [apply (HQ _ _ _ Hok H1)|]. apply Hp in H1 as [pre [E _]]. rewrite E in Hok.
  apply bytes_ok_app_inv in Hok as [_ Hok]. apply (IH _ _ _ Hok H2).
Qed.

Lemma take_bytes_chunk_ok n bs s r : bytes_ok bs -> n < two64 -> take_bytes n bs = Ok (s, r) -> chunk_ok s = true.
Proof.
  intros Hok Hn H. apply take_bytes_ok in H as [-> Hl]. apply bytes_ok_app_inv in Hok as [Hs _].
  unfold chunk_ok. rewrite (bytes_ok_okb _ Hs), Hl. cbn [andb]. apply N.ltb_lt, Hn.
Qed.

Lemma parse_chunk_ok m bs c r : bytes_ok bs -> parse_chunk m bs = Ok (c, r) -> chunk_ok c = true.
Proof.
  intros Hok H. unfold parse_chunk in H.
  destruct (decode_head bs) as [[[m' [n|]] r0]|] eqn:Hd; try discriminate.
  destruct (m' =? m); [|discriminate].
  pose proof (decode_head_rest_ok _ _ _ _ Hok Hd) as Hr.
  destruct bs as [|b t]; [discriminate|]. pose proof (decode_head_bound _ _ _ _ _ Hok Hd) as Hb.
  pose proof (arg_bound_le (b mod 32)). apply (take_bytes_chunk_ok n r0 c r Hr); [lia|exact H].
Qed.

Lemma Forall_forallb {A} (f : A -> bool) xs : Forall (fun x => f x = true) xs -> forallb f xs = true.
Proof. intros H. apply forallb_forall. apply Forall_forall. exact H. Qed.

Definition pok (p : parser item) : Prop :=
  forall bs x r, bytes_ok bs -> p bs = Ok (x, r) -> item_ok x = true.

Lemma parse_body_ok p : psuffix p -> pok p -> pok (parse_body p).
Proof.
  intros Hp Hq bs x r Hok H. unfold parse_body in H.
  destruct bs as [|b0 t]; [discriminate|].
  destruct (decode_head (b0 :: t)) as [[[m a] r0]|] eqn:Hd; [|discriminate].
  pose proof (decode_head_rest_ok _ _ _ _ Hok Hd) as Hr.
  assert (Hn : forall n, a = Arg n -> n < arg_bound (b0 mod 32) /\ n < two64).
  { intros n ->. pose proof (decode_head_bound _ _ _ _ _ Hok Hd). pose proof (arg_bound_le (b0 mod 32)). lia. }
  assert (Hpair : forall bs kv r, bytes_ok bs -> parse_pair p bs = Ok (kv, r) ->
                  (fun kv => match kv with (k, v) => item_ok k && item_ok v end = true) kv).
  { intros bs' [k v] r' Hok' H'. unfold parse_pair in H'.
    apply bind_ok in H' as [[k' r1] [H1 H']]. apply bind_ok in H' as [[v' r2] [H2 H']]. injection H' as <- <- _.
    rewrite (Hq _ _ _ Hok' H1). apply Hp in H1 as [pre [-> _]]. apply bytes_ok_app_inv in Hok' as [_ Hok'].
    rewrite (Hq _ _ _ Hok' H2). reflexivity. }
  unfold parse_after in H.
  destruct (major_of m) as [[]|]; destruct a as [n|]; try discriminate;
    try (destruct (Hn n eq_refl) as [Hb Hn64]).
  - injection H as <- _. cbn [item_ok]. apply N.ltb_lt, Hn64.
  - injection H as <- _. cbn [item_ok]. apply N.ltb_lt, Hn64.
  - apply bind_ok in H as [[s r1] [H1 H]]. injection H as <- _. cbn [item_ok].
    apply (take_bytes_chunk_ok _ _ _ _ Hr Hn64 H1).
  - apply bind_ok in H as [[s r1] [H1 H]]. injection H as <- _. cbn [item_ok].
    apply Forall_forallb.
    apply (parse_until_break_all _ _ (parse_chunk_suffix 2) (parse_chunk_ok 2) _ _ _ _ Hr H1).
  - apply bind_ok in H as [[s r1] [H1 H]]. injection H as <- _. cbn [item_ok].
    apply (take_bytes_chunk_ok _ _ _ _ Hr Hn64 H1).
  - apply bind_ok in H as [[s r1] [H1 H]]. injection H as <- _. cbn [item_ok].
    apply Forall_forallb.
    apply (parse_until_break_all _ _ (parse_chunk_suffix 3) (parse_chunk_ok 3) _ _ _ _ Hr H1).
  - destruct (n <=? len r0) eqn:G; [|discriminate].
    apply bind_ok in H as [[s r1] [H1 H]]. injection H as <- _. cbn [item_ok].
    apply andb_true_iff. split.
    + apply (parse_n_suffix _ Hp) in H1 as [_ [_ [Hl _]]]. unfold len. rewrite Hl, N2Nat.id. apply N.ltb_lt, Hn64.
    + apply Forall_forallb. apply (parse_n_all _ _ Hp Hq _ _ _ _ Hr H1).
  - apply bind_ok in H as [[s r1] [H1 H]]. injection H as <- _. cbn [item_ok andb].
    apply Forall_forallb. apply (parse_until_break_all _ _ Hp Hq _ _ _ _ Hr H1).
  - destruct (n <=? len r0) eqn:G; [|discriminate].
    apply bind_ok in H as [[s r1] [H1 H]]. injection H as <- _. cbn [item_ok].
    apply andb_true_iff. split.
    + apply (parse_n_suffix _ (parse_pair_suffix _ Hp)) in H1 as [_ [_ [Hl _]]].
      unfold len. rewrite Hl, N2Nat.id. apply N.ltb_lt, Hn64.
    + apply Forall_forallb. apply (parse_n_all _ _ (parse_pair_suffix _ Hp) Hpair _ _ _ _ Hr H1).
  - apply bind_ok in H as [[s r1] [H1 H]]. injection H as <- _. cbn [item_ok andb].
    apply Forall_forallb. apply (parse_until_break_all _ _ (parse_pair_suffix _ Hp) Hpair _ _ _ _ Hr H1).
  - apply bind_ok in H as [[s r1] [H1 H]]. injection H as <- _. cbn [item_ok].
    rewrite (Hq _ _ _ Hr H1). apply andb_true_iff. split; [apply N.ltb_lt, Hn64|reflexivity].
  - cbv zeta in H. unfold arg_bound in Hb.
    destruct (b0 mod 32 <? 24); [injection H as <- _; cbn [item_ok]; lia|].
    destruct (b0 mod 32 =? 24).
    { destruct (n <? 32) eqn:E3; [discriminate|]. injection H as <- _; cbn [item_ok]; lia. }
    destruct (b0 mod 32 =? 25); [injection H as <- _; cbn [item_ok]; lia|].
    destruct (b0 mod 32 =? 26); injection H as <- _; cbn [item_ok]; lia.
Qed.

(* every item parsed from a string of bytes is encodable; with parse_item_encode: parsing the
   shortest-head re-encoding of a parsed item gives the same item back *)
Theorem parse_item_ok f bs it rest : bytes_ok bs -> parse_item f bs = Ok (it, rest) -> item_ok it = true.
Proof.
  revert bs it rest. induction f as [|f IH]; [discriminate|].
  exact (parse_body_ok _ (parse_item_suffix f) IH).
Qed.

Corollary parse_exact_item_ok bs it : bytes_ok bs -> parse_exact bs = Ok it -> item_ok it = true.
Proof. intros Hok H. apply parse_exact_ok in H. apply (parse_item_ok _ _ _ _ Hok H). Qed.

Corollary parse_exact_reencode bs it : bytes_ok bs -> parse_exact bs = Ok it ->
  parse_exact (encode_item it) = Ok it.
Proof. intros Hok H. apply parse_exact_encode, (parse_exact_item_ok _ _ Hok H). Qed.

(* ------------------------------------------------------------------ smoke tests *)

(* indefinite array [1, [2, 3]] : 9f 01 82 02 03 ff *)
Example ex_indef_array :
  parse_one [159; 1; 130; 2; 3; 255] = Ok (IArray false [IUint 1; IArray true [IUint 2; IUint 3]], []).
Proof. vm_compute. reflexivity. Qed.

(* chunked byte string 5f 42 01 02 41 03 ff followed by one more byte *)
Example ex_chunked_bytes :
  parse_one [95; 66; 1; 2; 65; 3; 255; 7] = Ok (IBytesChunked [[1; 2]; [3]], [7]).
Proof. vm_compute. reflexivity. Qed.

Example ex_skip_chunked :
  skip_item [95; 66; 1; 2; 65; 3; 255; 7] = Ok ([95; 66; 1; 2; 65; 3; 255], [7]).
Proof. vm_compute. reflexivity. Qed.

(* tag 258 set: d9 01 02 81 01 *)
Example ex_tag_258 : parse_exact [217; 1; 2; 129; 1] = Ok (ITag 258 (IArray true [IUint 1])).
Proof. vm_compute. reflexivity. Qed.

(* nested map {1: {2: 3}, 4: []} *)
Example ex_nested_map :
  parse_exact [162; 1; 161; 2; 3; 4; 128] =
  Ok (IMap true [(IUint 1, IMap true [(IUint 2, IUint 3)]); (IUint 4, IArray true [])]).
Proof. vm_compute. reflexivity. Qed.

Example ex_lookup :
  match parse_exact [162; 1; 161; 2; 3; 4; 128] with
  | Ok m => map_lookup_uint 4 m = Some (IArray true []) /\ uint_keys m = Some [1; 4]
  | _ => False
  end.
Proof. vm_compute. split; reflexivity. Qed.

(* ill-formed inputs: truncated map, lone break, break in value position, indefinite chunk inside a chunked
   string, text chunk inside a chunked byte string, reserved additional info, f8 with a value < 32,
   2^64-1 element array with one byte left, empty input *)
Example ex_ill_formed :
  map item_wf [[162; 1; 161; 2; 3; 4]; [255]; [191; 1; 255]; [95; 95; 255; 255]; [95; 97; 65; 255];
               [28]; [29]; [30]; [248; 31]; [155; 255; 255; 255; 255; 255; 255; 255; 255; 1]; []; [25; 1];
               [159; 1]; [130; 1]; [192]]
  = repeat false 15.
Proof. vm_compute. reflexivity. Qed.

Example ex_err_not_oof : parse_one [162; 1; 161; 2; 3; 4] = Err.
Proof. vm_compute. reflexivity. Qed.

(* well-formed but not shortest / not definite *)
Example ex_canon :
  (heads_shortest [24; 1], heads_shortest [24; 24], item_wf [24; 1],
   canon_bytes false false [159; 1; 255], canon_bytes true false [159; 1; 255],
   canon_bytes true false [95; 65; 1; 255], canon_bytes true true [95; 65; 1; 255],
   canon_bytes true true [191; 1; 2; 255], canon_bytes3 false true false [191; 1; 2; 255])
  = (false, true, true, false, true, false, true, false, true).
Proof. vm_compute. reflexivity. Qed.

(* floats, simple values, negative integers, nesting budget *)
Example ex_misc :
  parse_exact [249; 60; 0] = Ok (IFloat F16 15360) /\ parse_exact [246] = Ok (ISimple 22) /\
  parse_exact [248; 32] = Ok (ISimple 32) /\ parse_exact [56; 99] = Ok (INint 99) /\
  as_int (INint 99) = Some (-100)%Z /\
  parse_item 2 [129; 129; 129; 1] = OutOfFuel /\
  parse_item 4 [129; 129; 129; 1] = Ok (IArray true [IArray true [IArray true [IUint 1]]], []).
Proof. vm_compute. repeat split; reflexivity. Qed.

(* non-vacuity of the round-trip premises on a value using every constructor *)
Definition ex_item : item :=
  ITag 258 (IArray false
    [IMap true [(IUint 1, INint 70000); (IText [97; 98], IBytesChunked [[1; 2]; []; [255]])];
     IMap false [(IBytes [0; 255], ITextChunked [[104]; [105]])];
     ISimple 20; ISimple 255; IFloat F16 15360; IFloat F32 1065353216; IFloat F64 4607182418800017408;
     IUint 18446744073709551615; IArray true []]).
Example ex_item_ok : item_ok ex_item = true /\ canon_item true true ex_item = false /\
  parse_exact (encode_item ex_item) = Ok ex_item /\ heads_shortest (encode_item ex_item) = true /\
  skip_item (encode_item ex_item ++ [1; 2; 3]) = Ok (encode_item ex_item, [1; 2; 3]).
Proof. vm_compute. repeat split; reflexivity. Qed.

Print Assumptions parse_item_suffix.
Print Assumptions skip_item_exact.
Print Assumptions parse_item_no_panic.
Print Assumptions parse_item_fuel_mono.
Print Assumptions parse_item_fuel_enough.
Print Assumptions parse_item_encode.
Print Assumptions parse_item_prefix_free.
Print Assumptions skip_item_slice.
Print Assumptions canon_bytes3_encode.
Print Assumptions encode_item_bytes_ok.
Print Assumptions parse_item_ok.
