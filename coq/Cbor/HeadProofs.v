From CSL Require Import Base.Prelude Cbor.Head.
Local Open Scope N_scope.

Lemma be_length k n : length (be k n) = k.
Proof. revert n; induction k as [|k IH]; intros n; cbn [be]; [reflexivity|]. rewrite app_length, IH. cbn. lia. Qed.

Lemma unbe_app l1 l2 acc : unbe (l1 ++ l2) acc = unbe l2 (unbe l1 acc).
Proof. revert acc; induction l1 as [|b t IH]; intros acc; cbn [unbe app]; [reflexivity|apply IH]. Qed.

Lemma unbe_be k : forall n acc, n < 256 ^ N.of_nat k -> unbe (be k n) acc = acc * 256 ^ N.of_nat k + n.
Proof.
  induction k as [|k IH]; intros n acc Hn.
  - cbn [be unbe]. change (N.of_nat 0) with 0 in *. rewrite N.pow_0_r in *. lia.
  - cbn [be]. rewrite unbe_app. cbn [unbe].
    rewrite Nat2N.inj_succ, N.pow_succ_r' in *.
    rewrite IH by (apply N.div_lt_upper_bound; lia).
    pose proof (N.div_mod n 256 ltac:(lia)). nia.
Qed.

Lemma be_bytes_ok k n : bytes_ok (be k n).
Proof.
  revert n; induction k as [|k IH]; intros n; cbn [be]; [constructor|].
  apply Forall_app; split; [apply IH|]. constructor; [|constructor]. apply N.mod_lt. lia.
Qed.

Lemma head_length m n : N.of_nat (length (encode_head m n)) = head_size n.
Proof.
  unfold encode_head, head_size.
  destruct (n <? 24); [reflexivity|]. destruct (n <? 256); [reflexivity|].
  destruct (n <? 65536); [reflexivity|]. destruct (n <? 4294967296); reflexivity.
Qed.

Lemma head_size_mono a b : a <= b -> head_size a <= head_size b.
Proof.
  intros H. unfold head_size.
  destruct (a <? 24) eqn:A1, (b <? 24) eqn:B1; try lia;
  destruct (a <? 256) eqn:A2, (b <? 256) eqn:B2; try lia;
  destruct (a <? 65536) eqn:A3, (b <? 65536) eqn:B3; try lia;
  destruct (a <? 4294967296) eqn:A4, (b <? 4294967296) eqn:B4; try lia.
Qed.

Lemma head_size_bounds n : 1 <= head_size n <= 9.
Proof.
  unfold head_size. destruct (n <? 24); [lia|]. destruct (n <? 256); [lia|].
  destruct (n <? 65536); [lia|]. destruct (n <? 4294967296); lia.
Qed.

Lemma split_at_app k p r : length p = k -> split_at k (p ++ r) = Some (p, r).
Proof.
  intros H. unfold split_at. rewrite app_length.
  destruct (k <=? length p + length r)%nat eqn:E; [|lia].
  subst k. rewrite firstn_app, skipn_app, Nat.sub_diag, firstn_all, skipn_all. cbn. rewrite app_nil_r. reflexivity.
Qed.

Lemma initial_byte m c : c < 32 -> (m * 32 + c) / 32 = m /\ (m * 32 + c) mod 32 = c.
Proof. intros H. split; [symmetry; apply N.div_unique with c; lia | symmetry; apply N.mod_unique with m; lia]. Qed.

(* Round trip of the shortest head, for every major type and every 64-bit argument *)
Theorem decode_encode_head m n rest : n < two64 ->
  decode_head (encode_head m n ++ rest) = Some (m, Arg n, rest).
Proof.
  unfold two64. intros Hn. unfold encode_head.
  destruct (n <? 24) eqn:E1.
  { cbn [app decode_head]. destruct (initial_byte m n ltac:(lia)) as [-> ->]. rewrite E1. reflexivity. }
  destruct (n <? 256) eqn:E2.
  { cbn [app decode_head]. destruct (initial_byte m 24 ltac:(lia)) as [-> ->].
    change (24 <? 24) with false. change (24 =? 24) with true. cbv iota.
    rewrite split_at_app by apply be_length. rewrite unbe_be by (cbn; lia). do 3 f_equal. }
  destruct (n <? 65536) eqn:E3.
  { cbn [app decode_head]. destruct (initial_byte m 25 ltac:(lia)) as [-> ->].
    change (25 <? 24) with false. change (25 =? 24) with false. change (25 =? 25) with true. cbv iota.
    rewrite split_at_app by apply be_length. rewrite unbe_be by (cbn; lia). do 3 f_equal. }
  destruct (n <? 4294967296) eqn:E4.
  { cbn [app decode_head]. destruct (initial_byte m 26 ltac:(lia)) as [-> ->].
    change (26 <? 24) with false. change (26 =? 24) with false. change (26 =? 25) with false.
    change (26 =? 26) with true. cbv iota.
    rewrite split_at_app by apply be_length. rewrite unbe_be by (cbn; lia). do 3 f_equal. }
  cbn [app decode_head]. destruct (initial_byte m 27 ltac:(lia)) as [-> ->].
  change (27 <? 24) with false. change (27 =? 24) with false. change (27 =? 25) with false.
  change (27 =? 26) with false. change (27 =? 27) with true. cbv iota.
  rewrite split_at_app by apply be_length. rewrite unbe_be by (cbn; lia). do 3 f_equal.
Qed.

(* every parser built on decode_head consumes at least one byte *)
Lemma split_at_length k l p r : split_at k l = Some (p, r) -> (length l = k + length r)%nat.
Proof.
  unfold split_at. destruct (k <=? length l)%nat eqn:E; [|discriminate].
  intros H; injection H as <- <-. rewrite skipn_length. lia.
Qed.

Lemma decode_head_shorter bs m a r : decode_head bs = Some (m, a, r) -> (length r < length bs)%nat.
Proof.
  destruct bs as [|b t]; [discriminate|]. cbn [decode_head length].
  destruct (b mod 32 <? 24); [intros H; injection H as _ _ <-; lia|].
  assert (P : forall k, match split_at k t with Some (p, r') => Some (b / 32, Arg (unbe p 0), r') | None => None end
                        = Some (m, a, r) -> (length r < S (length t))%nat).
  { intros k. destruct (split_at k t) as [[p r']|] eqn:E; [|discriminate].
    intros H; injection H as _ _ <-. apply split_at_length in E. lia. }
  destruct (b mod 32 =? 24); [apply P|]. destruct (b mod 32 =? 25); [apply P|].
  destruct (b mod 32 =? 26); [apply P|]. destruct (b mod 32 =? 27); [apply P|].
  destruct (b mod 32 =? 31); [intros H; injection H as _ _ <-; lia | discriminate].
Qed.

(* decode_head returns a suffix of its input *)
Lemma decode_head_suffix bs m a r : decode_head bs = Some (m, a, r) -> exists pre, bs = pre ++ r /\ pre <> [].
Proof.
  destruct bs as [|b t]; [discriminate|]. cbn [decode_head].
  destruct (b mod 32 <? 24); [intros H; injection H as _ _ <-; exists [b]; split; [reflexivity|discriminate]|].
  assert (P : forall k, match split_at k t with Some (p, r') => Some (b / 32, Arg (unbe p 0), r') | None => None end
                        = Some (m, a, r) -> exists pre, b :: t = pre ++ r /\ pre <> []).
  { intros k. unfold split_at. destruct (k <=? length t)%nat; [|discriminate].
    intros H; injection H as _ _ <-. exists (b :: firstn k t). split; [|discriminate].
    cbn. rewrite firstn_skipn. reflexivity. }
  destruct (b mod 32 =? 24); [apply P|]. destruct (b mod 32 =? 25); [apply P|].
  destruct (b mod 32 =? 26); [apply P|]. destruct (b mod 32 =? 27); [apply P|].
  destruct (b mod 32 =? 31); [intros H; injection H as _ _ <-; exists [b]; split; [reflexivity|discriminate] | discriminate].
Qed.

Lemma encode_head_bytes_ok m n : m < 8 -> bytes_ok (encode_head m n).
Proof.
  intros Hm. unfold encode_head.
  destruct (n <? 24) eqn:E1; [constructor; [lia|constructor]|].
  destruct (n <? 256); [constructor; [lia|apply be_bytes_ok]|].
  destruct (n <? 65536); [constructor; [lia|apply be_bytes_ok]|].
  destruct (n <? 4294967296); constructor; try lia; apply be_bytes_ok.
Qed.
