(* Generic CBOR data items (RFC 8949): abstract syntax, an independent well-formedness parser and
   the shortest-head printer.  Definitions only (executable, extractable); proofs are in
   Cbor/ItemProofs.v.  Shares only [decode_head]/[encode_head]/[be]/[split_at] with Cbor/Head.v.

   ===================================================================== API =====
   Types
     fwidth := F16 | F32 | F64
     item   := IUint n | INint n (value -1-n) | IBytes b | IBytesChunked chunks
             | IText b | ITextChunked chunks            (text = raw UTF-8 bytes, validity NOT checked)
             | IArray definite xs | IMap definite kvs | ITag t x
             | ISimple n   (false=20 true=21 null=22 undefined=23; 0..23 and 32..255 only)
             | IFloat w bits (raw IEEE bit pattern, never interpreted)
     parser A := bytes -> result (A * bytes)
   Parsing (accepts exactly the well-formed encodings of RFC 8949 section 3 / appendix C: every head
   width incl. non-minimal ones, indefinite arrays/maps/strings closed by 0xff, chunks = definite
   strings of the same major type; Err on truncation, additional info 28..30, break outside an
   indefinite container or in the value position of a map, indefinite/foreign chunk inside a chunked
   string, 0xf8 followed by a byte < 32, a "byte" > 255 as initial byte; OutOfFuel only when the nesting depth
   exceeds the fuel; never Panic)
     parse_item    : nat (*fuel = nesting budget*) -> bytes -> result (item * bytes (*rest*))
     default_fuel  : bytes -> nat                       := S (length bs)   (always enough)
     parse_one     : bytes -> result (item * bytes)     := parse_item (default_fuel bs) bs
     parse_exact   : bytes -> result item               (one item, nothing left over)
     item_wf       : bytes -> bool                      (parse_exact succeeds)
     skip_item     : bytes -> result (bytes * bytes)    (consumed prefix, rest): the delimiter
     parse_seq     : bytes -> result (list item)        (a CBOR sequence: items until the end)
     building blocks: take_bytes, parse_n, parse_until_break, parse_pair, parse_chunk,
       parse_after, parse_body (parse_item (S f) = parse_body (parse_item f))
   Printing (shortest heads; definite/indefinite and chunking exactly as recorded in the item)
     encode_item   : item -> bytes
     encode_items  : list item -> bytes ;  encode_pairs : list (item*item) -> bytes
     encode_chunks : N (*major*) -> list bytes -> bytes
     item_ok       : item -> bool   (recorded shape is encodable: byte values < 256, arguments and
                                     lengths < 2^64, simple value in 0..23/32..255, float bits fit)
   Canonical form
     canon_item3 (indef_arr indef_map chunked : bool) : item -> bool  (where indefinite is tolerated)
     canon_item  (allow_indef_lists allow_chunked : bool) : item -> bool   (maps always definite)
     canonical_item : item -> bool                      := canon_item false false
     heads_shortest : bytes -> bool   (well-formed and every head uses the shortest width:
                                       the bytes equal the shortest-head re-encoding of their parse)
     canon_bytes (allow_indef_lists allow_chunked : bool) : bytes -> bool
     canon_bytes3 (indef_arr indef_map chunked : bool) : bytes -> bool
   Helpers
     len, bytes_eqb, bytes_okb, list_eqb, item_eqb
     item_major : item -> N ; item_size : item -> N (encoded length) ; item_nodes, item_depth : item -> nat
     is_uint is_nint is_int is_bytes is_text is_array is_map is_tag is_simple is_float is_null : item -> bool
     as_uint : item -> option N ; as_int : item -> option Z ; as_bytes as_text : item -> option bytes
     (chunks concatenated) ; as_array : item -> option (list item) ; as_map : item -> option (list (item*item)) ;
     as_tag : item -> option (N*item) ; untag : N -> item -> option item ; strip_tags : item -> item
     map_keys map_vals : item -> list item ; map_lookup : item(*key*) -> item -> option item ;
     map_lookup_uint : N -> item -> option item ; uint_keys : item -> option (list N) ; array_nth
   ============================================================================== *)
From CSL Require Import Base.Prelude Cbor.Head.
Local Open Scope N_scope.

Inductive fwidth := F16 | F32 | F64.

Inductive item :=
| IUint (n : N)
| INint (n : N)                          (* the integer -1-n *)
| IBytes (b : bytes)                     (* definite-length byte string *)
| IBytesChunked (chunks : list bytes)    (* 0x5f chunk* 0xff, every chunk a definite byte string *)
| IText (b : bytes)
| ITextChunked (chunks : list bytes)
| IArray (definite : bool) (xs : list item)
| IMap (definite : bool) (kvs : list (item * item))
| ITag (t : N) (x : item)
| ISimple (n : N)
| IFloat (w : fwidth) (bits : N).

Definition parser (A : Type) := bytes -> result (A * bytes).

Definition len {A} (l : list A) : N := N.of_nat (length l).

Definition fwidth_bytes (w : fwidth) : nat :=
  match w with F16 => 2%nat | F32 => 4%nat | F64 => 8%nat end.

Inductive major := MUint | MNint | MBytes | MText | MArray | MMap | MTag | MSimple.
Definition major_of (m : N) : option major :=
  match m with
  | 0 => Some MUint | 1 => Some MNint | 2 => Some MBytes | 3 => Some MText
  | 4 => Some MArray | 5 => Some MMap | 6 => Some MTag | 7 => Some MSimple
  | _ => None
  end.

(* ---------------------------------------------------------------- parsing *)

(* exactly n payload bytes; the comparison is done in N first so that a 2^64 length never becomes a nat *)
Definition take_bytes (n : N) : parser bytes := fun bs =>
  if n <=? len bs then Ok (firstn (N.to_nat n) bs, skipn (N.to_nat n) bs) else Err.

Fixpoint parse_n {A} (p : parser A) (k : nat) (bs : bytes) : result (list A * bytes) :=
  match k with
  | O => Ok ([], bs)
  | S k' =>
    let* '(x, r) := p bs in
    let* '(xs, r') := parse_n p k' r in
    Ok (x :: xs, r')
  end.

(* elements until the break byte 0xff.  [k] bounds the number of elements; callers pass
   [length bs], which is always enough because every element consumes at least one byte. *)
Fixpoint parse_until_break {A} (p : parser A) (k : nat) (bs : bytes) : result (list A * bytes) :=
  match bs with
  | [] => Err
  | b :: t =>
    if b =? 255 then Ok ([], t)
    else
      match k with
      | O => OutOfFuel
      | S k' =>
        let* '(x, r) := p bs in
        let* '(xs, r') := parse_until_break p k' r in
        Ok (x :: xs, r')
      end
  end.

Definition parse_pair {A} (p : parser A) : parser (A * A) := fun bs =>
  let* '(k, r) := p bs in
  let* '(v, r') := p r in
  Ok ((k, v), r').

(* one chunk of a chunked string of major type m: a definite-length string of the same major type *)
Definition parse_chunk (m : N) : parser bytes := fun bs =>
  match decode_head bs with
  | Some (m', Arg n, r) => if m' =? m then take_bytes n r else Err
  | _ => Err
  end.

(* what follows a decoded head: b0 = initial byte, m = major type, a = argument, r = bytes after the head;
   [p] parses nested items (one nesting level deeper) *)
Definition parse_after (p : parser item) (b0 m : N) (a : harg) (r : bytes) : result (item * bytes) :=
  match major_of m, a with
  | Some MUint, Arg n => Ok (IUint n, r)
  | Some MNint, Arg n => Ok (INint n, r)
  | Some MBytes, Arg n => let* '(s, r') := take_bytes n r in Ok (IBytes s, r')
  | Some MBytes, Indef =>
      let* '(cs, r') := parse_until_break (parse_chunk 2) (length r) r in Ok (IBytesChunked cs, r')
  | Some MText, Arg n => let* '(s, r') := take_bytes n r in Ok (IText s, r')
  | Some MText, Indef =>
      let* '(cs, r') := parse_until_break (parse_chunk 3) (length r) r in Ok (ITextChunked cs, r')
  | Some MArray, Arg n =>
      (* every element takes at least one byte: a count above the remaining length is a truncation
         (and is rejected before the count is turned into a nat) *)
      if n <=? len r then
        let* '(xs, r') := parse_n p (N.to_nat n) r in Ok (IArray true xs, r')
      else Err
  | Some MArray, Indef =>
      let* '(xs, r') := parse_until_break p (length r) r in Ok (IArray false xs, r')
  | Some MMap, Arg n =>
      if n <=? len r then
        let* '(kvs, r') := parse_n (parse_pair p) (N.to_nat n) r in Ok (IMap true kvs, r')
      else Err
  | Some MMap, Indef =>
      let* '(kvs, r') := parse_until_break (parse_pair p) (length r) r in Ok (IMap false kvs, r')
  | Some MTag, Arg t => let* '(x, r') := p r in Ok (ITag t x, r')
  | Some MSimple, Arg n =>
      let ai := b0 mod 32 in
      if ai <? 24 then Ok (ISimple n, r)
      else if ai =? 24 then (if n <? 32 then Err else Ok (ISimple n, r))
      else if ai =? 25 then Ok (IFloat F16 n, r)
      else if ai =? 26 then Ok (IFloat F32 n, r)
      else Ok (IFloat F64 n, r)
  | _, _ => Err     (* indefinite marker on major 0,1,6; break (0xff) where an item is expected; major > 7 *)
  end.

(* one item, nested items parsed by [p] *)
Definition parse_body (p : parser item) : parser item := fun bs =>
  match bs with
  | [] => Err
  | b0 :: _ =>
    match decode_head bs with
    | None => Err
    | Some (m, a, r) => parse_after p b0 m a r
    end
  end.

Fixpoint parse_item (fuel : nat) : parser item :=
  match fuel with
  | O => fun _ => OutOfFuel
  | S f => parse_body (parse_item f)
  end.

Definition default_fuel (bs : bytes) : nat := S (length bs).

Definition parse_one : parser item := fun bs => parse_item (default_fuel bs) bs.

Definition parse_exact (bs : bytes) : result item :=
  match parse_one bs with
  | Ok (it, []) => Ok it
  | Ok (_, _ :: _) => Err
  | Err => Err | Panic => Panic | OutOfFuel => OutOfFuel
  end.

Definition item_wf (bs : bytes) : bool := is_ok (parse_exact bs).

(* the delimiter: the exact prefix occupied by the first data item, and what follows it *)
Definition skip_item (bs : bytes) : result (bytes * bytes) :=
  let* '(_, r) := parse_one bs in
  Ok (firstn (length bs - length r) bs, r).

(* a CBOR sequence (RFC 8742): items until the input is exhausted *)
Fixpoint parse_seq_aux (k : nat) (bs : bytes) : result (list item) :=
  match bs with
  | [] => Ok []
  | _ :: _ =>
    match k with
    | O => OutOfFuel
    | S k' =>
      let* '(x, r) := parse_one bs in
      let* xs := parse_seq_aux k' r in
      Ok (x :: xs)
    end
  end.
Definition parse_seq (bs : bytes) : result (list item) := parse_seq_aux (length bs) bs.

(* ---------------------------------------------------------------- printing *)

Definition encode_chunks (m : N) (cs : list bytes) : bytes :=
  flat_map (fun c => encode_head m (len c) ++ c) cs.

Fixpoint encode_item (it : item) : bytes :=
  match it with
  | IUint n => encode_head 0 n
  | INint n => encode_head 1 n
  | IBytes b => encode_head 2 (len b) ++ b
  | IBytesChunked cs => 95 :: encode_chunks 2 cs ++ [255]
  | IText b => encode_head 3 (len b) ++ b
  | ITextChunked cs => 127 :: encode_chunks 3 cs ++ [255]
  | IArray true xs => encode_head 4 (len xs) ++ flat_map encode_item xs
  | IArray false xs => 159 :: flat_map encode_item xs ++ [255]
  | IMap true kvs =>
      encode_head 5 (len kvs) ++ flat_map (fun kv => match kv with (k, v) => encode_item k ++ encode_item v end) kvs
  | IMap false kvs =>
      191 :: flat_map (fun kv => match kv with (k, v) => encode_item k ++ encode_item v end) kvs ++ [255]
  | ITag t x => encode_head 6 t ++ encode_item x
  | ISimple n => encode_head 7 n
  | IFloat w v => encode_head_w 7 v (fwidth_bytes w)
  end.

Definition encode_items (xs : list item) : bytes := flat_map encode_item xs.
Definition encode_pair (kv : item * item) : bytes :=
  match kv with (k, v) => encode_item k ++ encode_item v end.
Definition encode_pairs (kvs : list (item * item)) : bytes := flat_map encode_pair kvs.

Definition bytes_okb (bs : bytes) : bool := forallb (fun b => b <? 256) bs.
Definition chunk_ok (c : bytes) : bool := bytes_okb c && (len c <? two64).

Fixpoint item_ok (it : item) : bool :=
  match it with
  | IUint n | INint n => n <? two64
  | IBytes b | IText b => chunk_ok b
  | IBytesChunked cs | ITextChunked cs => forallb chunk_ok cs
  | IArray _ xs => (len xs <? two64) && forallb item_ok xs
  | IMap _ kvs =>
      (len kvs <? two64) && forallb (fun kv => match kv with (k, v) => item_ok k && item_ok v end) kvs
  | ITag t x => (t <? two64) && item_ok x
  | ISimple n => (n <? 24) || ((32 <=? n) && (n <? 256))
  | IFloat F16 v => v <? 65536
  | IFloat F32 v => v <? 4294967296
  | IFloat F64 v => v <? two64
  end.

(* ---------------------------------------------------------------- canonical form *)

Fixpoint canon_item3 (indef_arr indef_map chunked : bool) (it : item) : bool :=
  match it with
  | IBytesChunked _ | ITextChunked _ => chunked
  | IArray d xs => (d || indef_arr) && forallb (canon_item3 indef_arr indef_map chunked) xs
  | IMap d kvs =>
      (d || indef_map) &&
      forallb (fun kv => match kv with (k, v) =>
                 canon_item3 indef_arr indef_map chunked k && canon_item3 indef_arr indef_map chunked v end) kvs
  | ITag _ x => canon_item3 indef_arr indef_map chunked x
  | _ => true
  end.

Definition canon_item (allow_indef_lists allow_chunked : bool) : item -> bool :=
  canon_item3 allow_indef_lists false allow_chunked.
Definition canonical_item : item -> bool := canon_item false false.

Definition list_eqb {A} (eqb : A -> A -> bool) : list A -> list A -> bool :=
  fix go (l1 l2 : list A) : bool :=
    match l1, l2 with
    | [], [] => true
    | x :: t1, y :: t2 => eqb x y && go t1 t2
    | _, _ => false
    end.
Definition bytes_eqb : bytes -> bytes -> bool := list_eqb N.eqb.

Definition heads_shortest (bs : bytes) : bool :=
  match parse_exact bs with
  | Ok it => bytes_eqb (encode_item it) bs
  | _ => false
  end.

Definition canon_bytes3 (indef_arr indef_map chunked : bool) (bs : bytes) : bool :=
  match parse_exact bs with
  | Ok it => canon_item3 indef_arr indef_map chunked it && bytes_eqb (encode_item it) bs
  | _ => false
  end.
Definition canon_bytes (allow_indef_lists allow_chunked : bool) : bytes -> bool :=
  canon_bytes3 allow_indef_lists false allow_chunked.

(* ---------------------------------------------------------------- helpers *)

Definition fwidth_eqb (a b : fwidth) : bool :=
  match a, b with F16, F16 | F32, F32 | F64, F64 => true | _, _ => false end.

Fixpoint item_eqb (a b : item) {struct a} : bool :=
  match a, b with
  | IUint x, IUint y => x =? y
  | INint x, INint y => x =? y
  | IBytes x, IBytes y => bytes_eqb x y
  | IBytesChunked x, IBytesChunked y => list_eqb bytes_eqb x y
  | IText x, IText y => bytes_eqb x y
  | ITextChunked x, ITextChunked y => list_eqb bytes_eqb x y
  | IArray d xs, IArray e ys => Bool.eqb d e && list_eqb item_eqb xs ys
  | IMap d xs, IMap e ys =>
      Bool.eqb d e &&
      list_eqb (fun p q => match p, q with (k1, v1), (k2, v2) => item_eqb k1 k2 && item_eqb v1 v2 end) xs ys
  | ITag t x, ITag u y => (t =? u) && item_eqb x y
  | ISimple x, ISimple y => x =? y
  | IFloat w x, IFloat v y => fwidth_eqb w v && (x =? y)
  | _, _ => false
  end.

Definition item_major (it : item) : N :=
  match it with
  | IUint _ => 0 | INint _ => 1 | IBytes _ | IBytesChunked _ => 2 | IText _ | ITextChunked _ => 3
  | IArray _ _ => 4 | IMap _ _ => 5 | ITag _ _ => 6 | ISimple _ | IFloat _ _ => 7
  end.

Definition item_size (it : item) : N := len (encode_item it).

Fixpoint item_nodes (it : item) : nat :=
  match it with
  | IArray _ xs => S (fold_right (fun x acc => item_nodes x + acc)%nat O xs)
  | IMap _ kvs =>
      S (fold_right (fun kv acc => match kv with (k, v) => item_nodes k + item_nodes v + acc end)%nat O kvs)
  | ITag _ x => S (item_nodes x)
  | _ => 1%nat
  end.

Fixpoint item_depth (it : item) : nat :=
  match it with
  | IArray _ xs => S (fold_right (fun x acc => Nat.max (item_depth x) acc) O xs)
  | IMap _ kvs =>
      S (fold_right (fun kv acc => match kv with (k, v) => Nat.max (Nat.max (item_depth k) (item_depth v)) acc end) O kvs)
  | ITag _ x => S (item_depth x)
  | _ => 1%nat
  end.

Definition is_uint it := match it with IUint _ => true | _ => false end.
Definition is_nint it := match it with INint _ => true | _ => false end.
Definition is_int it := match it with IUint _ | INint _ => true | _ => false end.
Definition is_bytes it := match it with IBytes _ | IBytesChunked _ => true | _ => false end.
Definition is_text it := match it with IText _ | ITextChunked _ => true | _ => false end.
Definition is_array it := match it with IArray _ _ => true | _ => false end.
Definition is_map it := match it with IMap _ _ => true | _ => false end.
Definition is_tag it := match it with ITag _ _ => true | _ => false end.
Definition is_simple it := match it with ISimple _ => true | _ => false end.
Definition is_float it := match it with IFloat _ _ => true | _ => false end.
Definition is_null it := match it with ISimple 22 => true | _ => false end.

Definition as_uint it : option N := match it with IUint n => Some n | _ => None end.
Definition as_int it : option Z :=
  match it with IUint n => Some (Z.of_N n) | INint n => Some (- 1 - Z.of_N n)%Z | _ => None end.
Definition as_bytes it : option bytes :=
  match it with IBytes b => Some b | IBytesChunked cs => Some (concat cs) | _ => None end.
Definition as_text it : option bytes :=
  match it with IText b => Some b | ITextChunked cs => Some (concat cs) | _ => None end.
Definition as_array it : option (list item) := match it with IArray _ xs => Some xs | _ => None end.
Definition as_map it : option (list (item * item)) := match it with IMap _ kvs => Some kvs | _ => None end.
Definition as_tag it : option (N * item) := match it with ITag t x => Some (t, x) | _ => None end.
Definition untag (t : N) it : option item :=
  match it with ITag u x => if u =? t then Some x else None | _ => None end.
Fixpoint strip_tags it : item := match it with ITag _ x => strip_tags x | _ => it end.

Definition map_keys it : list item := match it with IMap _ kvs => map fst kvs | _ => [] end.
Definition map_vals it : list item := match it with IMap _ kvs => map snd kvs | _ => [] end.

Fixpoint assoc_item (k : item) (kvs : list (item * item)) : option item :=
  match kvs with
  | [] => None
  | (k', v) :: t => if item_eqb k k' then Some v else assoc_item k t
  end.
(* first entry with that key *)
Definition map_lookup (k : item) it : option item :=
  match it with IMap _ kvs => assoc_item k kvs | _ => None end.
Definition map_lookup_uint (k : N) it : option item := map_lookup (IUint k) it.

Fixpoint all_uints (l : list item) : option (list N) :=
  match l with
  | [] => Some []
  | IUint n :: t => match all_uints t with Some r => Some (n :: r) | None => None end
  | _ :: _ => None
  end.
Definition uint_keys it : option (list N) :=
  match it with IMap _ kvs => all_uints (map fst kvs) | _ => None end.

Definition array_nth (i : nat) it : option item :=
  match it with IArray _ xs => nth_error xs i | _ => None end.
