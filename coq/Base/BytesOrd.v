(* Strict total orders given by boolean functions, and the orders the builders and the ledger use on
   keys: lexicographic order of byte strings (Rust's derived Ord on [u8; N] / Vec<u8>; the
   ledger's order on hashes), lexicographic products (derived Ord on structs / Haskell records),
   orders induced by injections (derived Ord on enums = order on (constructor index, payload)).
   New shared file (C10); nothing here depends on a property. *)
From CSL Require Import Base.Prelude.
Local Open Scope N_scope.

Record strict_total {A : Type} (ltb : A -> A -> bool) : Prop := {
  st_irrefl : forall x, ltb x x = false;
  st_trans : forall x y z, ltb x y = true -> ltb y z = true -> ltb x z = true;
  st_total : forall x y, ltb x y = false -> ltb y x = false -> x = y }.

(* equality test derived from the order *)
Definition eqb_of {A} (ltb : A -> A -> bool) (x y : A) : bool := negb (ltb x y) && negb (ltb y x).

Section Facts.
  Context {A : Type} (ltb : A -> A -> bool) (ST : strict_total ltb).

  Lemma st_asym x y : ltb x y = true -> ltb y x = false.
  Proof.
    intros H. destruct (ltb y x) eqn:E; [|reflexivity].
    pose proof (st_trans _ ST _ _ _ H E) as T. rewrite (st_irrefl _ ST) in T. discriminate.
  Qed.

  Lemma eqb_of_true x y : eqb_of ltb x y = true <-> x = y.
  Proof.
    unfold eqb_of. split.
    - intros H. apply andb_true_iff in H as [H1 H2]. apply negb_true_iff in H1, H2.
      apply (st_total _ ST); assumption.
    - intros ->. rewrite (st_irrefl _ ST). reflexivity.
  Qed.

  Lemma eqb_of_false x y : eqb_of ltb x y = false <-> x <> y.
  Proof.
    split.
    - intros H E. apply eqb_of_true in E. congruence.
    - intros H. destruct (eqb_of ltb x y) eqn:E; [|reflexivity]. apply eqb_of_true in E. contradiction.
  Qed.

  Lemma eqb_of_refl x : eqb_of ltb x x = true.
  Proof. apply eqb_of_true. reflexivity. Qed.

  Lemma st_eq_dec (x y : A) : {x = y} + {x <> y}.
  Proof.
    destruct (eqb_of ltb x y) eqn:E; [left; apply eqb_of_true; exact E | right; apply eqb_of_false; exact E].
  Qed.

  Lemma st_trichotomy x y : ltb x y = true \/ x = y \/ ltb y x = true.
  Proof.
    destruct (ltb x y) eqn:E1; [left; reflexivity|]. destruct (ltb y x) eqn:E2; [right; right; reflexivity|].
    right; left. apply (st_total _ ST); assumption.
  Qed.
End Facts.

(* ---- byte strings, lexicographic; a proper prefix is smaller ---- *)
Fixpoint bytes_ltb (a b : bytes) : bool :=
  match a, b with
  | [], [] => false
  | [], _ :: _ => true
  | _ :: _, [] => false
  | x :: a', y :: b' => if x <? y then true else if y <? x then false else bytes_ltb a' b'
  end.

Lemma bytes_ltb_irrefl a : bytes_ltb a a = false.
Proof. induction a as [|x a IH]; [reflexivity|]. cbn [bytes_ltb]. rewrite N.ltb_irrefl. exact IH. Qed.

Lemma bytes_ltb_trans a : forall b c, bytes_ltb a b = true -> bytes_ltb b c = true -> bytes_ltb a c = true.
Proof.
  induction a as [|x a IH]; intros [|y b] [|z c]; cbn [bytes_ltb]; try discriminate; try reflexivity.
  destruct (x <? y) eqn:Exy; destruct (y <? x) eqn:Eyx; destruct (y <? z) eqn:Eyz; destruct (z <? y) eqn:Ezy;
    destruct (x <? z) eqn:Exz; destruct (z <? x) eqn:Ezx; intros H1 H2;
    try discriminate; try reflexivity; try lia.
  eauto.
Qed.

Lemma bytes_ltb_total a : forall b, bytes_ltb a b = false -> bytes_ltb b a = false -> a = b.
Proof.
  induction a as [|x a IH]; intros [|y b]; cbn [bytes_ltb]; try discriminate; try reflexivity.
  destruct (x <? y) eqn:E1; destruct (y <? x) eqn:E2; try discriminate.
  intros H1 H2. f_equal; [lia | apply IH; assumption].
Qed.

Lemma bytes_strict_total : strict_total bytes_ltb.
Proof. constructor; [apply bytes_ltb_irrefl | apply bytes_ltb_trans | apply bytes_ltb_total]. Qed.

Lemma N_strict_total : strict_total N.ltb.
Proof. constructor; intros; lia. Qed.

Definition bool_ltb (a b : bool) : bool := negb a && b.        (* false < true *)
Lemma bool_strict_total : strict_total bool_ltb.
Proof. constructor; unfold bool_ltb; intros; destruct x; try destruct y; try destruct z; try discriminate; reflexivity. Qed.

(* ---- lexicographic product (derived Ord on a struct / record: first field, then second) ---- *)
Definition lex_ltb {A B} (la : A -> A -> bool) (lb : B -> B -> bool) (p q : A * B) : bool :=
  if la (fst p) (fst q) then true else if la (fst q) (fst p) then false else lb (snd p) (snd q).

Lemma lex_strict_total {A B} (la : A -> A -> bool) (lb : B -> B -> bool) :
  strict_total la -> strict_total lb -> strict_total (lex_ltb la lb).
Proof.
  intros SA SB. constructor.
  - intros [a b]. unfold lex_ltb. cbn [fst snd]. rewrite (st_irrefl _ SA). apply (st_irrefl _ SB).
  - intros [a1 b1] [a2 b2] [a3 b3]. unfold lex_ltb. cbn [fst snd].
    destruct (st_trichotomy la SA a1 a2) as [H12|[->|H12]].
    + rewrite H12. intros _.
      destruct (st_trichotomy la SA a2 a3) as [H23|[->|H23]].
      * rewrite (st_trans _ SA _ _ _ H12 H23). reflexivity.
      * rewrite H12. reflexivity.
      * rewrite (st_asym la SA _ _ H23), H23. discriminate.
    + rewrite (st_irrefl _ SA). intros Hb. destruct (la a2 a3) eqn:E23; [reflexivity|].
      destruct (la a3 a2); [discriminate|]. intros Hb'. apply (st_trans _ SB _ _ _ Hb Hb').
    + rewrite (st_asym la SA _ _ H12), H12. discriminate.
  - intros [a1 b1] [a2 b2]. unfold lex_ltb. cbn [fst snd].
    destruct (la a1 a2) eqn:E12; [discriminate|]. destruct (la a2 a1) eqn:E21; [discriminate|].
    intros H1 H2. f_equal; [apply (st_total _ SA) | apply (st_total _ SB)]; assumption.
Qed.

(* ---- order induced by an injection into an ordered type ---- *)
Definition on_ltb {A B} (f : A -> B) (lb : B -> B -> bool) (x y : A) : bool := lb (f x) (f y).

Lemma on_strict_total {A B} (f : A -> B) (lb : B -> B -> bool) :
  (forall x y, f x = f y -> x = y) -> strict_total lb -> strict_total (on_ltb f lb).
Proof.
  intros Inj SB. constructor; unfold on_ltb.
  - intros x. apply (st_irrefl _ SB).
  - intros x y z. apply (st_trans _ SB).
  - intros x y H1 H2. apply Inj. apply (st_total _ SB); assumption.
Qed.

(* ---- Option: None < Some _ (derived Ord on Option<T>) ---- *)
Definition opt_ltb {A} (la : A -> A -> bool) (x y : option A) : bool :=
  match x, y with
  | None, Some _ => true
  | Some a, Some b => la a b
  | _, None => false
  end.

Lemma opt_strict_total {A} (la : A -> A -> bool) : strict_total la -> strict_total (opt_ltb la).
Proof.
  intros SA. constructor.
  - intros [a|]; cbn; [apply (st_irrefl _ SA) | reflexivity].
  - intros [a|] [b|] [c|]; cbn; try discriminate; try reflexivity. apply (st_trans _ SA).
  - intros [a|] [b|]; cbn; try discriminate; try reflexivity. intros H1 H2. f_equal. apply (st_total _ SA); assumption.
Qed.
