(* BigNum (u64) checked arithmetic: protocol_types/numeric/big_num.rs *)
From CSL Require Import Base.Prelude.
Local Open Scope N_scope.

Definition u64_ok (n : N) : bool := n <? two64.

Definition checked_add (a b : N) : result N :=
  if a + b <? two64 then Ok (a + b) else Err.
Definition checked_mul (a b : N) : result N :=
  if a * b <? two64 then Ok (a * b) else Err.
Definition checked_sub (a b : N) : result N :=
  if b <=? a then Ok (a - b) else Err.
Definition clamped_sub (a b : N) : N := a - b.   (* N subtraction truncates at 0, as clamped_sub does *)
(* div_floor: integer division; the Rust code divides u64 directly (panics on zero) *)
Definition div_floor (a b : N) : result N :=
  if b =? 0 then Panic else Ok (a / b).
