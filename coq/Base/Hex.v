(* Lower-case hexadecimal text of a byte string (to_hex / from_hex entry points). Characters are
   their ASCII codes. *)
From CSL Require Import Base.Prelude.
Local Open Scope N_scope.

Definition hexc (n : N) : N := if n <? 10 then 48 + n else 87 + n.
Definition unhexc (c : N) : option N :=
  if (48 <=? c) && (c <=? 57) then Some (c - 48)
  else if (97 <=? c) && (c <=? 102) then Some (c - 87)
  else if (65 <=? c) && (c <=? 70) then Some (c - 55)
  else None.
Fixpoint hex (bs : bytes) : list N :=
  match bs with [] => [] | b :: r => hexc (b / 16) :: hexc (b mod 16) :: hex r end.
Fixpoint unhex (cs : list N) : option bytes :=
  match cs with
  | [] => Some []
  | [_] => None                                  (* odd length *)
  | h :: l :: r =>
      match unhexc h, unhexc l, unhex r with
      | Some a, Some b, Some t => Some (a * 16 + b :: t)
      | _, _, _ => None
      end
  end.

Lemma unhexc_hexc n : n < 16 -> unhexc (hexc n) = Some n.
Proof.
  intros H. unfold hexc, unhexc. destruct (n <? 10) eqn:E.
  - destruct ((48 <=? 48 + n) && (48 + n <=? 57)) eqn:E1; [f_equal; lia|lia].
  - destruct ((48 <=? 87 + n) && (87 + n <=? 57)) eqn:E1; [lia|].
    destruct ((97 <=? 87 + n) && (87 + n <=? 102)) eqn:E2; [f_equal; lia|lia].
Qed.

Theorem unhex_hex bs : bytes_ok bs -> unhex (hex bs) = Some bs.
Proof.
  induction 1 as [|b r Hb _ IH]; [reflexivity|]. cbn [hex unhex].
  rewrite !unhexc_hexc, IH by (try apply N.div_lt_upper_bound; try apply N.mod_lt; lia).
  do 2 f_equal. pose proof (N.div_mod b 16). lia.
Qed.
