(* Common imports and settings for every file of the development. Stdlib only. *)
From Coq Require Export List NArith ZArith Bool Lia.
From Coq Require Export ZifyBool ZifyN ZifyNat.
Export ListNotations.

Ltac Zify.zify_post_hook ::= Z.div_mod_to_equations.

Global Arguments N.add : simpl never.
Global Arguments N.sub : simpl never.
Global Arguments N.mul : simpl never.
Global Arguments N.div : simpl never.
Global Arguments N.modulo : simpl never.
Global Arguments N.pow : simpl never.
Global Arguments N.ltb : simpl never.
Global Arguments N.leb : simpl never.
Global Arguments N.eqb : simpl never.
Global Arguments Z.add : simpl never.
Global Arguments Z.sub : simpl never.
Global Arguments Z.mul : simpl never.
Global Arguments Z.div : simpl never.
Global Arguments Z.modulo : simpl never.
Global Arguments Z.pow : simpl never.
Global Arguments Z.ltb : simpl never.
Global Arguments Z.leb : simpl never.
Global Arguments Z.eqb : simpl never.

(* Result of a modelled operation.  [Panic] stands for a Rust panic (index out of range,
   unwrap on None, assert!, debug overflow); [OutOfFuel] is distinct from every normal
   result so that fuel exhaustion can never masquerade as one. *)
Inductive result (A : Type) : Type :=
| Ok (a : A)
| Err                (* an explicit error value (JsError / DeserializeError) *)
| Panic
| OutOfFuel.
Arguments Ok {A} a.
Arguments Err {A}.
Arguments Panic {A}.
Arguments OutOfFuel {A}.

Definition bind {A B} (r : result A) (f : A -> result B) : result B :=
  match r with Ok a => f a | Err => Err | Panic => Panic | OutOfFuel => OutOfFuel end.
Notation "'let*' x ':=' r 'in' k" := (bind r (fun x => k))
  (at level 200, x name, r at level 100, k at level 200, right associativity).
Notation "'let*' ' p ':=' r 'in' k" := (bind r (fun x => match x with p => k end))
  (at level 200, p strict pattern, r at level 100, k at level 200, right associativity).

Definition is_ok {A} (r : result A) : bool := match r with Ok _ => true | _ => false end.

Definition bytes := list N.
Definition bytes_ok (bs : bytes) : Prop := Forall (fun b => (b < 256)%N) bs.

Definition two64 : N := 18446744073709551616%N.
Definition two64Z : Z := 18446744073709551616%Z.
Definition two32 : N := 4294967296%N.
