(* Builder/ChangeProofs.v — C05: every successful balancing operation leaves a ledger-balanced builder.
   For an ARBITRARY oracle (type of its state, answers) subject only to the typing premise [oracle_u64]
   (fee and min-ADA answers are u64, selected UTxO values are well-formed values).

   Inventory
     hoare / rules                 a partial-correctness triple over the model's monad that also carries an invariant
                                   (state_wf) through failing runs, because the Rust code mutates before it fails
     min_fee_pub_spec, fee_for_output_spec     the fee policy alignment (Exactly: increments are 0; NotLess: never below)
     pack_*_wf                     pack_nfts_for_change only produces well-formed multiassets
     change_outputs_loop_spec / change_while_loop_spec   the packing loop: change_left decreases by exactly what is added
                                   to the outputs (exact subtraction; the guard is checked_sub's own coverage test)
     add_change_balances           add_change = Ok -> balanced                                    (C05_change_balances)
     select_and_change_balances    add_inputs_from_and_change = Ok -> balanced                    (C05_select_and_change)
     build_tx_balanced             build_tx = Ok body -> ledger_balanced body                     (C05_balance)  *)
From CSL Require Import Base.Prelude Base.U64 Num.Value Num.ValueProofs Deposits.Deposits Deposits.DepositsProofs
  Builder.Totals Builder.TotalsProofs Builder.Change.
Local Open Scope N_scope.

(* ------------------------------------------------------------------------------------------- *)
(* balanced: the state's body satisfies the ledger rule with the fee that build() will write *)

Definition balanced (s : state) : Prop :=
  exists fee, get_fee_if_set s = Some fee /\ balanced_sem s fee.

Lemma balanced_ledger s : balanced s -> params_balanced s (body_of s).
Proof. intros [fee [F B]]. apply balanced_sem_ledger. rewrite F. exact B. Qed.

(* what is left to distribute: consumed = produced (without fee) + change_left, component-wise *)
Definition open_balance (s : state) (cl : value) : Prop :=
  consumed_coin s = produced_coin_no_fee s + coin cl /\
  forall p n, sum_qty (map snd (s_inputs s)) p n + mint_pos (mint_of s) p n
              = sum_qty (map o_amount (s_outputs s)) p n + mint_neg (mint_of s) p n + qty cl p n.

Definition aligned (rq : fee_request) (v : N) : Prop :=
  match rq with
  | FeeExactly e => v = e
  | FeeNotLess f => f <= v
  | FeeUnspecified => True
  end.

Lemma get_new_fee_aligned rq f : aligned rq (get_new_fee rq f).
Proof.
  destruct rq as [|old|old]; cbn; [exact I | | reflexivity].
  destruct (N.ltb_spec f old); lia.
Qed.

Lemma set_final_fee_aligned s v : aligned (s_fee_request s) v -> s_fee (set_final_fee v s) = Some v.
Proof.
  unfold set_final_fee, aligned. destruct (s_fee_request s) as [|nl|e]; cbn; intros H.
  - reflexivity.
  - destruct (N.leb_spec nl v); [reflexivity | lia].
  - subst. reflexivity.
Qed.

Lemma get_fee_if_set_some s v : s_fee s = Some v -> get_fee_if_set s = Some v.
Proof. unfold get_fee_if_set. intros ->. reflexivity. Qed.

(* set_final_fee and appending an output touch nothing else *)
Lemma set_final_fee_frame v s :
  s_cfg (set_final_fee v s) = s_cfg s /\ s_inputs (set_final_fee v s) = s_inputs s /\
  s_outputs (set_final_fee v s) = s_outputs s /\ s_fee_request (set_final_fee v s) = s_fee_request s /\
  s_certs (set_final_fee v s) = s_certs s /\ s_withdrawals (set_final_fee v s) = s_withdrawals s /\
  s_mint (set_final_fee v s) = s_mint s /\ s_proposals (set_final_fee v s) = s_proposals s /\
  s_donation (set_final_fee v s) = s_donation s.
Proof. repeat split. Qed.

Lemma state_wf_set_final_fee v s : state_wf s -> state_wf (set_final_fee v s).
Proof. intros W. exact W. Qed.

Lemma open_balance_set_final_fee v s cl : open_balance s cl -> open_balance (set_final_fee v s) cl.
Proof. intros H. exact H. Qed.

Lemma state_wf_add_output x s : state_wf s -> value_wf (o_amount x) -> state_wf (set_s_outputs (s_outputs s ++ [x]) s).
Proof.
  unfold state_wf, state_wfb. cbn [s_inputs s_outputs s_mint set_s_outputs]. intros W Wx.
  apply andb_true_iff in W. destruct W as [W Wm]. apply andb_true_iff in W. destruct W as [Wi Wo].
  rewrite Wi, Wm, forallb_app, Wo. cbn. rewrite Wx. reflexivity.
Qed.

Lemma state_wf_set_outputs l s : state_wf s -> Forall (fun o => value_wf (o_amount o)) l -> state_wf (set_s_outputs l s).
Proof.
  unfold state_wf, state_wfb. cbn [s_inputs s_outputs s_mint set_s_outputs]. intros W Wl.
  apply andb_true_iff in W. destruct W as [W Wm]. apply andb_true_iff in W. destruct W as [Wi Wo].
  rewrite Wi, Wm. rewrite andb_true_r. cbn. apply forallb_forall. intros o I. rewrite Forall_forall in Wl. apply Wl. exact I.
Qed.

Lemma state_wf_outputs_forall s : state_wf s -> Forall (fun o => value_wf (o_amount o)) (s_outputs s).
Proof.
  intros W. unfold state_wf, state_wfb in W. apply andb_true_iff in W. destruct W as [W _].
  apply andb_true_iff in W. destruct W as [_ W]. rewrite forallb_forall in W. apply Forall_forall. exact W.
Qed.

Lemma consumed_coin_set_outputs l s : consumed_coin (set_s_outputs l s) = consumed_coin s.
Proof. reflexivity. Qed.

Lemma produced_add_output x s :
  produced_coin_no_fee (set_s_outputs (s_outputs s ++ [x]) s) = produced_coin_no_fee s + coin (o_amount x).
Proof.
  unfold produced_coin_no_fee. cbn [s_outputs set_s_outputs s_cfg s_certs s_proposals s_donation].
  rewrite map_app, sum_coin_app. unfold sum_coin at 2. cbn. lia.
Qed.

Lemma out_qty_add_output x s p n :
  sum_qty (map o_amount (s_outputs (set_s_outputs (s_outputs s ++ [x]) s))) p n
  = sum_qty (map o_amount (s_outputs s)) p n + qty (o_amount x) p n.
Proof.
  cbn [s_outputs set_s_outputs]. rewrite map_app, sum_qty_app. unfold sum_qty at 2. cbn. lia.
Qed.

(* moving [amount x] from change_left to a new output keeps the open balance *)
Lemma open_balance_add_output s cl cl' x :
  open_balance s cl ->
  coin cl = coin cl' + coin (o_amount x) -> (forall p n, qty cl p n = qty cl' p n + qty (o_amount x) p n) ->
  open_balance (set_s_outputs (s_outputs s ++ [x]) s) cl'.
Proof.
  intros [C Q] Hc Hq. split.
  - rewrite consumed_coin_set_outputs, produced_add_output. lia.
  - intros p n. rewrite out_qty_add_output. cbn [s_inputs set_s_outputs]. unfold mint_of. cbn [s_mint set_s_outputs].
    specialize (Q p n). specialize (Hq p n). unfold mint_of in Q. lia.
Qed.

Lemma open_balance_closed s fee cl :
  open_balance s cl -> coin cl = fee -> (forall p n, qty cl p n = 0) -> balanced_sem s fee.
Proof.
  intros [C Q] Hc Hq. split; [lia|]. intros p n. rewrite Q, Hq. lia.
Qed.

(* ------------------------------------------------------------------------------------------- *)
Section Proofs.
  Context {O : Type}.
  Variable orc : @oracle O.

  (* typing premise: the implementation's answers are u64 (BigNum) and Values; nothing is assumed about WHICH *)
  Definition oracle_u64 : Prop :=
    (forall st o v, fst (ask_fee orc st o) = Ok v -> v < two64) /\
    (forall x o v, fst (ask_min_ada orc x o) = Ok v -> v < two64) /\
    (forall st utxos o, Forall (fun e : N * value => value_wf (snd e)) (fst (fst (ask_select orc st utxos o)))).
  Hypothesis OU : oracle_u64.

  Notation M := (@M O).
  Implicit Types J P : state -> Prop.

  (* partial correctness + an invariant J that survives failures *)
  Definition hoare {A} (J P : state -> Prop) (m : M A) (Q : A -> state -> Prop) : Prop :=
    forall s o, J s -> P s ->
      J (out_st (m s o)) /\ match out_res (m s o) with Ok a => Q a (out_st (m s o)) | _ => True end.

  Lemma hoare_conseq {A} J (P P' : state -> Prop) (m : M A) (Q Q' : A -> state -> Prop) :
    hoare J P m Q -> (forall s, J s -> P' s -> P s) -> (forall a s, J s -> Q a s -> Q' a s) -> hoare J P' m Q'.
  Proof.
    intros H HP HQ s o Js Ps. destruct (H s o Js (HP s Js Ps)) as [J' R]. split; [exact J'|].
    destruct (out_res (m s o)); auto.
  Qed.

  Lemma hoare_ret {A} J (Q : A -> state -> Prop) (a : A) : hoare J (Q a) (ret a) Q.
  Proof. intros s o Js Ps. cbn. auto. Qed.

  Lemma hoare_ret' {A} J (P : state -> Prop) (Q : A -> state -> Prop) (a : A) :
    (forall s, J s -> P s -> Q a s) -> hoare J P (ret a) Q.
  Proof. intros H s o Js Ps. cbn. auto. Qed.

  Lemma hoare_fail {A} J P (e : result A) (Q : A -> state -> Prop) :
    (forall a, e <> Ok a) -> hoare J P (lift e) Q.
  Proof. intros H s o Js Ps. cbn. split; [exact Js|]. destruct e; auto. exfalso. eapply H. reflexivity. Qed.

  Lemma hoare_bind {A B} J P (m : M A) (f : A -> M B) Q R :
    hoare J P m Q -> (forall a, hoare J (Q a) (f a) R) -> hoare J P (bindM m f) R.
  Proof.
    intros Hm Hf s o Js Ps. unfold bindM. destruct (Hm s o Js Ps) as [J' Qa].
    destruct (out_res (m s o)) as [a| | |] eqn:E; cbn; auto.
    apply (Hf a); assumption.
  Qed.

  Lemma hoare_lift_bind {A B} J P (r : result A) (f : A -> M B) R :
    (forall a, r = Ok a -> hoare J P (f a) R) -> hoare J P (bindM (lift r) f) R.
  Proof.
    intros H s o Js Ps. unfold bindM, lift. cbn. destruct r as [a| | |]; cbn; auto.
    apply (H a eq_refl); assumption.
  Qed.

  Lemma hoare_get_bind {B} J P (f : state -> M B) R :
    (forall s0, hoare J (fun s => s = s0 /\ P s) (f s0) R) -> hoare J P (bindM get f) R.
  Proof. intros H s o Js Ps. unfold bindM, get. cbn. apply (H s); auto. Qed.

  Lemma hoare_modify_bind {B} J P (g : state -> state) (k : unit -> M B) P' R :
    (forall s, J s -> P s -> J (g s) /\ P' (g s)) -> hoare J P' (k tt) R -> hoare J P (bindM (modify g) k) R.
  Proof.
    intros Hg Hk s o Js Ps. unfold bindM, modify. cbn. destruct (Hg s Js Ps) as [J' P'']. apply Hk; assumption.
  Qed.

  Lemma hoare_askF_bind {B} J P st (f : N -> M B) R :
    (forall v, v < two64 -> hoare J P (f v) R) -> hoare J P (bindM (askF orc st) f) R.
  Proof.
    intros H s o Js Ps. unfold bindM, askF. cbn.
    destruct (fst (ask_fee orc st o)) as [v| | |] eqn:E; cbn; auto.
    apply H; auto. destruct OU as [U _]. eapply U. exact E.
  Qed.

  Lemma hoare_askA_bind {B} J P x (f : N -> M B) R :
    (forall v, v < two64 -> hoare J P (f v) R) -> hoare J P (bindM (askA orc x) f) R.
  Proof.
    intros H s o Js Ps. unfold bindM, askA. cbn.
    destruct (fst (ask_min_ada orc x o)) as [v| | |] eqn:E; cbn; auto.
    apply H; auto. destruct OU as [_ [U _]]. eapply U. exact E.
  Qed.

  Lemma hoare_askS_bind {B} J P v (f : bool -> M B) R :
    (forall b, hoare J P (f b) R) -> hoare J P (bindM (askS orc v) f) R.
  Proof. intros H s o Js Ps. unfold bindM, askS. cbn. apply H; auto. Qed.

  Lemma hoare_askT_bind {B} J P st (f : bool -> M B) R :
    (forall b, hoare J P (f b) R) -> hoare J P (bindM (askT orc st) f) R.
  Proof. intros H s o Js Ps. unfold bindM, askT. cbn. apply H; auto. Qed.

  Lemma hoare_if {A} J P (b : bool) (m1 m2 : M A) Q :
    (b = true -> hoare J P m1 Q) -> (b = false -> hoare J P m2 Q) -> hoare J P (if b then m1 else m2) Q.
  Proof. destruct b; auto. Qed.

  Lemma hoare_catch {A} J P (m : M A) Q :
    hoare J P m Q -> hoare J P (catch m) (fun r s => match r with Some a => Q a s | None => True end).
  Proof.
    intros H s o Js Ps. unfold catch. destruct (H s o Js Ps) as [J' R].
    destruct (out_res (m s o)); cbn; auto.
  Qed.

  Lemma hoare_pre_false {A} J (P : state -> Prop) (m : M A) Q : (forall s, J s -> P s -> False) -> (forall s o, J s -> J (out_st (m s o))) -> hoare J P m Q.
  Proof. intros H HJ s o Js Ps. exfalso. eauto. Qed.

  (* ----------------------------------------------------------------------------------------- *)
  (* fee policy *)

  Notation WF := state_wf.

  Lemma min_fee_pub_spec P :
    hoare WF P (min_fee_pub orc) (fun v s => P s /\ aligned (s_fee_request s) v).
  Proof.
    unfold min_fee_pub. apply hoare_get_bind. intros s0. apply hoare_askF_bind. intros f Lf.
    apply hoare_ret'. intros s _ [E Ps]. subst s. split; [exact Ps|]. apply get_new_fee_aligned.
  Qed.

  Lemma output_admissible_spec P x : hoare WF P (output_admissible orc x) (fun _ s => P s).
  Proof.
    unfold output_admissible. apply hoare_askS_bind. intros big. apply hoare_if; intros _.
    - apply hoare_fail. discriminate.
    - apply hoare_askA_bind. intros ma _. apply hoare_if; intros _.
      + apply hoare_fail. discriminate.
      + apply hoare_ret'. auto.
  Qed.

  (* fee_for_output leaves the builder untouched; under an Exactly request the increment is 0 *)
  Lemma fee_for_output_spec P x :
    hoare WF P (fee_for_output orc x)
      (fun v s => P s /\ v < two64 /\ (forall e, s_fee_request s = FeeExactly e -> v = 0)).
  Proof.
    unfold fee_for_output. apply hoare_get_bind. intros s0. apply hoare_askF_bind. intros fb Lb.
    eapply hoare_bind; [apply output_admissible_spec|]. intros u.
    apply hoare_askF_bind. intros fa La. cbn beta.
    intros s o Js [E Ps]. subst s. cbn. split; [exact Js|].
    unfold checked_sub.
    destruct (get_new_fee (s_fee_request s0) fb <=? get_new_fee (s_fee_request s0) fa) eqn:L; cbn; [|exact I].
    split; [exact Ps|]. split.
    - assert (get_new_fee (s_fee_request s0) fa < two64 \/ exists e, s_fee_request s0 = FeeExactly e \/ s_fee_request s0 = FeeNotLess e).
      { destruct (s_fee_request s0) as [|old|old]; cbn; [left; exact La | right; exists old; auto | right; exists old; auto]. }
      destruct (s_fee_request s0) as [|old|old]; cbn in *.
      + lia.
      + destruct (N.ltb_spec fa old), (N.ltb_spec fb old); lia.
      + lia.
    - intros e E. rewrite E. cbn. lia.
  Qed.

  Lemma add_output_spec (P : state -> Prop) x (Q : unit -> state -> Prop) :
    value_wf (o_amount x) ->
    (forall s, WF s -> P s -> Q tt (set_s_outputs (s_outputs s ++ [x]) s)) ->
    hoare WF P (add_output orc x) Q.
  Proof.
    intros Wx H. unfold add_output. eapply hoare_bind; [apply output_admissible_spec|]. intros u.
    intros s o Js Ps. cbn. split; [apply state_wf_add_output; assumption | apply H; assumption].
  Qed.

  Lemma hoare_put J P (s' : state) (Q : unit -> state -> Prop) :
    (forall s, J s -> P s -> J s' /\ Q tt s') -> hoare J P (put s') Q.
  Proof. intros H s o Js Ps. cbn. apply (H s); assumption. Qed.

  Lemma hoare_pre_pure {A} J P (phi : Prop) (m : M A) Q :
    (forall s, J s -> P s -> phi) -> (phi -> hoare J P m Q) -> hoare J P m Q.
  Proof. intros H1 H2 s o Js Ps. apply H2; eauto. Qed.

  Lemma hoare_weaken {A} J P P' (m : M A) Q :
    (forall s, J s -> P' s -> P s) -> hoare J P m Q -> hoare J P' m Q.
  Proof. intros H1 H2 s o Js Ps. apply H2; auto. Qed.

  Lemma hoare_modify J P (g : state -> state) (Q : unit -> state -> Prop) :
    (forall s, J s -> P s -> J (g s) /\ Q tt (g s)) -> hoare J P (modify g) Q.
  Proof. intros H s o Js Ps. cbn. apply (H s); assumption. Qed.

  (* ----------------------------------------------------------------------------------------- *)
  (* pack_nfts_for_change only produces well-formed multiassets (what it packs is irrelevant for the balance:
     every multiasset it returns is subtracted from change_left by an exact, checked subtraction) *)

  Definition mas_wf (l : list multiasset) : Prop := Forall (fun m => ma_wfb m = true) l.

  Definition pack_wf (a : pack_acc) : Prop :=
    value_wf (pa_output a) /\ value_wf (pa_old a) /\ ma_wfb (pa_next a) = true /\
    assets_wfb (pa_rebuilt a) = true /\ mas_wf (pa_changes a).

  Lemma value_wf_set_multiasset m c : c < two64 -> ma_wfb m = true -> value_wf (value_set_multiasset m (value_new c)).
  Proof. intros L W. apply value_wf_iff. cbn. split; assumption. Qed.

  Lemma value_wf_multiasset v m : value_wf v -> multiasset_of v = Some m -> ma_wfb m = true.
  Proof. intros W E. apply value_wf_iff in W. destruct W as [_ W]. rewrite E in W. exact W. Qed.

  Lemma value_wf_set_coin c v : c < two64 -> value_wf v -> value_wf (value_set_coin c v).
  Proof. intros L W. apply value_wf_iff in W. apply value_wf_iff. cbn. destruct W as [_ W]. split; assumption. Qed.

  Lemma empty_output_amount_wf : value_wf empty_output_amount.
  Proof. reflexivity. Qed.

  Lemma two64_pos' : 0 < two64.
  Proof. reflexivity. Qed.

  Lemma will_overflow_spec P out cur policy name q :
    hoare WF P (will_adding_asset_make_output_overflow orc out cur policy name q) (fun _ s => P s).
  Proof.
    unfold will_adding_asset_make_output_overflow. apply hoare_lift_bind. intros ac _.
    apply hoare_askA_bind. intros ma _. intros s o Js Ps. cbn. auto.
  Qed.

  Lemma unwrap_ma_bind {B} J P (m : option multiasset) (f : multiasset -> M B) R :
    (forall x, m = Some x -> hoare J P (f x) R) -> hoare J P (bindM (unwrap_ma m) f) R.
  Proof.
    intros H. destruct m as [x|]; unfold unwrap_ma.
    - intros s o Js Ps. unfold bindM, ret. cbn. apply (H x eq_refl); assumption.
    - intros s o Js Ps. unfold bindM, lift. cbn. auto.
  Qed.

  Lemma pack_policy_assets_spec P policy l : forall a,
    pack_wf a -> Forall (fun nq : bytes * N => snd nq < two64) l ->
    hoare WF P (pack_policy_assets orc policy l a) (fun a' s => P s /\ pack_wf a').
  Proof.
    induction l as [|[name q] l IH]; intros a Wa Wl.
    - cbn [pack_policy_assets]. apply hoare_ret'. auto.
    - cbn [pack_policy_assets]. inversion Wl as [|? ? Lq Wl']. subst. cbn [snd] in Lq.
      destruct Wa as [Wo [Wold [Wn [Wr Wc]]]].
      eapply hoare_bind; [apply will_overflow_spec|]. intros ov. cbn beta.
      eapply hoare_bind with (Q := fun a' s => P s /\ pack_wf a').
      + destruct ov.
        * apply hoare_lift_bind. intros oa Eoa.
          assert (Wval : value_wf (value_set_multiasset (ma_insert policy (pa_rebuilt a) (pa_next a)) (value_new 0))).
          { apply value_wf_set_multiasset; [reflexivity|]. apply ma_wfb_insert; assumption. }
          destruct (value_checked_add_ok _ _ _ Wo Wval Eoa) as [_ [_ Woa]].
          apply unwrap_ma_bind. intros m Em. apply hoare_ret'. intros s _ Ps. split; [exact Ps|].
          repeat split; try apply empty_output_amount_wf; try reflexivity.
          apply Forall_app. split; [exact Wc|]. constructor; [|constructor]. eapply value_wf_multiasset; eassumption.
        * apply hoare_ret'. intros s _ Ps. split; [exact Ps|]. repeat split; assumption.
      + intros a'. intros s o Js [Ps Wa']. destruct Wa' as [Wo' [Wold' [Wn' [Wr' Wc']]]].
        apply IH; auto. repeat split; cbn; try assumption. apply assets_wfb_insert; assumption.
  Qed.

  Lemma ma_wfb_cons p a m : ma_wfb ((p, a) :: m) = true -> assets_wfb a = true /\ ma_wfb m = true.
  Proof.
    intros W. apply ma_wfb_iff in W. destruct W as [S F].
    apply (am_sorted_cons bytes_cmp bytes_key_order) in S. destruct S as [_ S].
    split; [apply (F p a); left; reflexivity|]. apply ma_wfb_iff. split; [exact S|]. intros p0 a0 I. apply (F p0 a0). right. exact I.
  Qed.

  Lemma assets_wfb_bound a : assets_wfb a = true -> Forall (fun nq : bytes * N => snd nq < two64) a.
  Proof.
    intros W. unfold assets_wfb in W. apply andb_true_iff in W. destruct W as [_ F].
    rewrite forallb_forall in F. apply Forall_forall. intros x I. specialize (F x I). lia.
  Qed.

  Lemma pack_policies_spec P l : forall out changes,
    ma_wfb l = true -> value_wf out -> mas_wf changes ->
    hoare WF P (pack_policies orc l out changes) (fun r s => P s /\ value_wf (fst r) /\ mas_wf (snd r)).
  Proof.
    induction l as [|[policy assets] l IH]; intros out changes Wl Wo Wc.
    - cbn [pack_policies]. apply hoare_ret'. auto.
    - cbn [pack_policies]. destruct (ma_wfb_cons _ _ _ Wl) as [Wa Wl'].
      eapply hoare_bind.
      + apply (pack_policy_assets_spec P policy assets); [|apply assets_wfb_bound; exact Wa].
        repeat split; cbn; try assumption; reflexivity.
      + intros a. cbn beta. intros s o Js [Ps [Wo' [Wold' [Wn' [Wr' Wc']]]]]. revert s o Js Ps.
        change (hoare WF P
          (bindM (lift (value_checked_add (pa_output a) (value_set_multiasset (ma_insert policy (pa_rebuilt a) (pa_next a)) (value_new 0))))
             (fun out_amount => bindM (askA orc (mkOutput fake_addr (value_set_multiasset (ma_insert policy (pa_rebuilt a) (pa_next a)) (value_new 0)) 0))
               (fun min_ada => bindM (askS orc (value_set_coin min_ada out_amount))
                 (fun big => if big then ret (pa_old a, pa_changes a) else pack_policies orc l out_amount (pa_changes a)))))
          (fun r s => P s /\ value_wf (fst r) /\ mas_wf (snd r))).
        apply hoare_lift_bind. intros oa Eoa.
        assert (Wval : value_wf (value_set_multiasset (ma_insert policy (pa_rebuilt a) (pa_next a)) (value_new 0))).
        { apply value_wf_set_multiasset; [reflexivity|]. apply ma_wfb_insert; assumption. }
        destruct (value_checked_add_ok _ _ _ Wo' Wval Eoa) as [_ [_ Woa]].
        apply hoare_askA_bind. intros ma _. apply hoare_askS_bind. intros big. destruct big.
        * apply hoare_ret'. intros s _ Ps. cbn. auto.
        * apply IH; assumption.
  Qed.

  Lemma pack_nfts_spec P ce : value_wf ce ->
    hoare WF P (pack_nfts_for_change orc ce) (fun l s => P s /\ mas_wf l).
  Proof.
    intros W. unfold pack_nfts_for_change. apply unwrap_ma_bind. intros ma Ema.
    eapply hoare_bind.
    - apply (pack_policies_spec P ma); [eapply value_wf_multiasset; eassumption | | constructor].
      apply value_wf_set_multiasset; [apply value_wf_coin; exact W | reflexivity].
    - intros r. cbn beta. intros s o Js [Ps [Wr Wc]]. revert s o Js Ps.
      change (hoare WF P (bindM (unwrap_ma (multiasset_of (fst r))) (fun last => ret (snd r ++ [last]))) (fun l s => P s /\ mas_wf l)).
      apply unwrap_ma_bind. intros last El. apply hoare_ret'. intros s _ Ps. split; [exact Ps|].
      apply Forall_app. split; [exact Wc|]. constructor; [|constructor]. eapply value_wf_multiasset; eassumption.
  Qed.

  (* ----------------------------------------------------------------------------------------- *)
  (* the packing loop *)

  Definition loop_inv (rq : fee_request) (cl : value) (nf : N) (s : state) : Prop :=
    s_fee_request s = rq /\ open_balance s cl /\ value_wf cl /\ aligned rq nf /\ nf < two64.

  Lemma aligned_add rq nf v : aligned rq nf -> (forall e, rq = FeeExactly e -> v = 0) -> aligned rq (nf + v).
  Proof.
    destruct rq as [|f|e]; cbn; intros A Z; [exact I | lia |].
    rewrite (Z e eq_refl). lia.
  Qed.

  Lemma checked_add_ok a b c : checked_add a b = Ok c -> c = a + b /\ c < two64.
  Proof. rewrite checked_add_exact. intros H. apply exact_or_error_ok_iff in H. destruct H as [-> H]. auto. Qed.

  Lemma change_outputs_loop_spec addr extra rq l : forall cl nf, mas_wf l ->
    hoare WF (loop_inv rq cl nf) (change_outputs_loop orc addr extra l cl nf)
      (fun r s => loop_inv rq (fst r) (snd r) s).
  Proof.
    induction l as [|nft l IH]; intros cl nf Wl.
    - cbn [change_outputs_loop]. apply hoare_ret'. auto.
    - cbn [change_outputs_loop]. inversion Wl as [|? ? Wn Wl']. subst.
      apply hoare_askA_bind. intros min_ada Lm.
      set (cv := value_set_coin min_ada (value_set_multiasset nft (value_new 0))).
      assert (Wcv : value_wf cv).
      { apply value_wf_set_coin; [exact Lm|]. apply value_wf_set_multiasset; [reflexivity | exact Wn]. }
      eapply hoare_bind; [apply fee_for_output_spec|]. intros ffc. cbn beta.
      apply hoare_pre_pure with (phi := value_wf cl /\ aligned rq nf /\ nf < two64 /\ ffc < two64 /\
                                          (forall e, rq = FeeExactly e -> ffc = 0)).
      { intros s _ [[Erq [OB [Wcl [Al Lnf]]]] [Lffc Ex]]. repeat split; try assumption.
        intros e Ee. apply (Ex e). rewrite Erq. exact Ee. }
      intros [Wcl [Al [Lnf [Lffc Ex]]]].
      apply hoare_weaken with (P := loop_inv rq cl nf); [intros s _ [H _]; exact H|].
      cut (hoare WF (loop_inv rq cl nf)
             (bindM (lift (checked_add nf ffc)) (fun new_fee' =>
               bindM (lift (checked_add min_ada new_fee')) (fun need =>
                 if coin cl <? need then lift Err
                 else bindM (lift (value_checked_sub cl cv)) (fun change_left' =>
                        bindM (add_output orc (mkOutput addr cv extra)) (fun _ =>
                          change_outputs_loop orc addr extra l change_left' new_fee')))))
             (fun r s => loop_inv rq (fst r) (snd r) s)).
      { intros H. exact H. }
      apply hoare_lift_bind. intros nf' Enf. apply checked_add_ok in Enf. destruct Enf as [-> Lnf'].
      apply hoare_lift_bind. intros need _.
      apply hoare_if; intros _; [apply hoare_fail; discriminate|].
      apply hoare_lift_bind. intros cl' Ecl.
      destruct (value_checked_sub_ok _ _ _ Wcl Wcv Ecl) as [Hle [Hc [Hq Wcl']]].
      eapply hoare_bind.
      + apply add_output_spec with (Q := fun _ s => loop_inv rq cl' (nf + ffc) s); [exact Wcv|].
        intros s0 _ [Erq0 [OB0 [_ [Al0 _]]]]. split; [|split; [|split; [|split]]].
        * exact Erq0.
        * apply (open_balance_add_output s0 cl cl' (mkOutput addr cv extra) OB0); cbn [o_amount]; [lia|].
          intros p n. destruct (Hq p n). lia.
        * exact Wcl'.
        * apply aligned_add; [exact Al0|]. exact Ex.
        * exact Lnf'.
      + intros u. apply IH. exact Wl'.
  Qed.

  Lemma change_while_loop_spec addr extra rq fuel : forall cl nf,
    hoare WF (loop_inv rq cl nf) (change_while_loop orc fuel addr extra cl nf)
      (fun r s => loop_inv rq (fst r) (snd r) s).
  Proof.
    induction fuel as [|fuel IH]; intros cl nf; cbn [change_while_loop].
    - destruct (change_has_assets_left cl); [apply hoare_fail; discriminate | apply hoare_ret'; auto].
    - destruct (change_has_assets_left cl); [|apply hoare_ret'; auto].
      apply hoare_pre_pure with (phi := value_wf cl); [intros s _ [_ [_ [Wcl _]]]; exact Wcl|]. intros Wcl.
      change (hoare WF (loop_inv rq cl nf)
        (bindM (pack_nfts_for_change orc cl) (fun nft_changes =>
           match nft_changes with
           | [] => lift Err
           | _ :: _ => bindM (change_outputs_loop orc addr extra nft_changes cl nf)
                          (fun r => change_while_loop orc fuel addr extra (fst r) (snd r))
           end))
        (fun r s => loop_inv rq (fst r) (snd r) s)).
      eapply hoare_bind; [apply pack_nfts_spec; exact Wcl|].
      intros l. cbn beta. destruct l as [|m l].
      + apply hoare_fail. discriminate.
      + apply hoare_pre_pure with (phi := mas_wf (m :: l)); [intros s _ [_ Wl]; exact Wl|]. intros Wl.
        apply hoare_weaken with (P := loop_inv rq cl nf); [intros s _ [H _]; exact H|].
        change (hoare WF (loop_inv rq cl nf)
          (bindM (change_outputs_loop orc addr extra (m :: l) cl nf)
             (fun r => change_while_loop orc fuel addr extra (fst r) (snd r)))
          (fun r s => loop_inv rq (fst r) (snd r) s)).
        eapply hoare_bind; [apply change_outputs_loop_spec; exact Wl|].
        intros r. apply IH.
  Qed.

End Proofs.
