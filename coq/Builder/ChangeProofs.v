(* Builder/ChangeProofs.v — C05: every successful balancing operation leaves a ledger-balanced builder.
   For an ARBITRARY oracle (type of its state, answers) subject only to the typing premise [oracle_u64]
   (fee and min-ADA answers are u64; what the coin selection adds are well-formed values when the offered UTxOs are).

   Inventory
     hoare / rules                 a partial-correctness triple over the model's monad that also carries an invariant
                                   (state_wf) through failing runs, because the Rust code mutates before it fails
     min_fee_pub_spec, fee_for_output_spec     the fee policy alignment (Exactly: increments are 0; NotLess: never below)
     pack_*_wf                     pack_nfts_for_change only produces well-formed multiassets
     change_outputs_loop_spec / change_while_loop_spec   the packing loop: change_left decreases by exactly what is added
                                   to the outputs (exact subtraction; the guard is checked_sub's own coverage test)
     add_change_balances           add_change = Ok -> balanced                                    (C05_change_balances)
     select_and_change_balances    add_inputs_from_and_change = Ok -> balanced                    (C05_select_and_change)
     build_tx_balanced             build_tx = Ok body -> ledger_balanced body                     (C05_balance)  *)
From CSL Require Import Base.Prelude Base.U64 Num.Value Num.ValueProofs Num.ValueNorm Num.ValueNormProofs Deposits.Deposits Deposits.DepositsProofs
  Builder.Totals Builder.TotalsProofs Builder.Change.
Local Open Scope N_scope.

(* ------------------------------------------------------------------------------------------- *)
(* balanced: the state's body satisfies the ledger rule with the fee that build() will write *)

Definition balanced (s : state) : Prop :=
  exists fee, get_fee_if_set s = Some fee /\ balanced_sem s fee.

Lemma balanced_ledger s : balanced s -> params_balanced s (body_of s).
Proof. intros [fee [F B]]. apply balanced_sem_ledger. rewrite F. exact B. Qed.

(* what is left to distribute: consumed = produced (without fee) + change_left, component-wise *)
Definition open_balance (s : state) (cl : value) : Prop :=
  consumed_coin s = produced_coin_no_fee s + coin cl /\
  forall p n, sum_qty (map snd (s_inputs s)) p n + mint_pos (mint_of s) p n
              = sum_qty (map o_amount (s_outputs s)) p n + mint_neg (mint_of s) p n + qty cl p n.

Definition aligned (rq : fee_request) (v : N) : Prop :=
  match rq with
  | FeeExactly e => v = e
  | FeeNotLess f => f <= v
  | FeeUnspecified => True
  end.

Lemma get_new_fee_aligned rq f : aligned rq (get_new_fee rq f).
Proof.
  destruct rq as [|old|old]; cbn; [exact I | | reflexivity].
  destruct (N.ltb_spec f old); lia.
Qed.

Lemma set_final_fee_aligned s v : aligned (s_fee_request s) v -> s_fee (set_final_fee v s) = Some v.
Proof.
  unfold set_final_fee, aligned. destruct (s_fee_request s) as [|nl|e]; cbn; intros H.
  - reflexivity.
  - destruct (N.leb_spec nl v); [reflexivity | lia].
  - subst. reflexivity.
Qed.

Lemma get_fee_if_set_some s v : s_fee s = Some v -> get_fee_if_set s = Some v.
Proof. unfold get_fee_if_set. intros ->. reflexivity. Qed.

(* set_final_fee and appending an output touch nothing else *)
Lemma set_final_fee_frame v s :
  s_cfg (set_final_fee v s) = s_cfg s /\ s_inputs (set_final_fee v s) = s_inputs s /\
  s_outputs (set_final_fee v s) = s_outputs s /\ s_fee_request (set_final_fee v s) = s_fee_request s /\
  s_certs (set_final_fee v s) = s_certs s /\ s_withdrawals (set_final_fee v s) = s_withdrawals s /\
  s_mint (set_final_fee v s) = s_mint s /\ s_proposals (set_final_fee v s) = s_proposals s /\
  s_donation (set_final_fee v s) = s_donation s.
Proof. repeat split. Qed.

Lemma state_wf_set_final_fee v s : state_wf s -> state_wf (set_final_fee v s).
Proof. intros W. exact W. Qed.

Lemma open_balance_set_final_fee v s cl : open_balance s cl -> open_balance (set_final_fee v s) cl.
Proof. intros H. exact H. Qed.

Lemma state_wf_add_output x s : state_wf s -> value_wf (o_amount x) -> state_wf (set_s_outputs (s_outputs s ++ [x]) s).
Proof.
  unfold state_wf, state_wfb. cbn [s_inputs s_outputs s_mint set_s_outputs]. intros W Wx.
  apply andb_true_iff in W. destruct W as [W Wm]. apply andb_true_iff in W. destruct W as [Wi Wo].
  rewrite Wi, Wm, forallb_app, Wo. cbn. rewrite Wx. reflexivity.
Qed.

Lemma state_wf_set_outputs l s : state_wf s -> Forall (fun o => value_wf (o_amount o)) l -> state_wf (set_s_outputs l s).
Proof.
  unfold state_wf, state_wfb. cbn [s_inputs s_outputs s_mint set_s_outputs]. intros W Wl.
  apply andb_true_iff in W. destruct W as [W Wm]. apply andb_true_iff in W. destruct W as [Wi Wo].
  rewrite Wi, Wm. rewrite andb_true_r. cbn. apply forallb_forall. intros o I. rewrite Forall_forall in Wl. apply Wl. exact I.
Qed.

Lemma state_wf_outputs_forall s : state_wf s -> Forall (fun o => value_wf (o_amount o)) (s_outputs s).
Proof.
  intros W. unfold state_wf, state_wfb in W. apply andb_true_iff in W. destruct W as [W _].
  apply andb_true_iff in W. destruct W as [_ W]. rewrite forallb_forall in W. apply Forall_forall. exact W.
Qed.

Lemma consumed_coin_set_outputs l s : consumed_coin (set_s_outputs l s) = consumed_coin s.
Proof. reflexivity. Qed.

Lemma produced_add_output x s :
  produced_coin_no_fee (set_s_outputs (s_outputs s ++ [x]) s) = produced_coin_no_fee s + coin (o_amount x).
Proof.
  unfold produced_coin_no_fee. cbn [s_outputs set_s_outputs s_cfg s_certs s_proposals s_donation].
  rewrite map_app, sum_coin_app. unfold sum_coin at 2. cbn. lia.
Qed.

Lemma out_qty_add_output x s p n :
  sum_qty (map o_amount (s_outputs (set_s_outputs (s_outputs s ++ [x]) s))) p n
  = sum_qty (map o_amount (s_outputs s)) p n + qty (o_amount x) p n.
Proof.
  cbn [s_outputs set_s_outputs]. rewrite map_app, sum_qty_app. unfold sum_qty at 2. cbn. lia.
Qed.

(* moving [amount x] from change_left to a new output keeps the open balance *)
Lemma open_balance_add_output s cl cl' x :
  open_balance s cl ->
  coin cl = coin cl' + coin (o_amount x) -> (forall p n, qty cl p n = qty cl' p n + qty (o_amount x) p n) ->
  open_balance (set_s_outputs (s_outputs s ++ [x]) s) cl'.
Proof.
  intros [C Q] Hc Hq. split.
  - rewrite consumed_coin_set_outputs, produced_add_output. lia.
  - intros p n. rewrite out_qty_add_output. cbn [s_inputs set_s_outputs]. unfold mint_of. cbn [s_mint set_s_outputs].
    specialize (Q p n). specialize (Hq p n). unfold mint_of in Q. lia.
Qed.

Lemma open_balance_closed s fee cl :
  open_balance s cl -> coin cl = fee -> (forall p n, qty cl p n = 0) -> balanced_sem s fee.
Proof.
  intros [C Q] Hc Hq. split; [lia|]. intros p n. rewrite Q, Hq. lia.
Qed.

Definition utxos_wf (l : list (N * value)) : Prop := Forall (fun e : N * value => value_wf (snd e)) l.

(* ------------------------------------------------------------------------------------------- *)
Section Proofs.
  Context {O : Type}.
  Variable orc : @oracle O.

  (* typing premise: the implementation's answers are u64 (BigNum) and Values; nothing is assumed about WHICH *)
  Definition oracle_u64 : Prop :=
    (forall st o v, fst (ask_fee orc st o) = Ok v -> v < two64) /\
    (forall x o v, fst (ask_min_ada orc x o) = Ok v -> v < two64) /\
    (forall st utxos o, utxos_wf utxos -> utxos_wf (fst (fst (ask_select orc st utxos o)))).
  Hypothesis OU : oracle_u64.

  Notation M := (@M O).
  Implicit Types J P : state -> Prop.

  (* partial correctness + an invariant J that survives failures *)
  Definition hoare {A} (J P : state -> Prop) (m : M A) (Q : A -> state -> Prop) : Prop :=
    forall s o, J s -> P s ->
      J (out_st (m s o)) /\ match out_res (m s o) with Ok a => Q a (out_st (m s o)) | _ => True end.

  Lemma hoare_conseq {A} J (P P' : state -> Prop) (m : M A) (Q Q' : A -> state -> Prop) :
    hoare J P m Q -> (forall s, J s -> P' s -> P s) -> (forall a s, J s -> Q a s -> Q' a s) -> hoare J P' m Q'.
  Proof.
    intros H HP HQ s o Js Ps. destruct (H s o Js (HP s Js Ps)) as [J' R]. split; [exact J'|].
    destruct (out_res (m s o)); auto.
  Qed.

  Lemma hoare_ret {A} J (Q : A -> state -> Prop) (a : A) : hoare J (Q a) (ret a) Q.
  Proof. intros s o Js Ps. cbn. auto. Qed.

  Lemma hoare_ret' {A} J (P : state -> Prop) (Q : A -> state -> Prop) (a : A) :
    (forall s, J s -> P s -> Q a s) -> hoare J P (ret a) Q.
  Proof. intros H s o Js Ps. cbn. auto. Qed.

  Lemma hoare_fail {A} J P (e : result A) (Q : A -> state -> Prop) :
    (forall a, e <> Ok a) -> hoare J P (lift e) Q.
  Proof. intros H s o Js Ps. cbn. split; [exact Js|]. destruct e; auto. exfalso. eapply H. reflexivity. Qed.

  Lemma hoare_bind {A B} J P (m : M A) (f : A -> M B) Q R :
    hoare J P m Q -> (forall a, hoare J (Q a) (f a) R) -> hoare J P (bindM m f) R.
  Proof.
    intros Hm Hf s o Js Ps. unfold bindM. destruct (Hm s o Js Ps) as [J' Qa].
    destruct (out_res (m s o)) as [a| | |] eqn:E; cbn; auto.
    apply (Hf a); assumption.
  Qed.

  Lemma hoare_lift_bind {A B} J P (r : result A) (f : A -> M B) R :
    (forall a, r = Ok a -> hoare J P (f a) R) -> hoare J P (bindM (lift r) f) R.
  Proof.
    intros H s o Js Ps. unfold bindM, lift. cbn. destruct r as [a| | |]; cbn; auto.
    apply (H a eq_refl); assumption.
  Qed.

  Lemma hoare_get_bind {B} J P (f : state -> M B) R :
    (forall s0, hoare J (fun s => s = s0 /\ P s) (f s0) R) -> hoare J P (bindM get f) R.
  Proof. intros H s o Js Ps. unfold bindM, get. cbn. apply (H s); auto. Qed.

  Lemma hoare_modify_bind {B} J P (g : state -> state) (k : unit -> M B) P' R :
    (forall s, J s -> P s -> J (g s) /\ P' (g s)) -> hoare J P' (k tt) R -> hoare J P (bindM (modify g) k) R.
  Proof.
    intros Hg Hk s o Js Ps. unfold bindM, modify. cbn. destruct (Hg s Js Ps) as [J' P'']. apply Hk; assumption.
  Qed.

  Lemma hoare_askF_bind {B} J P st (f : N -> M B) R :
    (forall v, v < two64 -> hoare J P (f v) R) -> hoare J P (bindM (askF orc st) f) R.
  Proof.
    intros H s o Js Ps. unfold bindM, askF. cbn.
    destruct (fst (ask_fee orc st o)) as [v| | |] eqn:E; cbn; auto.
    apply H; auto. destruct OU as [U _]. eapply U. exact E.
  Qed.

  Lemma hoare_askA_bind {B} J P x (f : N -> M B) R :
    (forall v, v < two64 -> hoare J P (f v) R) -> hoare J P (bindM (askA orc x) f) R.
  Proof.
    intros H s o Js Ps. unfold bindM, askA. cbn.
    destruct (fst (ask_min_ada orc x o)) as [v| | |] eqn:E; cbn; auto.
    apply H; auto. destruct OU as [_ [U _]]. eapply U. exact E.
  Qed.

  Lemma hoare_askS_bind {B} J P v (f : bool -> M B) R :
    (forall b, hoare J P (f b) R) -> hoare J P (bindM (askS orc v) f) R.
  Proof. intros H s o Js Ps. unfold bindM, askS. cbn. apply H; auto. Qed.

  Lemma hoare_askT_bind {B} J P st (f : bool -> M B) R :
    (forall b, hoare J P (f b) R) -> hoare J P (bindM (askT orc st) f) R.
  Proof. intros H s o Js Ps. unfold bindM, askT. cbn. apply H; auto. Qed.

  Lemma hoare_if {A} J P (b : bool) (m1 m2 : M A) Q :
    (b = true -> hoare J P m1 Q) -> (b = false -> hoare J P m2 Q) -> hoare J P (if b then m1 else m2) Q.
  Proof. destruct b; auto. Qed.

  Lemma hoare_catch {A} J P (m : M A) Q :
    hoare J P m Q -> hoare J P (catch m) (fun r s => match r with Some a => Q a s | None => True end).
  Proof.
    intros H s o Js Ps. unfold catch. destruct (H s o Js Ps) as [J' R].
    destruct (out_res (m s o)); cbn; auto.
  Qed.

  Lemma hoare_pre_false {A} J (P : state -> Prop) (m : M A) Q : (forall s, J s -> P s -> False) -> (forall s o, J s -> J (out_st (m s o))) -> hoare J P m Q.
  Proof. intros H HJ s o Js Ps. exfalso. eauto. Qed.

  (* ----------------------------------------------------------------------------------------- *)
  (* fee policy *)

  (* the invariant carried through every run, failing or not: the state stays well-formed and its configuration
     (protocol parameters, flags) is never touched *)
  Variable cfg0 : config.
  Definition WF (s : state) : Prop := state_wf s /\ s_cfg s = cfg0.

  Lemma WF_wf s : WF s -> state_wf s.
  Proof. intros [H _]. exact H. Qed.
  Lemma WF_set_final_fee v s : WF s -> WF (set_final_fee v s).
  Proof. intros [H C]. split; [apply state_wf_set_final_fee; exact H | exact C]. Qed.
  Lemma WF_add_output x s : WF s -> value_wf (o_amount x) -> WF (set_s_outputs (s_outputs s ++ [x]) s).
  Proof. intros [H C] W. split; [apply state_wf_add_output; assumption | exact C]. Qed.
  Lemma WF_set_outputs l s : WF s -> Forall (fun o => value_wf (o_amount o)) l -> WF (set_s_outputs l s).
  Proof. intros [H C] W. split; [apply state_wf_set_outputs; assumption | exact C]. Qed.

  Lemma min_fee_pub_spec P :
    hoare WF P (min_fee_pub orc) (fun v s => P s /\ aligned (s_fee_request s) v).
  Proof.
    unfold min_fee_pub. apply hoare_get_bind. intros s0. apply hoare_askF_bind. intros f Lf.
    apply hoare_ret'. intros s _ [E Ps]. subst s. split; [exact Ps|]. apply get_new_fee_aligned.
  Qed.

  Lemma output_admissible_spec P x : hoare WF P (output_admissible orc x) (fun _ s => P s).
  Proof.
    unfold output_admissible. apply hoare_askS_bind. intros big. apply hoare_if; intros _.
    - apply hoare_fail. discriminate.
    - apply hoare_askA_bind. intros ma _. apply hoare_if; intros _.
      + apply hoare_fail. discriminate.
      + apply hoare_ret'. auto.
  Qed.

  Lemma output_acceptable_spec P x : hoare WF P (output_acceptable orc x) (fun _ s => P s).
  Proof.
    unfold output_acceptable. destruct (value_has_empty_entries (o_amount x)); [apply hoare_fail; discriminate|].
    apply output_admissible_spec.
  Qed.

  (* fee_for_output leaves the builder untouched; under an Exactly request the increment is 0 *)
  Lemma fee_for_output_spec P x :
    hoare WF P (fee_for_output orc x)
      (fun v s => P s /\ v < two64 /\ (forall e, s_fee_request s = FeeExactly e -> v = 0)).
  Proof.
    unfold fee_for_output. apply hoare_get_bind. intros s0. apply hoare_askF_bind. intros fb Lb.
    eapply hoare_bind; [apply output_acceptable_spec|]. intros u.
    apply hoare_askF_bind. intros fa La. cbn beta.
    intros s o Js [E Ps]. subst s. cbn. split; [exact Js|].
    unfold checked_sub.
    destruct (get_new_fee (s_fee_request s0) fb <=? get_new_fee (s_fee_request s0) fa) eqn:L; cbn; [|exact I].
    split; [exact Ps|]. split.
    - assert (get_new_fee (s_fee_request s0) fa < two64 \/ exists e, s_fee_request s0 = FeeExactly e \/ s_fee_request s0 = FeeNotLess e).
      { destruct (s_fee_request s0) as [|old|old]; cbn; [left; exact La | right; exists old; auto | right; exists old; auto]. }
      destruct (s_fee_request s0) as [|old|old]; cbn in *.
      + lia.
      + destruct (N.ltb_spec fa old), (N.ltb_spec fb old); lia.
      + lia.
    - intros e E. rewrite E. cbn. lia.
  Qed.

  Lemma add_output_spec (P : state -> Prop) x (Q : unit -> state -> Prop) :
    value_wf (o_amount x) ->
    (forall s, WF s -> P s -> Q tt (set_s_outputs (s_outputs s ++ [x]) s)) ->
    hoare WF P (add_output orc x) Q.
  Proof.
    intros Wx H. unfold add_output. eapply hoare_bind; [apply output_acceptable_spec|]. intros u.
    intros s o Js Ps. cbn. split; [apply WF_add_output; assumption | apply H; assumption].
  Qed.

  Lemma hoare_put J P (s' : state) (Q : unit -> state -> Prop) :
    (forall s, J s -> P s -> J s' /\ Q tt s') -> hoare J P (put s') Q.
  Proof. intros H s o Js Ps. cbn. apply (H s); assumption. Qed.

  Lemma hoare_pre_pure {A} J P (phi : Prop) (m : M A) Q :
    (forall s, J s -> P s -> phi) -> (phi -> hoare J P m Q) -> hoare J P m Q.
  Proof. intros H1 H2 s o Js Ps. apply H2; eauto. Qed.

  Lemma hoare_weaken {A} J P P' (m : M A) Q :
    (forall s, J s -> P' s -> P s) -> hoare J P m Q -> hoare J P' m Q.
  Proof. intros H1 H2 s o Js Ps. apply H2; auto. Qed.

  Lemma hoare_modify J P (g : state -> state) (Q : unit -> state -> Prop) :
    (forall s, J s -> P s -> J (g s) /\ Q tt (g s)) -> hoare J P (modify g) Q.
  Proof. intros H s o Js Ps. cbn. apply (H s); assumption. Qed.

  (* ----------------------------------------------------------------------------------------- *)
  (* pack_nfts_for_change only produces well-formed multiassets (what it packs is irrelevant for the balance:
     every multiasset it returns is subtracted from change_left by an exact, checked subtraction) *)

  Definition mas_wf (l : list multiasset) : Prop := Forall (fun m => ma_wfb m = true) l.

  Definition pack_wf (a : pack_acc) : Prop :=
    value_wf (pa_output a) /\ value_wf (pa_old a) /\ ma_wfb (pa_next a) = true /\
    assets_wfb (pa_rebuilt a) = true /\ mas_wf (pa_changes a).

  Lemma value_wf_set_multiasset m c : c < two64 -> ma_wfb m = true -> value_wf (value_set_multiasset m (value_new c)).
  Proof. intros L W. apply value_wf_iff. cbn. split; assumption. Qed.

  Lemma value_wf_multiasset v m : value_wf v -> multiasset_of v = Some m -> ma_wfb m = true.
  Proof. intros W E. apply value_wf_iff in W. destruct W as [_ W]. rewrite E in W. exact W. Qed.

  Lemma value_wf_set_coin c v : c < two64 -> value_wf v -> value_wf (value_set_coin c v).
  Proof. intros L W. apply value_wf_iff in W. apply value_wf_iff. cbn. destruct W as [_ W]. split; assumption. Qed.

  Lemma empty_output_amount_wf : value_wf empty_output_amount.
  Proof. reflexivity. Qed.

  Lemma two64_pos' : 0 < two64.
  Proof. reflexivity. Qed.

  Lemma will_overflow_spec P out cur policy name q :
    hoare WF P (will_adding_asset_make_output_overflow orc out cur policy name q) (fun _ s => P s).
  Proof.
    unfold will_adding_asset_make_output_overflow. apply hoare_lift_bind. intros ac _.
    apply hoare_askA_bind. intros ma _. intros s o Js Ps. cbn. auto.
  Qed.

  Lemma unwrap_ma_bind {B} J P (m : option multiasset) (f : multiasset -> M B) R :
    (forall x, m = Some x -> hoare J P (f x) R) -> hoare J P (bindM (unwrap_ma m) f) R.
  Proof.
    intros H. destruct m as [x|]; unfold unwrap_ma.
    - intros s o Js Ps. unfold bindM, ret. cbn. apply (H x eq_refl); assumption.
    - intros s o Js Ps. unfold bindM, lift. cbn. auto.
  Qed.

  Lemma pack_policy_assets_spec P policy l : forall a,
    pack_wf a -> Forall (fun nq : bytes * N => snd nq < two64) l ->
    hoare WF P (pack_policy_assets orc policy l a) (fun a' s => P s /\ pack_wf a').
  Proof.
    induction l as [|[name q] l IH]; intros a Wa Wl.
    - cbn [pack_policy_assets]. apply hoare_ret'. auto.
    - cbn [pack_policy_assets]. inversion Wl as [|? ? Lq Wl']. subst. cbn [snd] in Lq.
      destruct Wa as [Wo [Wold [Wn [Wr Wc]]]].
      eapply hoare_bind; [apply will_overflow_spec|]. intros ov. cbn beta.
      eapply hoare_bind with (Q := fun a' s => P s /\ pack_wf a').
      + destruct ov.
        * apply hoare_lift_bind. intros oa Eoa.
          assert (Wval : value_wf (value_set_multiasset (ma_insert policy (pa_rebuilt a) (pa_next a)) (value_new 0))).
          { apply value_wf_set_multiasset; [reflexivity|]. apply ma_wfb_insert; assumption. }
          destruct (value_checked_add_ok _ _ _ Wo Wval Eoa) as [_ [_ Woa]].
          apply unwrap_ma_bind. intros m Em. apply hoare_ret'. intros s _ Ps. split; [exact Ps|].
          repeat split; try apply empty_output_amount_wf; try reflexivity.
          apply Forall_app. split; [exact Wc|]. constructor; [|constructor]. eapply value_wf_multiasset; eassumption.
        * apply hoare_ret'. intros s _ Ps. split; [exact Ps|]. repeat split; assumption.
      + intros a'. intros s o Js [Ps Wa']. destruct Wa' as [Wo' [Wold' [Wn' [Wr' Wc']]]].
        apply IH; auto. repeat split; cbn; try assumption. apply assets_wfb_insert; assumption.
  Qed.

  Lemma ma_wfb_cons p a m : ma_wfb ((p, a) :: m) = true -> assets_wfb a = true /\ ma_wfb m = true.
  Proof.
    intros W. apply ma_wfb_iff in W. destruct W as [S F].
    apply (am_sorted_cons bytes_cmp bytes_key_order) in S. destruct S as [_ S].
    split; [apply (F p a); left; reflexivity|]. apply ma_wfb_iff. split; [exact S|]. intros p0 a0 I. apply (F p0 a0). right. exact I.
  Qed.

  Lemma assets_wfb_bound a : assets_wfb a = true -> Forall (fun nq : bytes * N => snd nq < two64) a.
  Proof.
    intros W. unfold assets_wfb in W. apply andb_true_iff in W. destruct W as [_ F].
    rewrite forallb_forall in F. apply Forall_forall. intros x I. specialize (F x I). lia.
  Qed.

  Lemma pack_policies_spec P l : forall out changes,
    ma_wfb l = true -> value_wf out -> mas_wf changes ->
    hoare WF P (pack_policies orc l out changes) (fun r s => P s /\ value_wf (fst r) /\ mas_wf (snd r)).
  Proof.
    induction l as [|[policy assets] l IH]; intros out changes Wl Wo Wc.
    - cbn [pack_policies]. apply hoare_ret'. auto.
    - cbn [pack_policies]. destruct (ma_wfb_cons _ _ _ Wl) as [Wa Wl'].
      eapply hoare_bind.
      + apply (pack_policy_assets_spec P policy assets); [|apply assets_wfb_bound; exact Wa].
        repeat split; cbn; try assumption; reflexivity.
      + intros a. cbn beta. intros s o Js [Ps [Wo' [Wold' [Wn' [Wr' Wc']]]]]. revert s o Js Ps.
        change (hoare WF P
          (bindM (lift (value_checked_add (pa_output a) (value_set_multiasset (ma_insert policy (pa_rebuilt a) (pa_next a)) (value_new 0))))
             (fun out_amount => bindM (askA orc (mkOutput fake_addr (value_set_multiasset (ma_insert policy (pa_rebuilt a) (pa_next a)) (value_new 0)) 0))
               (fun min_ada => bindM (askS orc (value_set_coin min_ada out_amount))
                 (fun big => if big then ret (pa_old a, pa_changes a) else pack_policies orc l out_amount (pa_changes a)))))
          (fun r s => P s /\ value_wf (fst r) /\ mas_wf (snd r))).
        apply hoare_lift_bind. intros oa Eoa.
        assert (Wval : value_wf (value_set_multiasset (ma_insert policy (pa_rebuilt a) (pa_next a)) (value_new 0))).
        { apply value_wf_set_multiasset; [reflexivity|]. apply ma_wfb_insert; assumption. }
        destruct (value_checked_add_ok _ _ _ Wo' Wval Eoa) as [_ [_ Woa]].
        apply hoare_askA_bind. intros ma _. apply hoare_askS_bind. intros big. destruct big.
        * apply hoare_ret'. intros s _ Ps. cbn. auto.
        * apply IH; assumption.
  Qed.

  Lemma pack_nfts_spec P ce : value_wf ce ->
    hoare WF P (pack_nfts_for_change orc ce) (fun l s => P s /\ mas_wf l).
  Proof.
    intros W. unfold pack_nfts_for_change. apply unwrap_ma_bind. intros ma Ema.
    eapply hoare_bind.
    - apply (pack_policies_spec P ma); [eapply value_wf_multiasset; eassumption | | constructor].
      apply value_wf_set_multiasset; [apply value_wf_coin; exact W | reflexivity].
    - intros r. cbn beta. intros s o Js [Ps [Wr Wc]]. revert s o Js Ps.
      change (hoare WF P (bindM (unwrap_ma (multiasset_of (fst r))) (fun last => ret (snd r ++ [last]))) (fun l s => P s /\ mas_wf l)).
      apply unwrap_ma_bind. intros last El. apply hoare_ret'. intros s _ Ps. split; [exact Ps|].
      apply Forall_app. split; [exact Wc|]. constructor; [|constructor]. eapply value_wf_multiasset; eassumption.
  Qed.

  (* ----------------------------------------------------------------------------------------- *)
  (* the packing loop *)

  Definition loop_inv (rq : fee_request) (cl : value) (nf : N) (s : state) : Prop :=
    s_fee_request s = rq /\ open_balance s cl /\ value_wf cl /\ aligned rq nf /\ nf < two64.

  Lemma aligned_add rq nf v : aligned rq nf -> (forall e, rq = FeeExactly e -> v = 0) -> aligned rq (nf + v).
  Proof.
    destruct rq as [|f|e]; cbn; intros A Z; [exact I | lia |].
    rewrite (Z e eq_refl). lia.
  Qed.

  Lemma checked_add_ok a b c : checked_add a b = Ok c -> c = a + b /\ c < two64.
  Proof. rewrite checked_add_exact. intros H. apply exact_or_error_ok_iff in H. destruct H as [-> H]. auto. Qed.

  Lemma change_outputs_loop_spec addr extra rq l : forall cl nf, mas_wf l ->
    hoare WF (loop_inv rq cl nf) (change_outputs_loop orc addr extra l cl nf)
      (fun r s => loop_inv rq (fst r) (snd r) s).
  Proof.
    induction l as [|nft l IH]; intros cl nf Wl.
    - cbn [change_outputs_loop]. apply hoare_ret'. auto.
    - cbn [change_outputs_loop]. inversion Wl as [|? ? Wn Wl']. subst.
      apply hoare_askA_bind. intros min_ada Lm.
      set (cv := value_set_coin min_ada (value_set_multiasset nft (value_new 0))).
      assert (Wcv : value_wf cv).
      { apply value_wf_set_coin; [exact Lm|]. apply value_wf_set_multiasset; [reflexivity | exact Wn]. }
      eapply hoare_bind; [apply fee_for_output_spec|]. intros ffc. cbn beta.
      apply hoare_pre_pure with (phi := value_wf cl /\ aligned rq nf /\ nf < two64 /\ ffc < two64 /\
                                          (forall e, rq = FeeExactly e -> ffc = 0)).
      { intros s _ [[Erq [OB [Wcl [Al Lnf]]]] [Lffc Ex]]. repeat split; try assumption.
        intros e Ee. apply (Ex e). rewrite Erq. exact Ee. }
      intros [Wcl [Al [Lnf [Lffc Ex]]]].
      apply hoare_weaken with (P := loop_inv rq cl nf); [intros s _ [H _]; exact H|].
      cut (hoare WF (loop_inv rq cl nf)
             (bindM (lift (checked_add nf ffc)) (fun new_fee' =>
               bindM (lift (checked_add min_ada new_fee')) (fun need =>
                 if coin cl <? need then lift Err
                 else bindM (lift (value_checked_sub cl cv)) (fun change_left' =>
                        bindM (add_output orc (mkOutput addr cv extra)) (fun _ =>
                          change_outputs_loop orc addr extra l change_left' new_fee')))))
             (fun r s => loop_inv rq (fst r) (snd r) s)).
      { intros H. exact H. }
      apply hoare_lift_bind. intros nf' Enf. apply checked_add_ok in Enf. destruct Enf as [-> Lnf'].
      apply hoare_lift_bind. intros need _.
      apply hoare_if; intros _; [apply hoare_fail; discriminate|].
      apply hoare_lift_bind. intros cl' Ecl.
      destruct (value_checked_sub_ok _ _ _ Wcl Wcv Ecl) as [Hle [Hc [Hq Wcl']]].
      eapply hoare_bind.
      + apply add_output_spec with (Q := fun _ s => loop_inv rq cl' (nf + ffc) s); [exact Wcv|].
        intros s0 _ [Erq0 [OB0 [_ [Al0 _]]]]. split; [|split; [|split; [|split]]].
        * exact Erq0.
        * apply (open_balance_add_output s0 cl cl' (mkOutput addr cv extra) OB0); cbn [o_amount]; [lia|].
          intros p n. destruct (Hq p n). lia.
        * exact Wcl'.
        * apply aligned_add; [exact Al0|]. exact Ex.
        * exact Lnf'.
      + intros u. apply IH. exact Wl'.
  Qed.

  Lemma change_while_loop_spec addr extra rq fuel : forall cl nf,
    hoare WF (loop_inv rq cl nf) (change_while_loop orc fuel addr extra cl nf)
      (fun r s => loop_inv rq (fst r) (snd r) s).
  Proof.
    induction fuel as [|fuel IH]; intros cl nf; cbn [change_while_loop].
    - destruct (change_has_assets_left cl); [apply hoare_fail; discriminate | apply hoare_ret'; auto].
    - destruct (change_has_assets_left cl); [|apply hoare_ret'; auto].
      apply hoare_pre_pure with (phi := value_wf cl); [intros s _ [_ [_ [Wcl _]]]; exact Wcl|]. intros Wcl.
      change (hoare WF (loop_inv rq cl nf)
        (bindM (pack_nfts_for_change orc cl) (fun nft_changes =>
           if existsb ma_positive nft_changes
           then bindM (change_outputs_loop orc addr extra nft_changes cl nf)
                      (fun r => change_while_loop orc fuel addr extra (fst r) (snd r))
           else lift Err))
        (fun r s => loop_inv rq (fst r) (snd r) s)).
      eapply hoare_bind; [apply pack_nfts_spec; exact Wcl|].
      intros l. cbn beta. apply hoare_if; intros _; [|apply hoare_fail; discriminate].
      apply hoare_pre_pure with (phi := mas_wf l); [intros s _ [_ Wl]; exact Wl|]. intros Wl.
      apply hoare_weaken with (P := loop_inv rq cl nf); [intros s _ [H _]; exact H|].
      eapply hoare_bind; [apply change_outputs_loop_spec; exact Wl|].
      intros r. apply IH.
  Qed.

  (* ----------------------------------------------------------------------------------------- *)
  (* after the fee has been taken out of change_left *)

  Definition open_balance_fee (s : state) (cl : value) (nf : N) : Prop :=
    consumed_coin s = produced_coin_no_fee s + coin cl + nf /\
    forall p n, sum_qty (map snd (s_inputs s)) p n + mint_pos (mint_of s) p n
                = sum_qty (map o_amount (s_outputs s)) p n + mint_neg (mint_of s) p n + qty cl p n.

  Definition inv2 (rq : fee_request) (cl : value) (nf : N) (s : state) : Prop :=
    s_fee_request s = rq /\ open_balance_fee s cl nf /\ value_wf cl /\ aligned rq nf.

  Lemma value_is_zero_sem v : value_is_zero v = true -> coin v = 0 /\ forall p n, qty v p n = 0.
  Proof.
    unfold value_is_zero. rewrite andb_true_iff, N.eqb_eq. intros [C M]. split; [exact C|].
    intros p n. rewrite qty_unfold. destruct (multiasset_of v) as [m|]; [|reflexivity].
    unfold ma_len in M. destruct m; [reflexivity|]. cbn in M. lia.
  Qed.

  Lemma ma_positive_false_qty m : ma_wfb m = true -> ma_positive m = false -> forall p n, ma_qty m p n = 0.
  Proof.
    intros W H p n. unfold ma_positive, ma_partial_cmp in H. rewrite !ma_is_all_zeros_leb in H.
    destruct (ma_leb_sem m ma_new) eqn:L.
    - pose proof (proj1 (ma_leb_sem_iff m ma_new W) L) as L'. specialize (L' p n). rewrite ma_qty_nil in L'. lia.
    - destruct (ma_leb_sem ma_new m) eqn:L2; [discriminate|]. cbv in L2. discriminate.
  Qed.

  Lemma has_assets_false_qty v : value_wf v -> has_assets (multiasset_of v) = false -> forall p n, qty v p n = 0.
  Proof.
    unfold has_assets. intros W H p n. rewrite qty_unfold. destruct (multiasset_of v) as [m|] eqn:E; [|reflexivity].
    apply ma_positive_false_qty; [eapply value_wf_multiasset; eassumption | exact H].
  Qed.

  Lemma produced_set_outputs l s :
    produced_coin_no_fee (set_s_outputs l s) + sum_coin (map o_amount (s_outputs s))
    = produced_coin_no_fee s + sum_coin (map o_amount l).
  Proof. unfold produced_coin_no_fee. cbn [s_outputs set_s_outputs s_cfg s_certs s_proposals s_donation]. lia. Qed.

  Lemma balanced_of_fee s nf cl :
    s_fee s = Some nf -> open_balance_fee s cl nf -> coin cl = 0 -> (forall p n, qty cl p n = 0) -> balanced s.
  Proof.
    intros F [C Q] Hc Hq. exists nf. split; [apply get_fee_if_set_some; exact F|].
    split; [lia|]. intros p n. rewrite Q, Hq. lia.
  Qed.

  Lemma top_up_last_spec cl nf : value_wf cl ->
    hoare WF (fun s => s_fee s = Some nf /\ open_balance_fee s cl nf) (top_up_last orc cl) (fun _ s => balanced s).
  Proof.
    intros Wcl. unfold top_up_last. apply hoare_get_bind. intros s0.
    destruct (rev (s_outputs s0)) as [|last before] eqn:E; [apply hoare_fail; discriminate|].
    assert (Eo : s_outputs s0 = rev before ++ [last]).
    { rewrite <- (rev_involutive (s_outputs s0)), E. reflexivity. }
    apply hoare_pre_pure with (phi := state_wf s0); [intros s Js [Es _]; subst; exact (proj1 Js)|]. intros W0.
    pose proof (state_wf_outputs_forall s0 W0) as Fo. rewrite Eo in Fo. apply Forall_app in Fo. destruct Fo as [Fb Fl].
    inversion Fl as [|? ? Wlast _]. subst.
    apply hoare_lift_bind. intros amount Ea.
    destruct (value_checked_add_ok _ _ _ Wlast Wcl Ea) as [Ca [Qa Wa]].
    eapply hoare_bind with (Q := fun _ s => balanced s); [|intros u; apply output_admissible_spec].
    apply hoare_put. intros s Js [Es [F [C Q]]]. subst s. split.
    - apply WF_set_outputs; [exact Js|]. apply Forall_app. split; [exact Fb|]. constructor; [exact Wa | constructor].
    - exists nf. split; [apply get_fee_if_set_some; exact F|]. split.
      + pose proof (produced_set_outputs (rev before ++ [mkOutput (o_addr last) amount (o_extra last)]) s0) as Pr.
        rewrite Eo in Pr. rewrite !map_app, !sum_coin_app in Pr.
        change (sum_coin (map o_amount [last])) with (coin (o_amount last) + 0) in Pr.
        change (sum_coin (map o_amount [mkOutput (o_addr last) amount (o_extra last)])) with (coin amount + 0) in Pr.
        rewrite consumed_coin_set_outputs. lia.
      + intros p n. specialize (Q p n). cbn [s_inputs s_outputs set_s_outputs]. unfold mint_of in *. cbn [s_mint set_s_outputs].
        rewrite Eo in Q. rewrite !map_app, !sum_qty_app in *.
        change (sum_qty (map o_amount [last]) p n) with (qty (o_amount last) p n + 0) in Q.
        change (sum_qty (map o_amount [mkOutput (o_addr last) amount (o_extra last)]) p n) with (qty amount p n + 0).
        rewrite Qa. lia.
  Qed.

  Lemma sub_new_ok cl nf cl1 : value_wf cl -> nf < two64 -> value_checked_sub cl (value_new nf) = Ok cl1 ->
    nf <= coin cl /\ coin cl1 = coin cl - nf /\ (forall p n, qty cl1 p n = qty cl p n) /\ value_wf cl1.
  Proof.
    intros W L E. destruct (value_checked_sub_ok _ _ _ W (value_wf_new _ L) E) as [H1 [H2 [H3 H4]]].
    cbn in H1, H2. split; [exact H1|]. split; [exact H2|]. split; [|exact H4].
    intros p n. destruct (H3 p n) as [_ H]. rewrite H, qty_new. lia.
  Qed.

  (* the fee re-check at the end of the change paths reads the state and may fail: it changes nothing *)
  Lemma check_fee_after_change_spec P : hoare WF P (check_fee_after_change orc) (fun _ s => P s).
  Proof.
    unfold check_fee_after_change. apply hoare_get_bind. intros s0.
    assert (G : hoare WF (fun s => s = s0 /\ P s)
                  (match s_fee s0 with
                   | Some fee => bindM (askF orc s0) (fun mf => if fee <? mf then lift Err else ret tt)
                   | None => ret tt
                   end) (fun _ s => P s)).
    { destruct (s_fee s0).
      - apply hoare_askF_bind. intros mf _. apply hoare_if; intros _; [apply hoare_fail; discriminate|].
        apply hoare_ret'. intros s _ [_ Ps]. exact Ps.
      - apply hoare_ret'. intros s _ [_ Ps]. exact Ps. }
    destruct (s_fee_request s0); try exact G.
    apply hoare_ret'. intros s _ [_ Ps]. exact Ps.
  Qed.

  Lemma asset_branch_spec fuel addr extra rq ti to fee ce :
    value_wf ti -> value_wf to -> value_checked_sub ti to = Ok ce -> aligned rq fee -> fee < two64 ->
    hoare WF (fun s => s_fee_request s = rq /\ open_balance s ce)
      (asset_branch orc fuel addr extra ti to fee) (fun _ s => balanced s).
  Proof.
    intros Wti Wto Ece Al Lfee. unfold asset_branch.
    apply hoare_lift_bind. intros cl0 Ecl0. rewrite Ece in Ecl0. inversion Ecl0. subst cl0. clear Ecl0.
    destruct (value_checked_sub_ok _ _ _ Wti Wto Ece) as [_ [_ [_ Wce]]].
    apply hoare_askA_bind. intros minimum _.
    apply hoare_weaken with (P := loop_inv rq ce fee).
    { intros s _ [Erq OB]. repeat split; try assumption; apply OB. }
    eapply hoare_bind; [apply change_while_loop_spec|]. intros r. cbn beta.
    apply hoare_pre_pure with (phi := value_wf (fst r) /\ aligned rq (snd r) /\ snd r < two64).
    { intros s _ [_ [_ [H1 [H2 H3]]]]. auto. }
    intros [Wr [Alr Lr]].
    apply hoare_lift_bind. intros cl1 Ecl1.
    destruct (sub_new_ok _ _ _ Wr Lr Ecl1) as [Hle [Hc [Hq Wcl1]]].
    apply hoare_get_bind. intros s1.
    apply hoare_weaken with (P := inv2 rq cl1 (snd r)).
    { intros s _ [_ [Erq [[C Q] _]]]. split; [exact Erq|]. split; [|split; assumption].
      split; [lia|]. intros p n. rewrite Hq. apply Q. }
    eapply hoare_bind with (Q := fun r2 s => inv2 rq (fst r2) (snd r2) s).
    - apply hoare_if; intros _; [|apply hoare_ret'; auto].
      eapply hoare_bind; [apply fee_for_output_spec|]. intros af. cbn beta.
      apply hoare_pre_pure with (phi := af < two64 /\ (forall e, rq = FeeExactly e -> af = 0)).
      { intros s _ [[Erq _] [L Ex]]. split; [exact L|]. intros e Ee. apply (Ex e). rewrite Erq. exact Ee. }
      intros [Laf Exaf].
      apply hoare_weaken with (P := inv2 rq cl1 (snd r)); [intros s _ [H _]; exact H|].
      apply hoare_lift_bind. intros pot Epot.
      destruct (sub_new_ok _ _ _ Wcl1 Laf Epot) as [Hle2 [Hc2 [Hq2 Wpot]]].
      apply hoare_if; intros _; [|apply hoare_ret'; auto].
      apply hoare_lift_bind. intros nf' Enf. apply checked_add_ok in Enf. destruct Enf as [-> Lnf'].
      eapply hoare_bind.
      + apply add_output_spec with (Q := fun _ s => inv2 rq value_zero (snd r + af) s); [exact Wpot|].
        intros s0 _ [Erq0 [[C0 Q0] [_ Al0]]]. split; [exact Erq0|]. split; [|split; [reflexivity|]].
        * split.
          -- rewrite consumed_coin_set_outputs, produced_add_output. cbn [o_amount coin value_zero value_new]. lia.
          -- intros p n. rewrite out_qty_add_output. cbn [o_amount s_inputs set_s_outputs]. unfold mint_of in *.
             cbn [s_mint set_s_outputs]. specialize (Q0 p n). rewrite Hq2.
             change (qty value_zero p n) with 0. lia.
        * apply aligned_add; assumption.
      + intros u. apply hoare_ret'. auto.
    - intros r2. cbn beta.
      apply hoare_pre_pure with (phi := value_wf (fst r2)); [intros s _ [_ [_ [H _]]]; exact H|]. intros Wr2.
      eapply hoare_modify_bind with (P' := fun s => s_fee s = Some (snd r2) /\ open_balance_fee s (fst r2) (snd r2)).
      { intros s Js [Erq [OB [_ Al2]]]. split; [apply WF_set_final_fee; exact Js|].
        split; [apply set_final_fee_aligned; rewrite Erq; exact Al2 | exact OB]. }
      eapply hoare_bind with (Q := fun _ s => balanced s).
      + apply hoare_if; intros Z.
        * apply hoare_ret'. intros s _ [F OB]. destruct (value_is_zero_sem _ Z) as [Zc Zq].
          eapply balanced_of_fee; eassumption.
        * apply top_up_last_spec. exact Wr2.
      + intros u. eapply hoare_bind; [apply check_fee_after_change_spec|]. intros u2. apply hoare_ret'. auto.
  Qed.

  (* ----------------------------------------------------------------------------------------- *)
  (* the branch without assets *)

  Lemma burn_fin rq ce (P' : state -> Prop) :
    (forall p n, qty ce p n = 0) -> aligned rq (coin ce) ->
    (forall s, P' s -> s_fee_request s = rq /\ open_balance s ce) ->
    hoare WF P' (bindM (modify (set_final_fee (coin ce))) (fun _ => ret false)) (fun _ s => balanced s).
  Proof.
    intros Hq Al' HP. eapply hoare_modify_bind with (P' := fun s => balanced s); [|apply hoare_ret'; auto].
    intros s Js Ps. destruct (HP s Ps) as [Erq OB]. split; [apply WF_set_final_fee; exact Js|].
    exists (coin ce). split.
    - apply get_fee_if_set_some. apply set_final_fee_aligned. rewrite Erq. exact Al'.
    - apply (open_balance_closed s (coin ce) ce OB eq_refl Hq).
  Qed.

  Lemma burn_extra_spec rq fee ce :
    aligned rq fee -> fee <= coin ce -> (forall p n, qty ce p n = 0) ->
    hoare WF (fun s => s_fee_request s = rq /\ open_balance s ce) (burn_extra (coin ce)) (fun _ s => balanced s).
  Proof.
    intros Al Hle Hq. unfold burn_extra. apply hoare_get_bind. intros s0.
    apply hoare_if; intros _; [apply hoare_fail; discriminate|].
    apply hoare_pre_pure with (phi := s_fee_request s0 = rq); [intros s _ [E [H _]]; subst s; exact H|]. intros Erq0.
    destruct (s_fee_request s0) as [|nl|e] eqn:E0; subst rq.
    - apply (burn_fin FeeUnspecified ce); [exact Hq | exact I | intros s [_ H]; exact H].
    - apply (burn_fin (FeeNotLess nl) ce); [exact Hq | cbn in *; lia | intros s [_ H]; exact H].
    - apply hoare_if; intros L; [apply hoare_fail; discriminate|].
      apply (burn_fin (FeeExactly e) ce); [exact Hq | cbn in *; lia | intros s [_ H]; exact H].
  Qed.

  Lemma pure_branch_spec addr extra rq fee ce :
    value_wf ce -> aligned rq fee -> fee < two64 -> fee <= coin ce -> (forall p n, qty ce p n = 0) ->
    hoare WF (fun s => s_fee_request s = rq /\ open_balance s ce)
      (pure_branch orc addr extra ce fee) (fun _ s => balanced s).
  Proof.
    intros Wce Al Lfee Hle Hq. unfold pure_branch.
    apply hoare_askA_bind. intros min_ada _.
    apply hoare_if; intros _; [eapply burn_extra_spec; eassumption|].
    eapply hoare_bind; [apply fee_for_output_spec|]. intros ffc. cbn beta.
    apply hoare_pre_pure with (phi := ffc < two64 /\ (forall e, rq = FeeExactly e -> ffc = 0)).
    { intros s _ [[Erq _] [L Ex]]. split; [exact L|]. intros e Ee. apply (Ex e). rewrite Erq. exact Ee. }
    intros [Lffc Ex].
    apply hoare_weaken with (P := fun s => s_fee_request s = rq /\ open_balance s ce); [intros s _ [H _]; exact H|].
    apply hoare_lift_bind. intros nf Enf. apply checked_add_ok in Enf. destruct Enf as [-> Lnf].
    apply hoare_lift_bind. intros need _.
    apply hoare_if; intros _; [eapply burn_extra_spec; eassumption|].
    eapply hoare_modify_bind with (P' := fun s => s_fee s = Some (fee + ffc) /\ open_balance s ce).
    { intros s Js [Erq OB]. split; [apply WF_set_final_fee; exact Js|]. split; [|exact OB].
      apply set_final_fee_aligned. rewrite Erq. apply aligned_add; assumption. }
    apply hoare_lift_bind. intros amount Ea.
    destruct (sub_new_ok _ _ _ Wce Lnf Ea) as [Hle2 [Hc2 [Hq2 Wa]]].
    eapply hoare_bind with (Q := fun _ s => balanced s);
      [|intros u; eapply hoare_bind; [apply check_fee_after_change_spec|]; intros u2; apply hoare_ret'; auto].
    apply add_output_spec; [exact Wa|].
    intros s _ [F OB]. exists (fee + ffc). split; [apply get_fee_if_set_some; exact F|].
    apply (open_balance_closed _ (fee + ffc) (value_new (fee + ffc))); [|reflexivity | intros; apply qty_new].
    apply (open_balance_add_output s ce (value_new (fee + ffc)) (mkOutput addr amount extra) OB); cbn [o_amount].
    - cbn. lia.
    - intros p n. rewrite Hq2, qty_new. lia.
  Qed.

  (* ----------------------------------------------------------------------------------------- *)
  (* add_change *)

  Lemma open_balance_initial s ti to d :
    state_wf s -> get_total_input s = Ok ti -> get_total_output s = Ok to -> value_checked_sub ti to = Ok d ->
    open_balance s d /\ value_wf d /\ value_wf ti /\ value_wf to.
  Proof.
    intros W Ei Eo Ed.
    destruct (total_input_spec s ti W Ei) as [Wi [Ci Qi]].
    destruct (total_output_spec s to W Eo) as [Wo [Co Qo]].
    destruct (value_checked_sub_ok _ _ _ Wi Wo Ed) as [Hle [Hc [Hq Wd]]].
    split; [|auto]. split.
    - rewrite <- Ci, <- Co. lia.
    - intros p n. rewrite <- Qi, <- Qo. destruct (Hq p n). lia.
  Qed.

  Lemma checked_add_new_bound a c r : value_checked_add a (value_new c) = Ok r -> c < two64.
  Proof.
    unfold value_checked_add, u64_add. cbn [coin value_new].
    destruct (coin a + c <? two64) eqn:L; cbn [bind]; [intros _; lia | discriminate].
  Qed.

  Theorem add_change_balances fuel addr extra :
    hoare WF (fun _ => True) (add_change orc fuel addr extra) (fun _ s => balanced s).
  Proof.
    unfold add_change. apply hoare_get_bind. intros s0.
    destruct (s_fee s0); [apply hoare_fail; discriminate|].
    apply hoare_pre_pure with (phi := state_wf s0); [intros s Js [E _]; subst; exact (proj1 Js)|]. intros W0.
    eapply hoare_bind; [apply min_fee_pub_spec|]. intros fee. cbn beta.
    apply hoare_pre_pure with (phi := aligned (s_fee_request s0) fee); [intros s _ [[E _] A]; subst; exact A|]. intros Al.
    apply hoare_weaken with (P := fun s => s = s0); [intros s _ [[E _] _]; exact E|].
    apply hoare_lift_bind. intros ti Eti. apply hoare_lift_bind. intros to Eto.
    apply hoare_lift_bind. intros shortage _. apply hoare_if; intros _; [apply hoare_fail; discriminate|].
    apply hoare_lift_bind. intros opf Eopf.
    pose proof (checked_add_new_bound _ _ _ Eopf) as Lfee.
    destruct (total_input_spec s0 ti W0 Eti) as [Wti _].
    destruct (total_output_spec s0 to W0 Eto) as [Wto _].
    destruct (value_checked_add_ok _ _ _ Wto (value_wf_new _ Lfee) Eopf) as [Copf [Qopf Wopf]].
    destruct (value_partial_cmp_spec ti opf Wti Wopf) as [SEq [_ [SGt _]]].
    destruct (value_partial_cmp ti opf) as [[| |]|] eqn:Cmp; try (apply hoare_fail; discriminate).
    - (* exact *)
      apply hoare_lift_bind. intros d Ed.
      destruct (open_balance_initial s0 ti to d W0 Eti Eto Ed) as [OB [Wd _]].
      destruct (value_checked_sub_ok _ _ _ Wti Wto Ed) as [Hle [Hc [Hq _]]].
      destruct (proj1 SEq eq_refl) as [Ec Eq].
      assert (Cd : coin d = fee) by (cbn in Copf; lia).
      assert (Qd : forall p n, qty d p n = 0).
      { intros p n. destruct (Hq p n) as [_ H]. rewrite H, Eq, Qopf, qty_new. lia. }
      eapply hoare_modify_bind with (P' := fun s => balanced s); [|apply hoare_ret'; auto].
      intros s Js E. subst s. split; [apply WF_set_final_fee; exact Js|].
      exists fee. split.
      + apply get_fee_if_set_some. rewrite Cd. apply set_final_fee_aligned. exact Al.
      + apply (open_balance_closed s0 fee d OB Cd Qd).
    - (* change *)
      apply hoare_lift_bind. intros ce Ece.
      destruct (open_balance_initial s0 ti to ce W0 Eti Eto Ece) as [OB [Wce _]].
      destruct (value_checked_sub_ok _ _ _ Wti Wto Ece) as [Hle [Hc [Hq _]]].
      destruct (proj1 SGt eq_refl) as [[Lc Lq] _].
      assert (Hfee : fee <= coin ce) by (cbn in Copf; lia).
      apply hoare_if; intros HA.
      + apply hoare_weaken with (P := fun s => s_fee_request s = s_fee_request s0 /\ open_balance s ce);
          [intros s _ E; subst; auto|].
        eapply asset_branch_spec; eassumption.
      + apply hoare_weaken with (P := fun s => s_fee_request s = s_fee_request s0 /\ open_balance s ce);
          [intros s _ E; subst; auto|].
        apply pure_branch_spec; try assumption. apply has_assets_false_qty; [exact Wce | exact HA].
  Qed.

  (* ----------------------------------------------------------------------------------------- *)
  (* add_inputs_from_and_change: whatever the selection added (an arbitrary extension of the input set) *)

  Lemma inputs_insert_forall k v m :
    value_wfb v = true -> forallb (fun e : N * value => value_wfb (snd e)) m = true ->
    forallb (fun e : N * value => value_wfb (snd e)) (inputs_insert k v m) = true.
  Proof.
    intros Wv. induction m as [|[k' v'] m IH]; intros Wm; cbn [inputs_insert forallb snd].
    - rewrite Wv. reflexivity.
    - cbn [forallb snd] in Wm. apply andb_true_iff in Wm. destruct Wm as [W1 W2].
      destruct (N.compare k k'); cbn [forallb snd]; rewrite ?Wv, ?W1, ?W2; try reflexivity.
      rewrite IH by exact W2. reflexivity.
  Qed.

  Lemma WF_add_inputs l s : WF s -> utxos_wf l ->
    WF (set_s_inputs (fold_left (fun m e => inputs_insert (fst e) (value_without_empty_entries (snd e)) m) l (s_inputs s)) s).
  Proof.
    intros [W C] Wl. split; [|exact C].
    unfold state_wf, state_wfb in *. cbn [s_inputs s_outputs s_mint set_s_inputs].
    apply andb_true_iff in W. destruct W as [W Wm]. apply andb_true_iff in W. destruct W as [Wi Wo].
    rewrite Wo, Wm, !andb_true_r.
    revert Wi. generalize (s_inputs s). induction Wl as [|e l We Wl IH]; intros m Wi; [exact Wi|].
    cbn [fold_left]. apply IH. apply inputs_insert_forall; [apply value_without_empty_entries_wf; exact We | exact Wi].
  Qed.

  Lemma add_inputs_spec P l : utxos_wf l -> hoare WF P (add_inputs l) (fun _ _ => True).
  Proof. intros Wl. apply hoare_modify. intros s Js _. split; [apply WF_add_inputs; assumption | exact I]. Qed.

  Lemma insert_by_forall {A} (key : A -> N) (Q : A -> Prop) x l : Q x -> Forall Q l -> Forall Q (insert_by key x l).
  Proof.
    intros Qx F. induction F as [|y l Qy F IH]; cbn [insert_by]; [constructor; auto|].
    destruct (key y <=? key x); constructor; auto.
  Qed.

  Lemma sort_by_key_forall {A} (key : A -> N) (Q : A -> Prop) l : Forall Q l -> Forall Q (sort_by_key key l).
  Proof.
    unfold sort_by_key. intros F. assert (G : Forall Q (@nil A)) by constructor. revert G. generalize (@nil A).
    induction F as [|x l Qx F IH]; intros acc G; cbn [fold_left]; [exact G|].
    apply IH. apply insert_by_forall; assumption.
  Qed.

  Lemma sort_unused_wf used utxos : utxos_wf utxos -> utxos_wf (sort_unused used utxos).
  Proof.
    intros W. unfold sort_unused. apply sort_by_key_forall. apply Forall_forall. intros e I.
    apply filter_In in I. destruct I as [I _]. unfold utxos_wf in W. rewrite Forall_forall in W. apply W. exact I.
  Qed.

  Lemma retry_loop_spec fuel addr extra l : utxos_wf l ->
    hoare WF (fun _ => True) (retry_loop orc fuel addr extra l)
      (fun r s => match r with Some _ => balanced s | None => True end).
  Proof.
    intros Wl. induction Wl as [|e l We Wl IH]; cbn [retry_loop].
    - apply hoare_ret'. auto.
    - eapply hoare_bind; [apply (add_inputs_spec _ [e]); constructor; [exact We | constructor]|]. intros u.
      eapply hoare_bind; [apply hoare_catch; apply add_change_balances|]. intros res. cbn beta.
      destruct res as [v|].
      + apply hoare_ret'. auto.
      + apply hoare_weaken with (P := fun _ => True); [auto|]. exact IH.
  Qed.

  Lemma hoare_askSel_bind {B} J P st utxos (f : list (N * value) * bool -> M B) R : utxos_wf utxos ->
    (forall sel, utxos_wf (fst sel) -> hoare J P (f sel) R) -> hoare J P (bindM (askSel orc st utxos) f) R.
  Proof.
    intros Wu H s o Js Ps. unfold bindM, askSel. cbn. apply H; auto. destruct OU as [_ [_ U]]. apply U. exact Wu.
  Qed.

  Theorem select_and_change_balances fuel utxos addr extra : utxos_wf utxos ->
    hoare WF (fun _ => True) (add_inputs_from_and_change orc fuel utxos addr extra) (fun _ s => balanced s).
  Proof.
    intros Wu. unfold add_inputs_from_and_change. apply hoare_get_bind. intros s0.
    apply hoare_askSel_bind; [exact Wu|]. intros sel Wsel.
    eapply hoare_bind; [apply add_inputs_spec; exact Wsel|]. intros u. cbn beta.
    apply hoare_if; intros _; [apply hoare_fail; discriminate|].
    apply hoare_get_bind. intros s1.
    destruct (s_fee s1); [apply hoare_fail; discriminate|].
    apply hoare_weaken with (P := fun _ => True); [auto|].
    eapply hoare_bind; [apply hoare_catch; apply add_change_balances|]. intros res. cbn beta.
    destruct res as [v|]; [apply hoare_ret'; auto|].
    apply hoare_get_bind. intros s2.
    apply hoare_weaken with (P := fun _ => True); [auto|].
    eapply hoare_bind; [apply retry_loop_spec; apply sort_unused_wf; exact Wu|]. intros r. cbn beta.
    destruct r as [v|]; [apply hoare_ret'; auto | apply hoare_fail; discriminate].
  Qed.

  (* ----------------------------------------------------------------------------------------- *)
  (* build_tx: the final guard *)

  Lemma validate_fee_spec P : hoare WF P (validate_fee orc) (fun _ s => P s).
  Proof.
    unfold validate_fee. apply hoare_get_bind. intros s0.
    destruct (get_fee_if_set s0); [|apply hoare_fail; discriminate].
    apply hoare_if; intros _; [apply hoare_fail; discriminate|].
    apply hoare_askF_bind. intros mf _. apply hoare_if; intros _; [apply hoare_fail; discriminate|].
    apply hoare_ret'. intros s _ [_ Ps]. exact Ps.
  Qed.

  Theorem build_tx_balanced :
    hoare WF (fun _ => True) (build_tx orc) (fun body s => params_balanced s body).
  Proof.
    unfold build_tx. eapply hoare_bind; [apply validate_fee_spec|]. intros u. cbn beta.
    apply hoare_get_bind. intros s0.
    apply hoare_pre_pure with (phi := state_wf s0); [intros s Js [E _]; subst; exact (proj1 Js)|]. intros W0.
    apply hoare_lift_bind. intros [] Evb.
    pose proof (accounting s0 W0 Evb) as Acc.
    unfold build. apply hoare_get_bind. intros s1.
    apply hoare_pre_pure with (phi := s1 = s0); [intros s _ [E1 [E0 _]]; congruence|]. intros ->.
    destruct (get_fee_if_set s0); [|apply hoare_fail; discriminate].
    eapply hoare_bind with (Q := fun _ s => s = s0).
    - destruct (s_mint s0).
      + apply hoare_lift_bind. intros ? _. apply hoare_ret'. intros s _ [E _]. exact E.
      + apply hoare_ret'. intros s _ [E _]. exact E.
    - intros u2. apply hoare_askT_bind. intros big. apply hoare_if; intros _; [apply hoare_fail; discriminate|].
      apply hoare_ret'. intros s _ E. subst s. exact Acc.
  Qed.

End Proofs.
