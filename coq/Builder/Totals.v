(* Builder/Totals.v — C05: the transaction builder's state, its value totals and the ledger's
   preservation-of-value rule.  Executable model; NO proofs in this file (proofs: Builder/TotalsProofs.v).

   Mirrors (rust/src/builders/tx_builder.rs unless said otherwise)
     TxBuilderFee::get_new_fee                    373-387
     set_fee / set_min_fee / set_final_fee        1138-1156
     set_donation / set_current_treasury_value    1515-1532
     validate_balance                             1643-1659
     get_explicit_input / get_implicit_input / get_mint_as_values / get_total_input /
     get_total_output / get_explicit_output / get_deposit / get_fee_if_set      1725-1822
     TxInputsBuilder (BTreeMap keyed by TransactionInput: re-adding an input replaces it)  tx_inputs_builder.rs:450
     WithdrawalsBuilder::add / get_total_withdrawals        withdrawals_builder.rs:18-30,150-156
     MintBuilder::{add_asset, set_asset, update_mint_value, add_amounts, build_unchecked, build}   mint_builder.rs:95-330
     Mint::as_multiasset / as_positive_multiasset / as_negative_multiasset       lib.rs:1648-1679
     Int::{is_positive, as_positive, as_negative}                                numeric/int.rs:30-60
   Deposits / refunds of certificates and proposals are those of C20 (Deposits/Deposits.v), reused.

   API
     types     output (o_addr, o_amount, o_extra), fee_request, config, state (mkState), mint_map
     setters   set_s_inputs / set_s_outputs / set_s_fee / set_s_fee_request / set_s_certs / set_s_withdrawals /
               set_s_mint / set_s_proposals / set_s_donation / set_s_treasury
     fee       get_new_fee, set_final_fee, get_fee_if_set
     inputs    inputs_insert (add_regular_input & co.), wd_insert (WithdrawalsBuilder::add)
     mint      mint_update (MintBuilder::update_mint_value), mint_side (Mint::as_multiasset), int_as_positive,
               int_as_negative, get_mint_as_values, mint_build (MintBuilder::build: Err on a zero quantity),
               mint_get : Z (semantic lookup)
     totals    value_sum, get_explicit_input, get_implicit_input, get_total_input, get_explicit_output,
               get_deposit, get_total_output, validate_balance
     body      tx_body (what build() puts into the TransactionBody, inputs resolved to their values), body_of
     spec      ledger_balanced (Prop), ledger_balancedb (its executable decision used by the judge),
               sum_coin / sum_qty / mint_pos / mint_neg
     wf        state_wf (every value of the state is value_wf, mint keys sorted, quantities in -(2^64-1) .. 2^64-1)
     known     known_mint_min (a mint quantity equal to -2^64: Int::as_negative truncates it to 0)
*)
From CSL Require Import Base.Prelude Base.U64 Num.Value Deposits.Deposits.
Local Open Scope N_scope.

(* ------------------------------------------------------------------------------------------- *)
(* State *)

(* TransactionOutput: the address, datum and script reference are opaque identifiers; only the
   amount takes part in balancing.  [o_extra] stands for (plutus_data, script_ref). *)
Record output : Type := mkOutput { o_addr : N; o_amount : value; o_extra : N }.

Inductive fee_request : Type :=
| FeeUnspecified
| FeeNotLess (f : N)
| FeeExactly (f : N).

(* BTreeMap<PolicyID, BTreeMap<AssetName, Int>> of MintBuilder (the witness kind plays no role here) *)
Definition mint_assets : Type := list (bytes * Z).
Definition mint_map : Type := list (bytes * mint_assets).

Record config : Type := mkConfig {
  c_pool_deposit : N;
  c_key_deposit : N;
  c_prefer_pure_change : bool;
  c_do_not_burn_extra_change : bool
}.

Record state : Type := mkState {
  s_cfg : config;
  s_inputs : list (N * value);            (* TxInputsBuilder.inputs: outpoint id -> amount, sorted by id *)
  s_outputs : list output;
  s_fee_request : fee_request;
  s_fee : option N;
  s_certs : option (list cert);           (* CertificatesBuilder (insertion order) *)
  s_withdrawals : option (list (N * N));  (* WithdrawalsBuilder: reward address id -> coin *)
  s_mint : option mint_map;
  s_proposals : option (list N);          (* VotingProposalBuilder: the deposits *)
  s_donation : option N;
  s_treasury : option N                   (* current_treasury_value: takes no part in balancing *)
}.

Definition new_state (c : config) : state :=
  mkState c [] [] FeeUnspecified None None None None None None None.

Definition set_s_inputs (x : list (N * value)) (s : state) : state :=
  mkState (s_cfg s) x (s_outputs s) (s_fee_request s) (s_fee s) (s_certs s) (s_withdrawals s) (s_mint s)
          (s_proposals s) (s_donation s) (s_treasury s).
Definition set_s_outputs (x : list output) (s : state) : state :=
  mkState (s_cfg s) (s_inputs s) x (s_fee_request s) (s_fee s) (s_certs s) (s_withdrawals s) (s_mint s)
          (s_proposals s) (s_donation s) (s_treasury s).
Definition set_s_fee_request (x : fee_request) (s : state) : state :=
  mkState (s_cfg s) (s_inputs s) (s_outputs s) x (s_fee s) (s_certs s) (s_withdrawals s) (s_mint s)
          (s_proposals s) (s_donation s) (s_treasury s).
Definition set_s_fee (x : option N) (s : state) : state :=
  mkState (s_cfg s) (s_inputs s) (s_outputs s) (s_fee_request s) x (s_certs s) (s_withdrawals s) (s_mint s)
          (s_proposals s) (s_donation s) (s_treasury s).
Definition set_s_certs (x : option (list cert)) (s : state) : state :=
  mkState (s_cfg s) (s_inputs s) (s_outputs s) (s_fee_request s) (s_fee s) x (s_withdrawals s) (s_mint s)
          (s_proposals s) (s_donation s) (s_treasury s).
Definition set_s_withdrawals (x : option (list (N * N))) (s : state) : state :=
  mkState (s_cfg s) (s_inputs s) (s_outputs s) (s_fee_request s) (s_fee s) (s_certs s) x (s_mint s)
          (s_proposals s) (s_donation s) (s_treasury s).
Definition set_s_mint (x : option mint_map) (s : state) : state :=
  mkState (s_cfg s) (s_inputs s) (s_outputs s) (s_fee_request s) (s_fee s) (s_certs s) (s_withdrawals s) x
          (s_proposals s) (s_donation s) (s_treasury s).
Definition set_s_proposals (x : option (list N)) (s : state) : state :=
  mkState (s_cfg s) (s_inputs s) (s_outputs s) (s_fee_request s) (s_fee s) (s_certs s) (s_withdrawals s) (s_mint s)
          x (s_donation s) (s_treasury s).
Definition set_s_donation (x : option N) (s : state) : state :=
  mkState (s_cfg s) (s_inputs s) (s_outputs s) (s_fee_request s) (s_fee s) (s_certs s) (s_withdrawals s) (s_mint s)
          (s_proposals s) x (s_treasury s).
Definition set_s_treasury (x : option N) (s : state) : state :=
  mkState (s_cfg s) (s_inputs s) (s_outputs s) (s_fee_request s) (s_fee s) (s_certs s) (s_withdrawals s) (s_mint s)
          (s_proposals s) (s_donation s) x.

(* ------------------------------------------------------------------------------------------- *)
(* Fee policy *)

Definition get_new_fee (r : fee_request) (new_fee : N) : N :=
  match r with
  | FeeUnspecified => new_fee
  | FeeNotLess old => if new_fee <? old then old else new_fee
  | FeeExactly old => old
  end.

Definition set_final_fee (fee : N) (s : state) : state :=
  set_s_fee
    (match s_fee_request s with
     | FeeExactly e => Some e
     | FeeNotLess nl => if nl <=? fee then Some fee else Some nl
     | FeeUnspecified => Some fee
     end) s.

Definition get_fee_if_set (s : state) : option N :=
  match s_fee s with
  | Some f => Some f
  | None =>
      match s_fee_request s with
      | FeeExactly f => Some f
      | FeeNotLess f => Some f
      | FeeUnspecified => None
      end
  end.

(* set_current_treasury_value: zero is rejected *)
Definition set_current_treasury_value (v : N) (s : state) : result state :=
  if v =? 0 then Err else Ok (set_s_treasury (Some v) s).

(* ------------------------------------------------------------------------------------------- *)
(* Inputs and withdrawals: keyed collections *)

Fixpoint inputs_insert (k : N) (v : value) (m : list (N * value)) : list (N * value) :=
  match m with
  | [] => [(k, v)]
  | (k', v') :: m' =>
      match N.compare k k' with
      | Lt => (k, v) :: (k', v') :: m'
      | Eq => (k, v) :: m'
      | Gt => (k', v') :: inputs_insert k v m'
      end
  end.

Definition has_input (k : N) (m : list (N * value)) : bool := existsb (fun e => fst e =? k) m.

(* LinkedHashMap::insert: an existing key keeps one entry with the new coin *)
Fixpoint wd_insert (k c : N) (m : list (N * N)) : list (N * N) :=
  match m with
  | [] => [(k, c)]
  | (k', c') :: m' => if k =? k' then m' ++ [(k, c)] else (k', c') :: wd_insert k c m'
  end.

(* ------------------------------------------------------------------------------------------- *)
(* Mint *)

Definition int_min : Z := (- two64Z)%Z.
Definition int_max : Z := (two64Z - 1)%Z.

(* MIN_MINT_AMOUNT (mint_builder.rs, since /repo 0175f0b): the largest burn is 2^64-1 *)
Definition mint_amount_min : Z := (- (two64Z - 1))%Z.

(* MintBuilder::update_mint_value for a native-script witness of the right kind *)
Definition mint_update (overwrite : bool) (p n : bytes) (amt : Z) (m : mint_map) : result mint_map :=
  if (amt =? 0)%Z then Err
  else if (amt <? mint_amount_min)%Z then Err
  else
    let a := match am_get bytes_cmp p m with Some a => a | None => [] end in
    let cur := match am_get name_cmp n a with Some c => c | None => 0%Z end in
    if overwrite then Ok (am_insert bytes_cmp p (am_insert name_cmp n amt a) m)
    else
      let s := (cur + amt)%Z in
      if ((mint_amount_min <=? s) && (s <=? int_max))%Z
      then Ok (am_insert bytes_cmp p (am_insert name_cmp n s a) m)
      else Err.

(* Int::is_positive / as_positive / as_negative; the casts `as u64` truncate *)
Definition int_is_positive (z : Z) : bool := (0 <=? z)%Z.
Definition int_as_positive (z : Z) : N := Z.to_N (z mod two64Z).
Definition int_as_negative (z : Z) : N := Z.to_N ((- z) mod two64Z).

(* Mint::as_multiasset over the Mint that MintBuilder::build_unchecked produces (one entry per policy,
   in key order) *)
Definition mint_side_assets (positive : bool) (a : mint_assets) : assets :=
  fold_left (fun acc (nq : bytes * Z) =>
               if Bool.eqb (int_is_positive (snd nq)) positive
               then assets_insert (fst nq) (if positive then int_as_positive (snd nq) else int_as_negative (snd nq)) acc
               else acc) a assets_new.

Definition mint_side (positive : bool) (m : mint_map) : multiasset :=
  fold_left (fun res (e : bytes * mint_assets) =>
               match mint_side_assets positive (snd e) with
               | [] => res
               | a => ma_insert (fst e) a res
               end) m ma_new.

Definition get_mint_as_values (s : state) : value * value :=
  match s_mint s with
  | Some m => (value_new_from_assets (mint_side true m), value_new_from_assets (mint_side false m))
  | None => (value_zero, value_zero)
  end.

(* MintBuilder::build: MintAssets::insert rejects a zero quantity *)
Definition mint_build (m : mint_map) : result (list (bytes * bytes * Z)) :=
  if existsb (fun e : bytes * mint_assets => existsb (fun nq : bytes * Z => (snd nq =? 0)%Z) (snd e)) m
  then Err
  else Ok (flat_map (fun e : bytes * mint_assets => map (fun nq : bytes * Z => (fst e, fst nq, snd nq)) (snd e)) m).

Definition mint_entries (m : mint_map) : list (bytes * bytes * Z) :=
  flat_map (fun e : bytes * mint_assets => map (fun nq : bytes * Z => (fst e, fst nq, snd nq)) (snd e)) m.

(* semantic lookup: the quantity minted (negative: burnt) of asset (p, n) *)
Definition mint_get (m : mint_map) (p n : bytes) : Z :=
  match am_get bytes_cmp p m with
  | Some a => match am_get name_cmp n a with Some z => z | None => 0%Z end
  | None => 0%Z
  end.

(* ------------------------------------------------------------------------------------------- *)
(* Totals *)

(* try_fold(acc, checked_add) *)
Fixpoint value_sum (acc : value) (l : list value) : result value :=
  match l with
  | [] => Ok acc
  | v :: r => let* a := value_checked_add acc v in value_sum a r
  end.

Definition get_explicit_input (s : state) : result value :=
  value_sum value_zero (map snd (s_inputs s)).

Definition get_implicit_input (s : state) : result value :=
  let* a :=
    match s_withdrawals s with
    | Some w =>
        let* tw := get_total_withdrawals (map snd w) in
        value_checked_add value_zero (value_new tw)
    | None => Ok value_zero
    end in
  match s_certs s with
  | Some cs =>
      let* r := get_certificates_refund cs (c_pool_deposit (s_cfg s)) (c_key_deposit (s_cfg s)) in
      value_checked_add a (value_new r)
  | None => Ok a
  end.

Definition get_total_input (s : state) : result value :=
  let* e := get_explicit_input s in
  let* i := get_implicit_input s in
  let* x := value_checked_add e i in
  value_checked_add x (fst (get_mint_as_values s)).

Definition get_explicit_output (s : state) : result value :=
  value_sum (value_new 0) (map o_amount (s_outputs s)).

Definition get_deposit (s : state) : result N :=
  let* a :=
    match s_certs s with
    | Some cs =>
        let* d := get_certificates_deposit cs (c_pool_deposit (s_cfg s)) (c_key_deposit (s_cfg s)) in
        checked_add 0 d
    | None => Ok 0
    end in
  match s_proposals s with
  | Some ps => let* p := get_total_deposit ps in checked_add a p
  | None => Ok a
  end.

Definition get_total_output (s : state) : result value :=
  let* e := get_explicit_output s in
  let* d := get_deposit s in
  let* x := value_checked_add e (value_new d) in
  let* t := value_checked_add x (snd (get_mint_as_values s)) in
  match s_donation s with
  | Some dn => value_checked_add t (value_new dn)
  | None => Ok t
  end.

Definition validate_balance (s : state) : result unit :=
  let* ti := get_total_input s in
  let* to := get_total_output s in
  let* to' :=
    match get_fee_if_set s with
    | Some fee => let* c := u64_add (coin to) fee in Ok (value_set_coin c to)
    | None => Ok to
    end in
  if value_eqb ti to' then Ok tt else Err.

(* ------------------------------------------------------------------------------------------- *)
(* The body that build() assembles from the state (the fields the balance speaks about) *)

Record tx_body : Type := mkBody {
  b_inputs : list (N * value);        (* outpoints with the value of the UTxO each one spends *)
  b_outputs : list output;
  b_fee : N;
  b_certs : list cert;
  b_withdrawals : list (N * N);
  b_mint : mint_map;
  b_proposals : list N;
  b_donation : N
}.

Definition opt_n (o : option N) : N := match o with Some x => x | None => 0 end.
Definition opt_mint (o : option mint_map) : mint_map := match o with Some m => m | None => [] end.

Definition body_of (s : state) : tx_body :=
  mkBody (s_inputs s) (s_outputs s) (opt_n (get_fee_if_set s)) (opt_list (s_certs s))
         (opt_list (s_withdrawals s)) (opt_mint (s_mint s)) (opt_list (s_proposals s)) (opt_n (s_donation s)).

(* ------------------------------------------------------------------------------------------- *)
(* Specification: the ledger's UTXO rule consumed = produced (notes/ledger-rules.md), unsigned form *)

Definition sum_coin (vs : list value) : N := sumN (map coin vs).
Definition sum_qty (vs : list value) (p n : bytes) : N := sumN (map (fun v => qty v p n) vs).
Definition mint_pos (m : mint_map) (p n : bytes) : N := Z.to_N (mint_get m p n).
Definition mint_neg (m : mint_map) (p n : bytes) : N := Z.to_N (- mint_get m p n).

Definition ledger_balanced (pool_deposit key_deposit : N) (b : tx_body) : Prop :=
  sum_coin (map snd (b_inputs b)) + sumN (map snd (b_withdrawals b)) + spec_cert_refunds key_deposit (b_certs b)
  = sum_coin (map o_amount (b_outputs b)) + b_fee b + spec_cert_deposits pool_deposit key_deposit (b_certs b)
    + sumN (b_proposals b) + b_donation b
  /\ forall p n,
      sum_qty (map snd (b_inputs b)) p n + mint_pos (b_mint b) p n
      = sum_qty (map o_amount (b_outputs b)) p n + mint_neg (b_mint b) p n.

(* executable decision: the asset equation is checked on every (policy, name) that occurs anywhere *)
Definition value_keys (v : value) : list (bytes * bytes) :=
  map (fun e : bytes * bytes * N => (fst (fst e), snd (fst e))) (ma_entries (opt_ma (multiasset_of v))).
Definition body_keys (b : tx_body) : list (bytes * bytes) :=
  flat_map value_keys (map snd (b_inputs b))
  ++ flat_map value_keys (map o_amount (b_outputs b))
  ++ map (fun e : bytes * bytes * Z => (fst (fst e), snd (fst e))) (mint_entries (b_mint b)).

Definition ledger_balancedb (pool_deposit key_deposit : N) (b : tx_body) : bool :=
  (sum_coin (map snd (b_inputs b)) + sumN (map snd (b_withdrawals b)) + spec_cert_refunds key_deposit (b_certs b)
   =? sum_coin (map o_amount (b_outputs b)) + b_fee b + spec_cert_deposits pool_deposit key_deposit (b_certs b)
      + sumN (b_proposals b) + b_donation b)
  && forallb (fun k : bytes * bytes =>
                sum_qty (map snd (b_inputs b)) (fst k) (snd k) + mint_pos (b_mint b) (fst k) (snd k)
                =? sum_qty (map o_amount (b_outputs b)) (fst k) (snd k) + mint_neg (b_mint b) (fst k) (snd k))
             (body_keys b).

(* ------------------------------------------------------------------------------------------- *)
(* Well-formedness of a state: what BTreeMap, u64 and the Int range guarantee *)

Definition mint_assets_wfb (a : mint_assets) : bool :=
  am_sorted name_cmp a && forallb (fun nq : bytes * Z => ((mint_amount_min <=? snd nq) && (snd nq <=? int_max))%Z) a.
Definition mint_wfb (m : mint_map) : bool :=
  am_sorted bytes_cmp m && forallb (fun e : bytes * mint_assets => mint_assets_wfb (snd e)) m.

Definition state_wfb (s : state) : bool :=
  forallb (fun e : N * value => value_wfb (snd e)) (s_inputs s)
  && forallb (fun o => value_wfb (o_amount o)) (s_outputs s)
  && match s_mint s with Some m => mint_wfb m | None => true end.
Definition state_wf (s : state) : Prop := state_wfb s = true.

(* class of the finding C05-mint-min-int (fixed in /repo 0175f0b; MintBuilder now rejects it, and mint_wfb excludes
   it): a mint quantity of exactly -2^64 (the lower end of the Int range): Int::as_negative computes
   (-x) as u64 = 0, so the builder counted it as burning nothing *)
Definition known_mint_min_map (m : mint_map) : bool :=
  existsb (fun e : bytes * mint_assets => existsb (fun nq : bytes * Z => (snd nq =? int_min)%Z) (snd e)) m.
Definition known_mint_min (s : state) : bool :=
  match s_mint s with Some m => known_mint_min_map m | None => false end.
