(* Builder/MoreEntry.v — C05, phase 2: the remaining entry points that touch the balance.  Executable model; NO proofs
   in this file (proofs: Builder/MoreEntryProofs.v).  Imports Totals.v / Change.v / Scenario.v unchanged and C19's
   Collateral/Collateral.v for the collateral side.

   Mirrors rust/src/builders/tx_builder.rs (line numbers of /repo d11e192)
     add_inputs_from_and_change_with_collateral_return      1030-1079   [percent_entry]: placeholder collateral return / total
         (visible to the size oracle only), add_inputs_from_and_change (Change.v — no longer an outcome given from outside,
         as it is in C19's OpPercent), removal of the placeholders, fee * pct / 100 + 1, set_total_collateral_and_return
         (833-872, with the value-size test of /repo ecdd7d5), clearing on failure
     set_collateral                                         773-775
     add_mint_asset_and_output                              1498-1520
     add_mint_asset_and_output_min_required_coin            1527-1551  with output_builder.rs
         with_asset_and_min_required_coin_by_utxo_cost 96-135 (three min-ADA computations, since /repo e90825d)
     add_mint_asset (deprecated)                            1476-1492  = MintBuilder::add_asset on the builder's mint
     set_mint (deprecated)                                  1390-1414  assert_required_mint_scripts + a fresh MintBuilder filled by set_asset
     set_certs / set_withdrawals (deprecated)               1253-1262, 1279-1288  (C20's Deposits.set_certs / set_withdrawals)
   add_change_if_needed_with_datum and the script-ref change of ChangeConfig are Change.add_change / add_inputs_from_and_change
   with [extra] <> 0 (the datum / script reference only matters to the size oracle).

   The joint state is (Totals.state, colstate); the collateral return's admission (value size, then min ADA) is one more
   oracle [ask_col : Collateral.output -> O -> result N * O] (Err = too large or the computation failed).

   API   colstate (mkCol), id_txin, col_of_ids, to_c19, col_set_total_and_return, percent_entry,
         mint_and_output, mint_and_output_min, set_mint_deprecated, op2, run_op2, run_ops2, jout, tape_ask_col *)
From CSL Require Import Base.Prelude Base.U64 Num.Value Deposits.Deposits Builder.Totals Builder.Change Builder.Scenario.
From CSL Require Collateral.Collateral.
Local Open Scope N_scope.

(* ------------------------------------------------------------------------------------------- *)
(* collateral side of the builder (C19's types) *)

Record colstate : Type := mkCol {
  cs_inputs : Collateral.col_inputs;             (* self.collateral *)
  cs_return : option Collateral.output;          (* self.collateral_return *)
  cs_total : option N                            (* self.total_collateral *)
}.
Definition col_new : colstate := mkCol [] None None.

(* the TransactionInput of scenario UTxO [id]: 8 big-endian bytes of the id order the outpoints as the ids *)
Fixpoint be_bytes (k : nat) (n : N) : bytes :=
  match k with
  | O => []
  | S k' => be_bytes k' (n / 256) ++ [n mod 256]
  end.
Definition id_txin (id : N) : Collateral.txin := (be_bytes 8 id, id mod 7).

Definition col_of_ids (utxos : list (N * value)) (ids : list N) : Collateral.col_inputs :=
  Collateral.col_of_list (map (fun e : N * value => (id_txin (fst e), snd e)) (resolve utxos ids)).

(* C19's builder record seen from the joint state (its fee field is what get_fee_if_set answers) *)
Definition to_c19 (s : state) (c : colstate) : Collateral.builder :=
  Collateral.mkBuilder (cs_inputs c) (cs_return c) (cs_total c) (get_fee_if_set s).

Definition is_nilb {A} (l : list A) : bool := match l with [] => true | _ => false end.
Definition is_someb {A} (o : option A) : bool := match o with Some _ => true | None => false end.

Section More.
  Context {O : Type}.
  Variable orc : @oracle O.
  (* check_max_value_size then min_ada_for_output of the collateral return *)
  Variable ask_col : Collateral.output -> O -> result N * O.

  (* set_total_collateral_and_return: result, new collateral state, oracle state *)
  Definition col_set_total_and_return (total : N) (addr : bytes) (c : colstate) (o : O) : result unit * colstate * O :=
    if is_nilb (cs_inputs c) then (Err, c, o) else
    match Collateral.total_value (cs_inputs c) with
    | Ok inp =>
        if coin inp <? total then (Err, c, o) else
        match value_checked_sub inp (value_new total) with
        | Ok ret =>
            if is_someb (multiasset_of ret) || (0 <? coin ret) then
              let out := Collateral.output_new addr ret in
              match ask_col out o with
              | (Ok m, o') =>
                  if coin ret <? m then (Err, c, o')
                  else (Ok tt, mkCol (cs_inputs c) (Some out) (Some total), o')
              | (_, o') => (Err, c, o')
              end
            else (Ok tt, mkCol (cs_inputs c) None (Some total), o)
        | _ => (Err, c, o)
        end
    | _ => (Err, c, o)
    end.

  Record jout : Type := mkJout { jo_res : result unit; jo_st : state; jo_col : colstate; jo_orc : O }.

  Definition clear_col (c : colstate) : colstate := mkCol (cs_inputs c) None None.

  (* add_inputs_from_and_change_with_collateral_return; [addr] / [addr_b] are the change address as an id and as bytes *)
  Definition percent_entry (fuel : nat) (utxos : list (N * value)) (addr extra : N) (addr_b : bytes) (pct : N)
             (s : state) (c : colstate) (o : O) : jout :=
    match Collateral.total_value (cs_inputs c) with
    | Ok tc =>
        (* the placeholder return / total are set, the balancing runs, the placeholders are removed
           (a panic inside the balancing unwinds past the removal: the placeholders stay) *)
        let placeholder := mkCol (cs_inputs c) (Some (Collateral.output_new addr_b tc)) (Some (coin tc)) in
        let r := add_inputs_from_and_change orc fuel utxos addr extra s o in
        let s' := out_st r in
        let o' := out_orc r in
        let c' := clear_col c in
        match out_res r with
        | Ok _ =>
            match get_fee_if_set s' with
            | None => mkJout Err s' c' o'
            | Some fee =>
                match (let* x := checked_mul fee pct in checked_add (x / 100) 1) with
                | Ok required =>
                    match col_set_total_and_return required addr_b c' o' with
                    | (Ok _, c'', o'') => mkJout (Ok tt) s' c'' o''
                    | (_, _, o'') => mkJout Err s' (clear_col c') o''
                    end
                | Panic => mkJout Panic s' c' o'
                | OutOfFuel => mkJout OutOfFuel s' c' o'
                | Err => mkJout Err s' c' o'
                end
            end
        | Err => mkJout Err s' c' o'
        | Panic => mkJout Panic s' placeholder o'
        | OutOfFuel => mkJout OutOfFuel s' placeholder o'
        end
    | _ => mkJout Err s (clear_col c) o
    end.

  (* ----------------------------------------------------------------------------------------- *)
  (* mint together with an output *)

  Notation "'letM' x ':=' m 'in' k" := (bindM m (fun x => k))
    (at level 200, x name, m at level 100, k at level 200, right associativity).
  Notation "'doM' m 'in' k" := (bindM m (fun _ => k))
    (at level 200, m at level 100, k at level 200, right associativity).

  (* the deprecated add_mint_asset: MintBuilder::add_asset on the builder's own mint *)
  Definition add_mint_asset (p n : bytes) (amt : Z) : @M O unit :=
    letM s := get in
    letM m := lift (mint_update false p n amt (opt_mint (s_mint s))) in
    put (set_s_mint (Some m) s).

  Definition minted_multiasset (p n : bytes) (amt : Z) : multiasset :=
    ma_insert p (assets_insert n (int_as_positive amt) assets_new) ma_new.

  Definition mint_and_output (p n : bytes) (amt : Z) (addr extra coin : N) : @M O unit :=
    if (amt <? 0)%Z then lift Err
    else
      doM add_mint_asset p n amt in
      add_output orc (mkOutput addr (value_set_multiasset (minted_multiasset p n amt) (value_new coin)) extra).

  Definition mint_and_output_min (p n : bytes) (amt : Z) (addr extra : N) : @M O unit :=
    if (amt <? 0)%Z then lift Err
    else
      doM add_mint_asset p n amt in
      let ma := minted_multiasset p n amt in
      letM min_possible := askA orc (mkOutput fake_addr fake_value extra) in
      let value := value_set_multiasset ma (value_new min_possible) in
      letM required := askA orc (mkOutput fake_addr value extra) in
      letM min_for_output := askA orc (mkOutput addr (value_set_multiasset ma (value_new required)) extra) in
      let c := N.max required min_for_output in
      add_output orc (mkOutput addr (value_set_multiasset ma (value_new c)) extra).

  (* the deprecated set_mint: every policy needs a script; a fresh MintBuilder is filled by set_asset in the Mint's order *)
  Fixpoint mint_fill (es : list (bytes * bytes * Z)) (m : mint_map) : result mint_map :=
    match es with
    | [] => Ok m
    | (p, n, z) :: r => let* m' := mint_update true p n z m in mint_fill r m'
    end.
  Definition set_mint_deprecated (scripts_ok : bool) (es : list (bytes * bytes * Z)) (s : state) : result state :=
    if negb scripts_ok then Err
    else let* m := mint_fill es [] in Ok (set_s_mint (Some m) s).

End More.

(* ------------------------------------------------------------------------------------------- *)
(* operations of phase 2: the old ones plus the new entry points, on the joint state *)

Inductive op2 : Type :=
| Old (x : op)
| OpSetCollateral (ids : list N)                                       (* set_collateral(TxInputsBuilder of these UTxOs) *)
| OpPercent (avail : list N) (addr extra : N) (addr_b : bytes) (pct : N)   (* add_inputs_from_and_change_with_collateral_return *)
| OpMintOutput (p n : bytes) (amt : Z) (addr extra coin : N)           (* add_mint_asset_and_output *)
| OpMintOutputMin (p n : bytes) (amt : Z) (addr extra : N)             (* add_mint_asset_and_output_min_required_coin *)
| OpAddMintAsset (p n : bytes) (amt : Z)                               (* add_mint_asset (deprecated) *)
| OpSetMintDeprecated (scripts_ok : bool) (es : list (bytes * bytes * Z))   (* set_mint (deprecated) *)
| OpSetCertsDeprecated (l : list (cert * bool))                        (* set_certs (deprecated); bool = script credential *)
| OpSetWithdrawalsDeprecated (l : list (N * N * bool))                 (* set_withdrawals (deprecated) *)
| OpRemoveMint                                                         (* remove_mint_builder *)
| OpSetMintAsset (p : bytes) (es : list (bytes * Z))                   (* set_mint_asset (deprecated): MintAssets built by insert, then
                                                                          MintBuilder::set_asset per entry in name order, in place *)
| OpProposalsKeyed (l : list (N * N)).                                 (* VotingProposalBuilder::add of (identity, deposit) items, then
                                                                          set_voting_proposal_builder: the builder is a map keyed by the
                                                                          proposal, so the same proposal added twice is there once *)

(* the collateral-return admission with recorded answers: S (too large -> Err) then A *)
Definition tape_ask_col (_ : Collateral.output) (o : tape_state) : result N * tape_state :=
  match pop_bool site_S o with
  | (true, o') => (Err, o')
  | (false, o') => pop_num site_A o'
  end.

Definition finish_j (r : @jout tape_state) : opres * state * colstate :=
  let o := jo_orc r in
  if t_bad o || negb (match t_tape o with [] => true | _ => false end)
     || match t_sel o with Some _ => true | None => false end
  then (RDesync, jo_st r, jo_col r)
  else (res_of (jo_res r) (fun _ => ROk), jo_st r, jo_col r).

(* BTreeMap<VotingProposal, _>::insert over the items: one entry per distinct (identity, deposit) *)
Fixpoint dedup_proposals (l : list (N * N)) (seen : list (N * N)) : list N :=
  match l with
  | [] => []
  | x :: r =>
      if existsb (fun y : N * N => (fst y =? fst x) && (snd y =? snd x)) seen then dedup_proposals r seen
      else snd x :: dedup_proposals r (x :: seen)
  end.

(* MintAssets (BTreeMap<AssetName, Int>) filled by successive insert *)
Definition mint_assets_map (es : list (bytes * Z)) : list (bytes * Z) :=
  fold_left (fun m (e : bytes * Z) => am_insert name_cmp (fst e) (snd e) m) es [].
(* set_asset entry by entry, stopping at the first error; the map reached so far stays (the builder's mint is mutated in place) *)
Fixpoint mint_set_all (p : bytes) (l : list (bytes * Z)) (m : mint_map) : bool * mint_map :=
  match l with
  | [] => (true, m)
  | (n, z) :: r => match mint_update true p n z m with Ok m' => mint_set_all p r m' | _ => (false, m) end
  end.

Definition in_range (amt : Z) : bool := negb ((amt <? int_min) || (int_max <? amt))%Z.

Definition run_op2 (utxos : list (N * value)) (x : op2) (s : state) (c : colstate) (o : tape_state)
  : opres * state * colstate * option tx_body :=
  match x with
  | Old y => match run_op utxos y s o with (res, s', tx) => (res, s', c, tx) end
  | OpSetCollateral ids =>
      match pure_op s o (Ok s) with (res, s') => (res, s', (match res with ROk => mkCol (col_of_ids utxos ids) (cs_return c) (cs_total c) | _ => c end), None) end
  | OpPercent avail addr extra addr_b pct =>
      match finish_j (percent_entry tape_oracle tape_ask_col fuel_default (resolve utxos avail) addr extra addr_b pct s c o) with
      | (res, s', c') => (res, s', c', None)
      end
  | OpMintOutput p n amt addr extra coin =>
      match (if in_range amt then finish (mint_and_output tape_oracle p n amt addr extra coin s o) (fun _ => ROk)
             else pure_op s o Err) with (res, s') => (res, s', c, None) end
  | OpMintOutputMin p n amt addr extra =>
      match (if in_range amt then finish (mint_and_output_min tape_oracle p n amt addr extra s o) (fun _ => ROk)
             else pure_op s o Err) with (res, s') => (res, s', c, None) end
  | OpAddMintAsset p n amt =>
      match (if in_range amt then finish (add_mint_asset p n amt s o) (fun _ => ROk)
             else pure_op s o Err) with (res, s') => (res, s', c, None) end
  | OpSetMintDeprecated ok es =>
      (* every quantity is an Int (Int::from_str accepts int_min ..= int_max) *)
      match pure_op s o (if forallb (fun e : bytes * bytes * Z => in_range (snd e)) es then set_mint_deprecated ok es s else Err)
      with (res, s') => (res, s', c, None) end
  | OpSetCertsDeprecated l =>
      match pure_op s o (let* cs := set_certs l in Ok (set_s_certs (Some cs) s)) with (res, s') => (res, s', c, None) end
  | OpSetMintAsset p es =>
      (* every quantity is an Int, and MintAssets::insert refuses a zero quantity: both before the builder is touched *)
      if forallb (fun e : bytes * Z => in_range (snd e) && negb (snd e =? 0)%Z) es then
        let l := mint_assets_map es in
        match s_mint s with
        | Some m =>
            let r := mint_set_all p l m in
            let s1 := set_s_mint (Some (snd r)) s in
            match pure_op s1 o (if fst r then Ok s1 else Err) with (res, s') => (res, s', c, None) end
        | None =>
            let r := mint_set_all p l [] in
            match pure_op s o (if fst r then Ok (set_s_mint (Some (snd r)) s) else Err) with (res, s') => (res, s', c, None) end
        end
      else match pure_op s o Err with (res, s') => (res, s', c, None) end
  | OpRemoveMint =>
      match pure_op s o (Ok (set_s_mint None s)) with (res, s') => (res, s', c, None) end
  | OpProposalsKeyed l =>
      match pure_op s o (Ok (set_s_proposals (Some (dedup_proposals l [])) s)) with (res, s') => (res, s', c, None) end
  | OpSetWithdrawalsDeprecated l =>
      match pure_op s o (let* _ := set_withdrawals (map (fun e : N * N * bool => (snd e, snd (fst e))) l) in
                         Ok (set_s_withdrawals (Some (fold_left (fun m (e : N * N * bool) => wd_insert (fst (fst e)) (snd (fst e)) m) l [])) s))
      with (res, s') => (res, s', c, None) end
  end.

Fixpoint run_ops2 (utxos : list (N * value)) (l : list (op2 * tape_state)) (s : state) (c : colstate)
  : list opres * state * colstate * option tx_body :=
  match l with
  | [] => ([], s, c, None)
  | (x, o) :: r =>
      match run_op2 utxos x s c o with
      | (res, s', c', tx) =>
          match run_ops2 utxos r s' c' with
          | (rs, s'', c'', tx') =>
              (res :: rs, s'', c'', match tx' with Some b => Some b | None =>
                                      match res with ROk => tx | _ => None end end)
          end
      end
  end.
