(* Builder/Change.v — C05: change computation of the transaction builder.  Executable model; NO proofs in
   this file (proofs: Builder/ChangeProofs.v).  Imported by C06 (fee sufficiency).

   Mirrors rust/src/builders/tx_builder.rs
     min_fee (pub)                                             2598-2602
     add_output                                                1097-1116
     fee_for_output                                            1119-1135
     add_change_if_needed / _with_datum / _with_optional_script_and_datum      1828-2212   (every branch:
         exact, insufficient, burn_extra / do_not_burn_extra_change, single change output,
         pack_nfts_for_change + will_adding_asset_make_output_overflow, prefer_pure_change split,
         top-up of the last output, the three fee policies)
     add_inputs_from_and_change                                935-1007   (the selection itself is an oracle answer:
         an arbitrary extension of the input set; C08 models add_inputs_from)
     validate_fee, build (size guard), build_tx                1679-1709, 2369-2379, 2566-2583 (line numbers of /repo 6801f12)
     check_output_limits (re-check of the topped-up output)    1130-1142
     check_fee_after_change (fee re-check at the end of the two change paths)
     utils.rs get_input_shortage                               1075-1118

   SIZE AND FEE ARE OPAQUE.  Everything that depends on serialised sizes or on the fee arithmetic is an ORACLE
   with its own state of an arbitrary type [O] (record [oracle]):
     ask_fee st            the private `min_fee(&builder)` evaluated on builder state [st]          (hook site F)
     ask_min_ada out       `MinOutputAdaCalculator::calculate_ada` for the output [out] (address [fake_addr]
                           when the calculator was created with new_empty)                           (site A)
     ask_value_too_big v   `v.to_bytes().len() > max_value_size`                                     (site S)
     ask_tx_too_big st     `full_tx_size > max_tx_size` in build()                                   (site T)
     ask_select st utxos   what add_inputs_from added to the input set, and whether it succeeded
   Two instances are intended: (1) O = recorded answer list, every question pops the next answer (the C05 driver;
   Builder/Scenario.v); (2) O = unit and the answers are functions of the question (C06/C07 plug their fee and
   size models in).  The conservation theorems hold for EVERY oracle.

   The model is a state-and-error monad  M A = state -> O -> out A  whose state (builder state and oracle state)
   survives errors, because the Rust functions mutate `self` before they return Err (outputs already added by a
   failed add_change stay in the builder; add_inputs_from_and_change then retries on that state).

   API
     monad      out (out_res, out_st, out_orc), M, ret, bindM (notations letM x := m in k, doM m in k), lift, get, put, modify, catch
     oracle     oracle (mkOracle), askF / askA / askS / askT / askSel, fake_addr, fake_value
     functions  min_fee_pub, output_admissible, output_acceptable, add_output, fee_for_output, get_input_shortage, will_adding_asset_make_output_overflow,
                pack_policy_assets, pack_policies, pack_nfts_for_change, change_outputs_loop, change_while_loop,
                burn_extra, check_fee_after_change, add_change (address id, datum/script id, fuel), sort_unused, retry_loop,
                add_inputs_from_and_change, validate_fee, build, build_tx
     fuel       add_change's `while` loop takes [fuel] iterations at most and returns OutOfFuel beyond
*)
From CSL Require Import Base.Prelude Base.U64 Num.Value Num.ValueNorm Deposits.Deposits Builder.Totals.
Local Open Scope N_scope.

(* address id of MinOutputAdaCalculator::create_fake_output, and its amount *)
Definition fake_addr : N := 0.
Definition fake_value : value := value_new 1000000.

(* utils.rs get_input_shortage: Err on overflow, otherwise whether there is a shortage *)
Definition get_input_shortage (all_in all_out : value) (fee : N) : result bool :=
  let* need := u64_add (coin all_out) fee in
  let ada_short := coin all_in <? need in
  let asset_short :=
    match multiasset_of all_out with
    | Some r => negb (ma_covers (match multiasset_of all_in with Some l => l | None => ma_new end) r)
    | None => false
    end in
  Ok (ada_short || asset_short).

(* has_assets (since /repo "fix: add_change_if_needed treats a change value whose asset quantities are all zero as
   ADA-only change"): some quantity above zero — the test the packing loop runs on.  Before: at least one policy. *)
Definition ma_positive (a : multiasset) : bool :=
  match ma_partial_cmp a ma_new with Some Gt => true | _ => false end.
Definition has_assets (m : option multiasset) : bool :=
  match m with Some a => ma_positive a | None => false end.

(* stable insertion sort by a numeric key (Vec::sort_by_key is stable) *)
Fixpoint insert_by {A} (key : A -> N) (x : A) (l : list A) : list A :=
  match l with
  | [] => [x]
  | y :: r => if key y <=? key x then y :: insert_by key x r else x :: y :: r
  end.
Definition sort_by_key {A} (key : A -> N) (l : list A) : list A :=
  fold_left (fun acc x => insert_by key x acc) l [].

Section Change.
  Context {O : Type}.

  Record oracle : Type := mkOracle {
    ask_fee : state -> O -> result N * O;
    ask_min_ada : output -> O -> result N * O;
    ask_value_too_big : value -> O -> bool * O;
    ask_tx_too_big : state -> O -> bool * O;
    ask_select : state -> list (N * value) -> O -> (list (N * value) * bool) * O
  }.
  Variable orc : oracle.

  (* ----------------------------------------------------------------------------------------- *)
  (* the monad *)
  Record out (A : Type) : Type := mkOut { out_res : result A; out_st : state; out_orc : O }.
  Arguments mkOut {A}.
  Arguments out_res {A}.
  Arguments out_st {A}.
  Arguments out_orc {A}.

  Definition M (A : Type) : Type := state -> O -> out A.
  Definition ret {A} (a : A) : M A := fun s o => mkOut (Ok a) s o.
  Definition lift {A} (r : result A) : M A := fun s o => mkOut r s o.
  Definition bindM {A B} (m : M A) (f : A -> M B) : M B := fun s o =>
    let r := m s o in
    match out_res r with
    | Ok a => f a (out_st r) (out_orc r)
    | Err => mkOut Err (out_st r) (out_orc r)
    | Panic => mkOut Panic (out_st r) (out_orc r)
    | OutOfFuel => mkOut OutOfFuel (out_st r) (out_orc r)
    end.
  Definition get : M state := fun s o => mkOut (Ok s) s o.
  Definition put (s' : state) : M unit := fun _ o => mkOut (Ok tt) s' o.
  Definition modify (f : state -> state) : M unit := fun s o => mkOut (Ok tt) (f s) o.
  (* `match r { Ok(v) => …, Err(e) => … }`: an error value is caught, a panic is not *)
  Definition catch {A} (m : M A) : M (option A) := fun s o =>
    let r := m s o in
    match out_res r with
    | Ok a => mkOut (Ok (Some a)) (out_st r) (out_orc r)
    | Err => mkOut (Ok None) (out_st r) (out_orc r)
    | Panic => mkOut Panic (out_st r) (out_orc r)
    | OutOfFuel => mkOut OutOfFuel (out_st r) (out_orc r)
    end.

  Notation "'letM' x ':=' m 'in' k" := (bindM m (fun x => k))
    (at level 200, x name, m at level 100, k at level 200, right associativity).
  Notation "'doM' m 'in' k" := (bindM m (fun _ => k))
    (at level 200, m at level 100, k at level 200, right associativity).

  Definition askF (st : state) : M N := fun s o => let r := ask_fee orc st o in mkOut (fst r) s (snd r).
  Definition askA (x : output) : M N := fun s o => let r := ask_min_ada orc x o in mkOut (fst r) s (snd r).
  Definition askS (v : value) : M bool := fun s o => let r := ask_value_too_big orc v o in mkOut (Ok (fst r)) s (snd r).
  Definition askT (st : state) : M bool := fun s o => let r := ask_tx_too_big orc st o in mkOut (Ok (fst r)) s (snd r).
  Definition askSel (st : state) (utxos : list (N * value)) : M (list (N * value) * bool) :=
    fun s o => let r := ask_select orc st utxos o in mkOut (Ok (fst r)) s (snd r).

  (* ----------------------------------------------------------------------------------------- *)
  (* pub fn min_fee: the estimate is made with the fee field set to 2^32, then aligned with the request *)
  Definition min_fee_pub : M N :=
    letM s := get in
    letM f := askF (set_final_fee two32 s) in
    ret (get_new_fee (s_fee_request s) f).

  (* the two admission tests of add_output *)
  Definition output_admissible (x : output) : M unit :=
    letM big := askS (o_amount x) in
    if big : bool then lift Err
    else
      letM min_ada := askA x in
      if coin (o_amount x) <? min_ada then lift Err else ret tt.

  (* add_output first refuses a value with a zero quantity or an asset-less policy (since the /repo fix "the builder drops
     zero quantities and asset-less policies of the amounts it is given"); check_output_limits (the re-check after the
     top-up) has only the two admission tests *)
  Definition output_acceptable (x : output) : M unit :=
    if value_has_empty_entries (o_amount x) then lift Err else output_admissible x.

  Definition add_output (x : output) : M unit :=
    doM output_acceptable x in
    modify (fun s => set_s_outputs (s_outputs s ++ [x]) s).

  (* fee_for_output works on a copy of the builder: the state is left untouched *)
  Definition fee_for_output (x : output) : M N :=
    letM s := get in
    let c := set_final_fee 0 s in
    letM fee_before := askF c in
    let aligned_before := get_new_fee (s_fee_request s) fee_before in
    doM output_acceptable x in
    letM fee_after := askF (set_s_outputs (s_outputs c ++ [x]) c) in
    let aligned_after := get_new_fee (s_fee_request s) fee_after in
    lift (checked_sub aligned_after aligned_before).

  (* ----------------------------------------------------------------------------------------- *)
  (* pack_nfts_for_change *)

  Definition unwrap_ma (m : option multiasset) : M multiasset :=
    match m with Some x => ret x | None => lift Panic end.

  Definition will_adding_asset_make_output_overflow
      (output_amount : value) (current_assets : assets) (policy name : bytes) (q : N) : M bool :=
    let current' := assets_insert name q current_assets in
    let val := value_set_multiasset (ma_insert policy current' ma_new) (value_new 0) in
    letM amount_clone := lift (value_checked_add output_amount val) in
    letM min_ada := askA (mkOutput fake_addr val 0) in
    askS (value_set_coin min_ada amount_clone).

  (* loop state inside one policy *)
  Record pack_acc : Type := mkPack {
    pa_output : value;            (* output.amount *)
    pa_old : value;               (* old_amount *)
    pa_next : multiasset;         (* next_nft *)
    pa_rebuilt : assets;          (* rebuilt_assets *)
    pa_changes : list multiasset  (* change_assets *)
  }.

  Definition empty_output_amount : value := value_set_multiasset ma_new (value_new 0).

  (* for n in 0..asset_names.len() *)
  Fixpoint pack_policy_assets (policy : bytes) (l : assets) (a : pack_acc) : M pack_acc :=
    match l with
    | [] => ret a
    | (name, q) :: r =>
        letM ov := will_adding_asset_make_output_overflow (pa_output a) (pa_rebuilt a) policy name q in
        letM a' := (if ov : bool then
                 let next := ma_insert policy (pa_rebuilt a) (pa_next a) in
                 let val := value_set_multiasset next (value_new 0) in
                 letM out_amount := lift (value_checked_add (pa_output a) val) in
                 letM m := unwrap_ma (multiasset_of out_amount) in
                 ret (mkPack empty_output_amount empty_output_amount ma_new assets_new (pa_changes a ++ [m]))
               else ret a) in
        pack_policy_assets policy r
          (mkPack (pa_output a') (pa_old a') (pa_next a') (assets_insert name q (pa_rebuilt a')) (pa_changes a'))
    end.

  (* for (policy, assets) in change_estimator.multiasset: returns output.amount and change_assets at the end
     of the loop (after a `break` or after the last policy) *)
  Fixpoint pack_policies (l : multiasset) (output_amount : value) (changes : list multiasset)
    : M (value * list multiasset) :=
    match l with
    | [] => ret (output_amount, changes)
    | (policy, assets) :: r =>
        letM a := pack_policy_assets policy assets (mkPack output_amount output_amount ma_new assets_new changes) in
        let next := ma_insert policy (pa_rebuilt a) (pa_next a) in
        let val := value_set_multiasset next (value_new 0) in
        letM out_amount := lift (value_checked_add (pa_output a) val) in
        letM min_ada := askA (mkOutput fake_addr val 0) in
        letM big := askS (value_set_coin min_ada out_amount) in
        if big : bool then ret (pa_old a, pa_changes a)              (* output.amount = old_amount; break *)
        else pack_policies r out_amount (pa_changes a)
    end.

  Definition pack_nfts_for_change (change_estimator : value) : M (list multiasset) :=
    letM ma := unwrap_ma (multiasset_of change_estimator) in
    let base_coin := value_set_multiasset ma_new (value_new (coin change_estimator)) in
    letM r := pack_policies ma base_coin [] in
    letM last := unwrap_ma (multiasset_of (fst r)) in
    ret (snd r ++ [last]).

  (* ----------------------------------------------------------------------------------------- *)
  (* the asset branch of add_change *)

  (* for nft_change in nft_changes *)
  Fixpoint change_outputs_loop (addr extra : N) (l : list multiasset) (change_left : value) (new_fee : N)
    : M (value * N) :=
    match l with
    | [] => ret (change_left, new_fee)
    | nft_change :: r =>
        let change_value0 := value_set_multiasset nft_change (value_new 0) in
        let fake_change := value_set_coin (coin change_left) change_value0 in
        letM min_ada := askA (mkOutput fake_addr fake_change extra) in
        let change_value := value_set_coin min_ada change_value0 in
        let change_output := mkOutput addr change_value extra in
        letM fee_for_change := fee_for_output change_output in
        letM new_fee' := lift (checked_add new_fee fee_for_change) in
        letM need := lift (checked_add min_ada new_fee') in
        if coin change_left <? need then lift Err
        else
          letM change_left' := lift (value_checked_sub change_left change_value) in
          doM add_output change_output in
          change_outputs_loop addr extra r change_left' new_fee'
    end.

  Definition change_has_assets_left (change_left : value) : bool :=
    match multiasset_of change_left with
    | Some ma => match ma_partial_cmp ma ma_new with Some Gt => true | _ => false end
    | None => false
    end.

  (* while let Some(Ordering::Greater) = change_left.multiasset … *)
  Fixpoint change_while_loop (fuel : nat) (addr extra : N) (change_left : value) (new_fee : N) : M (value * N) :=
    if change_has_assets_left change_left then
      match fuel with
      | 0%nat => lift OutOfFuel
      | S fuel' =>
          letM nft_changes := pack_nfts_for_change change_left in
          (* every pass has to take some asset out of change_left (since /repo "fix: the change loop fails when a
             pass packs no asset"; before: only an empty list was refused) *)
          if existsb ma_positive nft_changes then
            letM r := change_outputs_loop addr extra nft_changes change_left new_fee in
            change_while_loop fuel' addr extra (fst r) (snd r)
          else lift Err
      end
    else ret (change_left, new_fee).

  (* self.outputs.0.last_mut().unwrap().amount = last.amount.checked_add(&change_left)? *)
  Definition top_up_last (change_left : value) : M unit :=
    letM s := get in
    match rev (s_outputs s) with
    | [] => lift Panic
    | last :: before =>
        letM amount := lift (value_checked_add (o_amount last) change_left) in
        let last' := mkOutput (o_addr last) amount (o_extra last) in
        doM put (set_s_outputs (rev before ++ [last']) s) in
        (* check_output_limits on the grown output (since /repo f11ae45): value size and minimum ADA again *)
        output_admissible last'
    end.

  (* check_fee_after_change (since /repo "fix: add_change_if_needed fails when the fee it computed does not cover the
     transaction it leaves"): once the change outputs carry their final amounts and the fee field its final width, the
     stored fee is compared with the estimate of that transaction (the private min_fee on the builder as it is); a fee
     fixed with set_fee is left to build_tx *)
  Definition check_fee_after_change : M unit :=
    letM s := get in
    match s_fee_request s with
    | FeeExactly _ => ret tt
    | _ =>
        match s_fee s with
        | Some fee =>
            letM mf := askF s in
            if fee <? mf then lift Err else ret tt
        | None => ret tt
        end
    end.

  Definition asset_branch (fuel : nat) (addr extra : N) (input_total output_total : value) (fee : N) : M bool :=
    letM change_left0 := lift (value_checked_sub input_total output_total) in
    letM minimum_utxo_val := askA (mkOutput fake_addr fake_value extra) in
    letM r := change_while_loop fuel addr extra change_left0 fee in
    letM change_left1 := lift (value_checked_sub (fst r) (value_new (snd r))) in
    letM s := get in
    letM r2 := (if c_prefer_pure_change (s_cfg s) && (minimum_utxo_val <? coin change_left1) then
             letM additional_fee := fee_for_output (mkOutput addr change_left1 extra) in
             letM potential_pure_value := lift (value_checked_sub change_left1 (value_new additional_fee)) in
             if minimum_utxo_val <? coin potential_pure_value then
               letM new_fee' := lift (checked_add (snd r) additional_fee) in
               doM add_output (mkOutput addr potential_pure_value extra) in
               ret (value_zero, new_fee')
             else ret (change_left1, snd r)
           else ret (change_left1, snd r)) in
    doM modify (set_final_fee (snd r2)) in
    doM (if value_is_zero (fst r2) then ret tt else top_up_last (fst r2)) in
    doM check_fee_after_change in
    ret true.

  (* ----------------------------------------------------------------------------------------- *)
  (* the branch without assets *)

  Definition burn_extra (burn_amount : N) : M bool :=
    letM s := get in
    if c_do_not_burn_extra_change (s_cfg s) then lift Err
    else
      match s_fee_request s with
      | FeeExactly fee => if fee <? burn_amount then lift Err else doM modify (set_final_fee burn_amount) in ret false
      | _ => doM modify (set_final_fee burn_amount) in ret false
      end.

  Definition pure_branch (addr extra : N) (change_estimator : value) (fee : N) : M bool :=
    letM min_ada := askA (mkOutput fake_addr change_estimator extra) in
    if coin change_estimator <? min_ada then burn_extra (coin change_estimator)
    else
      letM fee_for_change := fee_for_output (mkOutput addr change_estimator extra) in
      letM new_fee := lift (checked_add fee fee_for_change) in
      letM need := lift (checked_add min_ada new_fee) in
      if coin change_estimator <? need then burn_extra (coin change_estimator)
      else
        doM modify (set_final_fee new_fee) in
        letM amount := lift (value_checked_sub change_estimator (value_new new_fee)) in
        doM add_output (mkOutput addr amount extra) in
        doM check_fee_after_change in
        ret true.

  (* ----------------------------------------------------------------------------------------- *)
  (* add_change_if_needed_with_optional_script_and_datum; [extra] identifies (plutus_data, script_ref) *)
  Definition add_change (fuel : nat) (addr extra : N) : M bool :=
    letM s := get in
    match s_fee s with
    | Some _ => lift Err
    | None =>
        letM fee := min_fee_pub in
        letM input_total := lift (get_total_input s) in
        letM output_total := lift (get_total_output s) in
        letM shortage := lift (get_input_shortage input_total output_total fee) in
        if shortage : bool then lift Err
        else
          letM out_plus_fee := lift (value_checked_add output_total (value_new fee)) in
          match value_partial_cmp input_total out_plus_fee with
          | Some Eq =>
              letM d := lift (value_checked_sub input_total output_total) in
              doM modify (set_final_fee (coin d)) in
              ret false
          | Some Lt => lift Err
          | None => lift Err
          | Some Gt =>
              letM change_estimator := lift (value_checked_sub input_total output_total) in
              if has_assets (multiasset_of change_estimator)
              then asset_branch fuel addr extra input_total output_total fee
              else pure_branch addr extra change_estimator fee
          end
    end.

  (* ----------------------------------------------------------------------------------------- *)
  (* add_inputs_from_and_change *)

  Definition add_inputs (l : list (N * value)) : M unit :=
    (* add_regular_utxo -> push_input: the amount is stored without zero quantities and asset-less policies *)
    modify (fun s => set_s_inputs (fold_left (fun m e => inputs_insert (fst e) (value_without_empty_entries (snd e)) m) l (s_inputs s)) s).

  Definition policies_count (e : N * value) : N :=
    match multiasset_of (snd e) with Some ma => ma_len ma | None => 0 end.

  (* the unused inputs in the order in which `pop` takes them: sorted by number of policies (stable) *)
  Definition sort_unused (used : list (N * value)) (utxos : list (N * value)) : list (N * value) :=
    sort_by_key policies_count (filter (fun e => negb (has_input (fst e) used)) utxos).

  Fixpoint retry_loop (fuel : nat) (addr extra : N) (l : list (N * value)) : M (option bool) :=
    match l with
    | [] => ret None
    | e :: r =>
        doM add_inputs [e] in
        letM res := catch (add_change fuel addr extra) in
        match res with
        | Some v => ret (Some v)
        | None => retry_loop fuel addr extra r
        end
    end.

  Definition add_inputs_from_and_change (fuel : nat) (utxos : list (N * value)) (addr extra : N) : M bool :=
    letM s0 := get in
    letM sel := askSel s0 utxos in
    doM add_inputs (fst sel) in
    if negb (snd sel) then lift Err
    else
      letM s1 := get in
      match s_fee s1 with
      | Some _ => lift Err
      | None =>
          letM res := catch (add_change fuel addr extra) in
          match res with
          | Some v => ret v
          | None =>
              letM s2 := get in
              letM r := retry_loop fuel addr extra (sort_unused (s_inputs s2) utxos) in
              match r with
              | Some v => ret v
              | None => lift Err
              end
          end
      end.

  (* ----------------------------------------------------------------------------------------- *)
  (* build_tx (no Plutus witnesses, no reference inputs in the modelled states) *)

  Definition validate_fee : M unit :=
    letM s := get in
    match get_fee_if_set s with
    | Some fee =>
        (* a fee computed before set_fee / set_min_fee was called must still honour that request (since /repo 0fc161c) *)
        let honoured :=
          match s_fee_request s with
          | FeeExactly e => fee =? e
          | FeeNotLess nl => nl <=? fee
          | FeeUnspecified => true
          end in
        if negb honoured then lift Err
        else
          letM mf := askF s in
          if fee <? mf then lift Err else ret tt
    | None => lift Err
    end.

  Definition build : M tx_body :=
    letM s := get in
    match get_fee_if_set s with
    | None => lift Err
    | Some _ =>
        doM (match s_mint s with Some m => (doM lift (mint_build m) in ret tt) | None => ret tt end) in
        letM big := askT s in
        if big : bool then lift Err else ret (body_of s)
    end.

  Definition build_tx : M tx_body :=
    doM validate_fee in
    letM s := get in
    doM lift (validate_balance s) in
    build.

End Change.

Arguments mkOut {O A}.
Arguments out_res {O A}.
Arguments out_st {O A}.
Arguments out_orc {O A}.
