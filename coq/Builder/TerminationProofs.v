(* Builder/TerminationProofs.v — C05 phase 2: the repaired change loop terminates.
   [change_while_loop] is the model of `while let Some(Greater) = change_left.multiasset…` in add_change_if_needed; the
   model gives it fuel and returns OutOfFuel beyond.  Since /repo f596a0b every pass must pack an asset with a positive
   quantity, and what is packed is subtracted from change_left by an exact subtraction: the total asset quantity of
   change_left (summed over the keys it starts with) strictly decreases.  Hence:
     change_while_loop_terminates   with fuel above that total the loop never returns OutOfFuel — for ANY oracle whose
                                    answers are themselves not OutOfFuel (oracle_answers), any packing, any prices
     tape_oracle_answers            the recorded-answer oracle meets that premise
   Before the fix no such measure existed: a pass that packed only empty multiassets (an asset larger than max_value_size
   on its own) left change_left's assets unchanged (corpus/C05/change-loop-progress.case). *)
From CSL Require Import Base.Prelude Base.U64 Num.Value Num.ValueProofs Deposits.Deposits Deposits.DepositsProofs
  Builder.Totals Builder.TotalsProofs Builder.Change Builder.ChangeProofs Builder.Scenario.
Local Open Scope N_scope.

Definition fine {A} (r : result A) : Prop := r <> OutOfFuel.

Lemma ma_add_entries_fine es : forall acc, fine (ma_add_entries acc es).
Proof.
  induction es as [|[[p n] q] es IH]; intros acc; cbn [ma_add_entries]; [discriminate|].
  unfold ma_add_entry. destruct (ma_get p acc) as [a|]; cbn [bind]; [|apply IH].
  destruct (assets_get n a) as [cur|]; cbn [bind]; [|apply IH].
  unfold u64_add. destruct (cur + q <? two64); cbn [bind]; [apply IH | discriminate].
Qed.

Lemma value_checked_add_fine a b : fine (value_checked_add a b).
Proof.
  unfold value_checked_add, u64_add. destruct (coin a + coin b <? two64); cbn [bind]; [|discriminate].
  destruct (multiasset_of a) as [l|], (multiasset_of b) as [r|]; cbn [bind]; try discriminate.
  unfold ma_checked_add. pose proof (ma_add_entries_fine (ma_entries l ++ ma_entries r) ma_new) as F.
  destruct (ma_add_entries ma_new (ma_entries l ++ ma_entries r)); cbn [bind]; try discriminate. exfalso. apply F. reflexivity.
Qed.

Lemma value_checked_sub_fine a b : fine (value_checked_sub a b).
Proof.
  unfold value_checked_sub, u64_sub. destruct (coin b <=? coin a); cbn [bind]; [|discriminate].
  destruct (match multiasset_of b with Some r => _ | None => true end); discriminate.
Qed.

Lemma checked_add_fine a b : fine (checked_add a b).
Proof. unfold checked_add. destruct (a + b <? two64); discriminate. Qed.
Lemma checked_sub_fine a b : fine (checked_sub a b).
Proof. unfold checked_sub. destruct (b <=? a); discriminate. Qed.

Section Termination.
  Context {O : Type}.
  Variable orc : @oracle O.
  Hypothesis OU : oracle_u64 orc.
  (* the oracle's own answers are results of terminating computations *)
  Definition oracle_answers : Prop :=
    (forall st o, fine (fst (ask_fee orc st o))) /\ (forall x o, fine (fst (ask_min_ada orc x o))).
  Hypothesis OA : oracle_answers.

  Notation M := (@M O).
  Definition noof {A} (m : M A) : Prop := forall s o, fine (out_res (m s o)).

  Lemma noof_ret {A} (a : A) : noof (ret a).
  Proof. intros s o. discriminate. Qed.
  Lemma noof_lift {A} (r : result A) : fine r -> noof (lift r).
  Proof. intros F s o. exact F. Qed.
  Lemma noof_bind {A B} (m : M A) (f : A -> M B) : noof m -> (forall a, noof (f a)) -> noof (bindM m f).
  Proof.
    intros Hm Hf s o. unfold bindM. specialize (Hm s o). destruct (out_res (m s o)) as [a| | |]; cbn; try discriminate.
    - apply Hf.
    - exfalso. apply Hm. reflexivity.
  Qed.
  Lemma noof_get : noof get.
  Proof. intros s o. discriminate. Qed.
  Lemma noof_put s' : noof (put s').
  Proof. intros s o. discriminate. Qed.
  Lemma noof_modify g : noof (modify g).
  Proof. intros s o. discriminate. Qed.
  Lemma noof_askF st : noof (askF orc st).
  Proof. intros s o. apply (proj1 OA). Qed.
  Lemma noof_askA x : noof (askA orc x).
  Proof. intros s o. apply (proj2 OA). Qed.
  Lemma noof_askS v : noof (askS orc v).
  Proof. intros s o. discriminate. Qed.
  Lemma noof_if {A} (b : bool) (m1 m2 : M A) : noof m1 -> noof m2 -> noof (if b then m1 else m2).
  Proof. destruct b; auto. Qed.

  Ltac noof_step :=
    first [ apply noof_ret | apply noof_get | apply noof_put | apply noof_modify | apply noof_askF | apply noof_askA
          | apply noof_askS | (apply noof_lift; first [apply value_checked_add_fine | apply value_checked_sub_fine
                                                        | apply checked_add_fine | apply checked_sub_fine | discriminate])
          | (apply noof_bind; [|intros ?]) | (apply noof_if) ].

  Lemma noof_output_admissible x : noof (output_admissible orc x).
  Proof. unfold output_admissible. repeat noof_step. Qed.
  Lemma noof_output_acceptable x : noof (output_acceptable orc x).
  Proof.
    unfold output_acceptable. destruct (Num.ValueNorm.value_has_empty_entries (o_amount x));
      [apply noof_lift; discriminate | apply noof_output_admissible].
  Qed.
  Lemma noof_add_output x : noof (add_output orc x).
  Proof. unfold add_output. apply noof_bind; [apply noof_output_acceptable | intros; apply noof_modify]. Qed.
  Lemma noof_fee_for_output x : noof (fee_for_output orc x).
  Proof.
    unfold fee_for_output. apply noof_bind; [apply noof_get | intros s0].
    apply noof_bind; [apply noof_askF | intros fb].
    apply noof_bind; [apply noof_output_acceptable | intros u].
    apply noof_bind; [apply noof_askF | intros fa]. apply noof_lift. apply checked_sub_fine.
  Qed.
  Lemma noof_unwrap m : noof (unwrap_ma m).
  Proof. destruct m; [apply noof_ret | apply noof_lift; discriminate]. Qed.
  Lemma noof_will_overflow out cur p n q : noof (will_adding_asset_make_output_overflow orc out cur p n q).
  Proof. unfold will_adding_asset_make_output_overflow. repeat noof_step. Qed.

  Lemma noof_pack_policy_assets policy l : forall a, noof (pack_policy_assets orc policy l a).
  Proof.
    induction l as [|[name q] l IH]; intros a; cbn [pack_policy_assets]; [apply noof_ret|].
    apply noof_bind; [apply noof_will_overflow | intros ov].
    apply noof_bind; [|intros a'; apply IH].
    destruct ov; [|apply noof_ret].
    apply noof_bind; [apply noof_lift; apply value_checked_add_fine | intros oa].
    apply noof_bind; [apply noof_unwrap | intros m; apply noof_ret].
  Qed.

  Lemma noof_pack_policies l : forall out changes, noof (pack_policies orc l out changes).
  Proof.
    induction l as [|[policy assets] l IH]; intros out changes; cbn [pack_policies]; [apply noof_ret|].
    apply noof_bind; [apply noof_pack_policy_assets | intros a].
    apply noof_bind; [apply noof_lift; apply value_checked_add_fine | intros oa].
    apply noof_bind; [apply noof_askA | intros ma].
    apply noof_bind; [apply noof_askS | intros big]. destruct big; [apply noof_ret | apply IH].
  Qed.

  Lemma noof_pack_nfts ce : noof (pack_nfts_for_change orc ce).
  Proof.
    unfold pack_nfts_for_change. apply noof_bind; [apply noof_unwrap | intros ma].
    apply noof_bind; [apply noof_pack_policies | intros r].
    apply noof_bind; [apply noof_unwrap | intros last; apply noof_ret].
  Qed.

  Lemma noof_change_outputs_loop addr extra l : forall cl nf, noof (change_outputs_loop orc addr extra l cl nf).
  Proof.
    induction l as [|nft l IH]; intros cl nf; cbn [change_outputs_loop]; [apply noof_ret|].
    apply noof_bind; [apply noof_askA | intros min_ada].
    apply noof_bind; [apply noof_fee_for_output | intros ffc].
    apply noof_bind; [apply noof_lift; apply checked_add_fine | intros nf'].
    apply noof_bind; [apply noof_lift; apply checked_add_fine | intros need].
    apply noof_if; [apply noof_lift; discriminate|].
    apply noof_bind; [apply noof_lift; apply value_checked_sub_fine | intros cl'].
    apply noof_bind; [apply noof_add_output | intros u; apply IH].
  Qed.

  (* ----------------------------------------------------------------------------------------- *)
  (* what one pass takes out of change_left *)

  Fixpoint msum (l : list multiasset) (p n : bytes) : N :=
    match l with [] => 0 | m :: r => ma_qty m p n + msum r p n end.

  Variable cfg0 : config.
  Notation WF := (WF cfg0).

  Lemma change_outputs_loop_qty addr extra l : forall cl nf, mas_wf l -> value_wf cl ->
    hoare WF (fun _ => True) (change_outputs_loop orc addr extra l cl nf)
      (fun r _ => value_wf (fst r) /\ forall p n, qty cl p n = qty (fst r) p n + msum l p n).
  Proof.
    induction l as [|nft l IH]; intros cl nf Wl Wcl.
    - cbn [change_outputs_loop]. apply hoare_ret'. intros s _ _. split; [exact Wcl|]. intros p n. cbn. lia.
    - cbn [change_outputs_loop]. inversion Wl as [|? ? Wn Wl']. subst.
      apply (hoare_askA_bind orc OU). intros min_ada Lm.
      set (cv := value_set_coin min_ada (value_set_multiasset nft (value_new 0))).
      assert (Wcv : value_wf cv).
      { apply value_wf_set_coin; [exact Lm|]. apply value_wf_set_multiasset; [reflexivity | exact Wn]. }
      eapply hoare_bind; [apply (fee_for_output_spec orc OU cfg0 (fun _ => True))|]. intros ffc. cbn beta.
      apply hoare_weaken with (P := fun _ => True); [auto|].
      apply hoare_lift_bind. intros nf' _. apply hoare_lift_bind. intros need _.
      apply hoare_if; intros _; [apply hoare_fail; discriminate|].
      apply hoare_lift_bind. intros cl' Ecl.
      destruct (value_checked_sub_ok _ _ _ Wcl Wcv Ecl) as [_ [_ [Hq Wcl']]].
      eapply hoare_bind; [apply (add_output_spec orc OU cfg0 (fun _ => True) (mkOutput addr cv extra) (fun _ _ => True) Wcv); auto|].
      intros u. eapply hoare_conseq; [apply (IH cl' nf' Wl' Wcl') | auto |].
      intros r s _ [Wr Q]. split; [exact Wr|]. intros p n. destruct (Hq p n) as [Hle Hd].
      assert (Ecv : qty cv p n = ma_qty nft p n) by reflexivity.
      rewrite Ecv in *. specialize (Q p n). cbn [msum]. lia.
  Qed.

  Lemma ma_positive_exists m : ma_wfb m = true -> ma_positive m = true -> exists p n, 0 < ma_qty m p n.
  Proof.
    intros W H. destruct (ma_leb_sem m ma_new) eqn:L.
    - exfalso. unfold ma_positive, ma_partial_cmp in H. rewrite !ma_is_all_zeros_leb, L in H.
      destruct (ma_leb_sem ma_new m); discriminate.
    - unfold ma_leb_sem in L. apply forallb_false in L. destruct L as [[[p n] q] [I F]].
      exists p, n. rewrite (entries_in_qty m p n q W I). unfold ma_qty in F. cbn in F. lia.
  Qed.

  Lemma msum_positive l : mas_wf l -> existsb ma_positive l = true -> exists p n, 0 < msum l p n.
  Proof.
    induction l as [|m l IH]; intros W H; [discriminate|]. inversion W as [|? ? Wm Wl]. subst.
    cbn [existsb] in H. apply orb_true_iff in H. destruct H as [H|H].
    - destruct (ma_positive_exists m Wm H) as [p [n L]]. exists p, n. cbn [msum]. lia.
    - destruct (IH Wl H) as [p [n L]]. exists p, n. cbn [msum]. lia.
  Qed.

  (* ----------------------------------------------------------------------------------------- *)
  (* the measure: total quantity over a fixed key list that covers every asset of change_left *)

  Definition ksum (K : list (bytes * bytes)) (v : value) : N := sumN (map (fun k => qty v (fst k) (snd k)) K).
  Definition covers (K : list (bytes * bytes)) (v : value) : Prop := forall p n, 0 < qty v p n -> In (p, n) K.

  Lemma ksum_decreases K v v' : (forall p n, qty v' p n <= qty v p n) ->
    (exists p n, In (p, n) K /\ qty v' p n < qty v p n) -> ksum K v' < ksum K v.
  Proof.
    intros Hle [p [n [I L]]]. unfold ksum. induction K as [|k K IH]; [destruct I|].
    cbn [map sumN fold_right]. change (fold_right N.add 0 ?l) with (sumN l).
    assert (Hmono : forall K0, sumN (map (fun k => qty v' (fst k) (snd k)) K0) <= sumN (map (fun k => qty v (fst k) (snd k)) K0)).
    { induction K0 as [|k0 K0 IH0]; [reflexivity|]. cbn [map sumN fold_right]. change (fold_right N.add 0 ?l) with (sumN l) in *.
      pose proof (Hle (fst k0) (snd k0)). lia. }
    destruct I as [->|I].
    - cbn [fst snd]. pose proof (Hmono K). lia.
    - pose proof (Hle (fst k) (snd k)). specialize (IH I). lia.
  Qed.

  Lemma bind_res_cases {A B} (m : M A) (f : A -> M B) s o :
    (exists a, out_res (m s o) = Ok a /\ bindM m f s o = f a (out_st (m s o)) (out_orc (m s o))) \/
    (out_res (bindM m f s o) <> OutOfFuel \/ out_res (m s o) = OutOfFuel) /\ (forall a, out_res (m s o) <> Ok a).
  Proof.
    unfold bindM. destruct (out_res (m s o)) as [a| | |] eqn:E.
    - left. exists a. split; reflexivity.
    - right. split; [left; cbn; discriminate | discriminate].
    - right. split; [left; cbn; discriminate | discriminate].
    - right. split; [right; reflexivity | discriminate].
  Qed.

  Theorem change_while_loop_terminates K addr extra fuel : forall cl nf s o,
    WF s -> value_wf cl -> covers K cl -> ksum K cl < N.of_nat fuel ->
    fine (out_res (change_while_loop orc fuel addr extra cl nf s o)).
  Proof.
    induction fuel as [|fuel IH]; intros cl nf s o W Wcl Cov Hm; [lia|].
    cbn [change_while_loop]. destruct (change_has_assets_left cl); [|discriminate].
    (* pack *)
    destruct (bind_res_cases (pack_nfts_for_change orc cl)
                (fun nft_changes => if existsb ma_positive nft_changes
                   then bindM (change_outputs_loop orc addr extra nft_changes cl nf)
                              (fun r => change_while_loop orc fuel addr extra (fst r) (snd r))
                   else lift Err) s o) as [[l [El Eb]] | [[Hf|Hf] _]];
      [| exact Hf | exfalso; exact (noof_pack_nfts cl s o Hf)].
    rewrite Eb.
    destruct (pack_nfts_spec orc OU cfg0 (fun _ => True) cl Wcl s o W I) as [W1 Hl]. rewrite El in Hl. destruct Hl as [_ Wl].
    set (s1 := out_st (pack_nfts_for_change orc cl s o)) in *. set (o1 := out_orc (pack_nfts_for_change orc cl s o)) in *.
    destruct (existsb ma_positive l) eqn:Pos; [|discriminate].
    destruct (bind_res_cases (change_outputs_loop orc addr extra l cl nf)
                (fun r => change_while_loop orc fuel addr extra (fst r) (snd r)) s1 o1) as [[r [Er Eb2]] | [[Hf|Hf] _]];
      [| exact Hf | exfalso; exact (noof_change_outputs_loop addr extra l cl nf s1 o1 Hf)].
    rewrite Eb2.
    destruct (change_outputs_loop_qty addr extra l cl nf Wl Wcl s1 o1 W1 I) as [W2 Hq]. rewrite Er in Hq. destruct Hq as [Wr Q].
    destruct (msum_positive l Wl Pos) as [p [n Lp]].
    apply IH; [exact W2 | exact Wr | |].
    - intros p' n' L'. apply Cov. specialize (Q p' n'). lia.
    - assert (D : ksum K (fst r) < ksum K cl).
      { apply ksum_decreases; [intros p' n'; specialize (Q p' n'); lia|].
        exists p, n. split; [apply Cov; specialize (Q p n); lia | specialize (Q p n); lia]. }
      lia.
  Qed.

  (* every asset of a value is among its own keys *)
  Lemma covers_keys v : covers (value_keys v) v.
  Proof.
    intros p n L. unfold value_keys. rewrite opt_ma_qty_unfold in L.
    assert (E : ma_qty (opt_ma (multiasset_of v)) p n <> 0) by lia.
    apply qty_in_entries in E. apply in_map_iff. exists (p, n, ma_qty (opt_ma (multiasset_of v)) p n). split; [reflexivity | exact E].
  Qed.

  (* the total asset quantity of change_left bounds the number of passes *)
  Corollary change_loop_fuel_bound addr extra fuel cl nf s o :
    WF s -> value_wf cl -> ksum (value_keys cl) cl < N.of_nat fuel ->
    fine (out_res (change_while_loop orc fuel addr extra cl nf s o)).
  Proof. intros W Wcl H. eapply change_while_loop_terminates; [exact W | exact Wcl | apply covers_keys | exact H]. Qed.

End Termination.

Lemma pop_num_fine site o : fine (fst (pop_num site o)).
Proof.
  unfold pop_num. destruct (pop site o) as [[[x|]|] o']; cbn; try discriminate.
  destruct (x <? two64); cbn; discriminate.
Qed.

Lemma tape_oracle_answers : oracle_answers tape_oracle.
Proof. split; intros; apply pop_num_fine. Qed.
