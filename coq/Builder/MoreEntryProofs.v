(* Builder/MoreEntryProofs.v — C05 phase 2: conservation through the remaining entry points.
   Inventory
     percent_entry_balanced      add_inputs_from_and_change_with_collateral_return = Ok -> balanced (any oracle)
     percent_entry_is_c19        the collateral side of the joint model IS C19's percent_helper, with the balancing outcome
                                 (succeeded?, fee afterwards) computed by the C05 model instead of given from outside, and the
                                 min-ADA function read off the oracle: neither side is an oracle for the other
     mint_and_output_wf, mint_and_output_min_wf, add_mint_asset_wf, set_mint_deprecated_wf   the builder stays well-formed
     run_op2_spec, histories2_balanced, history2_balancing   histories over the extended operation set *)
From CSL Require Import Base.Prelude Base.U64 Num.Value Num.ValueProofs Deposits.Deposits Deposits.DepositsProofs
  Builder.Totals Builder.TotalsProofs Builder.Change Builder.ChangeProofs Builder.Scenario Builder.ScenarioProofs Builder.MoreEntry.
From CSL Require Collateral.Collateral.
Local Open Scope N_scope.

Section Joint.
  Context {O : Type}.
  Variable orc : @oracle O.
  Hypothesis OU : oracle_u64 orc.
  Variable ask_col : Collateral.output -> O -> result N * O.

  (* the state component of percent_entry is that of the balancing call *)
  Lemma percent_entry_state fuel utxos addr extra addr_b pct s c o :
    jo_st (percent_entry orc ask_col fuel utxos addr extra addr_b pct s c o) = s \/
    jo_st (percent_entry orc ask_col fuel utxos addr extra addr_b pct s c o)
      = out_st (add_inputs_from_and_change orc fuel utxos addr extra s o).
  Proof.
    unfold percent_entry. destruct (Collateral.total_value (cs_inputs c)); auto.
    destruct (out_res (add_inputs_from_and_change orc fuel utxos addr extra s o)); auto.
    destruct (get_fee_if_set _) as [fee|]; auto.
    destruct (let* x := checked_mul fee pct in checked_add (x / 100) 1) as [req| | |]; auto.
    destruct (col_set_total_and_return ask_col req addr_b _ _) as [[[]] ?]; auto.
  Qed.

  Theorem percent_entry_balanced fuel utxos addr extra addr_b pct s c o :
    state_wf s -> utxos_wf utxos ->
    jo_res (percent_entry orc ask_col fuel utxos addr extra addr_b pct s c o) = Ok tt ->
    state_wf (jo_st (percent_entry orc ask_col fuel utxos addr extra addr_b pct s c o)) /\
    ledger_ok s (body_of (jo_st (percent_entry orc ask_col fuel utxos addr extra addr_b pct s c o))).
  Proof.
    intros W Wu. unfold percent_entry. destruct (Collateral.total_value (cs_inputs c)); try discriminate.
    destruct (out_res (add_inputs_from_and_change orc fuel utxos addr extra s o)) as [b| | |] eqn:E; try discriminate.
    pose proof (select_and_change orc OU fuel utxos addr extra s o b W Wu E) as H.
    destruct (get_fee_if_set _) as [fee|]; try discriminate.
    destruct (let* x := checked_mul fee pct in checked_add (x / 100) 1) as [req| | |]; try discriminate.
    destruct (col_set_total_and_return ask_col req addr_b _ _) as [[[]] ?]; try discriminate.
    intros _. exact H.
  Qed.

  (* every outcome, also a failing one, leaves a well-formed builder with the same configuration *)
  Lemma percent_entry_wf cfg fuel utxos addr extra addr_b pct s c o :
    WF cfg s -> utxos_wf utxos -> WF cfg (jo_st (percent_entry orc ask_col fuel utxos addr extra addr_b pct s c o)).
  Proof.
    intros W Wu.
    destruct (percent_entry_state fuel utxos addr extra addr_b pct s c o) as [-> | ->]; [exact W|].
    exact (proj1 (select_and_change_balances orc OU cfg fuel utxos addr extra Wu s o W I)).
  Qed.

  (* ----------------------------------------------------------------------------------------- *)
  (* the collateral side is C19's percent_helper *)

  Lemma u64_mul_is a b : Collateral.u64_mul a b = checked_mul a b.
  Proof. reflexivity. Qed.
  Lemma u64_add_is a b : u64_add a b = checked_add a b.
  Proof. reflexivity. Qed.

  Lemma col_set_is_c19 total addr_b s c o (min_ada := fun out => fst (ask_col out o)) :
    let r := col_set_total_and_return ask_col total addr_b c o in
    match Collateral.set_total_collateral_and_return min_ada total addr_b (to_c19 s c) with
    | Ok b' => fst (fst r) = Ok tt /\ to_c19 s (snd (fst r)) = b'
    | _ => fst (fst r) <> Ok tt /\ snd (fst r) = c
    end.
  Proof.
    unfold col_set_total_and_return, Collateral.set_total_collateral_and_return, Collateral.set_total_collateral_and_return_gen,
      Collateral.legacy_keeps_stale_return, to_c19, min_ada. cbn [Collateral.b_collateral].
    destruct (cs_inputs c) as [|x l] eqn:Ei; cbn [is_nilb Collateral.is_nil]; [split; [discriminate | reflexivity]|].
    rewrite <- Ei. destruct (Collateral.total_value (cs_inputs c)) as [inp| | |]; cbn [bind]; try (split; [discriminate | reflexivity]).
    destruct (coin inp <? total); [split; [discriminate | reflexivity]|].
    destruct (value_checked_sub inp (value_new total)) as [ret| | |]; cbn [bind]; try (split; [discriminate | reflexivity]).
    replace (Collateral.is_some (multiasset_of ret)) with (is_someb (multiasset_of ret)) by (destruct (multiasset_of ret); reflexivity).
    destruct (is_someb (multiasset_of ret) || (0 <? coin ret)).
    - destruct (ask_col (Collateral.output_new addr_b ret) o) as [[m| | |] o'] eqn:Ea; cbn [fst snd bind];
        try (split; [discriminate | reflexivity]).
      destruct (coin ret <? m); cbn [fst snd]; [split; [discriminate | reflexivity]|].
      split; reflexivity.
    - cbn [fst snd]. split; reflexivity.
  Qed.

  Theorem percent_entry_is_c19 fuel utxos addr extra addr_b pct s c o :
    let bal := add_inputs_from_and_change orc fuel utxos addr extra s o in
    let r := percent_entry orc ask_col fuel utxos addr extra addr_b pct s c o in
    (out_res bal <> Panic /\ out_res bal <> OutOfFuel) ->
    let h := Collateral.percent_helper (fun out => fst (ask_col out (out_orc bal))) pct addr_b
               (is_ok (out_res bal)) (get_fee_if_set (out_st bal)) (to_c19 s c) in
    (match Collateral.total_value (cs_inputs c) with Ok _ => to_c19 (jo_st r) (jo_col r) = snd h | _ => jo_col r = clear_col c end) /\
    (fst h = true <-> jo_res r = Ok tt).
  Proof.
    intros bal r NP h. subst h r. unfold percent_entry, Collateral.percent_helper, Collateral.percent_helper_gen,
      Collateral.legacy_early_failure_keeps_fields, Collateral.legacy_keeps_stale_return.
    change (Collateral.b_collateral (to_c19 s c)) with (cs_inputs c).
    destruct (Collateral.total_value (cs_inputs c)) as [tc| | |]; try (split; [reflexivity | split; discriminate]).
    fold bal. destruct NP as [NP1 NP2].
    destruct (out_res bal) as [b| | |] eqn:Eb; try congruence; cbn [is_ok negb].
    - cbn [Collateral.b_fee Collateral.clear_fields Collateral.with_fee Collateral.with_total Collateral.with_return
           Collateral.b_collateral Collateral.b_return Collateral.b_total].
      destruct (get_fee_if_set (out_st bal)) as [fee|] eqn:Ef; [|split; [cbn [jo_st jo_col jo_res]; unfold to_c19; rewrite ?Ef; reflexivity | split; discriminate]].
      change (Collateral.u64_mul fee pct) with (checked_mul fee pct).
      destruct (checked_mul fee pct) as [x| | |] eqn:Em; cbn [bind];
        try (split; [cbn [jo_st jo_col jo_res]; unfold to_c19; rewrite ?Ef; reflexivity | split; discriminate]).
      change (u64_add (x / 100) 1) with (checked_add (x / 100) 1).
      destruct (checked_add (x / 100) 1) as [required| | |] eqn:Ea;
        try (split; [cbn [jo_st jo_col jo_res]; unfold to_c19; rewrite ?Ef; reflexivity | split; discriminate]).
      pose proof (col_set_is_c19 required addr_b (out_st bal) (clear_col c) (out_orc bal)) as H. cbn zeta in H.
      unfold to_c19 in H at 1. cbn [clear_col cs_inputs cs_return cs_total] in H. rewrite Ef in H.
      unfold Collateral.set_total_collateral_and_return, Collateral.legacy_keeps_stale_return in H.
      destruct (Collateral.set_total_collateral_and_return_gen _ _ required addr_b _)
        as [b'| | |]; destruct (col_set_total_and_return ask_col required addr_b (clear_col c) (out_orc bal)) as [[res c''] o''];
        cbn [fst snd] in *; destruct H as [H1 H2].
      + subst res. cbn [jo_st jo_col jo_res]. split; [exact H2 | split; reflexivity].
      + destruct res as [[]| | |]; try congruence; cbn [jo_st jo_col jo_res]; subst c'';
          (split; [cbn [jo_st jo_col jo_res]; unfold to_c19; rewrite ?Ef; reflexivity | split; discriminate]).
      + destruct res as [[]| | |]; try congruence; cbn [jo_st jo_col jo_res]; subst c'';
          (split; [cbn [jo_st jo_col jo_res]; unfold to_c19; rewrite ?Ef; reflexivity | split; discriminate]).
      + destruct res as [[]| | |]; try congruence; cbn [jo_st jo_col jo_res]; subst c'';
          (split; [cbn [jo_st jo_col jo_res]; unfold to_c19; rewrite ?Ef; reflexivity | split; discriminate]).
    - cbn [jo_st jo_col jo_res]. split; [reflexivity | split; discriminate].
  Qed.

End Joint.

(* ------------------------------------------------------------------------------------------- *)
(* mint together with an output; deprecated setters: the builder stays well-formed *)

Lemma WF_set_mint cfg m s : WF cfg s -> mint_wfb m = true -> WF cfg (set_s_mint (Some m) s).
Proof.
  intros [W C] Wm. split; [|exact C]. unfold state_wf, state_wfb in *. cbn [s_inputs s_outputs s_mint set_s_mint].
  apply andb_true_iff in W. destruct W as [W _]. rewrite W, Wm. reflexivity.
Qed.

Lemma opt_mint_wf s : state_wf s -> mint_wfb (opt_mint (s_mint s)) = true.
Proof.
  intros W. unfold state_wf, state_wfb in W. apply andb_true_iff in W. destruct W as [_ W].
  unfold opt_mint. destruct (s_mint s); [exact W | reflexivity].
Qed.

Lemma minted_multiasset_wf p n amt : ma_wfb (minted_multiasset p n amt) = true.
Proof.
  unfold minted_multiasset. apply ma_wfb_insert; [apply ma_wfb_nil|].
  apply assets_wfb_insert; [apply assets_wfb_nil|]. apply (int_amount_bound true amt).
Qed.

Lemma mint_fill_wf es : forall m m', mint_wfb m = true -> Forall (fun e : bytes * bytes * Z => (snd e <= int_max)%Z) es ->
  mint_fill es m = Ok m' -> mint_wfb m' = true.
Proof.
  induction es as [|[[p n] z] es IH]; intros m m' W F H; cbn [mint_fill] in H.
  - inversion H. subst. exact W.
  - inversion F as [|? ? Fz F']. subst. cbn [snd] in Fz.
    destruct (mint_update true p n z m) as [m1| | |] eqn:E; cbn [bind] in H; try discriminate.
    eapply IH; [|exact F'|exact H]. eapply mint_update_wf; eassumption.
Qed.

Section MintOps.
  Context {O : Type}.
  Variable orc : @oracle O.
  Hypothesis OU : oracle_u64 orc.
  Variable cfg : config.

  Lemma add_mint_asset_wf p n amt : (amt <= int_max)%Z ->
    hoare (WF cfg) (fun _ => True) (@add_mint_asset O p n amt) (fun _ _ => True).
  Proof.
    intros Hm. unfold add_mint_asset. apply hoare_get_bind. intros s0. apply hoare_lift_bind. intros m Em.
    apply hoare_put. intros s Js [E _]. subst s. split; [|exact I].
    apply WF_set_mint; [exact Js|]. eapply mint_update_wf; [apply opt_mint_wf; exact (proj1 Js) | exact Hm | exact Em].
  Qed.

  Lemma mint_and_output_wf p n amt addr extra coin : (amt <= int_max)%Z -> coin < two64 ->
    hoare (WF cfg) (fun _ => True) (mint_and_output orc p n amt addr extra coin) (fun _ _ => True).
  Proof.
    intros Hm Hc. unfold mint_and_output. destruct (amt <? 0)%Z; [apply hoare_fail; discriminate|].
    eapply hoare_bind; [apply add_mint_asset_wf; exact Hm|]. intros u.
    apply (add_output_spec orc OU cfg); [|auto].
    cbn [o_amount]. apply value_wf_iff. cbn [Value.coin multiasset_of value_set_multiasset value_new]. split; [exact Hc | apply minted_multiasset_wf].
  Qed.

  Lemma mint_and_output_min_wf p n amt addr extra : (amt <= int_max)%Z ->
    hoare (WF cfg) (fun _ => True) (mint_and_output_min orc p n amt addr extra) (fun _ _ => True).
  Proof.
    intros Hm. unfold mint_and_output_min. destruct (amt <? 0)%Z; [apply hoare_fail; discriminate|].
    eapply hoare_bind; [apply add_mint_asset_wf; exact Hm|]. intros u.
    apply (hoare_askA_bind orc OU). intros a1 L1. apply (hoare_askA_bind orc OU). intros a2 L2.
    apply (hoare_askA_bind orc OU). intros a3 L3.
    apply (add_output_spec orc OU cfg); [|auto].
    cbn [o_amount]. apply value_wf_iff. cbn [Value.coin multiasset_of value_set_multiasset value_new]. split; [lia | apply minted_multiasset_wf].
  Qed.
End MintOps.

(* ------------------------------------------------------------------------------------------- *)
(* histories over the extended operation set *)

Definition op2_wf (x : op2) : Prop :=
  match x with
  | Old y => op_wf y
  | OpMintOutput _ _ _ _ _ coin => coin < two64
  | _ => True
  end.

Section Scenarios2.
  Variable utxos : list (N * value).
  Hypothesis WU : utxos_wf utxos.
  Variable cfg : config.
  Notation WFc := (WF cfg).

  Lemma in_range_max amt : in_range amt = true -> (amt <= int_max)%Z.
  Proof. unfold in_range. intros H. apply negb_true_iff in H. apply orb_false_iff in H. lia. Qed.

  Lemma finish_j_st (r : @jout tape_state) : snd (fst (finish_j r)) = jo_st r.
  Proof. unfold finish_j. destruct (_ || _ || _); reflexivity. Qed.

  Lemma finish_unit_spec {A} (r : @out tape_state A) :
    snd (finish r (fun _ => ROk)) = out_st r /\ forall v, fst (finish r (fun _ => ROk)) <> RBool v.
  Proof.
    unfold finish. destruct (_ || _ || _); cbn [fst snd]; split; try reflexivity; try discriminate.
    intros v. destruct (out_res r); discriminate.
  Qed.

  Lemma pure_err_spec s o : WFc s -> WFc (snd (pure_op s o Err)) /\ forall v, fst (pure_op s o Err) <> RBool v.
  Proof. intros W. unfold pure_op. destruct (t_tape o), (t_sel o); cbn [fst snd]; split; try exact W; discriminate. Qed.

  Lemma pure_op_nobool s o r : forall v, fst (pure_op s o r) <> RBool v.
  Proof. intros v. unfold pure_op. destruct (t_tape o), (t_sel o), r; discriminate. Qed.

  (* an operation that only touches the builder state and is never a balancing operation *)
  Lemma wrap_spec (p : opres * state) (c : colstate) (x : op2) :
    (WFc (snd p) /\ forall v, fst p <> RBool v) ->
    (forall avail addr extra addr_b pct, x <> OpPercent avail addr extra addr_b pct) ->
    let r := (match p with (res, s') => (res, s', c, @None tx_body) end) in
    WFc (snd (fst (fst r))) /\
    (forall b, snd r = Some b -> ledger_balanced (c_pool_deposit cfg) (c_key_deposit cfg) b) /\
    (forall v, fst (fst (fst r)) = RBool v -> balanced (snd (fst (fst r)))) /\
    (forall avail addr extra addr_b pct, x = OpPercent avail addr extra addr_b pct -> fst (fst (fst r)) = ROk ->
       balanced (snd (fst (fst r)))).
  Proof.
    intros [W N] Nx. destruct p as [res s']. cbn [fst snd] in *. split; [exact W|]. split; [discriminate|]. split.
    - intros v Hv. exfalso. exact (N v Hv).
    - intros ? ? ? ? ? Hx. exfalso. eapply Nx. exact Hx.
  Qed.

  Lemma run_op2_spec x s c o : WFc s -> op2_wf x ->
    let r := run_op2 utxos x s c o in
    WFc (snd (fst (fst r))) /\
    (forall b, snd r = Some b -> ledger_balanced (c_pool_deposit cfg) (c_key_deposit cfg) b) /\
    (forall v, fst (fst (fst r)) = RBool v -> balanced (snd (fst (fst r)))) /\
    (* the collateral entry point reports success only with a balanced builder *)
    (forall avail addr extra addr_b pct, x = OpPercent avail addr extra addr_b pct -> fst (fst (fst r)) = ROk ->
       balanced (snd (fst (fst r)))).
  Proof.
    intros W Wx. pose proof W as [Ws Wc].
    destruct x as [y|ids|avail addr extra addr_b pct|p n amt addr extra coin|p n amt addr extra|p n amt|ok es|l|l| |p es|l]; cbn [run_op2].
    - (* old operations *)
      pose proof (run_op_spec utxos WU cfg y s o W Wx) as H. cbn zeta in H.
      destruct (run_op utxos y s o) as [[res s'] tx]. cbn [fst snd] in *. destruct H as [H1 [H2 H3]].
      split; [exact H1|]. split; [exact H2|]. split; [exact H3|]. intros; discriminate.
    - (* set_collateral *)
      unfold pure_op. destruct (t_tape o), (t_sel o); cbn [fst snd];
        (split; [exact W | split; [discriminate | split; [discriminate | intros; discriminate]]]).
    - (* add_inputs_from_and_change_with_collateral_return *)
      set (r := percent_entry tape_oracle tape_ask_col fuel_default (resolve utxos avail) addr extra addr_b pct s c o).
      pose proof (finish_j_st r) as Est.
      destruct (finish_j r) as [[res s'] c'] eqn:Ef. cbn [fst snd] in *. subst s'.
      split; [apply (percent_entry_wf tape_oracle tape_oracle_u64 tape_ask_col cfg); [exact W | apply resolve_wf; exact WU]|].
      split; [discriminate|]. split.
      + intros v Hv. unfold finish_j in Ef. destruct (_ || _ || _); inversion Ef; subst; try discriminate.
        destruct (jo_res r); discriminate.
      + intros ? ? ? ? ? _ Hok. unfold finish_j in Ef. destruct (_ || _ || _); inversion Ef as [[Eres E2 E3]]; subst res; try discriminate.
        destruct (jo_res r) as [[]| | |] eqn:Er; try discriminate.
        destruct (percent_entry_balanced tape_oracle tape_oracle_u64 tape_ask_col fuel_default (resolve utxos avail) addr extra addr_b pct s c o
                    Ws (resolve_wf utxos avail WU) Er) as [W' B].
        (* balanced in the sense of Builder.ChangeProofs: recover it from the Hoare form *)
        unfold percent_entry in *. fold r in Er.
        destruct (Collateral.total_value (cs_inputs c)); try discriminate.
        pose proof (select_and_change_balances tape_oracle tape_oracle_u64 cfg fuel_default (resolve utxos avail) addr extra
                      (resolve_wf utxos avail WU) s o W I) as [_ HB].
        subst r. destruct (out_res (add_inputs_from_and_change tape_oracle fuel_default (resolve utxos avail) addr extra s o)) as [bb| | |];
          try discriminate.
        destruct (get_fee_if_set _) as [fee|]; try discriminate.
        destruct (let* x := checked_mul fee pct in checked_add (x / 100) 1) as [req| | |]; try discriminate.
        destruct (col_set_total_and_return tape_ask_col req addr_b _ _) as [[[]] ?]; try discriminate.
        exact HB.
    - (* add_mint_asset_and_output *)
      apply wrap_spec; [|intros; discriminate]. destruct (in_range amt) eqn:R; [|apply pure_err_spec; exact W].
      destruct (finish_unit_spec (mint_and_output tape_oracle p n amt addr extra coin s o)) as [E N]. split; [|exact N].
      rewrite E. exact (proj1 (mint_and_output_wf tape_oracle tape_oracle_u64 cfg p n amt addr extra coin (in_range_max _ R) Wx s o W I)).
    - apply wrap_spec; [|intros; discriminate]. destruct (in_range amt) eqn:R; [|apply pure_err_spec; exact W].
      destruct (finish_unit_spec (mint_and_output_min tape_oracle p n amt addr extra s o)) as [E N]. split; [|exact N].
      rewrite E. exact (proj1 (mint_and_output_min_wf tape_oracle tape_oracle_u64 cfg p n amt addr extra (in_range_max _ R) s o W I)).
    - apply wrap_spec; [|intros; discriminate]. destruct (in_range amt) eqn:R; [|apply pure_err_spec; exact W].
      destruct (finish_unit_spec (@add_mint_asset tape_state p n amt s o)) as [E N]. split; [|exact N].
      rewrite E. exact (proj1 (add_mint_asset_wf cfg p n amt (in_range_max _ R) s o W I)).
    - (* set_mint (deprecated) *)
      apply wrap_spec; [|intros; discriminate]. split; [|apply pure_op_nobool].
      apply pure_op_wf; [exact W|]. intros s'.
      destruct (forallb (fun e : bytes * bytes * Z => in_range (snd e)) es) eqn:R; [|discriminate].
      unfold set_mint_deprecated. destruct (negb ok); [discriminate|].
      destruct (mint_fill es []) as [m| | |] eqn:E; cbn [bind]; try discriminate.
      intros E'. injection E' as <-. apply WF_set_mint; [exact W|].
      apply (mint_fill_wf es [] m); [reflexivity | | exact E].
      apply Forall_forall. intros e Ie. rewrite forallb_forall in R. apply in_range_max. apply R. exact Ie.
    - (* set_certs (deprecated) *)
      apply wrap_spec; [|intros; discriminate]. split; [|apply pure_op_nobool].
      apply pure_op_wf; [exact W|]. intros s'. destruct (set_certs l) as [cs| | |]; cbn [bind]; try discriminate.
      intros E'. injection E' as <-. apply (WF_fields cfg s); auto.
    - (* set_withdrawals (deprecated) *)
      apply wrap_spec; [|intros; discriminate]. split; [|apply pure_op_nobool].
      apply pure_op_wf; [exact W|]. intros s'. destruct (set_withdrawals _) as [ws| | |]; cbn [bind]; try discriminate.
      intros E'. injection E' as <-. apply (WF_fields cfg s); auto.
    - (* remove_mint_builder *)
      apply wrap_spec; [|intros; discriminate]. split; [|apply pure_op_nobool].
      apply pure_op_wf; [exact W|]. intros s' E'. injection E' as <-.
      destruct W as [Wst Wcf]. split; [|exact Wcf].
      unfold state_wf, state_wfb in *. cbn [s_inputs s_outputs s_mint set_s_mint].
      apply andb_true_iff in Wst. destruct Wst as [Wio _]. rewrite Wio. reflexivity.
    - (* set_mint_asset (deprecated) *)
      destruct (forallb (fun e : bytes * Z => in_range (snd e) && negb (snd e =? 0)%Z) es) eqn:R;
        [|apply wrap_spec; [apply pure_err_spec; exact W | intros; discriminate]].
      assert (Hmax : Forall (fun e : bytes * Z => (snd e <= int_max)%Z) (mint_assets_map es)).
      { unfold mint_assets_map.
        assert (G : forall l acc, Forall (fun e : bytes * Z => (snd e <= int_max)%Z) acc ->
                      forallb (fun e : bytes * Z => in_range (snd e) && negb (snd e =? 0)%Z) l = true ->
                      Forall (fun e : bytes * Z => (snd e <= int_max)%Z)
                             (fold_left (fun m (e : bytes * Z) => am_insert name_cmp (fst e) (snd e) m) l acc)).
        { induction l as [|e l IH]; intros acc Ha Hl; [exact Ha|]. cbn [fold_left]. cbn [forallb] in Hl.
          apply andb_true_iff in Hl. destruct Hl as [He Hl]. apply andb_true_iff in He. destruct He as [He _].
          apply IH; [|exact Hl]. apply Forall_forall. intros x Ix. apply (am_in_insert name_cmp) in Ix.
          destruct Ix as [->|Ix]; [cbn [snd]; apply in_range_max; exact He | rewrite Forall_forall in Ha; apply Ha; exact Ix]. }
        apply G; [constructor | exact R]. }
      assert (Hset : forall l m, mint_wfb m = true -> Forall (fun e : bytes * Z => (snd e <= int_max)%Z) l ->
                       mint_wfb (snd (mint_set_all p l m)) = true).
      { induction l as [|[n z] l IH]; intros m Wm Hl; [exact Wm|]. cbn [mint_set_all].
        inversion Hl as [|? ? Hz Hl']. subst. cbn [snd] in Hz.
        destruct (mint_update true p n z m) as [m'| | |] eqn:E; try exact Wm.
        apply IH; [eapply mint_update_wf; eassumption | exact Hl']. }
      destruct (s_mint s) as [m|] eqn:Em.
      + assert (W1 : WFc (set_s_mint (Some (snd (mint_set_all p (mint_assets_map es) m))) s)).
        { apply WF_set_mint; [exact W|]. apply Hset; [|exact Hmax].
          pose proof (opt_mint_wf s Ws) as Wm. rewrite Em in Wm. exact Wm. }
        cbv zeta. apply wrap_spec; [|intros; discriminate].
        split; [|apply pure_op_nobool]. apply pure_op_wf; [exact W1|].
        intros s'. destruct (fst (mint_set_all p (mint_assets_map es) m)); [|discriminate]. intros E'. injection E' as <-. exact W1.
      + cbv zeta. apply wrap_spec; [|intros; discriminate].
        split; [|apply pure_op_nobool]. apply pure_op_wf; [exact W|].
        intros s'. destruct (fst (mint_set_all p (mint_assets_map es) [])); [|discriminate]. intros E'. injection E' as <-.
        apply WF_set_mint; [exact W|]. apply Hset; [reflexivity | exact Hmax].
    - (* proposals with identities *)
      apply wrap_spec; [|intros; discriminate]. split; [|apply pure_op_nobool].
      apply pure_op_wf; [exact W|]. intros s' E'. injection E' as <-. apply (WF_fields cfg s); auto.
  Qed.

  Theorem scenarios2_balanced l : forall s c rs s' c' body,
    WFc s -> Forall op2_wf (map fst l) -> run_ops2 utxos l s c = (rs, s', c', Some body) ->
    ledger_balanced (c_pool_deposit cfg) (c_key_deposit cfg) body.
  Proof.
    induction l as [|[x o] l IH]; intros s c rs s' c' body W Wl H; [discriminate|].
    cbn [run_ops2] in H. cbn [map fst] in Wl. inversion Wl as [|? ? Wx Wl']. subst.
    destruct (run_op2_spec x s c o W Wx) as [W1 [B1 _]].
    destruct (run_op2 utxos x s c o) as [[[res s1] c1] tx] eqn:E1. cbn [fst snd] in *.
    destruct (run_ops2 utxos l s1 c1) as [[[rs2 s2] c2] tx2] eqn:E2.
    destruct tx2 as [b2|].
    - inversion H. subst. eapply IH; eassumption.
    - destruct res; inversion H; subst. apply B1. reflexivity.
  Qed.
End Scenarios2.

(* histories from the empty builder, extended operation set *)
Theorem histories2_balanced (utxos : list (N * value)) (cfg : config) (l : list (op2 * tape_state))
  (rs : list opres) (s : state) (c : colstate) (body : tx_body) :
  utxos_wf utxos -> Forall op2_wf (map fst l) ->
  run_ops2 utxos l (new_state cfg) col_new = (rs, s, c, Some body) ->
  ledger_balanced (c_pool_deposit cfg) (c_key_deposit cfg) body.
Proof.
  intros WU Wl H. exact (scenarios2_balanced utxos WU cfg l (new_state cfg) col_new rs s c body (new_state_wf cfg) Wl H).
Qed.

(* inside a history: a balancing operation of either kind that reports success leaves a balanced builder *)
Theorem history2_balancing (utxos : list (N * value)) (cfg : config) (x : op2) (s : state) (c : colstate) (o : tape_state) :
  utxos_wf utxos -> WF cfg s -> op2_wf x ->
  (exists v, fst (fst (fst (run_op2 utxos x s c o))) = RBool v) \/
  ((exists avail addr extra addr_b pct, x = OpPercent avail addr extra addr_b pct) /\ fst (fst (fst (run_op2 utxos x s c o))) = ROk) ->
  ledger_balanced (c_pool_deposit cfg) (c_key_deposit cfg) (body_of (snd (fst (fst (run_op2 utxos x s c o))))).
Proof.
  intros WU W Wx H.
  destruct (run_op2_spec utxos WU cfg x s c o W Wx) as [[_ C] [_ [B1 B2]]].
  assert (B : balanced (snd (fst (fst (run_op2 utxos x s c o))))).
  { destruct H as [[v Hv] | [[avail [addr [extra [addr_b [pct Hx]]]]] Hok]]; [exact (B1 v Hv) | exact (B2 _ _ _ _ _ Hx Hok)]. }
  apply balanced_ledger in B. unfold params_balanced in B. rewrite C in B. exact B.
Qed.

(* ------------------------------------------------------------------------------------------- *)
(* non-vacuity: a history through the collateral entry point (taken from a run of the implementation) *)
Definition ex2_utxos : list (N * value) := [(5, mkValue 36213597 None); (402, mkValue 10067867 None)].
Definition ex2_cfg : config := mkConfig 500000000 2000000 true true.
Definition ex2_ops : list (op2 * tape_state) :=
  [ (Old (OpOutput (mkOutput 20 (mkValue 2250147 None) 0)), tp [(83, Some 0); (65, Some 19700)]);
    (Old (OpSetMinFee 1000000), tp []);
    (OpSetCollateral [402], tp []);
    (Old (OpInput 5), tp []);
    (OpPercent [5] 17 4 [17] 0,
     mkTape [(70, Some 197000); (65, Some 28100); (70, Some 195000); (83, Some 0); (65, Some 25800); (70, Some 244000);
             (83, Some 0); (65, Some 25800); (70, Some 246000); (83, Some 0); (65, Some 20200)] (Some ([], true)) false);
    (Old OpBuild, tp [(70, Some 242000); (84, Some 0)]) ].

Example scenario2_example :
  exists rs s c body,
    run_ops2 ex2_utxos ex2_ops (new_state ex2_cfg) col_new = (rs, s, c, Some body) /\
    rs = [ROk; ROk; ROk; ROk; ROk; ROk] /\
    b_fee body = 1000000 /\ length (b_outputs body) = 2%nat /\
    cs_total c = Some 1 /\
    match cs_return c with Some o => coin (Collateral.o_amount o) = 10067866 | None => False end /\
    ledger_balancedb 500000000 2000000 body = true.
Proof. eexists. eexists. eexists. eexists. vm_compute. repeat split; reflexivity. Qed.

Example scenario2_example_premises : utxos_wf ex2_utxos /\ Forall op2_wf (map fst ex2_ops).
Proof. split; repeat constructor. Qed.
