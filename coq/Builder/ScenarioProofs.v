(* Builder/ScenarioProofs.v — C05 over whole histories: for every UTxO table, every list of builder operations in
   every order, and every recorded-answer tape, a transaction released by build_tx is ledger-balanced, and every
   successful balancing operation leaves a balanced builder.  Also: plain (non-Hoare) forms of the theorems of
   ChangeProofs.v, the recorded-answer oracle meets the typing premise, non-vacuity examples, and the witness
   showing why a mint quantity of -2^64 had to be excluded (finding C05-mint-min-int, fixed in /repo 0175f0b). *)
From CSL Require Import Base.Prelude Base.U64 Num.Value Num.ValueProofs Deposits.Deposits Deposits.DepositsProofs
  Builder.Totals Builder.TotalsProofs Builder.Change Builder.ChangeProofs Builder.Scenario.
Local Open Scope N_scope.

(* ------------------------------------------------------------------------------------------- *)
(* plain forms *)

Section Plain.
  Context {O : Type}.
  Variable orc : @oracle O.
  Hypothesis OU : oracle_u64 orc.

  Definition ledger_ok (s : state) (b : tx_body) : Prop :=
    ledger_balanced (c_pool_deposit (s_cfg s)) (c_key_deposit (s_cfg s)) b.

  Lemma WF_self s : state_wf s -> WF (s_cfg s) s.
  Proof. intros W. split; [exact W | reflexivity]. Qed.

  Lemma balanced_ledger_ok s0 s : s_cfg s = s_cfg s0 -> balanced s -> ledger_ok s0 (body_of s).
  Proof. intros C B. unfold ledger_ok. rewrite <- C. apply balanced_ledger. exact B. Qed.

  Theorem change_balances fuel addr extra st o b :
    state_wf st -> out_res (add_change orc fuel addr extra st o) = Ok b ->
    state_wf (out_st (add_change orc fuel addr extra st o)) /\
    ledger_ok st (body_of (out_st (add_change orc fuel addr extra st o))).
  Proof.
    intros W E. destruct (add_change_balances orc OU (s_cfg st) fuel addr extra st o (WF_self st W) I) as [[W' C'] B].
    rewrite E in B. split; [exact W'|]. apply balanced_ledger_ok; assumption.
  Qed.

  Theorem select_and_change fuel utxos addr extra st o b :
    state_wf st -> utxos_wf utxos -> out_res (add_inputs_from_and_change orc fuel utxos addr extra st o) = Ok b ->
    state_wf (out_st (add_inputs_from_and_change orc fuel utxos addr extra st o)) /\
    ledger_ok st (body_of (out_st (add_inputs_from_and_change orc fuel utxos addr extra st o))).
  Proof.
    intros W Wu E.
    destruct (select_and_change_balances orc OU (s_cfg st) fuel utxos addr extra Wu st o (WF_self st W) I) as [[W' C'] B].
    rewrite E in B. split; [exact W'|]. apply balanced_ledger_ok; assumption.
  Qed.

  Theorem build_tx_ok st o tx :
    state_wf st -> out_res (build_tx orc st o) = Ok tx -> ledger_ok st tx.
  Proof.
    intros W E. destruct (build_tx_balanced orc OU (s_cfg st) st o (WF_self st W) I) as [[W' C'] B].
    rewrite E in B. unfold params_balanced in B. unfold ledger_ok. rewrite <- C'. exact B.
  Qed.

  (* even a failing balancing operation leaves a well-formed builder with the same configuration *)
  Theorem change_keeps_wf fuel addr extra st o :
    state_wf st -> state_wf (out_st (add_change orc fuel addr extra st o)) /\
                   s_cfg (out_st (add_change orc fuel addr extra st o)) = s_cfg st.
  Proof. intros W. exact (proj1 (add_change_balances orc OU (s_cfg st) fuel addr extra st o (WF_self st W) I)). Qed.
End Plain.

(* ------------------------------------------------------------------------------------------- *)
(* the recorded-answer oracle meets the typing premise for every tape *)

Lemma pop_num_bound site o v : fst (pop_num site o) = Ok v -> v < two64.
Proof.
  unfold pop_num. destruct (pop site o) as [[[x|]|] o']; cbn; try discriminate.
  destruct (N.ltb_spec x two64); cbn; [intros E; inversion E; subst; assumption | discriminate].
Qed.

Lemma lookup_utxo_wf utxos id v : utxos_wf utxos -> lookup_utxo utxos id = Some v -> value_wf v.
Proof.
  intros W. unfold lookup_utxo. destruct (find (fun e => fst e =? id) utxos) as [e|] eqn:F; [|discriminate].
  intros E. inversion E. subst. apply find_some in F. destruct F as [I _].
  unfold utxos_wf in W. rewrite Forall_forall in W. apply W. exact I.
Qed.

Lemma resolve_wf utxos ids : utxos_wf utxos -> utxos_wf (resolve utxos ids).
Proof.
  intros W. unfold resolve, utxos_wf. apply Forall_forall. intros e I. apply in_flat_map in I.
  destruct I as [id [_ I]]. destruct (lookup_utxo utxos id) as [v|] eqn:L; [|destruct I].
  destruct I as [<-|[]]. cbn. eapply lookup_utxo_wf; eassumption.
Qed.

(* ------------------------------------------------------------------------------------------- *)
(* whole scenarios *)

Definition op_wf (x : op) : Prop :=
  match x with
  | OpOutput o => value_wf (o_amount o)
  | _ => True
  end.

Lemma am_insert_forallb {V} cmp (KO : key_order cmp) (f : bytes * V -> bool) k v (m : list (bytes * V)) :
  f (k, v) = true -> forallb f m = true -> forallb f (am_insert cmp k v m) = true.
Proof.
  intros Fk Fm. apply forallb_forall. intros kv I. apply (am_in_insert cmp) in I.
  destruct I as [->|I]; [exact Fk|]. rewrite forallb_forall in Fm. apply Fm. exact I.
Qed.

Lemma mint_update_wf ow p n amt m m' : mint_wfb m = true -> (amt <= int_max)%Z ->
  mint_update ow p n amt m = Ok m' -> mint_wfb m' = true.
Proof.
  intros W Hmax. unfold mint_update.
  destruct (amt =? 0)%Z; [discriminate|].
  destruct (amt <? mint_amount_min)%Z eqn:Lmin; [discriminate|].
  unfold mint_wfb in W. apply andb_true_iff in W. destruct W as [S F].
  set (a := match am_get bytes_cmp p m with Some a => a | None => [] end).
  assert (Wa : mint_assets_wfb a = true).
  { unfold a. destruct (am_get bytes_cmp p m) as [a0|] eqn:G; [|reflexivity].
    apply (am_get_in bytes_cmp bytes_key_order) in G. rewrite forallb_forall in F. apply (F _ G). }
  assert (Ins : forall z, (mint_amount_min <= z <= int_max)%Z ->
            mint_wfb (am_insert bytes_cmp p (am_insert name_cmp n z a) m) = true).
  { intros z Rz. unfold mint_wfb. apply andb_true_iff. split.
    - apply (am_sorted_insert bytes_cmp bytes_key_order). exact S.
    - apply (am_insert_forallb bytes_cmp bytes_key_order); [|exact F]. cbn [snd].
      unfold mint_assets_wfb in *. apply andb_true_iff in Wa. destruct Wa as [Sa Fa]. apply andb_true_iff. split.
      + apply (am_sorted_insert name_cmp name_key_order). exact Sa.
      + apply (am_insert_forallb name_cmp name_key_order); [|exact Fa]. cbn [snd]. lia. }
  destruct ow.
  - intros E. inversion E. subst. apply Ins. lia.
  - destruct ((mint_amount_min <=? _) && (_ <=? int_max))%Z eqn:R; [|discriminate].
    intros E. inversion E. subst. apply Ins. lia.
Qed.

Lemma tape_oracle_u64 : oracle_u64 tape_oracle.
Proof.
  split; [|split].
  - intros st o v. apply pop_num_bound.
  - intros x o v. apply pop_num_bound.
  - intros st us o Wus. cbn. destruct (t_sel o) as [[ids ok]|]; cbn; [|constructor].
    apply resolve_wf. exact Wus.
Qed.

Section Scenarios.
  Variable utxos : list (N * value).
  Hypothesis WU : utxos_wf utxos.
  Variable cfg : config.

  Notation WFc := (WF cfg).

  Lemma WF_fields s s' : WFc s -> s_inputs s' = s_inputs s -> s_outputs s' = s_outputs s -> s_mint s' = s_mint s ->
    s_cfg s' = s_cfg s -> WFc s'.
  Proof.
    intros [W C] Ei Eo Em Ec. split; [|congruence]. unfold state_wf, state_wfb in *. rewrite Ei, Eo, Em. exact W.
  Qed.

  Lemma pure_op_wf s o r : WFc s -> (forall s', r = Ok s' -> WFc s') -> WFc (snd (pure_op s o r)).
  Proof.
    intros W H. unfold pure_op. destruct (t_tape o); [|exact W]. destruct (t_sel o); [exact W|].
    destruct r; cbn; auto.
  Qed.

  Lemma finish_st {A} (r : out A) okv : snd (finish r okv) = out_st r.
  Proof. unfold finish. destruct (_ || _ || _); reflexivity. Qed.

  (* one operation: the invariant is kept, a built body is ledger-balanced, and a successful balancing operation
     leaves a balanced builder *)
  Lemma run_op_spec x s o : WFc s -> op_wf x ->
    let r := run_op utxos x s o in
    WFc (snd (fst r)) /\
    (forall b, snd r = Some b -> ledger_balanced (c_pool_deposit cfg) (c_key_deposit cfg) b) /\
    (forall v, fst (fst r) = RBool v -> balanced (snd (fst r))).
  Proof.
    intros W Wx. pose proof W as [Ws Wc].
    destruct x; cbn [run_op fst snd].
    - (* input *)
      split; [|split; [discriminate | intros v; unfold pure_op; destruct (t_tape o), (t_sel o), (lookup_utxo utxos id); discriminate]].
      apply pure_op_wf; [exact W|]. intros s'. destruct (lookup_utxo utxos id) as [v|] eqn:L; [|discriminate].
      intros E. injection E as <-.
      apply (WF_add_inputs cfg [(id, v)] s W). constructor; [|constructor]. cbn. eapply lookup_utxo_wf; eassumption.
    - (* output *)
      rewrite finish_st. split; [|split; [discriminate|]].
      + apply (add_output_spec tape_oracle tape_oracle_u64 cfg (fun _ => True) x (fun _ _ => True) Wx); auto.
      + intros v. unfold finish. destruct (_ || _ || _); [discriminate|]. destruct (out_res _); discriminate.
    - split; [|split; [discriminate | intros v; unfold pure_op; destruct (t_tape o), (t_sel o); discriminate]].
      apply pure_op_wf; [exact W|]. intros s' E. injection E as <-. apply (WF_fields s); auto.
    - split; [|split; [discriminate | intros v; unfold pure_op; destruct (t_tape o), (t_sel o); discriminate]].
      apply pure_op_wf; [exact W|]. intros s' E. injection E as <-. apply (WF_fields s); auto.
    - split; [|split; [discriminate | intros v; unfold pure_op; destruct (t_tape o), (t_sel o); discriminate]].
      apply pure_op_wf; [exact W|]. intros s' E. injection E as <-. apply (WF_fields s); auto.
    - (* mint *)
      split; [|split; [discriminate|]].
      + apply pure_op_wf; [exact W|]. intros s'.
        destruct ((amt <? int_min) || (int_max <? amt))%Z eqn:R; [discriminate|].
        destruct (mint_update overwrite p n amt (opt_mint (s_mint s))) as [m| | |] eqn:E; cbn [bind]; try discriminate.
        intros E'. injection E' as <-. split; [|exact Wc].
        unfold state_wf, state_wfb in *. cbn [s_inputs s_outputs s_mint set_s_mint].
        apply andb_true_iff in Ws. destruct Ws as [Wio Wm]. rewrite Wio. cbn.
        apply (mint_update_wf _ _ _ _ _ _ ) in E; [exact E | | lia].
        unfold opt_mint. destruct (s_mint s); [exact Wm | reflexivity].
      + intros v. unfold pure_op. destruct (t_tape o), (t_sel o); try discriminate.
        destruct ((amt <? int_min) || (int_max <? amt))%Z; [discriminate|].
        destruct (mint_update overwrite p n amt (opt_mint (s_mint s))); discriminate.
    - split; [|split; [discriminate | intros v; unfold pure_op; destruct (t_tape o), (t_sel o); discriminate]].
      apply pure_op_wf; [exact W|]. intros s' E. injection E as <-. apply (WF_fields s); auto.
    - split; [|split; [discriminate | intros v; unfold pure_op, set_current_treasury_value; destruct (t_tape o), (t_sel o), (c =? 0); discriminate]].
      apply pure_op_wf; [exact W|]. intros s'. unfold set_current_treasury_value. destruct (c =? 0); [discriminate|].
      intros E. injection E as <-. apply (WF_fields s); auto.
    - split; [|split; [discriminate | intros v; unfold pure_op; destruct (t_tape o), (t_sel o); discriminate]].
      apply pure_op_wf; [exact W|]. intros s' E. injection E as <-. apply (WF_fields s); auto.
    - split; [|split; [discriminate | intros v; unfold pure_op; destruct (t_tape o), (t_sel o); discriminate]].
      apply pure_op_wf; [exact W|]. intros s' E. injection E as <-. apply (WF_fields s); auto.
    - (* add_change *)
      rewrite finish_st.
      destruct (add_change_balances tape_oracle tape_oracle_u64 cfg fuel_default addr extra s o W I) as [W' B].
      split; [exact W' | split; [discriminate|]].
      intros v. unfold finish. destruct (_ || _ || _); [discriminate|].
      destruct (out_res (add_change tape_oracle fuel_default addr extra s o)); try discriminate. intros _. exact B.
    - (* add_inputs_from_and_change *)
      rewrite finish_st.
      destruct (select_and_change_balances tape_oracle tape_oracle_u64 cfg fuel_default (resolve utxos avail) addr extra
                  (resolve_wf utxos avail WU) s o W I) as [W' B].
      split; [exact W' | split; [discriminate|]].
      intros v. unfold finish. destruct (_ || _ || _); [discriminate|].
      destruct (out_res (add_inputs_from_and_change tape_oracle fuel_default (resolve utxos avail) addr extra s o)); try discriminate.
      intros _. exact B.
    - (* build_tx *)
      rewrite finish_st.
      destruct (build_tx_balanced tape_oracle tape_oracle_u64 cfg s o W I) as [W' B].
      split; [exact W' | split].
      + intros b. destruct (out_res (build_tx tape_oracle s o)) as [b'| | |]; try discriminate.
        intros E. injection E as <-. unfold params_balanced in B. destruct W' as [_ C']. rewrite C' in B. exact B.
      + intros v. unfold finish. destruct (_ || _ || _); [discriminate|]. destruct (out_res _); discriminate.
  Qed.

  Theorem scenarios_balanced l : forall s rs s' body,
    WFc s -> Forall op_wf (map fst l) -> run_ops utxos l s = (rs, s', Some body) ->
    ledger_balanced (c_pool_deposit cfg) (c_key_deposit cfg) body.
  Proof.
    induction l as [|[x o] l IH]; intros s rs s' body W Wl H; [discriminate|].
    cbn [run_ops] in H. cbn [map fst] in Wl. inversion Wl as [|? ? Wx Wl']. subst.
    destruct (run_op_spec x s o W Wx) as [W1 [B1 _]].
    destruct (run_op utxos x s o) as [[res s1] tx] eqn:E1. cbn [fst snd] in *.
    destruct (run_ops utxos l s1) as [[rs2 s2] tx2] eqn:E2.
    destruct tx2 as [b2|].
    - inversion H. subst. eapply IH; eassumption.
    - destruct res; inversion H; subst. apply B1. reflexivity.
  Qed.

  Lemma new_state_wf : WFc (new_state cfg).
  Proof. split; reflexivity. Qed.
End Scenarios.

(* histories from the empty builder *)
Theorem histories_balanced (utxos : list (N * value)) (cfg : config) (l : list (op * tape_state))
  (rs : list opres) (s : state) (body : tx_body) :
  utxos_wf utxos -> Forall op_wf (map fst l) ->
  run_ops utxos l (new_state cfg) = (rs, s, Some body) ->
  ledger_balanced (c_pool_deposit cfg) (c_key_deposit cfg) body.
Proof.
  intros WU Wl H. exact (scenarios_balanced utxos WU cfg l (new_state cfg) rs s body (new_state_wf cfg) Wl H).
Qed.

Theorem history_change (utxos : list (N * value)) (cfg : config) (x : op) (s : state) (o : tape_state) (v : bool) :
  utxos_wf utxos -> WF cfg s -> op_wf x ->
  fst (fst (run_op utxos x s o)) = RBool v ->
  ledger_balanced (c_pool_deposit cfg) (c_key_deposit cfg) (body_of (snd (fst (run_op utxos x s o)))).
Proof.
  intros WU W Wx H.
  destruct (run_op_spec utxos WU cfg x s o W Wx) as [[_ C] [_ B]].
  specialize (B v H). apply balanced_ledger in B. unfold params_balanced in B. rewrite C in B. exact B.
Qed.

(* ------------------------------------------------------------------------------------------- *)
(* why a mint quantity of -2^64 is excluded from well-formed states: with it, the builder's own balance test passes
   on a state whose body violates the ledger rule (the witness of finding C05-mint-min-int; /repo 0175f0b makes
   MintBuilder reject the quantity, which [mint_update] mirrors) *)

Definition witness_policy : bytes := [236; 15; 156; 189].
Definition witness_state : state :=
  let v := mkValue 10000000 (Some [(witness_policy, [([97], 5)])]) in
  mkState (mkConfig 500000000 2000000 false false)
          [(5, v)]
          [mkOutput 6 (mkValue 9824951 (Some [(witness_policy, [([97], 5)])])) 0]
          FeeUnspecified (Some 175049) None None
          (Some [(witness_policy, [([97], int_min)])]) None None None.

Theorem mint_min_int_refutes_accounting :
  validate_balance witness_state = Ok tt /\
  ~ ledger_balanced 500000000 2000000 (body_of witness_state) /\
  known_mint_min witness_state = true /\ state_wfb witness_state = false.
Proof.
  split; [vm_compute; reflexivity|]. split; [|split; vm_compute; reflexivity].
  intros H. apply ledger_balancedb_iff in H. vm_compute in H. discriminate.
Qed.

(* ------------------------------------------------------------------------------------------- *)
(* non-vacuity: concrete runs of the model in which the premises hold and the operations succeed *)

Definition ex_utxos : list (N * value) :=
  [(5, mkValue 10000000 (Some [(witness_policy, [([97], 5); ([98], 7)])])); (8, mkValue 3000000 None)].
Definition ex_cfg : config := mkConfig 500000000 2000000 true false.
Definition tp (l : list (N * option N)) : tape_state := mkTape l None false.
Definition ex_ops : list (op * tape_state) :=
  [ (OpInput 5, tp []); (OpInput 8, tp []);
    (OpOutput (mkOutput 2 (mkValue 2000000 None) 0), tp [(83, Some 0); (65, Some 969750)]);
    (OpCerts (Some [StakeRegistration None; DRepDeregistration 500000]), tp []);
    (OpMint false witness_policy [98] (-3)%Z, tp []);
    (OpDonation 100000, tp []);
    (* add_change: min_fee; calc minimum; pack (2 assets, 1 policy); one change output; pure split *)
    (OpChange 6 0, tp [(70, Some 170000); (65, Some 1000000);
                       (65, Some 1100000); (83, Some 0); (65, Some 1150000); (83, Some 0); (65, Some 1150000); (83, Some 0);
                       (65, Some 1150000); (70, Some 169000); (83, Some 0); (65, Some 1150000); (70, Some 172000);
                       (83, Some 0); (65, Some 1150000);
                       (70, Some 172500); (83, Some 0); (65, Some 900000); (70, Some 175000); (83, Some 0); (65, Some 900000);
                       (70, Some 170000)]);   (* check_fee_after_change *)
    (OpBuild, tp [(70, Some 170000); (84, Some 0)]) ].

Example scenario_example :
  exists rs s body,
    run_ops ex_utxos ex_ops (new_state ex_cfg) = (rs, s, Some body) /\
    rs = [ROk; ROk; ROk; ROk; ROk; ROk; RBool true; ROk] /\
    length (b_outputs body) = 3%nat /\ b_fee body = 175500 /\
    ledger_balancedb 500000000 2000000 body = true.
Proof. eexists. eexists. eexists. vm_compute. repeat split; reflexivity. Qed.

Example scenario_example_premises :
  utxos_wf ex_utxos /\ Forall op_wf (map fst ex_ops) /\ WF ex_cfg (new_state ex_cfg).
Proof.
  split; [repeat constructor|]. split; [repeat constructor | apply new_state_wf].
Qed.
