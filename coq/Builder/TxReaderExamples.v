(* Builder/TxReaderExamples.v — C05 phase 2: the judge's independent reader on concrete data (pins its behaviour). *)
From CSL Require Import Base.Prelude Cbor.Item Num.Value Deposits.Deposits Builder.Totals Builder.Scenario Builder.TxReader.
Local Open Scope N_scope.

(* a transaction built by the implementation (c05 harness, seed 1): one input (UTxO id 7), no output, fee 3 783 636;
   84 a3 00 d90102 81 8258201e…  01 80  02 1a0039bbd4  a0 f5 f6 *)
Definition ex_tx_bytes : bytes := [132; 163; 0; 217; 1; 2; 129; 130; 88; 32; 30; 0; 0; 0; 0; 0; 0; 0; 7; 40; 238; 161; 61; 21; 176; 235; 37; 58; 211; 224; 117; 146; 20; 115; 199; 213; 67; 108; 41; 193; 219; 162; 0; 1; 128; 2; 26; 0; 57; 187; 212; 160; 245; 246].

Example read_tx_example :
  match read_tx ex_tx_bytes with
  | Some r => map (fun i => utxo_id_of_hash (fst i)) (r_inputs r) = [7] /\ r_outputs r = [] /\ r_fee r = 3783636 /\
              r_certs r = [] /\ r_withdrawals r = [] /\ r_mint r = [] /\ r_proposals r = [] /\ r_donation r = 0
  | None => False
  end.
Proof. vm_compute. repeat split; reflexivity. Qed.

(* the whole verdict from bytes: the only input holds exactly the fee *)
Example judge_bytes_example :
  judge_bytes 500000000 2000000 [(7, mkValue 3783636 None)] [] [] (Some ex_tx_bytes) = Holds /\
  judge_bytes 500000000 2000000 [(7, mkValue 3783637 None)] [] [] (Some ex_tx_bytes) = FailsUnknown /\
  judge_bytes 500000000 2000000 [(7, mkValue 3783636 None)] [] [] (Some (removelast ex_tx_bytes)) = FailsUnknown.
Proof. vm_compute. repeat split; reflexivity. Qed.

(* values, outputs (both wire forms), certificates, mint *)
Example read_value_example :
  read_value (IArray true [IUint 5; IMap true [(IBytes [1; 2], IMap true [(IBytes [97], IUint 7); (IBytes [], IUint 1)])]])
  = Some (mkValue 5 (Some [([1; 2], [([], 1); ([97], 7)])])).
Proof. vm_compute. reflexivity. Qed.

Example read_output_example :
  read_output (IArray true [IBytes [9]; IUint 4]) = Some ([9], mkValue 4 None, 0) /\
  read_output (IMap true [(IUint 0, IBytes [9]); (IUint 1, IUint 4); (IUint 2, IArray true [IUint 1; ITag 24 (IBytes [1])]);
                          (IUint 3, ITag 24 (IBytes [130]))]) = Some ([9], mkValue 4 None, 4).
Proof. vm_compute. split; reflexivity. Qed.

Example read_cert_example :
  read_cert (IArray true [IUint 13; IArray true [IUint 0; IBytes [1]]; IBytes [2]; IArray true [IUint 2]; IUint 2000000])
    = Some (StakeVoteRegistrationAndDelegation 2000000) /\
  read_cert (IArray true [IUint 1; IArray true [IUint 0; IBytes [1]]]) = Some (StakeDeregistration None) /\
  read_cert (IArray true [IUint 16; IArray true [IUint 0; IBytes [1]]; IUint 500; ISimple 22]) = Some (DRepRegistration 500).
Proof. vm_compute. repeat split; reflexivity. Qed.

Example read_mint_example :
  read_assets as_int (IMap true [(IBytes [1], IMap true [(IBytes [97], INint 4); (IBytes [98], IUint 3)])])
  = Some [([1], [97], (-5)%Z); ([1], [98], 3%Z)].
Proof. vm_compute. reflexivity. Qed.
