(* Builder/TotalsProofs.v — C05: the builder's totals are the ledger's consumed / produced sums.
   Inventory
     value_sum_spec                       try_fold(checked_add) = component-wise sum
     mint_side_qty / mint_values_spec     get_mint_as_values = (positive part, negative part) of the mint, for quantities in
                                          -(2^64-1) .. 2^64-1 (state_wf); mint_min_truncated shows why -2^64 is excluded
     total_input_spec / total_output_spec get_total_input / get_total_output = the two sides of the UTXO rule
     accounting                           validate_balance st = Ok -> ledger_balanced (body_of st)          (C05_accounting)
     ledger_balancedb_iff                 the judge's executable test decides ledger_balanced
     order lemmas                         the totals do not depend on the order of the builder's collections *)
From CSL Require Import Base.Prelude Base.U64 Num.Value Num.ValueProofs Deposits.Deposits Deposits.DepositsProofs Builder.Totals.
From Coq Require Import Permutation.
Local Open Scope N_scope.

(* ------------------------------------------------------------------------------------------- *)
(* small facts *)

Lemma value_wf_zero : value_wf value_zero.
Proof. reflexivity. Qed.

Lemma value_wf_new c : c < two64 -> value_wf (value_new c).
Proof. intros H. apply value_wf_iff. cbn. split; [exact H | exact I]. Qed.

Lemma qty_new c p n : qty (value_new c) p n = 0.
Proof. reflexivity. Qed.

Lemma qty_set_coin c v p n : qty (value_set_coin c v) p n = qty v p n.
Proof. reflexivity. Qed.

Lemma sum_coin_cons v l : sum_coin (v :: l) = coin v + sum_coin l.
Proof. reflexivity. Qed.
Lemma sum_qty_cons v l p n : sum_qty (v :: l) p n = qty v p n + sum_qty l p n.
Proof. reflexivity. Qed.
Lemma sum_coin_app l1 l2 : sum_coin (l1 ++ l2) = sum_coin l1 + sum_coin l2.
Proof. induction l1 as [|v l IH]; [reflexivity|]. cbn [app]. rewrite !sum_coin_cons, IH. lia. Qed.
Lemma sum_qty_app l1 l2 p n : sum_qty (l1 ++ l2) p n = sum_qty l1 p n + sum_qty l2 p n.
Proof. induction l1 as [|v l IH]; [reflexivity|]. cbn [app]. rewrite !sum_qty_cons, IH. lia. Qed.

(* ------------------------------------------------------------------------------------------- *)
(* value_sum *)

Lemma value_sum_spec l : forall acc r, value_wf acc -> Forall value_wf l -> value_sum acc l = Ok r ->
  value_wf r /\ coin r = coin acc + sum_coin l /\ forall p n, qty r p n = qty acc p n + sum_qty l p n.
Proof.
  induction l as [|v l IH]; intros acc r Wa Wl H.
  - cbn in H. inversion H. subst. split; [exact Wa|]. split; [unfold sum_coin; cbn; lia|].
    intros p n. unfold sum_qty. cbn. lia.
  - cbn [value_sum] in H. inversion Wl as [|? ? Wv Wl']. subst.
    destruct (value_checked_add acc v) as [a| | |] eqn:E; cbn [bind] in H; try discriminate.
    destruct (value_checked_add_ok _ _ _ Wa Wv E) as [C [Q Wa']].
    destruct (IH a r Wa' Wl' H) as [Wr [Cr Qr]].
    split; [exact Wr|]. split.
    + rewrite Cr, C, sum_coin_cons. lia.
    + intros p n. rewrite Qr, Q, sum_qty_cons. lia.
Qed.

(* ------------------------------------------------------------------------------------------- *)
(* mint *)

Definition sign_amount (positive : bool) (z : Z) : N :=
  if positive then int_as_positive z else int_as_negative z.

Definition side_step (positive : bool) (acc : assets) (nq : bytes * Z) : assets :=
  if Bool.eqb (int_is_positive (snd nq)) positive
  then assets_insert (fst nq) (if positive then int_as_positive (snd nq) else int_as_negative (snd nq)) acc
  else acc.

Lemma mint_side_assets_unfold positive a : mint_side_assets positive a = fold_left (side_step positive) a assets_new.
Proof. reflexivity. Qed.

Lemma name_cmp_eq_iff a b : name_cmp a b = Eq <-> a = b.
Proof. split; [apply name_cmp_eq | intros ->; apply name_cmp_refl]. Qed.
Lemma bytes_cmp_eq_iff a b : bytes_cmp a b = Eq <-> a = b.
Proof. split; [apply bytes_cmp_eq | intros ->; apply bytes_cmp_refl]. Qed.

Lemma bytes_eqb_false_name n k : name_cmp n k <> Eq -> bytes_eqb n k = false.
Proof.
  intros H. destruct (bytes_eqb n k) eqn:E; [|reflexivity]. apply bytes_eqb_eq in E. subst.
  rewrite name_cmp_refl in H. congruence.
Qed.
Lemma bytes_eqb_false_bytes n k : bytes_cmp n k <> Eq -> bytes_eqb n k = false.
Proof.
  intros H. destruct (bytes_eqb n k) eqn:E; [|reflexivity]. apply bytes_eqb_eq in E. subst.
  rewrite bytes_cmp_refl in H. congruence.
Qed.

Lemma side_fold_aq positive a : am_sorted name_cmp a = true -> forall acc n,
  aq (fold_left (side_step positive) a acc) n =
    match am_get name_cmp n a with
    | Some z => if Bool.eqb (int_is_positive z) positive then sign_amount positive z else aq acc n
    | None => aq acc n
    end.
Proof.
  induction a as [|[k z] a IH]; intros S acc n; [reflexivity|].
  apply (am_sorted_cons name_cmp name_key_order) in S. destruct S as [Ab S].
  cbn [fold_left]. rewrite (IH S). cbn [am_get].
  destruct (name_cmp n k) eqn:C.
  - apply name_cmp_eq in C. subst n.
    rewrite (above_get name_cmp _ _ Ab).
    unfold side_step. cbn [fst snd]. destruct (Bool.eqb (int_is_positive z) positive); [|reflexivity].
    rewrite aq_insert, bytes_eqb_refl. unfold sign_amount. destruct positive; reflexivity.
  - assert (Hne : bytes_eqb n k = false) by (apply bytes_eqb_false_name; congruence).
    assert (Hacc : aq (side_step positive acc (k, z)) n = aq acc n).
    { unfold side_step. cbn [fst snd]. destruct (Bool.eqb (int_is_positive z) positive); [|reflexivity].
      rewrite aq_insert, Hne. reflexivity. }
    destruct (am_get name_cmp n a); [destruct (Bool.eqb (int_is_positive z0) positive)|]; congruence.
  - assert (Hne : bytes_eqb n k = false) by (apply bytes_eqb_false_name; congruence).
    assert (Hacc : aq (side_step positive acc (k, z)) n = aq acc n).
    { unfold side_step. cbn [fst snd]. destruct (Bool.eqb (int_is_positive z) positive); [|reflexivity].
      rewrite aq_insert, Hne. reflexivity. }
    destruct (am_get name_cmp n a); [destruct (Bool.eqb (int_is_positive z0) positive)|]; congruence.
Qed.

Lemma aq_nil n : aq [] n = 0.
Proof. reflexivity. Qed.

Lemma mint_side_assets_aq positive a n : am_sorted name_cmp a = true ->
  aq (mint_side_assets positive a) n =
    match am_get name_cmp n a with
    | Some z => if Bool.eqb (int_is_positive z) positive then sign_amount positive z else 0
    | None => 0
    end.
Proof. intros S. rewrite mint_side_assets_unfold, (side_fold_aq _ _ S). reflexivity. Qed.

Lemma int_amount_bound positive z : sign_amount positive z < two64.
Proof.
  unfold sign_amount, int_as_positive, int_as_negative, two64, two64Z.
  destruct positive.
  - pose proof (Z.mod_pos_bound z 18446744073709551616 ltac:(lia)). lia.
  - pose proof (Z.mod_pos_bound (- z) 18446744073709551616 ltac:(lia)). lia.
Qed.

Lemma side_fold_wf positive a : forall acc, assets_wfb acc = true -> assets_wfb (fold_left (side_step positive) a acc) = true.
Proof.
  induction a as [|[k z] a IH]; intros acc W; [exact W|]. cbn [fold_left]. apply IH.
  unfold side_step. cbn [fst snd]. destruct (Bool.eqb (int_is_positive z) positive); [|exact W].
  apply assets_wfb_insert; [exact W|]. apply (int_amount_bound positive z).
Qed.

Definition mside_step (positive : bool) (res : multiasset) (e : bytes * mint_assets) : multiasset :=
  match mint_side_assets positive (snd e) with
  | [] => res
  | a => ma_insert (fst e) a res
  end.

Lemma mint_side_unfold positive m : mint_side positive m = fold_left (mside_step positive) m ma_new.
Proof. reflexivity. Qed.

Lemma mside_fold_wf positive m : forall acc, ma_wfb acc = true -> ma_wfb (fold_left (mside_step positive) m acc) = true.
Proof.
  induction m as [|[p a] m IH]; intros acc W; [exact W|]. cbn [fold_left]. apply IH.
  unfold mside_step. cbn [fst snd].
  pose proof (side_fold_wf positive a assets_new assets_wfb_nil) as Wa. rewrite <- mint_side_assets_unfold in Wa.
  destruct (mint_side_assets positive a) as [|x l] eqn:E; [exact W|].
  apply ma_wfb_insert; [exact W | exact Wa].
Qed.

Lemma mside_step_qty positive acc p a p' n :
  ma_qty (mside_step positive acc (p, a)) p' n =
    if bytes_eqb p' p then (match mint_side_assets positive a with [] => ma_qty acc p' n | x => aq x n end)
    else ma_qty acc p' n.
Proof.
  unfold mside_step. cbn [fst snd]. destruct (mint_side_assets positive a) as [|x l] eqn:E.
  - destruct (bytes_eqb p' p); reflexivity.
  - rewrite ma_qty_insert. reflexivity.
Qed.

Lemma mside_fold_qty positive m : am_sorted bytes_cmp m = true -> forall acc p n,
  ma_qty (fold_left (mside_step positive) m acc) p n =
    match am_get bytes_cmp p m with
    | Some a => match mint_side_assets positive a with [] => ma_qty acc p n | x => aq x n end
    | None => ma_qty acc p n
    end.
Proof.
  induction m as [|[k a] m IH]; intros S acc p n; [reflexivity|].
  apply (am_sorted_cons bytes_cmp bytes_key_order) in S. destruct S as [Ab S].
  cbn [fold_left]. rewrite (IH S). cbn [am_get]. rewrite mside_step_qty.
  destruct (bytes_cmp p k) eqn:C.
  - apply bytes_cmp_eq in C. subst p. rewrite (above_get bytes_cmp _ _ Ab), bytes_eqb_refl. reflexivity.
  - rewrite (bytes_eqb_false_bytes p k) by congruence. reflexivity.
  - rewrite (bytes_eqb_false_bytes p k) by congruence. reflexivity.
Qed.

Lemma mint_side_qty positive m p n : mint_wfb m = true ->
  ma_qty (mint_side positive m) p n =
    match am_get bytes_cmp p m with
    | Some a => match am_get name_cmp n a with
                | Some z => if Bool.eqb (int_is_positive z) positive then sign_amount positive z else 0
                | None => 0 end
    | None => 0
    end.
Proof.
  intros W. unfold mint_wfb in W. apply andb_true_iff in W. destruct W as [S F].
  rewrite mint_side_unfold, (mside_fold_qty _ _ S). rewrite ma_qty_nil.
  destruct (am_get bytes_cmp p m) as [a|] eqn:G; [|reflexivity].
  assert (Sa : am_sorted name_cmp a = true).
  { apply (am_get_in bytes_cmp bytes_key_order) in G. rewrite forallb_forall in F. specialize (F _ G). cbn [snd] in F.
    unfold mint_assets_wfb in F. apply andb_true_iff in F. tauto. }
  rewrite <- (mint_side_assets_aq positive a n Sa).
  destruct (mint_side_assets positive a); reflexivity.
Qed.

Lemma mint_wfb_range m p a n z : mint_wfb m = true -> am_get bytes_cmp p m = Some a -> am_get name_cmp n a = Some z ->
  (mint_amount_min <= z <= int_max)%Z.
Proof.
  intros W G G2. unfold mint_wfb in W. apply andb_true_iff in W. destruct W as [_ F].
  apply (am_get_in bytes_cmp bytes_key_order) in G. rewrite forallb_forall in F. specialize (F _ G). cbn [snd] in F.
  unfold mint_assets_wfb in F. apply andb_true_iff in F. destruct F as [_ F].
  apply (am_get_in name_cmp name_key_order) in G2. rewrite forallb_forall in F. specialize (F _ G2). cbn [snd] in F.
  lia.
Qed.

(* the positive side is the minted quantity, the negative side the burnt one *)
Lemma mint_side_pos m p n : mint_wfb m = true -> ma_qty (mint_side true m) p n = mint_pos m p n.
Proof.
  intros W. rewrite (mint_side_qty true m p n W). unfold mint_pos, mint_get.
  destruct (am_get bytes_cmp p m) as [a|] eqn:G; [|reflexivity].
  destruct (am_get name_cmp n a) as [z|] eqn:G2; [|reflexivity].
  pose proof (mint_wfb_range _ _ _ _ _ W G G2) as R. unfold mint_amount_min, int_max, two64Z in R.
  unfold int_is_positive, sign_amount, int_as_positive, two64Z.
  destruct (0 <=? z)%Z eqn:P; cbn [Bool.eqb].
  - rewrite Z.mod_small by lia. reflexivity.
  - destruct z; try lia; try reflexivity.
Qed.

Lemma mint_side_neg m p n : mint_wfb m = true -> ma_qty (mint_side false m) p n = mint_neg m p n.
Proof.
  intros W. rewrite (mint_side_qty false m p n W). unfold mint_neg, mint_get.
  destruct (am_get bytes_cmp p m) as [a|] eqn:G; [|reflexivity].
  destruct (am_get name_cmp n a) as [z|] eqn:G2; [|reflexivity].
  pose proof (mint_wfb_range _ _ _ _ _ W G G2) as R. unfold mint_amount_min, int_max, two64Z in R.
  unfold int_is_positive, sign_amount, int_as_negative, two64Z.
  destruct (0 <=? z)%Z eqn:P; cbn [Bool.eqb].
  - destruct z; try lia; try reflexivity.
  - rewrite Z.mod_small by lia. reflexivity.
Qed.

(* why -2^64 is outside state_wf: its burn side is truncated to 0 (the defect fixed by /repo 0175f0b) *)
Lemma mint_min_truncated : int_as_negative int_min = 0 /\ Z.to_N (- int_min) = two64.
Proof. split; reflexivity. Qed.

Lemma value_new_from_assets_qty m p n : qty (value_new_from_assets m) p n = ma_qty m p n.
Proof. destruct m; reflexivity. Qed.

Lemma value_new_from_assets_wf m : ma_wfb m = true -> value_wf (value_new_from_assets m).
Proof.
  intros W. apply value_wf_iff. destruct m as [|x l]; cbn; [split; [reflexivity | exact I]|].
  split; [reflexivity | exact W].
Qed.

Lemma value_new_from_assets_coin m : coin (value_new_from_assets m) = 0.
Proof. destruct m; reflexivity. Qed.

Definition mint_of (s : state) : mint_map := opt_mint (s_mint s).

Lemma mint_values_spec s : state_wf s ->
  let mv := fst (get_mint_as_values s) in
  let bv := snd (get_mint_as_values s) in
  value_wf mv /\ value_wf bv /\ coin mv = 0 /\ coin bv = 0 /\
  (forall p n, qty mv p n = mint_pos (mint_of s) p n) /\ (forall p n, qty bv p n = mint_neg (mint_of s) p n).
Proof.
  intros W. unfold state_wf, state_wfb in W. apply andb_true_iff in W. destruct W as [_ Wm].
  unfold get_mint_as_values, mint_of, opt_mint. destruct (s_mint s) as [m|]; cbn [fst snd].
  - repeat split.
    + apply value_new_from_assets_wf. rewrite mint_side_unfold. apply mside_fold_wf. apply ma_wfb_nil.
    + apply value_new_from_assets_wf. rewrite mint_side_unfold. apply mside_fold_wf. apply ma_wfb_nil.
    + apply value_new_from_assets_coin.
    + apply value_new_from_assets_coin.
    + intros p n. rewrite value_new_from_assets_qty. apply mint_side_pos. exact Wm.
    + intros p n. rewrite value_new_from_assets_qty. apply mint_side_neg. exact Wm.
  - repeat split; intros; reflexivity.
Qed.

(* ------------------------------------------------------------------------------------------- *)
(* the two totals *)

Definition consumed_coin (s : state) : N :=
  sum_coin (map snd (s_inputs s)) + sumN (map snd (opt_list (s_withdrawals s)))
  + spec_cert_refunds (c_key_deposit (s_cfg s)) (opt_list (s_certs s)).

Definition produced_coin_no_fee (s : state) : N :=
  sum_coin (map o_amount (s_outputs s))
  + spec_cert_deposits (c_pool_deposit (s_cfg s)) (c_key_deposit (s_cfg s)) (opt_list (s_certs s))
  + sumN (opt_list (s_proposals s)) + opt_n (s_donation s).

Lemma state_wf_inputs s : state_wf s -> Forall value_wf (map snd (s_inputs s)).
Proof.
  intros W. unfold state_wf, state_wfb in W. apply andb_true_iff in W. destruct W as [W _].
  apply andb_true_iff in W. destruct W as [W _]. rewrite forallb_forall in W.
  apply Forall_forall. intros v I. apply in_map_iff in I. destruct I as [e [<- I]]. apply W. exact I.
Qed.

Lemma state_wf_outputs s : state_wf s -> Forall value_wf (map o_amount (s_outputs s)).
Proof.
  intros W. unfold state_wf, state_wfb in W. apply andb_true_iff in W. destruct W as [W _].
  apply andb_true_iff in W. destruct W as [_ W]. rewrite forallb_forall in W.
  apply Forall_forall. intros v I. apply in_map_iff in I. destruct I as [e [<- I]]. apply W. exact I.
Qed.

Lemma implicit_input_spec s i : get_implicit_input s = Ok i ->
  value_wf i /\ (forall p n, qty i p n = 0) /\
  coin i = sumN (map snd (opt_list (s_withdrawals s))) + spec_cert_refunds (c_key_deposit (s_cfg s)) (opt_list (s_certs s)).
Proof.
  unfold get_implicit_input. intros H.
  assert (A : exists a, (match s_withdrawals s with
            | Some w => let* tw := get_total_withdrawals (map snd w) in value_checked_add value_zero (value_new tw)
            | None => Ok value_zero end) = Ok a /\ value_wf a /\ (forall p n, qty a p n = 0) /\
            coin a = sumN (map snd (opt_list (s_withdrawals s)))).
  { destruct (s_withdrawals s) as [w|]; cbn [opt_list].
    - rewrite total_withdrawals_exact in *.
      destruct (exact_or_error (sumN (map snd w))) as [tw| | |] eqn:E; cbn [bind] in H; try discriminate.
      apply exact_or_error_ok_iff in E. destruct E as [-> L].
      destruct (value_checked_add value_zero (value_new (sumN (map snd w)))) as [a| | |] eqn:E2; cbn [bind] in H; try discriminate.
      destruct (value_checked_add_ok _ _ _ value_wf_zero (value_wf_new _ L) E2) as [C [Q Wa]].
      exists a. split; [cbn [bind]; exact E2|]. split; [exact Wa|]. split; [intros p n; rewrite Q; reflexivity|].
      rewrite C. cbn. lia.
    - exists value_zero. repeat split. }
  destruct A as [a [Ea [Wa [Qa Ca]]]]. rewrite Ea in H. cbn [bind] in H.
  destruct (s_certs s) as [cs|]; cbn [opt_list].
  - rewrite certificates_refund_exact in H.
    destruct (exact_or_error (spec_cert_refunds (c_key_deposit (s_cfg s)) cs)) as [r| | |] eqn:E; cbn [bind] in H; try discriminate.
    apply exact_or_error_ok_iff in E. destruct E as [-> L].
    destruct (value_checked_add_ok _ _ _ Wa (value_wf_new _ L) H) as [C [Q Wi]].
    split; [exact Wi|]. split; [intros p n; rewrite Q, Qa; reflexivity|]. rewrite C, Ca. cbn. lia.
  - inversion H. subst. split; [exact Wa|]. split; [exact Qa|]. unfold spec_cert_refunds. cbn. lia.
Qed.

Theorem total_input_spec s ti : state_wf s -> get_total_input s = Ok ti ->
  value_wf ti /\ coin ti = consumed_coin s /\
  forall p n, qty ti p n = sum_qty (map snd (s_inputs s)) p n + mint_pos (mint_of s) p n.
Proof.
  intros W H. unfold get_total_input in H.
  destruct (get_explicit_input s) as [e| | |] eqn:Ee; cbn [bind] in H; try discriminate.
  destruct (get_implicit_input s) as [i| | |] eqn:Ei; cbn [bind] in H; try discriminate.
  destruct (value_checked_add e i) as [x| | |] eqn:Ex; cbn [bind] in H; try discriminate.
  destruct (value_sum_spec _ _ _ value_wf_zero (state_wf_inputs s W) Ee) as [We [Ce Qe]].
  destruct (implicit_input_spec s i Ei) as [Wi [Qi Ci]].
  destruct (value_checked_add_ok _ _ _ We Wi Ex) as [Cx [Qx Wx]].
  destruct (mint_values_spec s W) as [Wm [_ [Cm [_ [Qm _]]]]].
  destruct (value_checked_add_ok _ _ _ Wx Wm H) as [Ct [Qt Wt]].
  split; [exact Wt|]. split.
  - rewrite Ct, Cx, Ce, Ci, Cm. unfold consumed_coin. cbn. lia.
  - intros p n. rewrite Qt, Qx, Qe, Qi, Qm. cbn. lia.
Qed.

Lemma deposit_spec s d : get_deposit s = Ok d ->
  d < two64 /\
  d = spec_cert_deposits (c_pool_deposit (s_cfg s)) (c_key_deposit (s_cfg s)) (opt_list (s_certs s)) + sumN (opt_list (s_proposals s)).
Proof.
  unfold get_deposit. intros H.
  assert (A : exists a, (match s_certs s with
            | Some cs => let* d := get_certificates_deposit cs (c_pool_deposit (s_cfg s)) (c_key_deposit (s_cfg s)) in checked_add 0 d
            | None => Ok 0 end) = Ok a /\ a < two64 /\
            a = spec_cert_deposits (c_pool_deposit (s_cfg s)) (c_key_deposit (s_cfg s)) (opt_list (s_certs s))).
  { destruct (s_certs s) as [cs|]; cbn [opt_list].
    - rewrite certificates_deposit_exact in *.
      destruct (exact_or_error (spec_cert_deposits (c_pool_deposit (s_cfg s)) (c_key_deposit (s_cfg s)) cs)) as [x| | |] eqn:E;
        cbn [bind] in H; try discriminate.
      apply exact_or_error_ok_iff in E. destruct E as [-> L].
      exists (spec_cert_deposits (c_pool_deposit (s_cfg s)) (c_key_deposit (s_cfg s)) cs).
      split; [|split; [exact L | reflexivity]].
      cbn [bind]. rewrite checked_add_exact. rewrite N.add_0_l. apply exact_or_error_ok. exact L.
    - exists 0. split; [reflexivity|]. split; [reflexivity | reflexivity]. }
  destruct A as [a [Ea [La Ca]]]. rewrite Ea in H. cbn [bind] in H.
  destruct (s_proposals s) as [ps|]; cbn [opt_list].
  - rewrite total_deposit_exact in H.
    destruct (exact_or_error (sumN ps)) as [x| | |] eqn:E; cbn [bind] in H; try discriminate.
    apply exact_or_error_ok_iff in E. destruct E as [-> L].
    rewrite checked_add_exact in H. apply exact_or_error_ok_iff in H. destruct H as [-> L2].
    split; [exact L2 | lia].
  - inversion H. subst d. split; [exact La|]. cbn. lia.
Qed.

Theorem total_output_spec s to : state_wf s -> get_total_output s = Ok to ->
  value_wf to /\ coin to = produced_coin_no_fee s /\
  forall p n, qty to p n = sum_qty (map o_amount (s_outputs s)) p n + mint_neg (mint_of s) p n.
Proof.
  intros W H. unfold get_total_output in H.
  destruct (get_explicit_output s) as [e| | |] eqn:Ee; cbn [bind] in H; try discriminate.
  destruct (get_deposit s) as [d| | |] eqn:Ed; cbn [bind] in H; try discriminate.
  destruct (value_checked_add e (value_new d)) as [x| | |] eqn:Ex; cbn [bind] in H; try discriminate.
  destruct (value_checked_add x (snd (get_mint_as_values s))) as [t| | |] eqn:Et; cbn [bind] in H; try discriminate.
  destruct (value_sum_spec _ _ _ (value_wf_new 0 ltac:(reflexivity)) (state_wf_outputs s W) Ee) as [We [Ce Qe]].
  destruct (deposit_spec s d Ed) as [Ld Cd].
  destruct (value_checked_add_ok _ _ _ We (value_wf_new _ Ld) Ex) as [Cx [Qx Wx]].
  destruct (mint_values_spec s W) as [_ [Wb [_ [Cb [_ Qb]]]]].
  destruct (value_checked_add_ok _ _ _ Wx Wb Et) as [Ct [Qt Wt]].
  assert (Ht : coin t = sum_coin (map o_amount (s_outputs s)) + d /\
               forall p n, qty t p n = sum_qty (map o_amount (s_outputs s)) p n + mint_neg (mint_of s) p n).
  { split; [rewrite Ct, Cx, Ce, Cb; cbn; lia|]. intros p n. rewrite Qt, Qx, Qe, Qb. cbn. lia. }
  destruct Ht as [Ht1 Ht2].
  destruct (s_donation s) as [dn|] eqn:Edn.
  - assert (Ldn : dn < two64).
    { unfold value_checked_add, u64_add in H. cbn [coin value_new] in H.
      destruct (coin t + dn <? two64) eqn:L; cbn [bind] in H; [lia | discriminate]. }
    destruct (value_checked_add_ok _ _ _ Wt (value_wf_new _ Ldn) H) as [C [Q Wo]].
    split; [exact Wo|]. split.
    + rewrite C, Ht1, Cd. unfold produced_coin_no_fee. rewrite Edn. cbn. lia.
    + intros p n. rewrite Q, Ht2. cbn. lia.
  - inversion H. subst to. split; [exact Wt|]. split.
    + rewrite Ht1, Cd. unfold produced_coin_no_fee. rewrite Edn. cbn. lia.
    + exact Ht2.
Qed.

(* ------------------------------------------------------------------------------------------- *)
(* C05_accounting *)

Definition params_balanced (s : state) (b : tx_body) : Prop :=
  ledger_balanced (c_pool_deposit (s_cfg s)) (c_key_deposit (s_cfg s)) b.

(* the semantic statement of "total input = total output + fee" *)
Definition balanced_sem (s : state) (fee : N) : Prop :=
  consumed_coin s = produced_coin_no_fee s + fee /\
  forall p n, sum_qty (map snd (s_inputs s)) p n + mint_pos (mint_of s) p n
              = sum_qty (map o_amount (s_outputs s)) p n + mint_neg (mint_of s) p n.

Lemma balanced_sem_ledger s : balanced_sem s (opt_n (get_fee_if_set s)) -> params_balanced s (body_of s).
Proof.
  intros [C Q]. unfold params_balanced, ledger_balanced, body_of. cbn [b_inputs b_outputs b_fee b_certs b_withdrawals b_mint b_proposals b_donation].
  split; [|exact Q]. unfold consumed_coin, produced_coin_no_fee in C. lia.
Qed.

Theorem accounting s : state_wf s -> validate_balance s = Ok tt -> params_balanced s (body_of s).
Proof.
  intros W H. apply balanced_sem_ledger. unfold validate_balance in H.
  destruct (get_total_input s) as [ti| | |] eqn:Ei; cbn [bind] in H; try discriminate.
  destruct (get_total_output s) as [to| | |] eqn:Eo; cbn [bind] in H; try discriminate.
  destruct (total_input_spec s ti W Ei) as [Wi [Ci Qi]].
  destruct (total_output_spec s to W Eo) as [Wo [Co Qo]].
  destruct (get_fee_if_set s) as [fee|]; cbn [opt_n].
  - unfold u64_add in H. destruct (coin to + fee <? two64) eqn:L; cbn [bind] in H; try discriminate.
    destruct (value_eqb ti (value_set_coin (coin to + fee) to)) eqn:E; try discriminate.
    apply value_eqb_sound in E. destruct E as [Ec Eq].
    split.
    + rewrite <- Ci, <- Co. cbn in Ec. exact Ec.
    + intros p n. rewrite <- Qi, <- Qo. rewrite Eq. apply qty_set_coin.
  - cbn [bind] in H. destruct (value_eqb ti to) eqn:E; try discriminate.
    apply value_eqb_sound in E. destruct E as [Ec Eq].
    split.
    + rewrite <- Ci, <- Co. lia.
    + intros p n. rewrite <- Qi, <- Qo. apply Eq.
Qed.

(* ------------------------------------------------------------------------------------------- *)
(* the judge's executable test decides the rule *)

Lemma key_eq_dec (a b : bytes * bytes) : {a = b} + {a <> b}.
Proof. decide equality; apply (list_eq_dec N.eq_dec). Qed.

Lemma sum_qty_zero vs p n : ~ In (p, n) (flat_map value_keys vs) -> sum_qty vs p n = 0.
Proof.
  induction vs as [|v vs IH]; intros H; [reflexivity|].
  rewrite sum_qty_cons. cbn [flat_map] in H. rewrite in_app_iff in H.
  rewrite IH by tauto.
  destruct (N.eq_dec (qty v p n) 0) as [E|E]; [lia|].
  exfalso. apply H. left. unfold value_keys. rewrite opt_ma_qty_unfold in E.
  apply qty_in_entries in E. apply in_map_iff. exists (p, n, ma_qty (opt_ma (multiasset_of v)) p n). split; [reflexivity | exact E].
Qed.

Lemma mint_get_zero m p n : ~ In (p, n) (map (fun e : bytes * bytes * Z => (fst (fst e), snd (fst e))) (mint_entries m)) ->
  mint_get m p n = 0%Z.
Proof.
  intros H. unfold mint_get.
  destruct (am_get bytes_cmp p m) as [a|] eqn:G; [|reflexivity].
  destruct (am_get name_cmp n a) as [z|] eqn:G2; [|reflexivity].
  exfalso. apply H. apply in_map_iff. exists (p, n, z). split; [reflexivity|].
  apply (am_get_in bytes_cmp bytes_key_order) in G. apply (am_get_in name_cmp name_key_order) in G2.
  unfold mint_entries. apply in_flat_map. exists (p, a). split; [exact G|]. cbn [fst snd].
  apply in_map_iff. exists (n, z). split; [reflexivity | exact G2].
Qed.

Theorem ledger_balancedb_iff pd kd b : ledger_balancedb pd kd b = true <-> ledger_balanced pd kd b.
Proof.
  unfold ledger_balancedb, ledger_balanced. rewrite andb_true_iff, N.eqb_eq, forallb_forall. split.
  - intros [C Q]. split; [exact C|]. intros p n.
    destruct (in_dec key_eq_dec (p, n) (body_keys b)) as [I|I].
    + specialize (Q _ I). cbn [fst snd] in Q. apply N.eqb_eq in Q. exact Q.
    + unfold body_keys in I. rewrite !in_app_iff in I.
      rewrite (sum_qty_zero (map snd (b_inputs b)) p n) by tauto.
      rewrite (sum_qty_zero (map o_amount (b_outputs b)) p n) by tauto.
      unfold mint_pos, mint_neg. rewrite (mint_get_zero (b_mint b) p n) by tauto. reflexivity.
  - intros [C Q]. split; [exact C|]. intros [p n] _. cbn [fst snd]. apply N.eqb_eq. apply Q.
Qed.

(* ------------------------------------------------------------------------------------------- *)
(* operation order: the two sides of the rule are sums, so they do not depend on the order in which inputs, outputs,
   certificates, withdrawals and proposals were entered *)

Lemma sum_coin_perm l l' : Permutation l l' -> sum_coin l = sum_coin l'.
Proof. intros P. unfold sum_coin. apply sumN_perm. apply Permutation_map. exact P. Qed.

Lemma sum_qty_perm l l' p n : Permutation l l' -> sum_qty l p n = sum_qty l' p n.
Proof. intros P. unfold sum_qty. apply sumN_perm. apply Permutation_map. exact P. Qed.

Theorem ledger_balanced_order pd kd b b' :
  Permutation (b_inputs b) (b_inputs b') -> Permutation (b_outputs b) (b_outputs b') ->
  Permutation (b_certs b) (b_certs b') -> Permutation (b_withdrawals b) (b_withdrawals b') ->
  Permutation (b_proposals b) (b_proposals b') ->
  b_fee b = b_fee b' -> b_mint b = b_mint b' -> b_donation b = b_donation b' ->
  ledger_balanced pd kd b -> ledger_balanced pd kd b'.
Proof.
  intros Pi Po Pc Pw Pp Ef Em Ed [C Q]. unfold ledger_balanced.
  rewrite <- (sum_coin_perm _ _ (Permutation_map snd Pi)), <- (sum_coin_perm _ _ (Permutation_map o_amount Po)).
  rewrite <- (sumN_perm _ _ (Permutation_map snd Pw)), <- (sumN_perm _ _ Pp).
  rewrite <- (spec_cert_refunds_perm kd _ _ Pc), <- (spec_cert_deposits_perm pd kd _ _ Pc).
  rewrite <- Ef, <- Em, <- Ed. split; [exact C|].
  intros p n. rewrite <- (sum_qty_perm _ _ p n (Permutation_map snd Pi)), <- (sum_qty_perm _ _ p n (Permutation_map o_amount Po)).
  apply Q.
Qed.
