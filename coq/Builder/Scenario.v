(* Builder/Scenario.v — C05: builder operations, the recorded-answer oracle, scenario runner and the judge.
   Executable; NO proofs in this file.

   A scenario is a UTxO table and a list of operations issued to one TransactionBuilder.  The harness runs it on
   the implementation and records, per operation, the answers of the size/fee oracle (hook H2 of /repo: sites
   F = 70, A = 65, S = 83, T = 84) and, for add_inputs_from_and_change, what the coin selection added.  The model
   runs the same operations with the oracle instance "pop the next recorded answer" ([tape_oracle]); an answer
   asked for at another site than the one recorded, a missing answer or unconsumed answers make the operation's
   result [RDesync], which never equals an implementation result.

   API   op, opres, tape_state (mkTape), tape_oracle, run_op, run_ops, obs (final observation),
         impl_tx (the implementation's transaction as re-read by the harness), mint_of_entries, judge, verdict *)
From CSL Require Import Base.Prelude Base.U64 Num.Value Num.ValueNorm Deposits.Deposits Builder.Totals Builder.Change.
Local Open Scope N_scope.

Inductive op : Type :=
| OpInput (id : N)                                (* add_regular_input / set_inputs with the UTxO [id] *)
| OpOutput (x : output)                           (* add_output *)
| OpCerts (c : option (list cert))                (* set_certs_builder / remove_certs *)
| OpWithdrawals (w : option (list (N * N)))       (* WithdrawalsBuilder::add … ; set_withdrawals_builder / remove_withdrawals *)
| OpProposals (p : option (list N))               (* set_voting_proposal_builder *)
| OpMint (overwrite : bool) (p n : bytes) (amt : Z)   (* MintBuilder::set_asset / add_asset ; set_mint_builder *)
| OpDonation (c : N)
| OpTreasury (c : N)
| OpSetFee (c : N)
| OpSetMinFee (c : N)
| OpChange (addr extra : N)                       (* add_change_if_needed / _with_datum *)
| OpSelectChange (avail : list N) (addr extra : N)    (* add_inputs_from_and_change *)
| OpBuild.                                        (* build_tx *)

Inductive opres : Type :=
| ROk
| RBool (b : bool)
| RErr
| RPanic
| RFuel
| RDesync.

(* ------------------------------------------------------------------------------------------- *)
(* the recorded-answer oracle *)
Record tape_state : Type := mkTape {
  t_tape : list (N * option N);          (* (site, answer); None = the implementation's computation returned an error *)
  t_sel : option (list N * bool);        (* inputs added by add_inputs_from (UTxO ids), and whether it succeeded *)
  t_bad : bool
}.

Definition site_F : N := 70.
Definition site_A : N := 65.
Definition site_S : N := 83.
Definition site_T : N := 84.

Definition pop (site : N) (o : tape_state) : option (option N) * tape_state :=
  match t_tape o with
  | (s, a) :: r => if s =? site then (Some a, mkTape r (t_sel o) (t_bad o)) else (None, mkTape (t_tape o) (t_sel o) true)
  | [] => (None, mkTape [] (t_sel o) true)
  end.

(* a recorded number is a u64 (BigNum); anything else is not an answer the implementation can have given *)
Definition pop_num (site : N) (o : tape_state) : result N * tape_state :=
  match pop site o with
  | (Some (Some v), o') => if v <? two64 then (Ok v, o') else (Err, mkTape (t_tape o') (t_sel o') true)
  | (Some None, o') => (Err, o')
  | (None, o') => (Err, o')
  end.

Definition pop_bool (site : N) (o : tape_state) : bool * tape_state :=
  match pop site o with
  | (Some (Some v), o') => (negb (v =? 0), o')
  | (Some None, o') => (false, mkTape (t_tape o') (t_sel o') true)
  | (None, o') => (false, o')
  end.

Definition lookup_utxo (utxos : list (N * value)) (id : N) : option value :=
  match find (fun e => fst e =? id) utxos with Some e => Some (snd e) | None => None end.

Definition resolve (utxos : list (N * value)) (ids : list N) : list (N * value) :=
  flat_map (fun id => match lookup_utxo utxos id with Some v => [(id, v)] | None => [] end) ids.

Definition tape_oracle : @oracle tape_state :=
  mkOracle
    (fun _ o => pop_num site_F o)
    (fun _ o => pop_num site_A o)
    (fun _ o => pop_bool site_S o)
    (fun _ o => pop_bool site_T o)
    (fun _ utxos o =>
       match t_sel o with
       | Some (ids, ok) => ((resolve utxos ids, ok), mkTape (t_tape o) None (t_bad o))
       | None => (([], false), mkTape (t_tape o) None true)
       end).

(* ------------------------------------------------------------------------------------------- *)
(* running operations *)

Definition res_of {A} (r : result A) (okv : A -> opres) : opres :=
  match r with Ok a => okv a | Err => RErr | Panic => RPanic | OutOfFuel => RFuel end.

Definition finish {A} (r : out A) (okv : A -> opres) : opres * state :=
  let o := out_orc r in
  if t_bad o || negb (match t_tape o with [] => true | _ => false end)
     || match t_sel o with Some _ => true | None => false end
  then (RDesync, out_st r)
  else (res_of (out_res r) okv, out_st r).

Definition pure_op (s : state) (o : tape_state) (r : result state) : opres * state :=
  match t_tape o, t_sel o with
  | [], None => match r with Ok s' => (ROk, s') | Err => (RErr, s) | Panic => (RPanic, s) | OutOfFuel => (RFuel, s) end
  | _, _ => (RDesync, s)
  end.

Definition fuel_default : nat := N.to_nat 4000.

(* returns the op's result, the new state and, for OpBuild, the body *)
Definition run_op (utxos : list (N * value)) (x : op) (s : state) (o : tape_state) : opres * state * option tx_body :=
  match x with
  | OpInput id =>
      (pure_op s o (match lookup_utxo utxos id with
                    | Some v => Ok (set_s_inputs (inputs_insert id (value_without_empty_entries v) (s_inputs s)) s)
                    | None => Err end), None)
  | OpOutput x => (finish (add_output tape_oracle x s o) (fun _ => ROk), None)
  | OpCerts c => (pure_op s o (Ok (set_s_certs c s)), None)
  | OpWithdrawals w =>
      (pure_op s o (Ok (set_s_withdrawals
                          (match w with
                           | Some l => Some (fold_left (fun m e => wd_insert (fst e) (snd e) m) l [])
                           | None => None end) s)), None)
  | OpProposals p => (pure_op s o (Ok (set_s_proposals p s)), None)
  | OpMint ow p n amt =>
      (* Int::from_str accepts exactly the range int_min ..= int_max *)
      (pure_op s o (if ((amt <? int_min) || (int_max <? amt))%Z then Err
                    else let* m := mint_update ow p n amt (opt_mint (s_mint s)) in Ok (set_s_mint (Some m) s)), None)
  | OpDonation c => (pure_op s o (Ok (set_s_donation (Some c) s)), None)
  | OpTreasury c => (pure_op s o (set_current_treasury_value c s), None)
  | OpSetFee c => (pure_op s o (Ok (set_s_fee_request (FeeExactly c) s)), None)
  | OpSetMinFee c => (pure_op s o (Ok (set_s_fee_request (FeeNotLess c) s)), None)
  | OpChange addr extra => (finish (add_change tape_oracle fuel_default addr extra s o) RBool, None)
  | OpSelectChange avail addr extra =>
      (finish (add_inputs_from_and_change tape_oracle fuel_default (resolve utxos avail) addr extra s o) RBool, None)
  | OpBuild =>
      let r := build_tx tape_oracle s o in
      (finish r (fun _ => ROk), match out_res r with Ok b => Some b | _ => None end)
  end.

Fixpoint run_ops (utxos : list (N * value)) (l : list (op * tape_state)) (s : state)
  : list opres * state * option tx_body :=
  match l with
  | [] => ([], s, None)
  | (x, o) :: r =>
      match run_op utxos x s o with
      | (res, s', tx) =>
          match run_ops utxos r s' with
          | (rs, s'', tx') =>
              (res :: rs, s'', match tx' with Some b => Some b | None =>
                                 match res with ROk => tx | _ => None end end)
          end
      end
  end.

(* ------------------------------------------------------------------------------------------- *)
(* the judge: the ledger rule evaluated on the implementation's transaction *)

Record impl_tx : Type := mkImplTx {
  i_inputs : list N;                       (* UTxO ids of the body's inputs *)
  i_outputs : list output;
  i_fee : N;
  i_certs : list cert;
  i_withdrawals : list (N * N);
  i_mint : list (bytes * bytes * Z);
  i_proposals : list N;
  i_donation : N
}.

Definition mint_of_entries (es : list (bytes * bytes * Z)) : mint_map :=
  fold_left (fun m (e : bytes * bytes * Z) =>
               let p := fst (fst e) in
               let n := snd (fst e) in
               let a := match am_get bytes_cmp p m with Some a => a | None => [] end in
               let cur := match am_get name_cmp n a with Some c => c | None => 0%Z end in
               am_insert bytes_cmp p (am_insert name_cmp n (cur + snd e)%Z a) m) es [].

Inductive verdict : Type := Holds | NotApplicable | FailsKnown (class : N) | FailsUnknown.

Definition all_resolved (utxos : list (N * value)) (ids : list N) : bool :=
  forallb (fun id => match lookup_utxo utxos id with Some _ => true | None => false end) ids.

Definition body_of_impl (utxos : list (N * value)) (t : impl_tx) : tx_body :=
  mkBody (resolve utxos (i_inputs t)) (i_outputs t) (i_fee t) (i_certs t) (i_withdrawals t)
         (mint_of_entries (i_mint t)) (i_proposals t) (i_donation t).

Definition judge (pool_deposit key_deposit : N) (utxos : list (N * value)) (t : option impl_tx) : verdict :=
  match t with
  | None => NotApplicable
  | Some t =>
      if negb (all_resolved utxos (i_inputs t)) then FailsUnknown
      else
        let b := body_of_impl utxos t in
        if ledger_balancedb pool_deposit key_deposit b then Holds
        else if known_mint_min_map (b_mint b) then FailsKnown 1
        else FailsUnknown
  end.
