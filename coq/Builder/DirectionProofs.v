(* Builder/DirectionProofs.v — C05 phase 2: change only ever goes to the change address.
   A successful add_change appends outputs carrying the change address (and the requested datum / script reference) to
   the builder's outputs and leaves every output that was there before untouched — for ANY oracle.  This is what the
   finding C05-zero-quantity-change violated (the left-over ADA was added to the last REQUESTED output; /repo 5207e1d):
   with has_assets = "some quantity above zero" the asset branch is entered only when the packing loop runs, every
   successful pass appends at least one change output, so the final top-up always lands on an output of this call.
     add_change_direction          add_change = Ok -> outputs' = outputs ++ l, every element of l at (addr, extra)  *)
From CSL Require Import Base.Prelude Base.U64 Num.Value Num.ValueProofs Deposits.Deposits Deposits.DepositsProofs
  Builder.Totals Builder.TotalsProofs Builder.Change Builder.ChangeProofs.
Local Open Scope N_scope.

Section Direction.
  Context {O : Type}.
  Variable orc : @oracle O.
  Hypothesis OU : oracle_u64 orc.
  Variable cfg0 : config.
  Notation WF := (WF cfg0).
  Variables (outs0 : list output) (addr extra : N).

  Definition at_change (x : output) : Prop := o_addr x = addr /\ o_extra x = extra.
  (* [k]: at least one output has been appended *)
  Definition app_n (k : bool) (s : state) : Prop :=
    exists l, s_outputs s = outs0 ++ l /\ Forall at_change l /\ (k = true -> l <> []).

  Lemma app_n_weaken k s : app_n k s -> app_n false s.
  Proof. intros [l [E [F _]]]. exists l. split; [exact E|]. split; [exact F | discriminate]. Qed.

  Lemma app_n_add k s amount : app_n k s -> app_n true (set_s_outputs (s_outputs s ++ [mkOutput addr amount extra]) s).
  Proof.
    intros [l [E [F _]]]. exists (l ++ [mkOutput addr amount extra]). cbn [s_outputs set_s_outputs]. rewrite E, app_assoc.
    split; [reflexivity|]. split; [|intros _; destruct l; discriminate].
    apply Forall_app. split; [exact F|]. constructor; [split; reflexivity | constructor].
  Qed.

  Lemma app_n_fee k v s : app_n k s -> app_n k (set_final_fee v s).
  Proof. intros H. exact H. Qed.

  Lemma change_outputs_loop_dir l : forall k cl nf, mas_wf l -> value_wf cl ->
    hoare WF (app_n k) (change_outputs_loop orc addr extra l cl nf)
      (fun r s => value_wf (fst r) /\ app_n (k || negb (match l with [] => true | _ => false end)) s).
  Proof.
    induction l as [|nft l IH]; intros k cl nf Wl Wcl.
    - cbn [change_outputs_loop]. apply hoare_ret'. intros s _ H. rewrite orb_false_r. auto.
    - cbn [change_outputs_loop]. inversion Wl as [|? ? Wn Wl']. subst.
      apply (hoare_askA_bind orc OU). intros min_ada Lm.
      set (cv := value_set_coin min_ada (value_set_multiasset nft (value_new 0))).
      assert (Wcv : value_wf cv).
      { apply value_wf_set_coin; [exact Lm|]. apply value_wf_set_multiasset; [reflexivity | exact Wn]. }
      eapply hoare_bind; [apply (fee_for_output_spec orc OU cfg0)|]. intros ffc. cbn beta.
      apply hoare_weaken with (P := app_n k); [intros s _ [H _]; exact H|].
      apply hoare_lift_bind. intros nf' _. apply hoare_lift_bind. intros need _.
      apply hoare_if; intros _; [apply hoare_fail; discriminate|].
      apply hoare_lift_bind. intros cl' Ecl.
      destruct (value_checked_sub_ok _ _ _ Wcl Wcv Ecl) as [_ [_ [_ Wcl']]].
      eapply hoare_bind.
      + apply (add_output_spec orc OU cfg0 (app_n k) (mkOutput addr cv extra) (fun _ s => app_n true s) Wcv).
        intros s _ H. apply (app_n_add k). exact H.
      + intros u. eapply hoare_conseq; [apply (IH true cl' nf' Wl' Wcl') | auto |].
        intros r s _ [Wr H]. split; [exact Wr|]. cbn [orb] in H. rewrite orb_true_r. exact H.
  Qed.

  Lemma existsb_nonempty {A} (f : A -> bool) l : existsb f l = true -> l <> [].
  Proof. destruct l; [discriminate | discriminate]. Qed.

  Lemma change_while_loop_dir fuel : forall k cl nf, value_wf cl ->
    hoare WF (app_n k) (change_while_loop orc fuel addr extra cl nf)
      (fun r s => value_wf (fst r) /\ app_n (k || change_has_assets_left cl) s).
  Proof.
    induction fuel as [|fuel IH]; intros k cl nf Wcl; cbn [change_while_loop].
    - destruct (change_has_assets_left cl); [apply hoare_fail; discriminate|].
      apply hoare_ret'. intros s _ H. rewrite orb_false_r. auto.
    - destruct (change_has_assets_left cl) eqn:HA; [|apply hoare_ret'; intros s _ H; rewrite orb_false_r; auto].
      change (hoare WF (app_n k)
        (bindM (pack_nfts_for_change orc cl) (fun nft_changes =>
           if existsb ma_positive nft_changes
           then bindM (change_outputs_loop orc addr extra nft_changes cl nf)
                      (fun r => change_while_loop orc fuel addr extra (fst r) (snd r))
           else lift Err))
        (fun r s => value_wf (fst r) /\ app_n (k || true) s)).
      eapply hoare_bind; [apply (pack_nfts_spec orc OU cfg0); exact Wcl|].
      intros l. cbn beta. apply hoare_if; intros Pos; [|apply hoare_fail; discriminate].
      apply hoare_pre_pure with (phi := mas_wf l); [intros s _ [_ Wl]; exact Wl|]. intros Wl.
      apply hoare_weaken with (P := app_n k); [intros s _ [H _]; exact H|].
      eapply hoare_bind; [apply (change_outputs_loop_dir l k cl nf Wl Wcl)|].
      intros r. cbn beta.
      apply hoare_pre_pure with (phi := value_wf (fst r)); [intros s _ [H _]; exact H|]. intros Wr.
      apply hoare_weaken with (P := app_n true).
      { intros s _ [_ H]. destruct l; [exfalso; exact (existsb_nonempty _ _ Pos eq_refl)|]. rewrite orb_true_r in H. exact H. }
      eapply hoare_conseq; [apply (IH true (fst r) (snd r) Wr) | auto |].
      intros r' s _ [Wr' H]. split; [exact Wr'|]. rewrite orb_true_r. cbn [orb] in H. exact H.
  Qed.

  (* the top-up changes the amount of the last appended output only *)
  Lemma top_up_last_dir cl : value_wf cl ->
    hoare WF (app_n true) (top_up_last orc cl) (fun _ s => app_n true s).
  Proof.
    intros Wcl. unfold top_up_last. apply hoare_get_bind. intros s0.
    destruct (rev (s_outputs s0)) as [|last before] eqn:E; [apply hoare_fail; discriminate|].
    assert (Eo : s_outputs s0 = rev before ++ [last]).
    { rewrite <- (rev_involutive (s_outputs s0)), E. reflexivity. }
    apply hoare_pre_pure with (phi := state_wf s0); [intros s Js [Es _]; subst; exact (proj1 Js)|]. intros W0.
    pose proof (state_wf_outputs_forall s0 W0) as Fo. rewrite Eo in Fo. apply Forall_app in Fo. destruct Fo as [Fb Fl].
    inversion Fl as [|? ? Wlast _]. subst.
    apply hoare_lift_bind. intros amount Ea.
    destruct (value_checked_add_ok _ _ _ Wlast Wcl Ea) as [_ [_ Wa]].
    eapply hoare_bind with (Q := fun _ s => app_n true s); [|intros u; apply (output_admissible_spec orc OU cfg0)].
    apply hoare_put. intros s Js [Es [l [El [Fl' Ne]]]]. subst s. split.
    - apply WF_set_outputs; [exact Js|]. apply Forall_app. split; [exact Fb|]. constructor; [exact Wa | constructor].
    - specialize (Ne eq_refl). destruct (exists_last Ne) as [l0 [x El0]]. subst l.
      rewrite Eo, app_assoc in El. apply app_inj_tail in El. destruct El as [Eb Ex]. subst x.
      exists (l0 ++ [mkOutput (o_addr last) amount (o_extra last)]). cbn [s_outputs set_s_outputs]. rewrite Eb, app_assoc.
      split; [reflexivity|]. split; [|intros _; destruct l0; discriminate].
      apply Forall_app in Fl'. destruct Fl' as [F0 Fx]. inversion Fx as [|? ? [Ha He] _]. subst.
      apply Forall_app. split; [exact F0|]. constructor; [split; assumption | constructor].
  Qed.

  Lemma asset_branch_dir fuel ti to fee ce :
    value_wf ti -> value_wf to -> value_checked_sub ti to = Ok ce -> has_assets (multiasset_of ce) = true ->
    hoare WF (app_n false) (asset_branch orc fuel addr extra ti to fee) (fun _ s => app_n false s).
  Proof.
    intros Wti Wto Ece HA. unfold asset_branch.
    apply hoare_lift_bind. intros cl0 Ecl0. rewrite Ece in Ecl0. inversion Ecl0. subst cl0. clear Ecl0.
    destruct (value_checked_sub_ok _ _ _ Wti Wto Ece) as [_ [_ [_ Wce]]].
    assert (HL : change_has_assets_left ce = true) by exact HA.
    apply (hoare_askA_bind orc OU). intros minimum _.
    eapply hoare_bind; [apply (change_while_loop_dir fuel false ce fee Wce)|]. intros r. cbn beta.
    rewrite HL. cbn [orb].
    apply hoare_pre_pure with (phi := value_wf (fst r)); [intros s _ [H _]; exact H|]. intros Wr.
    apply hoare_weaken with (P := app_n true); [intros s _ [_ H]; exact H|].
    apply hoare_lift_bind. intros cl1 Ecl1.
    assert (Wcl1 : value_wf cl1).
    { unfold value_checked_sub, u64_sub in Ecl1. cbn [coin value_new multiasset_of] in Ecl1.
      destruct (snd r <=? coin (fst r)) eqn:L; cbn [bind] in Ecl1; [|discriminate].
      inversion Ecl1. subst cl1. apply value_wf_iff in Wr. destruct Wr as [Cr Mr]. apply value_wf_iff. cbn [coin multiasset_of].
      split; [lia|]. unfold value_sub_assets. cbn [multiasset_of value_new]. destruct (multiasset_of (fst r)); [exact Mr | exact I]. }
    apply hoare_get_bind. intros s1.
    apply hoare_weaken with (P := app_n true); [intros s _ [_ H]; exact H|].
    eapply hoare_bind with (Q := fun r2 s => value_wf (fst r2) /\ app_n true s).
    - apply hoare_if; intros _; [|apply hoare_ret'; auto].
      eapply hoare_bind; [apply (fee_for_output_spec orc OU cfg0)|]. intros af. cbn beta.
      apply hoare_pre_pure with (phi := af < two64); [intros s _ [_ [L _]]; exact L|]. intros Laf.
      apply hoare_weaken with (P := app_n true); [intros s _ [H _]; exact H|].
      apply hoare_lift_bind. intros pot Epot.
      destruct (sub_new_ok _ _ _ Wcl1 Laf Epot) as [_ [_ [_ Wpot]]].
      apply hoare_if; intros _; [|apply hoare_ret'; auto].
      apply hoare_lift_bind. intros nf' _.
      eapply hoare_bind.
      + apply (add_output_spec orc OU cfg0 (app_n true) (mkOutput addr pot extra) (fun _ s => app_n true s) Wpot).
        intros s _ H. apply (app_n_add true). exact H.
      + intros u. apply hoare_ret'. intros s _ H. split; [reflexivity | exact H].
    - intros r2. cbn beta.
      apply hoare_pre_pure with (phi := value_wf (fst r2)); [intros s _ [H _]; exact H|]. intros Wr2.
      eapply hoare_modify_bind with (P' := app_n true).
      { intros s Js [_ H]. split; [apply WF_set_final_fee; exact Js | exact H]. }
      eapply hoare_bind with (Q := fun _ s => app_n true s).
      + apply hoare_if; intros _; [apply hoare_ret'; auto | apply top_up_last_dir; exact Wr2].
      + intros u. eapply hoare_bind; [apply (check_fee_after_change_spec orc OU cfg0)|]. intros u2.
        apply hoare_ret'. intros s _ H. apply (app_n_weaken true). exact H.
  Qed.

  Lemma burn_extra_dir amt : hoare WF (app_n false) (@burn_extra O amt) (fun _ s => app_n false s).
  Proof.
    unfold burn_extra. apply hoare_get_bind. intros s0. apply hoare_if; intros _; [apply hoare_fail; discriminate|].
    assert (Fin : hoare WF (fun s => s = s0 /\ app_n false s) (bindM (@modify O (set_final_fee amt)) (fun _ => ret false))
                    (fun _ s => app_n false s)).
    { eapply hoare_modify_bind with (P' := app_n false); [|apply hoare_ret'; auto].
      intros s Js [_ H]. split; [apply WF_set_final_fee; exact Js | exact H]. }
    destruct (s_fee_request s0); try exact Fin.
    apply hoare_if; intros _; [apply hoare_fail; discriminate | exact Fin].
  Qed.

  Lemma pure_branch_dir ce fee : value_wf ce ->
    hoare WF (app_n false) (pure_branch orc addr extra ce fee) (fun _ s => app_n false s).
  Proof.
    intros Wce. unfold pure_branch. apply (hoare_askA_bind orc OU). intros min_ada _.
    apply hoare_if; intros _; [apply burn_extra_dir|].
    eapply hoare_bind; [apply (fee_for_output_spec orc OU cfg0)|]. intros ffc. cbn beta.
    apply hoare_weaken with (P := app_n false); [intros s _ [H _]; exact H|].
    apply hoare_lift_bind. intros nf Enf. apply checked_add_ok in Enf. destruct Enf as [-> Lnf].
    apply hoare_lift_bind. intros need _.
    apply hoare_if; intros _; [apply burn_extra_dir|].
    eapply hoare_modify_bind with (P' := app_n false).
    { intros s Js H. split; [apply WF_set_final_fee; exact Js | exact H]. }
    apply hoare_lift_bind. intros amount Ea.
    destruct (sub_new_ok _ _ _ Wce Lnf Ea) as [_ [_ [_ Wa]]].
    eapply hoare_bind.
    - apply (add_output_spec orc OU cfg0 (app_n false) (mkOutput addr amount extra) (fun _ s => app_n false s) Wa).
      intros s _ H. apply (app_n_weaken true). apply (app_n_add false). exact H.
    - intros u. eapply hoare_bind; [apply (check_fee_after_change_spec orc OU cfg0)|]. intros u2. apply hoare_ret'. auto.
  Qed.

  Theorem add_change_direction_hoare fuel :
    hoare WF (fun s => s_outputs s = outs0) (add_change orc fuel addr extra) (fun _ s => app_n false s).
  Proof.
    unfold add_change. apply hoare_get_bind. intros s0.
    destruct (s_fee s0); [apply hoare_fail; discriminate|].
    apply hoare_pre_pure with (phi := state_wf s0); [intros s Js [E _]; subst; exact (proj1 Js)|]. intros W0.
    apply hoare_weaken with (P := app_n false).
    { intros s _ [_ H]. exists []. rewrite app_nil_r. split; [exact H|]. split; [constructor | discriminate]. }
    eapply hoare_bind; [apply (min_fee_pub_spec orc OU cfg0)|]. intros fee. cbn beta.
    apply hoare_weaken with (P := app_n false); [intros s _ [H _]; exact H|].
    apply hoare_lift_bind. intros ti Eti. apply hoare_lift_bind. intros to Eto.
    apply hoare_lift_bind. intros shortage _. apply hoare_if; intros _; [apply hoare_fail; discriminate|].
    apply hoare_lift_bind. intros opf Eopf.
    destruct (total_input_spec s0 ti W0 Eti) as [Wti _].
    destruct (total_output_spec s0 to W0 Eto) as [Wto _].
    destruct (value_partial_cmp ti opf) as [[| |]|]; try (apply hoare_fail; discriminate).
    - apply hoare_lift_bind. intros d _.
      eapply hoare_modify_bind with (P' := app_n false); [|apply hoare_ret'; auto].
      intros s Js H. split; [apply WF_set_final_fee; exact Js | exact H].
    - apply hoare_lift_bind. intros ce Ece.
      destruct (value_checked_sub_ok _ _ _ Wti Wto Ece) as [_ [_ [_ Wce]]].
      apply hoare_if; intros HA.
      + eapply asset_branch_dir; eassumption.
      + apply pure_branch_dir. exact Wce.
  Qed.
End Direction.

(* plain form *)
Theorem add_change_direction {O : Type} (orc : @oracle O) (OU : oracle_u64 orc) fuel addr extra st o b :
  state_wf st -> out_res (add_change orc fuel addr extra st o) = Ok b ->
  exists l, s_outputs (out_st (add_change orc fuel addr extra st o)) = s_outputs st ++ l /\
            Forall (fun x => o_addr x = addr /\ o_extra x = extra) l.
Proof.
  intros W E.
  destruct (add_change_direction_hoare orc OU (s_cfg st) (s_outputs st) addr extra fuel st o (conj W eq_refl) eq_refl) as [_ H].
  rewrite E in H. destruct H as [l [El [F _]]]. exists l. split; assumption.
Qed.
