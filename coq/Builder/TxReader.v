(* Builder/TxReader.v — C05 phase 2: an independent reader for the judge.
   The judge no longer trusts the library's Transaction::from_bytes: the harness hands over the bytes of the built
   transaction, and this file reads the balance-relevant fields of the body with the generic CBOR recogniser of
   Cbor/Item.v (parse_exact, map_lookup_uint), following the Conway CDDL (notes/conway-cddl.md):
     transaction = [body, witness_set, bool, auxiliary_data / nil]
     body keys   0 inputs (array or #6.258 set of [hash32, index])     1 outputs     2 fee
                 4 certificates (array / set of [tag, ...])            5 withdrawals {reward_account => coin}
                 9 mint {policy => {name => int}}                      20 proposal procedures (array / set of [deposit, ...])
                 22 donation
     output      legacy [address, value] / [address, value, datum_hash], or {0 address, 1 value, ? 2 datum_option, ? 3 script_ref}
     value       coin / [coin, {policy => {name => uint}}]
   Identifiers: the harness's tables map address bytes and reward-account bytes to the ids of the scenario; the UTxO id
   of an input is read from bytes 1..8 of its transaction hash (harness convention, c05.rs utxo_input).
   No proofs in this file (executable; used by the driver only).

   API   read_value, read_output, read_cert, raw_tx, read_tx, lookup_id, judge_bytes *)
From CSL Require Import Base.Prelude Base.U64 Cbor.Item Num.Value Deposits.Deposits Builder.Totals Builder.Change Builder.Scenario.
Local Open Scope N_scope.

Definition obind {A B} (o : option A) (f : A -> option B) : option B := match o with Some a => f a | None => None end.
Notation "'let?' x ':=' o 'in' k" := (obind o (fun x => k)) (at level 200, x name, o at level 100, k at level 200, right associativity).

Fixpoint omap {A B} (f : A -> option B) (l : list A) : option (list B) :=
  match l with
  | [] => Some []
  | x :: r => let? y := f x in let? ys := omap f r in Some (y :: ys)
  end.

(* an array, or the #6.258 set form of one *)
Definition as_list (it : item) : option (list item) :=
  match it with
  | IArray _ xs => Some xs
  | ITag 258 (IArray _ xs) => Some xs
  | _ => None
  end.

(* {policy => {name => quantity}} as entries; [q] reads one quantity *)
Definition read_assets {Q} (q : item -> option Q) (it : item) : option (list (bytes * bytes * Q)) :=
  let? pols := as_map it in
  let? groups := omap (fun pa : item * item =>
                   let? p := as_bytes (fst pa) in
                   let? names := as_map (snd pa) in
                   omap (fun nq : item * item => let? n := as_bytes (fst nq) in let? x := q (snd nq) in Some (p, n, x)) names) pols in
  Some (concat groups).

Definition read_value (it : item) : option value :=
  match it with
  | IUint c => Some (mkValue c None)
  | IArray _ [IUint c; m] =>
      let? es := read_assets as_uint m in
      match ma_add_entries ma_new es with Ok ma => Some (mkValue c (Some ma)) | _ => None end
  | _ => None
  end.

(* address bytes, value, and the kind of datum / script reference (the [extra] code of the scenarios) *)
Definition extra_code (datum : option item) (script : option item) : option N :=
  match datum, script with
  | None, None => Some 0
  | Some (IArray _ [IUint 0; _]), None => Some 1
  | Some (IArray _ [IUint 1; _]), None => Some 2
  | None, Some _ => Some 3
  | Some (IArray _ [IUint 1; _]), Some _ => Some 4
  | Some (IArray _ [IUint 0; _]), Some _ => Some 9
  | _, _ => None
  end.

Definition read_output (it : item) : option (bytes * value * N) :=
  match it with
  | IArray _ [a; v] => let? ab := as_bytes a in let? val := read_value v in Some (ab, val, 0)
  | IArray _ [a; v; _] => let? ab := as_bytes a in let? val := read_value v in Some (ab, val, 1)
  | IMap _ _ =>
      let? a := map_lookup_uint 0 it in let? ab := as_bytes a in
      let? v := map_lookup_uint 1 it in let? val := read_value v in
      let? e := extra_code (map_lookup_uint 2 it) (map_lookup_uint 3 it) in
      Some (ab, val, e)
  | _ => None
  end.

(* a certificate as far as deposits / refunds are concerned: its CDDL number and explicit coin *)
Definition read_cert (it : item) : option cert :=
  let? xs := as_array it in
  match xs with
  | IUint tag :: rest =>
      let coin_at (i : nat) := match nth_error rest i with Some (IUint c) => Some c | _ => None end in
      let coin :=
        match tag with
        | 7 | 8 | 17 => coin_at 1%nat
        | 11 | 12 => coin_at 2%nat
        | 13 => coin_at 3%nat
        | 16 => coin_at 1%nat
        | _ => None
        end in
      cert_of_tag tag coin
  | _ => None
  end.

Record raw_tx : Type := mkRaw {
  r_inputs : list (bytes * N);
  r_outputs : list (bytes * value * N);
  r_fee : N;
  r_certs : list cert;
  r_withdrawals : list (bytes * N);
  r_mint : list (bytes * bytes * Z);
  r_proposals : list N;
  r_donation : N
}.

Definition opt_field {A} (o : option item) (f : item -> option A) (dflt : A) : option A :=
  match o with Some it => f it | None => Some dflt end.

Definition read_body (body : item) : option raw_tx :=
  let? ins_it := map_lookup_uint 0 body in
  let? ins_l := as_list ins_it in
  let? ins := omap (fun x => match x with IArray _ [h; IUint i] => let? hb := as_bytes h in Some (hb, i) | _ => None end) ins_l in
  let? outs_it := map_lookup_uint 1 body in
  let? outs_l := as_array outs_it in
  let? outs := omap read_output outs_l in
  let? fee := obind (map_lookup_uint 2 body) as_uint in
  let? certs := opt_field (map_lookup_uint 4 body) (fun it => let? l := as_list it in omap read_cert l) [] in
  let? wds := opt_field (map_lookup_uint 5 body)
                (fun it => let? kv := as_map it in omap (fun e : item * item => let? a := as_bytes (fst e) in let? c := as_uint (snd e) in Some (a, c)) kv) [] in
  let? mint := opt_field (map_lookup_uint 9 body) (read_assets as_int) [] in
  let? props := opt_field (map_lookup_uint 20 body)
                  (fun it => let? l := as_list it in omap (fun x => match x with IArray _ (IUint d :: _) => Some d | _ => None end) l) [] in
  let? don := opt_field (map_lookup_uint 22 body) as_uint 0 in
  Some (mkRaw ins outs fee certs wds mint props don).

Definition read_tx (bs : bytes) : option raw_tx :=
  match parse_exact bs with
  | Ok (IArray _ (body :: _ :: _ :: _)) => read_body body
  | _ => None
  end.

(* ------------------------------------------------------------------------------------------- *)
(* identifiers *)

Definition lookup_id (tab : list (bytes * N)) (b : bytes) : option N :=
  match find (fun e => Item.bytes_eqb (fst e) b) tab with Some e => Some (snd e) | None => None end.

Fixpoint be_decode (bs : bytes) (acc : N) : N :=
  match bs with [] => acc | b :: r => be_decode r (acc * 256 + b) end.
Definition utxo_id_of_hash (h : bytes) : N := be_decode (firstn 8 (skipn 1 h)) 0.

Definition impl_of_raw (addr_tab rw_tab : list (bytes * N)) (r : raw_tx) : option impl_tx :=
  let? outs := omap (fun o : bytes * value * N => let? a := lookup_id addr_tab (fst (fst o)) in
                       Some (mkOutput a (snd (fst o)) (snd o))) (r_outputs r) in
  let? wds := omap (fun w : bytes * N => let? a := lookup_id rw_tab (fst w) in Some (a, snd w)) (r_withdrawals r) in
  Some (mkImplTx (map (fun i : bytes * N => utxo_id_of_hash (fst i)) (r_inputs r)) outs (r_fee r) (r_certs r) wds
                 (r_mint r) (r_proposals r) (r_donation r)).

(* the judge on transaction bytes: unreadable bytes, or identifiers outside the scenario, fail *)
Definition judge_bytes (pool_deposit key_deposit : N) (utxos : list (N * value)) (addr_tab rw_tab : list (bytes * N))
           (tx : option bytes) : verdict :=
  match tx with
  | None => NotApplicable
  | Some bs =>
      match obind (read_tx bs) (impl_of_raw addr_tab rw_tab) with
      | Some t => judge pool_deposit key_deposit utxos (Some t)
      | None => FailsUnknown
      end
  end.
