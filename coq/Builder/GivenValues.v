(* Builder/GivenValues.v — C05: the amounts the builder stores for its inputs (Value::without_empty_entries of what it
   was given, /repo bb8d7fa) denote the same value as the amounts it was given — the on-chain UTxO values the ledger
   uses.  So the ledger rule on the built body may be read with either: what the theorems of ChangeProofs.v prove about
   the stored amounts holds for the given ones (the judge of the correspondence run resolves inputs in the scenario's
   UTxO table, i.e. with the amounts as given). *)
From CSL Require Import Base.Prelude Base.U64 Num.Value Num.ValueProofs Num.ValueNorm Num.ValueNormProofs
  Deposits.Deposits Builder.Totals Builder.TotalsProofs.
Local Open Scope N_scope.

Definition stored (given : list (N * value)) : list (N * value) :=
  map (fun e : N * value => (fst e, value_without_empty_entries (snd e))) given.

Definition with_inputs (ins : list (N * value)) (b : tx_body) : tx_body :=
  mkBody ins (b_outputs b) (b_fee b) (b_certs b) (b_withdrawals b) (b_mint b) (b_proposals b) (b_donation b).

Lemma stored_sums given : Forall (fun e : N * value => value_wf (snd e)) given ->
  sum_coin (map snd (stored given)) = sum_coin (map snd given) /\
  forall p n, sum_qty (map snd (stored given)) p n = sum_qty (map snd given) p n.
Proof.
  induction 1 as [|e l We _ IH]; [split; reflexivity|]. destruct IH as [IC IQ].
  destruct (value_without_empty_entries_sem (snd e) We) as [C Q].
  unfold stored. cbn [map snd fst]. fold (stored l). split.
  - rewrite !sum_coin_cons, C, IC. reflexivity.
  - intros p n. rewrite !sum_qty_cons, Q, IQ. reflexivity.
Qed.

Theorem ledger_balanced_given pd kd given b :
  Forall (fun e : N * value => value_wf (snd e)) given ->
  (ledger_balanced pd kd (with_inputs (stored given) b) <-> ledger_balanced pd kd (with_inputs given b)).
Proof.
  intros W. destruct (stored_sums given W) as [C Q]. unfold ledger_balanced, with_inputs.
  cbn [b_inputs b_outputs b_fee b_certs b_withdrawals b_mint b_proposals b_donation]. rewrite C.
  split; intros [H1 H2]; (split; [exact H1|]); intros p n; specialize (H2 p n); rewrite Q in *; exact H2.
Qed.
