(* C20 — the per-certificate table of Deposits.v (what helpers and builder compute) equals the
   ledger's stateful accounting (LedgerState.v) under explicit premises. *)
From CSL Require Import Base.Prelude Base.U64 Deposits.Deposits Deposits.DepositsProofs Deposits.Ident Deposits.LedgerState.
Local Open Scope N_scope.

Lemma cred_eqb_eq a b : cred_eqb a b = true <-> a = b.
Proof.
  destruct a as [s1 a1], b as [s2 a2]. unfold cred_eqb. cbn [fst snd].
  rewrite andb_true_iff, N.eqb_eq, Bool.eqb_true_iff. split; [intros [-> ->] | intros H; inversion H]; tauto.
Qed.

Lemma cred_eqb_refl a : cred_eqb a a = true.
Proof. apply cred_eqb_eq. reflexivity. Qed.

Lemma cred_eqb_sym a b : cred_eqb a b = cred_eqb b a.
Proof.
  destruct (cred_eqb a b) eqn:E1, (cred_eqb b a) eqn:E2; try reflexivity.
  - apply cred_eqb_eq in E1. subst. rewrite cred_eqb_refl in E2. discriminate.
  - apply cred_eqb_eq in E2. subst. rewrite cred_eqb_refl in E1. discriminate.
Qed.

Lemma cmem_cremove c' c R : cmem c' (cremove c R) = if cred_eqb c' c then false else cmem c' R.
Proof.
  unfold cmem, cremove. induction R as [| a R IH]; cbn [filter existsb]; [destruct (cred_eqb c' c); reflexivity |].
  destruct (cred_eqb c a) eqn:E; cbn [negb existsb].
  - apply cred_eqb_eq in E. subst a. rewrite IH. destruct (cred_eqb c' c); reflexivity.
  - rewrite IH. destruct (cred_eqb c' c) eqn:E2; [| reflexivity].
    apply cred_eqb_eq in E2. subst c'. rewrite E. reflexivity.
Qed.

Lemma alookup_cons c' c d M : alookup c' ((c, d) :: M) = if cred_eqb c' c then Some d else alookup c' M.
Proof. unfold alookup. cbn [find fst snd]. destruct (cred_eqb c' c); reflexivity. Qed.

Lemma alookup_aremove c' c M : alookup c' (aremove c M) = if cred_eqb c' c then None else alookup c' M.
Proof.
  unfold alookup, aremove. induction M as [| [a d] M IH]; cbn [filter find fst snd]; [destruct (cred_eqb c' c); reflexivity |].
  destruct (cred_eqb c a) eqn:E; cbn [negb find fst snd].
  - apply cred_eqb_eq in E. subst a. rewrite IH. destruct (cred_eqb c' c); reflexivity.
  - destruct (cred_eqb c' a) eqn:E3.
    + apply cred_eqb_eq in E3. subst a. rewrite (cred_eqb_sym c' c), E. reflexivity.
    + exact IH.
Qed.

Lemma upd_same {V} (f : credential -> V) c v : upd f c v c = v.
Proof. unfold upd. rewrite cred_eqb_refl. reflexivity. Qed.

Lemma upd_other {V} (f : credential -> V) c v c' : cred_eqb c' c = false -> upd f c v c' = f c'.
Proof. unfold upd. intros ->. reflexivity. Qed.

Section Agreement.
  Variable pp : pparams.
  Variable ls : lstate.
  Let key := pp_key_deposit pp.
  Let pool := pp_pool_deposit pp.

  (* ---------- deposits ---------- *)
  Lemma deposits_gen cs : forall stake drep seen,
    certs_valid pp stake drep cs = true ->
    pools_fresh (ls_pool ls) seen cs = true ->
    count is_reg_stake cs * key + num_new_reg_pool_certs (ls_pool ls) seen cs * pool
      + count is_reg_drep cs * pp_drep_deposit pp
    = spec_cert_deposits pool key (map ic_cert cs).
  Proof.
    unfold spec_cert_deposits.
    induction cs as [| [c s i] r IH]; intros stake drep seen V F; [reflexivity |].
    cbn [map sumN fold_right]. fold (sumN (map (ledger_deposit pool key) (map ic_cert r))).
    cbn [certs_valid ic_cert] in V. cbn [pools_fresh] in F.
    destruct c as [[d|]|[d|]| | | | | | | | d | d | | | d | d | | d];
      cbn [count num_new_reg_pool_certs is_reg_stake is_reg_pool is_reg_drep ic_cert cddl_tag ledger_deposit cert_coin andb] in *.
    all: repeat match goal with
         | H : _ && _ = true |- _ => apply andb_true_iff in H; destruct H
         | H : (_ =? _) = true |- _ => apply N.eqb_eq in H
         | H : match ?o with Some _ => _ | None => false end = true |- _ => destruct o; [| discriminate]
         end.
    all: try (rewrite <- (IH _ _ _ ltac:(eassumption) ltac:(eassumption)); subst; fold key; lia).
    (* pool registration *)
    match goal with H : pool_is_new _ _ _ = true |- _ => rewrite H end.
    rewrite <- (IH _ _ _ ltac:(eassumption) ltac:(eassumption)). fold pool. lia.
  Qed.

  (* ---------- refunds ---------- *)
  Definition stake_inv (stake : credential -> option N) (R : list credential) : Prop :=
    forall c d, stake c = Some d ->
      (cmem c R = true /\ d = key) \/ (cmem c R = false /\ ls_stake ls c = Some d).
  Definition drep_inv (drep : credential -> option N) (M : list (credential * N)) : Prop :=
    forall c d, drep c = Some d ->
      alookup c M = Some d \/ (alookup c M = None /\ ls_drep ls c = Some d).

  Lemma stake_inv_reg stake R c : stake_inv stake R -> stake_inv (upd stake c (Some key)) (c :: R).
  Proof.
    intros I c' d H. unfold upd in H. cbn [cmem existsb]. destruct (cred_eqb c' c) eqn:E.
    - inversion H. left. split; reflexivity.
    - cbn [orb]. apply I, H.
  Qed.

  Lemma stake_inv_unreg_mem stake R c : stake_inv stake R -> stake_inv (upd stake c None) (cremove c R).
  Proof.
    intros I c' d H. unfold upd in H. rewrite cmem_cremove. destruct (cred_eqb c' c) eqn:E; [discriminate |].
    apply I, H.
  Qed.

  Lemma stake_inv_unreg stake R c : stake_inv stake R -> stake_inv (upd stake c None) R.
  Proof.
    intros I c' d H. unfold upd in H. destruct (cred_eqb c' c) eqn:E; [discriminate |]. apply I, H.
  Qed.

  Lemma drep_inv_reg drep M c d : drep_inv drep M -> drep_inv (upd drep c (Some d)) ((c, d) :: M).
  Proof.
    intros I c' d' H. unfold upd in H. rewrite alookup_cons. destruct (cred_eqb c' c) eqn:E.
    - inversion H. left. reflexivity.
    - apply I, H.
  Qed.

  Lemma drep_inv_unreg_mem drep M c : drep_inv drep M -> drep_inv (upd drep c None) (aremove c M).
  Proof.
    intros I c' d H. unfold upd in H. rewrite alookup_aremove. destruct (cred_eqb c' c) eqn:E; [discriminate |].
    apply I, H.
  Qed.

  Lemma drep_inv_unreg drep M c : drep_inv drep M -> drep_inv (upd drep c None) M.
  Proof.
    intros I c' d H. unfold upd in H. destruct (cred_eqb c' c) eqn:E; [discriminate |]. apply I, H.
  Qed.

  Lemma legacy_tail x r : legacy_at_key_deposit pp ls (x :: r) -> legacy_at_key_deposit pp ls r.
  Proof. intros L y Iy. apply L. right. exact Iy. Qed.

  Lemma refunds_gen cs : forall stake drep R M,
    certs_valid pp stake drep cs = true ->
    stake_inv stake R -> drep_inv drep M ->
    legacy_at_key_deposit pp ls cs ->
    stake_refunds key (ls_stake ls) R cs + drep_refunds (ls_drep ls) M cs
    = spec_cert_refunds key (map ic_cert cs).
  Proof.
    unfold spec_cert_refunds.
    induction cs as [| [c s i] r IH]; intros stake drep R M V IS ID L; [reflexivity |].
    cbn [map sumN fold_right]. fold (sumN (map (ledger_refund key) (map ic_cert r))).
    pose proof (legacy_tail _ _ L) as Lr.
    assert (L1 : cddl_tag c = 1 -> forall d, ls_stake ls (s, i_cred i) = Some d -> d = key).
    { intros T. apply (L (mk_icert c s i)); [left; reflexivity | exact T]. }
    clear L.
    cbn [certs_valid ic_cert] in V.
    set (cr := cred_of (mk_icert c s i)) in *.
    destruct c as [[d|]|[d|]| | | | | | | | d | d | | | d | d | | d];
      cbn [stake_refunds drep_refunds is_reg_stake is_unreg_stake ic_cert cddl_tag ledger_refund cert_coin] in *;
      fold cr.
    all: repeat match goal with
         | H : _ && _ = true |- _ => apply andb_true_iff in H; destruct H
         | H : (_ =? _) = true |- _ => apply N.eqb_eq in H
         end.
    (* neutral kinds and registrations: nothing refunded, the sets grow *)
    all: try (rewrite <- (IH _ _ _ _ ltac:(eassumption) IS ID Lr); lia).
    all: try (subst; rewrite <- (IH _ _ _ _ ltac:(eassumption) (stake_inv_reg _ _ cr IS) ID Lr); lia).
    - (* unreg_cert: the explicit refund is the recorded deposit *)
      destruct (stake cr) as [d0 |] eqn:Es; [| discriminate].
      apply andb_true_iff in V. destruct V as [Ey V]. apply N.eqb_eq in Ey. subst d.
      destruct (IS _ _ Es) as [[Mem ->] | [Mem Look]]; rewrite Mem.
      + rewrite <- N.add_assoc, (IH _ _ _ _ V (stake_inv_unreg_mem _ _ cr IS) ID Lr). reflexivity.
      + rewrite Look. rewrite <- N.add_assoc, (IH _ _ _ _ V (stake_inv_unreg _ _ cr IS) ID Lr). reflexivity.
    - (* legacy deregistration: the recorded deposit is key_deposit *)
      destruct (stake cr) as [d0 |] eqn:Es; [| discriminate].
      destruct (IS _ _ Es) as [[Mem ->] | [Mem Look]]; rewrite Mem.
      + rewrite <- N.add_assoc, (IH _ _ _ _ V (stake_inv_unreg_mem _ _ cr IS) ID Lr). reflexivity.
      + rewrite Look. rewrite (L1 eq_refl d0 Look).
        rewrite <- N.add_assoc, (IH _ _ _ _ V (stake_inv_unreg _ _ cr IS) ID Lr). reflexivity.
    - (* DRep deregistration *)
      destruct (drep cr) as [d0 |] eqn:Ed; [| discriminate].
      apply andb_true_iff in V. destruct V as [Ey V]. apply N.eqb_eq in Ey. subst d.
      destruct (ID _ _ Ed) as [Look | [Look Look0]]; rewrite Look.
      + rewrite (N.add_comm d0), N.add_assoc, (IH _ _ _ _ V IS (drep_inv_unreg_mem _ _ cr ID) Lr). lia.
      + rewrite Look0. rewrite (N.add_comm d0), N.add_assoc, (IH _ _ _ _ V IS (drep_inv_unreg _ _ cr ID) Lr). lia.
    - (* DRep registration *)
      subst. rewrite <- (IH _ _ _ _ ltac:(eassumption) IS (drep_inv_reg _ _ cr _ ID) Lr). lia.
  Qed.

  Lemma stake_inv_init : stake_inv (ls_stake ls) [].
  Proof. intros c d H. right. split; [reflexivity | exact H]. Qed.
  Lemma drep_inv_init : drep_inv (ls_drep ls) [].
  Proof. intros c d H. right. split; [reflexivity | exact H]. Qed.

  (* the main statement: for a certificate sequence that passes the ledger's deposit checks in the
     state [ls], whose pool registrations are first registrations, and whose legacy deregistrations
     concern credentials registered at key_deposit, the ledger's stateful totals are the sums of the
     per-certificate table the helpers and the builder implement *)
  Theorem state_rule_agrees cs :
    certs_valid pp (ls_stake ls) (ls_drep ls) cs = true ->
    pools_fresh (ls_pool ls) [] cs = true ->
    legacy_at_key_deposit pp ls cs ->
    state_total_deposits_certs pp ls cs = spec_cert_deposits pool key (map ic_cert cs) /\
    state_total_refunds_certs pp ls cs = spec_cert_refunds key (map ic_cert cs).
  Proof.
    intros V F L. split.
    - apply (deposits_gen cs _ _ [] V F).
    - apply (refunds_gen cs _ _ [] [] V stake_inv_init drep_inv_init L).
  Qed.
End Agreement.

(* the helpers and the builder report the ledger's stateful figures (or an error when they do not fit) *)
Theorem helpers_equal_state_rule pp ls (cs : list icert) (ws ps : option (list N)) (ins outs : list N) (don : option N) :
  certs_valid pp (ls_stake ls) (ls_drep ls) cs = true ->
  pools_fresh (ls_pool ls) [] cs = true ->
  legacy_at_key_deposit pp ls cs ->
  let b := mk_body (Some (map ic_cert cs)) ws ps in
  let t := builder_of_body b ins outs don (pp_pool_deposit pp) (pp_key_deposit pp) in
  let dep := exact_or_error (state_total_deposits_certs pp ls cs + sumN (opt_list ps)) in
  let imp := exact_or_error (sumN (opt_list ws) + state_total_refunds_certs pp ls cs) in
  get_deposit b (pp_pool_deposit pp) (pp_key_deposit pp) = dep /\ tb_get_deposit t = dep /\
  get_implicit_input b (pp_pool_deposit pp) (pp_key_deposit pp) = imp /\ tb_get_implicit_input t = imp.
Proof.
  intros V F L b t dep imp. destruct (state_rule_agrees pp ls cs V F L) as [D R].
  subst dep imp. rewrite D, R.
  destruct (repaired_helpers_exact b (pp_pool_deposit pp) (pp_key_deposit pp)) as [H1 H2].
  unfold get_deposit, get_implicit_input. change helper_ignores_proposals with false. change helper_refunds_pool_retirement with false.
  rewrite H1, H2. subst t. rewrite tb_deposit_exact, tb_implicit_exact, txb_body_of_body.
  cbn [builder_of_body t_pool_deposit t_key_deposit].
  unfold spec_deposit, spec_implicit_input, b. cbn [b_certs b_withdrawals b_proposals opt_list]. repeat split.
Qed.

(* ---------- each premise is needed: closed counterexamples ---------- *)
Definition ex_pp : pparams := mk_pp 2000000 500000000 500000000.
Definition ex_ls_empty : lstate := mk_ls (fun _ => None) (fun _ => None) (fun _ => false).
Definition reg_pool (op var : N) : icert := mk_icert PoolRegistration false (mk_ident 0 op var).

(* the same NEW operator registered twice in one transaction: the ledger charges one pool deposit,
   helpers and builder charge two ("counted as first registrations") *)
Lemma same_pool_twice_differs :
  state_total_deposits_certs ex_pp ex_ls_empty [reg_pool 7 1; reg_pool 7 2] = 500000000 /\
  spec_cert_deposits 500000000 2000000 (map ic_cert [reg_pool 7 1; reg_pool 7 2]) = 1000000000 /\
  pools_fresh (ls_pool ex_ls_empty) [] [reg_pool 7 1; reg_pool 7 2] = false.
Proof. repeat split; reflexivity. Qed.

(* re-registration of a registered pool: the ledger charges nothing *)
Lemma reregistration_differs :
  let ls := mk_ls (fun _ => None) (fun _ => None) (fun op => op =? 7) in
  state_total_deposits_certs ex_pp ls [reg_pool 7 1] = 0 /\
  spec_cert_deposits 500000000 2000000 (map ic_cert [reg_pool 7 1]) = 500000000 /\
  pools_fresh (ls_pool ls) [] [reg_pool 7 1] = false.
Proof. repeat split; reflexivity. Qed.

(* a legacy deregistration of a credential registered when key_deposit was 1 ADA: the ledger refunds 1 ADA *)
Lemma legacy_old_deposit_differs :
  let ls := mk_ls (fun c => if cred_eqb c (false, 5) then Some 1000000 else None) (fun _ => None) (fun _ => false) in
  let cs := [mk_icert (StakeDeregistration None) false (mk_ident 5 0 0)] in
  certs_valid ex_pp (ls_stake ls) (ls_drep ls) cs = true /\
  state_total_refunds_certs ex_pp ls cs = 1000000 /\
  spec_cert_refunds 2000000 (map ic_cert cs) = 2000000.
Proof. repeat split; reflexivity. Qed.

(* the premises are satisfiable on a sequence that exercises every stateful branch: register and
   deregister the same credential in one transaction (kinds 0 / 8 and 11 / 1), deregister credentials of
   the state (kinds 1, 8), DRep register / update / deregister, deregister a DRep of the state, two pools *)
Definition ex_ls : lstate :=
  mk_ls (fun c => if cred_eqb c (false, 1) then Some 2000000 else if cred_eqb c (true, 2) then Some 2000000 else None)
        (fun c => if cred_eqb c (false, 9) then Some 400000000 else None)
        (fun op => op =? 99).
Definition ex_certs : list icert :=
  [ mk_icert (StakeRegistration None) false (mk_ident 3 0 0);
    mk_icert (StakeDeregistration (Some 2000000)) false (mk_ident 3 0 0);
    mk_icert (StakeRegistrationAndDelegation 2000000) false (mk_ident 4 7 0);
    mk_icert (StakeDeregistration None) false (mk_ident 4 0 0);
    mk_icert (StakeDeregistration None) false (mk_ident 1 0 0);
    mk_icert (StakeDeregistration (Some 2000000)) true (mk_ident 2 0 0);
    mk_icert (StakeRegistration (Some 2000000)) true (mk_ident 2 0 0);
    mk_icert (DRepRegistration 500000000) false (mk_ident 8 0 4);
    mk_icert DRepUpdate false (mk_ident 8 0 6);
    mk_icert (DRepDeregistration 500000000) false (mk_ident 8 0 0);
    mk_icert (DRepDeregistration 400000000) false (mk_ident 9 0 0);
    reg_pool 7 1; reg_pool 8 1;
    mk_icert PoolRetirement false (mk_ident 0 99 3);
    mk_icert (VoteRegistrationAndDelegation 2000000) false (mk_ident 5 0 2);
    mk_icert (StakeVoteRegistrationAndDelegation 2000000) true (mk_ident 6 7 3) ].

Lemma state_rule_premises_satisfiable :
  certs_valid ex_pp (ls_stake ex_ls) (ls_drep ex_ls) ex_certs = true /\
  pools_fresh (ls_pool ex_ls) [] ex_certs = true /\
  legacy_at_key_deposit ex_pp ex_ls ex_certs /\
  state_total_deposits_certs ex_pp ex_ls ex_certs = 1510000000 /\
  state_total_refunds_certs ex_pp ex_ls ex_certs = 908000000.
Proof.
  split; [reflexivity |]. split; [reflexivity |]. split; [| split; reflexivity].
  intros x I T d H. unfold ex_certs in I. cbn [In] in I.
  repeat (destruct I as [<- | I]; [try discriminate T; cbn in H; inversion H; reflexivity |]). destruct I.
Qed.
