(* C20 — items with identities: which fields two certificates / withdrawals / proposals share.
   Deposits.v models the deposit tables over certificates that carry only what the tables look at;
   a real body / builder holds its items in SET and MAP types that merge items which are equal as
   Rust values and keep apart items that differ in ANY field:
     rust/src/protocol_types/certificates/certificates_collection.rs:46-62  Certificates::add / add_move / from_vec
                                                      (HashSet dedup: a second equal certificate is dropped)
     rust/src/builders/certificates_builder.rs:16-30,32-78  CertificatesBuilder::add / add_with_* ("Certificate already exists")
     rust/src/lib.rs:815-837                          Withdrawals::insert (LinkedHashMap: same reward address = replaced amount)
     rust/src/builders/withdrawals_builder.rs:18-78   WithdrawalsBuilder::add / add_with_* (LinkedHashMap::insert: replacement)
     rust/src/protocol_types/governance/proposals/voting_proposals.rs:62-70,87-96  VotingProposals::add / from_vec (HashSet dedup)
     rust/src/builders/voting_proposal_builder.rs:18-36  VotingProposalBuilder::add / add_with_plutus_witness (BTreeMap::insert)
   This file adds the identities (credential, pool operator, "everything else"), the merge semantics,
   and lifts case / observation / judge of Deposits.v to identified items.  The deposit code never
   looks at an identity: two registrations of the SAME pool operator that differ in another
   parameter are two certificates and are charged twice; two certificates that are equal in every
   field are one.  No proofs in this file (proofs: Deposits/IdentProofs.v). *)
From CSL Require Import Base.Prelude Base.U64 Deposits.Deposits.
Local Open Scope N_scope.

(* ---------------------------------------------------------------------------------------------
   Identities.  [i_cred] names the stake / DRep / committee-cold credential (together with the
   key-or-script flag), [i_pool] the pool operator, [i_var] every other field of the certificate
   (pool parameters other than operator and reward account, retirement epoch, DRep choice, anchor,
   MIR amounts, genesis hashes, committee hot credential). *)
Record ident : Type := mk_ident { i_cred : N; i_pool : N; i_var : N }.
Record icert : Type := mk_icert { ic_cert : cert; ic_script : bool; ic_id : ident }.

(* which identities a certificate of a CDDL kind carries (= which arguments the constructor of the
   kind takes; harness/src/bin/c20.rs mk_cert builds the value from exactly these):
     credential: all kinds except pool retirement (4), genesis delegation (5) and a MIR to the other pot (6, odd var)
                 (for pool registration (3) it is the credential of the pool's reward account)
     operator:   stake delegation (2), pool registration (3), pool retirement (4), 10, 11, 13
     rest:       3 (vrf key, pledge, owners), 4 (epoch), 5, 6, DRep choice of 9 / 10 / 12 / 13, hot credential of 14,
                 anchor of 15 / 16 / 18 *)
Definition uses_cred (tag var : N) : bool :=
  match tag with 4 | 5 => false | 6 => N.even var | _ => true end.
Definition uses_pool (tag : N) : bool :=
  match tag with 2 | 3 | 4 | 10 | 11 | 13 => true | _ => false end.
Definition uses_var (tag : N) : bool :=
  match tag with 3 | 4 | 5 | 6 | 9 | 10 | 12 | 13 | 14 | 15 | 16 | 18 => true | _ => false end.

(* the certificate as a Rust value, up to renaming: two identified certificates denote equal
   Certificate values iff their keys are equal *)
Record ckey : Type := mk_ckey { ck_tag : N; ck_coin : option N; ck_script : bool; ck_cred : N; ck_pool : N; ck_var : N }.

Definition cert_key (x : icert) : ckey :=
  let t := cddl_tag (ic_cert x) in
  let i := ic_id x in
  let uc := uses_cred t (i_var i) in
  mk_ckey t (cert_coin (ic_cert x)) (uc && ic_script x) (if uc then i_cred i else 0)
          (if uses_pool t then i_pool i else 0) (if uses_var t then i_var i else 0).

Definition optN_eqb (a b : option N) : bool :=
  match a, b with Some x, Some y => x =? y | None, None => true | _, _ => false end.

Definition ckey_eqb (a b : ckey) : bool :=
  (ck_tag a =? ck_tag b) && optN_eqb (ck_coin a) (ck_coin b) && Bool.eqb (ck_script a) (ck_script b)
  && (ck_cred a =? ck_cred b) && (ck_pool a =? ck_pool b) && (ck_var a =? ck_var b).

(* a withdrawal: reward account = network id + credential (key-or-script flag + hash id), and amount; the whole
   account is the map key: the same credential on two networks is two accounts *)
Record iwd : Type := mk_iwd { w_script : bool; w_acct : N; w_net : N; w_coin : N }.
Definition wd_key (w : iwd) : bool * N * N := (w_script w, w_acct w, w_net w).
Definition wkey_eqb (a b : bool * N * N) : bool :=
  Bool.eqb (fst (fst a)) (fst (fst b)) && (snd (fst a) =? snd (fst b)) && (snd a =? snd b).

(* a proposal: governance action + anchor ([p_act]), return address ([p_ret]), deposit: all of it is the set key *)
Record iprop : Type := mk_iprop { p_act : N; p_ret : N; p_deposit : N }.
Definition prop_key (p : iprop) : N * N * N := (p_act p, p_ret p, p_deposit p).
Definition pkey_eqb (a b : N * N * N) : bool :=
  (fst (fst a) =? fst (fst b)) && (snd (fst a) =? snd (fst b)) && (snd a =? snd b).

(* ---------------------------------------------------------------------------------------------
   The collections.  State = the items in insertion order. *)
Section Collections.
  Context {A K : Type} (key : A -> K) (keqb : K -> K -> bool).

  Definition key_mem (x : A) (st : list A) : bool := existsb (fun y => keqb (key x) (key y)) st.

  (* Certificates::add / VotingProposals::add (returns false and keeps the set), CertificatesBuilder::add
     (returns Err and keeps the map), BTreeMap::insert with a unit-like value *)
  Definition set_add (st : list A) (x : A) : list A := if key_mem x st then st else st ++ [x].
  Definition set_add_all (l : list A) : list A := fold_left set_add l [].

  (* hashlink LinkedHashMap::insert: an existing key is replaced and moved to the back *)
  Definition map_insert (st : list A) (x : A) : list A :=
    filter (fun y => negb (keqb (key x) (key y))) st ++ [x].
  Definition map_insert_all (l : list A) : list A := fold_left map_insert l [].
End Collections.

Definition eff_certs (l : list icert) : list icert := set_add_all cert_key ckey_eqb l.
Definition eff_wdrl (l : list iwd) : list iwd := map_insert_all wd_key wkey_eqb l.
Definition eff_props (l : list iprop) : list iprop := set_add_all prop_key pkey_eqb l.

(* ---------------------------------------------------------------------------------------------
   Case with identities, and the case of Deposits.v it denotes: what the body / the builders hold
   after every item was added in order. *)
Record icase : Type := mk_icase {
  ik_pool_deposit : N;
  ik_key_deposit : N;
  ik_certs : option (list icert);
  ik_withdrawals : option (list iwd);
  ik_proposals : option (list iprop);
  ik_inputs : list N;
  ik_outputs : list N;
  ik_donation : option N
}.

Definition plain_cert (x : icert) : cert * bool := (ic_cert x, ic_script x).
Definition plain_wd (w : iwd) : bool * N := (w_script w, w_coin w).

Definition effective (ik : icase) : case :=
  mk_case (ik_pool_deposit ik) (ik_key_deposit ik)
          (option_map (fun l => map plain_cert (eff_certs l)) (ik_certs ik))
          (option_map (fun l => map plain_wd (eff_wdrl l)) (ik_withdrawals ik))
          (option_map (fun l => map p_deposit (eff_props l)) (ik_proposals ik))
          (ik_inputs ik) (ik_outputs ik) (ik_donation ik).

(* the observation of Deposits.v plus the sizes of the six collections (0 for an absent one):
   Certificates / CertificatesBuilder::build, Withdrawals / WithdrawalsBuilder::build,
   VotingProposals / VotingProposalBuilder::build *)
Record iobs : Type := mk_iobs {
  io_base : obs;
  io_n_certs : N; io_n_cb : N;
  io_n_wdrl : N; io_n_wb : N;
  io_n_props : N; io_n_pb : N
}.

Definition olen {A} (o : option (list A)) : N := N.of_nat (length (opt_list o)).

Definition imodel_obs (ik : icase) : iobs :=
  let k := effective ik in
  mk_iobs (model_obs k)
          (olen (k_certs k)) (olen (k_certs k))
          (olen (k_withdrawals k)) (olen (k_withdrawals k))
          (olen (k_proposals k)) (olen (k_proposals k)).

(* the judge: the collections hold exactly the merged items, and the property (judge of Deposits.v)
   holds of the figures for the merged items *)
Definition sizes_ok (ik : icase) (o : iobs) : bool :=
  let k := effective ik in
  (io_n_certs o =? olen (k_certs k)) && (io_n_cb o =? olen (k_certs k))
  && (io_n_wdrl o =? olen (k_withdrawals k)) && (io_n_wb o =? olen (k_withdrawals k))
  && (io_n_props o =? olen (k_proposals k)) && (io_n_pb o =? olen (k_proposals k)).

Definition ijudge (ik : icase) (o : iobs) : verdict :=
  if sizes_ok ik o then judge (effective ik) (io_base o) else FailsUnknown.

(* the plain case read as an identified one: item number i gets identity (i, i, i), so that all
   items are pairwise different in every identity (the case lines of the first generation) *)
Fixpoint number_from {A B} (f : N -> A -> B) (i : N) (l : list A) : list B :=
  match l with [] => [] | x :: r => f i x :: number_from f (N.succ i) r end.

Definition positional (k : case) : icase :=
  mk_icase (k_pool_deposit k) (k_key_deposit k)
           (option_map (number_from (fun i cs => mk_icert (fst cs) (snd cs) (mk_ident i i i)) 0) (k_certs k))
           (option_map (number_from (fun i sw => mk_iwd (fst sw) i (N.modulo i 2) (snd sw)) 0) (k_withdrawals k))
           (option_map (number_from (fun i d => mk_iprop i i d) 0) (k_proposals k))
           (k_inputs k) (k_outputs k) (k_donation k).
