(* C20 <-> C05 — the two models of the TransactionBuilder totals cannot drift apart.
   Deposits.v (C20) models get_total_input / get_total_output over lovelace only (type [txb]);
   Builder/Totals.v (C05) models them over multi-asset values with mint and burn (type [state]).
   This file maps a C05 state to the C20 builder ([txb_of_state]: every value restricted to its
   lovelace) and proves
     * deposit and implicit input: the C05 functions ARE the C20 functions (all states);
     * totals, ADA-only states (no multi-asset, no mint): the C05 totals ARE the C20 totals;
     * totals, every well-formed state (multi-asset, mint, burn): whenever the C05 total is a value,
       its lovelace is the C20 total; whenever the C20 total overflows, the C05 total is no value. *)
From CSL Require Import Base.Prelude Base.U64 Num.Value Num.ValueProofs Deposits.Deposits Deposits.DepositsProofs
  Builder.Totals Builder.TotalsProofs.
Local Open Scope N_scope.

Definition txb_of_state (s : state) : txb :=
  mk_txb (map (fun e : N * value => coin (snd e)) (s_inputs s))
         (map (fun o => coin (o_amount o)) (s_outputs s))
         (s_certs s)
         (option_map (map snd) (s_withdrawals s))
         (s_proposals s)
         (s_donation s)
         (c_pool_deposit (s_cfg s)) (c_key_deposit (s_cfg s)).

(* a lovelace figure as a Value *)
Definition lift (r : result N) : result value := let* n := r in Ok (value_new n).

Lemma vadd_new a b : value_checked_add (value_new a) (value_new b) = lift (checked_add a b).
Proof.
  unfold value_checked_add, lift, u64_add, checked_add. cbn [coin value_new multiasset_of].
  destruct (a + b <? two64); reflexivity.
Qed.

(* ---------- deposit and implicit input: identical on every state ---------- *)
Theorem bridge_deposit s : Totals.get_deposit s = tb_get_deposit (txb_of_state s).
Proof. reflexivity. Qed.

Theorem bridge_implicit_input s : Totals.get_implicit_input s = lift (tb_get_implicit_input (txb_of_state s)).
Proof.
  unfold Totals.get_implicit_input, tb_get_implicit_input, txb_of_state, lift.
  cbn [t_withdrawals t_certs t_pool_deposit t_key_deposit].
  destruct (s_withdrawals s) as [w |]; cbn [option_map].
  - destruct (get_total_withdrawals (map snd w)) as [tw | | |]; cbn [bind]; try reflexivity.
    change value_zero with (value_new 0). rewrite vadd_new. unfold lift.
    destruct (checked_add 0 tw) as [a | | |]; cbn [bind]; try reflexivity.
    destruct (s_certs s) as [cs |]; [| reflexivity].
    destruct (get_certificates_refund cs _ _) as [r | | |]; cbn [bind]; try reflexivity; rewrite vadd_new; reflexivity.
  - cbn [bind]. destruct (s_certs s) as [cs |]; [| reflexivity].
    destruct (get_certificates_refund cs _ _) as [r | | |]; cbn [bind]; try reflexivity;
      change value_zero with (value_new 0); rewrite vadd_new; reflexivity.
Qed.

(* ---------- ADA-only states: the totals are identical ---------- *)
Definition no_assets (v : value) : bool := match multiasset_of v with None => true | Some _ => false end.
Definition ada_only (s : state) : bool :=
  forallb (fun e : N * value => no_assets (snd e)) (s_inputs s)
  && forallb (fun o => no_assets (o_amount o)) (s_outputs s)
  && match s_mint s with None => true | Some _ => false end.

Lemma no_assets_new v : no_assets v = true -> v = value_new (coin v).
Proof. destruct v as [c [m |]]; unfold no_assets; cbn; [discriminate | reflexivity]. Qed.

Lemma value_sum_new l : forall acc, value_sum (value_new acc) (map value_new l) = lift (try_fold checked_add acc l).
Proof.
  induction l as [| x r IH]; intros acc; cbn [map value_sum try_fold]; [reflexivity |].
  rewrite vadd_new. unfold lift at 1. destruct (checked_add acc x) as [a | | |]; cbn [bind]; try reflexivity. apply IH.
Qed.

Lemma map_new_coin {A} (f : A -> value) l :
  forallb (fun x => no_assets (f x)) l = true -> map f l = map value_new (map (fun x => coin (f x)) l).
Proof.
  induction l as [| x r IH]; cbn [forallb map]; [reflexivity |]. intros H. apply andb_true_iff in H. destruct H as [H1 H2].
  rewrite <- (no_assets_new _ H1), <- (IH H2). reflexivity.
Qed.

Theorem bridge_total_input_ada s : ada_only s = true ->
  Totals.get_total_input s = lift (tb_get_total_input (txb_of_state s)).
Proof.
  unfold ada_only. intros H. apply andb_true_iff in H. destruct H as [H Hm]. apply andb_true_iff in H. destruct H as [Hi Ho].
  unfold Totals.get_total_input, tb_get_total_input. rewrite bridge_implicit_input.
  unfold Totals.get_explicit_input, tb_get_explicit_input, get_mint_as_values.
  destruct (s_mint s); [discriminate |]. cbn [fst].
  rewrite <- (map_map snd (fun v => v)), map_id, (map_new_coin snd _ Hi).
  change value_zero with (value_new 0). rewrite value_sum_new.
  change (t_inputs (txb_of_state s)) with (map (fun e : N * value => coin (snd e)) (s_inputs s)).
  unfold lift.
  destruct (try_fold checked_add 0 _) as [e | | |]; cbn [bind]; try reflexivity.
  destruct (tb_get_implicit_input (txb_of_state s)) as [i | | |]; cbn [bind]; try reflexivity.
  rewrite vadd_new. unfold lift. destruct (checked_add e i) as [x | | |]; cbn [bind]; try reflexivity.
  all: try (rewrite vadd_new; reflexivity).
Qed.

Theorem bridge_total_output_ada s : ada_only s = true ->
  Totals.get_total_output s = lift (tb_get_total_output (txb_of_state s)).
Proof.
  unfold ada_only. intros H. apply andb_true_iff in H. destruct H as [H Hm]. apply andb_true_iff in H. destruct H as [Hi Ho].
  unfold Totals.get_total_output, tb_get_total_output. rewrite bridge_deposit.
  unfold Totals.get_explicit_output, tb_get_explicit_output, get_mint_as_values.
  destruct (s_mint s); [discriminate |]. cbn [snd].
  rewrite (map_new_coin o_amount _ Ho), value_sum_new.
  change (t_outputs (txb_of_state s)) with (map (fun o => coin (o_amount o)) (s_outputs s)).
  change (t_donation (txb_of_state s)) with (s_donation s).
  unfold lift.
  destruct (try_fold checked_add 0 _) as [e | | |]; cbn [bind]; try reflexivity.
  destruct (tb_get_deposit (txb_of_state s)) as [d | | |]; cbn [bind]; try reflexivity.
  rewrite vadd_new. unfold lift. destruct (checked_add e d) as [x | | |]; cbn [bind]; try reflexivity.
  change value_zero with (value_new 0). rewrite vadd_new. unfold lift.
  destruct (checked_add x 0) as [y | | |]; cbn [bind]; try reflexivity.
  all: try (destruct (s_donation s) as [dn |]; [| reflexivity]; try reflexivity; rewrite vadd_new; reflexivity).
Qed.

(* ---------- every well-formed state (multi-asset values, mint, burn): lovelace of the C05 total ---------- *)
Lemma opt_list_map_snd (w : option (list (N * N))) : opt_list (option_map (map snd) w) = map snd (opt_list w).
Proof. destruct w; reflexivity. Qed.

Lemma c20_total_input_is_consumed_coin s :
  tb_get_total_input (txb_of_state s) = exact_or_error (consumed_coin s).
Proof.
  rewrite tb_total_input_exact. f_equal. unfold consumed_coin, spec_implicit_input, txb_body, txb_of_state, sum_coin.
  cbn [t_inputs t_certs t_withdrawals t_proposals t_key_deposit Deposits.b_certs Deposits.b_withdrawals].
  rewrite opt_list_map_snd, map_map. lia.
Qed.

Lemma c20_total_output_is_produced_coin s :
  tb_get_total_output (txb_of_state s) = exact_or_error (produced_coin_no_fee s).
Proof.
  rewrite tb_total_output_exact. f_equal. unfold produced_coin_no_fee, spec_deposit, txb_body, txb_of_state, sum_coin, opt_n.
  cbn [t_outputs t_certs t_withdrawals t_proposals t_key_deposit t_pool_deposit t_donation Deposits.b_certs Deposits.b_proposals].
  rewrite map_map. destruct (s_donation s); lia.
Qed.

Theorem bridge_total_input s ti : state_wf s -> Totals.get_total_input s = Ok ti ->
  tb_get_total_input (txb_of_state s) = Ok (coin ti).
Proof.
  intros W H. destruct (total_input_spec s ti W H) as [Wt [C _]].
  rewrite c20_total_input_is_consumed_coin, <- C. apply exact_or_error_ok. apply value_wf_coin, Wt.
Qed.

Theorem bridge_total_output s to : state_wf s -> Totals.get_total_output s = Ok to ->
  tb_get_total_output (txb_of_state s) = Ok (coin to).
Proof.
  intros W H. destruct (total_output_spec s to W H) as [Wt [C _]].
  rewrite c20_total_output_is_produced_coin, <- C. apply exact_or_error_ok. apply value_wf_coin, Wt.
Qed.

(* a lovelace overflow of the C20 total is never a value of the C05 total *)
Theorem bridge_overflow s : state_wf s ->
  (tb_get_total_input (txb_of_state s) = Err -> forall ti, Totals.get_total_input s <> Ok ti) /\
  (tb_get_total_output (txb_of_state s) = Err -> forall to, Totals.get_total_output s <> Ok to).
Proof.
  intros W. split; intros E v H.
  - rewrite (bridge_total_input s v W H) in E. discriminate.
  - rewrite (bridge_total_output s v W H) in E. discriminate.
Qed.

(* non-vacuity: a multi-asset state with a mint whose C05 totals are values *)
Definition ex_state : state :=
  mkState (mkConfig 500000000 2000000 false false)
          [(1, mkValue 10000000 (Some [([1], [([97], 5)])])); (2, value_new 3000000)]
          [mkOutput 1 (mkValue 2000000 (Some [([1], [([97], 12)])])) 0]
          FeeUnspecified None
          (Some [StakeDeregistration None; DRepRegistration 500000000]) (Some [(7, 1000); (8, 2000)])
          (Some [([1], [([97], 7%Z)])]) (Some [100000]) (Some 5) None.

Example bridge_premises_satisfiable :
  state_wf ex_state /\ ada_only ex_state = false /\
  (exists ti, Totals.get_total_input ex_state = Ok ti /\ coin ti = 15003000) /\
  (exists to, Totals.get_total_output ex_state = Ok to /\ coin to = 502100005) /\
  tb_get_total_input (txb_of_state ex_state) = Ok 15003000 /\
  tb_get_total_output (txb_of_state ex_state) = Ok 502100005.
Proof.
  split; [reflexivity |]. split; [reflexivity |].
  split; [eexists; split; [vm_compute; reflexivity | reflexivity] |].
  split; [eexists; split; [vm_compute; reflexivity | reflexivity] |].
  split; reflexivity.
Qed.
