(* C20 — the ledger's deposit / refund accounting with its STATE, as a specification.
   Deposits.v states the ledger's table per certificate (ledger_deposit / ledger_refund) under two
   conventions written in prose: "pool registrations are counted as first registrations" and "a
   legacy deregistration refunds the key_deposit parameter".  The Conway ledger computes the two
   figures from the certificate sequence AND the ledger state (which pools and credentials are
   registered, with which deposit).  This file transcribes those functions and the deposit-related
   checks of the certificate rules, so that the conventions become quantified premises of a theorem
   (LedgerStateProofs.v) instead of prose.  Transcribed from cardano-ledger (trusted, like
   ledger_deposit / ledger_refund):
     Shelley/TxCert.hs   shelleyTotalDepositsTxCerts   numKeys * keyDeposit + numNewRegPoolCerts * poolDeposit,
                                                       numNewRegPoolCerts = size of the set of operators registered by the
                                                       transaction that are neither registered already nor seen earlier in it
                         shelleyTotalRefundsTxCerts    fold with the set of credentials registered earlier in the transaction:
                                                       deregistration of one of them refunds keyDeposit, otherwise the deposit
                                                       the state recorded for the credential (lookupDeposit), otherwise nothing
     Conway/TxCert.hs    conwayTotalDepositsTxCerts    = shelley + (number of DRep registrations) * dRepDeposit
                         conwayDRepRefundsTxCerts      fold with the map of DReps registered earlier in the transaction
                         conwayTotalRefundsTxCerts     = shelley refunds + DRep refunds
     Conway/Rules/Deleg.hs, GovCert.hs                 IncorrectDepositDELEG (explicit deposit <> keyDeposit), StakeKeyRegisteredDELEG,
                                                       StakeKeyNotRegisteredDELEG, RefundIncorrectDELEG (explicit refund <> recorded deposit),
                                                       ConwayDRepIncorrectDeposit, ConwayDRepAlreadyRegistered, ConwayDRepNotRegistered,
                                                       ConwayDRepIncorrectRefund
   Certificates are the identified ones of Ident.v: credential = (script flag, i_cred), operator = i_pool.
   No proofs in this file. *)
From CSL Require Import Base.Prelude Base.U64 Deposits.Deposits Deposits.Ident.
Local Open Scope N_scope.

Definition credential : Type := bool * N.
Definition cred_of (x : icert) : credential := (ic_script x, i_cred (ic_id x)).
Definition pool_of (x : icert) : N := i_pool (ic_id x).
Definition cred_eqb (a b : credential) : bool := Bool.eqb (fst a) (fst b) && (snd a =? snd b).

Record pparams : Type := mk_pp { pp_key_deposit : N; pp_pool_deposit : N; pp_drep_deposit : N }.

(* the part of the ledger state the accounting reads *)
Record lstate : Type := mk_ls {
  ls_stake : credential -> option N;   (* deposit recorded for a registered stake credential *)
  ls_drep : credential -> option N;    (* deposit recorded for a registered DRep *)
  ls_pool : N -> bool                  (* the operator is a registered pool *)
}.

(* lookupRegStakeTxCert / lookupUnRegStakeTxCert / RegPoolTxCert / RegDRepTxCert / UnRegDRepTxCert *)
Definition is_reg_stake (x : icert) : bool :=
  match cddl_tag (ic_cert x) with 0 | 7 | 11 | 12 | 13 => true | _ => false end.
Definition is_unreg_stake (x : icert) : bool :=
  match cddl_tag (ic_cert x) with 1 | 8 => true | _ => false end.
Definition is_reg_pool (x : icert) : bool := match cddl_tag (ic_cert x) with 3 => true | _ => false end.
Definition is_reg_drep (x : icert) : bool := match cddl_tag (ic_cert x) with 16 => true | _ => false end.
Definition is_unreg_drep (x : icert) : bool := match cddl_tag (ic_cert x) with 17 => true | _ => false end.

Fixpoint count {A} (f : A -> bool) (l : list A) : N :=
  match l with [] => 0 | x :: r => (if f x then 1 else 0) + count f r end.

(* ---------- deposits ---------- *)
Definition pool_is_new (is_reg : N -> bool) (seen : list N) (x : icert) : bool :=
  negb (is_reg (pool_of x) || existsb (N.eqb (pool_of x)) seen).

Fixpoint num_new_reg_pool_certs (is_reg : N -> bool) (seen : list N) (cs : list icert) : N :=
  match cs with
  | [] => 0
  | x :: r =>
      if is_reg_pool x && pool_is_new is_reg seen x
      then 1 + num_new_reg_pool_certs is_reg (pool_of x :: seen) r
      else num_new_reg_pool_certs is_reg seen r
  end.

Definition state_total_deposits_certs (pp : pparams) (ls : lstate) (cs : list icert) : N :=
  count is_reg_stake cs * pp_key_deposit pp
  + num_new_reg_pool_certs (ls_pool ls) [] cs * pp_pool_deposit pp
  + count is_reg_drep cs * pp_drep_deposit pp.

(* ---------- refunds ---------- *)
Definition cmem (c : credential) (s : list credential) : bool := existsb (cred_eqb c) s.
Definition cremove (c : credential) (s : list credential) : list credential :=
  filter (fun c' => negb (cred_eqb c c')) s.

Fixpoint stake_refunds (key_deposit : N) (lookup : credential -> option N) (reg : list credential) (cs : list icert) : N :=
  match cs with
  | [] => 0
  | x :: r =>
      let c := cred_of x in
      if is_reg_stake x then stake_refunds key_deposit lookup (c :: reg) r
      else if is_unreg_stake x then
        if cmem c reg then key_deposit + stake_refunds key_deposit lookup (cremove c reg) r
        else match lookup c with
             | Some d => d + stake_refunds key_deposit lookup reg r
             | None => stake_refunds key_deposit lookup reg r
             end
      else stake_refunds key_deposit lookup reg r
  end.

Definition alookup (c : credential) (m : list (credential * N)) : option N :=
  match find (fun e => cred_eqb c (fst e)) m with Some e => Some (snd e) | None => None end.
Definition aremove (c : credential) (m : list (credential * N)) : list (credential * N) :=
  filter (fun e => negb (cred_eqb c (fst e))) m.

Fixpoint drep_refunds (lookup : credential -> option N) (regs : list (credential * N)) (cs : list icert) : N :=
  match cs with
  | [] => 0
  | x :: r =>
      let c := cred_of x in
      match ic_cert x with
      | DRepRegistration d => drep_refunds lookup ((c, d) :: regs) r
      | DRepDeregistration _ =>
          match alookup c regs with
          | Some d => d + drep_refunds lookup (aremove c regs) r
          | None => match lookup c with
                    | Some d => d + drep_refunds lookup regs r
                    | None => drep_refunds lookup regs r
                    end
          end
      | _ => drep_refunds lookup regs r
      end
  end.

Definition state_total_refunds_certs (pp : pparams) (ls : lstate) (cs : list icert) : N :=
  stake_refunds (pp_key_deposit pp) (ls_stake ls) [] cs + drep_refunds (ls_drep ls) [] cs.

(* ---------- the deposit-related checks of the certificate rules, certificate by certificate ---------- *)
Definition upd {V} (f : credential -> V) (c : credential) (v : V) : credential -> V :=
  fun c' => if cred_eqb c' c then v else f c'.
Definition is_none {V} (o : option V) : bool := match o with None => true | Some _ => false end.

Fixpoint certs_valid (pp : pparams) (stake drep : credential -> option N) (cs : list icert) : bool :=
  match cs with
  | [] => true
  | x :: r =>
      let c := cred_of x in
      match ic_cert x with
      | StakeRegistration None =>
          is_none (stake c) && certs_valid pp (upd stake c (Some (pp_key_deposit pp))) drep r
      | StakeRegistration (Some d) | StakeRegistrationAndDelegation d | VoteRegistrationAndDelegation d
      | StakeVoteRegistrationAndDelegation d =>
          is_none (stake c) && (d =? pp_key_deposit pp) && certs_valid pp (upd stake c (Some d)) drep r
      | StakeDeregistration None =>
          match stake c with Some _ => certs_valid pp (upd stake c None) drep r | None => false end
      | StakeDeregistration (Some y) =>
          match stake c with Some d => (y =? d) && certs_valid pp (upd stake c None) drep r | None => false end
      | DRepRegistration d =>
          is_none (drep c) && (d =? pp_drep_deposit pp) && certs_valid pp stake (upd drep c (Some d)) r
      | DRepDeregistration y =>
          match drep c with Some d => (y =? d) && certs_valid pp stake (upd drep c None) r | None => false end
      | _ => certs_valid pp stake drep r
      end
  end.

(* "pool registrations are first registrations": no registered operator, no operator twice *)
Fixpoint pools_fresh (is_reg : N -> bool) (seen : list N) (cs : list icert) : bool :=
  match cs with
  | [] => true
  | x :: r =>
      if is_reg_pool x then pool_is_new is_reg seen x && pools_fresh is_reg (pool_of x :: seen) r
      else pools_fresh is_reg seen r
  end.

(* "a legacy deregistration refunds key_deposit": the credentials the transaction deregisters with the
   legacy certificate (kind 1) left exactly key_deposit when they were registered *)
Definition legacy_at_key_deposit (pp : pparams) (ls : lstate) (cs : list icert) : Prop :=
  forall x, In x cs -> cddl_tag (ic_cert x) = 1 ->
  forall d, ls_stake ls (cred_of x) = Some d -> d = pp_key_deposit pp.
