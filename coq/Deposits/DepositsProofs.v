(* C20 — proofs about the model of the deposit / refund helpers (Deposits.v). *)
From CSL Require Import Base.Prelude Base.U64 Deposits.Deposits.
From Coq Require Import Permutation.
Local Open Scope N_scope.

(* ---------- exact_or_error ---------- *)
Lemma exact_or_error_ok n : n < two64 -> exact_or_error n = Ok n.
Proof. intros H. unfold exact_or_error. destruct (N.ltb_spec n two64); [reflexivity | lia]. Qed.

Lemma exact_or_error_err n : two64 <= n -> exact_or_error n = Err.
Proof. intros H. unfold exact_or_error. destruct (N.ltb_spec n two64); [lia | reflexivity]. Qed.

Lemma exact_or_error_err_iff n : exact_or_error n = Err <-> two64 <= n.
Proof.
  unfold exact_or_error. destruct (N.ltb_spec n two64); split; intros; try discriminate; try lia; reflexivity.
Qed.

Lemma exact_or_error_ok_iff n v : exact_or_error n = Ok v <-> (v = n /\ n < two64).
Proof.
  unfold exact_or_error. destruct (N.ltb_spec n two64); split.
  - intros E. inversion E. subst. split; [reflexivity | lia].
  - intros [-> _]. reflexivity.
  - discriminate.
  - intros [_ ?]. lia.
Qed.

Lemma exact_or_error_cases n :
  (exact_or_error n = Ok n /\ n < two64) \/ (exact_or_error n = Err /\ two64 <= n).
Proof.
  destruct (N.lt_ge_cases n two64); [left | right]; split; auto using exact_or_error_ok, exact_or_error_err.
Qed.

Lemma checked_add_exact a b : checked_add a b = exact_or_error (a + b).
Proof. reflexivity. Qed.

(* adding two exact results with a checked addition is the exact result of the sum *)
Lemma bind_exact_add x y :
  (let* a := exact_or_error x in let* b := exact_or_error y in checked_add a b) = exact_or_error (x + y).
Proof.
  unfold bind, checked_add, exact_or_error.
  destruct (N.ltb_spec x two64), (N.ltb_spec y two64), (N.ltb_spec (x + y) two64); try reflexivity; lia.
Qed.

Lemma bind_exact_add_l x y :
  (let* a := exact_or_error x in checked_add a y) = exact_or_error (x + y).
Proof.
  unfold bind, checked_add, exact_or_error.
  destruct (N.ltb_spec x two64), (N.ltb_spec (x + y) two64); try reflexivity; lia.
Qed.

Lemma bind_exact_id x : (let* a := exact_or_error x in Ok a) = exact_or_error x.
Proof. unfold bind, exact_or_error. destruct (x <? two64); reflexivity. Qed.

Lemma bind_exact_add0 x : (let* a := exact_or_error x in checked_add 0 a) = exact_or_error x.
Proof.
  unfold bind, exact_or_error.
  destruct (N.ltb_spec x two64); [| reflexivity].
  unfold checked_add. rewrite N.add_0_l. destruct (N.ltb_spec x two64); [reflexivity | lia].
Qed.


(* case analysis on every 64-bit range test, left to right through the binds *)
Ltac u64_cases :=
  unfold checked_add, exact_or_error;
  repeat (cbn [bind];
          match goal with
          | |- context [?a <? two64] => destruct (N.ltb_spec a two64)
          end);
  cbn [bind]; try reflexivity; try (f_equal; lia); try lia.

(* ---------- the checked left fold is the exact sum or an error ---------- *)
Lemma try_fold_exact {A} (f : N -> A -> result N) (g : A -> N) :
  (forall acc x, acc < two64 -> f acc x = checked_add acc (g x)) ->
  forall l acc, acc < two64 -> try_fold f acc l = exact_or_error (acc + sumN (map g l)).
Proof.
  intros Hf l. induction l as [| x r IH]; intros acc Hacc; cbn [try_fold map sumN fold_right].
  - rewrite N.add_0_r. symmetry. apply exact_or_error_ok. exact Hacc.
  - rewrite (Hf acc x Hacc). unfold checked_add.
    destruct (N.ltb_spec (acc + g x) two64) as [Hlt | Hge]; cbn [bind].
    + rewrite (IH _ Hlt). f_equal. fold (sumN (map g r)). lia.
    + symmetry. apply exact_or_error_err. fold (sumN (map g r)). lia.
Qed.

Lemma two64_pos : 0 < two64.
Proof. reflexivity. Qed.

Lemma try_fold_exact0 {A} (f : N -> A -> result N) (g : A -> N) :
  (forall acc x, acc < two64 -> f acc x = checked_add acc (g x)) ->
  forall l, try_fold f 0 l = exact_or_error (sumN (map g l)).
Proof. intros Hf l. rewrite (try_fold_exact f g Hf l 0 two64_pos). reflexivity. Qed.

Lemma ok_is_checked_add0 acc : acc < two64 -> Ok acc = checked_add acc 0.
Proof. intros H. unfold checked_add. rewrite N.add_0_r. destruct (N.ltb_spec acc two64); [reflexivity | lia]. Qed.

Lemma try_fold_checked_add l : try_fold checked_add 0 l = exact_or_error (sumN l).
Proof.
  rewrite (try_fold_exact0 checked_add (fun x => x)); [| reflexivity]. rewrite map_id. reflexivity.
Qed.

(* ---------- the tables ---------- *)
(* what the helper's refund table adds for one certificate *)
Definition helper_refund (retire : bool) (pool_deposit key_deposit : N) (c : cert) : N :=
  ledger_refund key_deposit c + (if retire && is_pool_retirement c then pool_deposit else 0).

Lemma helper_refund_step_eq retire p q acc c : acc < two64 ->
  helper_refund_step retire p q acc c = checked_add acc (helper_refund retire p q c).
Proof.
  intros H. unfold helper_refund.
  destruct c as [[?|]|[?|]| | | | | | | | ? | ? | | | ? | ? | | ?]; destruct retire;
    cbn [helper_refund_step ledger_refund cddl_tag cert_coin is_pool_retirement andb];
    rewrite ?N.add_0_r, ?N.add_0_l; try reflexivity; apply ok_is_checked_add0; exact H.
Qed.

Lemma builder_refund_step_eq q acc c : acc < two64 ->
  builder_refund_step q acc c = checked_add acc (ledger_refund q c).
Proof.
  intros H.
  destruct c as [[?|]|[?|]| | | | | | | | ? | ? | | | ? | ? | | ?];
    cbn [builder_refund_step ledger_refund cddl_tag cert_coin];
    try reflexivity; apply ok_is_checked_add0; exact H.
Qed.

Lemma helper_deposit_step_eq p q acc c : acc < two64 ->
  helper_deposit_step p q acc c = checked_add acc (ledger_deposit p q c).
Proof.
  intros H.
  destruct c as [[?|]|[?|]| | | | | | | | ? | ? | | | ? | ? | | ?];
    cbn [helper_deposit_step ledger_deposit cddl_tag cert_coin];
    try reflexivity; apply ok_is_checked_add0; exact H.
Qed.

Lemma builder_deposit_step_eq p q acc c : acc < two64 ->
  builder_deposit_step p q acc c = checked_add acc (ledger_deposit p q c).
Proof.
  intros H.
  destruct c as [[?|]|[?|]| | | | | | | | ? | ? | | | ? | ? | | ?];
    cbn [builder_deposit_step ledger_deposit cddl_tag cert_coin];
    try reflexivity; apply ok_is_checked_add0; exact H.
Qed.

(* the two deposit tables are literally the same function; the refund tables differ by the retirement line *)
Lemma deposit_tables_agree p q acc c : helper_deposit_step p q acc c = builder_deposit_step p q acc c.
Proof. destruct c as [[?|]|[?|]| | | | | | | | ? | ? | | | ? | ? | | ?]; reflexivity. Qed.

Lemma refund_tables_agree p q acc c :
  helper_refund_step false p q acc c = builder_refund_step q acc c.
Proof. destruct c as [[?|]|[?|]| | | | | | | | ? | ? | | | ? | ? | | ?]; reflexivity. Qed.

(* the driver's decoder inverts (cddl_tag, cert_coin): every certificate has exactly one case-file form *)
Lemma cert_of_tag_inverse c : cert_of_tag (cddl_tag c) (cert_coin c) = Some c.
Proof. destruct c as [[?|]|[?|]| | | | | | | | ? | ? | | | ? | ? | | ?]; reflexivity. Qed.

(* ---------- builders: component totals ---------- *)
Lemma certificates_deposit_exact cs p q :
  get_certificates_deposit cs p q = exact_or_error (spec_cert_deposits p q cs).
Proof. apply try_fold_exact0. intros. apply builder_deposit_step_eq. assumption. Qed.

Lemma certificates_refund_exact cs p q :
  get_certificates_refund cs p q = exact_or_error (spec_cert_refunds q cs).
Proof. apply try_fold_exact0. intros. apply builder_refund_step_eq. assumption. Qed.

Lemma total_withdrawals_exact ws : get_total_withdrawals ws = exact_or_error (sumN ws).
Proof. apply try_fold_checked_add. Qed.

Lemma total_deposit_exact ps : get_total_deposit ps = exact_or_error (sumN ps).
Proof. apply try_fold_checked_add. Qed.

(* ---------- transaction builder ---------- *)
Definition txb_body (t : txb) : body := mk_body (t_certs t) (t_withdrawals t) (t_proposals t).

Lemma tb_deposit_exact t :
  tb_get_deposit t = exact_or_error (spec_deposit (txb_body t) (t_pool_deposit t) (t_key_deposit t)).
Proof.
  unfold tb_get_deposit, spec_deposit, txb_body. cbn [b_certs b_proposals].
  destruct (t_certs t) as [cs |], (t_proposals t) as [ps |]; cbn [opt_list sumN fold_right map spec_cert_deposits];
    rewrite ?certificates_deposit_exact, ?total_deposit_exact.
  - rewrite bind_exact_add0. apply bind_exact_add.
  - rewrite bind_exact_add0, N.add_0_r. apply bind_exact_id.
  - cbn [bind]. rewrite N.add_0_l. apply bind_exact_add0.
  - reflexivity.
Qed.

Lemma tb_implicit_exact t :
  tb_get_implicit_input t = exact_or_error (spec_implicit_input (txb_body t) (t_key_deposit t)).
Proof.
  unfold tb_get_implicit_input, spec_implicit_input, txb_body. cbn [b_certs b_withdrawals].
  destruct (t_withdrawals t) as [ws |], (t_certs t) as [cs |]; cbn [opt_list sumN fold_right map spec_cert_refunds];
    rewrite ?certificates_refund_exact, ?total_withdrawals_exact.
  - rewrite bind_exact_add0. apply bind_exact_add.
  - rewrite bind_exact_add0, N.add_0_r. apply bind_exact_id.
  - cbn [bind]. rewrite N.add_0_l. apply bind_exact_add0.
  - reflexivity.
Qed.

Lemma tb_total_input_exact t :
  tb_get_total_input t =
  exact_or_error (sumN (t_inputs t) + spec_implicit_input (txb_body t) (t_key_deposit t)).
Proof.
  unfold tb_get_total_input, tb_get_explicit_input. rewrite try_fold_checked_add, tb_implicit_exact.
  set (x := sumN (t_inputs t)). set (y := spec_implicit_input _ _). clearbody x y.
  u64_cases.
Qed.

Lemma tb_total_output_exact t :
  tb_get_total_output t =
  exact_or_error (sumN (t_outputs t) + spec_deposit (txb_body t) (t_pool_deposit t) (t_key_deposit t)
                  + match t_donation t with Some d => d | None => 0 end).
Proof.
  unfold tb_get_total_output, tb_get_explicit_output. rewrite try_fold_checked_add, tb_deposit_exact.
  set (x := sumN (t_outputs t)). set (y := spec_deposit _ _ _). clearbody x y.
  destruct (t_donation t) as [d |]; u64_cases.
Qed.

(* ---------- stand-alone helpers ---------- *)
Lemma internal_get_deposit_exact cs p q :
  internal_get_deposit cs p q = exact_or_error (spec_cert_deposits p q (opt_list cs)).
Proof.
  destruct cs as [cs |]; cbn [internal_get_deposit opt_list]; [| reflexivity].
  apply try_fold_exact0. intros. apply helper_deposit_step_eq. assumption.
Qed.

Lemma existsb_nonzero_false l : existsb (fun d => negb (d =? 0)) l = false -> sumN l = 0.
Proof.
  induction l as [| x r IH]; cbn [existsb sumN fold_right]; [reflexivity |].
  intros H. apply orb_false_iff in H. destruct H as [Hx Hr]. fold (sumN r). rewrite (IH Hr).
  destruct (N.eqb_spec x 0); [lia | discriminate].
Qed.

Lemma helper_deposit_exact ig b p q :
  known_ignores_proposals_gen ig b = false ->
  get_deposit_gen ig b p q = exact_or_error (spec_deposit b p q).
Proof.
  unfold known_ignores_proposals_gen, get_deposit_gen, spec_deposit. intros K.
  rewrite internal_get_deposit_exact. destruct ig; cbn [andb] in K.
  - rewrite (existsb_nonzero_false _ K), N.add_0_r. apply bind_exact_id.
  - assert (P : match b_proposals b with None => Ok 0 | Some ps => try_fold checked_add 0 ps end
                = exact_or_error (sumN (opt_list (b_proposals b)))).
    { destruct (b_proposals b); cbn [opt_list]; [apply try_fold_checked_add | reflexivity]. }
    rewrite P. apply bind_exact_add.
Qed.

Lemma helper_refund_sum retire p q cs :
  retire && existsb is_pool_retirement cs && negb (p =? 0) = false ->
  sumN (map (helper_refund retire p q) cs) = spec_cert_refunds q cs.
Proof.
  unfold spec_cert_refunds. intros K.
  induction cs as [| c r IH]; [reflexivity |].
  change (helper_refund retire p q c + sumN (map (helper_refund retire p q) r)
          = ledger_refund q c + sumN (map (ledger_refund q) r)).
  cbn [existsb] in K.
  assert (Hc : helper_refund retire p q c = ledger_refund q c).
  { unfold helper_refund.
    destruct retire, (is_pool_retirement c); cbn [andb orb] in *; try lia.
    all: destruct (N.eqb_spec p 0); [lia | discriminate]. }
  assert (Hr : retire && existsb is_pool_retirement r && negb (p =? 0) = false).
  { destruct retire, (is_pool_retirement c), (existsb is_pool_retirement r); cbn [andb orb] in *; auto. }
  rewrite (IH Hr), Hc. reflexivity.
Qed.

Lemma helper_implicit_exact retire b p q :
  known_pool_retirement_gen retire b p = false ->
  get_implicit_input_gen retire b p q = exact_or_error (spec_implicit_input b q).
Proof.
  unfold known_pool_retirement_gen, get_implicit_input_gen, internal_get_implicit_input_gen, spec_implicit_input.
  intros K.
  assert (W : match b_withdrawals b with None => Ok 0 | Some x => try_fold checked_add 0 x end
              = exact_or_error (sumN (opt_list (b_withdrawals b)))).
  { destruct (b_withdrawals b); cbn [opt_list]; [apply try_fold_checked_add | reflexivity]. }
  assert (C : match b_certs b with None => Ok 0 | Some cs => try_fold (helper_refund_step retire p q) 0 cs end
              = exact_or_error (spec_cert_refunds q (opt_list (b_certs b)))).
  { destruct (b_certs b) as [cs |]; cbn [opt_list] in *; [| reflexivity].
    rewrite (try_fold_exact0 _ (helper_refund retire p q)).
    - rewrite (helper_refund_sum _ _ _ _ K). reflexivity.
    - intros. apply helper_refund_step_eq. assumption. }
  rewrite W, C. apply bind_exact_add.
Qed.

(* the helper in general (also inside the known class): exact sum of ITS table, or an error *)
Lemma helper_implicit_own_total retire b p q :
  get_implicit_input_gen retire b p q =
  exact_or_error (sumN (opt_list (b_withdrawals b)) + sumN (map (helper_refund retire p q) (opt_list (b_certs b)))).
Proof.
  unfold get_implicit_input_gen, internal_get_implicit_input_gen.
  assert (W : match b_withdrawals b with None => Ok 0 | Some x => try_fold checked_add 0 x end
              = exact_or_error (sumN (opt_list (b_withdrawals b)))).
  { destruct (b_withdrawals b); cbn [opt_list]; [apply try_fold_checked_add | reflexivity]. }
  assert (C : match b_certs b with None => Ok 0 | Some cs => try_fold (helper_refund_step retire p q) 0 cs end
              = exact_or_error (sumN (map (helper_refund retire p q) (opt_list (b_certs b))))).
  { destruct (b_certs b) as [cs |]; cbn [opt_list]; [| reflexivity].
    apply try_fold_exact0. intros. apply helper_refund_step_eq. assumption. }
  rewrite W, C. apply bind_exact_add.
Qed.

Lemma helper_deposit_own_total ig b p q :
  get_deposit_gen ig b p q =
  exact_or_error (spec_cert_deposits p q (opt_list (b_certs b)) + (if ig then 0 else sumN (opt_list (b_proposals b)))).
Proof.
  unfold get_deposit_gen. rewrite internal_get_deposit_exact. destruct ig.
  - rewrite N.add_0_r. apply bind_exact_id.
  - assert (P : match b_proposals b with None => Ok 0 | Some ps => try_fold checked_add 0 ps end
                = exact_or_error (sumN (opt_list (b_proposals b)))).
    { destruct (b_proposals b); cbn [opt_list]; [apply try_fold_checked_add | reflexivity]. }
    rewrite P. apply bind_exact_add.
Qed.

(* ---------- helper = builder ---------- *)
Lemma txb_body_of_body b ins outs don p q : txb_body (builder_of_body b ins outs don p q) = b.
Proof. destruct b; reflexivity. Qed.

Lemma helper_equals_builder_deposit ig b ins outs don p q :
  known_ignores_proposals_gen ig b = false ->
  get_deposit_gen ig b p q = tb_get_deposit (builder_of_body b ins outs don p q).
Proof.
  intros K. rewrite (helper_deposit_exact _ _ _ _ K), tb_deposit_exact, txb_body_of_body. reflexivity.
Qed.

Lemma helper_equals_builder_implicit retire b ins outs don p q :
  known_pool_retirement_gen retire b p = false ->
  get_implicit_input_gen retire b p q = tb_get_implicit_input (builder_of_body b ins outs don p q).
Proof.
  intros K. rewrite (helper_implicit_exact _ _ _ _ K), tb_implicit_exact, txb_body_of_body. reflexivity.
Qed.

(* ---------- order does not matter (BTreeMap / LinkedHashMap iteration orders) ---------- *)
Lemma sumN_perm l l' : Permutation l l' -> sumN l = sumN l'.
Proof.
  induction 1; cbn [sumN fold_right]; try fold (sumN l); try fold (sumN l'); try lia.
Qed.

Lemma spec_cert_deposits_perm p q l l' : Permutation l l' -> spec_cert_deposits p q l = spec_cert_deposits p q l'.
Proof. intros H. apply sumN_perm, Permutation_map, H. Qed.

Lemma spec_cert_refunds_perm q l l' : Permutation l l' -> spec_cert_refunds q l = spec_cert_refunds q l'.
Proof. intros H. apply sumN_perm, Permutation_map, H. Qed.

(* ---------- deprecated setters ---------- *)
Lemma set_certs_ok l cs : set_certs l = Ok cs -> cs = map fst l.
Proof.
  revert cs. induction l as [| [c s] r IH]; cbn [set_certs map fst]; intros cs H.
  - inversion H. reflexivity.
  - destruct (has_required_script_witness c s); [discriminate |].
    destruct (set_certs r) as [cs' | | |]; cbn [bind] in H; try discriminate.
    inversion H. f_equal. apply IH. reflexivity.
Qed.

Lemma set_withdrawals_ok l ws : set_withdrawals l = Ok ws -> ws = map snd l.
Proof.
  revert ws. induction l as [| [s w] r IH]; cbn [set_withdrawals map snd]; intros ws H.
  - inversion H. reflexivity.
  - destruct s; [discriminate |].
    destruct (set_withdrawals r) as [ws' | | |]; cbn [bind] in H; try discriminate.
    inversion H. f_equal. apply IH. reflexivity.
Qed.

Lemma set_certs_err_iff l :
  set_certs l = Err <-> existsb (fun cs => has_required_script_witness (fst cs) (snd cs)) l = true.
Proof.
  induction l as [| [c s] r IH]; cbn [set_certs existsb fst snd].
  - split; discriminate.
  - destruct (has_required_script_witness c s); cbn [orb]; [tauto |].
    rewrite <- IH. destruct (set_certs r); cbn [bind]; split; intros; try discriminate; reflexivity.
Qed.

(* ---------- the judge accepts the model outside the known classes ---------- *)
Lemma res_eqb_refl r : res_eqb r r = true.
Proof. destruct r; cbn; auto using N.eqb_refl. Qed.

Lemma judge_model_holds k :
  known_pool_retirement_gen helper_refunds_pool_retirement (case_body k) (k_pool_deposit k) = false ->
  known_ignores_proposals_gen helper_ignores_proposals (case_body k) = false ->
  judge k (model_obs k) = Holds.
Proof.
  intros K1 K2. unfold judge, model_obs.
  cbn [o_helper_deposit o_helper_implicit o_helper_deposit_wire o_helper_implicit_wire
       o_helper_deposit_built o_helper_implicit_built forallb o_cb_deposit o_cb_refund o_wb_total o_tb_deposit o_tb_implicit
       o_tb_total_input o_tb_total_output o_dep_deposit o_dep_implicit].
  unfold get_deposit, get_implicit_input, spec_deposit_res, spec_implicit_res.
  rewrite (helper_deposit_exact _ _ _ _ K2), (helper_implicit_exact _ _ _ _ K1).
  rewrite certificates_deposit_exact, certificates_refund_exact, total_withdrawals_exact.
  rewrite tb_deposit_exact, tb_implicit_exact, tb_total_input_exact, tb_total_output_exact.
  unfold case_txb. rewrite txb_body_of_body.
  cbn [builder_of_body t_inputs t_outputs t_donation t_pool_deposit t_key_deposit].
  rewrite !res_eqb_refl. cbn [andb negb orb].
  assert (D : forall (o : option (result N * result N)),
     (forall x, o = Some x -> fst x = exact_or_error (spec_deposit (case_body k) (k_pool_deposit k) (k_key_deposit k))
                           /\ snd x = exact_or_error (spec_implicit_input (case_body k) (k_key_deposit k))) ->
     opt_res_ok (option_map fst o) (exact_or_error (spec_deposit (case_body k) (k_pool_deposit k) (k_key_deposit k))) = true
     /\ opt_res_ok (option_map snd o) (exact_or_error (spec_implicit_input (case_body k) (k_key_deposit k))) = true).
  { intros [x |] Hx; cbn [option_map opt_res_ok]; [| auto].
    destruct (Hx x eq_refl) as [-> ->]. rewrite !res_eqb_refl. auto. }
  match goal with |- context [option_map fst ?o] => destruct (D o) as [D1 D2] end.
  { intros x Hx.
    destruct (set_certs (opt_list (k_certs k))) as [cs' | | |] eqn:Ec; try discriminate.
    destruct (set_withdrawals (opt_list (k_withdrawals k))) as [ws' | | |] eqn:Ew; try discriminate.
    inversion Hx; subst x; clear Hx. cbn [fst snd].
    rewrite tb_deposit_exact, tb_implicit_exact.
    apply set_certs_ok in Ec. apply set_withdrawals_ok in Ew. subst cs' ws'.
    unfold txb_body, case_body, spec_deposit, spec_implicit_input.
    cbn [t_certs t_withdrawals t_proposals t_pool_deposit t_key_deposit b_certs b_withdrawals b_proposals].
    destruct (k_certs k), (k_withdrawals k); cbn [option_map opt_list]; split; reflexivity. }
  rewrite D1, D2. reflexivity.
Qed.

(* ---------- overflow = error, never a wrapped number, never a panic ---------- *)
Definition total_or_error (r : result N) (total : N) : Prop :=
  (r = Err <-> two64 <= total) /\ (forall v, r = Ok v <-> (v = total /\ total < two64)) /\ r <> Panic /\ r <> OutOfFuel.

Lemma exact_total_or_error n : total_or_error (exact_or_error n) n.
Proof.
  unfold total_or_error. split; [apply exact_or_error_err_iff |]. split; [intros v; apply exact_or_error_ok_iff |].
  unfold exact_or_error. destruct (n <? two64); split; discriminate.
Qed.

Lemma overflow_is_error b ins outs don p q :
  let t := builder_of_body b ins outs don p q in
  total_or_error (tb_get_deposit t) (spec_deposit b p q) /\
  total_or_error (tb_get_implicit_input t) (spec_implicit_input b q) /\
  total_or_error (tb_get_total_input t) (sumN ins + spec_implicit_input b q) /\
  total_or_error (tb_get_total_output t) (sumN outs + spec_deposit b p q + match don with Some d => d | None => 0 end) /\
  (known_ignores_proposals b = false -> total_or_error (get_deposit b p q) (spec_deposit b p q)) /\
  (known_pool_retirement b p = false -> total_or_error (get_implicit_input b p q) (spec_implicit_input b q)).
Proof.
  intros t. subst t.
  rewrite tb_deposit_exact, tb_implicit_exact, tb_total_input_exact, tb_total_output_exact, txb_body_of_body.
  cbn [builder_of_body t_inputs t_outputs t_donation t_pool_deposit t_key_deposit].
  do 4 (split; [apply exact_total_or_error |]). split.
  - intros K. unfold get_deposit. rewrite (helper_deposit_exact _ _ _ _ K). apply exact_total_or_error.
  - intros K. unfold get_implicit_input. rewrite (helper_implicit_exact _ _ _ _ K). apply exact_total_or_error.
Qed.

(* also inside the known classes the helpers never wrap around or panic: they report the exact
   total of their own (defective) table, or an error *)
Lemma helpers_never_wrap b p q :
  total_or_error (get_implicit_input b p q)
    (sumN (opt_list (b_withdrawals b))
     + sumN (map (helper_refund helper_refunds_pool_retirement p q) (opt_list (b_certs b)))) /\
  total_or_error (get_deposit b p q)
    (spec_cert_deposits p q (opt_list (b_certs b))
     + (if helper_ignores_proposals then 0 else sumN (opt_list (b_proposals b)))).
Proof.
  unfold get_implicit_input, get_deposit. rewrite helper_implicit_own_total, helper_deposit_own_total.
  split; apply exact_total_or_error.
Qed.

(* ---------- the defects, as refutations of the unrestricted statements ---------- *)
Definition witness_retirement : body := mk_body (Some [PoolRetirement]) None None.
Definition witness_proposal : body := mk_body None None (Some [100000000000]).

Lemma helper_implicit_refuted :
  get_implicit_input_gen true witness_retirement 500000000 2000000 = Ok 500000000 /\
  exact_or_error (spec_implicit_input witness_retirement 2000000) = Ok 0 /\
  tb_get_implicit_input (builder_of_body witness_retirement [] [] None 500000000 2000000) = Ok 0.
Proof. repeat split; reflexivity. Qed.

Lemma helper_deposit_refuted :
  get_deposit_gen true witness_proposal 500000000 2000000 = Ok 0 /\
  exact_or_error (spec_deposit witness_proposal 500000000 2000000) = Ok 100000000000 /\
  tb_get_deposit (builder_of_body witness_proposal [] [] None 500000000 2000000) = Ok 100000000000.
Proof. repeat split; reflexivity. Qed.

(* the repaired helpers satisfy the unrestricted statements *)
Lemma repaired_helpers_exact b p q :
  get_deposit_gen false b p q = exact_or_error (spec_deposit b p q) /\
  get_implicit_input_gen false b p q = exact_or_error (spec_implicit_input b q).
Proof. split; [apply helper_deposit_exact | apply helper_implicit_exact]; reflexivity. Qed.
