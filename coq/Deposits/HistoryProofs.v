(* C20 — a history of set / remove operations is overwritten by the final setters. *)
From CSL Require Import Base.Prelude Base.U64 Deposits.Deposits Deposits.Ident Deposits.History.
Local Open Scope N_scope.

Theorem history_overwritten_main h st ik : run_history (h ++ final_main ik) st = case_coll ik.
Proof.
  unfold run_history. rewrite fold_left_app. generalize (fold_left apply_hop h st). intros s.
  unfold final_main, case_coll. cbn [fold_left].
  destruct (ik_certs ik), (ik_withdrawals ik); reflexivity.
Qed.

Theorem history_overwritten_deprecated h st ik : deprecated_ok ik = true ->
  run_history (h ++ final_deprecated ik) st = case_coll ik.
Proof.
  unfold deprecated_ok. intros D. apply andb_true_iff in D. destruct D as [D1 D2].
  apply negb_true_iff in D1. apply negb_true_iff in D2.
  unfold run_history. rewrite fold_left_app. generalize (fold_left apply_hop h st). intros s.
  unfold final_deprecated, case_coll. cbn [fold_left].
  destruct (ik_certs ik) as [cs |], (ik_withdrawals ik) as [ws |]; cbn [opt_list] in *; cbn [apply_hop option_map];
    rewrite ?D1, ?D2; reflexivity.
Qed.

(* the collections a builder holds after any history + the final setters are those the figures of the case are about *)
Corollary history_effective h st ik :
  let c := run_history (h ++ final_main ik) st in
  option_map (map plain_cert) (tc_certs c) = k_certs (effective ik) /\
  option_map (map plain_wd) (tc_wdrl c) = k_withdrawals (effective ik).
Proof.
  cbn zeta. rewrite history_overwritten_main. unfold case_coll, effective. cbn [tc_certs tc_wdrl k_certs k_withdrawals].
  destruct (ik_certs ik), (ik_withdrawals ik); split; reflexivity.
Qed.

(* a failing deprecated setter leaves the builder as it was (so a history may contain failing steps) *)
Lemma failing_setter_keeps_state st cs : existsb needs_script (eff_certs cs) = true -> apply_hop st (HSetCerts cs) = st.
Proof. intros H. cbn [apply_hop]. rewrite H. reflexivity. Qed.

(* a setter that MERGED instead of replacing would differ: the stale account survives *)
Example replace_not_merge :
  let stale := [mk_iwd false 7 0 3000000] in
  let final := mk_icase 0 0 None (Some [mk_iwd false 1 0 5]) None [] [] None in
  tc_wdrl (run_history ([HSetWdrlBuilder stale] ++ final_deprecated final) (mk_tbcoll None None)) = Some [mk_iwd false 1 0 5].
Proof. reflexivity. Qed.
