(* C20 — deposit and refund helpers: executable model of
     rust/src/utils.rs                         internal_get_implicit_input / internal_get_deposit /
                                               get_implicit_input / get_deposit  (stand-alone helpers)
     rust/src/builders/certificates_builder.rs get_certificates_refund / get_certificates_deposit, add
     rust/src/builders/withdrawals_builder.rs  get_total_withdrawals, add
     rust/src/builders/voting_proposal_builder.rs get_total_deposit
     rust/src/builders/tx_builder.rs           get_implicit_input / get_deposit / get_explicit_input /
                                               get_explicit_output / get_total_input / get_total_output,
                                               set_certs / set_withdrawals (deprecated wrappers)
   and the specification (the ledger's deposit/refund table).  No proofs in this file. *)
From CSL Require Import Base.Prelude Base.U64.
Local Open Scope N_scope.

(* ---------------------------------------------------------------------------------------------
   Certificates: the 17 variants of CertificateEnum carrying only what the deposit code looks at.
   StakeRegistration / StakeDeregistration each stand for two of the 19 Conway certificate kinds
   (legacy form without an amount, reg_cert / unreg_cert with an explicit amount): [cddl_tag]. *)
Inductive cert : Type :=
| StakeRegistration (coin : option N)
| StakeDeregistration (coin : option N)
| StakeDelegation
| PoolRegistration
| PoolRetirement
| GenesisKeyDelegation
| MoveInstantaneousRewardsCert
| CommitteeHotAuth
| CommitteeColdResign
| DRepDeregistration (coin : N)
| DRepRegistration (coin : N)
| DRepUpdate
| StakeAndVoteDelegation
| StakeRegistrationAndDelegation (coin : N)
| StakeVoteRegistrationAndDelegation (coin : N)
| VoteDelegation
| VoteRegistrationAndDelegation (coin : N).

(* the certificate's number in the Conway CDDL (0..18) *)
Definition cddl_tag (c : cert) : N :=
  match c with
  | StakeRegistration None => 0
  | StakeDeregistration None => 1
  | StakeDelegation => 2
  | PoolRegistration => 3
  | PoolRetirement => 4
  | GenesisKeyDelegation => 5
  | MoveInstantaneousRewardsCert => 6
  | StakeRegistration (Some _) => 7
  | StakeDeregistration (Some _) => 8
  | VoteDelegation => 9
  | StakeAndVoteDelegation => 10
  | StakeRegistrationAndDelegation _ => 11
  | VoteRegistrationAndDelegation _ => 12
  | StakeVoteRegistrationAndDelegation _ => 13
  | CommitteeHotAuth => 14
  | CommitteeColdResign => 15
  | DRepRegistration _ => 16
  | DRepDeregistration _ => 17
  | DRepUpdate => 18
  end.

(* decoder used by the driver: CDDL number + amount token -> certificate *)
Definition cert_of_tag (tag : N) (coin : option N) : option cert :=
  match tag, coin with
  | 0, None => Some (StakeRegistration None)
  | 1, None => Some (StakeDeregistration None)
  | 2, None => Some StakeDelegation
  | 3, None => Some PoolRegistration
  | 4, None => Some PoolRetirement
  | 5, None => Some GenesisKeyDelegation
  | 6, None => Some MoveInstantaneousRewardsCert
  | 7, Some x => Some (StakeRegistration (Some x))
  | 8, Some x => Some (StakeDeregistration (Some x))
  | 9, None => Some VoteDelegation
  | 10, None => Some StakeAndVoteDelegation
  | 11, Some x => Some (StakeRegistrationAndDelegation x)
  | 12, Some x => Some (VoteRegistrationAndDelegation x)
  | 13, Some x => Some (StakeVoteRegistrationAndDelegation x)
  | 14, None => Some CommitteeHotAuth
  | 15, None => Some CommitteeColdResign
  | 16, Some x => Some (DRepRegistration x)
  | 17, Some x => Some (DRepDeregistration x)
  | 18, None => Some DRepUpdate
  | _, _ => None
  end.

(* the amount written inside the certificate, if the kind has one *)
Definition cert_coin (c : cert) : option N :=
  match c with
  | StakeRegistration o | StakeDeregistration o => o
  | DRepDeregistration x | DRepRegistration x | StakeRegistrationAndDelegation x
  | StakeVoteRegistrationAndDelegation x | VoteRegistrationAndDelegation x => Some x
  | _ => None
  end.

(* ---------------------------------------------------------------------------------------------
   Switches for the two observed defects of the stand-alone helpers (DESIGN section 7, row 19).
   [true] = the code as it is today.  Once fixes/C20-*.patch is committed in /repo, set the
   corresponding constant to [false]: model, known-class predicates and judge follow; every
   theorem of Props/C20.v is proved for both values. *)
Definition helper_refunds_pool_retirement : bool := false.
Definition helper_ignores_proposals : bool := false.

(* ---------------------------------------------------------------------------------------------
   Iterator::try_fold / `for … { x = x.checked_add(..)? }` : left to right, stop at the first error *)
Fixpoint try_fold {A : Type} (f : N -> A -> result N) (acc : N) (l : list A) : result N :=
  match l with
  | [] => Ok acc
  | x :: r => let* a := f acc x in try_fold f a r
  end.

(* ---------------------------------------------------------------------------------------------
   utils.rs: stand-alone helpers.  [retire] is the switch above, passed explicitly so that the
   proofs cover both the current and the repaired code. *)
Definition helper_refund_step (retire : bool) (pool_deposit key_deposit : N) (acc : N) (c : cert) : result N :=
  match c with
  | StakeDeregistration (Some coin) => checked_add acc coin
  | StakeDeregistration None => checked_add acc key_deposit
  | PoolRetirement => if retire then checked_add acc pool_deposit else Ok acc
  | DRepDeregistration coin => checked_add acc coin
  | _ => Ok acc
  end.

Definition helper_deposit_step (pool_deposit key_deposit : N) (acc : N) (c : cert) : result N :=
  match c with
  | PoolRegistration => checked_add acc pool_deposit
  | StakeRegistration (Some coin) => checked_add acc coin
  | StakeRegistration None => checked_add acc key_deposit
  | DRepRegistration coin => checked_add acc coin
  | StakeRegistrationAndDelegation coin => checked_add acc coin
  | VoteRegistrationAndDelegation coin => checked_add acc coin
  | StakeVoteRegistrationAndDelegation coin => checked_add acc coin
  | _ => Ok acc
  end.

Definition internal_get_implicit_input_gen (retire : bool) (withdrawals : option (list N)) (certs : option (list cert))
    (pool_deposit key_deposit : N) : result N :=
  let* withdrawal_sum := match withdrawals with None => Ok 0 | Some x => try_fold checked_add 0 x end in
  let* certificate_refund :=
    match certs with None => Ok 0 | Some cs => try_fold (helper_refund_step retire pool_deposit key_deposit) 0 cs end in
  checked_add withdrawal_sum certificate_refund.

Definition internal_get_deposit (certs : option (list cert)) (pool_deposit key_deposit : N) : result N :=
  match certs with None => Ok 0 | Some cs => try_fold (helper_deposit_step pool_deposit key_deposit) 0 cs end.

(* what the helpers read of a TransactionBody *)
Record body : Type := mk_body {
  b_certs : option (list cert);
  b_withdrawals : option (list N);        (* amounts of the withdrawal map, in iteration order *)
  b_proposals : option (list N)           (* deposits of the voting proposals, in order *)
}.

Definition get_implicit_input_gen (retire : bool) (b : body) (pool_deposit key_deposit : N) : result N :=
  internal_get_implicit_input_gen retire (b_withdrawals b) (b_certs b) pool_deposit key_deposit.

(* [ignore_props = true]: today's code, which never looks at txbody.voting_proposals;
   [false]: the repaired helper adds the proposals' deposits (same checked fold as the builder). *)
Definition get_deposit_gen (ignore_props : bool) (b : body) (pool_deposit key_deposit : N) : result N :=
  let* certificate_deposit := internal_get_deposit (b_certs b) pool_deposit key_deposit in
  if ignore_props then Ok certificate_deposit
  else
    let* proposal_deposit := match b_proposals b with None => Ok 0 | Some ps => try_fold checked_add 0 ps end in
    checked_add certificate_deposit proposal_deposit.

Definition get_implicit_input := get_implicit_input_gen helper_refunds_pool_retirement.
Definition get_deposit := get_deposit_gen helper_ignores_proposals.

(* ---------------------------------------------------------------------------------------------
   builders *)
Definition builder_refund_step (key_deposit : N) (acc : N) (c : cert) : result N :=
  match c with
  | StakeDeregistration (Some coin) => checked_add acc coin
  | StakeDeregistration None => checked_add acc key_deposit
  | DRepDeregistration coin => checked_add acc coin
  | _ => Ok acc
  end.

Definition builder_deposit_step (pool_deposit key_deposit : N) (acc : N) (c : cert) : result N :=
  match c with
  | PoolRegistration => checked_add acc pool_deposit
  | StakeRegistration (Some coin) => checked_add acc coin
  | StakeRegistration None => checked_add acc key_deposit
  | DRepRegistration coin => checked_add acc coin
  | StakeRegistrationAndDelegation coin => checked_add acc coin
  | VoteRegistrationAndDelegation coin => checked_add acc coin
  | StakeVoteRegistrationAndDelegation coin => checked_add acc coin
  | _ => Ok acc
  end.

(* CertificatesBuilder *)
Definition get_certificates_refund (cs : list cert) (pool_deposit key_deposit : N) : result N :=
  try_fold (builder_refund_step key_deposit) 0 cs.
Definition get_certificates_deposit (cs : list cert) (pool_deposit key_deposit : N) : result N :=
  try_fold (builder_deposit_step pool_deposit key_deposit) 0 cs.
(* WithdrawalsBuilder *)
Definition get_total_withdrawals (ws : list N) : result N := try_fold checked_add 0 ws.
(* VotingProposalBuilder (map_err keeps it an error) *)
Definition get_total_deposit (ps : list N) : result N := try_fold checked_add 0 ps.

(* the fields of TransactionBuilder that take part in balancing; values are ADA-only here *)
Record txb : Type := mk_txb {
  t_inputs : list N;
  t_outputs : list N;
  t_certs : option (list cert);
  t_withdrawals : option (list N);
  t_proposals : option (list N);
  t_donation : option N;
  t_pool_deposit : N;
  t_key_deposit : N
}.

Definition tb_get_explicit_input (t : txb) : result N := try_fold checked_add 0 (t_inputs t).
Definition tb_get_explicit_output (t : txb) : result N := try_fold checked_add 0 (t_outputs t).

Definition tb_get_implicit_input (t : txb) : result N :=
  let* a := match t_withdrawals t with
            | Some w => let* tw := get_total_withdrawals w in checked_add 0 tw
            | None => Ok 0
            end in
  match t_certs t with
  | Some cs => let* r := get_certificates_refund cs (t_pool_deposit t) (t_key_deposit t) in checked_add a r
  | None => Ok a
  end.

Definition tb_get_deposit (t : txb) : result N :=
  let* a := match t_certs t with
            | Some cs => let* d := get_certificates_deposit cs (t_pool_deposit t) (t_key_deposit t) in checked_add 0 d
            | None => Ok 0
            end in
  match t_proposals t with
  | Some ps => let* p := get_total_deposit ps in checked_add a p
  | None => Ok a
  end.

(* no mint in the modelled builder: mint_value = burn_value = 0 *)
Definition tb_get_total_input (t : txb) : result N :=
  let* e := tb_get_explicit_input t in
  let* i := tb_get_implicit_input t in
  let* s := checked_add e i in
  checked_add s 0.

Definition tb_get_total_output (t : txb) : result N :=
  let* e := tb_get_explicit_output t in
  let* d := tb_get_deposit t in
  let* s := checked_add e d in
  let* s2 := checked_add s 0 in
  match t_donation t with
  | Some dn => checked_add s2 dn
  | None => Ok s2
  end.

(* the builder that balances the same certificates, withdrawals and proposals as a body *)
Definition builder_of_body (b : body) (ins outs : list N) (donation : option N) (pool_deposit key_deposit : N) : txb :=
  mk_txb ins outs (b_certs b) (b_withdrawals b) (b_proposals b) donation pool_deposit key_deposit.

(* ---------------------------------------------------------------------------------------------
   Certificate::has_required_script_witness and the deprecated set_certs / set_withdrawals, which
   go through CertificatesBuilder::add / WithdrawalsBuilder::add and fail on script credentials.
   [script] = the certificate's (first) credential is a script hash. *)
Definition has_required_script_witness (c : cert) (script : bool) : bool :=
  match c with
  | StakeRegistration (Some _) => script
  | StakeRegistration None => false
  | PoolRegistration | PoolRetirement | GenesisKeyDelegation | MoveInstantaneousRewardsCert => false
  | _ => script
  end.

Fixpoint set_certs (l : list (cert * bool)) : result (list cert) :=
  match l with
  | [] => Ok []
  | (c, s) :: r => if has_required_script_witness c s then Err
                   else let* cs := set_certs r in Ok (c :: cs)
  end.

Fixpoint set_withdrawals (l : list (bool * N)) : result (list N) :=
  match l with
  | [] => Ok []
  | (s, w) :: r => if s then Err else let* ws := set_withdrawals r in Ok (w :: ws)
  end.

(* =============================================================================================
   Specification: what the ledger charges and pays back inside a transaction.
   Conway ledger (see notes/ledger-rules.md): totalTxDeposits = key deposits of registrations
   (explicit amount, or the keyDeposit parameter for the legacy certificate 0) + poolDeposit for
   every pool registration (counted as a first registration; a re-registration is free, which
   only the ledger state can tell) + DRep deposits + proposal deposits; the refunds paid inside
   the transaction are those of stake deregistrations (explicit amount, or keyDeposit for the
   legacy certificate 1) and DRep deregistrations.  Pool deposits are returned at the epoch
   boundary to the reward account: a retirement certificate refunds nothing in the transaction. *)
Definition ledger_deposit (pool_deposit key_deposit : N) (c : cert) : N :=
  match cddl_tag c, cert_coin c with
  | 0, _ => key_deposit
  | 3, _ => pool_deposit
  | 7, Some x | 11, Some x | 12, Some x | 13, Some x | 16, Some x => x
  | _, _ => 0
  end.

Definition ledger_refund (key_deposit : N) (c : cert) : N :=
  match cddl_tag c, cert_coin c with
  | 1, _ => key_deposit
  | 8, Some x | 17, Some x => x
  | _, _ => 0
  end.

Definition sumN (l : list N) : N := fold_right N.add 0 l.
Definition opt_list {A} (o : option (list A)) : list A := match o with Some l => l | None => [] end.

Definition spec_cert_deposits (pool_deposit key_deposit : N) (cs : list cert) : N :=
  sumN (map (ledger_deposit pool_deposit key_deposit) cs).
Definition spec_cert_refunds (key_deposit : N) (cs : list cert) : N :=
  sumN (map (ledger_refund key_deposit) cs).

Definition spec_deposit (b : body) (pool_deposit key_deposit : N) : N :=
  spec_cert_deposits pool_deposit key_deposit (opt_list (b_certs b)) + sumN (opt_list (b_proposals b)).
Definition spec_implicit_input (b : body) (key_deposit : N) : N :=
  sumN (opt_list (b_withdrawals b)) + spec_cert_refunds key_deposit (opt_list (b_certs b)).

(* a 64-bit result: the exact number, or an error when it does not fit *)
Definition exact_or_error (n : N) : result N := if n <? two64 then Ok n else Err.

(* ---------------------------------------------------------------------------------------------
   Known-finding classes (decidable, as narrow as the findings) *)
Definition is_pool_retirement (c : cert) : bool := match c with PoolRetirement => true | _ => false end.

(* C20-pool-retirement-refund: the body retires a pool and the pool deposit parameter is not 0 *)
Definition known_pool_retirement_gen (retire : bool) (b : body) (pool_deposit : N) : bool :=
  retire && existsb is_pool_retirement (opt_list (b_certs b)) && negb (pool_deposit =? 0).
(* C20-deposit-ignores-proposals: the body carries a proposal with a non-zero deposit *)
Definition known_ignores_proposals_gen (ignore_props : bool) (b : body) : bool :=
  ignore_props && existsb (fun d => negb (d =? 0)) (opt_list (b_proposals b)).

Definition known_pool_retirement := known_pool_retirement_gen helper_refunds_pool_retirement.
Definition known_ignores_proposals := known_ignores_proposals_gen helper_ignores_proposals.

(* =============================================================================================
   Case / observation / judge, shared by the driver (extracted) and the theorems. *)
Record case : Type := mk_case {
  k_pool_deposit : N;
  k_key_deposit : N;
  k_certs : option (list (cert * bool));      (* certificate, credential-is-script *)
  k_withdrawals : option (list (bool * N));   (* reward address is script, amount *)
  k_proposals : option (list N);
  k_inputs : list N;
  k_outputs : list N;
  k_donation : option N
}.

Definition case_body (k : case) : body :=
  mk_body (option_map (map fst) (k_certs k)) (option_map (map snd) (k_withdrawals k)) (k_proposals k).
Definition case_txb (k : case) : txb :=
  builder_of_body (case_body k) (k_inputs k) (k_outputs k) (k_donation k) (k_pool_deposit k) (k_key_deposit k).

(* what one run observes, in this order (implementation side: harness/src/bin/c20.rs) *)
Record obs : Type := mk_obs {
  o_helper_deposit : result N;        (* get_deposit(body, pool, key) *)
  o_helper_implicit : result N;       (* get_implicit_input(body, pool, key) *)
  o_helper_deposit_wire : result N;   (* the same two on TransactionBody::from_bytes(body.to_bytes()) *)
  o_helper_implicit_wire : result N;
  o_cb_deposit : result N;            (* CertificatesBuilder::get_certificates_deposit (0 when no certificates) *)
  o_cb_refund : result N;             (* CertificatesBuilder::get_certificates_refund *)
  o_wb_total : result N;              (* WithdrawalsBuilder::get_total_withdrawals *)
  o_tb_deposit : result N;            (* TransactionBuilder::get_deposit *)
  o_tb_implicit : result N;           (* TransactionBuilder::get_implicit_input *)
  o_tb_total_input : result N;
  o_tb_total_output : result N;
  o_helper_deposit_built : result N;  (* the helpers on the body TransactionBuilder::build() produces *)
  o_helper_implicit_built : result N; (* ([Panic] stands for: build() itself failed) *)
  o_set_certs : bool;                 (* deprecated set_certs(Certificates) succeeded *)
  o_set_withdrawals : bool;           (* deprecated set_withdrawals(Withdrawals) succeeded *)
  o_dep_deposit : option (result N);  (* figures of the builder filled through the deprecated setters, *)
  o_dep_implicit : option (result N)  (* when both succeeded *)
}.

Definition is_okb {A} (r : result A) : bool := match r with Ok _ => true | _ => false end.

Definition model_obs (k : case) : obs :=
  let b := case_body k in
  let t := case_txb k in
  let p := k_pool_deposit k in
  let q := k_key_deposit k in
  let cs := opt_list (b_certs b) in
  let sc := set_certs (opt_list (k_certs k)) in
  let sw := set_withdrawals (opt_list (k_withdrawals k)) in
  let dep := match sc, sw with
             | Ok cs', Ok ws' =>
               let t' := mk_txb (k_inputs k) (k_outputs k)
                           (match k_certs k with Some _ => Some cs' | None => None end)
                           (match k_withdrawals k with Some _ => Some ws' | None => None end)
                           (k_proposals k) (k_donation k) p q in
               Some (tb_get_deposit t', tb_get_implicit_input t')
             | _, _ => None
             end in
  mk_obs (get_deposit b p q) (get_implicit_input b p q) (get_deposit b p q) (get_implicit_input b p q)
         (get_certificates_deposit cs p q) (get_certificates_refund cs p q)
         (get_total_withdrawals (opt_list (b_withdrawals b)))
         (tb_get_deposit t) (tb_get_implicit_input t) (tb_get_total_input t) (tb_get_total_output t)
         (get_deposit b p q) (get_implicit_input b p q)
         (is_okb sc) (is_okb sw)
         (option_map fst dep) (option_map snd dep).

(* --- the judge: the property evaluated on the implementation's observation --- *)
Definition res_eqb (a b : result N) : bool :=
  match a, b with
  | Ok x, Ok y => x =? y
  | Err, Err => true
  | Panic, Panic => true
  | OutOfFuel, OutOfFuel => true
  | _, _ => false
  end.

Definition opt_res_ok (o : option (result N)) (expected : result N) : bool :=
  match o with Some r => res_eqb r expected | None => true end.

Inductive verdict : Type := Holds | FailsKnown (class : N) | FailsUnknown.

(* expected figures *)
Definition spec_deposit_res (k : case) : result N :=
  exact_or_error (spec_deposit (case_body k) (k_pool_deposit k) (k_key_deposit k)).
Definition spec_implicit_res (k : case) : result N :=
  exact_or_error (spec_implicit_input (case_body k) (k_key_deposit k)).

Definition judge (k : case) (o : obs) : verdict :=
  let b := case_body k in
  let p := k_pool_deposit k in
  let q := k_key_deposit k in
  let cs := opt_list (b_certs b) in
  let sd := spec_deposit_res k in
  let si := spec_implicit_res k in
  let builder_ok :=
      res_eqb (o_cb_deposit o) (exact_or_error (spec_cert_deposits p q cs))
   && res_eqb (o_cb_refund o) (exact_or_error (spec_cert_refunds q cs))
   && res_eqb (o_wb_total o) (exact_or_error (sumN (opt_list (b_withdrawals b))))
   && res_eqb (o_tb_deposit o) sd
   && res_eqb (o_tb_implicit o) si
   && res_eqb (o_tb_total_input o) (exact_or_error (sumN (k_inputs k) + spec_implicit_input b q))
   && res_eqb (o_tb_total_output o)
        (exact_or_error (sumN (k_outputs k) + spec_deposit b p q + match k_donation k with Some d => d | None => 0 end))
   && opt_res_ok (o_dep_deposit o) sd
   && opt_res_ok (o_dep_implicit o) si in
  (* helper = ledger table, and helper = builder *)
  let hd_ok := forallb (fun r => res_eqb r sd && res_eqb r (o_tb_deposit o))
                       [o_helper_deposit o; o_helper_deposit_wire o; o_helper_deposit_built o] in
  let hi_ok := forallb (fun r => res_eqb r si && res_eqb r (o_tb_implicit o))
                       [o_helper_implicit o; o_helper_implicit_wire o; o_helper_implicit_built o] in
  (* 0 = holds, 1 / 2 = fails inside the known class, 3 = fails outside *)
  let v_hi : N := if hi_ok then 0 else if known_pool_retirement b p then 1 else 3 in
  let v_hd : N := if hd_ok then 0 else if known_ignores_proposals b then 2 else 3 in
  if negb builder_ok || (v_hi =? 3) || (v_hd =? 3) then FailsUnknown
  else if v_hi =? 1 then FailsKnown 1
  else if v_hd =? 2 then FailsKnown 2
  else Holds.
