(* C20 — histories on ONE TransactionBuilder: the setters of the certificate and withdrawal collections
   REPLACE what the builder held, the removers clear it.
     rust/src/builders/tx_builder.rs  set_certs (deprecated: a fresh CertificatesBuilder filled with add; Err leaves the
                                      builder as it was) 1293-1302, remove_certs 1304-1306, set_certs_builder 1308-1310,
                                      set_withdrawals (deprecated, likewise) 1319-1328, set_withdrawals_builder 1330-1332,
                                      remove_withdrawals
   The figures of Deposits.v are those of the collections the builder holds at the end.  The correspondence run
   applies an arbitrary history of these six operations (with other, stale collections) and then the final
   setters of the case (remove_* for an absent collection); HistoryProofs.v proves that the history is then
   irrelevant, which is why the observation of a case with a history is the observation of the case.
   No proofs in this file. *)
From CSL Require Import Base.Prelude Base.U64 Deposits.Deposits Deposits.Ident.
Local Open Scope N_scope.

Inductive hop : Type :=
| HSetCerts (cs : list icert)            (* deprecated set_certs(Certificates) *)
| HSetCertsBuilder (cs : list icert)     (* set_certs_builder *)
| HRemoveCerts
| HSetWdrl (ws : list iwd)               (* deprecated set_withdrawals(Withdrawals) *)
| HSetWdrlBuilder (ws : list iwd)        (* set_withdrawals_builder *)
| HRemoveWdrl.

(* what the builder holds *)
Record tbcoll : Type := mk_tbcoll { tc_certs : option (list icert); tc_wdrl : option (list iwd) }.

Definition needs_script (x : icert) : bool := has_required_script_witness (ic_cert x) (ic_script x).

Definition apply_hop (st : tbcoll) (op : hop) : tbcoll :=
  match op with
  | HSetCerts cs =>
      let e := eff_certs cs in
      if existsb needs_script e then st else mk_tbcoll (Some e) (tc_wdrl st)
  | HSetCertsBuilder cs => mk_tbcoll (Some (eff_certs cs)) (tc_wdrl st)
  | HRemoveCerts => mk_tbcoll None (tc_wdrl st)
  | HSetWdrl ws =>
      let e := eff_wdrl ws in
      if existsb w_script e then st else mk_tbcoll (tc_certs st) (Some e)
  | HSetWdrlBuilder ws => mk_tbcoll (tc_certs st) (Some (eff_wdrl ws))
  | HRemoveWdrl => mk_tbcoll (tc_certs st) None
  end.

Definition run_history (h : list hop) (st : tbcoll) : tbcoll := fold_left apply_hop h st.

(* the final operations of a case: through the sub-builders, or through the deprecated setters *)
Definition final_main (ik : icase) : list hop :=
  [match ik_certs ik with Some cs => HSetCertsBuilder cs | None => HRemoveCerts end;
   match ik_withdrawals ik with Some ws => HSetWdrlBuilder ws | None => HRemoveWdrl end].
Definition final_deprecated (ik : icase) : list hop :=
  [match ik_certs ik with Some cs => HSetCerts cs | None => HRemoveCerts end;
   match ik_withdrawals ik with Some ws => HSetWdrl ws | None => HRemoveWdrl end].

(* the collections of the case itself *)
Definition case_coll (ik : icase) : tbcoll :=
  mk_tbcoll (option_map eff_certs (ik_certs ik)) (option_map eff_wdrl (ik_withdrawals ik)).

(* both deprecated setters of the case succeed *)
Definition deprecated_ok (ik : icase) : bool :=
  negb (existsb needs_script (eff_certs (opt_list (ik_certs ik))))
  && negb (existsb w_script (eff_wdrl (opt_list (ik_withdrawals ik)))).
