(* C20 — proofs about the identified items and their collections (Ident.v). *)
From CSL Require Import Base.Prelude Base.U64 Deposits.Deposits Deposits.DepositsProofs Deposits.Ident.
Local Open Scope N_scope.

(* ---------- the key comparisons decide equality of keys ---------- *)
Lemma optN_eqb_eq a b : optN_eqb a b = true <-> a = b.
Proof.
  destruct a as [x |], b as [y |]; cbn [optN_eqb]; try (split; [discriminate | intros H; inversion H]); [| tauto].
  rewrite N.eqb_eq. split; [intros -> | intros H; inversion H]; reflexivity.
Qed.

Lemma ckey_eqb_eq a b : ckey_eqb a b = true <-> a = b.
Proof.
  destruct a as [t1 c1 s1 r1 p1 v1], b as [t2 c2 s2 r2 p2 v2]. unfold ckey_eqb.
  cbn [ck_tag ck_coin ck_script ck_cred ck_pool ck_var].
  rewrite !andb_true_iff, !N.eqb_eq, optN_eqb_eq, Bool.eqb_true_iff. split.
  - intros [[[[[-> ->] ->] ->] ->] ->]. reflexivity.
  - intros H. inversion H. tauto.
Qed.

Lemma wkey_eqb_eq a b : wkey_eqb a b = true <-> a = b.
Proof.
  destruct a as [[s1 a1] n1], b as [[s2 a2] n2]. unfold wkey_eqb. cbn [fst snd].
  rewrite !andb_true_iff, !N.eqb_eq, Bool.eqb_true_iff. split; [intros [[-> ->] ->] | intros H; inversion H]; tauto.
Qed.

Lemma pkey_eqb_eq a b : pkey_eqb a b = true <-> a = b.
Proof.
  destruct a as [[a1 r1] d1], b as [[a2 r2] d2]. unfold pkey_eqb. cbn [fst snd].
  rewrite !andb_true_iff, !N.eqb_eq. split; [intros [[-> ->] ->] | intros H; inversion H]; tauto.
Qed.

(* ---------- the collections ---------- *)
Section CollectionProofs.
  Context {A K : Type} (key : A -> K) (keqb : K -> K -> bool).
  Hypothesis keqb_eq : forall a b, keqb a b = true <-> a = b.

  Lemma key_mem_iff x st : key_mem key keqb x st = true <-> In (key x) (map key st).
  Proof.
    unfold key_mem. rewrite existsb_exists, in_map_iff. split.
    - intros [y [I E]]. exists y. apply keqb_eq in E. auto.
    - intros [y [E I]]. exists y. split; [exact I |]. apply keqb_eq. auto.
  Qed.

  Lemma key_mem_false x st : key_mem key keqb x st = false <-> ~ In (key x) (map key st).
  Proof. rewrite <- key_mem_iff. destruct (key_mem key keqb x st); split; intros; try discriminate; tauto. Qed.

  (* --- set semantics --- *)
  Lemma nodup_snoc (l : list K) k : NoDup l -> ~ In k l -> NoDup (l ++ [k]).
  Proof.
    induction l as [| a l IH]; cbn [app]; intros H N.
    - constructor; [intros [] | constructor].
    - inversion H as [| ? ? N1 N2]; subst. constructor.
      + rewrite in_app_iff. cbn [In]. intros [I | [E | []]]; [tauto | apply N; left; symmetry; exact E].
      + apply IH; [exact N2 | intros I; apply N; right; exact I].
  Qed.

  Lemma set_add_nodup st x : NoDup (map key st) -> NoDup (map key (set_add key keqb st x)).
  Proof.
    intros H. unfold set_add. destruct (key_mem key keqb x st) eqn:M; [exact H |].
    apply key_mem_false in M. rewrite map_app. cbn [map]. apply nodup_snoc; assumption.
  Qed.

  Lemma fold_set_add_nodup l : forall st, NoDup (map key st) -> NoDup (map key (fold_left (set_add key keqb) l st)).
  Proof. induction l as [| x r IH]; intros st H; cbn [fold_left]; [exact H |]. apply IH, set_add_nodup, H. Qed.

  Lemma set_add_incl st x y : In y (set_add key keqb st x) -> In y st \/ y = x.
  Proof.
    unfold set_add. destruct (key_mem key keqb x st); [auto |].
    rewrite in_app_iff. cbn [In]. intros [H | [H | []]]; auto.
  Qed.

  Lemma fold_set_add_incl l : forall st y, In y (fold_left (set_add key keqb) l st) -> In y st \/ In y l.
  Proof.
    induction l as [| x r IH]; intros st y H; cbn [fold_left] in H; [auto |].
    destruct (IH _ _ H) as [H1 | H1]; [| right; right; exact H1].
    destruct (set_add_incl _ _ _ H1) as [H2 | ->]; [auto | right; left; reflexivity].
  Qed.

  Lemma set_add_mono st x y : In y st -> In y (set_add key keqb st x).
  Proof. unfold set_add. destruct (key_mem key keqb x st); [auto |]. rewrite in_app_iff. auto. Qed.

  Lemma fold_set_add_mono l : forall st y, In y st -> In y (fold_left (set_add key keqb) l st).
  Proof. induction l as [| x r IH]; intros st y H; cbn [fold_left]; [exact H |]. apply IH, set_add_mono, H. Qed.

  Lemma set_add_has_key st x : In (key x) (map key (set_add key keqb st x)).
  Proof.
    unfold set_add. destruct (key_mem key keqb x st) eqn:M; [apply key_mem_iff, M |].
    rewrite map_app, in_app_iff. right. left. reflexivity.
  Qed.

  Lemma fold_set_add_keys_mono l : forall st k, In k (map key st) -> In k (map key (fold_left (set_add key keqb) l st)).
  Proof.
    induction l as [| x r IH]; intros st k H; cbn [fold_left]; [exact H |]. apply IH.
    apply in_map_iff in H. destruct H as [y [<- I]]. apply in_map, set_add_mono, I.
  Qed.

  Lemma fold_set_add_keys l : forall st x, In x l -> In (key x) (map key (fold_left (set_add key keqb) l st)).
  Proof.
    induction l as [| a r IH]; intros st x H; [destruct H |]. destruct H as [-> | H]; cbn [fold_left].
    - apply fold_set_add_keys_mono, set_add_has_key.
    - apply IH, H.
  Qed.

  Lemma fold_set_add_id l : forall st, NoDup (map key (st ++ l)) -> fold_left (set_add key keqb) l st = st ++ l.
  Proof.
    induction l as [| x r IH]; intros st H; cbn [fold_left]; [rewrite app_nil_r; reflexivity |].
    assert (M : key_mem key keqb x st = false).
    { apply key_mem_false. rewrite map_app in H. cbn [map] in H. apply NoDup_remove_2 in H.
      intros I. apply H. rewrite in_app_iff. auto. }
    unfold set_add at 2. rewrite M. rewrite IH; rewrite <- app_assoc; [reflexivity | exact H].
  Qed.

  (* the set holds exactly the distinct items: no key twice, every added key present, nothing invented,
     and a list without equal items is kept as it is *)
  Theorem set_add_all_spec l :
    NoDup (map key (set_add_all key keqb l))
    /\ (forall x, In x l -> In (key x) (map key (set_add_all key keqb l)))
    /\ (forall y, In y (set_add_all key keqb l) -> In y l)
    /\ (NoDup (map key l) -> set_add_all key keqb l = l).
  Proof.
    unfold set_add_all. repeat split.
    - apply fold_set_add_nodup. constructor.
    - intros x H. apply fold_set_add_keys, H.
    - intros y H. destruct (fold_set_add_incl _ _ _ H) as [[] | H1]. exact H1.
    - intros H. apply (fold_set_add_id l []). exact H.
  Qed.

  (* --- map semantics (replacement) --- *)
  Lemma filter_key_notin x st : ~ In (key x) (map key (filter (fun y => negb (keqb (key x) (key y))) st)).
  Proof.
    rewrite in_map_iff. intros [y [E I]]. apply filter_In in I. destruct I as [_ F].
    apply negb_true_iff in F. assert (T : keqb (key x) (key y) = true) by (apply keqb_eq; auto). congruence.
  Qed.

  Lemma nodup_map_filter (f : A -> bool) st : NoDup (map key st) -> NoDup (map key (filter f st)).
  Proof.
    induction st as [| a r IH]; cbn [map filter]; intros H; [constructor |].
    inversion H as [| ? ? N1 N2]; subst. destruct (f a); cbn [map]; [| apply IH, N2].
    constructor; [| apply IH, N2]. intros I. apply N1. apply in_map_iff in I. destruct I as [y [E I]].
    apply filter_In in I. rewrite <- E. apply in_map. tauto.
  Qed.

  Lemma map_insert_nodup st x : NoDup (map key st) -> NoDup (map key (map_insert key keqb st x)).
  Proof.
    intros H. unfold map_insert. rewrite map_app. cbn [map]. apply nodup_snoc.
    - apply nodup_map_filter, H.
    - apply filter_key_notin.
  Qed.

  Lemma fold_map_insert_nodup l : forall st, NoDup (map key st) -> NoDup (map key (fold_left (map_insert key keqb) l st)).
  Proof. induction l as [| x r IH]; intros st H; cbn [fold_left]; [exact H |]. apply IH, map_insert_nodup, H. Qed.

  Lemma map_insert_incl st x y : In y (map_insert key keqb st x) -> In y st \/ y = x.
  Proof.
    unfold map_insert. rewrite in_app_iff. cbn [In]. intros [H | [H | []]]; [| auto].
    apply filter_In in H. tauto.
  Qed.

  Lemma fold_map_insert_incl l : forall st y, In y (fold_left (map_insert key keqb) l st) -> In y st \/ In y l.
  Proof.
    induction l as [| x r IH]; intros st y H; cbn [fold_left] in H; [auto |].
    destruct (IH _ _ H) as [H1 | H1]; [| right; right; exact H1].
    destruct (map_insert_incl _ _ _ H1) as [H2 | ->]; [auto | right; left; reflexivity].
  Qed.

  Lemma map_insert_keeps st x y : In y st -> key y <> key x -> In y (map_insert key keqb st x).
  Proof.
    intros I N. unfold map_insert. rewrite in_app_iff. left. apply filter_In. split; [exact I |].
    apply negb_true_iff. destruct (keqb (key x) (key y)) eqn:E; [| reflexivity]. apply keqb_eq in E. congruence.
  Qed.

  Lemma fold_map_insert_keeps l : forall st y, In y st -> (forall x, In x l -> key x <> key y) ->
    In y (fold_left (map_insert key keqb) l st).
  Proof.
    induction l as [| x r IH]; intros st y I N; cbn [fold_left]; [exact I |].
    apply IH; [| intros z Hz; apply N; right; exact Hz].
    apply map_insert_keeps; [exact I |]. intros E. apply (N x); [left; reflexivity | auto].
  Qed.

  Lemma map_insert_has st x : In x (map_insert key keqb st x).
  Proof. unfold map_insert. rewrite in_app_iff. right. left. reflexivity. Qed.

  Lemma fold_map_insert_id l : forall st, NoDup (map key (st ++ l)) -> fold_left (map_insert key keqb) l st = st ++ l.
  Proof.
    induction l as [| x r IH]; intros st H; cbn [fold_left]; [rewrite app_nil_r; reflexivity |].
    assert (F : filter (fun y => negb (keqb (key x) (key y))) st = st).
    { rewrite map_app in H. cbn [map] in H. apply NoDup_remove_2 in H.
      assert (N : forall y, In y st -> key x <> key y).
      { intros y I E. apply H. rewrite in_app_iff. left. rewrite E. apply in_map, I. }
      clear H. induction st as [| a s IHs]; cbn [filter]; [reflexivity |].
      destruct (keqb (key x) (key a)) eqn:E; cbn [negb].
      - apply keqb_eq in E. exfalso. apply (N a); [left; reflexivity | exact E].
      - f_equal. apply IHs. intros y I. apply N. right. exact I. }
    unfold map_insert at 2. rewrite F. rewrite IH; rewrite <- app_assoc; [reflexivity | exact H].
  Qed.

  (* the map holds one entry per key, the LAST one added under that key; nothing is invented; a list
     with distinct keys is kept as it is *)
  Theorem map_insert_all_spec l :
    NoDup (map key (map_insert_all key keqb l))
    /\ (forall l1 x l2, l = l1 ++ x :: l2 -> (forall y, In y l2 -> key y <> key x) -> In x (map_insert_all key keqb l))
    /\ (forall y, In y (map_insert_all key keqb l) -> In y l)
    /\ (NoDup (map key l) -> map_insert_all key keqb l = l).
  Proof.
    unfold map_insert_all. repeat split.
    - apply fold_map_insert_nodup. constructor.
    - intros l1 x l2 -> N. rewrite fold_left_app. cbn [fold_left].
      apply fold_map_insert_keeps; [apply map_insert_has | exact N].
    - intros y H. destruct (fold_map_insert_incl _ _ _ H) as [[] | H1]. exact H1.
    - intros H. apply (fold_map_insert_id l []). exact H.
  Qed.
End CollectionProofs.

(* ---------- instances ---------- *)
Definition eff_certs_spec l := set_add_all_spec cert_key ckey_eqb ckey_eqb_eq l.
Definition eff_props_spec l := set_add_all_spec prop_key pkey_eqb pkey_eqb_eq l.
Definition eff_wdrl_spec l := map_insert_all_spec wd_key wkey_eqb wkey_eqb_eq l.

(* ---------- the judge accepts the model ---------- *)
Lemma sizes_ok_model ik : sizes_ok ik (imodel_obs ik) = true.
Proof. unfold sizes_ok, imodel_obs. cbn [io_n_certs io_n_cb io_n_wdrl io_n_wb io_n_props io_n_pb]. rewrite !N.eqb_refl. reflexivity. Qed.

Lemma ijudge_model_holds_gen ik :
  known_pool_retirement (case_body (effective ik)) (ik_pool_deposit ik) = false ->
  known_ignores_proposals (case_body (effective ik)) = false ->
  ijudge ik (imodel_obs ik) = Holds.
Proof.
  intros K1 K2. unfold ijudge. rewrite sizes_ok_model. unfold imodel_obs. cbn [io_base].
  apply judge_model_holds; assumption.
Qed.

(* both defects of the helpers are repaired in /repo (switches false): no exclusion is left *)
Lemma ijudge_model_holds ik : ijudge ik (imodel_obs ik) = Holds.
Proof. apply ijudge_model_holds_gen; reflexivity. Qed.

(* a mismatch in a size is never accepted *)
Lemma ijudge_sizes ik o : ijudge ik o = Holds -> sizes_ok ik o = true.
Proof. unfold ijudge. destruct (sizes_ok ik o); [reflexivity | discriminate]. Qed.

(* ---------- what the figures are for identified items ---------- *)
(* the builder charges every certificate the map holds, whatever else it shares with another one *)
Lemma builder_deposit_identified l p q :
  get_certificates_deposit (map ic_cert (eff_certs l)) p q
  = exact_or_error (spec_cert_deposits p q (map ic_cert (eff_certs l))).
Proof. apply certificates_deposit_exact. Qed.

(* two registrations of one pool operator that differ in another parameter are charged twice *)
Lemma same_operator_charged_twice p q cred op v1 v2 s :
  v1 <> v2 ->
  get_certificates_deposit
    (map ic_cert (eff_certs [mk_icert PoolRegistration s (mk_ident cred op v1); mk_icert PoolRegistration s (mk_ident cred op v2)])) p q
  = exact_or_error (p + p).
Proof.
  intros N. unfold eff_certs, set_add_all. cbn [fold_left]. unfold set_add at 2. cbn [key_mem existsb].
  unfold set_add. cbn [app key_mem existsb].
  assert (E : ckey_eqb (cert_key (mk_icert PoolRegistration s (mk_ident cred op v2)))
                       (cert_key (mk_icert PoolRegistration s (mk_ident cred op v1))) = false).
  { destruct (ckey_eqb _ _) eqn:E; [| reflexivity]. apply ckey_eqb_eq in E. inversion E. congruence. }
  rewrite E. cbn [orb app map ic_cert]. rewrite certificates_deposit_exact.
  unfold spec_cert_deposits. cbn [map sumN fold_right ledger_deposit cddl_tag cert_coin]. rewrite N.add_0_r. reflexivity.
Qed.

(* a certificate added twice is held, and charged, once *)
Lemma equal_certificate_charged_once x :
  map ic_cert (eff_certs [x; x]) = [ic_cert x].
Proof.
  unfold eff_certs, set_add_all. cbn [fold_left]. unfold set_add at 2. cbn [key_mem existsb app].
  unfold set_add. cbn [key_mem existsb].
  assert (E : ckey_eqb (cert_key x) (cert_key x) = true) by (apply ckey_eqb_eq; reflexivity).
  rewrite E. reflexivity.
Qed.

(* the second amount given for a reward account replaces the first *)
Lemma withdrawal_replaced s a n c1 c2 :
  map plain_wd (eff_wdrl [mk_iwd s a n c1; mk_iwd s a n c2]) = [(s, c2)].
Proof.
  unfold eff_wdrl, map_insert_all. cbn [fold_left]. unfold map_insert. cbn [filter app].
  unfold wd_key, wkey_eqb. cbn [fst snd w_script w_acct w_net]. rewrite Bool.eqb_reflx, !N.eqb_refl. reflexivity.
Qed.

(* the same credential on two networks is two reward accounts: both amounts are kept *)
Lemma different_network_kept s a n1 n2 c1 c2 : n1 <> n2 ->
  map plain_wd (eff_wdrl [mk_iwd s a n1 c1; mk_iwd s a n2 c2]) = [(s, c1); (s, c2)].
Proof.
  intros N. unfold eff_wdrl, map_insert_all. cbn [fold_left]. unfold map_insert. cbn [filter app].
  unfold wd_key, wkey_eqb. cbn [fst snd w_script w_acct w_net].
  rewrite Bool.eqb_reflx, N.eqb_refl. destruct (N.eqb_spec n2 n1); [congruence |]. reflexivity.
Qed.

(* ---------- positional identities: the first-generation case lines mean what they meant ---------- *)
Lemma number_from_map {A B} (f : N -> A -> B) (g : B -> A) i l :
  (forall j x, g (f j x) = x) -> map g (number_from f i l) = l.
Proof. intros H. revert i. induction l as [| x r IH]; intros i; cbn [number_from map]; [reflexivity |]. rewrite H, IH. reflexivity. Qed.

Lemma number_from_bound {A B} (f : N -> A -> B) (idx : B -> N) l :
  (forall j x, idx (f j x) = j) -> forall i y, In y (number_from f i l) -> i <= idx y.
Proof.
  intros H. induction l as [| x r IH]; intros i y; cbn [number_from In]; [tauto |].
  intros [<- | I]; [rewrite H; lia |]. specialize (IH _ _ I). lia.
Qed.

Lemma number_from_nodup {A B K} (f : N -> A -> B) (key : B -> K) (idx : B -> N) l :
  (forall j x, idx (f j x) = j) -> (forall a b, key a = key b -> idx a = idx b) ->
  forall i, NoDup (map key (number_from f i l)).
Proof.
  intros H1 H2. induction l as [| x r IH]; intros i; cbn [number_from map]; constructor; [| apply IH].
  rewrite in_map_iff. intros [y [E I]]. apply H2 in E. rewrite H1 in E.
  pose proof (number_from_bound f idx r H1 _ _ I). lia.
Qed.

(* every kind carries at least one identity, so certificates numbered (i,i,i) are pairwise different *)
Lemma cert_key_positional_index c s i :
  let k := cert_key (mk_icert c s (mk_ident i i i)) in
  N.max (ck_cred k) (N.max (ck_pool k) (ck_var k)) = i.
Proof.
  destruct c as [[?|]|[?|]| | | | | | | | ? | ? | | | ? | ? | | ?];
    cbn [cert_key ic_cert ic_id ic_script cddl_tag uses_cred uses_pool uses_var i_cred i_pool i_var ck_cred ck_pool ck_var];
    try lia.
  destruct (N.even i); lia.
Qed.

Theorem effective_positional k : effective (positional k) = k.
Proof.
  destruct k as [p q cs ws ps ins outs don]. unfold effective, positional.
  cbn [ik_pool_deposit ik_key_deposit ik_certs ik_withdrawals ik_proposals ik_inputs ik_outputs ik_donation
       k_pool_deposit k_key_deposit k_certs k_withdrawals k_proposals k_inputs k_outputs k_donation].
  f_equal.
  - destruct cs as [l |]; cbn [option_map]; [| reflexivity]. f_equal.
    destruct (eff_certs_spec (number_from (fun i cs => mk_icert (fst cs) (snd cs) (mk_ident i i i)) 0 l)) as [_ [_ [_ Id]]].
    unfold eff_certs. rewrite Id.
    + apply number_from_map. intros j [c s]. reflexivity.
    + apply (number_from_nodup _ cert_key (fun x => N.max (ck_cred (cert_key x)) (N.max (ck_pool (cert_key x)) (ck_var (cert_key x))))).
      * intros j [c s]. apply cert_key_positional_index.
      * intros a b E. rewrite E. reflexivity.
  - destruct ws as [l |]; cbn [option_map]; [| reflexivity]. f_equal.
    destruct (eff_wdrl_spec (number_from (fun i sw => mk_iwd (fst sw) i (N.modulo i 2) (snd sw)) 0 l)) as [_ [_ [_ Id]]].
    unfold eff_wdrl. rewrite Id.
    + apply number_from_map. intros j [s w]. reflexivity.
    + apply (number_from_nodup _ wd_key w_acct).
      * intros j [s w]. reflexivity.
      * intros a b E. unfold wd_key in E. inversion E. reflexivity.
  - destruct ps as [l |]; cbn [option_map]; [| reflexivity]. f_equal.
    destruct (eff_props_spec (number_from (fun i d => mk_iprop i i d) 0 l)) as [_ [_ [_ Id]]].
    unfold eff_props. rewrite Id.
    + apply number_from_map. intros j d. reflexivity.
    + apply (number_from_nodup _ prop_key p_act).
      * intros j d. reflexivity.
      * intros a b E. unfold prop_key in E. inversion E. reflexivity.
Qed.
