(* Sorted association lists keyed by byte strings (the model of a Rust BTreeMap<K, _> whose key order is the
   byte order of some key image): polymorphic insertion, and the facts the serde layer needs:
   the result is strictly sorted, it is a permutation of the input when keys are distinct, two strictly
   sorted permutations are equal, and lookup finds every entry. *)
From CSL Require Import Base.Prelude Json.Json Json.JsonProofs.
From Coq Require Import Permutation.
Local Open Scope N_scope.

Section Assoc.
  Context {A : Type}.

  Fixpoint ainsert (k : bytes) (v : A) (l : list (bytes * A)) : list (bytes * A) :=
    match l with
    | [] => [(k, v)]
    | (k', v') :: r =>
        match bytes_cmp k k' with
        | Lt => (k, v) :: l
        | Eq => (k, v) :: r
        | Gt => (k', v') :: ainsert k v r
        end
    end.
  Definition aof_list (l : list (bytes * A)) : list (bytes * A) :=
    fold_left (fun acc kv => ainsert (fst kv) (snd kv) acc) l [].
  Fixpoint aget (k : bytes) (l : list (bytes * A)) : option A :=
    match l with
    | [] => None
    | (k', v) :: r => if bytes_eqb k' k then Some v else aget k r
    end.

  Lemma bytes_cmp_gt_lt a b : bytes_cmp a b = Gt -> bytes_ltb b a = true.
  Proof. intros H. unfold bytes_ltb. rewrite (bytes_cmp_antisym a b), H. reflexivity. Qed.
  Lemma bytes_cmp_lt_ltb a b : bytes_cmp a b = Lt -> bytes_ltb a b = true.
  Proof. intros H. unfold bytes_ltb. now rewrite H. Qed.

  (* head-bounded sortedness: every key of l is above k *)
  Definition above (k : bytes) (l : list (bytes * A)) : Prop := Forall (fun kv => bytes_ltb k (fst kv) = true) l.

  Lemma asc_cons k v l : keys_ascending ((k, v) :: l) = true <-> keys_ascending l = true /\ above k l.
  Proof.
    split.
    - apply keys_ascending_cons.
    - intros [H1 H2]. destruct l as [|[k' v'] r]; [reflexivity|]. cbn [keys_ascending].
      inversion H2; subst. cbn [fst] in *. now rewrite H3.
  Qed.

  Lemma ainsert_above k0 k v l : bytes_ltb k0 k = true -> above k0 l -> above k0 (ainsert k v l).
  Proof.
    intros Hk. unfold above. induction 1 as [|[k' v'] r H H0 IH]; cbn [ainsert]; [constructor; [exact Hk|constructor]|].
    destruct (bytes_cmp k k').
    - constructor; [exact Hk|exact H0].
    - constructor; [exact Hk|]. constructor; [exact H|exact H0].
    - constructor; [exact H|exact IH].
  Qed.

  Lemma ainsert_sorted k v l : keys_ascending l = true -> keys_ascending (ainsert k v l) = true.
  Proof.
    induction l as [|[k' v'] r IH]; intros H; [reflexivity|]. cbn [ainsert].
    apply asc_cons in H as [Hr Ha].
    destruct (bytes_cmp k k') eqn:E.
    - apply bytes_cmp_eq in E. subst k'. apply asc_cons. split; assumption.
    - apply asc_cons. split; [apply asc_cons; split; assumption|].
      constructor; [now apply bytes_cmp_lt_ltb|]. eapply Forall_impl; [|exact Ha].
      intros kv Hkv. eapply bytes_ltb_trans; [apply bytes_cmp_lt_ltb; exact E|exact Hkv].
    - apply asc_cons. split; [now apply IH|]. apply ainsert_above; [now apply bytes_cmp_gt_lt|exact Ha].
  Qed.

  Lemma aof_list_sorted_gen l : forall acc, keys_ascending acc = true ->
    keys_ascending (fold_left (fun acc kv => ainsert (fst kv) (snd kv) acc) l acc) = true.
  Proof. induction l as [|[k v] r IH]; intros acc H; [exact H|]. cbn [fold_left]. apply IH. now apply ainsert_sorted. Qed.
  Theorem aof_list_sorted l : keys_ascending (aof_list l) = true.
  Proof. now apply aof_list_sorted_gen. Qed.

  Lemma ainsert_perm k v l : ~ In k (List.map fst l) -> Permutation (ainsert k v l) ((k, v) :: l).
  Proof.
    induction l as [|[k' v'] r IH]; intros H; [reflexivity|]. cbn [ainsert]. cbn [List.map fst In] in H.
    destruct (bytes_cmp k k') eqn:E.
    - apply bytes_cmp_eq in E. subst. exfalso. apply H. now left.
    - reflexivity.
    - rewrite perm_swap. apply perm_skip. apply IH. tauto.
  Qed.
  Lemma aof_list_perm_gen l : forall acc, NoDup (List.map fst (acc ++ l)) ->
    Permutation (fold_left (fun acc kv => ainsert (fst kv) (snd kv) acc) l acc) (acc ++ l).
  Proof.
    induction l as [|[k v] r IH]; intros acc H; cbn [fold_left]; [now rewrite app_nil_r|].
    cbn [fst snd].
    assert (Hk : ~ In k (List.map fst acc)).
    { rewrite map_app in H. cbn [List.map fst] in H. apply NoDup_remove_2 in H. intros Hin. apply H, in_or_app. now left. }
    pose proof (ainsert_perm k v acc Hk) as P.
    eapply Permutation_trans.
    - apply IH. rewrite map_app in H |- *. cbn [List.map fst] in H. eapply Permutation_NoDup; [|exact H].
      eapply Permutation_trans; [symmetry; apply Permutation_middle|].
      change (k :: List.map fst acc ++ List.map fst r) with ((k :: List.map fst acc) ++ List.map fst r).
      apply Permutation_app_tail. symmetry. exact (Permutation_map fst P).
    - eapply Permutation_trans; [apply Permutation_app_tail; exact P|]. cbn [app]. apply Permutation_middle.
  Qed.
  Theorem aof_list_perm l : NoDup (List.map fst l) -> Permutation (aof_list l) l.
  Proof. intros H. unfold aof_list. now apply (aof_list_perm_gen l []). Qed.

  (* strictly sorted lists with the same elements are equal *)
  Lemma above_not_in k l v : above k l -> ~ In (k, v) l.
  Proof.
    intros Ha Hin. unfold above in Ha. rewrite Forall_forall in Ha. specialize (Ha _ Hin). cbn [fst] in Ha.
    now rewrite bytes_ltb_irrefl in Ha.
  Qed.
  Lemma sorted_perm_eq (l1 : list (bytes * A)) : forall l2,
    keys_ascending l1 = true -> keys_ascending l2 = true -> Permutation l1 l2 -> l1 = l2.
  Proof.
    induction l1 as [|[k1 v1] r1 IH]; intros l2 H1 H2 P.
    - apply Permutation_nil in P. now subst.
    - destruct l2 as [|[k2 v2] r2]; [symmetry in P; apply Permutation_nil in P; discriminate|].
      apply asc_cons in H1 as [S1 A1]. apply asc_cons in H2 as [S2 A2].
      assert (E : (k1, v1) = (k2, v2)).
      { assert (I1 : In (k1, v1) ((k2, v2) :: r2)) by (eapply Permutation_in; [exact P|now left]).
        assert (I2 : In (k2, v2) ((k1, v1) :: r1)) by (eapply Permutation_in; [symmetry; exact P|now left]).
        destruct I1 as [I1|I1]; [now symmetry|]. destruct I2 as [I2|I2]; [exact I2|].
        unfold above in A1, A2. rewrite Forall_forall in A1, A2.
        specialize (A1 _ I2). specialize (A2 _ I1). cbn [fst] in *.
        pose proof (bytes_ltb_trans _ _ _ A1 A2) as C. now rewrite bytes_ltb_irrefl in C. }
      inversion E; subst. f_equal. apply IH; [assumption|assumption|]. now apply Permutation_cons_inv in P.
  Qed.

  Lemma asc_NoDup (l : list (bytes * A)) : keys_ascending l = true -> NoDup (List.map fst l).
  Proof.
    induction l as [|[k v] r IH]; intros H; [constructor|]. apply asc_cons in H as [H1 H2].
    cbn [List.map fst]. constructor; [|auto]. intros Hin. apply in_map_iff in Hin as [[k' v'] [E Hin]]. cbn [fst] in E. subst k'.
    exact (above_not_in _ _ _ H2 Hin).
  Qed.

  Theorem aof_list_sorted_id l : keys_ascending l = true -> aof_list l = l.
  Proof.
    intros H. apply sorted_perm_eq; [apply aof_list_sorted|exact H|]. apply aof_list_perm. now apply asc_NoDup.
  Qed.

  (* the sorted form of any rearrangement of a strictly sorted list is that list *)
  Theorem aof_list_of_perm l l' : keys_ascending l = true -> Permutation l' l -> aof_list l' = l.
  Proof.
    intros H P. apply sorted_perm_eq; [apply aof_list_sorted|exact H|].
    eapply Permutation_trans; [|exact P]. apply aof_list_perm.
    eapply Permutation_NoDup; [symmetry; apply Permutation_map; exact P|now apply asc_NoDup].
  Qed.

  (* every entry of the result was an entry of the input *)
  Lemma ainsert_in k v l e : In e (ainsert k v l) -> e = (k, v) \/ In e l.
  Proof.
    induction l as [|[k' v'] r IH]; cbn [ainsert]; [intros [<-|[]]; now left|].
    destruct (bytes_cmp k k'); cbn [In].
    - intros [<-|H]; [now left|right; now right].
    - intros [<-|H]; [now left|now right].
    - intros [<-|H]; [right; now left|]. destruct (IH H) as [->|H']; [now left|right; now right].
  Qed.
  Lemma aof_list_in_gen l : forall acc e,
    In e (fold_left (fun acc kv => ainsert (fst kv) (snd kv) acc) l acc) -> In e acc \/ In e l.
  Proof.
    induction l as [|[k v] r IH]; intros acc e H; [now left|]. cbn [fold_left fst snd] in H.
    destruct (IH _ _ H) as [H1|H1].
    - destruct (ainsert_in _ _ _ _ H1) as [->|H2]; [right; now left|now left].
    - right. now right.
  Qed.
  Lemma aof_list_in l e : In e (aof_list l) -> In e l.
  Proof. intros H. destruct (aof_list_in_gen l [] e H) as [[]|H']; exact H'. Qed.

  (* lookup *)
  Lemma aget_in k v l : NoDup (List.map fst l) -> In (k, v) l -> aget k l = Some v.
  Proof.
    induction l as [|[k' v'] r IH]; intros Hnd Hin; [destruct Hin|]. cbn [aget]. cbn [List.map fst] in Hnd. inversion Hnd; subst.
    destruct Hin as [E|Hin].
    - inversion E; subst. now rewrite bytes_eqb_refl.
    - destruct (bytes_eqb k' k) eqn:E; [|now apply IH].
      apply bytes_eqb_eq in E. subst. exfalso. apply H1. apply in_map_iff. exists (k, v). split; [reflexivity|exact Hin].
  Qed.
  Theorem aget_of_list k v l : NoDup (List.map fst l) -> In (k, v) l -> aget k (aof_list l) = Some v.
  Proof.
    intros Hnd Hin. pose proof (aof_list_perm l Hnd) as P. apply aget_in.
    - eapply Permutation_NoDup; [symmetry; apply Permutation_map; exact P|exact Hnd].
    - eapply Permutation_in; [symmetry; exact P|exact Hin].
  Qed.
  Lemma aget_none k l : ~ In k (List.map fst l) -> aget k l = None.
  Proof.
    induction l as [|[k' v'] r IH]; intros H; [reflexivity|]. cbn [aget]. cbn [List.map fst In] in H.
    destruct (bytes_eqb k' k) eqn:E; [apply bytes_eqb_eq in E; tauto|]. apply IH. tauto.
  Qed.
End Assoc.

(* mapping the payloads commutes with sorting *)
Lemma ainsert_map {A B} (f : A -> B) k v l :
  ainsert k (f v) (List.map (fun kv => (fst kv, f (snd kv))) l) = List.map (fun kv => (fst kv, f (snd kv))) (ainsert k v l).
Proof.
  induction l as [|[k' v'] r IH]; [reflexivity|]. cbn [ainsert List.map fst snd].
  destruct (bytes_cmp k k'); cbn [List.map fst snd]; [reflexivity|reflexivity|now rewrite IH].
Qed.
Lemma aof_list_map {A B} (f : A -> B) l :
  aof_list (List.map (fun kv => (fst kv, f (snd kv))) l) = List.map (fun kv => (fst kv, f (snd kv))) (aof_list l).
Proof.
  unfold aof_list. change (@nil (bytes * B)) with (List.map (fun kv : bytes * A => (fst kv, f (snd kv))) []).
  generalize (@nil (bytes * A)). induction l as [|[k v] r IH]; intros acc; [reflexivity|].
  cbn [List.map fold_left fst snd]. rewrite ainsert_map. apply IH.
Qed.

(* the JSON object operations are this structure at A = json *)
Lemma obj_insert_ainsert k v l : obj_insert k v l = ainsert k v l.
Proof. induction l as [|[k' v'] r IH]; [reflexivity|]. cbn [obj_insert ainsert]. now rewrite IH. Qed.
Lemma obj_of_list_aof_list l : obj_of_list l = aof_list l.
Proof.
  unfold obj_of_list, aof_list. generalize (@nil (bytes * json)). induction l as [|[k v] r IH]; intros acc; [reflexivity|].
  cbn [fold_left]. rewrite obj_insert_ainsert. apply IH.
Qed.
Lemma obj_get_aget k l : obj_get k l = aget k l.
Proof. induction l as [|[k' v'] r IH]; [reflexivity|]. cbn [obj_get aget]. now rewrite IH. Qed.
