From CSL Require Import Base.Prelude Json.Json Json.JsonProofs Json.MetadataJson Json.Chunks.
Local Open Scope N_scope.

Lemma chunks_fuel_concat f : forall bs, (List.length bs <= f)%nat -> concat (chunks_fuel f bs) = bs.
Proof.
  induction f as [|f IH]; intros bs H.
  - destruct bs; [reflexivity|cbn in H; lia].
  - destruct bs as [|b r]; [reflexivity|]. cbn [chunks_fuel concat].
    rewrite IH; [apply firstn_skipn|]. rewrite skipn_length. cbn [List.length] in *. lia.
Qed.

Lemma chunks_fuel_small f : forall bs, Forall (fun ch => (List.length ch <= 64)%nat) (chunks_fuel f bs).
Proof.
  induction f as [|f IH]; intros bs; [constructor|]. destruct bs as [|b r]; [constructor|].
  cbn [chunks_fuel]. constructor; [apply firstn_le_length|apply IH].
Qed.

Lemma chunks_fuel_nonempty f : forall bs, Forall (fun ch => ch <> []) (chunks_fuel f bs).
Proof.
  induction f as [|f IH]; intros bs; [constructor|]. destruct bs as [|b r]; [constructor|].
  cbn [chunks_fuel]. constructor; [discriminate|apply IH].
Qed.

Lemma mapM_chunk_md l : Forall (fun ch => (List.length ch <= 64)%nat) l -> mapM chunk_md l = Ok (List.map MBytes l).
Proof.
  induction 1 as [|ch r H _ IH]; [reflexivity|]. cbn [mapM List.map]. unfold chunk_md at 1, new_bytes, MD_MAX_LEN, blen.
  destruct (64 <? N.of_nat (List.length ch)) eqn:E; [lia|]. cbn [bind]. now rewrite IH.
Qed.

Theorem encode_arbitrary_bytes_ok bs : encode_arbitrary_bytes bs = Ok (MList (List.map MBytes (chunks bs))).
Proof. unfold encode_arbitrary_bytes. rewrite mapM_chunk_md by apply chunks_fuel_small. reflexivity. Qed.

Lemma decode_bytes_list l : decode_arbitrary_bytes (MList (List.map MBytes l)) = Ok (concat l).
Proof.
  cbn [decode_arbitrary_bytes]. induction l as [|b r IH]; [reflexivity|]. cbn [List.map concat]. now rewrite IH.
Qed.

(* decode (encode bs) = bs for every byte string *)
Theorem chunks_roundtrip bs :
  exists m, encode_arbitrary_bytes bs = Ok m /\ decode_arbitrary_bytes m = Ok bs.
Proof.
  exists (MList (List.map MBytes (chunks bs))). split; [apply encode_arbitrary_bytes_ok|].
  rewrite decode_bytes_list. unfold chunks. now rewrite chunks_fuel_concat.
Qed.

(* the encoding is valid metadata: every piece has at most 64 bytes *)
Theorem chunks_wf bs : bytes_ok bs -> md_wf (MList (List.map MBytes (chunks bs))) = true.
Proof.
  intros Hb. cbn [md_wf]. rewrite forallb_forall. intros m Hm. apply in_map_iff in Hm as [ch [<- Hin]].
  cbn [md_wf]. apply andb_true_intro. split.
  - unfold bytes_okb. rewrite forallb_forall. intros x Hx.
    assert (In x bs).
    { unfold chunks in Hin. rewrite <- (chunks_fuel_concat (List.length bs) bs (le_n _)). apply in_concat. eauto. }
    unfold bytes_ok in Hb. rewrite Forall_forall in Hb. specialize (Hb _ H). lia.
  - pose proof (chunks_fuel_small (List.length bs) bs) as F. rewrite Forall_forall in F. specialize (F _ Hin).
    unfold blen, MD_MAX_LEN. lia.
Qed.

(* anything that is not a list of byte strings is rejected *)
Theorem decode_arbitrary_bytes_err m :
  (forall l, m <> MList (List.map MBytes l)) -> decode_arbitrary_bytes m = Err.
Proof.
  destruct m as [| l | | |]; try reflexivity. intros H. cbn [decode_arbitrary_bytes].
  assert (G : forall l, (forall l', l <> List.map MBytes l') ->
            (fix go (l : list md) : result bytes := match l with [] => Ok [] | MBytes b :: r => let* t := go r in Ok (b ++ t) | _ :: _ => Err end) l = Err).
  { clear. induction l as [|x r IH]; intros H; [exfalso; now apply (H [])|].
    destruct x; try reflexivity. rewrite IH; [reflexivity|]. intros l' ->. now apply (H (b :: l')). }
  apply G. intros l' ->. now apply (H l').
Qed.
