(* Model of rust/src/protocol_types/plutus/plutus_data.rs:
     PlutusData trees (lines 16-36, 75-158, 170-253; equality ignores original_bytes / definite_encoding),
     PlutusMap::add_value (lines 142-147), encode_json_value_to_plutus_datum (lines 860-1020),
     decode_plutus_datum_to_json_value (lines 1033-1120), bigint_to_serde_value (arbitrary-precision variant,
     lines 1129-1133), num_bigint's BigInt::from_str (external crate, rules transcribed).
   Definitions only; lemmas in PlutusJsonProofs.v. *)
From CSL Require Import Base.Prelude Base.Hex Json.Decimal Json.Json Json.MetadataJson.
From Coq Require Import Decimal.
Local Open Scope N_scope.

(* PMap: LinkedHashMap<PlutusData, PlutusMapValues> in insertion order, every key with its LIST of values
   (keys pairwise distinct: [pd_wf]); PConstr: alternative is a BigNum (u64: [pd_wf]); PInt: arbitrary BigInt. *)
Inductive pd : Type :=
| PConstr (alt : Z) (fields : list pd)
| PMap (l : list (pd * list pd))
| PList (l : list pd)
| PInt (z : Z)
| PBytes (b : bytes).

Inductive pschema := PBasic | PDetailed.

Definition list_eqb {A} (f : A -> A -> bool) : list A -> list A -> bool :=
  fix go (x y : list A) : bool :=
    match x, y with
    | [], [] => true
    | a :: x', b :: y' => f a b && go x' y'
    | _, _ => false
    end.
Fixpoint pd_eqb (a b : pd) : bool :=
  match a, b with
  | PConstr n x, PConstr m y => (n =? m)%Z && list_eqb pd_eqb x y
  | PMap x, PMap y =>
      list_eqb (fun p q => match p, q with (ka, va), (kb, vb) => pd_eqb ka kb && list_eqb pd_eqb va vb end) x y
  | PList x, PList y => list_eqb pd_eqb x y
  | PInt x, PInt y => (x =? y)%Z
  | PBytes x, PBytes y => bytes_eqb x y
  | _, _ => false
  end.

(* PlutusMap::add_value: entry(key).or_insert_with(new).add(value).  hashlink's Entry::or_insert_with moves an
   OCCUPIED entry to the back of the insertion order before handing out its value list. *)
Fixpoint pm_find (k : pd) (m : list (pd * list pd)) : option (list pd) :=
  match m with
  | [] => None
  | (k', vs) :: r => if pd_eqb k' k then Some vs else pm_find k r
  end.
Definition add_value (k v : pd) (m : list (pd * list pd)) : list (pd * list pd) :=
  match pm_find k m with
  | Some vs => filter (fun kv => negb (pd_eqb (fst kv) k)) m ++ [(k, vs ++ [v])]
  | None => m ++ [(k, [v])]
  end.
Definition pmap_of_list (l : list (pd * pd)) : list (pd * list pd) :=
  fold_left (fun acc kv => add_value (fst kv) (snd kv) acc) l [].

(* ---------- num_bigint: BigUint / BigInt ::from_str (radix 10) ---------- *)
Definition strip_underscores (s : bytes) : bytes := filter (fun c => negb (c =? 95)) s.
Definition parse_biguint (s : bytes) : option Z :=
  let s := match s with 43 :: t => (match t with 43 :: _ => s | _ => t end) | _ => s end in
  match s with
  | [] => None
  | 95 :: _ => None                          (* must lead with a real digit *)
  | _ => option_map (fun u => Z.of_int (Decimal.Pos u)) (digits_uint (strip_underscores s))
  end.
Definition parse_bigint (s : bytes) : option Z :=
  match s with
  | 45 :: t => option_map Z.opp (parse_biguint (match t with 43 :: _ => s | _ => t end))
  | _ => parse_biguint s
  end.

(* ---------- JSON -> datum ---------- *)
(* lines 866-873: BigInt::from_str on the number's literal text *)
Definition p_encode_number (j : json) : result pd :=
  match j with
  | JInt z => Ok (PInt z)
  | JNegZero => Ok (PInt 0)
  | JFloat lit => match parse_bigint lit with Some z => Ok (PInt z) | None => Err end
  | _ => Err
  end.

(* lines 885-917 *)
Definition p_encode_string (s : bytes) (sc : pschema) (is_key : bool) : result pd :=
  match sc with
  | PBasic =>
      if starts_with k_0x s then
        match unhex (skipn 2 s) with Some b => Ok (PBytes b) | None => Err end
      else if is_key then
        match parse_bigint s with Some x => Ok (PInt x) | None => Ok (PBytes s) end
      else Ok (PBytes s)
  | PDetailed =>
      if starts_with k_0x s then Err
      else match unhex s with Some b => Ok (PBytes b) | None => Err end
  end.

Definition p_entry_shape_ok (c : cfg) (l : list (bytes * json)) : bool :=
  has_key k_k l && has_key k_v l && (c_entry_lenient c || (List.length l =? 2)%nat).

Fixpoint j2p (c : cfg) (sc : pschema) (j : json) {struct j} : result pd :=
  match sc with
  | PBasic =>
      match j with
      | JNull => Err
      | JBool _ => Err
      | JInt _ | JNegZero | JFloat _ => p_encode_number j
      | JStr s => p_encode_string s sc false
      | JArr l => let* xs := mapM (j2p c sc) l in Ok (PList xs)
      | JObj l =>
          let* kvs := mapM (fun kv => match kv with (rk, rv) =>
                               let* k := p_encode_string rk sc true in
                               let* v := j2p c sc rv in
                               Ok (k, v) end) l in
          Ok (PMap (pmap_of_list kvs))
      end
  | PDetailed =>
      match j with
      | JObj [(k, v)] =>
          if bytes_eqb k k_int then
            match v with JInt _ | JNegZero | JFloat _ => p_encode_number v | _ => Err end
          else if bytes_eqb k k_bytes then
            match v with JStr s => p_encode_string s sc false | _ => Err end
          else if bytes_eqb k k_list then
            match v with
            | JArr l => let* xs := mapM (j2p c sc) l in Ok (PList xs)
            | _ => Err
            end
          else if bytes_eqb k k_map then
            match v with
            | JArr es =>
                let* kvs := mapM (fun e =>
                   match e with
                   | JObj l2 =>
                       if p_entry_shape_ok c l2 then
                         let* pk := on_key k_k (j2p c sc) Err l2 in
                         let* pv := on_key k_v (j2p c sc) Err l2 in
                         Ok (pk, pv)
                       else Err
                   | _ => Err
                   end) es in
                Ok (PMap (pmap_of_list kvs))
            | _ => Err
            end
          else Err
      | JObj [(k1, v1); (k2, v2)] =>
          (* lines 989-1010: both "constructor" (an unsigned 64-bit number) and "fields" (an array) *)
          let l := [(k1, v1); (k2, v2)] in
          match obj_get k_constructor l with
          | Some a =>
              match as_u64 a with
              | Some alt =>
                  if has_key k_fields l then
                    on_key k_fields (fun f => match f with
                                              | JArr fs => let* xs := mapM (j2p c sc) fs in Ok (PConstr alt xs)
                                              | _ => Err
                                              end) Err l
                  else Err
              | None => Err
              end
          | None => Err
          end
      | _ => Err
      end
  end.

(* ---------- datum -> JSON ---------- *)
(* strict UTF-8 validity (String::from_utf8) *)
Definition cont (b : N) : bool := (128 <=? b) && (b <=? 191).
Fixpoint utf8_valid (l : bytes) : bool :=
  match l with
  | [] => true
  | b0 :: r =>
      if b0 <? 128 then utf8_valid r
      else if (194 <=? b0) && (b0 <=? 223) then
        match r with b1 :: r2 => cont b1 && utf8_valid r2 | _ => false end
      else if (224 <=? b0) && (b0 <=? 239) then
        match r with
        | b1 :: b2 :: r3 =>
            (if b0 =? 224 then (160 <=? b1) && (b1 <=? 191)
             else if b0 =? 237 then (128 <=? b1) && (b1 <=? 159)
             else cont b1) && cont b2 && utf8_valid r3
        | _ => false
        end
      else if (240 <=? b0) && (b0 <=? 244) then
        match r with
        | b1 :: b2 :: b3 :: r4 =>
            (if b0 =? 240 then (144 <=? b1) && (b1 <=? 191)
             else if b0 =? 244 then (128 <=? b1) && (b1 <=? 143)
             else cont b1) && cont b2 && cont b3 && utf8_valid r4
        | _ => false
        end
      else false
  end.
(* some char is a control character (general category Cc: U+0000-001F, U+007F-009F), on valid UTF-8 *)
Fixpoint has_control (l : bytes) : bool :=
  match l with
  | [] => false
  | b0 :: r =>
      (b0 <? 32) || (b0 =? 127) ||
      (match r with b1 :: _ => (b0 =? 194) && (128 <=? b1) && (b1 <=? 159) | [] => false end) ||
      has_control r
  end.

Definition p_wrap (sc : pschema) (tag : bytes) (v : json) : json :=
  match sc with PDetailed => JObj [(tag, v)] | PBasic => v end.

(* line 1055-1061: key of a BasicConversions map *)
Definition p_decode_key (k : pd) : result bytes :=
  match k with
  | PInt x => Ok (print_Z x)
  | PBytes b => if utf8_valid b then Ok b else Ok (k_0x ++ hex b)
  | _ => Err
  end.

Fixpoint p2j (sc : pschema) (p : pd) {struct p} : result json :=
  match p with
  | PConstr alt fs =>
      let* xs := mapM (p2j sc) fs in
      Ok (JObj [(k_constructor, JInt alt); (k_fields, JArr xs)])
  | PMap l =>
      match sc with
      | PBasic =>
          let* kvs := mapM (fun kv => match kv with (k, vs) =>
                               let* ks := p_decode_key k in
                               match vs with
                               | [v] => let* jv := p2j sc v in Ok (ks, jv)
                               | _ => Err
                               end end) l in
          Ok (JObj (obj_of_list kvs))
      | PDetailed =>
          let* ess := mapM (fun kv => match kv with (k, vs) =>
                               mapM (fun v => let* jk := p2j sc k in
                                              let* jv := p2j sc v in
                                              Ok (JObj [(k_k, jk); (k_v, jv)])) vs end) l in
          Ok (JObj [(k_map, JArr (concat ess))])
      end
  | PList l => let* xs := mapM (p2j sc) l in Ok (p_wrap sc k_list (JArr xs))
  | PInt z => Ok (p_wrap sc k_int (JInt z))
  | PBytes b =>
      match sc with
      | PBasic => Ok (JStr (if utf8_valid b && negb (has_control b) then b else k_0x ++ hex b))
      | PDetailed => Ok (JObj [(k_bytes, JStr (hex b))])
      end
  end.

(* ---------- representation invariant and the known class ---------- *)
Fixpoint pkeys_nodupb (ks : list pd) : bool :=
  match ks with [] => true | k :: r => negb (existsb (pd_eqb k) r) && pkeys_nodupb r end.
Definition ppairs_all (fk : pd -> bool) (fv : list pd -> bool) : list (pd * list pd) -> bool :=
  fix go (l : list (pd * list pd)) : bool :=
    match l with [] => true | (k, vs) :: r => fk k && fv vs && go r end.
Fixpoint pd_wf (p : pd) : bool :=
  match p with
  | PConstr alt fs => in_range 0 u64_max alt && forallb pd_wf fs
  | PMap l => pkeys_nodupb (List.map fst l) && ppairs_all pd_wf (forallb pd_wf) l
  | PList l => forallb pd_wf l
  | PInt _ => true
  | PBytes b => bytes_okb b
  end.
(* every key of every map (at any depth) has at least one value *)
Fixpoint pd_values_nonempty (p : pd) : bool :=
  match p with
  | PConstr _ fs => forallb pd_values_nonempty fs
  | PMap l => ppairs_all pd_values_nonempty
                (fun vs => match vs with [] => false | _ => forallb pd_values_nonempty vs end) l
  | PList l => forallb pd_values_nonempty l
  | _ => true
  end.
(* known class C17-plutus-map-empty-values: some map holds a key with an empty list of values
   (PlutusMap::insert(key, &PlutusMapValues::new())): neither JSON nor CBOR records such a key *)
Definition pd_has_empty_values (p : pd) : bool := negb (pd_values_nonempty p).

(* the documented input language of the detailed Plutus schema *)
Definition is_some {A} (o : option A) : bool := match o with Some _ => true | None => false end.
Fixpoint pdom_detailed (j : json) : bool :=
  match j with
  | JObj [(k, v)] =>
      if bytes_eqb k k_int then
        match v with JInt _ | JNegZero => true | JFloat lit => is_some (parse_bigint lit) | _ => false end
      else if bytes_eqb k k_bytes then
        match v with JStr s => negb (starts_with k_0x s) && is_some (unhex s) | _ => false end
      else if bytes_eqb k k_list then match v with JArr l => forallb pdom_detailed l | _ => false end
      else if bytes_eqb k k_map then match v with JArr es => entries_all k_k k_v pdom_detailed es | _ => false end
      else false
  | JObj [(k1, v1); (k2, v2)] =>
      bytes_eqb k1 k_constructor && bytes_eqb k2 k_fields && is_some (as_u64 v1) &&
      match v2 with JArr fs => forallb pdom_detailed fs | _ => false end
  | _ => false
  end.


(* ---------- the BasicConversions schema: what it can express, declaratively ---------- *)
(* datum -> JSON: map keys are integers or byte strings and every key holds exactly one value, at every depth
   (plutus_data.rs:1055-1075); everything else converts *)
Definition pbasic_key_ok (k : pd) : bool := match k with PInt _ | PBytes _ => true | _ => false end.
Fixpoint pbasic_dom (p : pd) : bool :=
  match p with
  | PConstr _ fs => forallb pbasic_dom fs
  | PMap l => ppairs_all pbasic_key_ok (fun vs => match vs with [v] => pbasic_dom v | _ => false end) l
  | PList l => forallb pbasic_dom l
  | PInt _ | PBytes _ => true
  end.
(* JSON -> datum: no null / bool, number literals that num-bigint parses, strings starting with 0x must be hex
   (plutus_data.rs:885-907, 923-945) *)
Definition pbasic_str_ok (s : bytes) : bool :=
  if starts_with k_0x s then is_some (unhex (skipn 2 s)) else true.
Fixpoint pbasic_json_dom (j : json) : bool :=
  match j with
  | JNull | JBool _ => false
  | JInt _ | JNegZero => true
  | JFloat lit => is_some (parse_bigint lit)
  | JStr s => pbasic_str_ok s
  | JArr l => forallb pbasic_json_dom l
  | JObj l => obj_all pbasic_str_ok pbasic_json_dom l
  end.
